(* Reg/RegistryProofs.v -- invariants of every reachable world of Reg/RegistryModel.v (C14) and the lemmas about
   the individual transitions that Reg/CopyProofs.v (C13) builds on. *)
From Coq Require Import ZArith Lia ZifyNat ZifyBool List Bool Arith.
From OVM Require Import Base.ListX Reg.RegistryModel.
Import ListNotations.
Local Open Scope nat_scope.

(* ====================================================================== lists *)

Lemma nth_error_upd {A} (i j : nat) (x : A) (l : list A) :
  nth_error (upd i x l) j = if (i =? j) && (i <? length l) then Some x else nth_error l j.
Proof.
  revert i j; induction l as [|h t IH]; intros i j.
  - destruct i; simpl; replace (_ && _) with false; auto;
      symmetry; apply andb_false_iff; right; apply Nat.ltb_ge; lia.
  - destruct i as [|i], j as [|j]; simpl; auto.
    rewrite IH. reflexivity.
Qed.

Lemma upd_length' {A} (i : nat) (x : A) l : length (upd i x l) = length l.
Proof. revert i; induction l as [|h t IH]; intros [|i]; simpl; auto. Qed.

Lemma nth_error_app_last {A} (l : list A) (x : A) (j : nat) :
  nth_error (l ++ [x]) j = if j =? length l then Some x else nth_error l j.
Proof.
  destruct (Nat.eqb_spec j (length l)) as [->|N].
  - rewrite nth_error_app2 by lia. rewrite Nat.sub_diag. reflexivity.
  - destruct (Nat.lt_ge_cases j (length l)).
    + apply nth_error_app1; assumption.
    + rewrite (proj2 (nth_error_None l j)) by lia.
      apply nth_error_None. rewrite app_length; simpl; lia.
Qed.

Lemma remove_val_In' x y l : In y (remove_val x l) <-> In y l /\ y <> x.
Proof.
  unfold remove_val. rewrite filter_In. split; intros [H1 H2]; split; auto.
  - intros ->. rewrite Nat.eqb_refl in H2. discriminate.
  - destruct (Nat.eqb_spec y x); simpl; congruence.
Qed.

Lemma remove_val_NoDup x l : NoDup l -> NoDup (remove_val x l).
Proof. intros. apply NoDup_filter; assumption. Qed.

Lemma remove_val_notin x l : ~ In x l -> remove_val x l = l.
Proof.
  induction l as [|h t IH]; simpl; intros H; auto.
  destruct (Nat.eqb_spec h x) as [->|N]; simpl.
  - exfalso; apply H; auto.
  - f_equal; apply IH; tauto.
Qed.

Lemma remove_val_app_last x l : ~ In x l -> remove_val x (l ++ [x]) = l.
Proof.
  intros H. unfold remove_val. rewrite filter_app. simpl. rewrite Nat.eqb_refl. simpl.
  rewrite app_nil_r. apply remove_val_notin; assumption.
Qed.

Lemma remove_val_head x l : ~ In x l -> remove_val x (x :: l) = l.
Proof. intros H. simpl. rewrite Nat.eqb_refl. simpl. apply remove_val_notin; assumption. Qed.

Lemma memb_In' x l : memb x l = true <-> In x l.
Proof.
  unfold memb. rewrite existsb_exists. split.
  - intros [y [H1 H2]]. apply Nat.eqb_eq in H2. subst; assumption.
  - intros H. exists x. split; auto. apply Nat.eqb_refl.
Qed.

Lemma NoDup_app_last {A} (l : list A) x : NoDup l -> ~ In x l -> NoDup (l ++ [x]).
Proof.
  intros H1 H2.
  induction l as [|h t IH]; simpl.
  - constructor; [intros []|constructor].
  - inversion H1; subst. constructor.
    + rewrite in_app_iff. simpl. intros [H|[H|[]]]; auto. subst. apply H2; left; reflexivity.
    + apply IH; auto. intros H; apply H2; right; assumption.
Qed.

Lemma find_ext' {A} (f g : A -> bool) l : (forall x, f x = g x) -> find f l = find g l.
Proof. intros H. induction l as [|h t IH]; simpl; auto. rewrite H, IH. reflexivity. Qed.

Lemma NoDup_app_l {A} (l l' : list A) : NoDup (l ++ l') -> NoDup l.
Proof.
  induction l as [|h t IH]; simpl; intros H; [constructor|].
  inversion H; subst. constructor; auto. intros Hin. apply H2. apply in_or_app. left. exact Hin.
Qed.

Lemma Forall2_impl' {A B} (P Q : A -> B -> Prop) l l' :
  (forall a b, P a b -> Q a b) -> Forall2 P l l' -> Forall2 Q l l'.
Proof. intros H F. induction F; constructor; auto. Qed.

Lemma Forall2_impl_in {A B} (P Q : A -> B -> Prop) l l' :
  (forall a b, In b l' -> P a b -> Q a b) -> Forall2 P l l' -> Forall2 Q l l'.
Proof.
  intros H F. induction F; constructor.
  - apply H; auto. left; reflexivity.
  - apply IHF. intros a b Hb. apply H. right; exact Hb.
Qed.

Lemma Forall2_impl_in2 {A B} (P Q : A -> B -> Prop) l l' :
  (forall a b, In a l -> In b l' -> P a b -> Q a b) -> Forall2 P l l' -> Forall2 Q l l'.
Proof.
  intros H F. induction F; constructor.
  - apply H; auto; left; reflexivity.
  - apply IHF. intros a b Ha Hb. apply H; right; assumption.
Qed.

Lemma Forall2_In_l {A B} (P : A -> B -> Prop) l l' a :
  Forall2 P l l' -> In a l -> exists b, In b l' /\ P a b.
Proof.
  induction 1; simpl; [tauto|]. intros [<-|Hin].
  - exists y. auto.
  - destruct (IHForall2 Hin) as [b [Hb Pb]]. exists b. auto.
Qed.

Lemma kind_eqb_spec a b : reflect (a = b) (kind_eqb a b).
Proof. destruct a, b; simpl; constructor; congruence. Qed.
Lemma vtype_eqb_spec a b : reflect (a = b) (vtype_eqb a b).
Proof. destruct a, b; simpl; constructor; congruence. Qed.
Lemma kind_eqb_refl a : kind_eqb a a = true.
Proof. destruct a; reflexivity. Qed.
Lemma vtype_eqb_refl a : vtype_eqb a a = true.
Proof. destruct a; reflexivity. Qed.

(* ====================================================================== lookups after the primitive updates *)

Lemma get_st_with_heap_upd w s x s' :
  get_st (with_heap (upd s x (heap w)) w) s' =
  if (s =? s') && (s <? length (heap w)) then x else get_st w s'.
Proof.
  unfold get_st, with_heap; simpl. rewrite nth_error_upd.
  destruct ((s =? s') && (s <? length (heap w))); auto. destruct x; reflexivity.
Qed.

Lemma get_st_lt w s st : get_st w s = Some st -> s < length (heap w).
Proof.
  unfold get_st. destruct (nth_error (heap w) s) eqn:E; try discriminate.
  intros _. apply nth_error_Some. congruence.
Qed.

Lemma get_mesh_lt w m r : get_mesh w m = Some r -> m < length (meshes w).
Proof.
  unfold get_mesh. destruct (nth_error (meshes w) m) eqn:E; try discriminate.
  intros _. apply nth_error_Some. congruence.
Qed.

Lemma get_h_lt w h s : get_h w h = Some s -> h < length (handles w).
Proof.
  unfold get_h. destruct (nth_error (handles w) h) eqn:E; try discriminate.
  intros _. apply nth_error_Some. congruence.
Qed.

Lemma get_st_ge w s : length (heap w) <= s -> get_st w s = None.
Proof. intros H. unfold get_st. rewrite (proj2 (nth_error_None _ _)); auto. Qed.
Lemma get_mesh_ge w m : length (meshes w) <= m -> get_mesh w m = None.
Proof. intros H. unfold get_mesh. rewrite (proj2 (nth_error_None _ _)); auto. Qed.

(* upd_st *)
Lemma get_st_upd_st w s f s' :
  get_st (upd_st s f w) s' = if s' =? s then option_map f (get_st w s') else get_st w s'.
Proof.
  unfold upd_st. destruct (get_st w s) as [st|] eqn:E.
  - rewrite get_st_with_heap_upd. apply get_st_lt in E as L.
    destruct (Nat.eqb_spec s s') as [->|N].
    + rewrite Nat.eqb_refl. replace (s' <? length (heap w)) with true by (symmetry; apply Nat.ltb_lt; lia).
      simpl. rewrite E. reflexivity.
    + simpl. destruct (Nat.eqb_spec s' s); [congruence|reflexivity].
  - destruct (Nat.eqb_spec s' s) as [->|N]; auto. rewrite E. reflexivity.
Qed.
Lemma meshes_upd_st w s f : meshes (upd_st s f w) = meshes w.
Proof. unfold upd_st. destruct (get_st w s); reflexivity. Qed.
Lemma handles_upd_st w s f : handles (upd_st s f w) = handles w.
Proof. unfold upd_st. destruct (get_st w s); reflexivity. Qed.
Lemma get_mesh_upd_st w s f m : get_mesh (upd_st s f w) m = get_mesh w m.
Proof. unfold get_mesh. rewrite meshes_upd_st. reflexivity. Qed.
Lemma get_h_upd_st w s f h : get_h (upd_st s f w) h = get_h w h.
Proof. unfold get_h. rewrite handles_upd_st. reflexivity. Qed.
Lemma heap_length_upd_st w s f : length (heap (upd_st s f w)) = length (heap w).
Proof. unfold upd_st. destruct (get_st w s); simpl; auto. apply upd_length'. Qed.

(* upd_mesh *)
Lemma get_mesh_upd_mesh w m f m' :
  get_mesh (upd_mesh m f w) m' = if m' =? m then option_map f (get_mesh w m') else get_mesh w m'.
Proof.
  unfold upd_mesh. destruct (get_mesh w m) as [r|] eqn:E.
  - unfold get_mesh at 1. unfold with_meshes; simpl. rewrite nth_error_upd. apply get_mesh_lt in E as L.
    destruct (Nat.eqb_spec m m') as [->|N].
    + rewrite Nat.eqb_refl. replace (m' <? length (meshes w)) with true by (symmetry; apply Nat.ltb_lt; lia).
      simpl. rewrite E. reflexivity.
    + simpl. destruct (Nat.eqb_spec m' m); [congruence|reflexivity].
  - destruct (Nat.eqb_spec m' m) as [->|N]; auto. rewrite E. reflexivity.
Qed.
Lemma heap_upd_mesh w m f : heap (upd_mesh m f w) = heap w.
Proof. unfold upd_mesh. destruct (get_mesh w m); reflexivity. Qed.
Lemma handles_upd_mesh w m f : handles (upd_mesh m f w) = handles w.
Proof. unfold upd_mesh. destruct (get_mesh w m); reflexivity. Qed.
Lemma get_st_upd_mesh w m f s : get_st (upd_mesh m f w) s = get_st w s.
Proof. unfold get_st. rewrite heap_upd_mesh. reflexivity. Qed.
Lemma get_h_upd_mesh w m f h : get_h (upd_mesh m f w) h = get_h w h.
Proof. unfold get_h. rewrite handles_upd_mesh. reflexivity. Qed.
Lemma meshes_length_upd_mesh w m f : length (meshes (upd_mesh m f w)) = length (meshes w).
Proof. unfold upd_mesh. destruct (get_mesh w m); simpl; auto. apply upd_length'. Qed.

(* appending *)
Lemma get_st_app w x s' :
  get_st (with_heap (heap w ++ [x]) w) s' = if s' =? length (heap w) then x else get_st w s'.
Proof.
  unfold get_st, with_heap; simpl. rewrite nth_error_app_last.
  destruct (s' =? length (heap w)); auto. destruct x; reflexivity.
Qed.
Lemma get_mesh_app w x m' :
  get_mesh (with_meshes (meshes w ++ [x]) w) m' = if m' =? length (meshes w) then x else get_mesh w m'.
Proof.
  unfold get_mesh, with_meshes; simpl. rewrite nth_error_app_last.
  destruct (m' =? length (meshes w)); auto. destruct x; reflexivity.
Qed.
Lemma get_h_app w x h' :
  get_h (with_handles (handles w ++ [x]) w) h' = if h' =? length (handles w) then x else get_h w h'.
Proof.
  unfold get_h, with_handles; simpl. rewrite nth_error_app_last.
  destruct (h' =? length (handles w)); auto. destruct x; reflexivity.
Qed.

Lemma get_h_kill w h h' : get_h (kill_handle h w) h' = if h' =? h then None else get_h w h'.
Proof.
  unfold get_h, kill_handle, with_handles; simpl. rewrite nth_error_upd.
  destruct (Nat.eqb_spec h h') as [->|N]; simpl.
  - rewrite Nat.eqb_refl. destruct (Nat.ltb_spec h' (length (handles w))); auto.
    rewrite (proj2 (nth_error_None _ _)); auto.
  - destruct (Nat.eqb_spec h' h); [congruence|reflexivity].
Qed.

Lemma get_mesh_kill w m m' :
  get_mesh (with_meshes (upd m None (meshes w)) w) m' = if m' =? m then None else get_mesh w m'.
Proof.
  unfold get_mesh, with_meshes; simpl. rewrite nth_error_upd.
  destruct (Nat.eqb_spec m m') as [->|N]; simpl.
  - rewrite Nat.eqb_refl. destruct (Nat.ltb_spec m' (length (meshes w))); auto.
    rewrite (proj2 (nth_error_None _ _)); auto.
  - destruct (Nat.eqb_spec m' m); [congruence|reflexivity].
Qed.

(* ====================================================================== held *)

Lemma held_spec w s :
  held w s = true <->
  (exists h, get_h w h = Some s) \/
  (exists m r, get_mesh w m = Some r /\ (m_pos r = Some s \/ In s (m_pers r))).
Proof.
  unfold held. rewrite orb_true_iff, !existsb_exists. split.
  - intros [[x [Hin Hx]]|[x [Hin Hx]]].
    + left. destruct x as [y|]; simpl in Hx; try discriminate. apply Nat.eqb_eq in Hx. subst.
      apply In_nth_error in Hin. destruct Hin as [h Hh]. exists h. unfold get_h. rewrite Hh. reflexivity.
    + right. destruct x as [r|]; try discriminate.
      apply In_nth_error in Hin. destruct Hin as [m Hm]. exists m, r. split.
      * unfold get_mesh. rewrite Hm. reflexivity.
      * unfold mesh_holds in Hx. apply orb_true_iff in Hx. destruct Hx as [Hx|Hx].
        -- left. destruct (m_pos r); simpl in Hx; try discriminate. apply Nat.eqb_eq in Hx. congruence.
        -- right. apply memb_In'. assumption.
  - intros [[h Hh]|[m [r [Hm Hr]]]].
    + left. exists (Some s). split.
      * unfold get_h in Hh. destruct (nth_error (handles w) h) as [[y|]|] eqn:E; try discriminate.
        inversion Hh; subst. eapply nth_error_In; eauto.
      * simpl. apply Nat.eqb_refl.
    + right. exists (Some r). split.
      * unfold get_mesh in Hm. destruct (nth_error (meshes w) m) as [[y|]|] eqn:E; try discriminate.
        inversion Hm; subst. eapply nth_error_In; eauto.
      * unfold mesh_holds. apply orb_true_iff. destruct Hr as [Hr|Hr].
        -- left. rewrite Hr. simpl. apply Nat.eqb_refl.
        -- right. apply memb_In'. assumption.
Qed.

Lemma held_false_spec w s :
  held w s = false <->
  (forall h, get_h w h <> Some s) /\
  (forall m r, get_mesh w m = Some r -> m_pos r <> Some s /\ ~ In s (m_pers r)).
Proof.
  split.
  - intros H. split.
    + intros h Hh. assert (held w s = true) by (apply held_spec; left; eauto). congruence.
    + intros m r Hm. split; intros Hx; assert (held w s = true) by (apply held_spec; right; eauto); congruence.
  - intros [H1 H2]. destruct (held w s) eqn:E; auto. apply held_spec in E.
    destruct E as [[h Hh]|[m [r [Hm [Hr|Hr]]]]].
    + exfalso; eapply H1; eauto.
    + exfalso; eapply (proj1 (H2 _ _ Hm)); eauto.
    + exfalso; eapply (proj2 (H2 _ _ Hm)); eauto.
Qed.

(* ====================================================================== lookups after the composite updates *)

Ltac dnat := repeat match goal with
  | |- context [?a =? ?b] => destruct (Nat.eqb_spec a b); subst
  | H : context [?a =? ?b] |- _ => destruct (Nat.eqb_spec a b); subst
  end.

Lemma snd_alloc st w : snd (alloc st w) = length (heap w).
Proof. reflexivity. Qed.

Lemma get_st_alloc st w s' :
  get_st (fst (alloc st w)) s' = if s' =? length (heap w) then Some st else get_st w s'.
Proof.
  unfold alloc; simpl. destruct (s_owner st); unfold tracker_add; rewrite ?get_st_upd_mesh; apply get_st_app.
Qed.

Lemma get_mesh_alloc st w m' :
  get_mesh (fst (alloc st w)) m' =
  match s_owner st with
  | Some m => if m' =? m then option_map (fun r => with_tracked (m_tracked r ++ [length (heap w)]) r) (get_mesh w m')
              else get_mesh w m'
  | None => get_mesh w m'
  end.
Proof.
  unfold alloc; simpl. destruct (s_owner st); unfold tracker_add; rewrite ?get_mesh_upd_mesh; reflexivity.
Qed.

Lemma get_h_alloc st w h : get_h (fst (alloc st w)) h = get_h w h.
Proof. unfold alloc; simpl. destruct (s_owner st); unfold tracker_add; rewrite ?get_h_upd_mesh; reflexivity. Qed.

Lemma heap_length_alloc st w : length (heap (fst (alloc st w))) = S (length (heap w)).
Proof.
  unfold alloc; simpl. destruct (s_owner st); unfold tracker_add; rewrite ?heap_upd_mesh; simpl;
    rewrite app_length; simpl; lia.
Qed.

Lemma get_st_free w s s' : get_st (free s w) s' = if s' =? s then None else get_st w s'.
Proof.
  unfold free. destruct (get_st w s) as [st|] eqn:E.
  - assert (L : s < length (heap w)) by (eapply get_st_lt; eauto).
    destruct (s_owner st); unfold tracker_remove;
      rewrite get_st_with_heap_upd, ?heap_upd_mesh, ?get_st_upd_mesh;
      (destruct (Nat.eqb_spec s s') as [->|N]; simpl;
       [rewrite Nat.eqb_refl; replace (s' <? length (heap w)) with true by (symmetry; apply Nat.ltb_lt; lia); reflexivity
       | destruct (Nat.eqb_spec s' s); [congruence|reflexivity]]).
  - destruct (Nat.eqb_spec s' s); subst; auto.
Qed.

Lemma get_mesh_free w s m' :
  get_mesh (free s w) m' =
  match get_st w s with
  | Some st => match s_owner st with
               | Some m => if m' =? m then option_map (fun r => with_tracked (remove_val s (m_tracked r)) r) (get_mesh w m')
                           else get_mesh w m'
               | None => get_mesh w m'
               end
  | None => get_mesh w m'
  end.
Proof.
  unfold free. destruct (get_st w s) as [st|]; auto.
  destruct (s_owner st); unfold tracker_remove, get_mesh at 1, with_heap; simpl; auto.
  fold (get_mesh (upd_mesh n (fun r => with_tracked (remove_val s (m_tracked r)) r) w) m').
  apply get_mesh_upd_mesh.
Qed.

Lemma get_h_free w s h : get_h (free s w) h = get_h w h.
Proof.
  unfold free. destruct (get_st w s) as [st|]; auto.
  destruct (s_owner st); unfold tracker_remove, get_h, with_heap; simpl; rewrite ?handles_upd_mesh; reflexivity.
Qed.

Lemma get_st_set_tracker w s t s' :
  get_st (set_tracker s t w) s' = if s' =? s then option_map (with_owner t) (get_st w s') else get_st w s'.
Proof.
  unfold set_tracker. destruct (get_st w s) as [st|] eqn:E.
  - destruct t, (s_owner st); unfold tracker_add, tracker_remove;
      rewrite ?get_st_upd_mesh, get_st_upd_st, ?get_st_upd_mesh; reflexivity.
  - destruct (Nat.eqb_spec s' s); subst; auto. rewrite E; reflexivity.
Qed.

Lemma get_h_set_tracker w s t h : get_h (set_tracker s t w) h = get_h w h.
Proof.
  unfold set_tracker. destruct (get_st w s) as [st|]; auto.
  destruct t, (s_owner st); unfold tracker_add, tracker_remove;
    rewrite ?get_h_upd_mesh, get_h_upd_st, ?get_h_upd_mesh; reflexivity.
Qed.

(* ====================================================================== the invariant *)

Definition key_eq (a b : storage) : Prop :=
  s_name a = s_name b /\ s_type a = s_type b /\ s_kind a = s_kind b.

(* [X] = storages that are momentarily alive without an owner of a shared_ptr in the world (a local variable of the
   running C++ function holds them) *)
Record inv_x (X : nat -> Prop) (w : world) : Prop := {
  iv_pers_shared : forall s st, get_st w s = Some st -> s_pers st = true -> s_shared st = true;
  iv_named : forall s st, get_st w s = Some st -> s_shared st = true -> s_name st <> 0;
  iv_unique : forall s1 s2 st1 st2 m, get_st w s1 = Some st1 -> get_st w s2 = Some st2 ->
      s_owner st1 = Some m -> s_owner st2 = Some m -> s_shared st1 = true -> s_shared st2 = true ->
      key_eq st1 st2 -> s1 = s2;
  iv_tracked : forall m r s, get_mesh w m = Some r ->
      (In s (m_tracked r) <-> exists st, get_st w s = Some st /\ s_owner st = Some m);
  iv_tracked_nodup : forall m r, get_mesh w m = Some r -> NoDup (m_tracked r);
  iv_pers : forall m r s, get_mesh w m = Some r ->
      (In s (m_pers r) <-> exists st, get_st w s = Some st /\ s_owner st = Some m /\ s_pers st = true);
  iv_pers_nodup : forall m r, get_mesh w m = Some r -> NoDup (m_pers r);
  iv_pos : forall m r p, get_mesh w m = Some r -> m_pos r = Some p ->
      exists st, get_st w p = Some st /\ s_owner st = Some m;
  iv_handle : forall h s, get_h w h = Some s -> exists st, get_st w s = Some st;
  iv_held : forall s st, get_st w s = Some st -> ~ X s -> held w s = true;
  iv_owner : forall s st m, get_st w s = Some st -> s_owner st = Some m -> exists r, get_mesh w m = Some r
}.

Definition inv (w : world) : Prop := inv_x (fun _ => False) w.

Lemma inv_x_weaken (X Y : nat -> Prop) w : (forall s, X s -> Y s) -> inv_x X w -> inv_x Y w.
Proof. intros H [? ? ? ? ? ? ? ? ? ? ?]; constructor; auto. intros s st Hs HY. eauto. Qed.

Lemma inv_empty : inv empty_world.
Proof.
  constructor; unfold get_st, get_mesh, get_h; simpl; intros;
    repeat match goal with H : context [nth_error [] ?x] |- _ => destruct x; simpl in H end; try discriminate.
Qed.

Lemma inv_fresh X w s st : inv_x X w -> get_st w s = Some st -> s < length (heap w).
Proof. intros _ H. eapply get_st_lt; eauto. Qed.

Lemma tracked_lt X w m r s : inv_x X w -> get_mesh w m = Some r -> In s (m_tracked r) -> s < length (heap w).
Proof. intros I Hm Hs. apply (iv_tracked _ _ I _ _ s Hm) in Hs. destruct Hs as [st [Hs _]]. eapply get_st_lt; eauto. Qed.

Lemma pers_lt X w m r s : inv_x X w -> get_mesh w m = Some r -> In s (m_pers r) -> s < length (heap w).
Proof. intros I Hm Hs. apply (iv_pers _ _ I _ _ s Hm) in Hs. destruct Hs as [st [Hs _]]. eapply get_st_lt; eauto. Qed.

(* the persistent set is a subset of the tracker set *)
Lemma pers_tracked X w m r s : inv_x X w -> get_mesh w m = Some r -> In s (m_pers r) -> In s (m_tracked r).
Proof.
  intros I Hm Hs. apply (iv_pers _ _ I _ _ s Hm) in Hs. destruct Hs as [st [Hs [Ho _]]].
  apply (iv_tracked _ _ I _ _ s Hm). eauto.
Qed.

Lemma pos_tracked X w m r p : inv_x X w -> get_mesh w m = Some r -> m_pos r = Some p -> In p (m_tracked r).
Proof.
  intros I Hm Hp. destruct (iv_pos _ _ I _ _ _ Hm Hp) as [st [Hs Ho]].
  apply (iv_tracked _ _ I _ _ p Hm). eauto.
Qed.

(* ====================================================================== worlds that differ only in data / kernel state *)

Definition fields_eq (a b : storage) : Prop :=
  s_name a = s_name b /\ s_type a = s_type b /\ s_kind a = s_kind b /\ s_shared a = s_shared b /\
  s_pers a = s_pers b /\ s_owner a = s_owner b /\ s_def a = s_def b.
Definition mrec_eq (a b : meshrec) : Prop :=
  m_tracked a = m_tracked b /\ m_pers a = m_pers b /\ m_pos a = m_pos b.
Definition opt_rel {A} (R : A -> A -> Prop) (x y : option A) : Prop :=
  match x, y with Some a, Some b => R a b | None, None => True | _, _ => False end.

(* w' is w up to property values and kernel state *)
Definition sim (w w' : world) : Prop :=
  (forall s, opt_rel fields_eq (get_st w s) (get_st w' s)) /\
  (forall m, opt_rel mrec_eq (get_mesh w m) (get_mesh w' m)) /\
  (forall h, get_h w h = get_h w' h).

Lemma fields_eq_refl a : fields_eq a a.
Proof. repeat split. Qed.
Lemma fields_eq_sym a b : fields_eq a b -> fields_eq b a.
Proof. unfold fields_eq; intuition. Qed.
Lemma fields_eq_trans a b c : fields_eq a b -> fields_eq b c -> fields_eq a c.
Proof. unfold fields_eq; intuition congruence. Qed.
Lemma mrec_eq_refl a : mrec_eq a a.
Proof. repeat split. Qed.
Lemma mrec_eq_sym a b : mrec_eq a b -> mrec_eq b a.
Proof. unfold mrec_eq; intuition. Qed.
Lemma mrec_eq_trans a b c : mrec_eq a b -> mrec_eq b c -> mrec_eq a c.
Proof. unfold mrec_eq; intuition congruence. Qed.

Lemma sim_refl w : sim w w.
Proof.
  repeat split; intros.
  - destruct (get_st w s); simpl; auto using fields_eq_refl.
  - destruct (get_mesh w m); simpl; auto using mrec_eq_refl.
Qed.
Lemma sim_sym w w' : sim w w' -> sim w' w.
Proof.
  intros [H1 [H2 H3]]. repeat split; intros.
  - specialize (H1 s). destruct (get_st w s), (get_st w' s); simpl in *; auto using fields_eq_sym.
  - specialize (H2 m). destruct (get_mesh w m), (get_mesh w' m); simpl in *; auto using mrec_eq_sym.
  - auto.
Qed.
Lemma sim_trans w1 w2 w3 : sim w1 w2 -> sim w2 w3 -> sim w1 w3.
Proof.
  intros [A1 [A2 A3]] [B1 [B2 B3]]. repeat split; intros.
  - specialize (A1 s); specialize (B1 s).
    destruct (get_st w1 s), (get_st w2 s), (get_st w3 s); simpl in *; try tauto; eauto using fields_eq_trans.
  - specialize (A2 m); specialize (B2 m).
    destruct (get_mesh w1 m), (get_mesh w2 m), (get_mesh w3 m); simpl in *; try tauto; eauto using mrec_eq_trans.
  - congruence.
Qed.

Lemma sim_st w w' s st' : sim w w' -> get_st w' s = Some st' -> exists st, get_st w s = Some st /\ fields_eq st st'.
Proof. intros [H _] E. specialize (H s). rewrite E in H. destruct (get_st w s); simpl in H; [eauto|tauto]. Qed.
Lemma sim_st' w w' s st : sim w w' -> get_st w s = Some st -> exists st', get_st w' s = Some st' /\ fields_eq st st'.
Proof. intros [H _] E. specialize (H s). rewrite E in H. destruct (get_st w' s); simpl in H; [eauto|tauto]. Qed.
Lemma sim_mesh w w' m r' : sim w w' -> get_mesh w' m = Some r' -> exists r, get_mesh w m = Some r /\ mrec_eq r r'.
Proof. intros [_ [H _]] E. specialize (H m). rewrite E in H. destruct (get_mesh w m); simpl in H; [eauto|tauto]. Qed.
Lemma sim_mesh' w w' m r : sim w w' -> get_mesh w m = Some r -> exists r', get_mesh w' m = Some r' /\ mrec_eq r r'.
Proof. intros [_ [H _]] E. specialize (H m). rewrite E in H. destruct (get_mesh w' m); simpl in H; [eauto|tauto]. Qed.

Lemma sim_held w w' s : sim w w' -> held w' s = held w s.
Proof.
  intros S.
  assert (forall a b, sim a b -> held a s = true -> held b s = true).
  { intros a b Sab H. apply held_spec in H. apply held_spec.
    destruct H as [[h Hh]|[m [r [Hm Hr]]]].
    - left. exists h. destruct Sab as [_ [_ H3]]. rewrite <- H3. assumption.
    - right. destruct (sim_mesh' _ _ _ _ Sab Hm) as [r' [Hm' [E1 [E2 E3]]]].
      exists m, r'. split; auto. rewrite <- E2, <- E3. assumption. }
  destruct (held w s) eqn:E1, (held w' s) eqn:E2; auto.
  - apply (H _ _ S) in E1. congruence.
  - apply (H _ _ (sim_sym _ _ S)) in E2. congruence.
Qed.

Lemma inv_sim X w w' : sim w w' -> inv_x X w -> inv_x X w'.
Proof.
  intros S I. constructor.
  - intros s st' Hs Hp. destruct (sim_st _ _ _ _ S Hs) as [st [Hs0 F]]. unfold fields_eq in F.
    replace (s_shared st') with (s_shared st) by tauto. eapply (iv_pers_shared _ _ I); eauto. intuition congruence.
  - intros s st' Hs Hp. destruct (sim_st _ _ _ _ S Hs) as [st [Hs0 F]]. unfold fields_eq in F.
    replace (s_name st') with (s_name st) by tauto. eapply (iv_named _ _ I); eauto. intuition congruence.
  - intros s1 s2 st1' st2' m H1 H2 O1 O2 S1 S2 K.
    destruct (sim_st _ _ _ _ S H1) as [st1 [G1 F1]]. destruct (sim_st _ _ _ _ S H2) as [st2 [G2 F2]].
    unfold fields_eq in *. eapply (iv_unique _ _ I s1 s2 st1 st2 m); eauto; unfold key_eq in *; intuition congruence.
  - intros m r' s Hm. destruct (sim_mesh _ _ _ _ S Hm) as [r [Hm0 [E1 _]]]. rewrite <- E1.
    rewrite (iv_tracked _ _ I _ _ s Hm0). split; intros [st [Hs Ho]].
    + destruct (sim_st' _ _ _ _ S Hs) as [st' [Hs' F]]. exists st'. unfold fields_eq in F. intuition congruence.
    + destruct (sim_st _ _ _ _ S Hs) as [st0 [Hs0 F]]. exists st0. unfold fields_eq in F. intuition congruence.
  - intros m r' Hm. destruct (sim_mesh _ _ _ _ S Hm) as [r [Hm0 [E1 _]]]. rewrite <- E1. eapply (iv_tracked_nodup _ _ I); eauto.
  - intros m r' s Hm. destruct (sim_mesh _ _ _ _ S Hm) as [r [Hm0 [_ [E2 _]]]]. rewrite <- E2.
    rewrite (iv_pers _ _ I _ _ s Hm0). split; intros [st [Hs Ho]].
    + destruct (sim_st' _ _ _ _ S Hs) as [st' [Hs' F]]. exists st'. unfold fields_eq in F. intuition congruence.
    + destruct (sim_st _ _ _ _ S Hs) as [st0 [Hs0 F]]. exists st0. unfold fields_eq in F. intuition congruence.
  - intros m r' Hm. destruct (sim_mesh _ _ _ _ S Hm) as [r [Hm0 [_ [E2 _]]]]. rewrite <- E2. eapply (iv_pers_nodup _ _ I); eauto.
  - intros m r' p Hm Hp. destruct (sim_mesh _ _ _ _ S Hm) as [r [Hm0 [_ [_ E3]]]]. rewrite <- E3 in Hp.
    destruct (iv_pos _ _ I _ _ _ Hm0 Hp) as [st [Hs Ho]].
    destruct (sim_st' _ _ _ _ S Hs) as [st' [Hs' F]]. exists st'. unfold fields_eq in F. intuition congruence.
  - intros h s Hh. destruct S as [S1 [S2 S3]]. rewrite <- S3 in Hh.
    destruct (iv_handle _ _ I _ _ Hh) as [st Hs]. specialize (S1 s). rewrite Hs in S1.
    destruct (get_st w' s); simpl in S1; [eauto|tauto].
  - intros s st' Hs HX. rewrite (sim_held _ _ s S). destruct (sim_st _ _ _ _ S Hs) as [st [Hs0 _]].
    eapply (iv_held _ _ I); eauto.
  - intros s st' m Hs Ho. destruct (sim_st _ _ _ _ S Hs) as [st [Hs0 F]]. unfold fields_eq in F.
    assert (Ho0 : s_owner st = Some m) by intuition congruence.
    destruct (iv_owner _ _ I _ _ _ Hs0 Ho0) as [r Hr]. destruct (sim_mesh' _ _ _ _ S Hr) as [r' [Hr' _]]. eauto.
Qed.

(* a storage update that keeps every field but the data *)
Lemma sim_upd_st w s f : (forall st, fields_eq st (f st)) -> sim w (upd_st s f w).
Proof.
  intros Hf. repeat split; intros.
  - rewrite get_st_upd_st. destruct (Nat.eqb_spec s0 s); subst.
    + destruct (get_st w s); simpl; auto.
    + destruct (get_st w s0); simpl; auto using fields_eq_refl.
  - rewrite get_mesh_upd_st. destruct (get_mesh w m); simpl; auto using mrec_eq_refl.
  - rewrite get_h_upd_st. reflexivity.
Qed.

Lemma sim_upd_mesh w m f : (forall r, mrec_eq r (f r)) -> sim w (upd_mesh m f w).
Proof.
  intros Hf. repeat split; intros.
  - rewrite get_st_upd_mesh. destruct (get_st w s); simpl; auto using fields_eq_refl.
  - rewrite get_mesh_upd_mesh. destruct (Nat.eqb_spec m0 m); subst.
    + destruct (get_mesh w m); simpl; auto.
    + destruct (get_mesh w m0); simpl; auto using mrec_eq_refl.
  - rewrite get_h_upd_mesh. reflexivity.
Qed.

Lemma sim_fold_upd_st {A} (l : list A) (g : A -> nat) (f : A -> storage -> storage) w :
  (forall a st, fields_eq st (f a st)) ->
  sim w (fold_left (fun w a => upd_st (g a) (f a) w) l w).
Proof.
  intros Hf. revert w. induction l as [|a t IH]; intros w; simpl.
  - apply sim_refl.
  - eapply sim_trans; [apply sim_upd_st; apply Hf|apply IH].
Qed.

Lemma fields_eq_with_data st d : fields_eq st (with_data d st).
Proof. repeat split. Qed.

(* ====================================================================== release / free *)

Definition hrel (a b : meshrec) : Prop := m_pers a = m_pers b /\ m_pos a = m_pos b.

Lemma held_ext w w' s :
  (forall h, get_h w h = get_h w' h) ->
  (forall m, opt_rel hrel (get_mesh w m) (get_mesh w' m)) ->
  held w' s = held w s.
Proof.
  intros Hh Hm.
  assert (forall a b, (forall h, get_h a h = get_h b h) -> (forall m, opt_rel hrel (get_mesh a m) (get_mesh b m)) ->
                      held a s = true -> held b s = true).
  { intros a b Hh' Hm' H. apply held_spec in H. apply held_spec.
    destruct H as [[h H]|[m [r [H1 H2]]]].
    - left. exists h. rewrite <- Hh'. assumption.
    - right. specialize (Hm' m). rewrite H1 in Hm'. destruct (get_mesh b m) as [r'|] eqn:E; simpl in Hm'; [|tauto].
      destruct Hm' as [E1 E2]. exists m, r'. split; auto. rewrite <- E1, <- E2. assumption. }
  destruct (held w s) eqn:E1, (held w' s) eqn:E2; auto.
  - apply (H _ _ Hh Hm) in E1. congruence.
  - assert (held w s = true); [|congruence]. apply (H w' w); auto.
    intros m. specialize (Hm m). destruct (get_mesh w m), (get_mesh w' m); simpl in *; auto. unfold hrel in *. intuition.
Qed.

Lemma get_mesh_free_inv w s m' r' :
  get_mesh (free s w) m' = Some r' ->
  exists r, get_mesh w m' = Some r /\ m_pers r' = m_pers r /\ m_pos r' = m_pos r /\ m_k r' = m_k r /\
            (m_tracked r' = m_tracked r \/
             (exists st, get_st w s = Some st /\ s_owner st = Some m') /\ m_tracked r' = remove_val s (m_tracked r)).
Proof.
  rewrite get_mesh_free. destruct (get_st w s) as [st|] eqn:E.
  - destruct (s_owner st) as [m|] eqn:O.
    + destruct (Nat.eqb_spec m' m); subst.
      * destruct (get_mesh w m) as [r|]; simpl; intros H; inversion H; subst. exists r. simpl. repeat split; auto.
        right. split; eauto.
      * intros H. exists r'. repeat split; auto.
    + intros H. exists r'. repeat split; auto.
  - intros H. exists r'. repeat split; auto.
Qed.

Lemma held_free w s x : held (free s w) x = held w x.
Proof.
  apply held_ext.
  - intros h. rewrite get_h_free. reflexivity.
  - intros m. destruct (get_mesh (free s w) m) as [r'|] eqn:E.
    + destruct (get_mesh_free_inv _ _ _ _ E) as [r [Hr [E1 [E2 _]]]]. rewrite Hr. simpl. split; auto.
    + rewrite get_mesh_free in E. destruct (get_st w s) as [st|]; [destruct (s_owner st) as [m0|]|]; try (rewrite E; exact I).
      destruct (Nat.eqb_spec m m0); subst; [|rewrite E; exact I].
      destruct (get_mesh w m0); simpl in *; [discriminate|exact I].
Qed.

Lemma inv_release X w s : inv_x (fun x => x = s \/ X x) w -> inv_x X (release s w).
Proof.
  intros I. unfold release. destruct (held w s) eqn:Hh.
  - destruct I. constructor; auto.
    intros s0 st Hs HX. destruct (Nat.eq_dec s0 s); subst; auto. eapply iv_held0; eauto. tauto.
  - apply held_false_spec in Hh. destruct Hh as [Hh1 Hh2].
    constructor.
    + intros s0 st. rewrite get_st_free. destruct (Nat.eqb_spec s0 s); [discriminate|]. apply (iv_pers_shared _ _ I).
    + intros s0 st. rewrite get_st_free. destruct (Nat.eqb_spec s0 s); [discriminate|]. apply (iv_named _ _ I).
    + intros s1 s2 st1 st2 m. rewrite !get_st_free.
      destruct (Nat.eqb_spec s1 s); [discriminate|]. destruct (Nat.eqb_spec s2 s); [discriminate|]. apply (iv_unique _ _ I).
    + intros m r' s0 Hm. destruct (get_mesh_free_inv _ _ _ _ Hm) as [r [Hr [_ [_ [_ Ht]]]]].
      rewrite get_st_free. pose proof (iv_tracked _ _ I _ _ s0 Hr) as T.
      destruct Ht as [Ht|[[st [Hs Ho]] Ht]]; rewrite Ht.
      * destruct (Nat.eqb_spec s0 s); subst.
        -- split; [|intros [? [? _]]; discriminate]. intros Hin. apply T in Hin. destruct Hin as [st [Hs Ho]].
           exfalso. rewrite get_mesh_free, Hs, Ho in Hm.
           rewrite Nat.eqb_refl in Hm. rewrite Hr in Hm. simpl in Hm. inversion Hm; subst. simpl in Ht.
           assert (In s (remove_val s (m_tracked r))) by (rewrite Ht; apply T; eauto).
           apply remove_val_In' in H. tauto.
        -- exact T.
      * rewrite remove_val_In'. destruct (Nat.eqb_spec s0 s); subst.
        -- split; [tauto|intros [? [? _]]; discriminate].
        -- rewrite T. tauto.
    + intros m r' Hm. destruct (get_mesh_free_inv _ _ _ _ Hm) as [r [Hr [_ [_ [_ Ht]]]]].
      pose proof (iv_tracked_nodup _ _ I _ _ Hr). destruct Ht as [Ht|[_ Ht]]; rewrite Ht; auto using remove_val_NoDup.
    + intros m r' s0 Hm. destruct (get_mesh_free_inv _ _ _ _ Hm) as [r [Hr [Hp [_ _]]]]. rewrite Hp.
      rewrite get_st_free. destruct (Nat.eqb_spec s0 s); subst.
      * split; [|intros [? [? _]]; discriminate]. intros Hin. exfalso. apply (proj2 (Hh2 _ _ Hr)). assumption.
      * apply (iv_pers _ _ I); auto.
    + intros m r' Hm. destruct (get_mesh_free_inv _ _ _ _ Hm) as [r [Hr [Hp [_ _]]]]. rewrite Hp. eapply (iv_pers_nodup _ _ I); eauto.
    + intros m r' p Hm Hpos. destruct (get_mesh_free_inv _ _ _ _ Hm) as [r [Hr [_ [Hp _]]]]. rewrite Hp in Hpos.
      rewrite get_st_free. destruct (Nat.eqb_spec p s); subst.
      * exfalso. apply (proj1 (Hh2 _ _ Hr)). assumption.
      * eapply (iv_pos _ _ I); eauto.
    + intros h s0. rewrite get_h_free, get_st_free. intros Hg. destruct (Nat.eqb_spec s0 s); subst.
      * exfalso. eapply Hh1; eauto.
      * eapply (iv_handle _ _ I); eauto.
    + intros s0 st. rewrite get_st_free, held_free. destruct (Nat.eqb_spec s0 s); [discriminate|].
      intros Hs HX. eapply (iv_held _ _ I); eauto. tauto.
    + intros s0 st m. rewrite get_st_free. destruct (Nat.eqb_spec s0 s); [discriminate|]. intros Hs Ho.
      destruct (iv_owner _ _ I _ _ _ Hs Ho) as [r Hr]. unfold free. destruct (get_st w s) as [y|]; eauto.
      destruct (s_owner y) as [m0|]; unfold tracker_remove, get_mesh, with_heap; simpl; eauto.
      fold (get_mesh (upd_mesh m0 (fun r0 => with_tracked (remove_val s (m_tracked r0)) r0) w) m).
      rewrite get_mesh_upd_mesh. destruct (Nat.eqb_spec m m0); subst; eauto. rewrite Hr. simpl. eauto.
Qed.

Lemma inv_release_id w s : inv w -> inv (release s w).
Proof. intros I. apply inv_release. eapply inv_x_weaken; [|exact I]. simpl. tauto. Qed.

(* ====================================================================== inversion of lookups *)

Lemma get_mesh_upd_mesh_inv w m f m' r' :
  get_mesh (upd_mesh m f w) m' = Some r' ->
  exists r, get_mesh w m' = Some r /\ ((m' = m /\ r' = f r) \/ (m' <> m /\ r' = r)).
Proof.
  rewrite get_mesh_upd_mesh. destruct (Nat.eqb_spec m' m); subst.
  - destruct (get_mesh w m) as [r|]; simpl; intros H; inversion H; subst. eauto.
  - intros H. eauto.
Qed.

Lemma get_st_upd_st_inv w s f s' st' :
  get_st (upd_st s f w) s' = Some st' ->
  exists st, get_st w s' = Some st /\ ((s' = s /\ st' = f st) \/ (s' <> s /\ st' = st)).
Proof.
  rewrite get_st_upd_st. destruct (Nat.eqb_spec s' s); subst.
  - destruct (get_st w s) as [st|]; simpl; intros H; inversion H; subst. eauto.
  - intros H. eauto.
Qed.

(* ====================================================================== internal_find_property *)

Lemma matches_spec k t n st :
  matches k t n st = true <-> s_shared st = true /\ s_name st = n /\ s_type st = t /\ s_kind st = k.
Proof.
  unfold matches. rewrite !andb_true_iff, Nat.eqb_eq.
  destruct (vtype_eqb_spec (s_type st) t), (kind_eqb_spec (s_kind st) k); intuition congruence.
Qed.

Lemma find_prop_sound w m k t n s :
  find_prop w m k t n = Some s ->
  n <> 0 /\ exists r st, get_mesh w m = Some r /\ In s (m_tracked r) /\ get_st w s = Some st /\ matches k t n st = true.
Proof.
  unfold find_prop. destruct (Nat.eqb_spec n 0); [discriminate|].
  destruct (get_mesh w m) as [r|]; [|discriminate]. intros H. apply find_some in H. destruct H as [H1 H2].
  split; auto. unfold st_matches in H2. destruct (get_st w s) as [st|] eqn:E; [|discriminate]. exists r, st. auto.
Qed.

Lemma find_prop_none w m r k t n :
  find_prop w m k t n = None -> n <> 0 -> get_mesh w m = Some r ->
  forall s st, In s (m_tracked r) -> get_st w s = Some st -> matches k t n st = false.
Proof.
  unfold find_prop. destruct (Nat.eqb_spec n 0); [tauto|]. intros H _ Hm. rewrite Hm in H.
  intros s st Hin Hs. pose proof (find_none _ _ H s Hin) as F. unfold st_matches in F. rewrite Hs in F. exact F.
Qed.

Lemma find_prop_owner X w m k t n s :
  inv_x X w -> find_prop w m k t n = Some s ->
  exists st, get_st w s = Some st /\ s_owner st = Some m /\ matches k t n st = true /\ n <> 0.
Proof.
  intros I H. apply find_prop_sound in H. destruct H as [Hn [r [st [Hm [Hin [Hs Hmt]]]]]].
  apply (iv_tracked _ _ I _ _ s Hm) in Hin. destruct Hin as [st' [Hs' Ho]]. rewrite Hs in Hs'. inversion Hs'; subst.
  exists st'. auto.
Qed.

(* request finds THE shared property with that key: the result does not depend on the iteration order *)
Lemma find_prop_complete X w m r k t n s st :
  inv_x X w -> n <> 0 -> get_mesh w m = Some r -> get_st w s = Some st -> s_owner st = Some m ->
  matches k t n st = true -> find_prop w m k t n = Some s.
Proof.
  intros I Hn Hm Hs Ho Hmt.
  destruct (find_prop w m k t n) as [s'|] eqn:F.
  - destruct (find_prop_owner _ _ _ _ _ _ _ I F) as [st' [Hs' [Ho' [Hmt' _]]]].
    apply matches_spec in Hmt. apply matches_spec in Hmt'.
    f_equal. eapply (iv_unique _ _ I s' s st' st m); eauto; try tauto. unfold key_eq. intuition congruence.
  - exfalso. assert (In s (m_tracked r)) by (apply (iv_tracked _ _ I _ _ s Hm); eauto).
    pose proof (find_prop_none _ _ _ _ _ _ F Hn Hm s st H Hs). congruence.
Qed.

(* find_prop looks only at flags, names, types, kinds and the tracker list *)
Lemma find_prop_sim w w' m k t n : sim w w' -> find_prop w' m k t n = find_prop w m k t n.
Proof.
  intros S. unfold find_prop. destruct (n =? 0); auto.
  pose proof S as [S1 [S2 _]]. specialize (S2 m).
  destruct (get_mesh w m) as [r|], (get_mesh w' m) as [r'|]; simpl in S2; try tauto.
  destruct S2 as [E _]. rewrite <- E. apply find_ext'. intros s. unfold st_matches.
  specialize (S1 s). destruct (get_st w s) as [a|], (get_st w' s) as [b|]; simpl in S1; try tauto.
  unfold matches. unfold fields_eq in S1. destruct S1 as [-> [-> [-> [-> _]]]]. reflexivity.
Qed.

(* ====================================================================== handles *)

Lemma held_mono_handles w w' x :
  heap w' = heap w -> meshes w' = meshes w ->
  (forall h s, get_h w h = Some s -> s = x -> exists h', get_h w' h' = Some s) ->
  held w x = true -> held w' x = true.
Proof.
  intros _ Hm Hh H. apply held_spec in H. apply held_spec. destruct H as [[h H]|[m [r [H1 H2]]]].
  - left. eapply Hh; eauto.
  - right. exists m, r. split; auto. unfold get_mesh in *. rewrite Hm. assumption.
Qed.

Lemma inv_new_handle X w s st :
  inv_x X w -> get_st w s = Some st -> inv_x (fun x => X x /\ x <> s) (fst (new_handle s w)).
Proof.
  intros I Hs. unfold new_handle; simpl.
  set (w' := with_handles (handles w ++ [Some s]) w).
  assert (G1 : forall x, get_st w' x = get_st w x) by reflexivity.
  assert (G2 : forall x, get_mesh w' x = get_mesh w x) by reflexivity.
  destruct I. constructor; auto.
  - intros h s0. unfold w'. rewrite get_h_app. destruct (Nat.eqb_spec h (length (handles w))).
    + intros E; inversion E; subst. rewrite G1. eauto.
    + apply iv_handle0.
  - intros s0 st0 Hs0 HX. destruct (Nat.eq_dec s0 s); subst.
    + apply held_spec. left. exists (length (handles w)). unfold w'. rewrite get_h_app, Nat.eqb_refl. reflexivity.
    + eapply (held_mono_handles w w'); try reflexivity.
      * intros h s1 Hh _. exists h. unfold w'. rewrite get_h_app.
        destruct (Nat.eqb_spec h (length (handles w))); auto. apply get_h_lt in Hh. lia.
      * eapply iv_held0; eauto; tauto.
Qed.

Lemma inv_new_handle' w s st : inv w -> get_st w s = Some st -> inv (fst (new_handle s w)).
Proof. intros I Hs. eapply inv_x_weaken; [|eapply inv_new_handle; eauto]. simpl. tauto. Qed.

Lemma inv_kill_handle X w h s :
  inv_x X w -> get_h w h = Some s -> inv_x (fun x => x = s \/ X x) (kill_handle h w).
Proof.
  intros I Hh. destruct I. constructor; auto.
  - intros h0 s0. rewrite get_h_kill. destruct (Nat.eqb_spec h0 h); [discriminate|]. apply iv_handle0.
  - intros s0 st0 Hs0 HX. assert (held w s0 = true) by (eapply iv_held0; eauto; tauto).
    eapply (held_mono_handles w (kill_handle h w)); try reflexivity; auto.
    intros h1 s1 H1 E. subst s1. exists h1. rewrite get_h_kill. destruct (Nat.eqb_spec h1 h); auto.
    subst. rewrite Hh in H1. inversion H1; subst. tauto.
Qed.

Lemma inv_drop_handle w h : inv w -> inv (drop_handle h w).
Proof.
  intros I. unfold drop_handle. destruct (get_h w h) as [s|] eqn:E; auto.
  apply inv_release. eapply inv_kill_handle; eauto.
Qed.

Lemma inv_move_handle w h s : inv w -> get_h w h = Some s -> inv (fst (new_handle s (kill_handle h w))).
Proof.
  intros I Hh. destruct (iv_handle _ _ I _ _ Hh) as [st Hs].
  eapply inv_x_weaken; [|eapply inv_new_handle with (st := st); [eapply inv_kill_handle; eauto|exact Hs]].
  simpl. tauto.
Qed.

(* ====================================================================== allocation of a storage attached to a mesh *)

Lemma get_mesh_alloc_inv st w m m' r' :
  s_owner st = Some m -> get_mesh (fst (alloc st w)) m' = Some r' ->
  exists r, get_mesh w m' = Some r /\ m_pers r' = m_pers r /\ m_pos r' = m_pos r /\ m_k r' = m_k r /\
            ((m' = m /\ m_tracked r' = m_tracked r ++ [length (heap w)]) \/ (m' <> m /\ m_tracked r' = m_tracked r)).
Proof.
  intros Ho. rewrite get_mesh_alloc, Ho. destruct (Nat.eqb_spec m' m); subst.
  - destruct (get_mesh w m) as [r|]; simpl; intros H; inversion H; subst. exists r. simpl. repeat split; auto.
  - intros H. exists r'. repeat split; auto.
Qed.

Lemma held_alloc st w x : held (fst (alloc st w)) x = held w x.
Proof.
  apply held_ext.
  - intros h. rewrite get_h_alloc. reflexivity.
  - intros m. rewrite get_mesh_alloc. destruct (s_owner st) as [m0|].
    + destruct (Nat.eqb_spec m m0); subst.
      * destruct (get_mesh w m0); simpl; auto. split; reflexivity.
      * destruct (get_mesh w m); simpl; auto. split; reflexivity.
    + destruct (get_mesh w m); simpl; auto. split; reflexivity.
Qed.

Lemma inv_alloc X w st m r :
  inv_x X w -> get_mesh w m = Some r -> s_owner st = Some m -> s_pers st = false ->
  (s_shared st = true ->
   s_name st <> 0 /\
   forall s2 st2, get_st w s2 = Some st2 -> s_owner st2 = Some m -> s_shared st2 = true -> ~ key_eq st st2) ->
  inv_x (fun x => x = length (heap w) \/ X x) (fst (alloc st w)).
Proof.
  intros I Hm Ho Hp Hsh. set (s := length (heap w)).
  assert (Fr : forall x y, get_st w x = Some y -> x <> s) by (intros x y H; apply get_st_lt in H; unfold s; lia).
  constructor.
  - intros x y. rewrite get_st_alloc. fold s. destruct (Nat.eqb_spec x s).
    + intros E; inversion E; subst. congruence.
    + apply (iv_pers_shared _ _ I).
  - intros x y. rewrite get_st_alloc. fold s. destruct (Nat.eqb_spec x s).
    + intros E; inversion E; subst. intros H. apply Hsh; auto.
    + apply (iv_named _ _ I).
  - intros s1 s2 st1 st2 m0. rewrite !get_st_alloc. fold s.
    destruct (Nat.eqb_spec s1 s), (Nat.eqb_spec s2 s); subst; auto.
    + intros E1 H2 O1 O2 S1 S2 K. inversion E1; subst. exfalso.
      assert (m0 = m) by congruence. subst. eapply (proj2 (Hsh S1)); eauto.
    + intros H1 E2 O1 O2 S1 S2 K. inversion E2; subst. exfalso.
      assert (m0 = m) by congruence. subst. eapply (proj2 (Hsh S2)); eauto.
      unfold key_eq in *. intuition congruence.
    + apply (iv_unique _ _ I).
  - intros m' r' x Hm'. destruct (get_mesh_alloc_inv _ _ _ _ _ Ho Hm') as [r0 [Hr0 [_ [_ [_ Ht]]]]].
    rewrite get_st_alloc. fold s. pose proof (iv_tracked _ _ I _ _ x Hr0) as T.
    destruct Ht as [[-> Ht]|[N Ht]]; rewrite Ht.
    + rewrite in_app_iff. simpl. destruct (Nat.eqb_spec x s); subst.
      * split; eauto.
      * rewrite T. split; [intros [H|[H|[]]]; [assumption|unfold s in *; congruence]|tauto].
    + destruct (Nat.eqb_spec x s); subst.
      * split.
        -- intros Hin. apply T in Hin. destruct Hin as [y [Hy _]]. exfalso. eapply Fr; eauto.
        -- intros [y [E O]]. inversion E; subst. congruence.
      * exact T.
  - intros m' r' Hm'. destruct (get_mesh_alloc_inv _ _ _ _ _ Ho Hm') as [r0 [Hr0 [_ [_ [_ Ht]]]]].
    pose proof (iv_tracked_nodup _ _ I _ _ Hr0). destruct Ht as [[-> Ht]|[N Ht]]; rewrite Ht; auto.
    apply NoDup_app_last; auto. intros Hin. apply (tracked_lt _ _ _ _ _ I Hr0) in Hin. lia.
  - intros m' r' x Hm'. destruct (get_mesh_alloc_inv _ _ _ _ _ Ho Hm') as [r0 [Hr0 [E [_ _]]]]. rewrite E.
    rewrite get_st_alloc. fold s. destruct (Nat.eqb_spec x s); subst.
    + split.
      * intros Hin. apply (pers_lt _ _ _ _ _ I Hr0) in Hin. unfold s in Hin. lia.
      * intros [y [E1 [_ P]]]. inversion E1; subst. congruence.
    + apply (iv_pers _ _ I); auto.
  - intros m' r' Hm'. destruct (get_mesh_alloc_inv _ _ _ _ _ Ho Hm') as [r0 [Hr0 [E [_ _]]]]. rewrite E.
    eapply (iv_pers_nodup _ _ I); eauto.
  - intros m' r' p Hm' Hpos. destruct (get_mesh_alloc_inv _ _ _ _ _ Ho Hm') as [r0 [Hr0 [_ [E [_ _]]]]]. rewrite E in Hpos.
    destruct (iv_pos _ _ I _ _ _ Hr0 Hpos) as [y [Hy Oy]]. rewrite get_st_alloc. fold s.
    destruct (Nat.eqb_spec p s); [exfalso; eapply Fr; eauto|]. eauto.
  - intros h x. rewrite get_h_alloc. intros Hh. destruct (iv_handle _ _ I _ _ Hh) as [y Hy].
    rewrite get_st_alloc. fold s. destruct (Nat.eqb_spec x s); [exfalso; eapply Fr; eauto|]. eauto.
  - intros x y. rewrite get_st_alloc, held_alloc. fold s. destruct (Nat.eqb_spec x s); subst.
    + intros _ H. exfalso. apply H. auto.
    + intros Hx H. eapply (iv_held _ _ I); eauto.
  - assert (Lv : forall m0 r0, get_mesh w m0 = Some r0 -> exists r1, get_mesh (fst (alloc st w)) m0 = Some r1).
    { intros m0 r0 H0. rewrite get_mesh_alloc, Ho. destruct (Nat.eqb_spec m0 m); subst; eauto. rewrite H0. simpl. eauto. }
    intros x y m0. rewrite get_st_alloc. fold s. destruct (Nat.eqb_spec x s); subst.
    + intros E O. inversion E; subst. assert (m0 = m) by congruence. subst. eauto.
    + intros Hx O. destruct (iv_owner _ _ I _ _ _ Hx O) as [r0 Hr0]. eauto.
Qed.

(* ====================================================================== flag / name updates of one storage *)

Lemma inv_x_held X w s : inv_x (fun x => x = s \/ X x) w -> held w s = true -> inv_x X w.
Proof.
  intros I H. destruct I. constructor; auto.
  intros s0 st Hs HX. destruct (Nat.eq_dec s0 s); subst; auto. eapply iv_held0; eauto. tauto.
Qed.

Lemma held_upd_st w s f x : held (upd_st s f w) x = held w x.
Proof.
  apply held_ext.
  - intros h. rewrite get_h_upd_st. reflexivity.
  - intros m. rewrite get_mesh_upd_st. destruct (get_mesh w m); simpl; auto. split; reflexivity.
Qed.

Lemma inv_upd_flags X w s st f :
  inv_x X w -> get_st w s = Some st ->
  s_owner (f st) = s_owner st -> s_pers (f st) = s_pers st ->
  (s_pers st = true -> s_shared (f st) = true) ->
  (s_shared (f st) = true -> s_name (f st) <> 0) ->
  (s_shared (f st) = true -> forall m s2 st2, s_owner st = Some m -> s2 <> s -> get_st w s2 = Some st2 ->
        s_owner st2 = Some m -> s_shared st2 = true -> ~ key_eq (f st) st2) ->
  inv_x X (upd_st s f w).
Proof.
  intros I Hs Ho Hp H1 H2 H3.
  assert (L : forall x y, get_st (upd_st s f w) x = Some y ->
                          (x = s /\ y = f st) \/ (x <> s /\ get_st w x = Some y)).
  { intros x y H. apply get_st_upd_st_inv in H. destruct H as [y0 [Hy [[-> ->]|[N ->]]]]; auto.
    left. split; auto. congruence. }
  constructor.
  - intros x y H. apply L in H. destruct H as [[-> ->]|[N H]].
    + rewrite Hp. auto.
    + apply (iv_pers_shared _ _ I _ _ H).
  - intros x y H. apply L in H. destruct H as [[-> ->]|[N H]]; auto. apply (iv_named _ _ I _ _ H).
  - intros s1 s2 st1 st2 m G1 G2 O1 O2 S1 S2 K. apply L in G1. apply L in G2.
    destruct G1 as [[-> ->]|[N1 G1]], G2 as [[-> ->]|[N2 G2]]; auto.
    + exfalso. rewrite Ho in O1. eapply (H3 S1 m s2 st2); eauto.
    + exfalso. rewrite Ho in O2. eapply (H3 S2 m s1 st1); eauto. unfold key_eq in *. intuition congruence.
    + eapply (iv_unique _ _ I); eauto.
  - intros m r x. rewrite get_mesh_upd_st. intros Hm. rewrite (iv_tracked _ _ I _ _ x Hm).
    rewrite get_st_upd_st. destruct (Nat.eqb_spec x s); subst; [|tauto].
    rewrite Hs. simpl. split; intros [y [E O]]; inversion E; subst; eexists; split; eauto; congruence.
  - intros m r. rewrite get_mesh_upd_st. apply (iv_tracked_nodup _ _ I).
  - intros m r x. rewrite get_mesh_upd_st. intros Hm. rewrite (iv_pers _ _ I _ _ x Hm).
    rewrite get_st_upd_st. destruct (Nat.eqb_spec x s); subst; [|tauto].
    rewrite Hs. simpl. split; intros [y [E [O P]]]; inversion E; subst; eexists; split; eauto; split; congruence.
  - intros m r. rewrite get_mesh_upd_st. apply (iv_pers_nodup _ _ I).
  - intros m r p. rewrite get_mesh_upd_st. intros Hm Hpos. destruct (iv_pos _ _ I _ _ _ Hm Hpos) as [y [Hy Oy]].
    rewrite get_st_upd_st. destruct (Nat.eqb_spec p s); subst; eauto.
    rewrite Hs. simpl. eexists; split; eauto. congruence.
  - intros h x. rewrite get_h_upd_st. intros Hh. destruct (iv_handle _ _ I _ _ Hh) as [y Hy].
    rewrite get_st_upd_st. destruct (Nat.eqb_spec x s); subst; eauto. rewrite Hs. simpl. eauto.
  - intros x y H HX. rewrite held_upd_st. apply L in H. destruct H as [[-> ->]|[N H]].
    + eapply (iv_held _ _ I); eauto.
    + eapply (iv_held _ _ I); eauto.
  - intros x y m H O. rewrite get_mesh_upd_st. apply L in H. destruct H as [[-> ->]|[N H]].
    + rewrite Ho in O. eapply (iv_owner _ _ I); eauto.
    + eapply (iv_owner _ _ I); eauto.
Qed.

Lemma upd_mesh_ext w m f g r : get_mesh w m = Some r -> f r = g r -> upd_mesh m f w = upd_mesh m g w.
Proof. unfold upd_mesh; intros -> ->; reflexivity. Qed.

Lemma with_mpers_same r : with_mpers (m_pers r) r = r.
Proof. destruct r; reflexivity. Qed.

(* set_persistent: the flag and the persistent set of the owning mesh change together *)
Lemma inv_set_pers X w s st m r b newp :
  inv_x X w -> get_st w s = Some st -> s_owner st = Some m -> get_mesh w m = Some r ->
  (b = true -> s_shared st = true) ->
  NoDup newp -> (forall x, In x newp <-> (x <> s /\ In x (m_pers r)) \/ (x = s /\ b = true)) ->
  inv_x (fun x => x = s \/ X x) (upd_st s (with_pers b) (upd_mesh m (with_mpers newp) w)).
Proof.
  intros I Hs Ho Hm Hb ND HP.
  set (w1 := upd_mesh m (with_mpers newp) w).
  assert (GS : forall x, get_st (upd_st s (with_pers b) w1) x = if x =? s then Some (with_pers b st) else get_st w x).
  { intros x. rewrite get_st_upd_st. unfold w1. rewrite get_st_upd_mesh. destruct (Nat.eqb_spec x s); subst; auto.
    rewrite Hs. reflexivity. }
  assert (GM : forall m', get_mesh (upd_st s (with_pers b) w1) m' = if m' =? m then Some (with_mpers newp r) else get_mesh w m').
  { intros m'. rewrite get_mesh_upd_st. unfold w1. rewrite get_mesh_upd_mesh. destruct (Nat.eqb_spec m' m); subst; auto.
    rewrite Hm. reflexivity. }
  assert (GH : forall h, get_h (upd_st s (with_pers b) w1) h = get_h w h).
  { intros h. rewrite get_h_upd_st. unfold w1. rewrite get_h_upd_mesh. reflexivity. }
  assert (L : forall x y, get_st (upd_st s (with_pers b) w1) x = Some y ->
              exists y0, get_st w x = Some y0 /\ s_name y = s_name y0 /\ s_type y = s_type y0 /\ s_kind y = s_kind y0 /\
                         s_shared y = s_shared y0 /\ s_owner y = s_owner y0 /\
                         ((x = s /\ y0 = st /\ s_pers y = b) \/ (x <> s /\ y = y0))).
  { intros x y. rewrite GS. destruct (Nat.eqb_spec x s); subst.
    - intros E; inversion E; subst. exists st. simpl. repeat split; auto.
    - intros E. exists y. repeat split; auto. }
  constructor.
  - intros x y H P. destruct (L _ _ H) as [y0 [H0 [_ [_ [_ [E4 [_ [[-> [-> Pb]]|[N ->]]]]]]]]].
    + rewrite E4. apply Hb. congruence.
    + eapply (iv_pers_shared _ _ I); eauto.
  - intros x y H P. destruct (L _ _ H) as [y0 [H0 [E1 [_ [_ [E4 _]]]]]]. rewrite E1. eapply (iv_named _ _ I); eauto; congruence.
  - intros s1 s2 st1 st2 m0 G1 G2 O1 O2 S1 S2 K.
    destruct (L _ _ G1) as [a [A0 [A1 [A2 [A3 [A4 [A5 _]]]]]]]. destruct (L _ _ G2) as [c [C0 [C1 [C2 [C3 [C4 [C5 _]]]]]]].
    eapply (iv_unique _ _ I s1 s2 a c m0); eauto; try congruence. unfold key_eq in *. intuition congruence.
  - intros m' r' x. rewrite GM. destruct (Nat.eqb_spec m' m); subst.
    + intros E; inversion E; subst. simpl. rewrite (iv_tracked _ _ I _ _ x Hm). rewrite GS.
      destruct (Nat.eqb_spec x s); subst; [|tauto].
      split; intros _; [exists (with_pers b st)|exists st]; split; auto.
    + intros Hm'. rewrite (iv_tracked _ _ I _ _ x Hm'). rewrite GS. destruct (Nat.eqb_spec x s); subst; [|tauto].
      split; intros [y [E O]].
      * rewrite Hs in E. inversion E; subst. congruence.
      * inversion E; subst. simpl in O. congruence.
  - intros m' r'. rewrite GM. destruct (Nat.eqb_spec m' m); subst.
    + intros E; inversion E; subst. simpl. eapply (iv_tracked_nodup _ _ I); eauto.
    + apply (iv_tracked_nodup _ _ I).
  - intros m' r' x. rewrite GM. destruct (Nat.eqb_spec m' m); subst.
    + intros E; inversion E; subst. simpl. rewrite HP. rewrite GS. destruct (Nat.eqb_spec x s); subst.
      * split.
        -- intros [[N _]|[_ B]]; [congruence|]. exists (with_pers b st). simpl. auto.
        -- intros [y [E1 [O P]]]. inversion E1; subst. simpl in P. right. auto.
      * rewrite (iv_pers _ _ I _ _ x Hm). split; [intros [[_ H]|[H _]]; [assumption|congruence]|intros H; left; split; auto].
    + intros Hm'. rewrite (iv_pers _ _ I _ _ x Hm'). rewrite GS. destruct (Nat.eqb_spec x s); subst; [|tauto].
      split; intros [y [E [O P]]].
      * rewrite Hs in E. inversion E; subst. congruence.
      * inversion E; subst. simpl in O. congruence.
  - intros m' r'. rewrite GM. destruct (Nat.eqb_spec m' m); subst.
    + intros E; inversion E; subst. exact ND.
    + apply (iv_pers_nodup _ _ I).
  - intros m' r' p. rewrite GM. intros Hm' Hpos.
    assert (exists r0, get_mesh w m' = Some r0 /\ m_pos r0 = Some p).
    { destruct (Nat.eqb_spec m' m); subst; [inversion Hm'; subst; simpl in Hpos|]; eauto. }
    destruct H as [r0 [Hr0 Hp0]]. destruct (iv_pos _ _ I _ _ _ Hr0 Hp0) as [y [Hy Oy]].
    rewrite GS. destruct (Nat.eqb_spec p s); subst; eauto.
    rewrite Hs in Hy. inversion Hy; subst. exists (with_pers b y). auto.
  - intros h x. rewrite GH. intros Hh. destruct (iv_handle _ _ I _ _ Hh) as [y Hy].
    rewrite GS. destruct (Nat.eqb_spec x s); subst; eauto.
  - intros x y H HX. destruct (L _ _ H) as [y0 [H0 _]].
    assert (N : x <> s) by tauto. assert (HX' : ~ X x) by tauto.
    pose proof (iv_held _ _ I _ _ H0 HX') as Hh. apply held_spec in Hh. apply held_spec.
    destruct Hh as [[h Hh]|[m' [r' [Hm' Hr']]]].
    + left. exists h. rewrite GH. assumption.
    + right. destruct (Nat.eq_dec m' m); subst.
      * exists m, (with_mpers newp r). rewrite GM, Nat.eqb_refl. split; auto. simpl.
        rewrite Hm in Hm'. inversion Hm'; subst. destruct Hr' as [Hr'|Hr']; auto. right. apply HP. left. auto.
      * exists m', r'. rewrite GM. destruct (Nat.eqb_spec m' m); [congruence|]. auto.
  - intros x y m' H O. destruct (L _ _ H) as [y0 [H0 [_ [_ [_ [_ [E5 _]]]]]]]. rewrite E5 in O.
    destruct (iv_owner _ _ I _ _ _ H0 O) as [r0 Hr0]. rewrite GM. destruct (Nat.eqb_spec m' m); eauto.
Qed.

Lemma pers_insert_eq w m s r :
  get_mesh w m = Some r ->
  pers_insert m s w = upd_mesh m (with_mpers (if memb s (m_pers r) then m_pers r else m_pers r ++ [s])) w.
Proof.
  intros Hm. unfold pers_insert. eapply upd_mesh_ext; eauto. destruct (memb s (m_pers r)); auto.
  symmetry. apply with_mpers_same.
Qed.

Lemma pers_erase_eq w m s : pers_erase m s w = upd_mesh m (fun r => with_mpers (remove_val s (m_pers r)) r) w.
Proof. reflexivity. Qed.

Lemma held_by_handle w w' h s : get_h w h = Some s -> (forall h, get_h w' h = get_h w h) -> held w' s = true.
Proof. intros H E. apply held_spec. left. exists h. rewrite E. assumption. Qed.

Lemma inv_set_persistent_s w m s b st r h :
  inv w -> get_st w s = Some st -> s_owner st = Some m -> get_mesh w m = Some r -> get_h w h = Some s ->
  inv (fst (set_persistent_s m s b w)).
Proof.
  intros I Hs Ho Hm Hh. unfold set_persistent_s. rewrite Hs.
  destruct (Bool.eqb b (s_pers st)) eqn:E; simpl; auto.
  destruct b.
  - destruct (s_shared st) eqn:Sh; simpl; auto.
    assert (P : s_pers st = false) by (destruct (s_pers st); simpl in E; congruence).
    assert (NI : ~ In s (m_pers r)).
    { intros Hin. apply (iv_pers _ _ I _ _ s Hm) in Hin. destruct Hin as [y [Hy [_ Py]]]. congruence. }
    rewrite (pers_insert_eq _ _ _ _ Hm).
    replace (memb s (m_pers r)) with false by (symmetry; destruct (memb s (m_pers r)) eqn:M; auto; apply memb_In' in M; tauto).
    eapply inv_x_held.
    + eapply inv_set_pers with (b := true); eauto.
      * apply NoDup_app_last; auto. eapply (iv_pers_nodup _ _ I); eauto.
      * intros x. rewrite in_app_iff. simpl. split.
        -- intros [H|[H|[]]]; [left; split; auto; congruence|right; auto].
        -- intros [[_ H]|[H _]]; auto.
    + apply (held_by_handle w _ h s Hh). intros h'. rewrite get_h_upd_st, get_h_upd_mesh. reflexivity.
  - cbn [fst]. unfold pers_erase.
    rewrite (upd_mesh_ext w m (fun r0 => with_mpers (remove_val s (m_pers r0)) r0) (with_mpers (remove_val s (m_pers r))) r Hm eq_refl).
    eapply inv_x_held.
    + eapply inv_set_pers with (b := false); eauto; try discriminate.
      * apply remove_val_NoDup. eapply (iv_pers_nodup _ _ I); eauto.
      * intros x. rewrite remove_val_In'. split; [intros [H1 H2]; left; auto|intros [[H1 H2]|[_ H]]; [auto|discriminate]].
    + apply (held_by_handle w _ h s Hh). intros h'. rewrite get_h_upd_st, get_h_upd_mesh. reflexivity.
Qed.

(* after set_persistent(false): same storage, flag cleared, everything else of it unchanged *)
Lemma get_st_set_persistent_s w m s b x :
  get_st (fst (set_persistent_s m s b w)) x =
  match snd (set_persistent_s m s b w) with
  | ROk => if x =? s then option_map (with_pers b) (get_st w x) else get_st w x
  | _ => get_st w x
  end.
Proof.
  unfold set_persistent_s. destruct (get_st w s) as [st|] eqn:Hs; simpl; auto.
  destruct (Bool.eqb b (s_pers st)) eqn:E; simpl.
  - destruct (Nat.eqb_spec x s); subst; auto. rewrite Hs. simpl. f_equal.
    apply eqb_prop in E. subst. destruct st; reflexivity.
  - destruct b.
    + destruct (s_shared st); simpl; auto. rewrite get_st_upd_st. unfold pers_insert. rewrite get_st_upd_mesh. reflexivity.
    + simpl. rewrite get_st_upd_st. unfold pers_erase. rewrite get_st_upd_mesh. reflexivity.
Qed.

Lemma inv_set_shared_s w m s b st r h :
  inv w -> get_st w s = Some st -> s_owner st = Some m -> get_mesh w m = Some r -> get_h w h = Some s ->
  inv (fst (set_shared_s m s b w)).
Proof.
  intros I Hs Ho Hm Hh. unfold set_shared_s. rewrite Hs.
  destruct (Bool.eqb b (s_shared st)) eqn:E; simpl; auto.
  destruct b.
  - destruct (Nat.eqb_spec (s_name st) 0); simpl; auto.
    destruct (find_prop w m (s_kind st) (s_type st) (s_name st)) eqn:F; simpl; auto.
    eapply inv_upd_flags; eauto; simpl; auto.
    intros _ m0 s2 st2 O N H2 O2 S2 K.
    assert (m0 = m) by congruence. subst.
    assert (In s2 (m_tracked r)) by (apply (iv_tracked _ _ I _ _ s2 Hm); eauto).
    pose proof (find_prop_none _ _ _ _ _ _ F n Hm s2 st2 H H2) as Mt.
    assert (matches (s_kind st) (s_type st) (s_name st) st2 = true); [|congruence].
    apply matches_spec. unfold key_eq in K. simpl in K. intuition congruence.
  - destruct (set_persistent_s m s false w) as [w1 res] eqn:SP. simpl.
    assert (I1 : inv w1).
    { replace w1 with (fst (set_persistent_s m s false w)) by (rewrite SP; reflexivity). eapply inv_set_persistent_s; eauto. }
    assert (G : get_st w1 s = Some (with_pers false st)).
    { replace w1 with (fst (set_persistent_s m s false w)) by (rewrite SP; reflexivity).
      rewrite get_st_set_persistent_s. unfold set_persistent_s. rewrite Hs.
      destruct (Bool.eqb false (s_pers st)) eqn:E2; simpl; rewrite ?Nat.eqb_refl, ?Hs; reflexivity. }
    eapply inv_upd_flags; eauto; simpl; auto; discriminate.
Qed.

Lemma inv_set_name w s st n : inv w -> get_st w s = Some st -> s_shared st = false -> inv (upd_st s (with_name n) w).
Proof.
  intros I Hs Sh. eapply inv_upd_flags; eauto; simpl; try congruence.
  intros P. pose proof (iv_pers_shared _ _ I _ _ Hs P). congruence.
Qed.

(* ====================================================================== creation *)

Lemma fst_ret_handle s w : fst (ret_handle s w) = fst (new_handle s w).
Proof. reflexivity. Qed.

Lemma create_eq w m r k t n d sh :
  create w m r k t n d sh = alloc (mkSt n t k sh false d (repeat d (count k (m_k r))) (Some m)) w.
Proof. reflexivity. Qed.

Lemma inv_create X w m r k t n d sh :
  inv_x X w -> get_mesh w m = Some r -> (sh = true -> n <> 0 /\ find_prop w m k t n = None) ->
  inv_x (fun x => x = length (heap w) \/ X x) (fst (create w m r k t n d sh)).
Proof.
  intros I Hm Hsh. rewrite create_eq. eapply inv_alloc; eauto; simpl; auto.
  intros ->. destruct (Hsh eq_refl) as [Hn F]. split; auto.
  intros s2 st2 H2 O2 S2 K.
  assert (In s2 (m_tracked r)) by (apply (iv_tracked _ _ I _ _ s2 Hm); eauto).
  pose proof (find_prop_none _ _ _ _ _ _ F Hn Hm s2 st2 H H2) as Mt.
  assert (matches k t n st2 = true); [|congruence].
  apply matches_spec. unfold key_eq in K. simpl in K. intuition congruence.
Qed.

Lemma get_st_create w m r k t n d sh x :
  get_st (fst (create w m r k t n d sh)) x =
  if x =? length (heap w) then Some (mkSt n t k sh false d (repeat d (count k (m_k r))) (Some m)) else get_st w x.
Proof. rewrite create_eq. apply get_st_alloc. Qed.

Lemma inv_create_handle w m r k t n d sh :
  inv w -> get_mesh w m = Some r -> (sh = true -> n <> 0 /\ find_prop w m k t n = None) ->
  inv (fst (new_handle (snd (create w m r k t n d sh)) (fst (create w m r k t n d sh)))).
Proof.
  intros I Hm Hsh.
  eapply inv_x_weaken; [|eapply inv_new_handle; [eapply inv_create; eauto|]].
  - intros s [[H|[]] N]. apply N. rewrite create_eq. simpl. exact H.
  - rewrite get_st_create. rewrite create_eq. simpl. rewrite Nat.eqb_refl. reflexivity.
Qed.

(* ====================================================================== clear_props *)

Lemma upd_mesh_upd_st_comm w m g s f : upd_mesh m g (upd_st s f w) = upd_st s f (upd_mesh m g w).
Proof.
  destruct (get_st w s) as [st|] eqn:Es; destruct (get_mesh w m) as [r|] eqn:Em.
  - assert (E1 : upd_st s f w = with_heap (upd s (Some (f st)) (heap w)) w) by (unfold upd_st; rewrite Es; reflexivity).
    assert (E2 : upd_mesh m g w = with_meshes (upd m (Some (g r)) (meshes w)) w) by (unfold upd_mesh; rewrite Em; reflexivity).
    rewrite E1, E2. unfold upd_mesh, upd_st.
    replace (get_mesh (with_heap (upd s (Some (f st)) (heap w)) w) m) with (Some r) by (symmetry; exact Em).
    replace (get_st (with_meshes (upd m (Some (g r)) (meshes w)) w) s) with (Some st) by (symmetry; exact Es).
    reflexivity.
  - assert (E1 : upd_st s f w = with_heap (upd s (Some (f st)) (heap w)) w) by (unfold upd_st; rewrite Es; reflexivity).
    assert (E2 : upd_mesh m g w = w) by (unfold upd_mesh; rewrite Em; reflexivity).
    rewrite E2, E1. unfold upd_mesh.
    replace (get_mesh (with_heap (upd s (Some (f st)) (heap w)) w) m) with (@None meshrec) by (symmetry; exact Em).
    reflexivity.
  - assert (E1 : upd_st s f w = w) by (unfold upd_st; rewrite Es; reflexivity).
    assert (E2 : upd_mesh m g w = with_meshes (upd m (Some (g r)) (meshes w)) w) by (unfold upd_mesh; rewrite Em; reflexivity).
    rewrite E1, E2. unfold upd_st.
    replace (get_st (with_meshes (upd m (Some (g r)) (meshes w)) w) s) with (@None storage) by (symmetry; exact Es).
    reflexivity.
  - assert (E1 : upd_st s f w = w) by (unfold upd_st; rewrite Es; reflexivity).
    assert (E2 : upd_mesh m g w = w) by (unfold upd_mesh; rewrite Em; reflexivity).
    rewrite E1, E2, E1. reflexivity.
Qed.

Lemma get_mesh_release_inv w s m' r' :
  get_mesh (release s w) m' = Some r' ->
  exists r, get_mesh w m' = Some r /\ m_pers r' = m_pers r /\ m_pos r' = m_pos r /\ m_k r' = m_k r /\
            (m_tracked r' = m_tracked r \/
             (held w s = false /\ exists st, get_st w s = Some st /\ s_owner st = Some m') /\
             m_tracked r' = remove_val s (m_tracked r)).
Proof.
  unfold release. destruct (held w s) eqn:H.
  - intros E. exists r'. repeat split; auto.
  - intros E. destruct (get_mesh_free_inv _ _ _ _ E) as [r [H1 [H2 [H3 [H4 H5]]]]]. exists r. repeat split; auto.
    destruct H5 as [H5|[H5 H6]]; auto.
Qed.

Lemma get_mesh_release_live w s m r :
  get_mesh w m = Some r -> exists r', get_mesh (release s w) m = Some r'.
Proof.
  intros Hm. unfold release. destruct (held w s); eauto. rewrite get_mesh_free.
  destruct (get_st w s) as [st|]; eauto. destruct (s_owner st) as [m0|]; eauto.
  destruct (Nat.eqb_spec m m0); subst; eauto. rewrite Hm. simpl. eauto.
Qed.

Lemma get_st_release w s x :
  get_st (release s w) x = if (x =? s) && negb (held w s) then None else get_st w x.
Proof.
  unfold release. destruct (held w s); simpl.
  - rewrite andb_false_r. reflexivity.
  - rewrite andb_true_r. apply get_st_free.
Qed.

Lemma get_h_release w s h : get_h (release s w) h = get_h w h.
Proof. unfold release. destruct (held w s); auto. apply get_h_free. Qed.

Lemma inv_unpersist w m r s : inv w -> get_mesh w m = Some r -> In s (m_pers r) -> inv (unpersist m s w).
Proof.
  intros I Hm Hin. unfold unpersist. apply inv_release.
  destruct (proj1 (iv_pers _ _ I _ _ s Hm) Hin) as [st [Hs [Ho Hp]]].
  unfold pers_erase. rewrite upd_mesh_upd_st_comm.
  rewrite (upd_mesh_ext w m (fun r0 => with_mpers (remove_val s (m_pers r0)) r0) (with_mpers (remove_val s (m_pers r))) r Hm eq_refl).
  eapply inv_set_pers with (b := false); eauto; try discriminate.
  - apply remove_val_NoDup. eapply (iv_pers_nodup _ _ I); eauto.
  - intros x. rewrite remove_val_In'. split; [intros [H1 H2]; left; auto|intros [[H1 H2]|[_ H]]; [auto|discriminate]].
Qed.

Lemma unpersist_mesh w m r s :
  get_mesh w m = Some r ->
  exists r', get_mesh (unpersist m s w) m = Some r' /\ m_pers r' = remove_val s (m_pers r) /\ m_pos r' = m_pos r /\
             m_k r' = m_k r /\ incl (m_tracked r') (m_tracked r).
Proof.
  intros Hm. unfold unpersist.
  set (w2 := pers_erase m s (upd_st s (with_pers false) w)).
  assert (H2 : get_mesh w2 m = Some (with_mpers (remove_val s (m_pers r)) r)).
  { unfold w2, pers_erase. rewrite get_mesh_upd_mesh, Nat.eqb_refl, get_mesh_upd_st, Hm. reflexivity. }
  destruct (get_mesh_release_live w2 s m _ H2) as [r' Hr']. exists r'. split; auto.
  destruct (get_mesh_release_inv _ _ _ _ Hr') as [r0 [E0 [E1 [E2 [E3 E4]]]]].
  rewrite H2 in E0. inversion E0; subst. simpl in *. repeat split; auto.
  destruct E4 as [E4|[_ E4]]; rewrite E4; [apply incl_refl|].
  intros x Hx. apply remove_val_In' in Hx. tauto.
Qed.

Lemma inv_fold_unpersist m l : forall w,
  inv w -> NoDup l -> (forall s, In s l -> exists r, get_mesh w m = Some r /\ In s (m_pers r)) ->
  inv (fold_left (fun w s => unpersist m s w) l w).
Proof.
  induction l as [|a t IH]; intros w I ND H; simpl; auto.
  inversion ND; subst. destruct (H a (or_introl eq_refl)) as [r [Hm Ha]].
  apply IH; auto.
  - eapply inv_unpersist; eauto.
  - intros s Hs. destruct (H s (or_intror Hs)) as [r0 [Hm0 Hs0]]. rewrite Hm in Hm0. inversion Hm0; subst.
    destruct (unpersist_mesh w m r0 a Hm) as [r' [Hr' [Hp _]]]. exists r'. split; auto. rewrite Hp.
    apply remove_val_In'. split; auto. intros ->. tauto.
Qed.

Lemma inv_unshare w s st : inv w -> get_st w s = Some st -> s_pers st = false -> inv (upd_st s (with_shared false) w).
Proof. intros I Hs P. eapply inv_upd_flags; eauto; simpl; congruence. Qed.

Lemma get_st_fold_upd_st f (Hf : forall x, f (f x) = f x) l : forall w s,
  get_st (fold_left (fun w x => upd_st x f w) l w) s = if memb s l then option_map f (get_st w s) else get_st w s.
Proof.
  induction l as [|a t IH]; intros w s; simpl; auto.
  rewrite IH. rewrite get_st_upd_st. unfold memb. destruct (Nat.eqb_spec s a); subst; simpl.
  - destruct (existsb (Nat.eqb a) t); destruct (get_st w a); simpl; auto. rewrite Hf. reflexivity.
  - reflexivity.
Qed.

Lemma get_mesh_fold_upd_st {A} (g : A -> nat) (f : A -> storage -> storage) l : forall w m,
  get_mesh (fold_left (fun w x => upd_st (g x) (f x) w) l w) m = get_mesh w m.
Proof. induction l as [|a t IH]; intros w m; simpl; auto. rewrite IH. apply get_mesh_upd_st. Qed.

Lemma get_h_fold_upd_st {A} (g : A -> nat) (f : A -> storage -> storage) l : forall w h,
  get_h (fold_left (fun w x => upd_st (g x) (f x) w) l w) h = get_h w h.
Proof. induction l as [|a t IH]; intros w h; simpl; auto. rewrite IH. apply get_h_upd_st. Qed.

Lemma inv_fold_unshare l : forall w,
  inv w -> (forall s st, In s l -> get_st w s = Some st -> s_pers st = false) ->
  inv (fold_left (fun w s => upd_st s (with_shared false) w) l w).
Proof.
  induction l as [|a t IH]; intros w I H; simpl; auto.
  apply IH.
  - destruct (get_st w a) as [st|] eqn:E.
    + eapply inv_unshare; eauto. eapply H; eauto. left; reflexivity.
    + unfold upd_st. rewrite E. exact I.
  - intros s st Hs. rewrite get_st_upd_st. destruct (Nat.eqb_spec s a); subst.
    + destruct (get_st w a) as [st0|] eqn:E; simpl; intros G; inversion G; subst. simpl. eapply H; eauto. left; reflexivity.
    + intros G. eapply H; eauto. right; assumption.
Qed.

(* b is a with flags possibly cleared *)
Definition st_le (a b : storage) : Prop :=
  s_name b = s_name a /\ s_type b = s_type a /\ s_kind b = s_kind a /\ s_def b = s_def a /\ s_owner b = s_owner a /\
  s_data b = s_data a /\ (s_shared b = true -> s_shared a = true) /\ (s_pers b = true -> s_pers a = true).
Definition wle (w w' : world) : Prop :=
  forall x st', get_st w' x = Some st' -> exists st, get_st w x = Some st /\ st_le st st'.

Lemma st_le_refl a : st_le a a.
Proof. repeat split; auto. Qed.
Lemma st_le_trans a b c : st_le a b -> st_le b c -> st_le a c.
Proof. unfold st_le. intuition congruence. Qed.
Lemma wle_refl w : wle w w.
Proof. intros x st H. eauto using st_le_refl. Qed.
Lemma wle_trans a b c : wle a b -> wle b c -> wle a c.
Proof.
  intros H1 H2 x st H. destruct (H2 _ _ H) as [st1 [G1 L1]]. destruct (H1 _ _ G1) as [st0 [G0 L0]].
  eauto using st_le_trans.
Qed.

Lemma wle_upd_st w s f : (forall st, st_le st (f st)) -> wle w (upd_st s f w).
Proof.
  intros Hf x st' H. apply get_st_upd_st_inv in H. destruct H as [st [Hs [[-> ->]|[N ->]]]]; eauto using st_le_refl.
Qed.
Lemma wle_upd_mesh w m g : wle w (upd_mesh m g w).
Proof. intros x st' H. rewrite get_st_upd_mesh in H. eauto using st_le_refl. Qed.
Lemma wle_release w s : wle w (release s w).
Proof.
  intros x st' H. rewrite get_st_release in H. destruct ((x =? s) && negb (held w s)); [discriminate|]. eauto using st_le_refl.
Qed.
Lemma wle_unpersist w m s : wle w (unpersist m s w).
Proof.
  unfold unpersist. eapply wle_trans; [|apply wle_release]. eapply wle_trans; [|apply wle_upd_mesh].
  apply wle_upd_st. intros st. repeat split; simpl; auto. discriminate.
Qed.
Lemma wle_fold {A} (F : world -> A -> world) l : (forall w a, wle w (F w a)) -> forall w, wle w (fold_left F l w).
Proof. intros H. induction l as [|a t IH]; intros w; simpl; [apply wle_refl|]. eapply wle_trans; [apply H|apply IH]. Qed.

Lemma fold_unpersist_mesh m l : forall w r,
  get_mesh w m = Some r ->
  exists r', get_mesh (fold_left (fun w s => unpersist m s w) l w) m = Some r' /\
             (forall x, In x (m_pers r') <-> In x (m_pers r) /\ ~ In x l) /\ m_pos r' = m_pos r /\ m_k r' = m_k r /\
             incl (m_tracked r') (m_tracked r).
Proof.
  induction l as [|a t IH]; intros w r Hm; simpl.
  - exists r. repeat split; auto; try tauto. apply incl_refl.
  - destruct (unpersist_mesh w m r a Hm) as [r1 [H1 [P1 [Q1 [K1 T1]]]]].
    destruct (IH _ _ H1) as [r' [H' [P' [Q' [K' T']]]]]. exists r'.
    split; [exact H'|]. split; [|split; [congruence|split; [congruence|eapply incl_tran; eauto]]].
    intros x. rewrite P', P1, remove_val_In'. simpl. split.
    + intros [[A B] C]. split; auto. intros [E|E]; [congruence|tauto].
    + intros [A B]. split; [split; [exact A|]|]; intros E; apply B; [left; congruence|right; exact E].
Qed.

Lemma is_kind_wle w w' k x : wle w w' -> is_kind w' k x = true -> is_kind w k x = true.
Proof.
  intros L. unfold is_kind. destruct (get_st w' x) as [st'|] eqn:E; [|discriminate].
  destruct (L _ _ E) as [st [G [_ [_ [K _]]]]]. rewrite G. congruence.
Qed.

Lemma inv_clear_props w m k : inv w -> inv (clear_props m k w).
Proof.
  intros I. unfold clear_props. destruct (get_mesh w m) as [r|] eqn:Hm; auto.
  set (l := pers_k w r k).
  assert (ND : NoDup l) by (apply NoDup_filter; eapply (iv_pers_nodup _ _ I); eauto).
  assert (Hl : forall s, In s l -> exists r0, get_mesh w m = Some r0 /\ In s (m_pers r0)).
  { intros s Hs. unfold l, pers_k in Hs. apply filter_In in Hs. exists r. tauto. }
  pose proof (inv_fold_unpersist m l w I ND Hl) as I1.
  destruct (fold_unpersist_mesh m l w r Hm) as [r1 [H1 [P1 _]]].
  set (w1 := fold_left (fun w s => unpersist m s w) l w) in *.
  rewrite H1. apply inv_fold_unshare; auto.
  intros s st Hs Hst. destruct (s_pers st) eqn:P; auto. exfalso.
  unfold tracked_k in Hs. apply filter_In in Hs. destruct Hs as [Ht Hk].
  apply (iv_tracked _ _ I1 _ _ s H1) in Ht. destruct Ht as [st' [Hst' Ho]]. rewrite Hst in Hst'. inversion Hst'; subst.
  assert (In s (m_pers r1)) by (apply (iv_pers _ _ I1 _ _ s H1); eauto).
  apply P1 in H. destruct H as [Hin Hnl]. apply Hnl. unfold l, pers_k. apply filter_In. split; auto.
  eapply is_kind_wle; eauto. unfold w1. apply wle_fold. intros; apply wle_unpersist.
Qed.

Lemma inv_clear_all_props w m : inv w -> inv (clear_all_props m w).
Proof.
  unfold clear_all_props. generalize all_kinds. intros l. revert w. induction l as [|k t IH]; intros w I; simpl; auto.
  apply IH. apply inv_clear_props. exact I.
Qed.

(* ====================================================================== worlds with equal lookups *)

Lemma inv_ext X w w' :
  (forall s, get_st w' s = get_st w s) -> (forall m, get_mesh w' m = get_mesh w m) -> (forall h, get_h w' h = get_h w h) ->
  inv_x X w -> inv_x X w'.
Proof.
  intros H1 H2 H3. apply inv_sim. repeat split; intros.
  - rewrite H1. destruct (get_st w s); simpl; auto using fields_eq_refl.
  - rewrite H2. destruct (get_mesh w m); simpl; auto using mrec_eq_refl.
  - rewrite H3. reflexivity.
Qed.

(* ====================================================================== the position handle of a mesh object *)

Lemma inv_with_pos X w m r o :
  inv_x X w -> get_mesh w m = Some r ->
  (forall p, o = Some p -> exists st, get_st w p = Some st /\ s_owner st = Some m) ->
  inv_x (fun x => (m_pos r = Some x \/ X x) /\ o <> Some x) (upd_mesh m (with_pos o) w).
Proof.
  intros I Hm Ho.
  assert (GM : forall m', get_mesh (upd_mesh m (with_pos o) w) m' = if m' =? m then Some (with_pos o r) else get_mesh w m').
  { intros m'. rewrite get_mesh_upd_mesh. destruct (Nat.eqb_spec m' m); subst; auto. rewrite Hm. reflexivity. }
  assert (L : forall m' r', get_mesh (upd_mesh m (with_pos o) w) m' = Some r' ->
              exists r0, get_mesh w m' = Some r0 /\ m_tracked r' = m_tracked r0 /\ m_pers r' = m_pers r0 /\
                         ((m' = m /\ r0 = r /\ m_pos r' = o) \/ (m' <> m /\ r' = r0))).
  { intros m' r'. rewrite GM. destruct (Nat.eqb_spec m' m); subst.
    - intros E; inversion E; subst. exists r. simpl. repeat split; auto.
    - intros E. exists r'. repeat split; auto. }
  constructor.
  - intros s st. rewrite get_st_upd_mesh. apply (iv_pers_shared _ _ I).
  - intros s st. rewrite get_st_upd_mesh. apply (iv_named _ _ I).
  - intros s1 s2 st1 st2 m0. rewrite !get_st_upd_mesh. apply (iv_unique _ _ I).
  - intros m' r' s Hm'. destruct (L _ _ Hm') as [r0 [H0 [E1 _]]]. rewrite E1, get_st_upd_mesh. apply (iv_tracked _ _ I); auto.
  - intros m' r' Hm'. destruct (L _ _ Hm') as [r0 [H0 [E1 _]]]. rewrite E1. eapply (iv_tracked_nodup _ _ I); eauto.
  - intros m' r' s Hm'. destruct (L _ _ Hm') as [r0 [H0 [_ [E2 _]]]]. rewrite E2, get_st_upd_mesh. apply (iv_pers _ _ I); auto.
  - intros m' r' Hm'. destruct (L _ _ Hm') as [r0 [H0 [_ [E2 _]]]]. rewrite E2. eapply (iv_pers_nodup _ _ I); eauto.
  - intros m' r' p Hm' Hp. rewrite get_st_upd_mesh. destruct (L _ _ Hm') as [r0 [H0 [_ [_ [[-> [-> E]]|[N ->]]]]]].
    + apply Ho. congruence.
    + eapply (iv_pos _ _ I); eauto.
  - intros h s. rewrite get_h_upd_mesh, get_st_upd_mesh. apply (iv_handle _ _ I).
  - intros s st. rewrite get_st_upd_mesh. intros Hs HX.
    assert (D : o = Some s \/ o <> Some s) by (destruct o as [p|]; [destruct (Nat.eq_dec p s); [left|right]; congruence|right; discriminate]).
    destruct D as [D|D].
    + apply held_spec. right. exists m, (with_pos o r). rewrite GM, Nat.eqb_refl. split; auto.
    + assert (N1 : m_pos r <> Some s) by tauto. assert (N2 : ~ X s) by tauto.
      pose proof (iv_held _ _ I _ _ Hs N2) as Hh. apply held_spec in Hh. apply held_spec.
      destruct Hh as [[h Hh]|[m' [r' [Hm' Hr']]]].
      * left. exists h. rewrite get_h_upd_mesh. assumption.
      * right. destruct (Nat.eq_dec m' m); subst.
        -- rewrite Hm in Hm'. inversion Hm'; subst. exists m, (with_pos o r'). rewrite GM, Nat.eqb_refl. split; auto.
           simpl. destruct Hr'; [congruence|auto].
        -- exists m', r'. rewrite GM. destruct (Nat.eqb_spec m' m); [congruence|]. auto.
  - intros s st m'. rewrite get_st_upd_mesh. intros Hs O. destruct (iv_owner _ _ I _ _ _ Hs O) as [r0 H0].
    rewrite GM. destruct (Nat.eqb_spec m' m); eauto.
Qed.

Definition release_opt (o : option nat) (w : world) : world := match o with Some p => release p w | None => w end.

(* position_ = <a handle to p>  (assignment of a PropertyPtr: the old storage loses one owner) *)
Lemma inv_replace_pos X w m r p st :
  inv_x (fun x => x = p \/ X x) w -> get_mesh w m = Some r -> get_st w p = Some st -> s_owner st = Some m ->
  inv_x X (release_opt (m_pos r) (upd_mesh m (with_pos (Some p)) w)).
Proof.
  intros I Hm Hs Ho.
  pose proof (inv_with_pos _ w m r (Some p) I Hm) as I1.
  assert (I2 : inv_x (fun x => (m_pos r = Some x \/ x = p \/ X x) /\ Some p <> Some x) (upd_mesh m (with_pos (Some p)) w)).
  { apply I1. intros p0 E. inversion E; subst. eauto. }
  destruct (m_pos r) as [o|] eqn:Po; simpl.
  - apply inv_release. eapply inv_x_weaken; [|exact I2]. simpl. intros s [[H|[H|H]] N]; auto.
    + left. congruence.
    + subst. congruence.
  - eapply inv_x_weaken; [|exact I2]. simpl. intros s [[H|[H|H]] N]; auto; congruence.
Qed.

Lemma inv_drop_pos w m r :
  inv w -> get_mesh w m = Some r -> inv (release_opt (m_pos r) (upd_mesh m (with_pos None) w)).
Proof.
  intros I Hm. pose proof (inv_with_pos _ w m r None I Hm) as I1.
  assert (I2 : inv_x (fun x => (m_pos r = Some x \/ False) /\ None <> Some x) (upd_mesh m (with_pos None) w)).
  { apply I1. discriminate. }
  destruct (m_pos r) as [o|] eqn:Po; simpl.
  - apply inv_release. eapply inv_x_weaken; [|exact I2]. simpl. intros s [[H|[]] _]. left. congruence.
  - eapply inv_x_weaken; [|exact I2]. simpl. intros s [[H|[]] _]. discriminate.
Qed.

(* ====================================================================== mesh objects appear and disappear *)

Lemma inv_append_mesh X w : inv_x X w -> inv_x X (with_meshes (meshes w ++ [Some mesh_new]) w).
Proof.
  intros I. set (w' := with_meshes (meshes w ++ [Some mesh_new]) w).
  assert (GS : forall s, get_st w' s = get_st w s) by reflexivity.
  assert (GH : forall h, get_h w' h = get_h w h) by reflexivity.
  assert (GM : forall m, get_mesh w' m = if m =? length (meshes w) then Some mesh_new else get_mesh w m).
  { intros m. unfold w'. rewrite get_mesh_app. reflexivity. }
  assert (NO : forall s st, get_st w s = Some st -> s_owner st <> Some (length (meshes w))).
  { intros s st Hs Ho. destruct (iv_owner _ _ I _ _ _ Hs Ho) as [r Hr]. apply get_mesh_lt in Hr. lia. }
  constructor.
  - intros s st. rewrite GS. apply (iv_pers_shared _ _ I).
  - intros s st. rewrite GS. apply (iv_named _ _ I).
  - intros s1 s2 st1 st2 m. rewrite !GS. apply (iv_unique _ _ I).
  - intros m r s. rewrite GM, GS. destruct (Nat.eqb_spec m (length (meshes w))); subst.
    + intros E; inversion E; subst. simpl. split; [tauto|]. intros [st [Hs Ho]]. eapply NO; eauto.
    + apply (iv_tracked _ _ I).
  - intros m r. rewrite GM. destruct (Nat.eqb_spec m (length (meshes w))); subst.
    + intros E; inversion E; subst. constructor.
    + apply (iv_tracked_nodup _ _ I).
  - intros m r s. rewrite GM, GS. destruct (Nat.eqb_spec m (length (meshes w))); subst.
    + intros E; inversion E; subst. simpl. split; [tauto|]. intros [st [Hs [Ho _]]]. eapply NO; eauto.
    + apply (iv_pers _ _ I).
  - intros m r. rewrite GM. destruct (Nat.eqb_spec m (length (meshes w))); subst.
    + intros E; inversion E; subst. constructor.
    + apply (iv_pers_nodup _ _ I).
  - intros m r p. rewrite GM, GS. destruct (Nat.eqb_spec m (length (meshes w))); subst.
    + intros E; inversion E; subst. discriminate.
    + apply (iv_pos _ _ I).
  - intros h s. rewrite GH, GS. apply (iv_handle _ _ I).
  - intros s st. rewrite GS. intros Hs HX. pose proof (iv_held _ _ I _ _ Hs HX) as Hh.
    apply held_spec in Hh. apply held_spec. destruct Hh as [[h Hh]|[m [r [Hm Hr]]]].
    + left. exists h. rewrite GH. assumption.
    + right. exists m, r. rewrite GM. destruct (Nat.eqb_spec m (length (meshes w))); auto.
      apply get_mesh_lt in Hm. lia.
  - intros s st m. rewrite GS, GM. intros Hs Ho. destruct (iv_owner _ _ I _ _ _ Hs Ho) as [r Hr].
    destruct (Nat.eqb_spec m (length (meshes w))); eauto.
Qed.

Lemma inv_remove_mesh X w m r :
  inv_x X w -> get_mesh w m = Some r -> m_tracked r = [] -> m_pers r = [] -> m_pos r = None ->
  inv_x X (with_meshes (upd m None (meshes w)) w).
Proof.
  intros I Hm T P Po. set (w' := with_meshes (upd m None (meshes w)) w).
  assert (GS : forall s, get_st w' s = get_st w s) by reflexivity.
  assert (GH : forall h, get_h w' h = get_h w h) by reflexivity.
  assert (GM : forall m', get_mesh w' m' = if m' =? m then None else get_mesh w m') by (intros; apply get_mesh_kill).
  assert (NO : forall s st, get_st w s = Some st -> s_owner st <> Some m).
  { intros s st Hs Ho. assert (In s (m_tracked r)) by (apply (iv_tracked _ _ I _ _ s Hm); eauto). rewrite T in H. destruct H. }
  constructor.
  - intros s st. rewrite GS. apply (iv_pers_shared _ _ I).
  - intros s st. rewrite GS. apply (iv_named _ _ I).
  - intros s1 s2 st1 st2 m0. rewrite !GS. apply (iv_unique _ _ I).
  - intros m' r' s. rewrite GM, GS. destruct (Nat.eqb_spec m' m); [discriminate|]. apply (iv_tracked _ _ I).
  - intros m' r'. rewrite GM. destruct (Nat.eqb_spec m' m); [discriminate|]. apply (iv_tracked_nodup _ _ I).
  - intros m' r' s. rewrite GM, GS. destruct (Nat.eqb_spec m' m); [discriminate|]. apply (iv_pers _ _ I).
  - intros m' r'. rewrite GM. destruct (Nat.eqb_spec m' m); [discriminate|]. apply (iv_pers_nodup _ _ I).
  - intros m' r' p. rewrite GM, GS. destruct (Nat.eqb_spec m' m); [discriminate|]. apply (iv_pos _ _ I).
  - intros h s. rewrite GH, GS. apply (iv_handle _ _ I).
  - intros s st. rewrite GS. intros Hs HX. pose proof (iv_held _ _ I _ _ Hs HX) as Hh.
    apply held_spec in Hh. apply held_spec. destruct Hh as [[h Hh]|[m' [r' [Hm' Hr']]]].
    + left. exists h. rewrite GH. assumption.
    + right. exists m', r'. rewrite GM. destruct (Nat.eqb_spec m' m); subst; auto.
      rewrite Hm in Hm'. inversion Hm'; subst. rewrite Po, P in Hr'. destruct Hr' as [Hr'|[]]. discriminate.
  - intros s st m'. rewrite GS, GM. intros Hs Ho. destruct (iv_owner _ _ I _ _ _ Hs Ho) as [r0 Hr0].
    destruct (Nat.eqb_spec m' m); subst; eauto. exfalso. eapply NO; eauto.
Qed.

(* ====================================================================== mesh destruction *)

Definition detach0 (m s : nat) (w : world) : world := pers_erase m s (set_tracker s None w).

Lemma detach_eq m s w : detach m s w = release s (detach0 m s w).
Proof. reflexivity. Qed.


  Lemma detach0_st w m s st (Hs : get_st w s = Some st) x : get_st (detach0 m s w) x = if x =? s then Some (with_owner None st) else get_st w x.
  Proof.
    unfold detach0, pers_erase. rewrite get_st_upd_mesh, get_st_set_tracker.
    destruct (Nat.eqb_spec x s); subst; auto. rewrite Hs. reflexivity.
  Qed.

  Lemma detach0_mesh w m s r st (Hm : get_mesh w m = Some r) (Hs : get_st w s = Some st) (Ho : s_owner st = Some m) m' :
    get_mesh (detach0 m s w) m' =
    if m' =? m then Some (with_mpers (remove_val s (m_pers r)) (with_tracked (remove_val s (m_tracked r)) r))
    else get_mesh w m'.
  Proof.
    unfold detach0, pers_erase, set_tracker. rewrite Hs, Ho. unfold tracker_remove.
    rewrite get_mesh_upd_mesh, get_mesh_upd_st, get_mesh_upd_mesh.
    destruct (Nat.eqb_spec m' m); subst; auto. rewrite Hm. reflexivity.
  Qed.

  Lemma detach0_h w m s h : get_h (detach0 m s w) h = get_h w h.
  Proof. unfold detach0, pers_erase. rewrite get_h_upd_mesh, get_h_set_tracker. reflexivity. Qed.

  Lemma inv_detach0 w m s r st (Hm : get_mesh w m = Some r) (Hs : get_st w s = Some st) (Ho : s_owner st = Some m) X :
    inv_x X w -> m_pos r <> Some s -> inv_x (fun x => x = s \/ X x) (detach0 m s w).
  Proof.
    intros I Np.
    assert (L : forall x y, get_st (detach0 m s w) x = Some y ->
                (x = s /\ y = with_owner None st) \/ (x <> s /\ get_st w x = Some y)).
    { intros x y. rewrite (detach0_st w m s st Hs). destruct (Nat.eqb_spec x s); subst; intros E; [left; inversion E|right]; auto. }
    constructor.
    - intros x y H. apply L in H. destruct H as [[-> ->]|[N H]]; simpl.
      + apply (iv_pers_shared _ _ I _ _ Hs).
      + apply (iv_pers_shared _ _ I _ _ H).
    - intros x y H. apply L in H. destruct H as [[-> ->]|[N H]]; simpl.
      + apply (iv_named _ _ I _ _ Hs).
      + apply (iv_named _ _ I _ _ H).
    - intros s1 s2 st1 st2 m0 G1 G2 O1 O2. apply L in G1. apply L in G2.
      destruct G1 as [[-> ->]|[N1 G1]]; [simpl in O1; discriminate|].
      destruct G2 as [[-> ->]|[N2 G2]]; [simpl in O2; discriminate|].
      eapply (iv_unique _ _ I); eauto.
    - intros m' r' x. rewrite (detach0_mesh w m s _ st Hm Hs Ho), (detach0_st w m s st Hs). destruct (Nat.eqb_spec m' m); subst.
      + intros E; inversion E; subst. simpl. rewrite remove_val_In', (iv_tracked _ _ I _ _ x Hm).
        destruct (Nat.eqb_spec x s); subst.
        * split; [tauto|]. intros [y [E1 O]]. inversion E1; subst. discriminate.
        * tauto.
      + intros Hm'. rewrite (iv_tracked _ _ I _ _ x Hm'). destruct (Nat.eqb_spec x s); subst; [|tauto].
        split; intros [y [E1 O]].
        * rewrite Hs in E1. inversion E1; subst. congruence.
        * inversion E1; subst. discriminate.
    - intros m' r'. rewrite (detach0_mesh w m s _ st Hm Hs Ho). destruct (Nat.eqb_spec m' m); subst.
      + intros E; inversion E; subst. simpl. apply remove_val_NoDup. eapply (iv_tracked_nodup _ _ I); eauto.
      + apply (iv_tracked_nodup _ _ I).
    - intros m' r' x. rewrite (detach0_mesh w m s _ st Hm Hs Ho), (detach0_st w m s st Hs). destruct (Nat.eqb_spec m' m); subst.
      + intros E; inversion E; subst. simpl. rewrite remove_val_In', (iv_pers _ _ I _ _ x Hm).
        destruct (Nat.eqb_spec x s); subst.
        * split; [tauto|]. intros [y [E1 [O _]]]. inversion E1; subst. discriminate.
        * tauto.
      + intros Hm'. rewrite (iv_pers _ _ I _ _ x Hm'). destruct (Nat.eqb_spec x s); subst; [|tauto].
        split; intros [y [E1 [O P]]].
        * rewrite Hs in E1. inversion E1; subst. congruence.
        * inversion E1; subst. discriminate.
    - intros m' r'. rewrite (detach0_mesh w m s _ st Hm Hs Ho). destruct (Nat.eqb_spec m' m); subst.
      + intros E; inversion E; subst. simpl. apply remove_val_NoDup. eapply (iv_pers_nodup _ _ I); eauto.
      + apply (iv_pers_nodup _ _ I).
    - intros m' r' p. rewrite (detach0_mesh w m s _ st Hm Hs Ho), (detach0_st w m s st Hs). intros Hm' Hp.
      assert (exists r0, get_mesh w m' = Some r0 /\ m_pos r0 = Some p).
      { destruct (Nat.eqb_spec m' m); subst; [inversion Hm'; subst; simpl in Hp|]; eauto. }
      destruct H as [r0 [H0 P0]]. destruct (iv_pos _ _ I _ _ _ H0 P0) as [y [Hy Oy]].
      destruct (Nat.eqb_spec p s); subst; eauto.
      exfalso. rewrite Hs in Hy. inversion Hy; subst. assert (m' = m) by congruence. subst.
      rewrite Hm in H0. inversion H0; subst. tauto.
    - intros h x. rewrite detach0_h, (detach0_st w m s st Hs). intros Hh. destruct (iv_handle _ _ I _ _ Hh) as [y Hy].
      destruct (Nat.eqb_spec x s); eauto.
    - intros x y H HX. assert (N : x <> s) by tauto. assert (HX' : ~ X x) by tauto.
      apply L in H. destruct H as [[-> _]|[_ H]]; [tauto|].
      pose proof (iv_held _ _ I _ _ H HX') as Hh. apply held_spec in Hh. apply held_spec.
      destruct Hh as [[h Hh]|[m' [r' [Hm' Hr']]]].
      + left. exists h. rewrite detach0_h. assumption.
      + right. destruct (Nat.eq_dec m' m); subst.
        * rewrite Hm in Hm'. inversion Hm'; subst. eexists m, _. rewrite (detach0_mesh w m s _ st Hm Hs Ho), Nat.eqb_refl. split; [reflexivity|].
          simpl. destruct Hr' as [Hr'|Hr']; auto. right. apply remove_val_In'. auto.
        * exists m', r'. rewrite (detach0_mesh w m s _ st Hm Hs Ho). destruct (Nat.eqb_spec m' m); [congruence|]. auto.
    - intros x y m' H O. apply L in H. destruct H as [[-> ->]|[N H]]; [simpl in O; discriminate|].
      destruct (iv_owner _ _ I _ _ _ H O) as [r0 H0]. rewrite (detach0_mesh w m s _ st Hm Hs Ho). destruct (Nat.eqb_spec m' m); eauto.
  Qed.


Lemma inv_detach w m r s :
  inv w -> get_mesh w m = Some r -> In s (m_tracked r) -> m_pos r <> Some s -> inv (detach m s w).
Proof.
  intros I Hm Hin Np. destruct (proj1 (iv_tracked _ _ I _ _ s Hm) Hin) as [st [Hs Ho]].
  rewrite detach_eq. apply inv_release. eapply inv_detach0; eauto.
Qed.

(* the mesh record after one detach: s is gone from both sets, everything else as before *)
Lemma detach_mesh w m r s st :
  get_mesh w m = Some r -> get_st w s = Some st -> s_owner st = Some m ->
  exists r', get_mesh (detach m s w) m = Some r' /\ m_tracked r' = remove_val s (m_tracked r) /\
             m_pers r' = remove_val s (m_pers r) /\ m_pos r' = m_pos r.
Proof.
  intros Hm Hs Ho. rewrite detach_eq.
  assert (H0 : get_mesh (detach0 m s w) m = Some (with_mpers (remove_val s (m_pers r)) (with_tracked (remove_val s (m_tracked r)) r))).
  { rewrite (detach0_mesh w m s _ st Hm Hs Ho), Nat.eqb_refl. reflexivity. }
  destruct (get_mesh_release_live _ s _ _ H0) as [r' Hr']. exists r'. split; auto.
  destruct (get_mesh_release_inv _ _ _ _ Hr') as [r0 [E0 [E1 [E2 [_ E4]]]]]. rewrite H0 in E0. inversion E0; subst. simpl in *.
  repeat split; auto. destruct E4 as [E4|[[_ [y [Hy Oy]]] _]]; auto.
  rewrite (detach0_st w m s st Hs), Nat.eqb_refl in Hy. inversion Hy; subst. discriminate.
Qed.

Lemma inv_fold_detach m l : forall w r,
  inv w -> get_mesh w m = Some r -> m_tracked r = l -> m_pos r = None ->
  inv (fold_left (fun w s => detach m s w) l w) /\
  exists r', get_mesh (fold_left (fun w s => detach m s w) l w) m = Some r' /\
             m_tracked r' = [] /\ m_pers r' = [] /\ m_pos r' = None.
Proof.
  induction l as [|a t IH]; intros w r I Hm Ht Hp; simpl.
  - split; auto. exists r. repeat split; auto.
    destruct (m_pers r) as [|x p] eqn:P; auto. exfalso.
    assert (In x (m_tracked r)) by (eapply pers_tracked; eauto; rewrite P; left; reflexivity). rewrite Ht in H. destruct H.
  - assert (Hin : In a (m_tracked r)) by (rewrite Ht; left; reflexivity).
    destruct (proj1 (iv_tracked _ _ I _ _ a Hm) Hin) as [st [Hs Ho]].
    assert (I1 : inv (detach m a w)) by (eapply inv_detach; eauto; congruence).
    destruct (detach_mesh w m r a st Hm Hs Ho) as [r1 [H1 [T1 [P1 Q1]]]].
    apply (IH _ r1); auto; try congruence.
    rewrite T1, Ht. apply remove_val_head.
    pose proof (iv_tracked_nodup _ _ I _ _ Hm) as ND. rewrite Ht in ND. inversion ND; auto.
Qed.

Lemma fold_release_nil w : fold_left (fun w s => release s w) [] w = w.
Proof. reflexivity. Qed.

Lemma inv_destroy_mesh w m : inv w -> inv (fst (destroy_mesh m w)).
Proof.
  intros I. unfold destroy_mesh. destruct (get_mesh w m) as [r|] eqn:Hm; auto.
  pose proof (inv_drop_pos w m r I Hm) as I2. unfold release_opt in I2.
  set (w2 := match m_pos r with Some p => release p (upd_mesh m (with_pos None) w) | None => upd_mesh m (with_pos None) w end) in *.
  destruct (get_mesh w2 m) as [r2|] eqn:H2; auto.
  assert (P2 : m_pos r2 = None).
  { assert (H1 : get_mesh (upd_mesh m (with_pos None) w) m = Some (with_pos None r)) by (rewrite get_mesh_upd_mesh, Nat.eqb_refl, Hm; reflexivity).
    unfold w2 in H2. destruct (m_pos r).
    - destruct (get_mesh_release_inv _ _ _ _ H2) as [r0 [E0 [_ [E2 _]]]]. rewrite H1 in E0. inversion E0; subst. exact E2.
    - rewrite H1 in H2. inversion H2; subst. reflexivity. }
  destruct (inv_fold_detach m (m_tracked r2) w2 r2 I2 H2 eq_refl P2) as [I3 [r3 [H3 [T3 [Pe3 Po3]]]]].
  set (w3 := fold_left (fun w s => detach m s w) (m_tracked r2) w2) in *.
  cbn [fst]. rewrite H3, Pe3. cbn [fold_left].
  assert (E : upd_mesh m (with_mpers []) w3 = w3).
  { unfold upd_mesh. rewrite H3. destruct w3 as [hp ms hs]. unfold with_meshes; simpl. f_equal.
    unfold get_mesh in H3; simpl in H3. clear - H3 Pe3. revert m H3. induction ms as [|x t IH]; intros [|m] H; simpl in *; try discriminate.
    - destruct x as [y|]; [|discriminate]. inversion H; subst. f_equal. f_equal. rewrite <- Pe3. apply with_mpers_same.
    - f_equal. apply IH. exact H. }
  rewrite E. eapply inv_remove_mesh; eauto.
Qed.

(* ====================================================================== clone_persistent_properties_from *)

Definition tr_add (s : nat) (r : meshrec) : meshrec := with_tracked (m_tracked r ++ [s]) r.
Definition tr_remove (s : nat) (r : meshrec) : meshrec := with_tracked (remove_val s (m_tracked r)) r.

Lemma get_mesh_set_tracker w s t st m0 :
  get_st w s = Some st ->
  get_mesh (set_tracker s t w) m0 =
  option_map (fun r => (if opt_is m0 t then tr_add s else fun r => r)
                         ((if opt_is m0 (s_owner st) then tr_remove s else fun r => r) r))
             (get_mesh w m0).
Proof.
  intros Hs. unfold set_tracker. rewrite Hs.
  destruct t as [mt|], (s_owner st) as [mo|]; unfold tracker_add, tracker_remove, opt_is;
    rewrite ?get_mesh_upd_mesh, ?get_mesh_upd_st, ?get_mesh_upd_mesh.
  - rewrite (Nat.eqb_sym mt m0), (Nat.eqb_sym mo m0).
    destruct (m0 =? mt), (m0 =? mo), (get_mesh w m0); reflexivity.
  - rewrite (Nat.eqb_sym mt m0). destruct (m0 =? mt), (get_mesh w m0); reflexivity.
  - rewrite (Nat.eqb_sym mo m0). destruct (m0 =? mo), (get_mesh w m0); reflexivity.
  - destruct (get_mesh w m0); reflexivity.
Qed.

Lemma with_tracked_same r : with_tracked (m_tracked r) r = r.
Proof. destruct r; reflexivity. Qed.

Lemma tr_remove_add s r : ~ In s (m_tracked r) -> tr_remove s (tr_add s r) = r.
Proof.
  intros H. unfold tr_remove, tr_add. destruct r; simpl in *. unfold with_tracked; simpl. f_equal.
  apply remove_val_app_last. assumption.
Qed.

Definition cloned (m' s' : nat) (r' : meshrec) : meshrec :=
  with_mpers (m_pers r' ++ [s']) (with_tracked (m_tracked r' ++ [s']) r').

Lemma clone_one_lookups X w m' r' s st :
  inv_x X w -> get_st w s = Some st -> get_mesh w m' = Some r' ->
  let s' := length (heap w) in
  (forall x, get_st (clone_one m' w s) x = if x =? s' then Some (with_owner (Some m') st) else get_st w x) /\
  (forall m0, get_mesh (clone_one m' w s) m0 = if m0 =? m' then Some (cloned m' s' r') else get_mesh w m0) /\
  (forall h, get_h (clone_one m' w s) h = get_h w h).
Proof.
  intros I Hs Hm' s'. unfold clone_one. rewrite Hs.
  change (alloc st w) with (fst (alloc st w), s'). cbv iota beta.
  set (w1 := fst (alloc st w)).
  assert (S1 : get_st w1 s' = Some st) by (unfold w1; rewrite get_st_alloc; fold s'; rewrite Nat.eqb_refl; reflexivity).
  set (w2 := set_tracker s' None w1).
  assert (S2 : get_st w2 s' = Some (with_owner None st)) by (unfold w2; rewrite get_st_set_tracker, Nat.eqb_refl, S1; reflexivity).
  set (w3 := set_tracker s' (Some m') w2).
  assert (Fr : forall m0 r0, get_mesh w m0 = Some r0 -> ~ In s' (m_tracked r0) /\ ~ In s' (m_pers r0)).
  { intros m0 r0 H0. split; intros Hin.
    - apply (tracked_lt _ _ _ _ _ I H0) in Hin. unfold s' in Hin. lia.
    - apply (pers_lt _ _ _ _ _ I H0) in Hin. unfold s' in Hin. lia. }
  assert (M2 : forall m0, get_mesh w2 m0 = get_mesh w m0).
  { intros m0. unfold w2. rewrite (get_mesh_set_tracker w1 s' None st m0 S1). cbn [opt_is]. unfold w1. rewrite get_mesh_alloc.
    destruct (s_owner st) as [mo|]; cbn [opt_is].
    - destruct (Nat.eqb_spec m0 mo); subst.
      + rewrite Nat.eqb_refl. destruct (get_mesh w mo) as [r0|] eqn:H0; simpl; auto. f_equal.
        apply (tr_remove_add s' r0). apply (Fr _ _ H0).
      + replace (mo =? m0) with false by (symmetry; apply Nat.eqb_neq; congruence). destruct (get_mesh w m0); reflexivity.
    - destruct (get_mesh w m0); reflexivity. }
  assert (M3 : forall m0, get_mesh w3 m0 = if m0 =? m' then Some (tr_add s' r') else get_mesh w m0).
  { intros m0. unfold w3. rewrite (get_mesh_set_tracker w2 s' (Some m') _ m0 S2). cbn [opt_is s_owner with_owner]. rewrite M2.
    destruct (Nat.eqb_spec m0 m'); subst.
    - rewrite Nat.eqb_refl, Hm'. reflexivity.
    - replace (m' =? m0) with false by (symmetry; apply Nat.eqb_neq; congruence). destruct (get_mesh w m0); reflexivity. }
  repeat split.
  - intros x. unfold pers_insert. rewrite get_st_upd_mesh. unfold w3. rewrite get_st_set_tracker.
    unfold w2. rewrite get_st_set_tracker. unfold w1. rewrite get_st_alloc. fold s'.
    destruct (Nat.eqb_spec x s'); subst; simpl; auto.
  - intros m0. unfold pers_insert. rewrite get_mesh_upd_mesh, M3. destruct (Nat.eqb_spec m0 m'); subst; auto.
    simpl. destruct (Fr _ _ Hm') as [_ F2].
    replace (memb s' (m_pers r')) with false by (symmetry; destruct (memb s' (m_pers r')) eqn:E; auto; apply memb_In' in E; tauto).
    reflexivity.
  - intros h. unfold pers_insert. rewrite get_h_upd_mesh. unfold w3, w2, w1. rewrite !get_h_set_tracker, get_h_alloc. reflexivity.
Qed.

Lemma inv_clone_one X w m' r' s st :
  inv_x X w -> get_st w s = Some st -> s_pers st = true -> get_mesh w m' = Some r' ->
  (forall s2 st2, get_st w s2 = Some st2 -> s_owner st2 = Some m' -> s_shared st2 = true -> ~ key_eq st st2) ->
  inv_x X (clone_one m' w s).
Proof.
  intros I Hs Hp Hm' Hu.
  pose proof (iv_pers_shared _ _ I _ _ Hs Hp) as Hsh. pose proof (iv_named _ _ I _ _ Hs Hsh) as Hn.
  set (s' := length (heap w)).
  set (st0 := with_pers false (with_owner (Some m') st)).
  set (wA := fst (alloc st0 w)).
  assert (IA : inv_x (fun x => x = s' \/ X x) wA).
  { unfold wA, s'. eapply inv_alloc; eauto; simpl; auto; try (intros _; split; auto). }
  assert (SA : get_st wA s' = Some st0) by (unfold wA; rewrite get_st_alloc; fold s'; rewrite Nat.eqb_refl; reflexivity).
  assert (MA : get_mesh wA m' = Some (tr_add s' r')).
  { unfold wA. rewrite get_mesh_alloc. simpl. rewrite Nat.eqb_refl, Hm'. reflexivity. }
  assert (Fr : ~ In s' (m_pers r')).
  { intros Hin. apply (pers_lt _ _ _ _ _ I Hm') in Hin. unfold s' in Hin. lia. }
  set (wB := upd_st s' (with_pers true) (upd_mesh m' (with_mpers (m_pers r' ++ [s'])) wA)).
  assert (IB : inv_x X wB).
  { eapply inv_x_held with (s := s').
    - eapply inv_x_weaken with (X := fun x => x = s' \/ (x = s' \/ X x));
        [|unfold wB; eapply inv_set_pers with (b := true) (r := tr_add s' r'); eauto].
      + simpl. intros x [H|[H|H]]; auto.
      + simpl. apply NoDup_app_last; auto. eapply (iv_pers_nodup _ _ I); eauto.
      + intros x. simpl. rewrite in_app_iff. simpl. split.
        * intros [H|[H|[]]]; [left; split; auto; intros ->; tauto|right; auto].
        * intros [[_ H]|[H _]]; auto.
    - apply held_spec. right. exists m', (with_mpers (m_pers r' ++ [s']) (tr_add s' r')). split.
      + unfold wB. rewrite get_mesh_upd_st, get_mesh_upd_mesh, Nat.eqb_refl, MA. reflexivity.
      + right. simpl. rewrite in_app_iff. simpl. auto. }
  destruct (clone_one_lookups X w m' r' s st I Hs Hm') as [L1 [L2 L3]]. fold s' in L1, L2.
  eapply inv_ext; [| | |exact IB].
  - intros x. rewrite L1. unfold wB. rewrite get_st_upd_st, get_st_upd_mesh. unfold wA. rewrite get_st_alloc. fold s'.
    destruct (Nat.eqb_spec x s'); subst; auto. simpl. f_equal. unfold st0. destruct st; simpl in *. subst. reflexivity.
  - intros m0. rewrite L2. unfold wB. rewrite get_mesh_upd_st, get_mesh_upd_mesh. destruct (Nat.eqb_spec m0 m'); subst.
    + rewrite MA. reflexivity.
    + unfold wA. rewrite get_mesh_alloc. simpl. destruct (Nat.eqb_spec m0 m'); [congruence|reflexivity].
  - intros h. rewrite L3. unfold wB. rewrite get_h_upd_st, get_h_upd_mesh. unfold wA. rewrite get_h_alloc. reflexivity.
Qed.

Lemma key_eq_sym a b : key_eq a b -> key_eq b a.
Proof. unfold key_eq; intuition. Qed.
Lemma key_eq_trans a b c : key_eq a b -> key_eq b c -> key_eq a c.
Proof. unfold key_eq; intuition congruence. Qed.
Lemma key_eq_with_owner o a : key_eq a (with_owner o a).
Proof. repeat split. Qed.

Lemma inv_clone_fold_gen m' src : forall l done w,
  inv w -> NoDup (done ++ l) ->
  (forall x, In x (done ++ l) -> exists st, get_st w x = Some st /\ s_owner st = Some src /\ s_pers st = true) ->
  src <> m' -> (exists r', get_mesh w m' = Some r') ->
  (forall s2 st2, get_st w s2 = Some st2 -> s_owner st2 = Some m' -> s_shared st2 = true ->
                  exists x st, In x done /\ get_st w x = Some st /\ key_eq st st2) ->
  inv (fold_left (clone_one m') l w).
Proof.
  induction l as [|a t IH]; intros done w I ND Hl Hne [r' Hm'] Hd; simpl; auto.
  destruct (Hl a) as [sta [Ha [Oa Pa]]]; [rewrite in_app_iff; right; left; reflexivity|].
  assert (I1 : inv (clone_one m' w a)).
  { eapply inv_clone_one; eauto. intros s2 st2 H2 O2 S2 K.
    destruct (Hd _ _ H2 O2 S2) as [x [stx [Hx [Gx Kx]]]].
    destruct (Hl x) as [stx' [Gx' [Ox Px]]]; [rewrite in_app_iff; left; exact Hx|]. rewrite Gx in Gx'. inversion Gx'; subst.
    assert (a = x).
    { eapply (iv_unique _ _ I a x sta stx' src); eauto.
      - eapply (iv_pers_shared _ _ I); eauto.
      - eapply (iv_pers_shared _ _ I); eauto.
      - eapply key_eq_trans; eauto. apply key_eq_sym. exact Kx. }
    subst. apply NoDup_remove_2 in ND. apply ND. rewrite in_app_iff. left. exact Hx. }
  destruct (clone_one_lookups _ w m' r' a sta I Ha Hm') as [L1 [L2 L3]].
  assert (Old : forall x st, get_st w x = Some st -> get_st (clone_one m' w a) x = Some st).
  { intros x st H. rewrite L1. destruct (Nat.eqb_spec x (length (heap w))); auto. apply get_st_lt in H. lia. }
  apply (IH (done ++ [a])); auto.
  - rewrite <- app_assoc. simpl. exact ND.
  - intros x Hx. rewrite <- app_assoc in Hx. simpl in Hx. destruct (Hl x Hx) as [st [G [O P]]]. exists st. auto.
  - rewrite L2, Nat.eqb_refl. eauto.
  - intros s2 st2. rewrite L1. destruct (Nat.eqb_spec s2 (length (heap w))); subst.
    + intros E _ _. inversion E; subst. exists a, sta. rewrite in_app_iff. simpl. repeat split; auto.
    + intros H2 O2 S2. destruct (Hd _ _ H2 O2 S2) as [x [stx [Hx [Gx Kx]]]]. exists x, stx. rewrite in_app_iff. auto.
Qed.

Lemma inv_clone_persistent_from w m' src :
  inv w -> src <> m' -> (exists r', get_mesh w m' = Some r') ->
  (forall s2 st2, get_st w s2 = Some st2 -> s_owner st2 = Some m' -> s_shared st2 = false) ->
  inv (clone_persistent_from m' src w).
Proof.
  intros I Hne Hm' Hns. unfold clone_persistent_from. destruct (get_mesh w src) as [rs|] eqn:Hs; auto.
  apply (inv_clone_fold_gen m' src (m_pers rs) [] w); auto.
  - simpl. eapply (iv_pers_nodup _ _ I); eauto.
  - simpl. intros x Hx. apply (iv_pers _ _ I _ _ x Hs). exact Hx.
  - intros s2 st2 H2 O2 S2. rewrite (Hns _ _ H2 O2) in S2. discriminate.
Qed.

(* ====================================================================== make_prop, new / copy / assign *)

Lemma make_prop_spec X w m w' p :
  inv_x X w -> make_prop m w = Some (w', p) ->
  inv_x (fun x => x = p \/ X x) w' /\
  (exists st, get_st w' p = Some st /\ s_owner st = Some m) /\
  (forall r, get_mesh w m = Some r -> exists r', get_mesh w' m = Some r' /\ m_pos r' = m_pos r /\ m_pers r' = m_pers r /\ m_k r' = m_k r) /\
  (forall m0, m0 <> m -> get_mesh w' m0 = get_mesh w m0) /\
  (forall h, get_h w' h = get_h w h) /\
  (forall x st, get_st w x = Some st -> get_st w' x = Some st) /\
  (forall x st, get_st w' x = Some st -> get_st w x = Some st \/ (x = p /\ get_st w x = None)) /\
  (forall st, get_st w p = Some st -> find_prop w m KV TVec POSNAME = Some p).
Proof.
  intros I. unfold make_prop. destruct (get_mesh w m) as [r|] eqn:Hm; [|discriminate].
  destruct (find_prop w m KV TVec POSNAME) as [s|] eqn:F.
  - intros E; inversion E; subst. split; [eapply inv_x_weaken; [|exact I]; simpl; tauto|].
    destruct (find_prop_owner _ _ _ _ _ _ _ I F) as [st [Hs [Ho _]]].
    split; [eauto|]. split; [intros r0 E0; inversion E0; subst; eauto|]. repeat split; auto.
  - intros E.
    assert (Ew : w' = fst (create w m r KV TVec POSNAME 0%Z true)) by (inversion E; reflexivity).
    assert (Ep : p = length (heap w)) by (inversion E; reflexivity). subst w' p. clear E.
    split; [|split; [|split; [|split; [|split; [|split; [|split]]]]]].
    + apply (inv_create X w m r KV TVec POSNAME 0%Z true I Hm). intros _. split; [discriminate|exact F].
    + rewrite create_eq, get_st_alloc, Nat.eqb_refl. eexists; split; [reflexivity|reflexivity].
    + intros r0 E0. inversion E0; subst. rewrite create_eq, get_mesh_alloc. simpl. rewrite Nat.eqb_refl, Hm. simpl. eauto.
    + intros m0 N. rewrite create_eq, get_mesh_alloc. simpl. destruct (Nat.eqb_spec m0 m); [congruence|reflexivity].
    + intros h. rewrite create_eq, get_h_alloc. reflexivity.
    + intros x st Hx. rewrite create_eq, get_st_alloc. destruct (Nat.eqb_spec x (length (heap w))); auto.
      apply get_st_lt in Hx. lia.
    + intros x st. rewrite create_eq, get_st_alloc. destruct (Nat.eqb_spec x (length (heap w))); auto.
      intros _. right. split; auto. apply get_st_ge. lia.
    + intros st Hs. apply get_st_lt in Hs. lia.
Qed.

Lemma sim_copy_positions sp dp w w' : copy_positions sp dp w = Some w' -> sim w w'.
Proof.
  unfold copy_positions. destruct (get_st w sp) as [a|]; [|discriminate]. destruct (get_st w dp) as [b|]; [|discriminate].
  destruct (length (s_data a) <=? length (s_data b)); [|discriminate]. intros E; inversion E; subst.
  apply sim_upd_st. intros st. apply fields_eq_with_data.
Qed.

Lemma mrec_eq_with_k x r : mrec_eq r (with_k x r).
Proof. repeat split. Qed.

Lemma inv_new_mesh w : inv w -> inv (fst (new_mesh w)).
Proof.
  intros I. unfold new_mesh. set (m := length (meshes w)).
  set (w1 := with_meshes (meshes w ++ [Some mesh_new]) w).
  assert (I1 : inv w1) by (apply inv_append_mesh; exact I).
  assert (M1 : get_mesh w1 m = Some mesh_new) by (unfold w1; rewrite get_mesh_app; fold m; rewrite Nat.eqb_refl; reflexivity).
  destruct (make_prop m w1) as [[w2 p]|] eqn:MP; [|exact I].
  destruct (make_prop_spec _ _ _ _ _ I1 MP) as [I2 [[st [Hs Ho]] [Hm2 _]]].
  destruct (Hm2 _ M1) as [r2 [H2 [P2 _]]]. simpl in P2. cbn [fst].
  pose proof (inv_replace_pos _ w2 m r2 p st I2 H2 Hs Ho) as I3. rewrite P2 in I3. exact I3.
Qed.

(* what the clone loop did, in terms of the world before it *)
Record clone_spec (m' : nat) (l : list nat) (w res : world) (r' : meshrec) : Prop := {
  cs_old : forall x st, get_st w x = Some st -> get_st res x = Some st;
  cs_meshes : forall m0, m0 <> m' -> get_mesh res m0 = get_mesh w m0;
  cs_handles : forall h, get_h res h = get_h w h;
  cs_new : exists ids r'',
      get_mesh res m' = Some r'' /\ m_pos r'' = m_pos r' /\ m_k r'' = m_k r' /\
      m_pers r'' = m_pers r' ++ ids /\ m_tracked r'' = m_tracked r' ++ ids /\
      Forall2 (fun id a => get_st w id = None /\
                           exists sta, get_st w a = Some sta /\ get_st res id = Some (with_owner (Some m') sta)) ids l /\
      (forall x st, get_st res x = Some st -> get_st w x = None -> In x ids)
}.

Lemma clone_fold_spec m' src : forall l done w r',
  inv w -> NoDup (done ++ l) ->
  (forall x, In x (done ++ l) -> exists st, get_st w x = Some st /\ s_owner st = Some src /\ s_pers st = true) ->
  src <> m' -> get_mesh w m' = Some r' ->
  (forall s2 st2, get_st w s2 = Some st2 -> s_owner st2 = Some m' -> s_shared st2 = true ->
                  exists x st, In x done /\ get_st w x = Some st /\ key_eq st st2) ->
  clone_spec m' l w (fold_left (clone_one m') l w) r'.
Proof.
  induction l as [|a t IH]; intros done w r' I ND Hl Hne Hm' Hd; simpl.
  - constructor; auto. exists [], r'. rewrite !app_nil_r. repeat split; auto. intros x st H1 H2. congruence.
  - destruct (Hl a) as [sta [Ha [Oa Pa]]]; [rewrite in_app_iff; right; left; reflexivity|].
    assert (I1 : inv (clone_one m' w a)).
    { apply (inv_clone_fold_gen m' src [a] done w); auto.
      - assert (H : NoDup ((done ++ [a]) ++ t)) by (rewrite <- app_assoc; exact ND).
        apply NoDup_app_l in H. exact H.
      - intros x Hx. apply Hl. rewrite in_app_iff in *. simpl in *. tauto.
      - eauto. }
    destruct (clone_one_lookups _ w m' r' a sta I Ha Hm') as [L1 [L2 L3]].
    set (n0 := length (heap w)) in *. set (w1 := clone_one m' w a) in *.
    assert (Old : forall x st, get_st w x = Some st -> get_st w1 x = Some st).
    { intros x st H. rewrite L1. destruct (Nat.eqb_spec x n0); auto. apply get_st_lt in H. unfold n0 in *. lia. }
    assert (M1 : get_mesh w1 m' = Some (cloned m' n0 r')) by (rewrite L2, Nat.eqb_refl; reflexivity).
    assert (S : clone_spec m' t w1 (fold_left (clone_one m') t w1) (cloned m' n0 r')).
    { apply (IH (done ++ [a])); auto.
      - rewrite <- app_assoc. simpl. exact ND.
      - intros x Hx. rewrite <- app_assoc in Hx. simpl in Hx. destruct (Hl x Hx) as [st [G [O P]]]. exists st. auto.
      - intros s2 st2. rewrite L1. destruct (Nat.eqb_spec s2 n0); subst.
        + intros E _ _. inversion E; subst. exists a, sta. rewrite in_app_iff. simpl. repeat split; auto.
        + intros H2 O2 S2. destruct (Hd _ _ H2 O2 S2) as [x [stx [Hx [Gx Kx]]]]. exists x, stx. rewrite in_app_iff. auto. }
    destruct S as [S1 S2 S3 [ids [r'' [R1 [R2 [R3 [R4 [R5 [R6 R7]]]]]]]]].
    constructor.
    + intros x st H. apply S1. apply Old. exact H.
    + intros m0 N. rewrite (S2 _ N). rewrite L2. destruct (Nat.eqb_spec m0 m'); [congruence|reflexivity].
    + intros h. rewrite S3. apply L3.
    + exists (n0 :: ids), r''. simpl in R2, R3, R4, R5. repeat split; auto.
      * rewrite R4. rewrite <- app_assoc. reflexivity.
      * rewrite R5. rewrite <- app_assoc. reflexivity.
      * constructor.
        -- split; [apply get_st_ge; unfold n0; lia|]. exists sta. split; auto. apply S1. rewrite L1, Nat.eqb_refl. reflexivity.
        -- eapply Forall2_impl_in; [|exact R6]. simpl. intros id a0 Hin [G1 [st0 [G2 G3]]]. split.
           ++ destruct (get_st w id) as [y|] eqn:E; auto. apply Old in E. congruence.
           ++ exists st0. split; auto. rewrite L1 in G2. destruct (Nat.eqb_spec a0 n0); auto. subst. exfalso.
              destruct (Hl n0) as [y [Gy _]]; [rewrite in_app_iff; right; right; exact Hin|].
              apply get_st_lt in Gy. unfold n0 in Gy. lia.
      * intros x st H1 H2. destruct (Nat.eq_dec x n0); [left; auto|right].
        eapply R7; eauto. rewrite L1. destruct (Nat.eqb_spec x n0); [congruence|exact H2].
Qed.

Lemma clone_persistent_from_spec w m' src rs r' :
  inv w -> src <> m' -> get_mesh w src = Some rs -> get_mesh w m' = Some r' ->
  (forall s2 st2, get_st w s2 = Some st2 -> s_owner st2 = Some m' -> s_shared st2 = false) ->
  inv (clone_persistent_from m' src w) /\ clone_spec m' (m_pers rs) w (clone_persistent_from m' src w) r'.
Proof.
  intros I Hne Hs Hm' Hns. split.
  - apply inv_clone_persistent_from; eauto.
  - unfold clone_persistent_from. rewrite Hs. apply (clone_fold_spec m' src (m_pers rs) [] w r'); auto.
    + simpl. eapply (iv_pers_nodup _ _ I); eauto.
    + simpl. intros x Hx. apply (iv_pers _ _ I _ _ x Hs). exact Hx.
    + intros s2 st2 H2 O2 S2. rewrite (Hns _ _ H2 O2) in S2. discriminate.
Qed.

Lemma inv_copy_mesh w src : inv w -> inv (fst (copy_mesh src w)).
Proof.
  intros I. unfold copy_mesh. destruct (get_mesh w src) as [rs|] eqn:Hs; auto.
  set (m := length (meshes w)). set (w1 := with_meshes (meshes w ++ [Some mesh_new]) w).
  assert (I1 : inv w1) by (apply inv_append_mesh; exact I).
  assert (M1 : get_mesh w1 m = Some mesh_new) by (unfold w1; rewrite get_mesh_app; fold m; rewrite Nat.eqb_refl; reflexivity).
  assert (Ne : src <> m) by (apply get_mesh_lt in Hs; unfold m; lia).
  assert (S1 : get_mesh w1 src = Some rs).
  { unfold w1. rewrite get_mesh_app. fold m. destruct (Nat.eqb_spec src m); [congruence|exact Hs]. }
  assert (Hns : forall s2 st2, get_st w1 s2 = Some st2 -> s_owner st2 = Some m -> s_shared st2 = false).
  { intros s2 st2 H2 O2. exfalso. assert (In s2 (m_tracked mesh_new)) by (apply (iv_tracked _ _ I1 _ _ s2 M1); eauto). destruct H. }
  destruct (clone_persistent_from_spec w1 m src rs mesh_new I1 Ne S1 M1 Hns) as [I2 [_ _ _ [ids [r2 [R1 [R2 _]]]]]].
  set (w2 := clone_persistent_from m src w1) in *.
  set (w3 := upd_mesh m (with_k (m_k rs)) w2).
  assert (I3 : inv w3) by (eapply inv_sim; [apply sim_upd_mesh; intros; apply mrec_eq_with_k|exact I2]).
  assert (M3 : get_mesh w3 m = Some (with_k (m_k rs) r2)) by (unfold w3; rewrite get_mesh_upd_mesh, Nat.eqb_refl, R1; reflexivity).
  destruct (make_prop m w3) as [[w4 p]|] eqn:MP; [|exact I].
  destruct (make_prop_spec _ _ _ _ _ I3 MP) as [I4 [[st [Hp Ho]] [Hm4 _]]].
  destruct (Hm4 _ M3) as [r4 [H4 [P4 _]]]. simpl in P4, R2. rewrite R2 in P4.
  pose proof (inv_replace_pos _ w4 m r4 p st I4 H4 Hp Ho) as I5. rewrite P4 in I5. simpl in I5.
  destruct (m_pos rs) as [sp|]; [|exact I].
  destruct (copy_positions sp p (upd_mesh m (with_pos (Some p)) w4)) as [w6|] eqn:CP; [|exact I].
  cbn [fst]. eapply inv_sim; [eapply sim_copy_positions; eauto|exact I5].
Qed.

(* ====================================================================== what clear_props leaves behind *)

Lemma wle_clear_props w m k : wle w (clear_props m k w).
Proof.
  unfold clear_props. destruct (get_mesh w m) as [r|]; [|apply wle_refl].
  set (w1 := fold_left (fun w s => unpersist m s w) (pers_k w r k) w).
  assert (L1 : wle w w1) by (apply wle_fold; intros; apply wle_unpersist).
  destruct (get_mesh w1 m) as [r1|]; auto.
  eapply wle_trans; [exact L1|]. apply wle_fold. intros w0 a. apply wle_upd_st.
  intros st. repeat split; simpl; auto. discriminate.
Qed.

Lemma wle_clear_all_props w m : wle w (clear_all_props m w).
Proof. unfold clear_all_props. apply wle_fold. intros; apply wle_clear_props. Qed.

Lemma clear_props_mesh w m k r :
  get_mesh w m = Some r ->
  exists r', get_mesh (clear_props m k w) m = Some r' /\ m_pos r' = m_pos r /\ m_k r' = m_k r /\
             incl (m_tracked r') (m_tracked r) /\ incl (m_pers r') (m_pers r).
Proof.
  intros Hm. unfold clear_props. rewrite Hm.
  destruct (fold_unpersist_mesh m (pers_k w r k) w r Hm) as [r1 [H1 [P1 [Q1 [K1 T1]]]]].
  rewrite H1. exists r1. rewrite get_mesh_fold_upd_st. repeat split; auto.
  intros x Hx. apply P1 in Hx. tauto.
Qed.

Lemma clear_all_props_mesh w m r :
  get_mesh w m = Some r ->
  exists r', get_mesh (clear_all_props m w) m = Some r' /\ m_pos r' = m_pos r /\ m_k r' = m_k r /\
             incl (m_tracked r') (m_tracked r) /\ incl (m_pers r') (m_pers r).
Proof.
  unfold clear_all_props. generalize all_kinds. intros l. revert w r.
  induction l as [|k t IH]; intros w r Hm; simpl.
  - exists r. repeat split; auto using incl_refl.
  - destruct (clear_props_mesh w m k r Hm) as [r1 [H1 [P1 [K1 [T1 Q1]]]]].
    destruct (IH _ _ H1) as [r' [H' [P' [K' [T' Q']]]]]. exists r'. repeat split; try congruence; eapply incl_tran; eauto.
Qed.

Lemma clear_props_unshared w m k s st' :
  inv w -> get_st (clear_props m k w) s = Some st' -> s_owner st' = Some m -> s_kind st' = k -> s_shared st' = false.
Proof.
  intros I. unfold clear_props. destruct (get_mesh w m) as [r|] eqn:Hm.
  2:{ intros Hs Ho _. destruct (iv_owner _ _ I _ _ _ Hs Ho) as [r Hr]. congruence. }
  set (l := pers_k w r k).
  assert (I1 : inv (fold_left (fun w s => unpersist m s w) l w)).
  { apply inv_fold_unpersist; auto.
    - apply NoDup_filter. eapply (iv_pers_nodup _ _ I); eauto.
    - intros x Hx. unfold l, pers_k in Hx. apply filter_In in Hx. exists r. tauto. }
  destruct (fold_unpersist_mesh m l w r Hm) as [r1 [H1 _]].
  set (w1 := fold_left (fun w s => unpersist m s w) l w) in *. rewrite H1.
  rewrite (get_st_fold_upd_st (with_shared false)); [|intros; reflexivity].
  destruct (memb s (tracked_k w1 r1 k)) eqn:Mb.
  - destruct (get_st w1 s); simpl; intros E; inversion E; subst. reflexivity.
  - intros Hs Ho Hk. exfalso.
    assert (In s (tracked_k w1 r1 k)); [|apply memb_In' in H; congruence].
    unfold tracked_k. apply filter_In. split.
    + apply (iv_tracked _ _ I1 _ _ s H1). eauto.
    + unfold is_kind. rewrite Hs. subst k. apply kind_eqb_refl.
Qed.

Lemma clear_all_props_unshared_gen (m : nat) : forall l w0,
  inv w0 -> forall s st', get_st (fold_left (fun w k => clear_props m k w) l w0) s = Some st' -> s_owner st' = Some m ->
  (In (s_kind st') l \/ exists st, get_st w0 s = Some st /\ s_shared st = false) -> s_shared st' = false.
Proof.
  induction l as [|k t IH]; intros w0 I s st' Hs Ho H; simpl in *.
  - destruct H as [[]|[st [G Sh]]]. congruence.
  - set (w1 := clear_props m k w0) in *.
    assert (I1 : inv w1) by (apply inv_clear_props; exact I).
    assert (L : wle w1 (fold_left (fun w k => clear_props m k w) t w1)) by (apply wle_fold; intros; apply wle_clear_props).
    destruct (L _ _ Hs) as [st1 [G1 [_ [_ [K1 [_ [O1 _]]]]]]].
    eapply (IH w1 I1 s st'); eauto.
    destruct H as [[E|Hin]|[st [G Sh]]]; auto.
    + right. exists st1. split; auto. eapply (clear_props_unshared w0 m k s st1); eauto; congruence.
    + right. exists st1. split; auto.
      destruct (wle_clear_props w0 m k _ _ G1) as [st0 [G0 [_ [_ [_ [_ [_ [_ [Sh0 _]]]]]]]]].
      rewrite G in G0. inversion G0; subst. destruct (s_shared st1); auto. rewrite Sh0 in Sh; auto.
Qed.

Lemma clear_all_props_unshared w m s st' :
  inv w -> get_st (clear_all_props m w) s = Some st' -> s_owner st' = Some m -> s_shared st' = false.
Proof.
  intros I Hs Ho. eapply (clear_all_props_unshared_gen m all_kinds w I s st'); eauto.
  left. unfold all_kinds. destruct (s_kind st'); simpl; tauto.
Qed.

Lemma get_h_release' w s h : get_h (release s w) h = get_h w h.
Proof. apply get_h_release. Qed.

Lemma get_h_unpersist w m s h : get_h (unpersist m s w) h = get_h w h.
Proof. unfold unpersist, pers_erase. rewrite get_h_release, get_h_upd_mesh, get_h_upd_st. reflexivity. Qed.

Lemma get_h_clear_props w m k h : get_h (clear_props m k w) h = get_h w h.
Proof.
  unfold clear_props. destruct (get_mesh w m) as [r|]; auto.
  assert (forall l w0, get_h (fold_left (fun w s => unpersist m s w) l w0) h = get_h w0 h).
  { induction l as [|a t IH]; intros w0; simpl; auto. rewrite IH. apply get_h_unpersist. }
  destruct (get_mesh _ m); rewrite ?get_h_fold_upd_st; apply H.
Qed.

Lemma get_h_clear_all_props w m h : get_h (clear_all_props m w) h = get_h w h.
Proof.
  unfold clear_all_props. generalize all_kinds. intros l. revert w.
  induction l as [|k t IH]; intros w; simpl; auto. rewrite IH. apply get_h_clear_props.
Qed.

(* ====================================================================== frames: what an operation on mesh m1 cannot touch *)

Definition frame (m1 : nat) (w w' : world) : Prop :=
  (forall m2, m2 <> m1 -> get_mesh w' m2 = get_mesh w m2) /\
  (forall s st m2, m2 <> m1 -> get_st w s = Some st -> s_owner st = Some m2 -> get_st w' s = Some st).

Lemma frame_refl m1 w : frame m1 w w.
Proof. split; auto. Qed.
Lemma frame_trans m1 a b c : frame m1 a b -> frame m1 b c -> frame m1 a c.
Proof.
  intros [A1 A2] [B1 B2]. split.
  - intros m2 N. rewrite (B1 _ N). apply A1; exact N.
  - intros s st m2 N H O. eapply B2; eauto.
Qed.

Definition owned_by (m1 : nat) (w : world) (s : nat) : Prop :=
  forall st, get_st w s = Some st -> s_owner st = Some m1 \/ s_owner st = None.

Lemma frame_upd_mesh m1 w f : frame m1 w (upd_mesh m1 f w).
Proof.
  split.
  - intros m2 N. rewrite get_mesh_upd_mesh. destruct (Nat.eqb_spec m2 m1); [congruence|reflexivity].
  - intros s st m2 N H O. rewrite get_st_upd_mesh. exact H.
Qed.

Lemma frame_upd_st m1 w s f : owned_by m1 w s -> frame m1 w (upd_st s f w).
Proof.
  intros Hs. split.
  - intros m2 N. apply get_mesh_upd_st.
  - intros x st m2 N H O. rewrite get_st_upd_st. destruct (Nat.eqb_spec x s); subst; auto.
    destruct (Hs _ H); congruence.
Qed.

Lemma frame_alloc m1 w st : s_owner st = Some m1 \/ s_owner st = None -> frame m1 w (fst (alloc st w)).
Proof.
  intros Ho. split.
  - intros m2 N. rewrite get_mesh_alloc. destruct Ho as [-> | ->]; auto.
    destruct (Nat.eqb_spec m2 m1); [congruence|reflexivity].
  - intros x y m2 N H O. rewrite get_st_alloc. destruct (Nat.eqb_spec x (length (heap w))); auto.
    apply get_st_lt in H. lia.
Qed.

Lemma frame_free m1 w s : owned_by m1 w s -> frame m1 w (free s w).
Proof.
  intros Hs. split.
  - intros m2 N. rewrite get_mesh_free. destruct (get_st w s) as [st|] eqn:E; auto.
    destruct (Hs _ E) as [-> | ->]; auto. destruct (Nat.eqb_spec m2 m1); [congruence|reflexivity].
  - intros x y m2 N H O. rewrite get_st_free. destruct (Nat.eqb_spec x s); subst; auto.
    destruct (Hs _ H); congruence.
Qed.

Lemma frame_release m1 w s : owned_by m1 w s -> frame m1 w (release s w).
Proof. intros Hs. unfold release. destruct (held w s); [apply frame_refl|apply frame_free; exact Hs]. Qed.

Lemma frame_handles m1 w hs : frame m1 w (with_handles hs w).
Proof. split; auto. Qed.

Lemma owned_by_upd_mesh m1 w m f s : owned_by m1 w s -> owned_by m1 (upd_mesh m f w) s.
Proof. intros H st. rewrite get_st_upd_mesh. apply H. Qed.

Lemma owned_by_wle m1 w w' s : wle w w' -> owned_by m1 w s -> owned_by m1 w' s.
Proof.
  intros L H st' Hs. destruct (L _ _ Hs) as [st [G [_ [_ [_ [_ [O _]]]]]]]. rewrite O. apply H. exact G.
Qed.

Lemma frame_unpersist m1 w s : owned_by m1 w s -> frame m1 w (unpersist m1 s w).
Proof.
  intros Hs. unfold unpersist, pers_erase.
  eapply frame_trans; [apply frame_upd_st; exact Hs|].
  eapply frame_trans; [apply frame_upd_mesh|].
  apply frame_release. apply owned_by_upd_mesh. eapply owned_by_wle; [|exact Hs].
  apply wle_upd_st. intros st. repeat split; simpl; auto. discriminate.
Qed.

Lemma frame_fold {A} (F : world -> A -> world) (P : world -> Prop) m1 l :
  (forall w a, In a l -> P w -> frame m1 w (F w a) /\ P (F w a)) ->
  forall w, P w -> frame m1 w (fold_left F l w) /\ P (fold_left F l w).
Proof.
  induction l as [|a t IH]; intros H w Pw; simpl.
  - split; auto using frame_refl.
  - destruct (H w a (or_introl eq_refl) Pw) as [F1 P1].
    destruct (IH (fun w0 b Hb => H w0 b (or_intror Hb)) _ P1) as [F2 P2]. split; auto. eapply frame_trans; eauto.
Qed.

Lemma frame_clear_props w m k : inv w -> frame m w (clear_props m k w).
Proof.
  intros I. unfold clear_props. destruct (get_mesh w m) as [r|] eqn:Hm; [|apply frame_refl].
  set (l := pers_k w r k).
  assert (O1 : forall x, In x l -> owned_by m w x).
  { intros x Hx st Hs. unfold l, pers_k in Hx. apply filter_In in Hx. destruct Hx as [Hx _].
    apply (iv_pers _ _ I _ _ x Hm) in Hx. destruct Hx as [y [Hy [Oy _]]]. rewrite Hs in Hy. inversion Hy; subst. auto. }
  destruct (frame_fold (fun w s => unpersist m s w) (fun w0 => forall x, In x l -> owned_by m w0 x) m l) with (w := w) as [F1 P1]; auto.
  { intros w0 a Ha P0. split.
    - apply frame_unpersist. apply P0. exact Ha.
    - intros x Hx. eapply owned_by_wle; [apply wle_unpersist|]. apply P0. exact Hx. }
  set (w1 := fold_left (fun w s => unpersist m s w) l w) in *.
  assert (I1 : inv w1).
  { apply inv_fold_unpersist; auto.
    - apply NoDup_filter. eapply (iv_pers_nodup _ _ I); eauto.
    - intros x Hx. unfold l, pers_k in Hx. apply filter_In in Hx. exists r. tauto. }
  destruct (get_mesh w1 m) as [r1|] eqn:H1; auto.
  eapply frame_trans; [exact F1|].
  destruct (frame_fold (fun w s => upd_st s (with_shared false) w)
                       (fun w0 => forall x, In x (tracked_k w1 r1 k) -> owned_by m w0 x) m (tracked_k w1 r1 k)) with (w := w1) as [F2 _]; auto.
  - intros w0 a Ha P0. split.
    + apply frame_upd_st. apply P0. exact Ha.
    + intros x Hx. eapply owned_by_wle; [|apply P0; exact Hx]. apply wle_upd_st.
      intros st. repeat split; simpl; auto. discriminate.
  - intros x Hx st Hs. unfold tracked_k in Hx. apply filter_In in Hx. destruct Hx as [Hx _].
    apply (iv_tracked _ _ I1 _ _ x H1) in Hx. destruct Hx as [y [Hy Oy]]. rewrite Hs in Hy. inversion Hy; subst. auto.
Qed.

Lemma frame_clear_all_props w m : inv w -> frame m w (clear_all_props m w).
Proof.
  unfold clear_all_props. generalize all_kinds. intros l. revert w.
  induction l as [|k t IH]; intros w I; simpl; [apply frame_refl|].
  eapply frame_trans; [apply frame_clear_props; exact I|]. apply IH. apply inv_clear_props. exact I.
Qed.

(* ====================================================================== assignment *)

Lemma sim_resize_tracked w m cnt : sim w (resize_tracked m cnt w).
Proof.
  unfold resize_tracked. destruct (get_mesh w m) as [r|]; [|apply sim_refl].
  refine (sim_fold_upd_st (m_tracked r) (fun s => s) (fun _ st => with_data (resize (cnt (s_kind st)) (s_def st) (s_data st)) st) w _).
  intros _ st. apply fields_eq_with_data.
Qed.

Lemma get_mesh_resize_tracked w m cnt m0 : get_mesh (resize_tracked m cnt w) m0 = get_mesh w m0.
Proof.
  unfold resize_tracked. destruct (get_mesh w m) as [r|]; auto.
  exact (get_mesh_fold_upd_st (fun s => s) (fun _ st => with_data (resize (cnt (s_kind st)) (s_def st) (s_data st)) st) (m_tracked r) w m0).
Qed.

(* the world just before make_prop in operator=, with what is known about it *)
Lemma assign_prefix w dst src rd rs :
  inv w -> dst <> src -> get_mesh w dst = Some rd -> get_mesh w src = Some rs ->
  let w1 := clear_all_props dst w in
  let w2 := resize_tracked dst (fun k => count k (m_k rs)) w1 in
  let w3 := clone_persistent_from dst src w2 in
  inv w1 /\ inv w2 /\ inv w3 /\
  get_mesh w2 src = Some rs /\
  (exists r2, get_mesh w2 dst = Some r2 /\ m_pos r2 = m_pos rd /\ clone_spec dst (m_pers rs) w2 w3 r2) /\
  (forall s2 st2, get_st w2 s2 = Some st2 -> s_owner st2 = Some dst -> s_shared st2 = false).
Proof.
  intros I Ne Hd Hs w1 w2 w3.
  assert (I1 : inv w1) by (apply inv_clear_all_props; exact I).
  assert (I2 : inv w2) by (eapply inv_sim; [apply sim_resize_tracked|exact I1]).
  assert (S1 : get_mesh w1 src = Some rs).
  { destruct (frame_clear_all_props w dst I) as [F _]. unfold w1. rewrite F; auto. }
  assert (S2 : get_mesh w2 src = Some rs) by (unfold w2; rewrite get_mesh_resize_tracked; exact S1).
  destruct (clear_all_props_mesh w dst rd Hd) as [r1 [H1 [P1 _]]].
  assert (D2 : get_mesh w2 dst = Some r1) by (unfold w2; rewrite get_mesh_resize_tracked; exact H1).
  assert (Hns : forall s2 st2, get_st w2 s2 = Some st2 -> s_owner st2 = Some dst -> s_shared st2 = false).
  { intros s2 st2 H2 O2. destruct (sim_st _ _ _ _ (sim_resize_tracked w1 dst _) H2) as [st1 [G1 F1]].
    unfold fields_eq in F1. replace (s_shared st2) with (s_shared st1) by tauto.
    eapply (clear_all_props_unshared w dst s2 st1); eauto. intuition congruence. }
  assert (Ne' : src <> dst) by congruence.
  destruct (clone_persistent_from_spec w2 dst src rs r1 I2 Ne' S2 D2 Hns) as [I3 CS].
  split; [exact I1|split; [exact I2|split; [exact I3|split; [exact S2|split; [|exact Hns]]]]].
  exists r1. split; [exact D2|split; [exact P1|exact CS]].
Qed.

Lemma inv_assign w dst src : inv w -> inv (fst (assign dst src w)).
Proof.
  intros I. unfold assign. destruct (get_mesh w dst) as [rd|] eqn:Hd; [|exact I].
  destruct (get_mesh w src) as [rs|] eqn:Hs; [|exact I].
  destruct (Nat.eqb_spec dst src) as [E|Ne].
  - destruct (temp_copy_ub dst w); exact I.
  - destruct (assign_prefix w dst src rd rs I Ne Hd Hs) as [I1 [I2 [I3 [S2 [[r2 [D2 [P2 CS]]] Hns]]]]].
    set (w3 := clone_persistent_from dst src (resize_tracked dst (fun k => count k (m_k rs)) (clear_all_props dst w))) in *.
    destruct CS as [_ _ _ [ids [r3 [R1 [R2 _]]]]].
    set (w4 := upd_mesh dst (with_k (m_k rs)) w3).
    assert (I4 : inv w4) by (eapply inv_sim; [apply sim_upd_mesh; intros; apply mrec_eq_with_k|exact I3]).
    assert (M4 : get_mesh w4 dst = Some (with_k (m_k rs) r3)) by (unfold w4; rewrite get_mesh_upd_mesh, Nat.eqb_refl, R1; reflexivity).
    destruct (make_prop dst w4) as [[w5 p]|] eqn:MP; [|exact I].
    destruct (make_prop_spec _ _ _ _ _ I4 MP) as [I5 [[st [Hp Ho]] [Hm5 _]]].
    destruct (Hm5 _ M4) as [r5 [H5 [P5 _]]]. rewrite H5.
    pose proof (inv_replace_pos _ w5 dst r5 p st I5 H5 Hp Ho) as I7. unfold release_opt in I7.
    destruct (m_pos rs) as [sp|]; [|exact I].
    match goal with |- context [copy_positions sp p ?W] => destruct (copy_positions sp p W) as [w8|] eqn:CP; [|exact I] end.
    destruct (temp_copy_ub dst w8); [exact I|]. cbn [fst].
    eapply inv_sim; [eapply sim_copy_positions; eauto|exact I7].
Qed.

(* ====================================================================== TopologyKernel calls *)

Lemma sim_scatter_k w0 r s' w k : sim w (scatter_k w0 r s' w k).
Proof.
  unfold scatter_k.
  refine (sim_fold_upd_st (combine (tracked_k w0 r k) (props k s')) (fun sp => fst sp) (fun sp => with_data (pdata (snd sp))) w _).
  intros a st. apply fields_eq_with_data.
Qed.

Lemma sim_scatter_all w0 r s' : forall l w, sim w (fold_left (scatter_k w0 r s') l w).
Proof.
  induction l as [|k t IH]; intros w; simpl; [apply sim_refl|].
  eapply sim_trans; [apply sim_scatter_k|apply IH].
Qed.

Lemma kernel_op_sim m o w r s' ret :
  get_mesh w m = Some r -> step (load_props w r) o = Ok s' ret ->
  sim w (upd_mesh m (with_k (strip s')) (fold_left (scatter_k w r s') all_kinds w)).
Proof.
  intros _ _. eapply sim_trans; [apply sim_scatter_all|]. apply sim_upd_mesh. intros; apply mrec_eq_with_k.
Qed.

Lemma inv_kernel_op w m o : inv w -> inv (fst (kernel_op m o w)).
Proof.
  intros I. unfold kernel_op. destruct (get_mesh w m) as [r|] eqn:Hm; [|exact I].
  destruct (kernel_allowed o); [|exact I].
  destruct (step (load_props w r) o) as [s' ret|] eqn:St; [|exact I].
  cbn [fst].
  assert (I2 : inv (upd_mesh m (with_k (strip s')) (fold_left (scatter_k w r s') all_kinds w))).
  { eapply inv_sim; [eapply kernel_op_sim; eauto|exact I]. }
  destruct o; auto. destruct clear_props; auto. apply inv_clear_all_props. exact I2.
Qed.

(* ====================================================================== the well-formed use of the API *)

(* The three ways the documented discipline can be left (all unchecked by the library):
   - set_name on a shared property (D10),
   - set_shared / set_persistent on mesh m with a property that is not attached to m. *)
Definition op_ok (w : world) (o : rop) : Prop :=
  match o with
  | SetName h n => forall s st, get_h w h = Some s -> get_st w s = Some st -> s_shared st = false
  | SetShared m h b | SetPersistent m h b =>
      forall s st, get_h w h = Some s -> get_st w s = Some st -> s_owner st = Some m
  | _ => True
  end.

Theorem inv_rstep w o : inv w -> op_ok w o -> inv (fst (rstep w o)).
Proof.
  intros I Hok. destruct o; unfold rstep.
  - apply inv_new_mesh; exact I.
  - apply inv_copy_mesh; exact I.
  - apply inv_assign; exact I.
  - apply inv_destroy_mesh; exact I.
  - apply inv_kernel_op; exact I.
  - (* Request *)
    destruct (get_mesh w m) as [r|] eqn:Hm; [|exact I].
    destruct (find_prop w m k t n) as [s|] eqn:F.
    + rewrite fst_ret_handle. destruct (find_prop_owner _ _ _ _ _ _ _ I F) as [st [Hs _]]. eapply inv_new_handle'; eauto.
    + destruct (create w m r k t n d (negb (n =? 0))) as [w1 s] eqn:C. rewrite fst_ret_handle.
      replace w1 with (fst (create w m r k t n d (negb (n =? 0)))) by (rewrite C; reflexivity).
      replace s with (snd (create w m r k t n d (negb (n =? 0)))) by (rewrite C; reflexivity).
      apply inv_create_handle; auto. intros Hb. split; auto. destruct (Nat.eqb_spec n 0); [discriminate|assumption].
  - (* CreateShared *)
    destruct (get_mesh w m) as [r|] eqn:Hm; [|exact I].
    destruct (Nat.eqb_spec n 0); [exact I|].
    destruct (find_prop w m k t n) as [s|] eqn:F; [exact I|].
    destruct (create w m r k t n d true) as [w1 s] eqn:C. rewrite fst_ret_handle.
    replace w1 with (fst (create w m r k t n d true)) by (rewrite C; reflexivity).
    replace s with (snd (create w m r k t n d true)) by (rewrite C; reflexivity).
    apply inv_create_handle; auto.
  - (* CreatePersistent *)
    destruct (get_mesh w m) as [r|] eqn:Hm; [|exact I].
    destruct (Nat.eqb_spec n 0); [exact I|].
    destruct (find_prop w m k t n) as [s|] eqn:F; [exact I|].
    destruct (create w m r k t n d true) as [w1 s] eqn:C.
    destruct (new_handle s w1) as [w2 h] eqn:NH. cbn [fst].
    assert (I2 : inv w2).
    { replace w2 with (fst (new_handle s w1)) by (rewrite NH; reflexivity).
      replace w1 with (fst (create w m r k t n d true)) by (rewrite C; reflexivity).
      replace s with (snd (create w m r k t n d true)) by (rewrite C; reflexivity).
      apply inv_create_handle; auto. }
    assert (E1 : w1 = fst (create w m r k t n d true)) by (rewrite C; reflexivity).
    assert (E2 : s = length (heap w)) by (rewrite create_eq in C; inversion C; reflexivity).
    assert (E3 : w2 = with_handles (handles w1 ++ [Some s]) w1) by (inversion NH; reflexivity).
    assert (E4 : h = length (handles w1)) by (inversion NH; reflexivity).
    assert (Hs : get_st w2 s = Some (mkSt n t k true false d (repeat d (count k (m_k r))) (Some m))).
    { rewrite E3. change (get_st (with_handles (handles w1 ++ [Some s]) w1) s) with (get_st w1 s).
      rewrite E1, get_st_create, E2, Nat.eqb_refl. reflexivity. }
    assert (Hm2 : exists r2, get_mesh w2 m = Some r2).
    { rewrite E3. change (get_mesh (with_handles (handles w1 ++ [Some s]) w1) m) with (get_mesh w1 m).
      rewrite E1, create_eq, get_mesh_alloc. simpl. rewrite Nat.eqb_refl, Hm. simpl. eauto. }
    destruct Hm2 as [r2 Hr2].
    assert (Hh : get_h w2 h = Some s) by (rewrite E3, get_h_app, E4, Nat.eqb_refl; reflexivity).
    eapply (inv_set_persistent_s w2 m s true _ r2 h); eauto.
  - (* CreatePrivate *)
    destruct (get_mesh w m) as [r|] eqn:Hm; [|exact I].
    destruct (create w m r k t n d false) as [w1 s] eqn:C. rewrite fst_ret_handle.
    replace w1 with (fst (create w m r k t n d false)) by (rewrite C; reflexivity).
    replace s with (snd (create w m r k t n d false)) by (rewrite C; reflexivity).
    apply inv_create_handle; auto. discriminate.
  - (* GetProp *)
    destruct (get_mesh w m) as [r|] eqn:Hm; [|exact I].
    destruct (find_prop w m k t n) as [s|] eqn:F; [|exact I].
    rewrite fst_ret_handle. destruct (find_prop_owner _ _ _ _ _ _ _ I F) as [st [Hs _]]. eapply inv_new_handle'; eauto.
  - (* Exists *)
    destruct (get_mesh w m); exact I.
  - (* SetShared *)
    destruct (get_mesh w m) as [r|] eqn:Hm; [|exact I].
    destruct (get_h w h) as [s|] eqn:Hh; [|exact I].
    destruct (iv_handle _ _ I _ _ Hh) as [st Hs].
    eapply inv_set_shared_s; eauto.
  - (* SetPersistent *)
    destruct (get_mesh w m) as [r|] eqn:Hm; [|exact I].
    destruct (get_h w h) as [s|] eqn:Hh; [|exact I].
    destruct (iv_handle _ _ I _ _ Hh) as [st Hs].
    eapply inv_set_persistent_s; eauto.
  - (* SetName *)
    destruct (get_h w h) as [s|] eqn:Hh; [|exact I]. cbn [fst].
    destruct (iv_handle _ _ I _ _ Hh) as [st Hs]. eapply inv_set_name; eauto.
  - (* HCopy *)
    destruct (get_h w h) as [s|] eqn:Hh; [|exact I]. rewrite fst_ret_handle.
    destruct (iv_handle _ _ I _ _ Hh) as [st Hs]. eapply inv_new_handle'; eauto.
  - (* HMove *)
    destruct (get_h w h) as [s|] eqn:Hh; [|exact I]. rewrite fst_ret_handle. apply inv_move_handle; auto.
  - (* HDrop *)
    destruct (get_h w h) as [s|] eqn:Hh; [|exact I]. cbn [fst]. apply inv_drop_handle; exact I.
  - (* HSet *)
    destruct (get_h w h) as [s|] eqn:Hh; [|exact I].
    destruct (get_st w s) as [st|] eqn:Hs; [|exact I].
    destruct (i <? length (s_data st)); [|exact I]. cbn [fst].
    eapply inv_sim; [apply sim_upd_st; intros; apply fields_eq_with_data|exact I].
  - (* PosHandle *)
    destruct (get_mesh w m) as [r|] eqn:Hm; [|exact I].
    destruct (m_pos r) as [p|] eqn:Hp; [|exact I]. rewrite fst_ret_handle.
    destruct (iv_pos _ _ I _ _ _ Hm Hp) as [st [Hs _]]. eapply inv_new_handle'; eauto.
  - (* ClearProps *)
    destruct (get_mesh w m); [|exact I]. cbn [fst]. apply inv_clear_props; exact I.
  - (* ClearAllProps *)
    destruct (get_mesh w m); [|exact I]. cbn [fst]. apply inv_clear_all_props; exact I.
  - destruct (get_mesh w m); exact I.
  - destruct (get_mesh w m); exact I.
Qed.

(* ====================================================================== reachable worlds *)

Inductive reachable : world -> Prop :=
| reach_init : reachable empty_world
| reach_step w o : reachable w -> op_ok w o -> reachable (fst (rstep w o)).

Fixpoint all_ok (w : world) (ops : list rop) : Prop :=
  match ops with
  | [] => True
  | o :: t => op_ok w o /\ all_ok (fst (rstep w o)) t
  end.

Theorem reachable_inv w : reachable w -> inv w.
Proof. induction 1; [apply inv_empty|apply inv_rstep; assumption]. Qed.

Lemma reachable_run_from w ops : reachable w -> all_ok w ops -> reachable (rrun_from w ops).
Proof.
  revert w. induction ops as [|o t IH]; intros w R H; simpl; auto.
  destruct H as [H1 H2]. apply IH; auto. constructor; auto.
Qed.

Theorem reachable_run ops : all_ok empty_world ops -> reachable (rrun ops).
Proof. apply reachable_run_from. constructor. Qed.

(* ====================================================================== C14 statements over inv *)

Theorem exists_iff_held w s : inv w -> ((exists st, get_st w s = Some st) <-> held w s = true).
Proof.
  intros I. split.
  - intros [st Hs]. eapply (iv_held _ _ I); eauto.
  - intros H. apply held_spec in H. destruct H as [[h Hh]|[m [r [Hm [Hp|Hp]]]]].
    + eapply (iv_handle _ _ I); eauto.
    + destruct (iv_pos _ _ I _ _ _ Hm Hp) as [st [Hs _]]. eauto.
    + apply (iv_pers _ _ I _ _ s Hm) in Hp. destruct Hp as [st [Hs _]]. eauto.
Qed.

Theorem tracked_k_exact w m r k s :
  inv w -> get_mesh w m = Some r ->
  (In s (tracked_k w r k) <-> exists st, get_st w s = Some st /\ s_owner st = Some m /\ s_kind st = k).
Proof.
  intros I Hm. unfold tracked_k. rewrite filter_In, (iv_tracked _ _ I _ _ s Hm). unfold is_kind. split.
  - intros [[st [Hs Ho]] Hk]. rewrite Hs in Hk. exists st. repeat split; auto. destruct (kind_eqb_spec (s_kind st) k); congruence.
  - intros [st [Hs [Ho Hk]]]. split; eauto. rewrite Hs. subst. apply kind_eqb_refl.
Qed.

Theorem pers_k_exact w m r k s :
  inv w -> get_mesh w m = Some r ->
  (In s (pers_k w r k) <-> exists st, get_st w s = Some st /\ s_owner st = Some m /\ s_pers st = true /\ s_kind st = k).
Proof.
  intros I Hm. unfold pers_k. rewrite filter_In, (iv_pers _ _ I _ _ s Hm). unfold is_kind. split.
  - intros [[st [Hs [Ho Hp]]] Hk]. rewrite Hs in Hk. exists st. repeat split; auto. destruct (kind_eqb_spec (s_kind st) k); congruence.
  - intros [st [Hs [Ho [Hp Hk]]]]. split; eauto. rewrite Hs. subst. apply kind_eqb_refl.
Qed.

(* request: the existing shared storage iff one exists, else a new one *)
Theorem request_hit w m r k t n d s st :
  inv w -> get_mesh w m = Some r -> get_st w s = Some st -> s_owner st = Some m -> matches k t n st = true -> n <> 0 ->
  let '(w', res) := rstep w (Request m k t n d) in
  res = RHandle (length (handles w)) /\ get_h w' (length (handles w)) = Some s /\ heap w' = heap w /\ meshes w' = meshes w.
Proof.
  intros I Hm Hs Ho Hmt Hn. unfold rstep. rewrite Hm.
  rewrite (find_prop_complete _ w m r k t n s st I Hn Hm Hs Ho Hmt).
  unfold ret_handle, new_handle. repeat split; auto. rewrite get_h_app, Nat.eqb_refl. reflexivity.
Qed.

Theorem request_miss w m r k t n d :
  inv w -> get_mesh w m = Some r ->
  (forall s st, get_st w s = Some st -> s_owner st = Some m -> matches k t n st = false) ->
  let '(w', res) := rstep w (Request m k t n d) in
  let s' := length (heap w) in
  res = RHandle (length (handles w)) /\ get_h w' (length (handles w)) = Some s' /\
  get_st w' s' = Some (mkSt n t k (negb (n =? 0)) false d (repeat d (count k (m_k r))) (Some m)) /\
  (forall x y, get_st w x = Some y -> get_st w' x = Some y).
Proof.
  intros I Hm Hnone. unfold rstep. rewrite Hm.
  destruct (find_prop w m k t n) as [s|] eqn:F.
  - destruct (find_prop_owner _ _ _ _ _ _ _ I F) as [st [Hs [Ho [Hmt _]]]]. rewrite (Hnone _ _ Hs Ho) in Hmt. discriminate.
  - rewrite create_eq.
    set (st0 := mkSt n t k (negb (n =? 0)) false d (repeat d (count k (m_k r))) (Some m)).
    destruct (alloc st0 w) as [w1 s1] eqn:A.
    assert (E1 : w1 = fst (alloc st0 w)) by (rewrite A; reflexivity).
    assert (E2 : s1 = length (heap w)) by (unfold alloc in A; inversion A; reflexivity).
    assert (E3 : handles w1 = handles w).
    { rewrite E1. unfold alloc; simpl. destruct (s_owner st0); unfold tracker_add; rewrite ?handles_upd_mesh; reflexivity. }
    unfold ret_handle, new_handle. cbv beta iota. rewrite <- E3.
    assert (G : forall x, get_st (with_handles (handles w1 ++ [Some s1]) w1) x = get_st w1 x) by reflexivity.
    split; [reflexivity|]. split; [rewrite get_h_app, Nat.eqb_refl, E2; reflexivity|]. split.
    + rewrite G, E1, get_st_alloc, Nat.eqb_refl. reflexivity.
    + intros x y Hx. rewrite G, E1, get_st_alloc. destruct (Nat.eqb_spec x (length (heap w))); auto. apply get_st_lt in Hx. lia.
Qed.

(* create_* refuse duplicates (and the empty name) and change nothing *)
Theorem create_refuses w m r k t n d s st :
  inv w -> get_mesh w m = Some r -> get_st w s = Some st -> s_owner st = Some m -> matches k t n st = true ->
  rstep w (CreateShared m k t n d) = (w, RNoHandle) /\ rstep w (CreatePersistent m k t n d) = (w, RNoHandle).
Proof.
  intros I Hm Hs Ho Hmt. unfold rstep. rewrite Hm. destruct (Nat.eqb_spec n 0); auto.
  rewrite (find_prop_complete _ w m r k t n s st I n0 Hm Hs Ho Hmt). auto.
Qed.

(* whatever a lookup by name returns is shared: a private property is never found *)
Theorem found_is_shared w m k t n s st :
  find_prop w m k t n = Some s -> get_st w s = Some st -> s_shared st = true /\ s_name st = n /\ n <> 0.
Proof.
  intros F Hs. apply find_prop_sound in F. destruct F as [Hn [r [st' [_ [_ [Hs' Hmt]]]]]].
  rewrite Hs in Hs'. inversion Hs'; subst. apply matches_spec in Hmt. tauto.
Qed.

(* transitions that do not return normally leave the world as it was *)
Ltac head_destruct :=
  repeat lazymatch goal with
  | |- (match ?x with _ => _ end) = _ -> _ => destruct x eqn:?
  | |- (_, _) = (_, _) -> _ => let E := fresh "E" in intros E; inversion E; subst; auto
  end.

Theorem failing_step_unchanged w o w' res :
  rstep w o = (w', res) ->
  match res with RThrow | RNoHandle | RRejected | RUB _ => w' = w | _ => True end.
Proof.
  destruct o; unfold rstep, new_mesh, copy_mesh, assign, destroy_mesh, kernel_op, set_shared_s, set_persistent_s, ret_handle;
    cbv zeta; head_destruct.
Qed.

(* ====================================================================== a handle that outlives its mesh *)

Lemma get_st_detach0 w m a x :
  get_st (detach0 m a w) x = if x =? a then option_map (with_owner None) (get_st w x) else get_st w x.
Proof. unfold detach0, pers_erase. rewrite get_st_upd_mesh. apply get_st_set_tracker. Qed.

Lemma get_h_detach w m a h : get_h (detach m a w) h = get_h w h.
Proof. rewrite detach_eq, get_h_release. apply detach0_h. Qed.

Lemma get_st_detach_held w m a h s :
  get_h w h = Some s ->
  get_st (detach m a w) s = if s =? a then option_map (with_owner None) (get_st w s) else get_st w s.
Proof.
  intros Hh. rewrite detach_eq, get_st_release, get_st_detach0.
  destruct (Nat.eqb_spec s a); subst; simpl; auto.
  replace (held (detach0 m a w) a) with true; auto.
  symmetry. apply held_spec. left. exists h. rewrite detach0_h. exact Hh.
Qed.

Lemma fold_detach_st m h s : forall l w,
  get_h w h = Some s ->
  get_st (fold_left (fun w a => detach m a w) l w) s =
    (if memb s l then option_map (with_owner None) (get_st w s) else get_st w s) /\
  get_h (fold_left (fun w a => detach m a w) l w) h = Some s.
Proof.
  induction l as [|a t IH]; intros w Hh; simpl; auto.
  assert (Hh1 : get_h (detach m a w) h = Some s) by (rewrite get_h_detach; exact Hh).
  destruct (IH _ Hh1) as [E1 E2]. split; auto. rewrite E1, (get_st_detach_held w m a h s Hh).
  unfold memb. simpl. destruct (Nat.eqb_spec s a); subst; simpl.
  - destruct (existsb (Nat.eqb a) t); auto. destruct (get_st w a); reflexivity.
  - reflexivity.
Qed.

Theorem detached_keeps_data w m h s st :
  inv w -> get_h w h = Some s -> get_st w s = Some st -> s_owner st = Some m ->
  snd (rstep w (DelMesh m)) = ROk /\
  let w' := fst (rstep w (DelMesh m)) in
  get_h w' h = Some s /\ get_st w' s = Some (with_owner None st) /\ get_mesh w' m = None.
Proof.
  intros I Hh Hs Ho. destruct (iv_owner _ _ I _ _ _ Hs Ho) as [r Hm].
  unfold rstep, destroy_mesh. rewrite Hm.
  pose proof (inv_drop_pos w m r I Hm) as I2. unfold release_opt in I2.
  set (w2 := match m_pos r with Some p => release p (upd_mesh m (with_pos None) w) | None => upd_mesh m (with_pos None) w end) in *.
  assert (H2h : get_h w2 h = Some s).
  { unfold w2. destruct (m_pos r); rewrite ?get_h_release, get_h_upd_mesh; exact Hh. }
  assert (H2s : get_st w2 s = Some st).
  { unfold w2. destruct (m_pos r) as [p|]; rewrite ?get_st_release, get_st_upd_mesh; auto.
    destruct (Nat.eqb_spec s p); subst; simpl; auto.
    replace (held (upd_mesh m (with_pos None) w) p) with true; auto.
    symmetry. apply held_spec. left. exists h. rewrite get_h_upd_mesh. exact Hh. }
  destruct (iv_owner _ _ I2 _ _ _ H2s Ho) as [r2 H2m]. rewrite H2m.
  assert (P2 : m_pos r2 = None).
  { assert (H1 : get_mesh (upd_mesh m (with_pos None) w) m = Some (with_pos None r)) by (rewrite get_mesh_upd_mesh, Nat.eqb_refl, Hm; reflexivity).
    unfold w2 in H2m. destruct (m_pos r).
    - destruct (get_mesh_release_inv _ _ _ _ H2m) as [r0 [E0 [_ [E2 _]]]]. rewrite H1 in E0. inversion E0; subst. exact E2.
    - rewrite H1 in H2m. inversion H2m; subst. reflexivity. }
  destruct (inv_fold_detach m (m_tracked r2) w2 r2 I2 H2m eq_refl P2) as [I3 [r3 [H3 [T3 [Pe3 Po3]]]]].
  destruct (fold_detach_st m h s (m_tracked r2) w2 H2h) as [F1 F2].
  set (w3 := fold_left (fun w a => detach m a w) (m_tracked r2) w2) in *.
  assert (Hin : In s (m_tracked r2)) by (apply (iv_tracked _ _ I2 _ _ s H2m); eauto).
  replace (memb s (m_tracked r2)) with true in F1 by (symmetry; apply memb_In'; exact Hin).
  rewrite H2s in F1. simpl in F1.
  cbn [fst snd]. rewrite H3, Pe3. cbn [fold_left]. split; auto.
  split; [|split].
  - unfold get_h, with_meshes. simpl. rewrite handles_upd_mesh. exact F2.
  - unfold get_st, with_meshes. simpl. rewrite heap_upd_mesh. exact F1.
  - rewrite get_mesh_kill, Nat.eqb_refl. reflexivity.
Qed.

(* ====================================================================== the unchecked set_name (D10) *)

Definition d10_duplicate : list rop :=
  [NewMesh; Request 0 KV TInt 2 1%Z; Request 0 KV TInt 3 2%Z; SetName 1 2].
Definition d10_anonymous : list rop :=
  [NewMesh; Request 0 KV TInt 2 1%Z; SetName 0 0].

Lemma d10_duplicate_witness :
  let w := rrun d10_duplicate in
  exists st1 st2, get_st w 1 = Some st1 /\ get_st w 2 = Some st2 /\
    s_owner st1 = Some 0 /\ s_owner st2 = Some 0 /\ s_shared st1 = true /\ s_shared st2 = true /\ key_eq st1 st2.
Proof. vm_compute. do 2 eexists. repeat split. Qed.

Lemma d10_anonymous_witness :
  let w := rrun d10_anonymous in
  exists st, get_st w 1 = Some st /\ s_shared st = true /\ s_name st = 0.
Proof. vm_compute. eexists. repeat split. Qed.

(* the only step of these histories outside op_ok is the SetName *)
Lemma d10_duplicate_prefix_ok : all_ok empty_world [NewMesh; Request 0 KV TInt 2 1%Z; Request 0 KV TInt 3 2%Z].
Proof. simpl. tauto. Qed.
