(* Reg/RegistryModel.v -- ResourceManager's property registry, mesh copy construction, assignment and
   destruction as one total step function on the world of Reg/HeapModel.v.  Definitions only.
   Line references: RM = src/OpenVolumeMesh/Core/ResourceManager.cc, RMT = ResourceManagerT_impl.hh,
   GK = GeometryKernel.hh, TR = detail/Tracking.hh, PST = Properties/PropertyStorageT.hh,
   PSP = Properties/PropertyStoragePtr.hh. *)
From OVM Require Export Reg.HeapModel.
Local Open Scope nat_scope.

Definition POSNAME : nat := 1.        (* "ovm:position" (GK:216-220) *)

Inductive rres :=
| ROk
| RMesh (m : nat)                     (* a new mesh object *)
| RHandle (h : nat)                   (* a new PropertyPtr object of the caller *)
| RNoHandle                           (* std::optional without a value *)
| RBool (b : bool)
| RNat (n : nat)
| RKernel (r : option nat)            (* result of a TopologyKernel call *)
| RThrow                              (* std::runtime_error *)
| RRejected                           (* not a library call: the script names a dead mesh / a dropped handle / an index out of range *)
| RUB (why : nat).                    (* undefined behaviour in the library:
                                         2 = std::copy writes past the end of the position vector (GK:69-70, 100-101),
                                         3 = position_ missing (unreachable: every constructed mesh has one), 1 = dead mesh id (unreachable) *)

(* ---------------------------------------------------------------- internal_find_property (RMT:127-147) *)

Definition matches (k : kind) (t : vtype) (n : nat) (st : storage) : bool :=
  s_shared st && (s_name st =? n) && vtype_eqb (s_type st) t && kind_eqb (s_kind st) k.

Definition st_matches (w : world) (k : kind) (t : vtype) (n : nat) (s : nat) : bool :=
  match get_st w s with Some st => matches k t n st | None => false end.

Definition find_prop (w : world) (m : nat) (k : kind) (t : vtype) (n : nat) : option nat :=
  if n =? 0 then None
  else match get_mesh w m with
       | Some r => find (st_matches w k t n) (m_tracked r)
       | None => None
       end.

(* ---------------------------------------------------------------- internal_create_property (RMT:149-161) *)

Definition create (w : world) (m : nat) (r : meshrec) (k : kind) (t : vtype) (n : nat) (d : Z) (sh : bool)
  : world * nat :=
  alloc (mkSt n t k sh false d (repeat d (count k (m_k r))) (Some m)) w.

(* ---------------------------------------------------------------- set_persistent / set_shared (RMT:216-251) *)

(* std::set::insert / erase on persistent_props_ *)
Definition pers_insert (m s : nat) (w : world) : world :=
  upd_mesh m (fun r => if memb s (m_pers r) then r else with_mpers (m_pers r ++ [s]) r) w.
Definition pers_erase (m s : nat) (w : world) : world :=
  upd_mesh m (fun r => with_mpers (remove_val s (m_pers r)) r) w.

(* No test that the property belongs to *this* mesh: m is the mesh the call is made on, s the storage of
   the PropertyPtr argument.  The caller's PropertyPtr keeps s alive, so the erase frees nothing. *)
Definition set_persistent_s (m s : nat) (b : bool) (w : world) : world * rres :=
  match get_st w s with
  | None => (w, RRejected)
  | Some st =>
      if Bool.eqb b (s_pers st) then (w, ROk)                                  (* 239 *)
      else if b then
             if s_shared st then (upd_st s (with_pers true) (pers_insert m s w), ROk)   (* 246, 250 *)
             else (w, RThrow)                                                  (* 243-245 *)
           else (upd_st s (with_pers false) (pers_erase m s w), ROk)           (* 248, 250 *)
  end.

Definition set_shared_s (m s : nat) (b : bool) (w : world) : world * rres :=
  match get_st w s with
  | None => (w, RRejected)
  | Some st =>
      if Bool.eqb b (s_shared st) then (w, ROk)                                (* 219 *)
      else if b then
             if s_name st =? 0 then (w, RThrow)                                (* 223-225 *)
             else match find_prop w m (s_kind st) (s_type st) (s_name st) with
                  | Some _ => (w, RThrow)                                      (* 226-229 *)
                  | None => (upd_st s (with_shared true) w, ROk)               (* 233 *)
                  end
           else let '(w1, _) := set_persistent_s m s false w in                (* 231 *)
                (upd_st s (with_shared false) w1, ROk)                         (* 233 *)
  end.

(* ---------------------------------------------------------------- clear_props (RMT:55-66), clear_all_props (RM:148-151) *)

(* one element of the persistent set: set_persistent(false) on it (58-60), then its owning pointer goes away with the
   set (61).  The C++ first clears the flag of every element and then clears the set; the model does both steps
   storage by storage - same final state, no intermediate state is observable. *)
Definition unpersist (m s : nat) (w : world) : world :=
  release s (pers_erase m s (upd_st s (with_pers false) w)).

Definition clear_props (m : nat) (k : kind) (w : world) : world :=
  match get_mesh w m with
  | None => w
  | Some r =>
      let w1 := fold_left (fun w s => unpersist m s w) (pers_k w r k) w in                       (* 58-61 *)
      match get_mesh w1 m with
      | None => w1
      | Some r1 => fold_left (fun w s => upd_st s (with_shared false) w) (tracked_k w1 r1 k) w1  (* 63-65 *)
      end
  end.

Definition clear_all_props (m : nat) (w : world) : world :=
  fold_left (fun w k => clear_props m k w) all_kinds w.

(* ---------------------------------------------------------------- resize_props (RMT:254-261) for every kind *)

Definition resize_tracked (m : nat) (cnt : kind -> nat) (w : world) : world :=
  match get_mesh w m with
  | None => w
  | Some r => fold_left (fun w s => upd_st s (fun st => with_data (resize (cnt (s_kind st)) (s_def st) (s_data st)) st) w)
                        (m_tracked r) w
  end.

(* ---------------------------------------------------------------- clone_persistent_properties_from (RM:72-84) *)

Definition clone_one (m' : nat) (w : world) (s : nat) : world :=
  match get_st w s with
  | None => w
  | Some st =>
      let '(w1, s') := alloc st w in                 (* PST:181 copy constructor: Tracked(Tracked const&) registers with the SOURCE tracker *)
      let w2 := set_tracker s' None w1 in            (* PST:182 *)
      let w3 := set_tracker s' (Some m') w2 in       (* RM:80 *)
      pers_insert m' s' w3                           (* RM:81 *)
  end.

Definition clone_persistent_from (m' src : nat) (w : world) : world :=
  match get_mesh w src with
  | Some r => fold_left (clone_one m') (m_pers r) w
  | None => w
  end.

(* ---------------------------------------------------------------- GeometryKernel: make_prop, position copy *)

(* GK:216-220 request_property<VecT, Vertex>("ovm:position", VecT(0)): the existing shared property of that name
   (a clone of a persistent position property of the source) or a new shared one.  None only for a dead mesh id. *)
Definition make_prop (m : nat) (w : world) : option (world * nat) :=
  match get_mesh w m with
  | None => None
  | Some r =>
      match find_prop w m KV TVec POSNAME with
      | Some s => Some (w, s)
      | None => Some (create w m r KV TVec POSNAME 0%Z true)
      end
  end.

(* GK:69-70, 100-101 std::copy(other.position_.begin(), other.position_.end(), position_.begin()); None = writes
   past the end of the destination *)
Definition copy_positions (sp dp : nat) (w : world) : option world :=
  match get_st w sp, get_st w dp with
  | Some a, Some b =>
      if length (s_data a) <=? length (s_data b)
      then Some (upd_st dp (with_data (s_data a ++ skipn (length (s_data a)) (s_data b))) w)
      else None
  | _, _ => None
  end.

Definition mesh_new : meshrec := mkM empty_mesh [] [] None.

(* GK:60-63 *)
Definition new_mesh (w : world) : world * rres :=
  let m := length (meshes w) in
  let w1 := with_meshes (meshes w ++ [Some mesh_new]) w in
  match make_prop m w1 with
  | Some (w2, p) => (upd_mesh m (with_pos (Some p)) w2, RMesh m)
  | None => (w, RUB 1)
  end.

(* GK:65-71 (+ RM:39-42, defaulted TopologyKernel copy) *)
Definition copy_mesh (src : nat) (w : world) : world * rres :=
  match get_mesh w src with
  | None => (w, RRejected)
  | Some rs =>
      let m := length (meshes w) in
      let w1 := with_meshes (meshes w ++ [Some mesh_new]) w in
      let w2 := clone_persistent_from m src w1 in
      let w3 := upd_mesh m (with_k (m_k rs)) w2 in
      match make_prop m w3 with
      | None => (w, RUB 1)
      | Some (w4, p) =>
          let w5 := upd_mesh m (with_pos (Some p)) w4 in
          match m_pos rs with
          | None => (w, RUB 3)
          | Some sp =>
              match copy_positions sp p w5 with
              | None => (w, RUB 2)
              | Some w6 => (w6, RMesh m)
              end
          end
      end
  end.

(* the operator= of GeometryKernel returns BY VALUE (GK:73, 91): a temporary copy of *this is constructed and
   destroyed.  It is observable only when constructing it is undefined. *)
Definition temp_copy_ub (m : nat) (w : world) : option nat :=
  match copy_mesh m w with (_, RUB y) => Some y | _ => None end.

(* GK:73-103, RM:54-70 *)
Definition assign (dst src : nat) (w : world) : world * rres :=
  match get_mesh w dst, get_mesh w src with
  | Some _, Some rs =>
      if dst =? src then (match temp_copy_ub dst w with Some y => (w, RUB y) | None => (w, ROk) end)   (* GK:75-76 *)
      else
        let w1 := clear_all_props dst w in                                                     (* RM:59 *)
        let w2 := resize_tracked dst (fun k => count k (m_k rs)) w1 in                         (* RM:62-64 *)
        let w3 := clone_persistent_from dst src w2 in                                          (* RM:66 *)
        let w4 := upd_mesh dst (with_k (m_k rs)) w3 in                                         (* TopologyKernel members *)
        match make_prop dst w4 with                                                            (* GK:97 *)
        | None => (w, RUB 1)
        | Some (w5, p) =>
            let old := match get_mesh w5 dst with Some rd => m_pos rd | None => None end in
            let w6 := upd_mesh dst (with_pos (Some p)) w5 in
            let w7 := match old with Some o => release o w6 | None => w6 end in
            match m_pos rs with
            | None => (w, RUB 3)
            | Some sp =>
                match copy_positions sp p w7 with                                              (* GK:100-101 *)
                | None => (w, RUB 2)
                | Some w8 => match temp_copy_ub dst w8 with Some y => (w, RUB y) | None => (w8, ROk) end   (* GK:102 *)
                end
            end
        end
  | _, _ => (w, RRejected)
  end.

(* one tracked storage at mesh destruction: tracker_removed() (TR:18-22, 139-141) nulls its back-pointer, then - if the
   persistent set owned it - that owning pointer goes away.  The C++ runs all tracker_removed() first (~Tracker) and then
   destroys the persistent set; the model does both storage by storage - same final state. *)
Definition detach (m s : nat) (w : world) : world :=
  release s (pers_erase m s (set_tracker s None w)).

(* ~GeometryKernel: position_, then ~ResourceManager: storage_trackers_, persistent_props_ *)
Definition destroy_mesh (m : nat) (w : world) : world * rres :=
  match get_mesh w m with
  | None => (w, RRejected)
  | Some r =>
      let w1 := upd_mesh m (with_pos None) w in
      let w2 := match m_pos r with Some p => release p w1 | None => w1 end in
      match get_mesh w2 m with
      | None => (w, RRejected)
      | Some r2 =>
          let w3 := fold_left (fun w s => detach m s w) (m_tracked r2) w2 in
          (* whatever the persistent set still owns (only storages of OTHER meshes, put there by an out-of-contract
             set_persistent; nothing in a well-formed history: RegistryProofs.destroy_rest_nil) *)
          let rest := match get_mesh w3 m with Some r3 => m_pers r3 | None => [] end in
          let w4 := upd_mesh m (with_mpers []) w3 in
          let w5 := fold_left (fun w s => release s w) rest w4 in
          (with_meshes (upd m None (meshes w5)) w5, ROk)
      end
  end.

(* ---------------------------------------------------------------- TopologyKernel calls on one mesh *)

Definition to_parray (st : storage) : parray := {| pdef := s_def st; pdata := s_data st |}.

Definition gather (w : world) (r : meshrec) (k : kind) : list parray :=
  map (fun s => match get_st w s with Some st => to_parray st | None => {| pdef := 0%Z; pdata := [] |} end)
      (tracked_k w r k).

(* the kernel state of Kernel/State.v with the tracked storages of every kind as its property arrays *)
Definition load_props (w : world) (r : meshrec) : mesh :=
  fold_left (fun s k => set_props k (gather w r k) s) all_kinds (m_k r).

Definition strip (s : mesh) : mesh := fold_left (fun s k => set_props k [] s) all_kinds s.

Definition scatter_k (w0 : world) (r : meshrec) (s' : mesh) (w : world) (k : kind) : world :=
  fold_left (fun w sp => upd_st (fst sp) (with_data (pdata (snd sp))) w)
            (combine (tracked_k w0 r k) (props k s')) w.

Definition kernel_allowed (o : op) : bool :=
  match o with PropCreate _ _ | PropSet _ _ _ _ | PropDrop _ _ => false | _ => true end.

Definition kernel_op (m : nat) (o : op) (w : world) : world * rres :=
  match get_mesh w m with
  | None => (w, RRejected)
  | Some r =>
      if kernel_allowed o then
        match step (load_props w r) o with
        | Rejected => (w, RRejected)
        | Ok s' ret =>
            let w1 := fold_left (scatter_k w r s') all_kinds w in
            let w2 := upd_mesh m (with_k (strip s')) w1 in
            let w3 := match o with Clear true => clear_all_props m w2 | _ => w2 end in   (* TopologyKernel.hh:883-885 *)
            (w3, RKernel ret)
        end
      else (w, RRejected)
  end.

(* ---------------------------------------------------------------- the step function *)

Inductive rop :=
| NewMesh
| CopyMesh (src : nat)
| Assign (dst src : nat)
| DelMesh (m : nat)
| Kernel (m : nat) (o : op)
| Request (m : nat) (k : kind) (t : vtype) (n : nat) (d : Z)
| CreateShared (m : nat) (k : kind) (t : vtype) (n : nat) (d : Z)
| CreatePersistent (m : nat) (k : kind) (t : vtype) (n : nat) (d : Z)
| CreatePrivate (m : nat) (k : kind) (t : vtype) (n : nat) (d : Z)
| GetProp (m : nat) (k : kind) (t : vtype) (n : nat)
| Exists (m : nat) (k : kind) (t : vtype) (n : nat)
| SetShared (m h : nat) (b : bool)
| SetPersistent (m h : nat) (b : bool)
| SetName (h n : nat)
| HCopy (h : nat)
| HMove (h : nat)
| HDrop (h : nat)
| HSet (h i : nat) (v : Z)
| PosHandle (m : nat)
| ClearProps (m : nat) (k : kind)
| ClearAllProps (m : nat)
| NProps (m : nat) (k : kind)
| NPers (m : nat) (k : kind).

Definition ret_handle (s : nat) (w : world) : world * rres :=
  let '(w1, h) := new_handle s w in (w1, RHandle h).

Definition rstep (w : world) (o : rop) : world * rres :=
  match o with
  | NewMesh => new_mesh w
  | CopyMesh src => copy_mesh src w
  | Assign dst src => assign dst src w
  | DelMesh m => destroy_mesh m w
  | Kernel m o => kernel_op m o w
  | Request m k t n d =>                                                       (* RMT:163-171 *)
      match get_mesh w m with
      | None => (w, RRejected)
      | Some r =>
          match find_prop w m k t n with
          | Some s => ret_handle s w
          | None => let '(w1, s) := create w m r k t n d (negb (n =? 0)) in ret_handle s w1
          end
      end
  | CreateShared m k t n d =>                                                  (* RMT:187-197 *)
      match get_mesh w m with
      | None => (w, RRejected)
      | Some r =>
          if n =? 0 then (w, RNoHandle) else                                   (* 191-192 *)
          match find_prop w m k t n with
          | Some _ => (w, RNoHandle)
          | None => let '(w1, s) := create w m r k t n d true in ret_handle s w1
          end
      end
  | CreatePersistent m k t n d =>                                              (* RMT:173-185 *)
      match get_mesh w m with
      | None => (w, RRejected)
      | Some r =>
          if n =? 0 then (w, RNoHandle) else                                   (* 177-178 *)
          match find_prop w m k t n with
          | Some _ => (w, RNoHandle)
          | None =>
              let '(w1, s) := create w m r k t n d true in
              let '(w2, h) := new_handle s w1 in
              (fst (set_persistent_s m s true w2), RHandle h)
          end
      end
  | CreatePrivate m k t n d =>                                                 (* RMT:194-199 *)
      match get_mesh w m with
      | None => (w, RRejected)
      | Some r => let '(w1, s) := create w m r k t n d false in ret_handle s w1
      end
  | GetProp m k t n =>                                                         (* RMT:201-206 *)
      match get_mesh w m with
      | None => (w, RRejected)
      | Some _ => match find_prop w m k t n with Some s => ret_handle s w | None => (w, RNoHandle) end
      end
  | Exists m k t n =>                                                          (* ResourceManager.hh:204-208 *)
      match get_mesh w m with
      | None => (w, RRejected)
      | Some _ => (w, RBool (match find_prop w m k t n with Some _ => true | None => false end))
      end
  | SetShared m h b =>
      match get_mesh w m, get_h w h with
      | Some _, Some s => set_shared_s m s b w
      | _, _ => (w, RRejected)
      end
  | SetPersistent m h b =>
      match get_mesh w m, get_h w h with
      | Some _, Some s => set_persistent_s m s b w
      | _, _ => (w, RRejected)
      end
  | SetName h n =>                                                             (* PSP:101-103: no check at all *)
      match get_h w h with
      | Some s => (upd_st s (with_name n) w, ROk)
      | None => (w, RRejected)
      end
  | HCopy h =>
      match get_h w h with Some s => ret_handle s w | None => (w, RRejected) end
  | HMove h =>                                                                 (* the moved-from PropertyPtr holds nullptr *)
      match get_h w h with Some s => ret_handle s (kill_handle h w) | None => (w, RRejected) end
  | HDrop h =>
      match get_h w h with Some _ => (drop_handle h w, ROk) | None => (w, RRejected) end
  | HSet h i v =>
      match get_h w h with
      | Some s =>
          match get_st w s with
          | Some st => if i <? length (s_data st) then (upd_st s (with_data (upd i v (s_data st))) w, ROk)
                       else (w, RRejected)
          | None => (w, RRejected)
          end
      | None => (w, RRejected)
      end
  | PosHandle m =>                                                             (* a copy of vertex_positions() (GK:207-208) *)
      match get_mesh w m with
      | Some r => match m_pos r with Some p => ret_handle p w | None => (w, RRejected) end
      | None => (w, RRejected)
      end
  | ClearProps m k =>
      match get_mesh w m with Some _ => (clear_props m k w, ROk) | None => (w, RRejected) end
  | ClearAllProps m =>
      match get_mesh w m with Some _ => (clear_all_props m w, ROk) | None => (w, RRejected) end
  | NProps m k =>                                                              (* RMT:283-286 *)
      match get_mesh w m with Some r => (w, RNat (length (tracked_k w r k))) | None => (w, RRejected) end
  | NPers m k =>                                                               (* RMT:288-291 *)
      match get_mesh w m with Some r => (w, RNat (length (pers_k w r k))) | None => (w, RRejected) end
  end.

Definition rrun_from (w : world) (ops : list rop) : world :=
  fold_left (fun w o => fst (rstep w o)) ops w.
Definition rrun (ops : list rop) : world := rrun_from empty_world ops.
