(* Reg/HeapModel.v -- the "world" in which aliasing between meshes, property storages and property
   handles is expressible (C13, C14).  Definitions only.

   C++ objects modelled:
     PropertyStorageT<T> (PropertyStorageBase.hh:180-190, PropertyStorageT.hh:217-220)   -> [storage], keyed by a storage id
     std::shared_ptr<PropertyStorageT<T>> held by a PropertyPtr (PropertyStoragePtr.hh:132) -> an entry of [handles]
     ResourceManager (+ TopologyKernel members + GeometryKernel::position_)                -> [meshrec], keyed by a mesh id
     detail::Tracker<PropertyStorageBase>::tracked_ (Tracking.hh:75), all 7 kinds together  -> [m_tracked]
     detail::Tracked<...>::tracker_ (Tracking.hh:159), the raw back-pointer                 -> [s_owner]
     ResourceManager::persistent_props_ (ResourceManager.hh:96), all 7 kinds together       -> [m_pers]

   Ids are never reused: a storage id is its index in [heap] (freed = None), a mesh id its index in
   [meshes] (destroyed = None), a handle id its index in [handles] (dropped / moved-from = None).
   There is no stored reference count: a storage is freed by [release] exactly when the last
   std::shared_ptr to it goes away, i.e. when it is no longer [held].
   Names are tokens: 0 is the empty string, 1 is "ovm:position", k >= 2 is the string "n<k>" (harness).
   Values are tokens (Z), as in Kernel/State.v.  The std::set iteration order (by address) is not
   modelled: the lists are in insertion order and nothing observable depends on the order as long as
   shared properties are unique (RegistryProofs.find_prop_complete). *)
From OVM Require Export Kernel.Ops.
Local Open Scope nat_scope.

Inductive vtype := TInt | TBool | TDouble | TString | TVec.

Definition vtype_eqb (a b : vtype) : bool :=
  match a, b with
  | TInt, TInt | TBool, TBool | TDouble, TDouble | TString, TString | TVec, TVec => true
  | _, _ => false
  end.

Definition kind_eqb (a b : kind) : bool :=
  match a, b with
  | KV, KV | KE, KE | KHE, KHE | KF, KF | KHF, KHF | KC, KC | KM, KM => true
  | _, _ => false
  end.

Record storage := mkSt {
  s_name : nat;             (* name_ ; 0 = "" *)
  s_type : vtype;           (* internal_type_name_ *)
  s_kind : kind;            (* entity_type_ *)
  s_shared : bool;          (* shared_ *)
  s_pers : bool;            (* persistent_ *)
  s_def : Z;                (* def_ *)
  s_data : list Z;          (* data_ *)
  s_owner : option nat      (* Tracked::tracker_ : the mesh whose tracker it points to, None = nullptr *)
}.

Record meshrec := mkM {
  m_k : mesh;               (* TopologyKernel members; the property lists of this record are always [] *)
  m_tracked : list nat;     (* storage_trackers_ *)
  m_pers : list nat;        (* persistent_props_ (owning pointers) *)
  m_pos : option nat        (* GeometryKernel::position_ (an owning pointer); None only during construction/destruction *)
}.

Record world := mkW {
  heap : list (option storage);
  meshes : list (option meshrec);
  handles : list (option nat)
}.

Definition empty_world : world := mkW [] [] [].

Definition with_heap x w := mkW x (meshes w) (handles w).
Definition with_meshes x w := mkW (heap w) x (handles w).
Definition with_handles x w := mkW (heap w) (meshes w) x.

Definition with_name x st := mkSt x (s_type st) (s_kind st) (s_shared st) (s_pers st) (s_def st) (s_data st) (s_owner st).
Definition with_shared x st := mkSt (s_name st) (s_type st) (s_kind st) x (s_pers st) (s_def st) (s_data st) (s_owner st).
Definition with_pers x st := mkSt (s_name st) (s_type st) (s_kind st) (s_shared st) x (s_def st) (s_data st) (s_owner st).
Definition with_data x st := mkSt (s_name st) (s_type st) (s_kind st) (s_shared st) (s_pers st) (s_def st) x (s_owner st).
Definition with_owner x st := mkSt (s_name st) (s_type st) (s_kind st) (s_shared st) (s_pers st) (s_def st) (s_data st) x.

Definition with_k x r := mkM x (m_tracked r) (m_pers r) (m_pos r).
Definition with_tracked x r := mkM (m_k r) x (m_pers r) (m_pos r).
Definition with_mpers x r := mkM (m_k r) (m_tracked r) x (m_pos r).
Definition with_pos x r := mkM (m_k r) (m_tracked r) (m_pers r) x.

(* ---------------------------------------------------------------- lookups *)

Definition get_st (w : world) (s : nat) : option storage :=
  match nth_error (heap w) s with Some (Some st) => Some st | _ => None end.
Definition get_mesh (w : world) (m : nat) : option meshrec :=
  match nth_error (meshes w) m with Some (Some r) => Some r | _ => None end.
Definition get_h (w : world) (h : nat) : option nat :=
  match nth_error (handles w) h with Some (Some s) => Some s | _ => None end.

Definition upd_st (s : nat) (f : storage -> storage) (w : world) : world :=
  match get_st w s with
  | Some st => with_heap (upd s (Some (f st)) (heap w)) w
  | None => w
  end.
Definition upd_mesh (m : nat) (f : meshrec -> meshrec) (w : world) : world :=
  match get_mesh w m with
  | Some r => with_meshes (upd m (Some (f r)) (meshes w)) w
  | None => w
  end.

(* ---------------------------------------------------------------- reference counting *)

Definition opt_is (s : nat) (o : option nat) : bool :=
  match o with Some x => x =? s | None => false end.

(* does this mesh object own a shared_ptr to s (position_ or the persistent set)? *)
Definition mesh_holds (s : nat) (r : meshrec) : bool := opt_is s (m_pos r) || memb s (m_pers r).

(* use_count > 0 *)
Definition held (w : world) (s : nat) : bool :=
  existsb (opt_is s) (handles w)
  || existsb (fun mo => match mo with Some r => mesh_holds s r | None => false end) (meshes w).

(* ---------------------------------------------------------------- Tracking.hh *)

(* Tracker::add (54-59) / Tracker::remove (61-65) *)
Definition tracker_add (m s : nat) (w : world) : world :=
  upd_mesh m (fun r => with_tracked (m_tracked r ++ [s]) r) w.
Definition tracker_remove (m s : nat) (w : world) : world :=
  upd_mesh m (fun r => with_tracked (remove_val s (m_tracked r)) r) w.

(* Tracked::set_tracker (119-124): remove(); tracker_ = new; add() *)
Definition set_tracker (s : nat) (t : option nat) (w : world) : world :=
  match get_st w s with
  | None => w
  | Some st =>
      let w1 := match s_owner st with Some m => tracker_remove m s w | None => w end in
      let w2 := upd_st s (with_owner t) w1 in
      match t with Some m => tracker_add m s w2 | None => w2 end
  end.

(* std::make_shared<PropertyStorageT<T>>(...): Tracked(Tracker* ) (128-133) / Tracked(Tracked const&) (89-94):
   the new object registers itself with the tracker its tracker_ field names *)
Definition alloc (st : storage) (w : world) : world * nat :=
  let s := length (heap w) in
  let w1 := with_heap (heap w ++ [Some st]) w in
  (match s_owner st with Some m => tracker_add m s w1 | None => w1 end, s).

(* ~PropertyStorageBase -> ~Tracked (84-87): remove() *)
Definition free (s : nat) (w : world) : world :=
  match get_st w s with
  | None => w
  | Some st =>
      let w1 := match s_owner st with Some m => tracker_remove m s w | None => w end in
      with_heap (upd s None (heap w1)) w1
  end.

(* a std::shared_ptr to s has just gone away *)
Definition release (s : nat) (w : world) : world := if held w s then w else free s w.

(* ---------------------------------------------------------------- handles (PropertyPtr objects of the caller) *)

Definition new_handle (s : nat) (w : world) : world * nat :=
  (with_handles (handles w ++ [Some s]) w, length (handles w)).

Definition kill_handle (h : nat) (w : world) : world := with_handles (upd h None (handles w)) w.

(* ~PropertyPtr *)
Definition drop_handle (h : nat) (w : world) : world :=
  match get_h w h with
  | Some s => release s (kill_handle h w)
  | None => w
  end.

(* ---------------------------------------------------------------- per-kind views *)

Definition kind_of (w : world) (s : nat) : option kind :=
  match get_st w s with Some st => Some (s_kind st) | None => None end.
Definition is_kind (w : world) (k : kind) (s : nat) : bool :=
  match get_st w s with Some st => kind_eqb (s_kind st) k | None => false end.

(* storage_tracker<EntityTag>() / persistent_props_.get<EntityTag>() *)
Definition tracked_k (w : world) (r : meshrec) (k : kind) : list nat := filter (is_kind w k) (m_tracked r).
Definition pers_k (w : world) (r : meshrec) (k : kind) : list nat := filter (is_kind w k) (m_pers r).

Definition all_kinds : list kind := [KV; KE; KHE; KF; KHF; KC; KM].

(* everything a mesh can reach *)
Definition reach (r : meshrec) : list nat :=
  m_tracked r ++ m_pers r ++ match m_pos r with Some p => [p] | None => [] end.
