(* Reg/CopyProofs.v -- mesh copy construction and assignment are deep and leave the meshes independent (C13). *)
From Coq Require Import ZArith Lia ZifyNat ZifyBool List Bool Arith.
From OVM Require Import Base.ListX Reg.RegistryModel Reg.RegistryProofs.
Import ListNotations.
Local Open Scope nat_scope.

(* ====================================================================== disjointness *)

(* everything a mesh reaches (tracker set, persistent set, position handle) is attached to it ... *)
Lemma reach_owned w m r s :
  inv w -> get_mesh w m = Some r -> In s (reach r) -> exists st, get_st w s = Some st /\ s_owner st = Some m.
Proof.
  intros I Hm. unfold reach. rewrite !in_app_iff. intros [H|[H|H]].
  - apply (iv_tracked _ _ I _ _ s Hm). exact H.
  - apply (iv_pers _ _ I _ _ s Hm) in H. destruct H as [st [Hs [Ho _]]]. eauto.
  - destruct (m_pos r) as [p|] eqn:Hp; simpl in H; [|tauto]. destruct H as [<-|[]]. eapply (iv_pos _ _ I); eauto.
Qed.

(* ... so two distinct meshes never reach the same storage: in EVERY world satisfying the invariant, i.e. after every
   history (RegistryProofs.reachable_inv) *)
Theorem reach_disjoint w m1 m2 r1 r2 s :
  inv w -> m1 <> m2 -> get_mesh w m1 = Some r1 -> get_mesh w m2 = Some r2 -> In s (reach r1) -> In s (reach r2) -> False.
Proof.
  intros I Ne H1 H2 A B.
  destruct (reach_owned _ _ _ _ I H1 A) as [st1 [G1 O1]]. destruct (reach_owned _ _ _ _ I H2 B) as [st2 [G2 O2]].
  congruence.
Qed.

(* ====================================================================== self-assignment *)

Theorem self_assign_identity w m w' : rstep w (Assign m m) = (w', ROk) -> w' = w.
Proof.
  unfold rstep, assign. destruct (get_mesh w m); [|discriminate]. rewrite Nat.eqb_refl.
  destruct (temp_copy_ub m w); intros E; inversion E; reflexivity.
Qed.

(* ====================================================================== copy construction *)

(* the content of a storage, whoever owns it *)
Definition oview (w : world) (s : nat) : option storage := option_map (with_owner None) (get_st w s).

(* if the source has a persistent property with the key of the position property, it is its position property
   (false only after clear() anonymised the position property and the user created a persistent "ovm:position" of his own) *)
Definition pos_key_own (w : world) (rs : meshrec) : Prop :=
  forall x st, In x (m_pers rs) -> get_st w x = Some st -> matches KV TVec POSNAME st = true -> m_pos rs = Some x.

Lemma skipn_all' {A} (l : list A) : skipn (length l) l = [].
Proof. induction l; simpl; auto. Qed.

Lemma forall2_map_eq {A B C} (f : A -> C) (g : B -> C) l l' :
  Forall2 (fun a b => f a = g b) l l' -> map f l = map g l'.
Proof. induction 1; simpl; congruence. Qed.

Theorem copy_equal w src rs w' m' :
  inv w -> get_mesh w src = Some rs -> pos_key_own w rs -> rstep w (CopyMesh src) = (w', RMesh m') ->
  get_mesh w' src = Some rs /\
  exists r', get_mesh w' m' = Some r' /\
    m_k r' = m_k rs /\
    map (oview w') (m_pers r') = map (oview w) (m_pers rs) /\
    (forall s, In s (m_tracked r') -> In s (m_pers r') \/ m_pos r' = Some s) /\
    exists p sp a b, m_pos r' = Some p /\ m_pos rs = Some sp /\ get_st w' p = Some a /\ get_st w sp = Some b /\
                     firstn (length (s_data b)) (s_data a) = s_data b /\ s_owner a = Some m'.
Proof.
  intros I Hs PK. unfold rstep, copy_mesh. rewrite Hs.
  set (m := length (meshes w)). set (w1 := with_meshes (meshes w ++ [Some mesh_new]) w).
  assert (I1 : inv w1) by (apply inv_append_mesh; exact I).
  assert (M1 : get_mesh w1 m = Some mesh_new) by (unfold w1; rewrite get_mesh_app; fold m; rewrite Nat.eqb_refl; reflexivity).
  assert (Ne : src <> m) by (apply get_mesh_lt in Hs; unfold m; lia).
  assert (S1 : get_mesh w1 src = Some rs).
  { unfold w1. rewrite get_mesh_app. fold m. destruct (Nat.eqb_spec src m); [congruence|exact Hs]. }
  assert (G1 : forall x, get_st w1 x = get_st w x) by reflexivity.
  assert (NoOwn1 : forall s2 st2, get_st w1 s2 = Some st2 -> s_owner st2 <> Some m).
  { intros s2 st2 H2 O2. assert (In s2 (m_tracked mesh_new)) by (apply (iv_tracked _ _ I1 _ _ s2 M1); eauto). destruct H. }
  assert (Hns : forall s2 st2, get_st w1 s2 = Some st2 -> s_owner st2 = Some m -> s_shared st2 = false).
  { intros s2 st2 H2 O2. exfalso. eapply NoOwn1; eauto. }
  destruct (clone_persistent_from_spec w1 m src rs mesh_new I1 Ne S1 M1 Hns) as [I2 [C1 C2 C3 CN]].
  destruct CN as [ids [r2 [R1 [R2 [R3 [R4 [R5 [R6 R7]]]]]]]].
  set (w2 := clone_persistent_from m src w1) in *. simpl in R2, R3, R4, R5.
  set (w3 := upd_mesh m (with_k (m_k rs)) w2).
  assert (I3 : inv w3) by (eapply inv_sim; [apply sim_upd_mesh; intros; apply mrec_eq_with_k|exact I2]).
  assert (M3 : get_mesh w3 m = Some (with_k (m_k rs) r2)) by (unfold w3; rewrite get_mesh_upd_mesh, Nat.eqb_refl, R1; reflexivity).
  assert (G3 : forall x, get_st w3 x = get_st w2 x) by (intros; unfold w3; apply get_st_upd_mesh).
  destruct (make_prop m w3) as [[w4 p]|] eqn:MP; [|discriminate].
  destruct (make_prop_spec _ _ _ _ _ I3 MP) as [I4 [[stp [Hp Ho]] [Hm4 [Hoth4 [_ [Hold4 [Hnew4 Hfind4]]]]]]].
  destruct (Hm4 _ M3) as [r4 [H4 [P4 [Q4 K4]]]]. simpl in P4, Q4, K4.
  destruct (m_pos rs) as [sp|] eqn:Psp; [|discriminate].
  set (w5 := upd_mesh m (with_pos (Some p)) w4).
  destruct (copy_positions sp p w5) as [w6|] eqn:CP; [|discriminate].
  intros E; inversion E; subst w' m'. clear E.
  unfold copy_positions in CP.
  destruct (get_st w5 sp) as [b|] eqn:Gsp; [|discriminate]. destruct (get_st w5 p) as [a0|] eqn:Gp; [|discriminate].
  destruct (length (s_data b) <=? length (s_data a0)) eqn:Le; [|discriminate]. inversion CP; subst w6. clear CP.
  assert (G5 : forall x, get_st w5 x = get_st w4 x) by (intros; unfold w5; apply get_st_upd_mesh).
  assert (Gb : get_st w sp = Some b).
  { destruct (iv_pos _ _ I _ _ _ Hs Psp) as [b0 [Hb0 _]].
    assert (get_st w5 sp = Some b0) by (rewrite G5; apply Hold4; rewrite G3; apply C1; exact Hb0). congruence. }
  rewrite G5, Hp in Gp. inversion Gp; subst a0. clear Gp.
  (* a storage of the copy's tracker is a clone or the position property *)
  assert (T4 : forall s, In s (m_tracked r4) -> In s ids \/ s = p).
  { intros s Hin. apply (iv_tracked _ _ I4 _ _ s H4) in Hin. destruct Hin as [y [Hy Oy]].
    destruct (Hnew4 _ _ Hy) as [Hy3|[-> _]]; auto. left. rewrite G3 in Hy3. eapply R7; eauto.
    destruct (get_st w1 s) as [y1|] eqn:E1; auto. exfalso. apply C1 in E1 as E2. rewrite E2 in Hy3. inversion Hy3; subst.
    eapply NoOwn1; eauto. }
  (* if the position property of the copy is a clone, it is the clone of the source's position property *)
  assert (PC : In p ids -> stp = with_owner (Some m) b).
  { intros Hin. destruct (Forall2_In_l _ _ _ _ R6 Hin) as [x [Hx [_ [stx [Gx Gc]]]]].
    rewrite <- G3 in Gc. pose proof (Hfind4 _ Gc) as F.
    destruct (find_prop_owner _ _ _ _ _ _ _ I3 F) as [y [Hy [_ [My _]]]]. rewrite Gc in Hy. inversion Hy; subst y.
    assert (Mx : matches KV TVec POSNAME stx = true) by exact My.
    rewrite G1 in Gx. pose proof (PK x stx Hx Gx Mx) as Own. assert (x = sp) by congruence. subst x.
    rewrite Gb in Gx. inversion Gx; subst stx. apply Hold4 in Gc. rewrite Hp in Gc. inversion Gc; reflexivity. }
  split.
  { rewrite get_mesh_upd_st. unfold w5. rewrite get_mesh_upd_mesh. destruct (Nat.eqb_spec src m); [congruence|].
    rewrite (Hoth4 _ Ne). unfold w3. rewrite get_mesh_upd_mesh. destruct (Nat.eqb_spec src m); [congruence|].
    rewrite (C2 _ Ne). exact S1. }
  exists (with_pos (Some p) r4). split.
  { rewrite get_mesh_upd_st. unfold w5. rewrite get_mesh_upd_mesh, Nat.eqb_refl, H4. reflexivity. }
  split; [simpl; congruence|]. split; [|split].
  - simpl. rewrite Q4, R4. simpl. apply forall2_map_eq.
    eapply Forall2_impl_in2; [|exact R6]. intros id x Hid Hx [N1 [stx [Gx G2]]]. cbn beta.
    unfold oview. rewrite G1 in Gx. rewrite Gx. rewrite get_st_upd_st, G5.
    rewrite <- G3 in G2. apply Hold4 in G2. rewrite G2.
    destruct (Nat.eqb_spec id p) as [->|Nid]; [|reflexivity].
    assert (Hin : In p ids) by exact Hid.
    pose proof (PC Hin) as E. rewrite Hp in G2.
    assert (E2 : with_owner (Some m) stx = with_owner (Some m) b) by congruence.
    assert (Ed : s_data stx = s_data b) by (apply (f_equal s_data) in E2; exact E2).
    simpl. f_equal. rewrite E. simpl. rewrite skipn_all', app_nil_r.
    destruct stx; simpl in *. subst. reflexivity.
  - simpl. intros s Hin. destruct (T4 s Hin) as [H|H]; [left; rewrite Q4, R4; exact H|right; congruence].
  - exists p, sp, (with_data (s_data b ++ skipn (length (s_data b)) (s_data stp)) stp), b. simpl.
    rewrite get_st_upd_st, Nat.eqb_refl, G5, Hp. simpl. repeat split; auto.
    rewrite firstn_app, firstn_all, Nat.sub_diag. simpl. apply app_nil_r.
Qed.

(* ====================================================================== handles into the assigned-to mesh *)

Lemma resize_length' {A} n (d : A) l : length (resize n d l) = n.
Proof. unfold resize. rewrite app_length, firstn_length, repeat_length. lia. Qed.

Lemma resize_idem {A} n (d : A) l : resize n d (resize n d l) = resize n d l.
Proof.
  unfold resize at 1. rewrite resize_length'. rewrite Nat.sub_diag. simpl. rewrite app_nil_r.
  rewrite <- (resize_length' n d l) at 1. apply firstn_all.
Qed.

Theorem old_handles_safe w dst src rs w' h s st :
  inv w -> dst <> src -> get_mesh w src = Some rs -> rstep w (Assign dst src) = (w', ROk) ->
  get_h w h = Some s -> get_st w s = Some st -> s_owner st = Some dst ->
  get_h w' h = Some s /\
  exists st' r', get_st w' s = Some st' /\ get_mesh w' dst = Some r' /\ In s (m_tracked r') /\
    s_owner st' = Some dst /\ s_shared st' = false /\ s_pers st' = false /\
    s_name st' = s_name st /\ s_type st' = s_type st /\ s_kind st' = s_kind st /\
    length (s_data st') = count (s_kind st) (m_k rs) /\
    (forall k t n, find_prop w' dst k t n <> Some s).
Proof.
  intros I Ne Hs St Hh Hst Ho.
  destruct (iv_owner _ _ I _ _ _ Hst Ho) as [rd Hd].
  pose proof (inv_assign w dst src I) as I'.
  unfold rstep in St. assert (Ew : w' = fst (assign dst src w)) by (rewrite St; reflexivity). rewrite <- Ew in I'.
  assert (Er : snd (assign dst src w) = ROk) by (rewrite St; reflexivity). clear St.
  unfold assign in Ew, Er. rewrite Hd, Hs in Ew, Er.
  destruct (Nat.eqb_spec dst src); [congruence|].
  destruct (assign_prefix w dst src rd rs I Ne Hd Hs) as [I1 [I2 [I3 [S2 [[r2 [D2 [P2 CS]]] Hns]]]]].
  set (w1 := clear_all_props dst w) in *.
  set (w2 := resize_tracked dst (fun k => count k (m_k rs)) w1) in *.
  set (w3 := clone_persistent_from dst src w2) in *.
  (* s through clear_all_props *)
  assert (H1 : get_h w1 h = Some s) by (unfold w1; rewrite get_h_clear_all_props; exact Hh).
  destruct (iv_handle _ _ I1 _ _ H1) as [st1 G1].
  destruct (wle_clear_all_props w dst _ _ G1) as [st0 [G0 [N1 [T1 [K1 [_ [O1 _]]]]]]]. rewrite Hst in G0. inversion G0; subst st0. clear G0.
  assert (O1' : s_owner st1 = Some dst) by congruence.
  assert (Sh1 : s_shared st1 = false) by (eapply (clear_all_props_unshared w dst s st1); eauto).
  assert (Pe1 : s_pers st1 = false).
  { destruct (s_pers st1) eqn:P; auto. pose proof (iv_pers_shared _ _ I1 _ _ G1 P). congruence. }
  (* through resize *)
  destruct (clear_all_props_mesh w dst rd Hd) as [r1 [M1 _]]. fold w1 in M1.
  assert (T1in : In s (m_tracked r1)) by (apply (iv_tracked _ _ I1 _ _ s M1); eauto).
  set (f := fun st : storage => with_data (resize (count (s_kind st) (m_k rs)) (s_def st) (s_data st)) st).
  assert (G2 : get_st w2 s = Some (f st1)).
  { unfold w2, resize_tracked. rewrite M1.
    change (fold_left (fun w0 s0 => upd_st s0 (fun st2 => with_data (resize (count (s_kind st2) (m_k rs)) (s_def st2) (s_data st2)) st2) w0) (m_tracked r1) w1)
      with (fold_left (fun w0 s0 => upd_st s0 f w0) (m_tracked r1) w1).
    rewrite (get_st_fold_upd_st f).
    - replace (memb s (m_tracked r1)) with true by (symmetry; apply memb_In'; exact T1in). rewrite G1. reflexivity.
    - intros x. unfold f. simpl. rewrite resize_idem. reflexivity. }
  (* through the clone loop, the kernel copy and make_prop *)
  destruct CS as [C1 C2 C3 CN]. destruct CN as [ids [r3 [R1 [R2 _]]]].
  assert (G3 : get_st w3 s = Some (f st1)) by (apply C1; exact G2).
  set (w4 := upd_mesh dst (with_k (m_k rs)) w3) in *.
  assert (I4 : inv w4) by (eapply inv_sim; [apply sim_upd_mesh; intros; apply mrec_eq_with_k|exact I3]).
  assert (M4 : get_mesh w4 dst = Some (with_k (m_k rs) r3)) by (unfold w4; rewrite get_mesh_upd_mesh, Nat.eqb_refl, R1; reflexivity).
  assert (G4 : get_st w4 s = Some (f st1)) by (unfold w4; rewrite get_st_upd_mesh; exact G3).
  assert (H4 : get_h w4 h = Some s).
  { unfold w4. rewrite get_h_upd_mesh, C3. unfold w2, resize_tracked. destruct (get_mesh w1 dst); [rewrite get_h_fold_upd_st|]; exact H1. }
  destruct (make_prop dst w4) as [[w5 p]|] eqn:MP; [|discriminate].
  destruct (make_prop_spec _ _ _ _ _ I4 MP) as [I5 [[stp [Hp Hop]] [Hm5 [_ [Hh5 [Hold5 [_ Hfind5]]]]]]].
  destruct (Hm5 _ M4) as [r5 [H5 [P5 _]]]. rewrite H5 in Ew, Er.
  assert (G5 : get_st w5 s = Some (f st1)) by (apply Hold5; exact G4).
  assert (Nps : p <> s).
  { intros ->. pose proof (Hfind5 _ G4) as F. destruct (found_is_shared _ _ _ _ _ _ _ F G4) as [Sh _]. simpl in Sh. congruence. }
  set (w6 := upd_mesh dst (with_pos (Some p)) w5) in *.
  set (w7 := match m_pos r5 with Some o => release o w6 | None => w6 end) in *.
  assert (H7 : get_h w7 h = Some s).
  { unfold w7. destruct (m_pos r5); rewrite ?get_h_release; unfold w6; rewrite get_h_upd_mesh, Hh5; exact H4. }
  assert (G7 : get_st w7 s = Some (f st1)).
  { unfold w7. destruct (m_pos r5) as [o|]; [rewrite get_st_release|]; unfold w6; rewrite ?get_st_upd_mesh; auto.
    destruct (Nat.eqb_spec s o); subst; simpl; auto.
    replace (held (upd_mesh dst (with_pos (Some p)) w5) o) with true; auto.
    symmetry. apply held_spec. left. exists h. rewrite get_h_upd_mesh, Hh5. exact H4. }
  destruct (m_pos rs) as [sp|]; [|discriminate].
  destruct (copy_positions sp p w7) as [w8|] eqn:CP; [|discriminate].
  destruct (temp_copy_ub dst w8); [discriminate|]. cbn [fst] in Ew. subst w'.
  unfold copy_positions in CP. destruct (get_st w7 sp) as [b|]; [|discriminate]. destruct (get_st w7 p) as [a|]; [|discriminate].
  destruct (length (s_data b) <=? length (s_data a)); [|discriminate]. inversion CP; subst w8. clear CP.
  split; [rewrite get_h_upd_st; exact H7|].
  assert (G8 : get_st (upd_st p (with_data (s_data b ++ skipn (length (s_data b)) (s_data a))) w7) s = Some (f st1)).
  { rewrite get_st_upd_st. destruct (Nat.eqb_spec s p); [congruence|exact G7]. }
  destruct (iv_owner _ _ I' _ _ dst G8) as [r' Hr']; [simpl; exact O1'|].
  exists (f st1), r'. split; [exact G8|]. split; [exact Hr'|]. split.
  { apply (iv_tracked _ _ I' _ _ s Hr'). exists (f st1). split; [exact G8|simpl; exact O1']. }
  unfold f; simpl. repeat split; auto; try congruence.
  - rewrite resize_length'. congruence.
  - intros k0 t0 n0 F. destruct (found_is_shared _ _ _ _ _ _ _ F G8) as [Sh _]. simpl in Sh. congruence.
Qed.

(* ====================================================================== frame: an operation on one mesh touches nothing of another *)

Definition owner_of_handle (w : world) (h : nat) : option nat :=
  match get_h w h with
  | Some s => match get_st w s with Some st => s_owner st | None => None end
  | None => None
  end.

(* the mesh an operation acts on (for a new mesh: its id) *)
Definition op_target (w : world) (o : rop) : option nat :=
  match o with
  | NewMesh | CopyMesh _ => Some (length (meshes w))
  | Assign dst _ => Some dst
  | DelMesh m | Kernel m _ | Request m _ _ _ _ | CreateShared m _ _ _ _ | CreatePersistent m _ _ _ _
  | CreatePrivate m _ _ _ _ | GetProp m _ _ _ | Exists m _ _ _ | SetShared m _ _ | SetPersistent m _ _
  | PosHandle m | ClearProps m _ | ClearAllProps m | NProps m _ | NPers m _ => Some m
  | SetName h _ | HCopy h | HMove h | HDrop h | HSet h _ _ => owner_of_handle w h
  end.

Lemma owned_by_upd_st m1 w s f x : (forall st, s_owner (f st) = s_owner st) -> owned_by m1 w x -> owned_by m1 (upd_st s f w) x.
Proof.
  intros Hf H st'. rewrite get_st_upd_st. destruct (Nat.eqb_spec x s); subst; [|apply H].
  destruct (get_st w s) as [st|] eqn:E; simpl; intros G; inversion G; subst. rewrite Hf. apply H. exact E.
Qed.

Lemma frame_new_handle m1 w s : frame m1 w (fst (new_handle s w)).
Proof. apply frame_handles. Qed.

Lemma frame_kill_handle m1 w h : frame m1 w (kill_handle h w).
Proof. apply frame_handles. Qed.

Lemma frame_create m1 w r k t n d sh : frame m1 w (fst (create w m1 r k t n d sh)).
Proof. rewrite create_eq. apply frame_alloc. simpl. auto. Qed.

Lemma frame_set_persistent_s m1 w s b : owned_by m1 w s -> frame m1 w (fst (set_persistent_s m1 s b w)).
Proof.
  intros Hs. unfold set_persistent_s. destruct (get_st w s) as [st|] eqn:E; [|apply frame_refl].
  destruct (Bool.eqb b (s_pers st)); [apply frame_refl|]. destruct b.
  - destruct (s_shared st); [|apply frame_refl]. cbn [fst]. unfold pers_insert.
    eapply frame_trans; [apply frame_upd_mesh|]. apply frame_upd_st. apply owned_by_upd_mesh. exact Hs.
  - cbn [fst]. unfold pers_erase. eapply frame_trans; [apply frame_upd_mesh|]. apply frame_upd_st. apply owned_by_upd_mesh. exact Hs.
Qed.

Lemma owned_by_set_persistent_s m1 w m s b x : owned_by m1 w x -> owned_by m1 (fst (set_persistent_s m s b w)) x.
Proof.
  intros Hx. unfold set_persistent_s. destruct (get_st w s) as [st|]; auto.
  destruct (Bool.eqb b (s_pers st)); auto. destruct b; [destruct (s_shared st); auto|]; cbn [fst];
    apply owned_by_upd_st; auto; unfold pers_insert, pers_erase; apply owned_by_upd_mesh; exact Hx.
Qed.

Lemma frame_set_shared_s m1 w s b : owned_by m1 w s -> frame m1 w (fst (set_shared_s m1 s b w)).
Proof.
  intros Hs. unfold set_shared_s. destruct (get_st w s) as [st|] eqn:E; [|apply frame_refl].
  destruct (Bool.eqb b (s_shared st)); [apply frame_refl|]. destruct b.
  - destruct (s_name st =? 0); [apply frame_refl|]. destruct (find_prop _ _ _ _ _); [apply frame_refl|].
    cbn [fst]. apply frame_upd_st. exact Hs.
  - destruct (set_persistent_s m1 s false w) as [w1 res] eqn:SP. cbn [fst].
    assert (E1 : w1 = fst (set_persistent_s m1 s false w)) by (rewrite SP; reflexivity).
    subst w1. eapply frame_trans; [apply frame_set_persistent_s; exact Hs|].
    apply frame_upd_st. apply owned_by_set_persistent_s. exact Hs.
Qed.

Lemma frame_drop_handle m1 w h : (forall s, get_h w h = Some s -> owned_by m1 w s) -> frame m1 w (drop_handle h w).
Proof.
  intros H. unfold drop_handle. destruct (get_h w h) as [s|] eqn:E; [|apply frame_refl].
  eapply frame_trans; [apply frame_kill_handle|]. apply frame_release. intros st Hs. apply (H s eq_refl). exact Hs.
Qed.

Lemma frame_append_mesh w x : frame (length (meshes w)) w (with_meshes (meshes w ++ [x]) w).
Proof.
  split.
  - intros m2 N. rewrite get_mesh_app. destruct (Nat.eqb_spec m2 (length (meshes w))); [congruence|reflexivity].
  - intros s st m2 _ H _. exact H.
Qed.

Lemma frame_make_prop X w m w' p : inv_x X w -> make_prop m w = Some (w', p) -> frame m w w'.
Proof.
  intros I MP. destruct (make_prop_spec _ _ _ _ _ I MP) as [_ [_ [_ [H1 [_ [H2 _]]]]]]. split.
  - intros m2 N. apply H1; exact N.
  - intros s st m2 _ Hs _. apply H2; exact Hs.
Qed.

Lemma frame_clone_spec m' l w res r' : clone_spec m' l w res r' -> frame m' w res.
Proof.
  intros [C1 C2 _ _]. split.
  - intros m2 N. apply C2; exact N.
  - intros s st m2 _ Hs _. apply C1; exact Hs.
Qed.

Lemma frame_copy_positions m1 sp dp w w' : owned_by m1 w dp -> copy_positions sp dp w = Some w' -> frame m1 w w'.
Proof.
  intros Hd. unfold copy_positions. destruct (get_st w sp); [|discriminate]. destruct (get_st w dp); [|discriminate].
  destruct (_ <=? _); [|discriminate]. intros E; inversion E; subst. apply frame_upd_st. exact Hd.
Qed.

Lemma frame_set_tracker_none m1 w s : owned_by m1 w s -> frame m1 w (set_tracker s None w).
Proof.
  intros Hs. split.
  - intros m2 N. destruct (get_st w s) as [st|] eqn:E.
    + rewrite (get_mesh_set_tracker w s None st m2 E). cbn [opt_is].
      destruct (Hs _ E) as [O|O]; rewrite O; cbn [opt_is].
      * replace (m1 =? m2) with false by (symmetry; apply Nat.eqb_neq; congruence). destruct (get_mesh w m2); reflexivity.
      * destruct (get_mesh w m2); reflexivity.
    + unfold set_tracker. rewrite E. reflexivity.
  - intros x st m2 N Hx Ox. rewrite get_st_set_tracker. destruct (Nat.eqb_spec x s); subst; auto.
    destruct (Hs _ Hx); congruence.
Qed.

Lemma owned_by_set_tracker_none m1 w s x : owned_by m1 w x -> owned_by m1 (set_tracker s None w) x.
Proof.
  intros H st'. rewrite get_st_set_tracker. destruct (Nat.eqb_spec x s); subst; [|apply H].
  destruct (get_st w s); simpl; intros G; inversion G; subst. simpl. auto.
Qed.

Lemma owned_by_release m1 w s x : owned_by m1 w x -> owned_by m1 (release s w) x.
Proof. intros H st'. rewrite get_st_release. destruct (_ && _); [discriminate|apply H]. Qed.

Lemma frame_detach m1 w s : owned_by m1 w s -> frame m1 w (detach m1 s w).
Proof.
  intros Hs. unfold detach, pers_erase.
  eapply frame_trans; [apply frame_set_tracker_none; exact Hs|].
  eapply frame_trans; [apply frame_upd_mesh|].
  apply frame_release. apply owned_by_upd_mesh. apply owned_by_set_tracker_none. exact Hs.
Qed.

Lemma owned_by_detach m1 w m s x : owned_by m1 w x -> owned_by m1 (detach m s w) x.
Proof.
  intros H. unfold detach, pers_erase. apply owned_by_release. apply owned_by_upd_mesh. apply owned_by_set_tracker_none. exact H.
Qed.

Lemma frame_destroy_mesh w m : inv w -> frame m w (fst (destroy_mesh m w)).
Proof.
  intros I. unfold destroy_mesh. destruct (get_mesh w m) as [r|] eqn:Hm; [|apply frame_refl].
  pose proof (inv_drop_pos w m r I Hm) as I2. unfold release_opt in I2.
  set (w2 := match m_pos r with Some p => release p (upd_mesh m (with_pos None) w) | None => upd_mesh m (with_pos None) w end) in *.
  assert (F2 : frame m w w2).
  { unfold w2. destruct (m_pos r) as [p|] eqn:Hp; [|apply frame_upd_mesh].
    eapply frame_trans; [apply frame_upd_mesh|]. apply frame_release. apply owned_by_upd_mesh.
    intros st Hs. destruct (iv_pos _ _ I _ _ _ Hm Hp) as [y [Hy Oy]]. rewrite Hs in Hy. inversion Hy; subst. auto. }
  destruct (get_mesh w2 m) as [r2|] eqn:H2; [|apply frame_refl].
  assert (P2 : m_pos r2 = None).
  { assert (H1 : get_mesh (upd_mesh m (with_pos None) w) m = Some (with_pos None r)) by (rewrite get_mesh_upd_mesh, Nat.eqb_refl, Hm; reflexivity).
    unfold w2 in H2. destruct (m_pos r).
    - destruct (get_mesh_release_inv _ _ _ _ H2) as [r0 [E0 [_ [E2 _]]]]. rewrite H1 in E0. inversion E0; subst. exact E2.
    - rewrite H1 in H2. inversion H2; subst. reflexivity. }
  destruct (inv_fold_detach m (m_tracked r2) w2 r2 I2 H2 eq_refl P2) as [I3 [r3 [H3 [T3 [Pe3 Po3]]]]].
  destruct (frame_fold (fun w s => detach m s w) (fun w0 => forall x, In x (m_tracked r2) -> owned_by m w0 x) m (m_tracked r2)) with (w := w2) as [F3 _].
  { intros w0 a Ha P0. split; [apply frame_detach; apply P0; exact Ha|]. intros x Hx. apply owned_by_detach. apply P0. exact Hx. }
  { intros x Hx st Hs. apply (iv_tracked _ _ I2 _ _ x H2) in Hx. destruct Hx as [y [Hy Oy]]. rewrite Hs in Hy. inversion Hy; subst. auto. }
  set (w3 := fold_left (fun w s => detach m s w) (m_tracked r2) w2) in *.
  cbn [fst]. rewrite H3, Pe3. cbn [fold_left].
  eapply frame_trans; [exact F2|]. eapply frame_trans; [exact F3|]. eapply frame_trans; [apply frame_upd_mesh|].
  split.
  - intros m2 N. rewrite get_mesh_kill. destruct (Nat.eqb_spec m2 m); [congruence|reflexivity].
  - intros s st m2 _ Hs _. exact Hs.
Qed.

Lemma frame_scatter_k w0 r s' m w k :
  (forall x, In x (tracked_k w0 r k) -> owned_by m w x) ->
  frame m w (scatter_k w0 r s' w k) /\ (forall y, owned_by m w y -> owned_by m (scatter_k w0 r s' w k) y).
Proof.
  unfold scatter_k. generalize (props k s'). generalize (tracked_k w0 r k). intros l. revert w.
  induction l as [|a t IH]; intros w ps H; simpl.
  - split; [apply frame_refl|auto].
  - destruct ps as [|pa ps]; simpl; [split; [apply frame_refl|auto]|].
    assert (O1 : forall y, owned_by m w y -> owned_by m (upd_st a (with_data (pdata pa)) w) y).
    { intros y Hy. apply owned_by_upd_st; auto. }
    destruct (IH (upd_st a (with_data (pdata pa)) w) ps) as [F1 P1].
    { intros x Hx. apply O1. apply H. right; exact Hx. }
    split.
    + eapply frame_trans; [apply frame_upd_st; apply H; left; reflexivity|exact F1].
    + intros y Hy. apply P1. apply O1. exact Hy.
Qed.

Lemma frame_kernel_op w m o : inv w -> frame m w (fst (kernel_op m o w)).
Proof.
  intros I. unfold kernel_op. destruct (get_mesh w m) as [r|] eqn:Hm; [|apply frame_refl].
  destruct (kernel_allowed o); [|apply frame_refl].
  destruct (step (load_props w r) o) as [s' ret|] eqn:St; [|apply frame_refl].
  cbn [fst].
  assert (Ow : forall k x, In x (tracked_k w r k) -> owned_by m w x).
  { intros k x Hx st Hs. unfold tracked_k in Hx. apply filter_In in Hx. destruct Hx as [Hx _].
    apply (iv_tracked _ _ I _ _ x Hm) in Hx. destruct Hx as [y [Hy Oy]]. rewrite Hs in Hy. inversion Hy; subst. auto. }
  assert (F1 : forall l w0, (forall y, owned_by m w y -> owned_by m w0 y) ->
                            frame m w0 (fold_left (scatter_k w r s') l w0)).
  { induction l as [|k t IH]; intros w0 H0; simpl; [apply frame_refl|].
    destruct (frame_scatter_k w r s' m w0 k) as [Fa Pa]; [intros x Hx; apply H0; eapply Ow; eauto|].
    eapply frame_trans; [exact Fa|]. apply IH. intros y Hy. apply Pa. apply H0. exact Hy. }
  assert (F2 : frame m w (upd_mesh m (with_k (strip s')) (fold_left (scatter_k w r s') all_kinds w))).
  { eapply frame_trans; [apply F1; auto|apply frame_upd_mesh]. }
  assert (I2 : inv (upd_mesh m (with_k (strip s')) (fold_left (scatter_k w r s') all_kinds w))).
  { eapply inv_sim; [eapply kernel_op_sim; eauto|exact I]. }
  destruct o; auto. destruct clear_props; auto.
  eapply frame_trans; [exact F2|]. apply frame_clear_all_props. exact I2.
Qed.

Lemma frame_new_mesh w : inv w -> frame (length (meshes w)) w (fst (new_mesh w)).
Proof.
  intros I. unfold new_mesh. set (m := length (meshes w)). set (w1 := with_meshes (meshes w ++ [Some mesh_new]) w).
  assert (I1 : inv w1) by (apply inv_append_mesh; exact I).
  destruct (make_prop m w1) as [[w2 p]|] eqn:MP; [|apply frame_refl]. cbn [fst].
  eapply frame_trans; [apply frame_append_mesh|]. eapply frame_trans; [eapply frame_make_prop; eauto|]. apply frame_upd_mesh.
Qed.

Lemma frame_copy_mesh w src : inv w -> frame (length (meshes w)) w (fst (copy_mesh src w)).
Proof.
  intros I. unfold copy_mesh. destruct (get_mesh w src) as [rs|] eqn:Hs; [|apply frame_refl].
  set (m := length (meshes w)). set (w1 := with_meshes (meshes w ++ [Some mesh_new]) w).
  assert (I1 : inv w1) by (apply inv_append_mesh; exact I).
  assert (M1 : get_mesh w1 m = Some mesh_new) by (unfold w1; rewrite get_mesh_app; fold m; rewrite Nat.eqb_refl; reflexivity).
  assert (Ne : src <> m) by (apply get_mesh_lt in Hs; unfold m; lia).
  assert (S1 : get_mesh w1 src = Some rs).
  { unfold w1. rewrite get_mesh_app. fold m. destruct (Nat.eqb_spec src m); [congruence|exact Hs]. }
  assert (Hns : forall s2 st2, get_st w1 s2 = Some st2 -> s_owner st2 = Some m -> s_shared st2 = false).
  { intros s2 st2 H2 O2. exfalso. assert (In s2 (m_tracked mesh_new)) by (apply (iv_tracked _ _ I1 _ _ s2 M1); eauto). destruct H. }
  destruct (clone_persistent_from_spec w1 m src rs mesh_new I1 Ne S1 M1 Hns) as [I2 CS].
  set (w2 := clone_persistent_from m src w1) in *.
  set (w3 := upd_mesh m (with_k (m_k rs)) w2).
  assert (I3 : inv w3) by (eapply inv_sim; [apply sim_upd_mesh; intros; apply mrec_eq_with_k|exact I2]).
  destruct (make_prop m w3) as [[w4 p]|] eqn:MP; [|apply frame_refl].
  destruct (make_prop_spec _ _ _ _ _ I3 MP) as [_ [[stp [Hp Ho]] _]].
  destruct (m_pos rs) as [sp|]; [|apply frame_refl].
  destruct (copy_positions sp p (upd_mesh m (with_pos (Some p)) w4)) as [w6|] eqn:CP; [|apply frame_refl].
  cbn [fst].
  eapply frame_trans; [apply frame_append_mesh|]. eapply frame_trans; [eapply frame_clone_spec; eauto|].
  eapply frame_trans; [apply frame_upd_mesh|]. eapply frame_trans; [eapply frame_make_prop; eauto|].
  eapply frame_trans; [apply frame_upd_mesh|]. eapply frame_copy_positions; eauto.
  apply owned_by_upd_mesh. intros st Hst. rewrite Hp in Hst. inversion Hst; subst. auto.
Qed.

Lemma frame_resize_tracked w m cnt : inv w -> frame m w (resize_tracked m cnt w).
Proof.
  intros I. unfold resize_tracked. destruct (get_mesh w m) as [r|] eqn:Hm; [|apply frame_refl].
  destruct (frame_fold (fun w s => upd_st s (fun st => with_data (resize (cnt (s_kind st)) (s_def st) (s_data st)) st) w)
                       (fun w0 => forall x, In x (m_tracked r) -> owned_by m w0 x) m (m_tracked r)) with (w := w) as [F _]; auto.
  - intros w0 a Ha P0. split; [apply frame_upd_st; apply P0; exact Ha|].
    intros x Hx. apply owned_by_upd_st; auto.
  - intros x Hx st Hs. apply (iv_tracked _ _ I _ _ x Hm) in Hx. destruct Hx as [y [Hy Oy]]. rewrite Hs in Hy. inversion Hy; subst. auto.
Qed.

Lemma frame_assign w dst src : inv w -> frame dst w (fst (assign dst src w)).
Proof.
  intros I. unfold assign. destruct (get_mesh w dst) as [rd|] eqn:Hd; [|apply frame_refl].
  destruct (get_mesh w src) as [rs|] eqn:Hs; [|apply frame_refl].
  destruct (Nat.eqb_spec dst src) as [E|Ne].
  - destruct (temp_copy_ub dst w); apply frame_refl.
  - destruct (assign_prefix w dst src rd rs I Ne Hd Hs) as [I1 [I2 [I3 [S2 [[r2 [D2 [P2 CS]]] Hns]]]]].
    set (w1 := clear_all_props dst w) in *.
    set (w2 := resize_tracked dst (fun k => count k (m_k rs)) w1) in *.
    set (w3 := clone_persistent_from dst src w2) in *.
    assert (F3 : frame dst w w3).
    { eapply frame_trans; [apply frame_clear_all_props; exact I|].
      eapply frame_trans; [apply frame_resize_tracked; exact I1|]. eapply frame_clone_spec; eauto. }
    destruct CS as [_ _ _ CN]. destruct CN as [ids [r3 [R1 _]]].
    set (w4 := upd_mesh dst (with_k (m_k rs)) w3) in *.
    assert (I4 : inv w4) by (eapply inv_sim; [apply sim_upd_mesh; intros; apply mrec_eq_with_k|exact I3]).
    assert (M4 : get_mesh w4 dst = Some (with_k (m_k rs) r3)) by (unfold w4; rewrite get_mesh_upd_mesh, Nat.eqb_refl, R1; reflexivity).
    destruct (make_prop dst w4) as [[w5 p]|] eqn:MP; [|apply frame_refl].
    destruct (make_prop_spec _ _ _ _ _ I4 MP) as [I5 [[stp [Hp Ho]] [Hm5 _]]].
    destruct (Hm5 _ M4) as [r5 [H5 [P5 _]]]. rewrite H5.
    set (w6 := upd_mesh dst (with_pos (Some p)) w5).
    set (w7 := match m_pos r5 with Some o => release o w6 | None => w6 end).
    assert (F7 : frame dst w w7).
    { eapply frame_trans; [exact F3|]. eapply frame_trans; [apply frame_upd_mesh|].
      eapply frame_trans; [eapply frame_make_prop; eauto|]. eapply frame_trans; [apply frame_upd_mesh|].
      unfold w7. destruct (m_pos r5) as [o|] eqn:Po; [|apply frame_refl].
      apply frame_release. apply owned_by_upd_mesh. intros st Hst.
      destruct (iv_pos _ _ I5 _ _ _ H5 Po) as [y [Hy Oy]]. rewrite Hst in Hy. inversion Hy; subst. auto. }
    destruct (m_pos rs) as [sp|]; [|apply frame_refl].
    destruct (copy_positions sp p w7) as [w8|] eqn:CP; [|apply frame_refl].
    destruct (temp_copy_ub dst w8); [apply frame_refl|]. cbn [fst].
    eapply frame_trans; [exact F7|]. eapply frame_copy_positions; eauto.
    intros st Hst. unfold w7 in Hst. 
    assert (G : get_st w5 p = Some st \/ True) by auto.
    destruct (m_pos r5) as [o|]; [rewrite get_st_release in Hst; destruct (_ && _); [discriminate|]|];
      unfold w6 in Hst; rewrite get_st_upd_mesh, Hp in Hst; inversion Hst; subst; auto.
Qed.

(* Whatever an operation does, it changes no mesh record other than its target's and no storage attached to another mesh. *)
Theorem frame_rstep w o m1 :
  inv w -> op_ok w o -> (forall t, op_target w o = Some t -> t = m1) -> frame m1 w (fst (rstep w o)).
Proof.
  intros I Hok Ht.
  assert (OH : forall h s, owner_of_handle w h = None \/ owner_of_handle w h = Some m1 -> get_h w h = Some s -> owned_by m1 w s).
  { intros h s H Hh st Hs. unfold owner_of_handle in H. rewrite Hh, Hs in H. destruct H as [H|H]; auto. }
  assert (TH : forall h, op_target w o = owner_of_handle w h -> owner_of_handle w h = None \/ owner_of_handle w h = Some m1).
  { intros h E. destruct (owner_of_handle w h) as [t|] eqn:E2; [right; f_equal; apply Ht; exact E|left; reflexivity]. }
  destruct o; unfold rstep; simpl in Ht;
    try (assert (m = m1) by (apply Ht; reflexivity); subst m).
  - rewrite <- (Ht _ eq_refl). apply frame_new_mesh; exact I.
  - rewrite <- (Ht _ eq_refl). apply frame_copy_mesh; exact I.
  - rewrite <- (Ht _ eq_refl). apply frame_assign; exact I.
  - apply frame_destroy_mesh; exact I.
  - apply frame_kernel_op; exact I.
  - destruct (get_mesh w m1) as [r|]; [|apply frame_refl].
    destruct (find_prop w m1 k t n); [apply frame_new_handle|].
    destruct (create w m1 r k t n d (negb (n =? 0))) as [w1 s] eqn:C. rewrite fst_ret_handle.
    eapply frame_trans; [|apply frame_new_handle]. replace w1 with (fst (create w m1 r k t n d (negb (n =? 0)))) by (rewrite C; reflexivity).
    apply frame_create.
  - destruct (get_mesh w m1) as [r|]; [|apply frame_refl]. destruct (n =? 0); [apply frame_refl|].
    destruct (find_prop w m1 k t n); [apply frame_refl|].
    destruct (create w m1 r k t n d true) as [w1 s] eqn:C. rewrite fst_ret_handle.
    eapply frame_trans; [|apply frame_new_handle]. replace w1 with (fst (create w m1 r k t n d true)) by (rewrite C; reflexivity).
    apply frame_create.
  - destruct (get_mesh w m1) as [r|]; [|apply frame_refl]. destruct (n =? 0); [apply frame_refl|].
    destruct (find_prop w m1 k t n); [apply frame_refl|].
    destruct (create w m1 r k t n d true) as [w1 s] eqn:C.
    destruct (new_handle s w1) as [w2 h] eqn:NH. cbn [fst].
    assert (E1 : w1 = fst (create w m1 r k t n d true)) by (rewrite C; reflexivity).
    assert (E2 : s = length (heap w)) by (rewrite create_eq in C; inversion C; reflexivity).
    assert (E3 : w2 = fst (new_handle s w1)) by (rewrite NH; reflexivity).
    clear C NH. subst w2. subst w1.
    eapply frame_trans; [apply frame_create|]. eapply frame_trans; [apply frame_new_handle|].
    apply frame_set_persistent_s. intros st Hs.
    change (get_st (fst (new_handle s (fst (create w m1 r k t n d true)))) s) with (get_st (fst (create w m1 r k t n d true)) s) in Hs.
    rewrite get_st_create, E2, Nat.eqb_refl in Hs. inversion Hs; subst. simpl. auto.
  - destruct (get_mesh w m1) as [r|]; [|apply frame_refl].
    destruct (create w m1 r k t n d false) as [w1 s] eqn:C. rewrite fst_ret_handle.
    eapply frame_trans; [|apply frame_new_handle]. replace w1 with (fst (create w m1 r k t n d false)) by (rewrite C; reflexivity).
    apply frame_create.
  - destruct (get_mesh w m1); [|apply frame_refl]. destruct (find_prop w m1 k t n); [apply frame_new_handle|apply frame_refl].
  - destruct (get_mesh w m1); apply frame_refl.
  - destruct (get_mesh w m1) as [r|]; [|apply frame_refl]. destruct (get_h w h) as [s|] eqn:Hh; [|apply frame_refl].
    apply frame_set_shared_s. intros st Hs. left. eapply Hok; eauto.
  - destruct (get_mesh w m1) as [r|]; [|apply frame_refl]. destruct (get_h w h) as [s|] eqn:Hh; [|apply frame_refl].
    apply frame_set_persistent_s. intros st Hs. left. eapply Hok; eauto.
  - destruct (get_h w h) as [s|] eqn:Hh; [|apply frame_refl]. cbn [fst]. apply frame_upd_st.
    eapply OH; eauto. apply TH. reflexivity.
  - destruct (get_h w h); [apply frame_new_handle|apply frame_refl].
  - destruct (get_h w h); [|apply frame_refl]. rewrite fst_ret_handle.
    eapply frame_trans; [apply frame_kill_handle|apply frame_new_handle].
  - destruct (get_h w h) as [s|] eqn:Hh; [|apply frame_refl]. cbn [fst]. apply frame_drop_handle.
    intros s0 E. eapply OH; eauto. apply TH. reflexivity.
  - destruct (get_h w h) as [s|] eqn:Hh; [|apply frame_refl]. destruct (get_st w s) as [st|] eqn:Hs; [|apply frame_refl].
    destruct (i <? _); [|apply frame_refl]. cbn [fst]. apply frame_upd_st. eapply OH; eauto. apply TH. reflexivity.
  - destruct (get_mesh w m1) as [r|]; [|apply frame_refl]. destruct (m_pos r); [apply frame_new_handle|apply frame_refl].
  - destruct (get_mesh w m1); [|apply frame_refl]. cbn [fst]. apply frame_clear_props; exact I.
  - destruct (get_mesh w m1); [|apply frame_refl]. cbn [fst]. apply frame_clear_all_props; exact I.
  - destruct (get_mesh w m1); apply frame_refl.
  - destruct (get_mesh w m1); apply frame_refl.
Qed.
