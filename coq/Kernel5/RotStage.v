(* Kernel5/RotStage.v -- the stage lemma for reorder_edges in terms of rstate (rot_on + exactness of the fan edges), and the notion
   of exactness the cores start from:
     inc_exact P s   every edge that has a present incident halfface has an exact cache (what the cache invariant ginv gives) *)
From Coq Require Import ZArith Lia Bool Arith List ZifyNat ZifyBool Permutation.
From OVM Require Import Base.ListX Kernel.State Kernel.Ops Kernel.Mirror Kernel.Closure Kernel.ExactInv
                        Kernel2.LookupModel Kernel2.ListAux Kernel2.AdjacentProofs Kernel2.RotationProofs Kernel2.ReorderExact
                        Kernel3.GcDefs
                        Kernel5.RotDefs Kernel5.RotTransfer Kernel5.RotReorder Kernel5.RotFrame Kernel5.RotExact.
Import ListNotations.
Ltac Zify.zify_post_hook ::= Z.div_mod_to_equations.
Local Open Scope nat_scope.

Definition inc_exact (P : nat -> Prop) (s : mesh) : Prop := forall e x, inc_on P s (2 * e) x -> exact_on P s e.

Lemma inc_exact_fan P s : inc_exact P s -> fan_exact P s.
Proof. intros H e F. destruct (fan_on_witness P s e F) as [x Hx]. exact (H e x Hx). Qed.

Lemma rinv_inc_exact s : rinv s -> ebu s = true -> fbu s = true -> inc_exact (livef s) s.
Proof.
  intros G E F e x Hx. apply rinv_exact_on; auto. destruct G as (_ & _ & R & _). exact (inc_edge_lt s e x R Hx).
Qed.

Lemma inc_exact_ext (P Q : nat -> Prop) s : (forall f, P f <-> Q f) -> inc_exact P s -> inc_exact Q s.
Proof.
  intros H X e x Hx. apply (exact_on_ext P Q); [exact H|]. apply (X e x). apply (inc_on_ext Q P); [symmetry; apply H|exact Hx].
Qed.

Lemma rinv_rstate s : rinv s -> ebu s = true -> fbu s = true -> rot_all s -> rstate (livef s) s.
Proof. intros G E F R. split; [exact (R E F)|]. apply inc_exact_fan, rinv_inc_exact; assumption. Qed.

(* reorder_edges on a duplicate-free list: the edges in the list need an exact cache if they are fans; the others must be in
   order already *)
Theorem rstate_reorder_edges P es s :
  NoDup es -> (forall e, fan_on P s e -> exact_on P s e) ->
  (forall e, ~ In e es -> exact_on P s e -> fan_on P s e -> rot_ok s e) ->
  rstate P (reorder_edges es s).
Proof.
  intros Nd Hex Hout. split; [apply rot_on_reorder_edges; auto|].
  intros e F.
  assert (Fs : fan_on P s e) by (apply (fan_on_same_reads P s (reorder_edges es s) e); [apply reorder_edges_is_set|exact F]).
  destruct (in_dec Nat.eq_dec e es) as [Hin|Hnin].
  - apply exact_on_after_reorder_edges; auto.
  - destruct (reorder_edges_not_in es s e Hnin) as [A0 A1].
    apply (exact_on_same_slots P s (reorder_edges es s) e); [apply reorder_edges_is_set|exact A0|exact A1|apply Hex; exact Fs].
Qed.

Theorem rstate_reorder_edges_all P es s : NoDup es -> rstate P s -> rstate P (reorder_edges es s).
Proof. intros Nd [R X]. apply rstate_reorder_edges; auto. Qed.

Theorem rstate_reorder_one P e s : rstate P s -> rstate P (reorder_incident_halffaces e s).
Proof.
  intros R. change (reorder_incident_halffaces e s) with (reorder_edges [e] s). apply rstate_reorder_edges_all; [|exact R].
  constructor; [intros []|constructor].
Qed.

(* any list (duplicates allowed): one call at a time *)
Theorem rstate_reorder_edges_any P es : forall s, rstate P s -> rstate P (reorder_edges es s).
Proof.
  induction es as [|e es IH]; intros s R; [exact R|]. rewrite reorder_edges_cons. apply IH, rstate_reorder_one, R.
Qed.

(* rot_all from rstate *)
Lemma rot_all_of_rstate P s : (forall f, P f <-> livef s f) -> rstate P s -> rot_all s.
Proof. intros H [R _] _ _. exact (rot_on_ext P (livef s) s H R). Qed.
