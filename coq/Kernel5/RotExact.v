(* Kernel5/RotExact.v -- where cache exactness (exact_on) comes from: the cache invariant ginv (Kernel3/GcDefs.v) with both incidence
   kinds on gives exact_on (livef s) s e for every edge in range, and a fan edge is in range. *)
From Coq Require Import ZArith Lia Bool Arith List ZifyNat ZifyBool Permutation.
From OVM Require Import Base.ListX Kernel.State Kernel.Ops Kernel.Mirror Kernel.Recompute Kernel.Closure Kernel.ExactInv
                        Kernel2.LookupModel Kernel2.ListAux Kernel2.AdjacentProofs Kernel2.RotationProofs Kernel2.ReorderExact
                        Kernel3.GcDefs Kernel3.GcInv Kernel5.RotDefs.
Import ListNotations.
Ltac Zify.zify_post_hook ::= Z.div_mod_to_equations.
Local Open Scope nat_scope.

Lemma livef_spec s f : livef s f <-> f < nf s /\ f_deleted s f = false.
Proof. unfold livef, live_f. rewrite andb_true_iff, Nat.ltb_lt, negb_true_iff. tauto. Qed.

(* a halfedge of a halfface is a halfedge of the face, up to orientation; so its edge is an edge of the face *)
Lemma In_halfface_edge s x h : In h (halfface s x) -> In (h / 2) (map (fun y => y / 2) (face_at s (x / 2))).
Proof.
  intros H. apply In_halfface in H. destruct (Nat.even x).
  - apply in_map_iff. exists h. auto.
  - apply in_map_iff. exists (opp h). split; [apply opp_div2|exact H].
Qed.

Lemma In_halfface_range s x h : refs_ok s -> livef s (x / 2) -> In h (halfface s x) -> h < 2 * ne s.
Proof.
  intros (_ & R & _) L H. apply livef_spec in L. destruct L as [L1 L2]. apply In_halfface in H. destruct (Nat.even x).
  - exact (R _ L1 L2 h H).
  - pose proof (R _ L1 L2 (opp h) H) as T. rewrite opp_spec in T. lia.
Qed.

Lemma fan_edge_lt s e : refs_ok s -> fan_on (livef s) s e -> e < ne s.
Proof.
  intros R (l & Hne & _ & Ml & _). destruct l as [|x l]; [congruence|].
  destruct (proj1 (Ml x) (or_introl eq_refl)) as [L I]. pose proof (In_halfface_range s x (2 * e) R L I). lia.
Qed.

(* the membership form of ebu_ok is inc_on (livef s) *)
Lemma ebu_ok_inc_on s h x : ebu_ok s -> ebu s = true -> h < 2 * ne s -> (In x (hfs_at s h) <-> inc_on (livef s) s h x).
Proof. intros EO E Hh. rewrite (EO E h Hh x). unfold inc_on. rewrite livef_spec. tauto. Qed.

Lemma NoDup_map_opp l : NoDup l -> NoDup (map opp l).
Proof.
  intros Nd. induction Nd as [|x t Hx Nd IH]; cbn [map]; constructor; [|exact IH].
  intros Hin. apply in_map_iff in Hin. destruct Hin as [y [E Hy]]. apply opp_inj in E. subst. contradiction.
Qed.

Theorem exact_on_of_caches s e :
  ebu s = true -> ebu_ok s -> slots_nodup s -> e < ne s -> exact_on (livef s) s e.
Proof.
  intros E EO SN He.
  assert (M0 : forall x, In x (hfs_at s (2 * e)) <-> inc_on (livef s) s (2 * e) x) by (intros x; apply ebu_ok_inc_on; auto; lia).
  assert (M1 : forall x, In x (hfs_at s (2 * e + 1)) <-> inc_on (livef s) s (2 * e + 1) x) by (intros x; apply ebu_ok_inc_on; auto; lia).
  split; [apply SN; lia|]. split; [exact M0|]. split; [exact M1|].
  rewrite <- (map_length opp (hfs_at s (2 * e))). apply NoDup_same_length.
  - apply SN. lia.
  - apply NoDup_map_opp. apply SN. lia.
  - intros x. rewrite M1, in_map_iff. split.
    + intros I. exists (opp x). split; [apply opp_involutive|]. apply M0. apply inc_on_odd. exact I.
    + intros [y [<- Hy]]. apply inc_on_odd. rewrite opp_involutive. apply M0. exact Hy.
Qed.

(* what the proofs of this directory need of a state: the part of the cache invariants (ginv of Kernel3/GcDefs.v, shift_inv2 of
   Kernel/ShiftFace.v) that speaks about faces, cells and the two caches read by the walk *)
Definition rinv (s : mesh) : Prop :=
  ebu_ok s /\ fbu_ok s /\ refs_ok s /\ lens_ok s /\ cells_ref_live s /\ (ebu s = true -> fbu s = true -> slots_nodup s).

Lemma ginv_rinv s : ginv s -> rinv s.
Proof.
  intros G. pose proof (Kernel3.GcInv.ginv_cells_ref_live s G) as C. destruct G as ((_ & EO & FO & R & L) & _ & _ & X).
  exact (conj EO (conj FO (conj R (conj L (conj C (fun E F => proj1 (X E F))))))).
Qed.

Theorem rinv_exact_on s e : rinv s -> ebu s = true -> fbu s = true -> e < ne s -> exact_on (livef s) s e.
Proof. intros (EO & _ & _ & _ & _ & X) E F He. apply exact_on_of_caches; auto. Qed.

Theorem rinv_fan_exact s e : rinv s -> ebu s = true -> fbu s = true -> fan_on (livef s) s e -> exact_on (livef s) s e.
Proof.
  intros G E F Fa. apply rinv_exact_on; auto. apply fan_edge_lt; [|exact Fa]. destruct G as (_ & _ & R & _). exact R.
Qed.

(* what fbu_ok says about a halfface that is not open *)
Lemma not_open_cell_live s x : fbu s = true -> fbu_ok s -> x < 2 * nf s -> hf_is_open s x = false ->
  exists c, cell_of s x = Some c /\ c < nc s /\ c_deleted s c = false /\ In x (cell_at s c).
Proof.
  intros F FO Hx O. unfold hf_is_open in O. destruct (cell_of s x) as [c|] eqn:E; [|discriminate].
  exists c. split; [reflexivity|]. destruct (proj1 (FO F x Hx c) E) as (A & B & C). auto.
Qed.

Lemma inc_on_lt s h x : inc_on (livef s) s h x -> x < 2 * nf s.
Proof. intros [L _]. apply livef_spec in L. lia. Qed.

Lemma fan_on_witness P s e : fan_on P s e -> exists x, inc_on P s (2 * e) x.
Proof. intros (l & Hne & _ & Ml & _). destruct l as [|x l]; [congruence|]. exists x. apply Ml. left. reflexivity. Qed.

Lemma inc_edge_lt s e x : refs_ok s -> inc_on (livef s) s (2 * e) x -> e < ne s.
Proof. intros R [L I]. pose proof (In_halfface_range s x (2 * e) R L I). lia. Qed.
