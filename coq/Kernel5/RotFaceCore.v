(* Kernel5/RotFaceCore.v -- C09 at history level, step 4 (faces): delete_face_core keeps the rotational order.
   The core is  [swap_face_indices h0 last] ; the loop over the halfedges of the face (take the two halffaces out of the two lists of
   the halfedge, reorder the edge) ; [flag | remove the face, shifting the halfface handles (non-fast) | remove the last face (fast)].
   After the loop the face is still stored and not flagged, but it has left the lists: the incidence predicate of this stage is
   "present and not the dying face" (without P h).
     face_mid_stage   the loop over a SIMPLE face (no halfedge twice, none with its opposite): every edge of the face is re-ordered
                      after the removal, so C09_reorder_post (list form) applies to it; the other edges keep lists and reads
     face_tail_stage  flag / remove: a renaming of the halfface handles (cor2) that commutes with everything read *)
From Coq Require Import ZArith Lia Bool Arith List ZifyNat ZifyBool Permutation.
From OVM Require Import Base.ListX Base.ListLemmas Kernel.State Kernel.Ops Kernel.Mirror Kernel.Recompute Kernel.Closure Kernel.ExactInv
                        Kernel.Construct Kernel.ExactDelete Kernel.SwapEffects Kernel.SwapFaceCache Kernel.ShiftFace Kernel.ShiftCompose
                        Kernel2.LookupModel Kernel2.ListAux Kernel2.AdjacentProofs Kernel2.RotationProofs Kernel2.ReorderExact
                        Kernel2.ExactBase Kernel2.ExactDelFace Kernel3.GcDefs Kernel3.GcInv Kernel3.FastDefs Kernel3.FastBase Kernel3.FastFace Kernel5.RotSwap
                        Kernel5.RotDefs Kernel5.RotTransfer Kernel5.RotAdj Kernel5.RotReorder Kernel5.RotFrame Kernel5.RotExact
                        Kernel5.RotRename Kernel5.RotStage Kernel5.RotFlags Kernel5.RotCellCore.
Import ListNotations.
Ltac Zify.zify_post_hook ::= Z.div_mod_to_equations.
Local Open Scope nat_scope.

(* the incidence predicate without face h *)
Definition without (P : nat -> Prop) (h : nat) (f : nat) : Prop := P f /\ f <> h.

Definition face_mid (h : nat) (s : mesh) : mesh := fold_left (fstep h) (face_at s h) s.

(* ================================================================== list facts *)

Lemma nth_remove_at i j x ll : nth j (remove_at i x ll) [] = if j =? i then remove_val x (nth i ll []) else nth j ll [].
Proof.
  unfold remove_at. rewrite nth_upd. destruct (Nat.eqb_spec i j) as [->|N].
  - rewrite Nat.eqb_refl. destruct (Nat.ltb_spec j (length ll)) as [H|H]; [reflexivity|].
    rewrite (nth_overflow ll) by exact H. reflexivity.
  - destruct (Nat.eqb_spec j i); [congruence|reflexivity].
Qed.

Lemma NoDup_remove_val x l : NoDup l -> NoDup (remove_val x l).
Proof. apply NoDup_filter. Qed.

Lemma slot_cases k e : k / 2 = e -> k = 2 * e \/ k = 2 * e + 1.
Proof. lia. Qed.
Lemma half_cases he k : k / 2 = he / 2 -> k = he \/ k = opp he.
Proof. rewrite opp_spec. lia. Qed.

Lemma edges_nodup_of_simple hes : simple_hes hes -> NoDup (map (fun y => y / 2) hes).
Proof.
  intros [Nd Op]. induction hes as [|a t IH]; cbn [map]; constructor.
  - intros Hin. apply in_map_iff in Hin. destruct Hin as [b [Eb Hb]].
    assert (b = a \/ b = opp a) as [->| ->] by (rewrite opp_spec; lia).
    + inversion Nd; contradiction.
    + apply (Op a (or_introl eq_refl)). right. exact Hb.
  - apply IH; [inversion Nd; assumption|]. intros x Hx Ho. apply (Op x (or_intror Hx)). right. exact Ho.
Qed.

(* exactness from duplicate-freeness of the even slot and the two membership statements *)
Lemma exact_on_intro P s e :
  NoDup (hfs_at s (2 * e)) -> NoDup (hfs_at s (2 * e + 1)) ->
  (forall x, In x (hfs_at s (2 * e)) <-> inc_on P s (2 * e) x) ->
  (forall x, In x (hfs_at s (2 * e + 1)) <-> inc_on P s (2 * e + 1) x) -> exact_on P s e.
Proof.
  intros N0 N1 M0 M1. split; [exact N0|]. split; [exact M0|]. split; [exact M1|].
  rewrite <- (map_length opp (hfs_at s (2 * e))). apply NoDup_same_length; [exact N1|apply NoDup_map_opp; exact N0|].
  intros x. rewrite M1, in_map_iff. split.
  - intros I. exists (opp x). split; [apply opp_involutive|]. apply M0. apply inc_on_odd. exact I.
  - intros [y [<- Hy]]. apply inc_on_odd. rewrite opp_involutive. apply M0. exact Hy.
Qed.

Lemma exact_on_nodup_odd P s e : exact_on P s e -> NoDup (hfs_at s (2 * e + 1)).
Proof.
  intros (N0 & M0 & M1 & Len). apply (@NoDup_incl_NoDup _ (map opp (hfs_at s (2 * e)))).
  - apply NoDup_map_opp. exact N0.
  - rewrite map_length, Len. apply Nat.le_refl.
  - intros y Hy. apply in_map_iff in Hy. destruct Hy as [x [<- Hx]]. apply M1. apply inc_on_odd. rewrite opp_involutive. apply M0. exact Hx.
Qed.

Lemma fan_on_inc_ext (P Q : nat -> Prop) s e : (forall x, inc_on P s (2 * e) x <-> inc_on Q s (2 * e) x) -> fan_on P s e -> fan_on Q s e.
Proof. intros H (l & A & B & C & D). exists l. split; [exact A|]. split; [exact B|]. split; [|exact D]. intros x. rewrite C. apply H. Qed.

Lemma exact_on_inc_ext (P Q : nat -> Prop) s e :
  (forall x, inc_on P s (2 * e) x <-> inc_on Q s (2 * e) x) -> exact_on P s e -> exact_on Q s e.
Proof.
  intros H (A & B & C & D). split; [exact A|]. split; [|split; [|exact D]]; intros x.
  - rewrite B. apply H.
  - rewrite C, !inc_on_odd. apply H.
Qed.

(* ================================================================== the loop: slots *)

Lemma fstep_is_set h t he : exists x, fstep h t he = set_inc_hfs x t.
Proof. destruct (fstep_frame h t he) as [x [E _]]. exists x. exact E. Qed.

Lemma fold_fstep_is_set h hes t : exists x, fold_left (fstep h) hes t = set_inc_hfs x t.
Proof. destruct (fold_fstep_frame h hes t) as [x [E _]]. exists x. exact E. Qed.

Lemma fstep_other h t he e : e <> he / 2 ->
  hfs_at (fstep h t he) (2 * e) = hfs_at t (2 * e) /\ hfs_at (fstep h t he) (2 * e + 1) = hfs_at t (2 * e + 1).
Proof.
  intros N. unfold fstep. cbv zeta.
  set (u := set_inc_hfs (remove_at (opp he) (2 * h + 1) (remove_at he (2 * h) (inc_hfs t))) t).
  assert (U : forall k, k / 2 <> he / 2 -> hfs_at u k = hfs_at t k).
  { intros k Hk. unfold hfs_at, u. cbn [inc_hfs set_inc_hfs]. rewrite !nth_remove_at.
    destruct (Nat.eqb_spec k (opp he)) as [->|]; [rewrite opp_div2 in Hk; congruence|].
    destruct (Nat.eqb_spec k he) as [->|]; [congruence|reflexivity]. }
  assert (R : forall k, k / 2 <> he / 2 -> hfs_at (if fbu u then reorder_incident_halffaces (he / 2) u else u) k = hfs_at t k).
  { intros k Hk. destruct (fbu u); [|apply U; exact Hk]. rewrite reorder_other_slots by lia. apply U. exact Hk. }
  split; apply R; intros E; apply N; lia.
Qed.

Lemma fold_fstep_other h hes : forall t e, ~ In e (map (fun y => y / 2) hes) ->
  hfs_at (fold_left (fstep h) hes t) (2 * e) = hfs_at t (2 * e) /\ hfs_at (fold_left (fstep h) hes t) (2 * e + 1) = hfs_at t (2 * e + 1).
Proof.
  induction hes as [|he r IH]; intros t e N; [split; reflexivity|]. cbn [fold_left map] in *.
  destruct (IH (fstep h t he) e) as [A B]; [intros H; apply N; right; exact H|].
  destruct (fstep_other h t he e) as [C D]; [intros ->; apply N; left; reflexivity|]. rewrite A, B. split; assumption.
Qed.

(* ================================================================== the loop: the step that handles edge he / 2 *)

Section AtEdge.
Context (P : nat -> Prop) (h : nat) (s t1 : mesh) (he : nat).
Let e := he / 2.
Hypothesis Fb : fbu s = true.
Hypothesis T1 : exists x, t1 = set_inc_hfs x s.
Hypothesis S0 : hfs_at t1 (2 * e) = hfs_at s (2 * e).
Hypothesis S1 : hfs_at t1 (2 * e + 1) = hfs_at s (2 * e + 1).
Hypothesis X : exact_on P s e.
Hypothesis NoOpp : ~ In (opp he) (face_at s h).

Let u := set_inc_hfs (remove_at (opp he) (2 * h + 1) (remove_at he (2 * h) (inc_hfs t1))) t1.

Lemma ae_slot k : k / 2 = e -> hfs_at s k = hfs_at t1 k.
Proof. intros H. destruct (slot_cases k e H) as [->| ->]; symmetry; assumption. Qed.

Lemma ae_u_he : hfs_at u he = remove_val (2 * h) (hfs_at s he).
Proof.
  unfold hfs_at at 1, u. cbn [inc_hfs set_inc_hfs]. rewrite !nth_remove_at.
  destruct (Nat.eqb_spec he (opp he)) as [Q|_]; [exfalso; exact (opp_neq he (eq_sym Q))|]. rewrite Nat.eqb_refl.
  fold (hfs_at t1 he). rewrite <- ae_slot by reflexivity. reflexivity.
Qed.

Lemma ae_u_opp : hfs_at u (opp he) = remove_val (2 * h + 1) (hfs_at s (opp he)).
Proof.
  unfold hfs_at at 1, u. cbn [inc_hfs set_inc_hfs]. rewrite !nth_remove_at, Nat.eqb_refl.
  destruct (Nat.eqb_spec (opp he) he) as [Q|_]; [exfalso; exact (opp_neq he Q)|].
  fold (hfs_at t1 (opp he)). rewrite <- ae_slot by (apply opp_div2). reflexivity.
Qed.

Lemma ae_inc k x : inc_on P u k x <-> inc_on P s k x.
Proof. unfold u. destruct T1 as [y ->]. reflexivity. Qed.

(* the two halffaces of face h around the edge *)
Lemma ae_only_2h x : x / 2 = h -> (inc_on P s he x -> x = 2 * h) /\ (inc_on P s (opp he) x -> x = 2 * h + 1).
Proof.
  intros Ex. assert (x = 2 * h \/ x = 2 * h + 1) as [->| ->] by lia.
  - split; [reflexivity|]. intros [_ I]. exfalso. apply NoOpp. apply In_halfface in I.
    replace (Nat.even (2 * h)) with true in I by (symmetry; rewrite even_mod2; apply Nat.eqb_eq; lia).
    replace (2 * h / 2) with h in I by lia. exact I.
  - split; [|reflexivity]. intros [_ I]. exfalso. apply NoOpp. apply In_halfface in I.
    replace (Nat.even (2 * h + 1)) with false in I by (symmetry; rewrite even_mod2; apply Nat.eqb_neq; lia).
    replace ((2 * h + 1) / 2) with h in I by lia. exact I.
Qed.

Lemma ae_members_s k : k / 2 = e -> forall x, In x (hfs_at s k) <-> inc_on P s k x.
Proof. destruct X as (_ & M0 & M1 & _). intros H. destruct (slot_cases k e H) as [->| ->]; assumption. Qed.

Lemma ae_nodup_s k : k / 2 = e -> NoDup (hfs_at s k).
Proof.
  pose proof (exact_on_nodup_odd P s e X) as N1. destruct X as (N0 & _). intros H. destruct (slot_cases k e H) as [->| ->]; assumption.
Qed.

Lemma ae_members_u k : k = he \/ k = opp he -> forall x, In x (hfs_at u k) <-> inc_on (without P h) u k x.
Proof.
  intros Hk x. assert (W : inc_on (without P h) u k x <-> inc_on P s k x /\ x / 2 <> h).
  { pose proof (ae_inc k x) as Q. unfold inc_on, without in *. tauto. }
  rewrite W. destruct Hk as [->| ->].
  - rewrite ae_u_he, remove_val_In, (ae_members_s he eq_refl). split; intros [A B]; (split; [exact A|]).
    + intros Ex. apply B. exact (proj1 (ae_only_2h x Ex) A).
    + intros ->. apply B. lia.
  - rewrite ae_u_opp, remove_val_In, (ae_members_s (opp he) (opp_div2 he)). split; intros [A B]; (split; [exact A|]).
    + intros Ex. apply B. exact (proj2 (ae_only_2h x Ex) A).
    + intros ->. apply B. lia.
Qed.

Lemma ae_nodup_u k : k = he \/ k = opp he -> NoDup (hfs_at u k).
Proof. intros [->| ->]; [rewrite ae_u_he|rewrite ae_u_opp]; apply NoDup_remove_val; apply ae_nodup_s; [reflexivity|apply opp_div2]. Qed.

Lemma ae_exact_u : exact_on (without P h) u e.
Proof.
  assert (C0 : 2 * e = he \/ 2 * e = opp he) by (apply half_cases; unfold e; lia).
  assert (C1 : 2 * e + 1 = he \/ 2 * e + 1 = opp he) by (apply half_cases; unfold e; lia).
  apply exact_on_intro; first [apply ae_nodup_u|apply ae_members_u]; assumption.
Qed.

Lemma ae_fbu_u : fbu u = true.
Proof. unfold u. destruct T1 as [y ->]. exact Fb. Qed.

(* after the step: in order and exact, provided the edge is a fan (w.r.t. the faces other than h) *)
Lemma ae_step : fstep h t1 he = reorder_incident_halffaces e u.
Proof. unfold fstep. cbv zeta. fold u. rewrite ae_fbu_u. reflexivity. Qed.

Lemma ae_after : fan_on (without P h) u e -> rot_ok (fstep h t1 he) e /\ exact_on (without P h) (fstep h t1 he) e.
Proof.
  intros F. rewrite ae_step. split; [apply (reorder_post_on (without P h)); [exact ae_exact_u|exact F]|].
  apply exact_on_after_reorder_one; [exact ae_exact_u|exact F].
Qed.
End AtEdge.

(* ================================================================== the loop over a simple face *)

Lemma face_mid_edge P h s e :
  fbu s = true -> simple_hes (face_at s h) -> inc_exact P s -> rot_on P s ->
  fan_on (without P h) (face_mid h s) e -> rot_ok (face_mid h s) e /\ exact_on (without P h) (face_mid h s) e.
Proof.
  intros Fb Sim X R F. unfold face_mid in *. set (hes := face_at s h) in *.
  pose proof (edges_nodup_of_simple hes Sim) as Nd.
  destruct (fold_fstep_is_set h hes s) as [y Ey].
  assert (Fs : fan_on (without P h) s e) by (apply (fan_on_same_reads _ s (fold_left (fstep h) hes s) e); [exists y; exact Ey|exact F]).
  destruct (fan_on_witness _ _ _ Fs) as [x0 [[Px0 _] Ix0]].
  assert (Xe : exact_on P s e) by (apply (X e x0); split; assumption).
  destruct (in_dec Nat.eq_dec e (map (fun z => z / 2) hes)) as [Hin|Hnin].
  - apply in_map_iff in Hin. destruct Hin as [he [Ehe Hhe]]. destruct (in_split _ _ Hhe) as [pre [post Eh]].
    rewrite Eh in Nd. rewrite map_app in Nd. cbn [map] in Nd. apply NoDup_remove_2 in Nd. rewrite Ehe in Nd.
    assert (N1 : ~ In e (map (fun z => z / 2) pre)) by (intros H; apply Nd; apply in_or_app; left; exact H).
    assert (N2 : ~ In e (map (fun z => z / 2) post)) by (intros H; apply Nd; apply in_or_app; right; exact H).
    assert (NoOpp : ~ In (opp he) (face_at s h)) by (apply (proj2 Sim); exact Hhe).
    revert F Ey. rewrite Eh, fold_left_app. cbn [fold_left]. intros F Ey.
    set (t1 := fold_left (fstep h) pre s) in *.
    destruct (fold_fstep_is_set h pre s) as [y1 E1]. fold t1 in E1.
    destruct (fold_fstep_other h pre s e N1) as [S0 S1]. fold t1 in S0, S1. subst e.
    set (u := set_inc_hfs (remove_at (opp he) (2 * h + 1) (remove_at he (2 * h) (inc_hfs t1))) t1).
    set (t2 := fstep h t1 he) in *.
    destruct (fold_fstep_is_set h post t2) as [y2 E2].
    assert (Fu : fan_on (without P h) u (he / 2)).
    { apply (fan_on_same_reads _ s u); [exists (inc_hfs u); unfold u; rewrite E1; reflexivity|exact Fs]. }
    destruct (ae_after P h s t1 he Fb (ex_intro _ y1 E1) S0 S1 Xe NoOpp Fu) as [A B]. fold t2 in A, B.
    destruct (fold_fstep_other h post t2 (he / 2) N2) as [C0 C1].
    split.
    + apply (rot_ok_same_slots t2); [exists y2; exact E2|exact C0|exact C1|exact A].
    + apply (exact_on_same_slots _ t2); [exists y2; exact E2|exact C0|exact C1|exact B].
  - destruct (fold_fstep_other h hes s e Hnin) as [S0 S1].
    assert (IE : forall x, inc_on (without P h) s (2 * e) x <-> inc_on P s (2 * e) x).
    { intros x. unfold inc_on, without. split; [tauto|]. intros [Px Ix]. split; [|exact Ix]. split; [exact Px|].
      intros Eh. apply Hnin. pose proof (In_halfface_edge s x (2 * e) Ix) as T. rewrite Eh in T. replace (2 * e / 2) with e in T by lia. exact T. }
    split.
    + apply (rot_ok_same_slots s); [exists y; exact Ey|exact S0|exact S1|]. apply R; [exact Xe|].
      exact (fan_on_inc_ext _ _ s e IE Fs).
    + apply (exact_on_same_slots _ s); [exists y; exact Ey|exact S0|exact S1|].
      apply (exact_on_inc_ext P (without P h)); [intros x; symmetry; apply IE|exact Xe].
Qed.

Theorem face_mid_stage P h s :
  fbu s = true -> simple_hes (face_at s h) -> inc_exact P s -> rot_on P s -> rstate (without P h) (face_mid h s).
Proof.
  intros Fb Sim X R. split.
  - intros e _ F. exact (proj1 (face_mid_edge P h s e Fb Sim X R F)).
  - intros e F. exact (proj2 (face_mid_edge P h s e Fb Sim X R F)).
Qed.

Lemma face_mid_reads h s : exists y, face_mid h s = set_inc_hfs y s.
Proof. apply fold_fstep_is_set. Qed.

(* ================================================================== the stages, named *)

Definition face_tail (h : nat) (s1 : mesh) : mesh :=
  if deferred s1 then
    set_fdel (upd h true (fdel s1)) (set_counts (ndv s1) (nde s1) (S (ndf s1)) (ndc s1) s1)
  else
    let fixc (hfs : list nat) := map (cor2 (2 * h + 1)) (remove_val (2 * h + 1) (remove_val (2 * h) hfs)) in
    let s2 :=
      if negb (fast s1) then
        if fbu s1 then
          let upd_cells := set_of_list (flat_map (fun o => match o with Some c => [c] | None => [] end)
                                                 (skipn (2 * h) (inc_cell s1))) in
          set_cells (fold_left (fun cs c => upd c (fixc (nth c cs [])) cs) upd_cells (cells s1)) s1
        else
          set_cells (fold_left (fun cs c => upd c (fixc (nth c cs [])) cs) (live_cells s1) (cells s1)) s1
      else s1 in
    let s3 := if fbu s2 then set_inc_cell (remove_nth (2 * h) (remove_nth (2 * h + 1) (inc_cell s2))) s2 else s2 in
    let s4 := if negb (fast s3) && ebu s3 then
                set_inc_hfs (map (map (cor2 (2 * h + 1))) (inc_hfs s3)) s3
              else s3 in
    let s5 := set_fdel (remove_nth h (fdel s4)) (set_faces (remove_nth h (faces s4)) s4) in
    face_deleted h s5.

Definition face_victim (h0 : nat) (s0 : mesh) : nat := if fast s0 && negb (deferred s0) then nf s0 - 1 else h0.
Definition face_swapped (h0 : nat) (s0 : mesh) : mesh :=
  if fast s0 && negb (deferred s0) then swap_face_indices h0 (nf s0 - 1) s0 else s0.

Lemma delete_face_core_split h0 s0 : ebu s0 = true ->
  delete_face_core h0 s0 = face_tail (face_victim h0 s0) (face_mid (face_victim h0 s0) (face_swapped h0 s0)).
Proof.
  intros E. unfold delete_face_core, face_victim, face_swapped, face_mid.
  set (do_swap := fast s0 && negb (deferred s0)). set (h := if do_swap then nf s0 - 1 else h0).
  set (s := if do_swap then swap_face_indices h0 h s0 else s0).
  assert (B : bv s = bv s0) by (unfold s; destruct do_swap; [apply bv_swap_face|reflexivity]).
  assert (Es : ebu s = true) by (rewrite (bv_ebu _ _ B); exact E).
  assert (Hs : s = (if do_swap then swap_face_indices h0 (nf s0 - 1) s0 else s0)) by (unfold s, h; destruct do_swap; reflexivity).
  rewrite <- Hs. clearbody s h. rewrite Es. reflexivity.
Qed.

(* ================================================================== the tail, deferred mode: the face is flagged *)

Section TailDeferred.
Context (h : nat) (s1 : mesh).
Hypothesis D : deferred s1 = true.
Hypothesis Hh : h < nf s1.
Hypothesis LF : length (fdel s1) = nf s1.
Let t := face_tail h s1.

Lemma ftd_eq : t = flagf h s1.
Proof. unfold t, face_tail. rewrite D. reflexivity. Qed.

Lemma ftd_livef f : livef t f <-> without (livef s1) h f.
Proof.
  rewrite ftd_eq. unfold without, livef, live_f, flagf, nf, f_deleted. cbn [faces fdel set_fdel set_counts]. rewrite nth_upd.
  destruct (Nat.eqb_spec h f) as [->|N].
  - replace (f <? length (fdel s1)) with true by (symmetry; apply Nat.ltb_lt; rewrite LF; exact Hh). cbn [andb negb].
    rewrite andb_false_r. split; [discriminate|intros [_ Q]; congruence].
  - cbn [andb]. split; [intros Q; split; [exact Q|congruence]|tauto].
Qed.

Theorem face_tail_deferred : rstate (without (livef s1) h) s1 -> rstate (livef t) t.
Proof.
  intros R. apply (rstate_transfer_id (without (livef s1) h) (livef t) s1 t R). intros e _.
  split; [|rewrite ftd_eq; split; reflexivity].
  apply (edge_map_of_reads_id _ _ s1 t e (fun c => c)).
  - intros x. unfold inc_on. rewrite ftd_livef. rewrite ftd_eq. reflexivity.
  - intros x _ Ec. rewrite ftd_eq. exact Ec.
  - intros x c _ Ec. rewrite ftd_eq. split; [exact Ec|]. split; [reflexivity|]. intros _. split; [reflexivity|]. intros z _. reflexivity.
Qed.
End TailDeferred.

(* ================================================================== the tail, immediate fast mode: the LAST face goes *)

Section TailFast.
Context (h : nat) (s1 : mesh).
Hypothesis D : deferred s1 = false.
Hypothesis Fa : fast s1 = true.
Hypothesis Fb : fbu s1 = true.
Hypothesis Hh : h = nf s1 - 1.
Hypothesis Hpos : 0 < nf s1.
Hypothesis LF : length (fdel s1) = nf s1.
(* the cells that halffaces point to list halffaces of other, stored faces *)
Hypothesis FF : forall x c z, cell_of s1 x = Some c -> In z (cell_at s1 c) -> z / 2 < h.
Let t := face_tail h s1.

Lemma ftf_reads :
  faces t = remove_nth h (faces s1) /\ fdel t = remove_nth h (fdel s1) /\
  inc_cell t = remove_nth (2 * h) (remove_nth (2 * h + 1) (inc_cell s1)) /\ inc_hfs t = inc_hfs s1 /\ cells t = cells s1 /\ cdel t = cdel s1.
Proof.
  unfold t, face_tail. rewrite D. cbv zeta. rewrite Fa. cbn [negb]. rewrite Fb. cbn [fast set_inc_cell]. rewrite Fa. cbn [negb andb].
  unfold face_deleted, delete_prop_elem. repeat split.
Qed.

Lemma ftf_halfface x : x / 2 < h -> halfface t x = halfface s1 x.
Proof.
  intros Hx. destruct ftf_reads as (a & _). unfold halfface, face_at. rewrite a, nth_remove_nth.
  destruct (Nat.ltb_spec (x / 2) h); [reflexivity|lia].
Qed.

Lemma ftf_livef f : livef t f <-> without (livef s1) h f.
Proof.
  destruct ftf_reads as (a & b & _). unfold without, livef, live_f, nf, f_deleted. rewrite a, b, nth_remove_nth.
  assert (L : length (remove_nth h (faces s1)) = nf s1 - 1) by (unfold nf; apply remove_nth_length; pose proof Hh as Hh'; pose proof Hpos as Hp'; unfold nf in Hh', Hp'; lia).
  rewrite L. fold (nf s1). destruct (Nat.ltb_spec f h).
  - replace (f <? nf s1 - 1) with true by (symmetry; apply Nat.ltb_lt; lia).
    replace (f <? nf s1) with true by (symmetry; apply Nat.ltb_lt; lia). split; [intros Q; split; [exact Q|lia]|tauto].
  - replace (f <? nf s1 - 1) with false by (symmetry; apply Nat.ltb_ge; lia). cbn [andb]. split; [discriminate|].
    intros [Q N]. destruct (Nat.ltb_spec f (nf s1)); [lia|discriminate].
Qed.

Lemma ftf_cell_of x : x / 2 < h -> cell_of t x = cell_of s1 x.
Proof.
  intros Hx. destruct ftf_reads as (_ & _ & c & _). unfold cell_of. rewrite c, nth_remove_two_unshift. unfold unshift2.
  destruct (Nat.ltb_spec x (2 * h)); [reflexivity|lia].
Qed.

Theorem face_tail_fast : rstate (without (livef s1) h) s1 -> rstate (livef t) t.
Proof.
  intros R. destruct ftf_reads as (_ & _ & _ & d & e5 & e6).
  apply (rstate_transfer_id (without (livef s1) h) (livef t) s1 t R). intros e _.
  assert (Lt : forall k x, inc_on (without (livef s1) h) s1 k x -> x / 2 < h).
  { intros k x [[L N] _]. apply livef_spec in L. lia. }
  split; [|unfold hfs_at; rewrite d; split; reflexivity].
  apply (edge_map_of_reads_id _ _ s1 t e (fun c => c)).
  - intros x. unfold inc_on. rewrite ftf_livef. split; intros [A B]; (split; [exact A|]).
    + rewrite ftf_halfface; [exact B|]. destruct A as [L N]. apply livef_spec in L. lia.
    + rewrite ftf_halfface in B; [exact B|]. destruct A as [L N]. apply livef_spec in L. lia.
  - intros x Hx Ec. rewrite ftf_cell_of; [exact Ec|]. destruct Hx as [Hx|Hx]; exact (Lt _ x Hx).
  - intros x c Hx Ec. assert (Hxl : x / 2 < h) by (destruct Hx as [Hx|Hx]; exact (Lt _ x Hx)).
    split; [rewrite ftf_cell_of by exact Hxl; exact Ec|]. split; [unfold c_deleted; rewrite e6; reflexivity|]. intros _.
    split; [unfold cell_at; rewrite e5; reflexivity|]. intros z [->|Hz]; apply ftf_halfface; [exact Hxl|exact (FF x c z Ec Hz)].
Qed.
End TailFast.

(* ================================================================== the tail, immediate non-fast mode: the halfface handles above move down *)

Section TailShift.
Context (h : nat) (s1 : mesh).
Hypothesis D : deferred s1 = false.
Hypothesis Fa : fast s1 = false.
Hypothesis E : ebu s1 = true.
Hypothesis Fb : fbu s1 = true.
Hypothesis Hh : h < nf s1.
Hypothesis LF : length (fdel s1) = nf s1.
Let t := face_tail h s1.
Hypothesis CE : cells t = map (map (cor2 (2 * h + 1))) (cells s1).
Hypothesis FF : forall x c z, cell_of s1 x = Some c -> In z (cell_at s1 c) -> z / 2 <> h.
Let g := cor2 (2 * h + 1).
Let g' := unshift2 h.

Lemma fts_reads :
  faces t = remove_nth h (faces s1) /\ fdel t = remove_nth h (fdel s1) /\
  inc_cell t = remove_nth (2 * h) (remove_nth (2 * h + 1) (inc_cell s1)) /\
  inc_hfs t = map (map (cor2 (2 * h + 1))) (inc_hfs s1) /\ cdel t = cdel s1.
Proof.
  unfold t, face_tail. rewrite D. cbv zeta. rewrite Fa. cbn [negb]. rewrite Fb. cbn [fbu set_cells]. rewrite Fb.
  cbn [fast ebu set_inc_cell set_cells]. rewrite Fa, E. cbn [negb andb].
  unfold face_deleted, delete_prop_elem. repeat split.
Qed.

Lemma fts_halfface y : halfface t y = halfface s1 (g' y).
Proof. destruct fts_reads as (a & _). apply halfface_remove_face. exact a. Qed.

Lemma fts_nf : nf t = nf s1 - 1.
Proof. destruct fts_reads as (a & _). unfold nf. rewrite a. apply remove_nth_length. exact Hh. Qed.

Lemma fts_livef f' : livef t f' <-> livef s1 (unshift1 h f').
Proof.
  destruct fts_reads as (_ & b & _). unfold livef, live_f, f_deleted. rewrite fts_nf, b, nth_remove_nth_unshift.
  replace (f' <? nf s1 - 1) with (unshift1 h f' <? nf s1); [reflexivity|].
  pose proof (unshift1_lt h f' (nf s1) Hh) as Q.
  destruct (Nat.ltb_spec (unshift1 h f') (nf s1)); destruct (Nat.ltb_spec f' (nf s1 - 1)); try reflexivity; lia.
Qed.

Lemma fts_cell_of y : cell_of t y = cell_of s1 (g' y).
Proof. destruct fts_reads as (_ & _ & c & _). unfold cell_of. rewrite c. apply nth_remove_two_unshift. Qed.

Lemma fts_hfs_at k : hfs_at t k = map g (hfs_at s1 k).
Proof. destruct fts_reads as (_ & _ & _ & d & _). unfold hfs_at. rewrite d. apply nth_map_map. Qed.

Lemma fts_fw k x : inc_on (without (livef s1) h) s1 k x -> inc_on (livef t) t k (g x) /\ g' (g x) = x.
Proof.
  intros [[L N] I]. assert (U : g' (g x) = x) by (apply unshift2_cor2; exact N). split; [|exact U].
  split; [|rewrite fts_halfface, U; exact I].
  apply fts_livef. rewrite <- unshift2_div2. fold g g'. rewrite U. exact L.
Qed.

Lemma fts_bw k y : inc_on (livef t) t k y -> inc_on (without (livef s1) h) s1 k (g' y) /\ g (g' y) = y.
Proof.
  intros [L I]. split; [|apply cor2_unshift2]. split; [|rewrite <- fts_halfface; exact I].
  unfold g'. rewrite unshift2_div2. split; [apply fts_livef; exact L|apply unshift1_neq].
Qed.

Theorem face_tail_shift : rstate (without (livef s1) h) s1 -> rstate (livef t) t.
Proof.
  intros R. destruct fts_reads as (_ & _ & _ & _ & e5).
  apply (rstate_transfer (without (livef s1) h) (livef t) s1 t R). intros e _.
  exists e, g, g'. split; [|split; apply fts_hfs_at].
  apply (edge_map_of_reads _ _ s1 t e e g g' (fun x => x) (fun c => c) (fun x => x / 2 <> h) (fun _ => True)); auto.
  - intros x. apply cor2_opp.
  - intros y. apply unshift2_opp.
  - intros x. apply fts_fw.
  - intros y. apply fts_bw.
  - intros a b Da Db. apply cor2_inj_on; assumption.
  - intros a Da. rewrite opp_div2. exact Da.
  - intros x [[[_ N] _]|[[_ N] _]]; exact N.
  - intros x Hx Ec. assert (N : x / 2 <> h) by (destruct Hx as [[[_ N] _]|[[_ N] _]]; exact N).
    assert (U : g' (g x) = x) by (apply unshift2_cor2; exact N). rewrite fts_cell_of, U. exact Ec.
  - intros x c Hx Ec. assert (N : x / 2 <> h) by (destruct Hx as [[[_ N] _]|[[_ N] _]]; exact N).
    assert (U : g' (g x) = x) by (apply unshift2_cor2; exact N).
    split; [rewrite fts_cell_of, U; exact Ec|].
    split; [unfold c_deleted; rewrite e5; reflexivity|]. intros _.
    split; [unfold cell_at; rewrite CE; apply nth_map_map|]. split; [intros z Hz; exact (FF x c z Ec Hz)|].
    intros z Hz. rewrite map_id. split; [|auto]. rewrite fts_halfface.
    assert (Uz : g' (g z) = z) by (apply unshift2_cor2; destruct Hz as [->|Hz]; [exact N|exact (FF x c z Ec Hz)]). rewrite Uz. reflexivity.
Qed.
End TailShift.

(* ================================================================== the core *)

Lemma shift_inv2_rinv s : shift_inv2 s -> rinv s.
Proof.
  intros (((_ & _ & NFf & _) & _ & EO & FO & R & L) & X). pose proof R as (_ & _ & R3).
  split; [exact EO|]. split; [exact FO|]. split; [exact R|]. split; [exact L|]. split.
  - intros c hf Hc Hd Hhf. split; [pose proof (R3 c Hc Hd hf Hhf); lia|apply NFf].
  - intros E F. exact (proj1 (X E F)).
Qed.


Lemma rstate_mid_livef h s : rstate (without (livef s) h) (face_mid h s) -> rstate (without (livef (face_mid h s)) h) (face_mid h s).
Proof. destruct (face_mid_reads h s) as [y E]. rewrite E. intros R. exact R. Qed.

(* ---------------------------------------------------------------- deferred mode *)
Theorem rot_all_delete_face_core_def h s :
  deferred s = true -> rinv s -> h < nf s -> simple_hes (face_at s h) -> rot_all s -> rot_all (delete_face_core h s).
Proof.
  intros D G Hh Sim R. destruct (ebu s && fbu s) eqn:B.
  2:{ apply rot_all_off. rewrite (bv_both _ _ (bv_delete_face_core h s)). exact B. }
  apply andb_true_iff in B. destruct B as [E F]. rewrite (delete_face_core_split h s E).
  unfold face_victim, face_swapped. rewrite D. cbn [negb]. rewrite andb_false_r.
  pose proof (face_mid_stage (livef s) h s F Sim (rinv_inc_exact s G E F) (R E F)) as M. apply rstate_mid_livef in M.
  destruct (face_mid_reads h s) as [y Ey].
  assert (LF : length (fdel s) = nf s) by (destruct G as (_ & _ & _ & (_ & _ & _ & _ & L5 & _) & _); exact L5).
  intros _ _. apply (face_tail_deferred h (face_mid h s)); [rewrite Ey; exact D|rewrite Ey; exact Hh|rewrite Ey; exact LF|exact M].
Qed.

(* ---------------------------------------------------------------- immediate modes *)
Lemma face_free_tail s h : face_free s h -> forall y x c z, cell_of (set_inc_hfs y s) x = Some c -> In z (cell_at (set_inc_hfs y s) c) -> z / 2 <> h.
Proof. intros FF y x c z _ Hz. exact (FF c z Hz). Qed.

Theorem rot_all_delete_face_core_shift h s :
  deferred s = false -> fast s = false -> shift_inv2 s -> h < nf s -> face_free s h -> rot_all s -> rot_all (delete_face_core h s).
Proof.
  intros D Fa I Hh FF R. destruct (ebu s && fbu s) eqn:B.
  2:{ apply rot_all_off. rewrite (bv_both _ _ (bv_delete_face_core h s)). exact B. }
  apply andb_true_iff in B. destruct B as [E F]. pose proof (shift_inv2_rinv s I) as G.
  pose proof I as ((NF & _ & EO & FO & (_ & _ & R3) & (_ & _ & L3 & _ & L5 & _)) & X). destruct (X E F) as (_ & _ & FS).
  assert (CE0 : cells (delete_face_core h s) = map (map (cor2 (2 * h + 1))) (cells s)).
  { apply delete_face_core_cells_shift; auto. intros _. split; [exact FO|]. split; [|exact (L3 F)].
    intros c hf Hc Hhf. apply (R3 c Hc); [apply NF|exact Hhf]. }
  revert CE0. rewrite (delete_face_core_split h s E). unfold face_victim, face_swapped. rewrite D, Fa. cbn [andb]. intros CE0.
  assert (Sim : simple_hes (face_at s h)) by (apply FS; [exact Hh|apply NF]).
  pose proof (face_mid_stage (livef s) h s F Sim (rinv_inc_exact s G E F) (R E F)) as M. apply rstate_mid_livef in M.
  destruct (face_mid_reads h s) as [y Ey].
  intros _ _. apply (face_tail_shift h (face_mid h s)); try (rewrite Ey; assumption); [| |exact M].
  - rewrite CE0, Ey. reflexivity.
  - rewrite Ey. apply face_free_tail. exact FF.
Qed.

Theorem rot_all_delete_face_core_fast h0 s :
  deferred s = false -> fast s = true -> shift_inv2 s -> h0 < nf s -> face_free s h0 -> rot_all s -> rot_all (delete_face_core h0 s).
Proof.
  intros D Fa I Hh FF R. destruct (ebu s && fbu s) eqn:B.
  2:{ apply rot_all_off. rewrite (bv_both _ _ (bv_delete_face_core h0 s)). exact B. }
  apply andb_true_iff in B. destruct B as [E F]. rewrite (delete_face_core_split h0 s E).
  unfold face_victim, face_swapped. rewrite D, Fa. cbn [negb andb].
  set (l := nf s - 1). assert (Hl : l < nf s) by (unfold l; lia).
  set (t := swap_face_indices h0 l s).
  destruct (swap_face_modes h0 l s) as (Dt & Ft & Nt & _ & _ & _ & Et & Bt). fold t in Dt, Ft, Nt, Et, Bt.
  assert (It : shift_inv2 t) by (apply shift_inv2_swap_face; assumption).
  destruct (swap_face_defs h0 l s I Hh Hl) as (_ & Ct). fold t in Ct.
  assert (Rt : rot_all t).
  { apply rot_all_swap_face_gen; auto; [apply shift_inv2_rinv; exact I|]. intros c _ _. unfold cell_at. fold t. rewrite Ct. apply nth_map_map_half. }
  assert (FFt : face_free t l).
  { intros c hf Hhf. unfold cell_at in Hhf. rewrite Ct, nth_map_map_half in Hhf. apply in_map_iff in Hhf. destruct Hhf as [y [<- Hy]].
    pose proof (FF c y Hy) as Ny. destruct (swap_half_spec h0 l y) as [Q _]. change (tr2 h0 l y) with (swap_half h0 l y). rewrite Q. unfold swap_idx.
    destruct (Nat.eqb_spec (y / 2) h0); [congruence|]. destruct (Nat.eqb_spec (y / 2) l); congruence. }
  assert (Et' : ebu t = true) by congruence. assert (Ft' : fbu t = true) by congruence.
  pose proof (shift_inv2_rinv t It) as Gt.
  pose proof It as ((NF & _ & EO & FO & (_ & _ & R3) & (_ & _ & L3 & _ & L5 & _)) & X). destruct (X Et' Ft') as (_ & _ & FS).
  assert (Hlt : l < nf t) by (rewrite Nt; exact Hl).
  assert (Sim : simple_hes (face_at t l)) by (apply FS; [exact Hlt|apply NF]).
  pose proof (face_mid_stage (livef t) l t Ft' Sim (rinv_inc_exact t Gt Et' Ft') (Rt Et' Ft')) as M. apply rstate_mid_livef in M.
  destruct (face_mid_reads l t) as [y Ey].
  assert (Dm : deferred (face_mid l t) = false) by (rewrite Ey; change (deferred t = false); congruence).
  assert (Fam : fast (face_mid l t) = true) by (rewrite Ey; change (fast t = true); congruence).
  assert (Fbm : fbu (face_mid l t) = true) by (rewrite Ey; exact Ft').
  assert (Hhm : l = nf (face_mid l t) - 1) by (rewrite Ey; change (l = nf t - 1); rewrite Nt; reflexivity).
  assert (Hpm : 0 < nf (face_mid l t)) by (rewrite Ey; change (0 < nf t); lia).
  assert (LFm : length (fdel (face_mid l t)) = nf (face_mid l t)) by (rewrite Ey; exact L5).
  intros _ _. apply (face_tail_fast l (face_mid l t) Dm Fam Fbm Hhm Hpm LFm); [|exact M].
  rewrite Ey. intros x c z Ec Hz. change (cell_of t x = Some c) in Ec. change (In z (cell_at t c)) in Hz.
  pose proof (FFt c z Hz) as Nz.
  assert (Hc : c < nc t /\ c_deleted t c = false).
  { destruct (Nat.lt_ge_cases x (2 * nf t)) as [Hx|Hx].
    - destruct (proj1 (FO Ft' x Hx c) Ec) as (A1 & A2 & _). auto.
    - unfold cell_of in Ec. rewrite nth_overflow in Ec by (rewrite (L3 Ft'); exact Hx). discriminate. }
  pose proof (R3 c (proj1 Hc) (proj2 Hc) z Hz). lia.
Qed.

Theorem rot_all_delete_face_core_imm h s :
  deferred s = false -> shift_inv2 s -> h < nf s -> face_free s h -> rot_all s -> rot_all (delete_face_core h s).
Proof. intros D I Hh FF R. destruct (fast s) eqn:Fa; [apply rot_all_delete_face_core_fast|apply rot_all_delete_face_core_shift]; assumption. Qed.
