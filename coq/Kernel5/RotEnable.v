(* Kernel5/RotEnable.v -- C09 at history level, step 7: switching the edge / face bottom-up incidences keeps rot_all.
   Switching a kind OFF makes the invariant vacuous.  Switching it ON when it is on already does nothing.  Otherwise, when the other
   kind is on, the library recomputes the cache and re-orders EVERY live edge (enable_edge_bottom_up_incidences /
   enable_face_bottom_up_incidences): every edge that is a single fan afterwards has been re-ordered on an exact list, so
   C09_reorder_post (list form) applies.  Nothing is assumed about the recomputed halfface->cell cache: an edge where it is not what
   a fan needs is simply not a single fan. *)
From Coq Require Import ZArith Lia Bool Arith List ZifyNat ZifyBool.
From OVM Require Import Base.ListX Base.ListLemmas Kernel.State Kernel.Ops Kernel.Mirror Kernel.Recompute Kernel.Closure Kernel.ExactInv
                        Kernel2.LookupModel Kernel2.ListAux Kernel2.AdjacentProofs Kernel2.RotationProofs Kernel2.ReorderExact Kernel2.ExactBase
                        Kernel3.GcDefs Kernel3.GcInv Kernel4.AllReenable
                        Kernel5.RotDefs Kernel5.RotTransfer Kernel5.RotReorder Kernel5.RotFrame Kernel5.RotOpsFrame Kernel5.RotExact Kernel5.RotStage
                        Kernel5.RotFlags Kernel5.RotFaceCore.
Import ListNotations.
Ltac Zify.zify_post_hook ::= Z.div_mod_to_equations.
Local Open Scope nat_scope.

(* the halfedges of the live faces belong to live edges in range *)
Definition faces_on_live_edges (s : mesh) : Prop :=
  forall f, f < nf s -> f_deleted s f = false -> forall he, In he (face_at s f) -> he / 2 < ne s /\ e_deleted s (he / 2) = false.

Lemma ginv_faces_on_live_edges s : ginv s -> faces_on_live_edges s.
Proof.
  intros ((_ & _ & _ & (_ & R2 & _) & _) & _ & (_ & U2 & _) & _) f Hf Hd he Hhe.
  split; [pose proof (R2 f Hf Hd he Hhe); lia|exact (U2 f Hf Hd he Hhe)].
Qed.

(* re-ordering every live edge of a state with exact lists *)
Theorem rstate_reorder_live s : faces_on_live_edges s -> inc_exact (livef s) s ->
  rstate (livef s) (reorder_edges (live_edges s) s).
Proof.
  intros FL X. apply rstate_reorder_edges.
  - apply NoDup_live_edges.
  - apply inc_exact_fan. exact X.
  - intros e Nin _ Fa. exfalso. apply Nin. destruct (fan_on_witness _ _ _ Fa) as [x [L I]]. apply livef_spec in L. destruct L as [L1 L2].
    apply In_halfface in I. apply In_live_edges. destruct (Nat.even x).
    + pose proof (FL _ L1 L2 _ I) as Q. replace (2 * e / 2) with e in Q by lia. exact Q.
    + pose proof (FL _ L1 L2 _ I) as Q. rewrite opp_div2 in Q. replace (2 * e / 2) with e in Q by lia. exact Q.
Qed.

Lemma rot_all_reorder_live s : faces_on_live_edges s -> inc_exact (livef s) s -> rot_all (reorder_edges (live_edges s) s).
Proof.
  intros FL X. apply (rot_all_of_rstate (livef s)); [intros f; symmetry; apply livef_reorder_edges|]. apply rstate_reorder_live; assumption.
Qed.

(* ================================================================== enable_ebu *)

Lemma inc_exact_compute_ebu s : refs_ok s -> faces_simple s -> inc_exact (livef s) (set_inc_hfs (compute_ebu s) s).
Proof.
  intros RO FS e x Hx. assert (He : e < ne s) by exact (inc_edge_lt s e x RO Hx).
  destruct (compute_ebu_membership s) as [_ M].
  assert (Mk : forall k, k < 2 * ne s -> forall y, In y (hfs_at (set_inc_hfs (compute_ebu s) s) k) <-> inc_on (livef s) (set_inc_hfs (compute_ebu s) s) k y).
  { intros k Hk y. unfold hfs_at. cbn [inc_hfs set_inc_hfs]. rewrite (M k Hk y). unfold inc_on. rewrite livef_spec. change (halfface (set_inc_hfs (compute_ebu s) s) y) with (halfface s y). tauto. }
  apply exact_on_intro.
  - apply (compute_ebu_nodup s FS). lia.
  - apply (compute_ebu_nodup s FS). lia.
  - apply Mk. lia.
  - apply Mk. lia.
Qed.

Lemma rstate_set_flags P a b c d e t : rstate P t -> rstate P (set_flags a b c d e t).
Proof. intros R. exact R. Qed.

Theorem rot_all_enable_ebu b s : ginv s -> faces_simple s -> rot_all s -> rot_all (enable_ebu b s).
Proof.
  intros I FS R. unfold enable_ebu. destruct b; cbn [andb negb].
  2:{ apply rot_all_off. reflexivity. }
  destruct (ebu s) eqn:E; cbn [negb].
  - apply (rot_all_same s); [|exact R]. unfold same_rot, hfs_at. cbn [faces cells fdel cdel inc_cell inc_hfs ebu fbu set_flags]. rewrite E. repeat split.
  - change (fbu (set_inc_hfs (compute_ebu s) s)) with (fbu s). destruct (fbu s) eqn:F.
    2:{ apply rot_all_off. cbn [fbu set_flags set_inc_hfs]. rewrite F. apply andb_false_r. }
    set (s' := set_inc_hfs (compute_ebu s) s).
    pose proof (ginv_faces_on_live_edges s I) as FL. destruct I as ((_ & _ & _ & RO & _) & _).
    pose proof (rstate_reorder_live s' FL (inc_exact_compute_ebu s RO FS)) as T.
    set (s1 := reorder_edges (live_edges s') s') in *.
    apply (rot_all_of_rstate (livef s')); [|apply rstate_set_flags; exact T].
    intros f. transitivity (livef s1 f); [symmetry; apply livef_reorder_edges|reflexivity].
Qed.

(* ================================================================== enable_fbu *)

Lemma inc_exact_of_nodup s : ebu s = true -> ebu_ok s -> refs_ok s -> (forall k, NoDup (hfs_at s k)) -> inc_exact (livef s) s.
Proof.
  intros E EO RO ND e x Hx. assert (He : e < ne s) by exact (inc_edge_lt s e x RO Hx).
  apply exact_on_intro; try apply ND; intros y; apply ebu_ok_inc_on; auto; lia.
Qed.

Theorem rot_all_enable_fbu b s : ginv s -> (ebu s = true -> forall k, NoDup (hfs_at s k)) -> rot_all s -> rot_all (enable_fbu b s).
Proof.
  intros I ND R. unfold enable_fbu. destruct b; cbn [andb negb].
  2:{ apply rot_all_off. cbn [fbu ebu set_flags]. apply andb_false_r. }
  destruct (fbu s) eqn:F; cbn [negb andb].
  - apply (rot_all_same s); [|exact R]. unfold same_rot, hfs_at. cbn [faces cells fdel cdel inc_cell inc_hfs ebu fbu set_flags]. rewrite F. repeat split.
  - cbn [ebu set_flags set_inc_cell]. destruct (ebu s) eqn:E.
    2:{ apply rot_all_off. cbn [ebu fbu set_flags set_inc_cell]. rewrite ?E. reflexivity. }
    match goal with |- rot_all (reorder_edges (live_edges ?t) ?t) => set (s3 := t) end.
    pose proof (ginv_faces_on_live_edges s I) as FL. destruct I as ((_ & EO & _ & RO & _) & _).
    apply (rot_all_reorder_live s3 FL). exact (inc_exact_of_nodup s E EO RO (ND eq_refl)).
Qed.
