(* Kernel5/RotTransfer.v -- C09 at history level: rot_ok / the fan shape / cache exactness are invariant under a renaming of
   the halfface handles applied consistently.

     edge_map P P' s s' e e' phi psi   edge e of state s and edge e' of state s' have the same halffaces around them up to the
                                       renaming phi (inverse psi): incidence, openness and the forward / backward links of the walk
                                       correspond.  Symmetric (edge_map_sym).
     fan_transfer, exact_transfer, rot_transfer     the three notions move along an edge_map
     rot_on_transfer                                the stage lemma: rot_on moves from s to s' when every edge of s' that matters
                                                    is the image of an edge of s with an exact cache
     edge_map_of_adj                                an edge_map from pointwise equations for hf_is_open and
                                                    adjacent_halfface_in_cell and injectivity of phi on a domain D *)
From Coq Require Import ZArith Lia Bool Arith List ZifyNat ZifyBool Permutation.
From OVM Require Import Kernel.State Kernel.Ops Kernel.Mirror Kernel2.LookupModel Kernel2.ListAux Kernel2.AdjacentProofs
                        Kernel2.RotationProofs Kernel5.RotDefs.
Import ListNotations.
Ltac Zify.zify_post_hook ::= Z.div_mod_to_equations.
Local Open Scope nat_scope.

Record edge_map (P P' : nat -> Prop) (s s' : mesh) (e e' : nat) (phi psi : nat -> nat) : Prop := {
  em_phi_opp : forall x, phi (opp x) = opp (phi x);
  em_psi_opp : forall y, psi (opp y) = opp (psi y);
  em_fwd : forall x, inc_on P s (2 * e) x -> inc_on P' s' (2 * e') (phi x) /\ psi (phi x) = x;
  em_bwd : forall y, inc_on P' s' (2 * e') y -> inc_on P s (2 * e) (psi y) /\ phi (psi y) = y;
  em_open : forall x, inc_on P s (2 * e) x ->
              hf_is_open s' (phi x) = hf_is_open s x /\ hf_is_open s' (opp (phi x)) = hf_is_open s (opp x);
  em_flink : forall x y, inc_on P s (2 * e) x -> inc_on P s (2 * e) y ->
              (fwd_link s (2 * e) x y <-> fwd_link s' (2 * e') (phi x) (phi y));
  em_blink : forall x y, inc_on P s (2 * e) x -> inc_on P s (2 * e) y ->
              (bwd_link s (2 * e) x y <-> bwd_link s' (2 * e') (phi x) (phi y))
}.

Lemma edge_map_sym P P' s s' e e' phi psi : edge_map P P' s s' e e' phi psi -> edge_map P' P s' s e' e psi phi.
Proof.
  intros M. constructor.
  - exact (em_psi_opp _ _ _ _ _ _ _ _ M).
  - exact (em_phi_opp _ _ _ _ _ _ _ _ M).
  - exact (em_bwd _ _ _ _ _ _ _ _ M).
  - exact (em_fwd _ _ _ _ _ _ _ _ M).
  - intros y Hy. destruct (em_bwd _ _ _ _ _ _ _ _ M y Hy) as [I E].
    destruct (em_open _ _ _ _ _ _ _ _ M (psi y) I) as [A B]. rewrite E in A, B. split; symmetry; assumption.
  - intros y1 y2 H1 H2. destruct (em_bwd _ _ _ _ _ _ _ _ M y1 H1) as [I1 E1]. destruct (em_bwd _ _ _ _ _ _ _ _ M y2 H2) as [I2 E2].
    pose proof (em_flink _ _ _ _ _ _ _ _ M (psi y1) (psi y2) I1 I2) as T. rewrite E1, E2 in T. symmetry. exact T.
  - intros y1 y2 H1 H2. destruct (em_bwd _ _ _ _ _ _ _ _ M y1 H1) as [I1 E1]. destruct (em_bwd _ _ _ _ _ _ _ _ M y2 H2) as [I2 E2].
    pose proof (em_blink _ _ _ _ _ _ _ _ M (psi y1) (psi y2) I1 I2) as T. rewrite E1, E2 in T. symmetry. exact T.
Qed.

(* ================================================================== list facts *)

Lemma last_map {A B} (f : A -> B) (l : list A) d d' : l <> [] -> last (map f l) d' = f (last l d).
Proof.
  induction l as [|x t IH]; [congruence|]. intros _. destruct t as [|y t]; [reflexivity|].
  change (map f (x :: y :: t)) with (f x :: map f (y :: t)). change (last (x :: y :: t) d) with (last (y :: t) d).
  rewrite <- IH by discriminate. reflexivity.
Qed.

Lemma hd_map {A B} (f : A -> B) (l : list A) d d' : l <> [] -> hd d' (map f l) = f (hd d l).
Proof. destruct l; [congruence|reflexivity]. Qed.

Lemma nth_map_in {A B} (f : A -> B) (l : list A) i d d' : i < length l -> nth i (map f l) d' = f (nth i l d).
Proof. intros H. rewrite (nth_indep (map f l) d' (f d)) by (rewrite map_length; exact H). apply map_nth. Qed.

Lemma linked_map (R R' : nat -> nat -> Prop) (f : nat -> nat) l :
  (forall x y, In x l -> In y l -> R x y -> R' (f x) (f y)) -> linked R l -> linked R' (map f l).
Proof.
  intros H Hl. induction Hl as [|x|x y t Rxy Hl IH]; cbn [map]; try constructor.
  - apply H; [left; reflexivity|right; left; reflexivity|exact Rxy].
  - apply IH. intros a b Ha Hb. apply H; right; assumption.
Qed.

Lemma NoDup_map_inv_on {A B} (f : A -> B) (g : B -> A) l : (forall x, In x l -> g (f x) = x) -> NoDup l -> NoDup (map f l).
Proof.
  intros H Nd. induction Nd as [|x t Hx Nd IH]; cbn [map]; constructor.
  - intros Hin. apply in_map_iff in Hin. destruct Hin as [y [E Hy]]. apply Hx.
    assert (y = x) by (rewrite <- (H y (or_intror Hy)), <- (H x (or_introl eq_refl)), E; reflexivity). subst. exact Hy.
  - apply IH. intros y Hy. apply H. right. exact Hy.
Qed.

(* ================================================================== the three transfers *)

Section Transfer.
Context (P P' : nat -> Prop) (s s' : mesh) (e e' : nat) (phi psi : nat -> nat).
Hypothesis M : edge_map P P' s s' e e' phi psi.

Lemma em_fwd_odd x : inc_on P s (2 * e + 1) x -> inc_on P' s' (2 * e' + 1) (phi x) /\ psi (phi x) = x.
Proof.
  intros H. apply inc_on_odd in H. destruct (em_fwd _ _ _ _ _ _ _ _ M _ H) as [I E].
  rewrite (em_phi_opp _ _ _ _ _ _ _ _ M) in I, E. split; [apply inc_on_odd; exact I|].
  rewrite (em_psi_opp _ _ _ _ _ _ _ _ M) in E. apply opp_inj. exact E.
Qed.

Lemma fan_transfer : fan_on P s e -> fan_on P' s' e'.
Proof.
  intros (l & Hne & Nd & Ml & Shape). exists (map phi l).
  assert (Hinc : forall x, In x l -> inc_on P s (2 * e) x) by (intros x Hx; apply Ml; exact Hx).
  assert (Lf : linked (fwd_link s (2 * e)) l -> linked (fwd_link s' (2 * e')) (map phi l)).
  { apply linked_map. intros x y Hx Hy. apply (em_flink _ _ _ _ _ _ _ _ M); auto. }
  assert (Lb : linked (bwd_link s (2 * e)) l -> linked (bwd_link s' (2 * e')) (map phi l)).
  { apply linked_map. intros x y Hx Hy. apply (em_blink _ _ _ _ _ _ _ _ M); auto. }
  assert (Hl : In (last l 0) l) by (destruct (exists_last Hne) as [t [a ->]]; rewrite last_snoc; apply in_or_app; right; left; reflexivity).
  assert (Hh : In (hd 0 l) l) by (destruct l; [congruence|left; reflexivity]).
  split; [destruct l; [congruence|discriminate]|]. split; [|split].
  - apply (NoDup_map_inv_on phi psi); [|exact Nd]. intros x Hx. exact (proj2 (em_fwd _ _ _ _ _ _ _ _ M x (Hinc x Hx))).
  - intros y. rewrite in_map_iff. split.
    + intros [x [<- Hx]]. exact (proj1 (em_fwd _ _ _ _ _ _ _ _ M x (Hinc x Hx))).
    + intros Hy. destruct (em_bwd _ _ _ _ _ _ _ _ M y Hy) as [I E]. exists (psi y). split; [exact E|apply Ml; exact I].
  - unfold fan_cycle, fan_chain in *. rewrite (last_map phi l 0 0 Hne), (hd_map phi l 0 0 Hne).
    destruct Shape as [[A B]|(A & B & C & D)]; [left|right].
    + split; [exact (Lf A)|]. apply (em_flink _ _ _ _ _ _ _ _ M); auto.
    + split; [exact (Lf A)|]. split; [exact (Lb B)|]. split.
      * rewrite (proj1 (em_open _ _ _ _ _ _ _ _ M _ (Hinc _ Hl))). exact C.
      * rewrite (proj2 (em_open _ _ _ _ _ _ _ _ M _ (Hinc _ Hh))). exact D.
Qed.

Hypothesis L0 : hfs_at s' (2 * e') = map phi (hfs_at s (2 * e)).
Hypothesis L1 : hfs_at s' (2 * e' + 1) = map phi (hfs_at s (2 * e + 1)).

Lemma exact_transfer : exact_on P s e -> exact_on P' s' e'.
Proof.
  intros (Nd & M0 & M1 & Len).
  unfold exact_on. rewrite L0, L1, !map_length. split; [|split; [|split; [|exact Len]]].
  - apply (NoDup_map_inv_on phi psi); [|exact Nd]. intros x Hx. apply M0 in Hx. exact (proj2 (em_fwd _ _ _ _ _ _ _ _ M x Hx)).
  - intros y. rewrite in_map_iff. split.
    + intros [x [<- Hx]]. apply M0 in Hx. exact (proj1 (em_fwd _ _ _ _ _ _ _ _ M x Hx)).
    + intros Hy. destruct (em_bwd _ _ _ _ _ _ _ _ M y Hy) as [I E]. exists (psi y). split; [exact E|apply M0; exact I].
  - intros y. rewrite in_map_iff. split.
    + intros [x [<- Hx]]. apply M1 in Hx. exact (proj1 (em_fwd_odd x Hx)).
    + intros Hy. apply inc_on_odd in Hy. destruct (em_bwd _ _ _ _ _ _ _ _ M _ Hy) as [I E].
      rewrite (em_psi_opp _ _ _ _ _ _ _ _ M) in I, E. rewrite (em_phi_opp _ _ _ _ _ _ _ _ M) in E. apply opp_inj in E.
      exists (psi y). split; [exact E|]. apply M1. apply inc_on_odd. exact I.
Qed.

Lemma rot_transfer : (forall x, In x (hfs_at s (2 * e)) -> inc_on P s (2 * e) x) -> rot_ok s e -> rot_ok s' e'.
Proof.
  intros Hinc [R Mir]. split.
  - apply rotational_links. rewrite L0, map_length. pose proof (proj1 (rotational_links _ _ _) R) as R'. clear R. rename R' into R.
    set (L := hfs_at s (2 * e)) in *. intros i Hi.
    assert (Hj : circ_next (length L) i < length L) by (apply circ_next_lt; exact Hi).
    rewrite (nth_map_in phi L i 0 0 Hi), (nth_map_in phi L _ 0 0 Hj).
    assert (Ii : inc_on P s (2 * e) (nth i L 0)) by (apply Hinc; apply nth_In; exact Hi).
    assert (Ij : inc_on P s (2 * e) (nth (circ_next (length L) i) L 0)) by (apply Hinc; apply nth_In; exact Hj).
    rewrite (proj1 (em_open _ _ _ _ _ _ _ _ M _ Ii)). destruct (R i Hi) as [A B]. split; [|exact B].
    intros O. apply (em_flink _ _ _ _ _ _ _ _ M); auto.
  - rewrite L1, L0, Mir, map_rev, !map_map. f_equal. apply map_ext. intros x. apply (em_phi_opp _ _ _ _ _ _ _ _ M).
Qed.

End Transfer.

(* ================================================================== the stage lemma *)

Theorem rot_on_transfer (P P' : nat -> Prop) (s s' : mesh) :
  rot_on P s ->
  (forall e', exact_on P' s' e' -> fan_on P' s' e' ->
     exists e phi psi, exact_on P s e /\ edge_map P P' s s' e e' phi psi /\
                       hfs_at s' (2 * e') = map phi (hfs_at s (2 * e)) /\
                       hfs_at s' (2 * e' + 1) = map phi (hfs_at s (2 * e + 1))) ->
  rot_on P' s'.
Proof.
  intros R H e' X F. destruct (H e' X F) as (e & phi & psi & Xs & M & L0 & L1).
  apply (rot_transfer P P' s s' e e' phi psi M L0 L1).
  - intros x Hx. apply (proj1 (proj2 Xs)). exact Hx.
  - apply R; [exact Xs|]. exact (fan_transfer P' P s' s e' e psi phi (edge_map_sym _ _ _ _ _ _ _ _ M) F).
Qed.

(* ================================================================== building an edge_map *)

(* from pointwise equations for hf_is_open and adjacent_halfface_in_cell; phi injective on a domain D that contains the halffaces
   around the edge and the results of the adjacency queries *)
Theorem edge_map_of_adj (P P' : nat -> Prop) (s s' : mesh) (e e' : nat) (phi psi : nat -> nat) (D : nat -> Prop) :
  (forall x, phi (opp x) = opp (phi x)) -> (forall y, psi (opp y) = opp (psi y)) ->
  (forall x, inc_on P s (2 * e) x -> inc_on P' s' (2 * e') (phi x) /\ psi (phi x) = x) ->
  (forall y, inc_on P' s' (2 * e') y -> inc_on P s (2 * e) (psi y) /\ phi (psi y) = y) ->
  (forall a b, D a -> D b -> phi a = phi b -> a = b) -> (forall a, D a -> D (opp a)) ->
  (forall x, inc_on P s (2 * e) x -> D x) ->
  (forall x, inc_on P s (2 * e) x \/ inc_on P s (2 * e + 1) x -> hf_is_open s' (phi x) = hf_is_open s x) ->
  (forall x, inc_on P s (2 * e) x -> hf_is_open s x = false ->
     adjacent_halfface_in_cell s' (phi x) (2 * e') = option_map phi (adjacent_halfface_in_cell s x (2 * e)) /\ (forall a, adjacent_halfface_in_cell s x (2 * e) = Some a -> D a)) ->
  (forall x, inc_on P s (2 * e + 1) x -> hf_is_open s x = false ->
     adjacent_halfface_in_cell s' (phi x) (2 * e' + 1) = option_map phi (adjacent_halfface_in_cell s x (2 * e + 1)) /\ (forall a, adjacent_halfface_in_cell s x (2 * e + 1) = Some a -> D a)) ->
  edge_map P P' s s' e e' phi psi.
Proof.
  intros Po So Fw Bw Inj Dopp Dinc Op A0 A1.
  assert (Iodd : forall y, inc_on P s (2 * e) y -> inc_on P s (2 * e + 1) (opp y)).
  { intros y Hy. apply inc_on_odd. rewrite opp_involutive. exact Hy. }
  constructor; try assumption.
  - intros x Hx. split; [apply Op; left; exact Hx|]. rewrite <- Po. apply Op. right. exact (Iodd x Hx).
  - intros x y Hx Hy. unfold fwd_link. rewrite (Op x (or_introl Hx)). split.
    + intros [O A]. split; [exact O|]. destruct (A0 x Hx O) as [E _]. rewrite E, A. cbn [option_map]. rewrite Po. reflexivity.
    + intros [O A]. split; [exact O|]. destruct (A0 x Hx O) as [E Dr]. rewrite E in A.
      destruct (adjacent_halfface_in_cell s x (2 * e)) as [a|]; [|discriminate]. cbn [option_map] in A. injection A as A.
      rewrite <- Po in A. f_equal. apply Inj; [apply Dr; reflexivity|apply Dopp, Dinc; exact Hy|exact A].
  - intros x y Hx Hy. unfold bwd_link. rewrite !opp_double, <- !Po.
    rewrite (Op (opp y) (or_intror (Iodd y Hy))). split.
    + intros [O A]. split; [exact O|]. destruct (A1 (opp y) (Iodd y Hy) O) as [E _]. rewrite E, A. reflexivity.
    + intros [O A]. split; [exact O|]. destruct (A1 (opp y) (Iodd y Hy) O) as [E Dr]. rewrite E in A.
      destruct (adjacent_halfface_in_cell s (opp y) (2 * e + 1)) as [a|]; [|discriminate]. cbn [option_map] in A. injection A as A.
      f_equal. apply Inj; [apply Dr; reflexivity|apply Dinc; exact Hx|exact A].
Qed.
