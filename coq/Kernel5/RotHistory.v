(* Kernel5/RotHistory.v -- C09 at history level: the rotational-order invariant along every history of the unified class all_ok
   (Kernel4/AllDefs.v): rot_all, hence rot_inv, holds in every reachable state; with the cache invariant full_inv
   (Kernel4/AllHistory.v) this gives both sentences of C09 for every reachable state. *)
From Coq Require Import ZArith Lia Bool Arith List ZifyNat ZifyBool.
From OVM Require Import Base.ListX Base.ListLemmas Kernel.State Kernel.Ops Kernel.Mirror Kernel.Closure Kernel.ExactInv Kernel.ExactRun Kernel.Sizes
                        Kernel.ShiftFace Kernel2.LookupModel Kernel2.AdjacentProofs Kernel2.RotationProofs Kernel2.ReorderExact
                        Kernel2.ExactBase Kernel2.ExactHistory Kernel2.ExactDeletions
                        Kernel3.FastHistory Kernel3.GcDefs Kernel3.GcDeferred Kernel3.GcCommute Kernel3.GcHist
                        Kernel4.AllDefs Kernel4.AllBridges Kernel4.AllCells Kernel4.AllHistory
                        Kernel5.RotDefs Kernel5.RotFrame Kernel5.RotOpsFrame Kernel5.RotExact Kernel5.RotStage Kernel5.RotFlags
                        Kernel5.RotAddCell Kernel5.RotSwap Kernel5.RotFaceCore Kernel5.RotDelete Kernel5.RotGc Kernel5.RotAddFace Kernel5.RotEnable.
Import ListNotations.
Local Open Scope nat_scope.

(* ================================================================== the deletions, any mode *)

Lemma all_inv_bu_inv2 s : all_inv s -> deferred s = true -> ebu s = true -> fbu s = true -> bu_inv2 s.
Proof.
  intros H D E F. exact (proj1 (ready_hinv s (all_inv_gc_ready s H D) (all_inv_faces_simple s H) E F)).
Qed.

Section Deletions.
Context (s : mesh) (H : all_inv s) (R : rot_all s).

Lemma off_after (t : mesh) : bv t = bv s -> ebu s && fbu s = false -> rot_all t.
Proof. intros B Off. apply rot_all_off. rewrite (bv_both _ _ B). exact Off. Qed.

Theorem rot_all_delete_vertex v : v < nv s -> rot_all (delete_vertex v s).
Proof.
  intros Hv. destruct (deferred s) eqn:D.
  - destruct (ebu s && fbu s) eqn:B; [|exact (off_after _ (bv_delete_vertex v s) B)]. apply andb_true_iff in B. destruct B as [E F].
    exact (proj2 (dinv_delete_vertex v s (conj (all_inv_bu_inv2 s H D E F) R) Hv)).
  - apply rot_all_delete_vertex_imm; [exact D|exact (proj1 (all_inv_fast_inv s H D))|exact Hv|exact R].
Qed.

Theorem rot_all_delete_edge e : e < ne s -> e_deleted s e = false -> rot_all (delete_edge e s).
Proof.
  intros He Hl. destruct (deferred s) eqn:D.
  - destruct (ebu s && fbu s) eqn:B; [|exact (off_after _ (bv_delete_edge e s) B)]. apply andb_true_iff in B. destruct B as [E F].
    exact (proj2 (dinv_delete_edge e s (conj (all_inv_bu_inv2 s H D E F) R) He Hl)).
  - apply rot_all_delete_edge_imm; [exact D|exact (proj1 (all_inv_fast_inv s H D))|exact He|exact R].
Qed.

Theorem rot_all_delete_face f : f < nf s -> f_deleted s f = false -> rot_all (delete_face f s).
Proof.
  intros Hf Hl. destruct (deferred s) eqn:D.
  - destruct (ebu s && fbu s) eqn:B; [|exact (off_after _ (bv_delete_face f s) B)]. apply andb_true_iff in B. destruct B as [E F].
    exact (proj2 (dinv_delete_face f s (conj (all_inv_bu_inv2 s H D E F) R) Hf Hl)).
  - apply rot_all_delete_face_imm; [exact D|exact (proj1 (all_inv_fast_inv s H D))|exact Hf|exact R].
Qed.

Theorem rot_all_delete_cell c : c < nc s -> rot_all (delete_cell c s).
Proof. intros Hc. apply RotCellCore.rot_all_delete_cell_core; [apply ginv_rinv, all_inv_ginv; exact H|exact Hc|exact R]. Qed.
End Deletions.

(* ================================================================== one valid call of the class *)

Theorem rot_all_exec s o : full_inv s -> all_op s o = true -> valid_op s o = true -> rot_all s -> rot_all (fst (exec s o)).
Proof.
  intros (H & _ & (_ & ND) & _) G V R.
  pose proof (all_inv_ginv s H) as I. pose proof (ginv_rinv s I) as Gr. pose proof (all_inv_bu_inv s H) as B.
  destruct o; try discriminate G; cbn [exec valid_op] in *.
  - (* add_vertex *) pose proof (rot_all_add_vertex s R) as T. destruct (add_vertex s). exact T.
  - apply rot_all_add_n_vertices. exact R.
  - pose proof (rot_all_add_edge s a b dup (proj2 (proj2 (proj2 (proj2 B)))) R) as T. destruct (add_edge s a b dup). exact T.
  - (* add_face *) apply andb_true_iff in V. destruct V as [_ V3]. apply rot_all_add_face; [exact Gr| |exact R].
    intros h Hh. apply live_he_lt. unfold all_b in V3. rewrite forallb_forall in V3. exact (V3 h Hh).
  - (* add_face from vertices *) apply andb_true_iff in V. destruct V as [_ V3]. apply rot_all_add_face_v; [exact Gr|exact B| |exact R].
    intros v Hv. apply live_v_lt. unfold all_b in V3. rewrite forallb_forall in V3. exact (V3 v Hv).
  - (* add_cell *) apply rot_all_add_cell; assumption.
  - (* deletions *) cbn [fst]. apply rot_all_delete_vertex; [exact H|exact R|apply live_v_lt; exact V].
  - cbn [fst]. apply live_e_lt in V. destruct V as [A C]. apply rot_all_delete_edge; assumption.
  - cbn [fst]. apply live_f_lt in V. destruct V as [A C]. apply rot_all_delete_face; assumption.
  - cbn [fst]. apply live_c_lt in V. destruct V as [A C]. apply rot_all_delete_cell; assumption.
  - (* swaps *) cbn [fst]. apply rot_all_swap_vertex. exact R.
  - cbn [fst]. apply andb_true_iff in V. destruct V as [Va Vb]. apply Nat.ltb_lt in Va, Vb. apply rot_all_swap_edge; assumption.
  - cbn [fst]. apply andb_true_iff in V. destruct V as [Va Vb]. apply Nat.ltb_lt in Va, Vb. apply rot_all_swap_face; assumption.
  - cbn [fst]. apply andb_true_iff in V. destruct V as [Va Vb]. apply Nat.ltb_lt in Va, Vb. apply rot_all_swap_cell; assumption.
  - (* collect_garbage *) cbn [fst]. apply rot_all_collect_garbage; assumption.
  - cbn [fst]. apply rot_all_clear.
  - cbn [fst]. apply rot_all_enable_vbu. exact R.
  - cbn [fst]. apply rot_all_enable_ebu; [exact I|exact (all_inv_faces_simple s H)|exact R].
  - cbn [fst]. apply rot_all_enable_fbu; [exact I| |exact R]. intros E k. exact (ND E k).
  - cbn [fst]. apply rot_all_enable_deferred; assumption.
  - cbn [fst]. apply rot_all_enable_fast. exact R.
  - cbn [fst]. apply rot_all_set_props. exact R.
  - cbn [fst]. apply rot_all_set_props. exact R.
  - cbn [fst]. apply rot_all_set_props. exact R.
Qed.

Theorem rot_all_step s o : full_inv s -> all_op s o = true -> rot_all s -> rot_all (next s o).
Proof.
  intros H G R. destruct (valid_op s o) eqn:V.
  - rewrite (next_valid s o V). apply rot_all_exec; assumption.
  - rewrite (next_invalid s o V). exact R.
Qed.

(* ================================================================== histories *)

Lemma rot_all_empty : rot_all empty_mesh.
Proof. apply rot_all_no_faces. reflexivity. Qed.

Lemma rot_all_run_from ops : forall s, full_inv s -> rot_all s -> all_ok_from s ops = true -> rot_all (run_from s ops).
Proof.
  induction ops as [|o r IH]; intros s H R F; [exact R|]. cbn [all_ok_from] in F.
  apply andb_true_iff in F. destruct F as [F F3]. apply andb_true_iff in F. destruct F as [F1 F2].
  unfold run_from. cbn [fold_left]. fold (next s o). apply IH; [|apply rot_all_step; assumption|exact F3].
  apply full_inv_step; [exact H|exact F1|]. intros V. rewrite V in F2. exact F2.
Qed.

Theorem rot_all_along_histories ops : all_ok ops = true -> rot_all (run ops).
Proof. intros F. apply rot_all_run_from; [apply full_inv_empty|apply rot_all_empty|exact F]. Qed.

(* C09, first sentence, every reachable state: with both incidence kinds on, every live edge has an exact cache, and if it is a
   single fan its halfface lists are in rotational order and mirrored *)
Theorem rot_inv_along_histories ops : all_ok ops = true -> rot_inv (run ops).
Proof. intros F. apply rot_all_inv, rot_all_along_histories, F. Qed.

Theorem reachable_edge_caches_exact ops : all_ok ops = true -> let s := run ops in
  ebu s = true -> fbu s = true -> forall e, live_e s e = true -> edge_cache_exact s e.
Proof.
  intros F s E Fb e L. apply exact_on_livef. apply rinv_exact_on; auto.
  - apply ginv_rinv, all_inv_ginv. exact (proj1 (full_inv_along_histories ops F)).
  - apply live_e_lt in L. tauto.
Qed.

Theorem reachable_rotational_order ops : all_ok ops = true -> let s := run ops in
  ebu s = true -> fbu s = true -> forall e, live_e s e = true -> single_fan s e -> rot_ok s e.
Proof.
  intros F s E Fb e L Fan. apply (rot_inv_along_histories ops F E Fb e L); [|exact Fan].
  exact (reachable_edge_caches_exact ops F E Fb e L).
Qed.

(* C09, second sentence, every reachable state with the face incidences on: live cells are closed, hence adjacent_halfface_in_cell
   returns the unique other halfface of the cell at the edge and is an involution *)
Theorem reachable_cells_closed ops : all_ok ops = true -> let s := run ops in
  fbu s = true -> forall c, live_c s c = true -> closed_cell s c.
Proof.
  intros F s Fb c L. destruct (full_inv_along_histories ops F) as (H & T & _).
  destruct (all_inv_bu_inv _ H) as (_ & _ & FO & RO & _).
  apply live_c_lt in L. destruct L as [A B]. exact (live_cells_closed_of_topo _ Fb FO RO T c A B).
Qed.

Theorem reachable_adjacent ops : all_ok ops = true -> let s := run ops in
  fbu s = true -> forall c hf he, live_c s c = true -> In hf (cell_at s c) -> In he (halfface s hf) ->
  exists hf',
    adjacent_halfface_in_cell s hf he = Some hf' /\
    (In hf' (cell_at s c) /\ hf' <> hf /\ hf' <> opp hf /\ In (opp he) (halfface s hf')) /\
    (forall x, In x (cell_at s c) -> x <> hf -> x <> opp hf -> In (opp he) (halfface s x) -> x = hf') /\
    adjacent_halfface_in_cell s hf' (opp he) = Some hf.
Proof.
  intros F s Fb c hf he L Hhf Hhe. apply (adjacent_closed_cell s c hf he); [|exact Hhf|exact Hhe].
  exact (reachable_cells_closed ops F Fb c L).
Qed.
