(* Kernel5/RotFrame.v -- C09 at history level: frame lemmas.

     rot_edge_transfer    rot_ok moves from edge e of s to edge e' of s' along an edge_map (one edge)
     edge_map_id          the identity renaming: the reads around the edge agree
     rot_on_same          two states with the same definitions of faces and cells, the same flags of faces and cells, the same
                          halfface->cell cache and pointwise the same halfedge->halfface lists satisfy rot_on together
     same_rot             that relation; rot_all_same: rot_all moves along it *)
From Coq Require Import ZArith Lia Bool Arith List ZifyNat ZifyBool Permutation.
From OVM Require Import Kernel.State Kernel.Ops Kernel.Mirror Kernel2.LookupModel Kernel2.ListAux Kernel2.AdjacentProofs
                        Kernel2.RotationProofs Kernel.ShiftFace Kernel5.RotDefs Kernel5.RotTransfer Kernel5.RotAdj.
Import ListNotations.
Ltac Zify.zify_post_hook ::= Z.div_mod_to_equations.
Local Open Scope nat_scope.

Theorem rot_edge_transfer P P' s s' e e' phi psi :
  rot_on P s -> edge_map P P' s s' e e' phi psi ->
  hfs_at s' (2 * e') = map phi (hfs_at s (2 * e)) -> hfs_at s' (2 * e' + 1) = map phi (hfs_at s (2 * e + 1)) ->
  exact_on P s e -> fan_on P' s' e' -> rot_ok s' e'.
Proof.
  intros R M L0 L1 Xs F. apply (rot_transfer P P' s s' e e' phi psi M L0 L1).
  - intros x Hx. apply (proj1 (proj2 Xs)). exact Hx.
  - apply R; [exact Xs|]. exact (fan_transfer P' P s' s e' e psi phi (edge_map_sym _ _ _ _ _ _ _ _ M) F).
Qed.

(* ================================================================== the identity renaming *)

Definition idn (x : nat) : nat := x.

Theorem edge_map_id P P' s s' e :
  (forall x, inc_on P s (2 * e) x <-> inc_on P' s' (2 * e) x) ->
  (forall x, inc_on P s (2 * e) x \/ inc_on P s (2 * e + 1) x -> hf_is_open s' x = hf_is_open s x) ->
  (forall x, inc_on P s (2 * e) x -> hf_is_open s x = false ->
     adjacent_halfface_in_cell s' x (2 * e) = adjacent_halfface_in_cell s x (2 * e)) ->
  (forall x, inc_on P s (2 * e + 1) x -> hf_is_open s x = false ->
     adjacent_halfface_in_cell s' x (2 * e + 1) = adjacent_halfface_in_cell s x (2 * e + 1)) ->
  edge_map P P' s s' e e idn idn.
Proof.
  intros I O A0 A1. apply (edge_map_of_adj P P' s s' e e idn idn (fun _ => True)); unfold idn; auto.
  - intros x Hx. split; [apply I; exact Hx|reflexivity].
  - intros y Hy. split; [apply I; exact Hy|reflexivity].
  - intros x Hx Ox. rewrite (A0 x Hx Ox). split; [destruct (adjacent_halfface_in_cell s x (2 * e)); reflexivity|auto].
  - intros x Hx Ox. rewrite (A1 x Hx Ox). split; [destruct (adjacent_halfface_in_cell s x (2 * e + 1)); reflexivity|auto].
Qed.

Lemma map_idn l : map idn l = l.
Proof. apply map_id. Qed.

Theorem rot_edge_transfer_id P P' s s' e :
  rot_on P s -> edge_map P P' s s' e e idn idn ->
  hfs_at s' (2 * e) = hfs_at s (2 * e) -> hfs_at s' (2 * e + 1) = hfs_at s (2 * e + 1) ->
  exact_on P' s' e -> fan_on P' s' e -> rot_ok s' e.
Proof.
  intros R M L0 L1 X F.
  assert (Xs : exact_on P s e).
  { apply (exact_transfer P' P s' s e e idn idn (edge_map_sym _ _ _ _ _ _ _ _ M)); [rewrite map_idn; symmetry; exact L0|rewrite map_idn; symmetry; exact L1|exact X]. }
  apply (rot_edge_transfer P P' s s' e e idn idn R M); [rewrite map_idn; exact L0|rewrite map_idn; exact L1|exact Xs|exact F].
Qed.

(* ================================================================== states with the same reads *)

Definition same_rot (s t : mesh) : Prop :=
  faces t = faces s /\ cells t = cells s /\ fdel t = fdel s /\ cdel t = cdel s /\ inc_cell t = inc_cell s /\
  (forall k, hfs_at t k = hfs_at s k) /\ ebu t = ebu s /\ fbu t = fbu s.

Lemma same_rot_refl s : same_rot s s.
Proof. repeat split. Qed.

Lemma same_rot_trans s t u : same_rot s t -> same_rot t u -> same_rot s u.
Proof.
  intros (a1 & a2 & a3 & a4 & a5 & a6 & a7 & a8) (b1 & b2 & b3 & b4 & b5 & b6 & b7 & b8).
  unfold same_rot. repeat split; try congruence; try (intros k; rewrite b6; apply a6).
Qed.

Section Same.
Context (s t : mesh).
Hypothesis H : same_rot s t.

Lemma same_halfface x : halfface t x = halfface s x.
Proof. destruct H as (a & _). unfold halfface, face_at. rewrite a. reflexivity. Qed.
Lemma same_live_f f : live_f t f = live_f s f.
Proof. destruct H as (a & _ & c & _). unfold live_f, nf, f_deleted. rewrite a, c. reflexivity. Qed.
Lemma same_open x : hf_is_open t x = hf_is_open s x.
Proof. destruct H as (_ & _ & _ & d & e & _). unfold hf_is_open, cell_of, c_deleted. rewrite d, e. reflexivity. Qed.
Lemma same_adjacent x h : adjacent_halfface_in_cell t x h = adjacent_halfface_in_cell s x h.
Proof.
  destruct H as (a & b & _ & _ & e & _).
  assert (AO : forall he1 st hfh, adj_outer t x he1 st hfh = adj_outer s x he1 st hfh).
  { intros he1 st hfh. unfold adj_outer, halfface, face_at. rewrite a. reflexivity. }
  unfold adjacent_halfface_in_cell, cell_of, cell_at, halfface, face_at. rewrite e, a, b.
  destruct (nth x (inc_cell s) None) as [ch|]; [|reflexivity].
  match goal with |- match ?o with _ => _ end = _ => destruct o as [he1|]; [|reflexivity] end.
  rewrite (OVM.Kernel.ShiftFace.fold_left_ext _ _ (AO he1)). reflexivity.
Qed.

Lemma same_inc_on x h : inc_on (livef s) s h x <-> inc_on (livef t) t h x.
Proof. unfold inc_on, livef. rewrite same_halfface, same_live_f. reflexivity. Qed.

Lemma same_edge_map e : edge_map (livef s) (livef t) s t e e idn idn.
Proof.
  apply edge_map_id.
  - intros x. apply same_inc_on.
  - intros x _. apply same_open.
  - intros x _ _. apply same_adjacent.
  - intros x _ _. apply same_adjacent.
Qed.

Lemma rot_on_same : rot_on (livef s) s -> rot_on (livef t) t.
Proof.
  intros R e X F. destruct H as (_ & _ & _ & _ & _ & L & _).
  apply (rot_edge_transfer_id (livef s) (livef t) s t e R (same_edge_map e)); auto.
Qed.

Lemma rot_all_same : rot_all s -> rot_all t.
Proof.
  intros R E F. destruct H as (_ & _ & _ & _ & _ & _ & a & b). apply rot_on_same. apply R; congruence.
Qed.

End Same.

(* a state whose incidence flags are not both on satisfies the invariant trivially *)
Lemma rot_all_off s : ebu s && fbu s = false -> rot_all s.
Proof. intros H E F. rewrite E, F in H. discriminate. Qed.

(* no stored face: nothing to show *)
Lemma rot_all_no_faces s : faces s = [] -> rot_all s.
Proof.
  intros Hf _ _ e _ (l & Hne & _ & Ml & _). exfalso. destruct l as [|x l]; [congruence|].
  destruct (proj1 (Ml x) (or_introl eq_refl)) as [_ I]. unfold halfface, face_at in I. rewrite Hf in I.
  destruct (x / 2); destruct (Nat.even x); exact I.
Qed.

(* ================================================================== the pair carried through the stages of an operation *)

(* every fan edge has an exact cache *)
Definition fan_exact (P : nat -> Prop) (s : mesh) : Prop := forall e, fan_on P s e -> exact_on P s e.

Definition rstate (P : nat -> Prop) (s : mesh) : Prop := rot_on P s /\ fan_exact P s.

Lemma fan_exact_ext (P Q : nat -> Prop) s : (forall f, P f <-> Q f) -> fan_exact P s -> fan_exact Q s.
Proof. intros H X e F. apply (exact_on_ext P Q); [exact H|]. apply X. apply (fan_on_ext Q P); [intros f; symmetry; apply H|exact F]. Qed.

Lemma rstate_ext (P Q : nat -> Prop) s : (forall f, P f <-> Q f) -> rstate P s -> rstate Q s.
Proof. intros H [A B]. split; [exact (rot_on_ext P Q s H A)|exact (fan_exact_ext P Q s H B)]. Qed.

(* the stage lemma: every fan edge of s' is the image of an edge of s along an edge_map that also maps the two lists *)
Theorem rstate_transfer (P P' : nat -> Prop) (s s' : mesh) :
  rstate P s ->
  (forall e', fan_on P' s' e' ->
     exists e phi psi, edge_map P P' s s' e e' phi psi /\
                       hfs_at s' (2 * e') = map phi (hfs_at s (2 * e)) /\
                       hfs_at s' (2 * e' + 1) = map phi (hfs_at s (2 * e + 1))) ->
  rstate P' s'.
Proof.
  intros [R X] H. split.
  - intros e' _ F. destruct (H e' F) as (e & phi & psi & M & L0 & L1).
    assert (Fs : fan_on P s e) by exact (fan_transfer P' P s' s e' e psi phi (edge_map_sym _ _ _ _ _ _ _ _ M) F).
    exact (rot_edge_transfer P P' s s' e e' phi psi R M L0 L1 (X e Fs) F).
  - intros e' F. destruct (H e' F) as (e & phi & psi & M & L0 & L1).
    assert (Fs : fan_on P s e) by exact (fan_transfer P' P s' s e' e psi phi (edge_map_sym _ _ _ _ _ _ _ _ M) F).
    exact (exact_transfer P P' s s' e e' phi psi M L0 L1 (X e Fs)).
Qed.

(* the same with the halfface handles unchanged *)
Theorem rstate_transfer_id (P P' : nat -> Prop) (s s' : mesh) :
  rstate P s ->
  (forall e, fan_on P' s' e ->
     edge_map P P' s s' e e (fun x => x) (fun x => x) /\
     hfs_at s' (2 * e) = hfs_at s (2 * e) /\ hfs_at s' (2 * e + 1) = hfs_at s (2 * e + 1)) ->
  rstate P' s'.
Proof.
  intros R H. apply (rstate_transfer P P' s s' R). intros e F. destruct (H e F) as (M & L0 & L1).
  exists e, (fun x => x), (fun x => x). rewrite !map_id. auto.
Qed.
