(* Kernel5/RotCellCore.v -- C09 at history level, step 4 (cells): delete_cell_core in all four (deferred x fast) modes keeps the
   rotational order.  The core is split into its stages
       [swap_cell_indices h0 last]  ;  clear the halfface->cell entries of the cell, reorder the edges of the cell  ;
       [flag the cell | remove its slot, shifting the cell handles (non-fast) | remove the last slot (fast)]
   and each stage is handled with the weakest hypotheses about the state (so that the same lemmas serve the public deletions, where
   the cell is live, and collect_garbage, where it is flagged and its entries are gone already):
     cells_sound s      an entry of the halfface->cell cache names a cell in range that lists the halfface
     inc_exact P s      (Kernel5/RotStage.v) every edge with a present incident halfface has an exact cache *)
From Coq Require Import ZArith Lia Bool Arith List ZifyNat ZifyBool.
From OVM Require Import Base.ListX Base.ListLemmas Kernel.State Kernel.Ops Kernel.Mirror Kernel.Recompute Kernel.Closure Kernel.ExactInv
                        Kernel.Construct Kernel.SwapEffects Kernel.SwapCellCache Kernel.SwapFaceCache Kernel.ShiftFace Kernel.ShiftCompose
                        Kernel2.LookupModel Kernel2.ListAux Kernel2.AdjacentProofs Kernel2.RotationProofs Kernel2.ReorderExact
                        Kernel2.ExactBase Kernel2.ExactDelCell Kernel3.GcDefs
                        Kernel5.RotDefs Kernel5.RotTransfer Kernel5.RotAdj Kernel5.RotReorder Kernel5.RotFrame Kernel5.RotExact
                        Kernel5.RotRename Kernel5.RotStage Kernel5.RotSwap Kernel5.RotFlags.
Import ListNotations.
Ltac Zify.zify_post_hook ::= Z.div_mod_to_equations.
Local Open Scope nat_scope.

Definition cells_sound (s : mesh) : Prop := forall x c, cell_of s x = Some c -> c < nc s /\ In x (cell_at s c).

Lemma rinv_cells_sound s : rinv s -> fbu s = true -> cells_sound s.
Proof.
  intros (_ & FO & _ & (_ & _ & L3 & _) & _) F x c Ec.
  destruct (Nat.lt_ge_cases x (2 * nf s)) as [Hx|Hx].
  - destruct (proj1 (FO F x Hx c) Ec) as (A & _ & B). auto.
  - unfold cell_of in Ec. rewrite nth_overflow in Ec by (rewrite (L3 F); exact Hx). discriminate.
Qed.

(* ================================================================== the stages, named *)

Definition cell_es (h : nat) (s : mesh) : list nat :=
  set_of_list (map (fun he => he / 2) (concat (map (halfface (cleared s h)) (cell_at s h)))).

Definition cell_mid (h : nat) (s : mesh) : mesh := reorder_edges (cell_es h s) (cleared s h).

Definition cell_tail (h : nat) (s1 : mesh) : mesh :=
  if deferred s1 then
    set_cdel (upd h true (cdel s1)) (set_counts (ndv s1) (nde s1) (ndf s1) (S (ndc s1)) s1)
  else
    let s2 := if negb (fast s1) && fbu s1 then set_inc_cell (map (option_map (cor1 h)) (inc_cell s1)) s1 else s1 in
    let s3 := set_cdel (remove_nth h (cdel s2)) (set_cells (remove_nth h (cells s2)) s2) in
    cell_deleted h s3.

Definition cell_victim (h0 : nat) (s0 : mesh) : nat := if fast s0 && negb (deferred s0) then nc s0 - 1 else h0.
Definition cell_swapped (h0 : nat) (s0 : mesh) : mesh :=
  if fast s0 && negb (deferred s0) then swap_cell_indices h0 (nc s0 - 1) s0 else s0.

Lemma delete_cell_core_split h0 s0 : ebu s0 = true -> fbu s0 = true ->
  delete_cell_core h0 s0 = cell_tail (cell_victim h0 s0) (cell_mid (cell_victim h0 s0) (cell_swapped h0 s0)).
Proof.
  intros E F. unfold delete_cell_core, cell_victim, cell_swapped.
  set (do_swap := fast s0 && negb (deferred s0)). set (h := if do_swap then nc s0 - 1 else h0).
  set (s := if do_swap then swap_cell_indices h0 h s0 else s0).
  assert (B : bv s = bv s0) by (unfold s; destruct do_swap; [apply bv_swap_cell|reflexivity]).
  assert (Es : ebu s = true) by (rewrite (bv_ebu _ _ B); exact E). assert (Fs : fbu s = true) by (rewrite (bv_fbu _ _ B); exact F).
  assert (Hs : s = (if do_swap then swap_cell_indices h0 (nc s0 - 1) s0 else s0)) by (unfold s, h; destruct do_swap; reflexivity).
  rewrite <- Hs. clearbody s h. rewrite Fs. cbv zeta.
  change (ebu (set_inc_cell ?x s)) with (ebu s). rewrite Es. reflexivity.
Qed.

(* ================================================================== stage 0: the swap with the last cell *)

Section SwapStage.
Context (P : nat -> Prop) (a b : nat) (s : mesh).
Hypothesis N : a <> b.
Hypothesis F : fbu s = true.
Hypothesis CS : cells_sound s.
Hypothesis LC : length (cdel s) = nc s.
Hypothesis Ha : a < nc s.
Hypothesis Hb : b < nc s.
Let t := swap_cell_indices a b s.

Lemma swc_reads :
  cells t = swap_nth a b [] (cells s) /\ cdel t = swap_nth a b false (cdel s) /\ faces t = faces s /\ fdel t = fdel s /\
  inc_hfs t = inc_hfs s /\ inc_cell t = map (option_map (swap_idx a b)) (inc_cell s).
Proof.
  pose proof (swap_cell_effect a b s N) as W. cbv zeta in W.
  destruct W as (c1&c2&_&_&_&c6&_&_&c9&_&c11&_). repeat split; try assumption.
  apply swap_cell_cache_relabeled; auto; intros hf H; exact (proj2 (CS hf _ H)).
Qed.

Lemma swc_cell_of x : cell_of t x = option_map (swap_idx a b) (cell_of s x).
Proof. destruct swc_reads as (_&_&_&_&_&IC). unfold cell_of. fold t in IC. rewrite IC. apply nth_map_option. Qed.

Lemma swc_halfface x : halfface t x = halfface s x.
Proof. destruct swc_reads as (_&_&c6&_). unfold halfface, face_at. fold t in c6. rewrite c6. reflexivity. Qed.

Lemma swc_hfs_at k : hfs_at t k = hfs_at s k.
Proof. destruct swc_reads as (_&_&_&_&c11&_). unfold hfs_at. fold t in c11. rewrite c11. reflexivity. Qed.

Lemma swc_inc_on h x : inc_on P s h x <-> inc_on P t h x.
Proof. unfold inc_on. rewrite swc_halfface. reflexivity. Qed.

Lemma swc_edge_map e : edge_map P P s t e e (fun x => x) (fun x => x).
Proof.
  destruct swc_reads as (c1&c2&_). fold t in c1, c2.
  apply (edge_map_of_reads_id P P s t e (swap_idx a b)).
  - intros x. apply swc_inc_on.
  - intros x _ Ec. rewrite swc_cell_of, Ec. reflexivity.
  - intros x c _ Ec. split; [rewrite swc_cell_of, Ec; reflexivity|]. split.
    + unfold c_deleted. rewrite c2. apply nth_swap_nth_idx; rewrite LC; assumption.
    + intros _. split; [unfold cell_at; rewrite c1; apply nth_swap_nth_idx; assumption|]. intros z _. apply swc_halfface.
Qed.

Lemma swc_exact_on e : exact_on P t e <-> exact_on P s e.
Proof.
  unfold exact_on. rewrite !swc_hfs_at.
  assert (A : forall h x, inc_on P t h x <-> inc_on P s h x) by (intros h x; symmetry; apply swc_inc_on).
  split; intros (X1 & X2 & X3 & X4); (split; [exact X1|split; [|split; [|exact X4]]]); intros x;
    [rewrite <- A; apply X2|rewrite <- A; apply X3|rewrite A; apply X2|rewrite A; apply X3].
Qed.

Theorem swap_cell_stage : inc_exact P s -> rot_on P s -> inc_exact P t /\ rot_on P t /\ cells_sound t /\ length (cdel t) = nc t /\ nc t = nc s.
Proof.
  intros X R. destruct swc_reads as (c1&c2&_). fold t in c1, c2.
  assert (NC : nc t = nc s) by (unfold nc; rewrite c1; apply swap_nth_length).
  split; [|split; [|split; [|split; [|exact NC]]]].
  - intros e x Hx. apply swc_exact_on. apply (X e x). apply swc_inc_on. exact Hx.
  - apply (rstate_transfer_id P P s t (conj R (inc_exact_fan P s X))). intros e _.
    split; [apply swc_edge_map|split; apply swc_hfs_at].
  - intros x c' Ec. rewrite swc_cell_of in Ec. destruct (cell_of s x) as [c|] eqn:E0; [|discriminate]. cbn [option_map] in Ec. injection Ec as <-.
    destruct (CS x c E0) as [A B]. split; [rewrite NC; apply swap_idx_lt; assumption|].
    unfold cell_at. rewrite c1, nth_swap_nth_idx by assumption. exact B.
  - rewrite c2, swap_nth_length, NC. exact LC.
Qed.
End SwapStage.

(* ================================================================== stage 1: clear the entries, reorder the edges of the cell *)

Lemma clear_fold_other h l acc x : ~ In x l -> nth x (fold_left (clear_step h) l acc) None = nth x acc None.
Proof. intros Nin. rewrite nth_clear_fold. replace (memb x l) with false; [reflexivity|]. symmetry. apply memb_false. exact Nin. Qed.

Lemma cleared_cell_of_other s h x : ~ In x (cell_at s h) -> cell_of (cleared s h) x = cell_of s x.
Proof. intros Nin. unfold cell_of, cleared. cbn [inc_cell set_inc_cell]. apply clear_fold_other. exact Nin. Qed.

Lemma cleared_no_entry s h : cells_sound s -> no_entry_to (cleared s h) h.
Proof.
  intros CS x Ec. unfold cell_of, cleared in Ec. cbn [inc_cell set_inc_cell] in Ec. rewrite nth_clear_fold in Ec.
  destruct (nth x (inc_cell s) None) as [c|] eqn:E0; cbn [is_h] in Ec; [|rewrite andb_false_r in Ec; discriminate].
  destruct (Nat.eqb_spec c h) as [->|Nc].
  - replace (memb x (cell_at s h)) with true in Ec; [discriminate|]. symmetry. apply memb_In. exact (proj2 (CS x h E0)).
  - rewrite andb_false_r in Ec. congruence.
Qed.

Lemma cleared_entries s h x c : cell_of (cleared s h) x = Some c -> cell_of s x = Some c.
Proof.
  unfold cell_of, cleared. cbn [inc_cell set_inc_cell]. rewrite nth_clear_fold.
  destruct (memb x (cell_at s h) && is_h h (nth x (inc_cell s) None)); [discriminate|auto].
Qed.

Lemma cell_es_In s h x he : In x (cell_at s h) -> In he (halfface s x) -> In (he / 2) (cell_es h s).
Proof.
  intros Hx Hh. unfold cell_es. apply set_of_list_In. apply (in_map (fun y => y / 2)). apply in_concat. exists (halfface s x).
  split; [|exact Hh]. apply in_map_iff. exists x. split; [reflexivity|exact Hx].
Qed.

Lemma around_not_in_cell P s h e x : ~ In e (cell_es h s) -> around P s e x -> ~ In x (cell_at s h).
Proof.
  intros Nin [[_ H]|[_ H]] Hx; apply Nin.
  - replace e with (2 * e / 2) by lia. exact (cell_es_In s h x _ Hx H).
  - replace e with ((2 * e + 1) / 2) by lia. exact (cell_es_In s h x _ Hx H).
Qed.

Lemma cleared_edge_map P s h e : ~ In e (cell_es h s) -> edge_map P P s (cleared s h) e e (fun x => x) (fun x => x).
Proof.
  intros Nin. apply (edge_map_of_reads_id P P s (cleared s h) e (fun c => c)).
  - intros x. reflexivity.
  - intros x Hx Ec. rewrite cleared_cell_of_other by (exact (around_not_in_cell P s h e x Nin Hx)). exact Ec.
  - intros x c Hx Ec. split; [rewrite cleared_cell_of_other by (exact (around_not_in_cell P s h e x Nin Hx)); exact Ec|].
    split; [reflexivity|]. intros _. split; [reflexivity|]. intros z _. reflexivity.
Qed.

Theorem cell_mid_stage P h s : inc_exact P s -> rot_on P s -> rstate P (cell_mid h s).
Proof.
  intros X R. unfold cell_mid. apply rstate_reorder_edges.
  - apply set_of_list_NoDup.
  - intros e Fa. destruct (fan_on_witness P _ e Fa) as [x Hx]. exact (X e x Hx).
  - intros e Nin Xe Fa.
    apply (rot_edge_transfer_id P P s (cleared s h) e R); [|reflexivity|reflexivity|exact Xe|exact Fa].
    destruct (cleared_edge_map P s h e Nin) as [m1 m2 m3 m4 m5 m6 m7]. constructor; assumption.
Qed.

Lemma cell_mid_reads h s : faces (cell_mid h s) = faces s /\ cells (cell_mid h s) = cells s /\ fdel (cell_mid h s) = fdel s /\
  cdel (cell_mid h s) = cdel s /\ inc_cell (cell_mid h s) = inc_cell (cleared s h) /\
  (deferred (cell_mid h s) = deferred s /\ fast (cell_mid h s) = fast s /\ fbu (cell_mid h s) = fbu s /\ ebu (cell_mid h s) = ebu s).
Proof.
  unfold cell_mid. pose proof (reorder_edges_frame (cell_es h s) (cleared s h)) as W. cbv zeta in W.
  destruct W as (_&_&a3&a4&_&_&a7&a8&_&a10&_&_&(_&m2&m3&m4&m5)). repeat split; assumption.
Qed.

(* ================================================================== stage 2: flag, or remove the slot *)

Section TailStage.
Context (P : nat -> Prop) (h : nat) (s1 : mesh).
Hypothesis F : fbu s1 = true.
Hypothesis NE : no_entry_to s1 h.
Hypothesis RG : forall x c, cell_of s1 x = Some c -> c < nc s1.
Hypothesis Hh : h < nc s1.
Hypothesis LC : length (cdel s1) = nc s1.
Hypothesis LAST : fast s1 = true -> deferred s1 = false -> h = nc s1 - 1.
Let t := cell_tail h s1.

Lemma ct_halfface x : halfface t x = halfface s1 x.
Proof. unfold t, cell_tail. destruct (deferred s1); [reflexivity|]. destruct (negb (fast s1) && fbu s1); reflexivity. Qed.

Lemma ct_hfs_at k : hfs_at t k = hfs_at s1 k.
Proof. unfold t, cell_tail. destruct (deferred s1); [reflexivity|]. destruct (negb (fast s1) && fbu s1); reflexivity. Qed.

Lemma ct_livef f : livef t f <-> livef s1 f.
Proof. unfold t, cell_tail. destruct (deferred s1); [reflexivity|]. destruct (negb (fast s1) && fbu s1); reflexivity. Qed.

Definition ct_r (c : nat) : nat := if deferred s1 then c else cor1 h c.

Lemma ct_cell x c : cell_of s1 x = Some c ->
  cell_of t x = Some (ct_r c) /\ c_deleted t (ct_r c) = c_deleted s1 c /\ cell_at t (ct_r c) = cell_at s1 c.
Proof.
  intros Ec. assert (Nc : c <> h) by (intros ->; exact (NE x Ec)). pose proof (RG x c Ec) as Hc.
  unfold t, cell_tail, ct_r. destruct (deferred s1) eqn:D.
  - split; [exact Ec|]. split; [|reflexivity]. unfold c_deleted. cbn [cdel set_cdel set_counts]. rewrite nth_upd.
    destruct (Nat.eqb_spec h c); [congruence|reflexivity].
  - destruct (fast s1) eqn:Fa; cbn [negb andb]; rewrite ?F.
    + (* fast: the last slot goes *)
      pose proof (LAST eq_refl eq_refl) as El. assert (Hlt : c < h) by lia.
      assert (C1 : cor1 h c = c) by (unfold cor1; destruct (Nat.ltb_spec h c); [lia|reflexivity]). rewrite C1.
      split; [exact Ec|]. split.
      * unfold c_deleted, cell_deleted, delete_prop_elem. cbn [cdel set_props set_cdel set_cells]. rewrite nth_remove_nth.
        destruct (Nat.ltb_spec c h); [reflexivity|lia].
      * unfold cell_at, cell_deleted, delete_prop_elem. cbn [cells set_props set_cdel set_cells]. rewrite nth_remove_nth.
        destruct (Nat.ltb_spec c h); [reflexivity|lia].
    + (* non-fast: the handles above h move down *)
      split; [|split].
      * unfold cell_of, cell_deleted, delete_prop_elem. cbn [inc_cell set_props set_cdel set_cells set_inc_cell].
        rewrite nth_map_option. unfold cell_of in Ec. rewrite Ec. reflexivity.
      * unfold c_deleted, cell_deleted, delete_prop_elem. cbn [cdel set_props set_cdel set_cells set_inc_cell].
        rewrite nth_remove_nth_unshift, unshift1_cor1 by exact Nc. reflexivity.
      * unfold cell_at, cell_deleted, delete_prop_elem. cbn [cells set_props set_cdel set_cells set_inc_cell].
        rewrite nth_remove_nth_unshift, unshift1_cor1 by exact Nc. reflexivity.
Qed.

Lemma ct_no_cell x : cell_of s1 x = None -> cell_of t x = None.
Proof.
  intros Ec. unfold t, cell_tail. destruct (deferred s1); [exact Ec|].
  destruct (fast s1); cbn [negb andb]; rewrite ?F; unfold cell_of, cell_deleted, delete_prop_elem;
    cbn [inc_cell set_props set_cdel set_cells set_inc_cell]; [exact Ec|].
  rewrite nth_map_option. unfold cell_of in Ec. rewrite Ec. reflexivity.
Qed.

Lemma ct_edge_map e : edge_map P P s1 t e e (fun x => x) (fun x => x).
Proof.
  apply (edge_map_of_reads_id P P s1 t e ct_r).
  - intros x. unfold inc_on. rewrite ct_halfface. reflexivity.
  - intros x _ Ec. apply ct_no_cell. exact Ec.
  - intros x c _ Ec. destruct (ct_cell x c Ec) as (A & B & C). split; [exact A|]. split; [exact B|]. intros _.
    split; [exact C|]. intros z _. apply ct_halfface.
Qed.

Theorem cell_tail_stage : rstate P s1 -> rstate P t.
Proof.
  intros R. apply (rstate_transfer_id P P s1 t R). intros e _. split; [apply ct_edge_map|split; apply ct_hfs_at].
Qed.
End TailStage.

(* ================================================================== the core *)

Lemma cell_tail_faces h s1 : faces (cell_tail h s1) = faces s1 /\ fdel (cell_tail h s1) = fdel s1.
Proof. unfold cell_tail. destruct (deferred s1); [split; reflexivity|]. destruct (negb (fast s1) && fbu s1); split; reflexivity. Qed.

Lemma cell_swapped_reads h0 s0 : faces (cell_swapped h0 s0) = faces s0 /\ fdel (cell_swapped h0 s0) = fdel s0 /\
  deferred (cell_swapped h0 s0) = deferred s0 /\ fast (cell_swapped h0 s0) = fast s0 /\ bv (cell_swapped h0 s0) = bv s0.
Proof.
  unfold cell_swapped. destruct (fast s0 && negb (deferred s0)); [|repeat split].
  destruct (Nat.eq_dec h0 (nc s0 - 1)) as [->|N]; [rewrite swap_cell_self; repeat split|].
  pose proof (swap_cell_effect h0 (nc s0 - 1) s0 N) as W. cbv zeta in W.
  destruct W as (_&_&_&_&_&c6&_&_&c9&_&_&_&_&_&_&_&_&_&(_&m2&m3&m4&m5)&_). repeat split; try assumption. unfold bv. congruence.
Qed.

Theorem rstate_delete_cell_core P h0 s0 :
  ebu s0 = true -> fbu s0 = true -> cells_sound s0 -> length (cdel s0) = nc s0 -> h0 < nc s0 ->
  inc_exact P s0 -> rot_on P s0 -> rstate P (delete_cell_core h0 s0).
Proof.
  intros E F CS LC Hh X R. rewrite (delete_cell_core_split h0 s0 E F).
  destruct (cell_swapped_reads h0 s0) as (_ & _ & Ds & Fs & Bs).
  assert (St : inc_exact P (cell_swapped h0 s0) /\ rot_on P (cell_swapped h0 s0) /\ cells_sound (cell_swapped h0 s0) /\
               length (cdel (cell_swapped h0 s0)) = nc (cell_swapped h0 s0) /\ nc (cell_swapped h0 s0) = nc s0).
  { unfold cell_swapped. destruct (fast s0 && negb (deferred s0)); [|auto].
    destruct (Nat.eq_dec h0 (nc s0 - 1)) as [Eq|N]; [rewrite Eq, swap_cell_self; auto|].
    apply swap_cell_stage; auto. lia. }
  set (s := cell_swapped h0 s0) in *. set (h := cell_victim h0 s0).
  destruct St as (Xs & Rs & CSs & LCs & NCs).
  assert (Hhs : h < nc s) by (unfold h, cell_victim; destruct (fast s0 && negb (deferred s0)); lia).
  pose proof (cell_mid_stage P h s Xs Rs) as M.
  destruct (cell_mid_reads h s) as (_ & m2 & _ & m4 & m5 & (m6 & m7 & m8 & _)).
  assert (NCm : nc (cell_mid h s) = nc s) by (unfold nc; rewrite m2; reflexivity).
  apply cell_tail_stage; [| | | | | |exact M].
  - rewrite m8. rewrite (bv_fbu _ _ Bs). exact F.
  - intros x Ec. unfold cell_of in Ec. rewrite m5 in Ec. exact (cleared_no_entry s h CSs x Ec).
  - intros x c Ec. unfold cell_of in Ec. rewrite m5 in Ec. rewrite NCm. exact (proj1 (CSs x c (cleared_entries s h x c Ec))).
  - rewrite NCm. exact Hhs.
  - rewrite m4, NCm. exact LCs.
  - rewrite m6, m7, Ds, Fs, NCm, NCs. intros Fa De. unfold h, cell_victim. rewrite Fa, De. reflexivity.
Qed.

Lemma delete_cell_core_faces h0 s0 : ebu s0 = true -> fbu s0 = true ->
  faces (delete_cell_core h0 s0) = faces s0 /\ fdel (delete_cell_core h0 s0) = fdel s0.
Proof.
  intros E F. rewrite (delete_cell_core_split h0 s0 E F).
  destruct (cell_swapped_reads h0 s0) as (a1 & a2 & _).
  destruct (cell_mid_reads (cell_victim h0 s0) (cell_swapped h0 s0)) as (b1 & _ & b3 & _).
  destruct (cell_tail_faces (cell_victim h0 s0) (cell_mid (cell_victim h0 s0) (cell_swapped h0 s0))) as (c1 & c2).
  split; congruence.
Qed.

Lemma livef_same_faces s t f : faces t = faces s -> fdel t = fdel s -> (livef s f <-> livef t f).
Proof. intros A B. unfold livef, live_f, nf, f_deleted. rewrite A, B. reflexivity. Qed.

(* a live or flagged cell of a state satisfying the cache invariant *)
Theorem rot_all_delete_cell_core h0 s0 : rinv s0 -> h0 < nc s0 -> rot_all s0 -> rot_all (delete_cell_core h0 s0).
Proof.
  intros G Hh R. destruct (ebu s0 && fbu s0) eqn:B.
  2:{ apply rot_all_off. rewrite (bv_both _ _ (bv_delete_cell_core h0 s0)). exact B. }
  apply andb_true_iff in B. destruct B as [E F].
  destruct (delete_cell_core_faces h0 s0 E F) as [A1 A2].
  apply (rot_all_of_rstate (livef s0)); [intros f; apply livef_same_faces; assumption|].
  apply rstate_delete_cell_core; auto.
  - apply rinv_cells_sound; assumption.
  - destruct G as (_ & _ & _ & (_ & _ & _ & _ & _ & L6) & _). exact L6.
  - apply rinv_inc_exact; assumption.
Qed.

(* the step of collect_garbage: the flag of a flagged cell is cleared, then the core runs *)
Theorem rot_all_gc_cell_step h s : rinv s -> h < nc s -> c_deleted s h = true -> rot_all s -> rot_all (delete_cell_core h (clr_c h s)).
Proof.
  intros G Hh Hd R. destruct (ebu s && fbu s) eqn:B.
  2:{ apply rot_all_off. rewrite (bv_both _ _ (bv_delete_cell_core h (clr_c h s))). exact B. }
  apply andb_true_iff in B. destruct B as [E F].
  pose proof G as (_ & FO & _ & (_ & _ & L3 & _ & _ & L6) & _).
  pose proof (rinv_cells_sound s G F) as CS.
  set (t0 := clr_c h s).
  assert (E0 : ebu t0 = true) by exact E. assert (F0 : fbu t0 = true) by exact F.
  destruct (delete_cell_core_faces h t0 E0 F0) as [A1 A2].
  apply (rot_all_of_rstate (livef s)); [intros f; apply (livef_same_faces s); assumption|].
  apply rstate_delete_cell_core; auto.
  - unfold t0, clr_c. cbn [cdel set_cdel]. rewrite upd_length. exact L6.
  - exact (rinv_inc_exact s G E F).
  - (* the cleared flag is read by no halfface *)
    apply (rstate_transfer_id (livef s) (livef s) s t0 (rinv_rstate s G E F R)). intros e _. split; [|split; reflexivity].
    apply (edge_map_of_reads_id (livef s) (livef s) s t0 e (fun c => c)).
    + intros x. reflexivity.
    + intros x _ Ec. exact Ec.
    + intros x c _ Ec. split; [exact Ec|]. split; [|intros _; split; [reflexivity|intros z _; reflexivity]].
      assert (Nc : c <> h).
      { intros ->. destruct (Nat.lt_ge_cases x (2 * nf s)) as [Hx|Hx].
        - destruct (proj1 (FO F x Hx h) Ec) as (_ & Q & _). congruence.
        - unfold cell_of in Ec. rewrite nth_overflow in Ec by (rewrite (L3 F); exact Hx). discriminate. }
      unfold c_deleted, t0, clr_c. cbn [cdel set_cdel]. rewrite nth_upd. destruct (Nat.eqb_spec h c); [congruence|reflexivity].
Qed.
