(* Kernel5/RotFlags.v -- the two incidence flags read by rot_all (edge and face bottom-up incidences) are not changed by the swaps,
   by reorder_edges, by the four delete_*_core (every mode), by the public deletions and by collect_garbage. *)
From Coq Require Import ZArith Lia Bool Arith List ZifyNat ZifyBool.
From OVM Require Import Base.ListX Base.ListLemmas Kernel.State Kernel.Ops Kernel.Construct Kernel.SwapEffects.
Import ListNotations.
Local Open Scope nat_scope.

Definition bv (s : mesh) := (ebu s, fbu s).

Lemma bv_swap_cell a b s : bv (swap_cell_indices a b s) = bv s.
Proof. destruct (Nat.eq_dec a b) as [->|N]; [rewrite swap_cell_self; reflexivity|]. pose proof (swap_cell_effect a b s N) as E. cbv zeta in E.
  destruct E as (_&_&_&_&_&_&_&_&_&_&_&_&_&_&_&_&_&_&(_&f2&f3&_)&_). unfold bv. congruence. Qed.
Lemma bv_swap_face a b s : bv (swap_face_indices a b s) = bv s.
Proof. destruct (Nat.eq_dec a b) as [->|N]; [rewrite swap_face_self; reflexivity|]. pose proof (swap_face_effect a b s N) as E. cbv zeta in E.
  destruct E as (_&_&_&_&_&_&_&_&_&_&_&_&_&_&_&_&(_&f2&f3&_)&_). unfold bv. congruence. Qed.
Lemma bv_swap_edge a b s : bv (swap_edge_indices a b s) = bv s.
Proof. destruct (Nat.eq_dec a b) as [->|N]; [rewrite swap_edge_self; reflexivity|]. pose proof (swap_edge_effect a b s N) as E. cbv zeta in E.
  destruct E as (_&_&_&_&_&_&_&_&_&_&_&_&_&_&_&_&(_&f2&f3&_)&_). unfold bv. congruence. Qed.
Lemma bv_swap_vertex a b s : bv (swap_vertex_indices a b s) = bv s.
Proof. destruct (Nat.eq_dec a b) as [->|N]; [rewrite swap_vertex_self; reflexivity|]. pose proof (swap_vertex_effect a b s N) as E. cbv zeta in E.
  destruct E as (_&_&_&_&_&_&_&_&_&_&_&_&_&_&_&_&_&(_&f2&f3&_)&_). unfold bv. congruence. Qed.

Lemma bv_reorder_edges es s : bv (reorder_edges es s) = bv s.
Proof.
  pose proof (reorder_edges_frame es s) as R. cbv zeta in R.
  destruct R as (_&_&_&_&_&_&_&_&_&_&_&_&(_&C2&C3&_&_)). unfold bv. congruence.
Qed.
Lemma bv_reorder_one e s : bv (reorder_incident_halffaces e s) = bv s.
Proof. exact (bv_reorder_edges [e] s). Qed.

Lemma fold_bv {X} (f : mesh -> X -> mesh) : (forall s x, bv (f s x) = bv s) -> forall l s, bv (fold_left f l s) = bv s.
Proof. intros H l. induction l as [|x l IH]; intros s; [reflexivity|]. simpl. rewrite IH. apply H. Qed.

Lemma bv_delete_cell_core h0 s : bv (delete_cell_core h0 s) = bv s.
Proof.
  unfold delete_cell_core.
  set (do_swap := fast s && negb (deferred s)). set (h := if do_swap then nc s - 1 else h0).
  set (s_ := if do_swap then swap_cell_indices h0 h s else s).
  assert (Hs : bv s_ = bv s) by (unfold s_; destruct do_swap; [apply bv_swap_cell|reflexivity]).
  clearbody s_ h. rewrite <- Hs. clear Hs do_swap s.
  match goal with |- bv (if deferred ?x then _ else _) = _ => set (s1 := x) end.
  assert (L1 : bv s1 = bv s_).
  { unfold s1. destruct (fbu s_); [|reflexivity].
    match goal with |- bv (if ?b then reorder_edges ?es ?t else ?t) = _ => destruct b; [rewrite bv_reorder_edges|]; reflexivity end. }
  clearbody s1. rewrite <- L1. destruct (deferred s1); [reflexivity|].
  destruct (negb (fast s1) && fbu s1); reflexivity.
Qed.

Lemma bv_delete_face_core h0 s : bv (delete_face_core h0 s) = bv s.
Proof.
  unfold delete_face_core.
  set (do_swap := fast s && negb (deferred s)). set (h := if do_swap then nf s - 1 else h0).
  set (s_ := if do_swap then swap_face_indices h0 h s else s).
  assert (Hs : bv s_ = bv s) by (unfold s_; destruct do_swap; [apply bv_swap_face|reflexivity]).
  clearbody s_ h. rewrite <- Hs. clear Hs do_swap s.
  match goal with |- bv (if deferred ?x then _ else _) = _ => set (s1 := x) end.
  assert (L1 : bv s1 = bv s_).
  { unfold s1. destruct (ebu s_); [|reflexivity]. apply fold_bv. intros t he.
    match goal with |- bv (if ?b then reorder_incident_halffaces ?e ?u else ?u) = _ => destruct b; [rewrite bv_reorder_one|]; reflexivity end. }
  clearbody s1. rewrite <- L1. destruct (deferred s1); [reflexivity|].
  repeat match goal with |- context [if ?b then _ else _] => destruct b eqn:? end; reflexivity.
Qed.

Lemma bv_delete_edge_core h0 s : bv (delete_edge_core h0 s) = bv s.
Proof.
  unfold delete_edge_core.
  set (do_swap := fast s && negb (deferred s)). set (h := if do_swap then ne s - 1 else h0).
  set (s_ := if do_swap then swap_edge_indices h0 h s else s).
  assert (Hs : bv s_ = bv s) by (unfold s_; destruct do_swap; [apply bv_swap_edge|reflexivity]).
  clearbody s_ h. rewrite <- Hs. clear Hs do_swap s.
  match goal with |- bv (if deferred ?x then _ else _) = _ => set (s1 := x) end.
  assert (L1 : bv s1 = bv s_) by (unfold s1; destruct (vbu s_); [|reflexivity]; destruct (edge_at s_ h); reflexivity).
  clearbody s1. rewrite <- L1. destruct (deferred s1); [reflexivity|].
  repeat match goal with |- context [if ?b then _ else _] => destruct b eqn:? end; reflexivity.
Qed.

Lemma bv_delete_vertex_core h0 s : bv (delete_vertex_core h0 s) = bv s.
Proof.
  unfold delete_vertex_core.
  set (do_swap := fast s && negb (deferred s)). set (h := if do_swap then nv s - 1 else h0).
  set (s_ := if do_swap then swap_vertex_indices h0 h s else s).
  assert (Hs : bv s_ = bv s) by (unfold s_; destruct do_swap; [apply bv_swap_vertex|reflexivity]).
  clearbody s_ h. rewrite <- Hs. clear Hs do_swap s.
  repeat match goal with |- context [if ?b then _ else _] => destruct b eqn:? end; reflexivity.
Qed.

Lemma bv_del_desc core l s : (forall h t, bv (core h t) = bv t) -> bv (del_desc core l s) = bv s.
Proof. intros H. unfold del_desc. apply fold_bv. intros t x. apply H. Qed.

Lemma bv_delete_cell c s : bv (delete_cell c s) = bv s.
Proof. apply bv_delete_cell_core. Qed.
Lemma bv_delete_face f s : bv (delete_face f s) = bv s.
Proof. unfold delete_face. rewrite bv_delete_face_core. apply bv_del_desc, bv_delete_cell_core. Qed.
Lemma bv_delete_edge e s : bv (delete_edge e s) = bv s.
Proof. unfold delete_edge. rewrite bv_delete_edge_core, (bv_del_desc delete_face_core) by apply bv_delete_face_core. apply bv_del_desc, bv_delete_cell_core. Qed.
Lemma bv_delete_vertex v s : bv (delete_vertex v s) = bv s.
Proof.
  unfold delete_vertex. rewrite bv_delete_vertex_core, (bv_del_desc delete_edge_core) by apply bv_delete_edge_core.
  rewrite (bv_del_desc delete_face_core) by apply bv_delete_face_core. apply bv_del_desc, bv_delete_cell_core.
Qed.

Lemma bv_gc_pass n is_del clr core s :
  (forall i t, bv (clr i t) = bv t) -> (forall i t, bv (core i t) = bv t) -> bv (gc_pass n is_del clr core s) = bv s.
Proof.
  intros Hc Hcore. unfold gc_pass. apply fold_bv. intros t i. destruct (is_del t i); [|reflexivity]. rewrite Hcore. apply Hc.
Qed.

Lemma bv_collect_garbage s : bv (collect_garbage s) = bv s.
Proof.
  unfold collect_garbage. destruct (negb (deferred s) || negb (needs_gc s)); [reflexivity|]. cbv zeta.
  set (s0 := set_flags (vbu s) (ebu s) (fbu s) false (fast s) s).
  assert (C0 : bv s0 = bv s) by reflexivity.
  set (p1 := gc_pass (nc s0) c_deleted _ delete_cell_core s0).
  assert (C1 : bv p1 = bv s0) by (apply bv_gc_pass; [reflexivity|intros; apply bv_delete_cell_core]).
  set (s1 := set_counts (ndv p1) (nde p1) (ndf p1) 0 p1).
  assert (D1 : bv s1 = bv p1) by reflexivity.
  set (p2 := gc_pass (nf s1) f_deleted _ delete_face_core s1).
  assert (C2 : bv p2 = bv s1) by (apply bv_gc_pass; [reflexivity|intros; apply bv_delete_face_core]).
  set (s2 := set_counts (ndv p2) (nde p2) 0 (ndc p2) p2).
  assert (D2 : bv s2 = bv p2) by reflexivity.
  set (p3 := gc_pass (ne s2) e_deleted _ delete_edge_core s2).
  assert (C3 : bv p3 = bv s2) by (apply bv_gc_pass; [reflexivity|intros; apply bv_delete_edge_core]).
  set (s3 := set_counts (ndv p3) 0 (ndf p3) (ndc p3) p3).
  assert (D3 : bv s3 = bv p3) by reflexivity.
  set (p4 := gc_pass (nv s3) v_deleted _ delete_vertex_core s3).
  assert (C4 : bv p4 = bv s3) by (apply bv_gc_pass; [reflexivity|intros; apply bv_delete_vertex_core]).
  clearbody p4 s3 p3 s2 p2 s1 p1 s0.
  change (bv p4 = bv s). congruence.
Qed.

Lemma bv_both s t : bv t = bv s -> ebu t && fbu t = ebu s && fbu s.
Proof. unfold bv. intros E. injection E as -> ->. reflexivity. Qed.
Lemma bv_ebu s t : bv t = bv s -> ebu t = ebu s.
Proof. unfold bv. intros E. injection E as -> _. reflexivity. Qed.
Lemma bv_fbu s t : bv t = bv s -> fbu t = fbu s.
Proof. unfold bv. intros E. injection E as _ ->. reflexivity. Qed.
