(* Kernel5/RotEdgeCore.v -- C09 at history level, step 4 (edges): delete_edge_core keeps rot_all.
   No list is re-ordered here; the core renames:
     deferred mode        only the edge flag and the vertex->halfedge lists change (frame);
     immediate non-fast   the halfedge handles in the faces move down (cor2), the two lists of the dying edge leave the cache;
     immediate fast       swap_edge_indices h last (Kernel5/RotSwap.v), then the last two lists leave the cache. *)
From Coq Require Import ZArith Lia Bool Arith List ZifyNat ZifyBool.
From OVM Require Import Base.ListX Base.ListLemmas Kernel.State Kernel.Ops Kernel.Mirror Kernel.Recompute Kernel.Closure Kernel.ExactInv
                        Kernel.SwapEffects Kernel.SwapFaceCache Kernel.SwapEdgeCache Kernel.ShiftFace Kernel.ShiftEdge Kernel.ShiftCompose
                        Kernel2.LookupModel Kernel2.ListAux Kernel2.AdjacentProofs Kernel2.RotationProofs Kernel2.ReorderExact
                        Kernel2.ExactBase Kernel3.GcDefs Kernel3.GcInv Kernel3.FastDefs Kernel3.FastBase Kernel3.FastEdge
                        Kernel5.RotDefs Kernel5.RotTransfer Kernel5.RotAdj Kernel5.RotReorder Kernel5.RotFrame Kernel5.RotOpsFrame Kernel5.RotExact
                        Kernel5.RotRename Kernel5.RotStage Kernel5.RotFlags Kernel5.RotSwap Kernel5.RotFaceCore.
Import ListNotations.
Ltac Zify.zify_post_hook ::= Z.div_mod_to_equations.
Local Open Scope nat_scope.

(* ================================================================== deferred mode: a frame *)

Lemma same_rot_delete_edge_core_def h s : deferred s = true -> same_rot s (delete_edge_core h s).
Proof.
  intros D. unfold delete_edge_core. rewrite D. cbn [negb]. rewrite andb_false_r.
  destruct (vbu s); [destruct (edge_at s h)|]; cbn [deferred set_out_hes]; rewrite D; same_rot_refl.
Qed.

Theorem rot_all_delete_edge_core_def h s : deferred s = true -> rot_all s -> rot_all (delete_edge_core h s).
Proof. intros D. apply rot_all_same, same_rot_delete_edge_core_def, D. Qed.

(* ================================================================== immediate non-fast mode *)

Lemma halfface_In_free s h x w : edge_free s h -> In w (halfface s x) -> w / 2 <> h.
Proof.
  intros FF Hw. apply In_halfface in Hw. destruct (Nat.even x); [exact (FF _ _ Hw)|]. pose proof (FF _ _ Hw) as Q. rewrite opp_div2 in Q. exact Q.
Qed.

Lemma cor2_double h e : e <> h -> cor2 (2 * h + 1) (2 * e) = 2 * cor1 h e.
Proof. intros N. unfold cor2, cor1. ltb_cases; lia. Qed.

Lemma unshift2_double h e : unshift2 h (2 * e) = 2 * unshift1 h e /\ unshift2 h (2 * e + 1) = 2 * unshift1 h e + 1.
Proof. unfold unshift2, unshift1. ltb_cases; lia. Qed.

(* the renaming, from what the two states store *)
Lemma edge_shift_rstate s t h :
  edge_free s h -> (forall x, halfface t x = map (cor2 (2 * h + 1)) (halfface s x)) ->
  inc_cell t = inc_cell s -> cells t = cells s -> cdel t = cdel s ->
  inc_hfs t = remove_nth (2 * h) (remove_nth (2 * h + 1) (inc_hfs s)) ->
  rstate (livef s) s -> rstate (livef s) t.
Proof.
  intros FF HF w11 v4 w8 w10 R. set (k := cor2 (2 * h + 1)) in *.
  apply (rstate_transfer (livef s) (livef s) s t R). intros e' _.
  set (e := unshift1 h e').
  assert (Ne : e <> h) by apply unshift1_neq.
  assert (Ke : k (2 * e) = 2 * e') by (unfold k, e; rewrite cor2_double by apply unshift1_neq; rewrite cor1_unshift1; reflexivity).
  assert (IO : forall x, inc_on (livef s) s (2 * e) x <-> inc_on (livef s) t (2 * e') x).
  { intros x. unfold inc_on. rewrite HF. split; intros [A Bx]; (split; [exact A|]).
    - rewrite <- Ke. apply in_map. exact Bx.
    - apply in_map_iff in Bx. destruct Bx as [w [Ew Hw]]. rewrite <- Ke in Ew.
      assert (w = 2 * e); [|subst w; exact Hw].
      apply (cor2_inj_on h); [exact (halfface_In_free s h x w FF Hw)|replace (2 * e / 2) with e by lia; exact Ne|exact Ew]. }
  exists e, (fun x => x), (fun x => x). split; [|split].
  - apply (edge_map_of_reads (livef s) (livef s) s t e e' (fun x => x) (fun x => x) k (fun c => c) (fun _ => True) (fun w => w / 2 <> h)); auto.
    + intros x Hx. split; [apply IO; exact Hx|reflexivity].
    + intros y Hy. split; [apply IO; exact Hy|reflexivity].
    + intros a b Da Db. apply cor2_inj_on; assumption.
    + intros a Da. split; [rewrite opp_div2; exact Da|apply cor2_opp].
    + replace (2 * e / 2) with e by lia. exact Ne.
    + intros x _ Ec. unfold cell_of in *. rewrite w11. exact Ec.
    + intros x c _ Ec. split; [unfold cell_of in *; rewrite w11; exact Ec|]. split; [unfold c_deleted; rewrite w8; reflexivity|]. intros _.
      split; [rewrite map_id; unfold cell_at; rewrite v4; reflexivity|]. split; [auto|]. intros z _.
      split; [apply HF|]. intros w Hw. exact (halfface_In_free s h z w FF Hw).
  - rewrite map_id. unfold hfs_at. rewrite w10, nth_remove_two_unshift, (proj1 (unshift2_double h e')). reflexivity.
  - rewrite map_id. unfold hfs_at. rewrite w10, nth_remove_two_unshift, (proj2 (unshift2_double h e')). reflexivity.
Qed.

Lemma halfface_cor2_faces s t h : faces t = map (map (cor2 (2 * h + 1))) (faces s) ->
  forall x, halfface t x = map (cor2 (2 * h + 1)) (halfface s x).
Proof. intros v3 x. apply halfface_map_faces; [intros y; apply cor2_opp|]. unfold face_at. rewrite v3. apply nth_map_map. Qed.

Theorem rot_all_delete_edge_core_shift h s :
  deferred s = false -> fast s = false -> shift_inv2 s -> h < ne s -> edge_free s h -> rot_all s -> rot_all (delete_edge_core h s).
Proof.
  intros D Fa I Hh FF R. destruct (ebu s && fbu s) eqn:B.
  2:{ apply rot_all_off. rewrite (bv_both _ _ (bv_delete_edge_core h s)). exact B. }
  apply andb_true_iff in B. destruct B as [E F]. pose proof (shift_inv2_rinv s I) as G.
  pose proof (edge_step h s D Fa I Hh FF) as St. cbv zeta in St. destruct St as (_ & _ & _ & _ & _ & v3 & v4 & _).
  pose proof (delete_edge_core_view h s D Fa) as V. cbv zeta in V.
  destruct V as (_ & _ & _ & _ & _ & _ & w7 & w8 & _ & w10 & w11 & (_ & m2 & m3 & _)). rewrite E in w10.
  set (t := delete_edge_core h s) in *.
  assert (LFq : forall f, livef t f <-> livef s f).
  { intros f. unfold livef, live_f, nf, f_deleted. rewrite v3, w7, map_length. reflexivity. }
  apply (rot_all_of_rstate (livef s)); [intros f; symmetry; apply LFq|].
  apply (edge_shift_rstate s t h FF (halfface_cor2_faces s t h v3) w11 v4 w8 w10). exact (rinv_rstate s G E F R).
Qed.

(* ================================================================== immediate fast mode *)

Theorem rot_all_delete_edge_core_fast h0 s :
  deferred s = false -> fast s = true -> shift_inv2 s -> h0 < ne s -> edge_free s h0 -> rot_all s -> rot_all (delete_edge_core h0 s).
Proof.
  intros D Fa I Hh FF R. destruct (ebu s && fbu s) eqn:B.
  2:{ apply rot_all_off. rewrite (bv_both _ _ (bv_delete_edge_core h0 s)). exact B. }
  apply andb_true_iff in B. destruct B as [E F].
  pose proof (fast_edge_step h0 s D Fa I Hh FF) as St. cbv zeta in St. destruct St as (I' & _ & _ & _ & _ & _ & c' & _).
  revert I' c'. rewrite (fast_edge_split h0 s D Fa). set (l := ne s - 1). assert (Hl : l < ne s) by (unfold l; lia).
  set (t := swap_edge_indices h0 l s). intros I' c'.
  destruct (swap_edge_modes h0 l s) as (Dt & Ft & Nt & _ & _ & Et & Bt). fold t in Dt, Ft, Nt, Et, Bt.
  assert (It : shift_inv2 t) by (apply shift_inv2_swap_edge; assumption).
  destruct (swap_edge_defs h0 l s I Hh Hl) as (_ & Fct & Ct). fold t in Fct, Ct.
  assert (Rt : rot_all t).
  { apply rot_all_swap_edge_gen; auto; [apply shift_inv2_rinv; exact I| |].
    - intros f _ _. unfold face_at. fold t. rewrite Fct. apply nth_map_map_half.
    - fold t. unfold nf. rewrite Fct, map_length. reflexivity. }
  assert (FFt : edge_free t l).
  { intros f he Hhe. unfold face_at in Hhe. rewrite Fct, nth_map_map_half in Hhe. apply in_map_iff in Hhe. destruct Hhe as [y [<- Hy]].
    pose proof (FF f y Hy) as Ny. destruct (swap_half_spec h0 l y) as [Q _]. change (tr2 h0 l y) with (swap_half h0 l y). rewrite Q. unfold swap_idx.
    destruct (Nat.eqb_spec (y / 2) h0); [congruence|]. destruct (Nat.eqb_spec (y / 2) l); congruence. }
  assert (Et' : ebu t = true) by congruence. assert (Ft' : fbu t = true) by congruence.
  pose proof (shift_inv2_rinv t It) as Gt. pose proof Gt as (_ & _ & RO & _).
  pose proof (fast_edge_view t ltac:(congruence) ltac:(congruence)) as V. cbv zeta in V. rewrite Nt in V. fold l in V.
  destruct V as (v1 & _ & v3 & v4 & _). rewrite Et' in v3.
  set (u := delete_edge_core l t) in *.
  pose proof It as ((NFt & _) & _). pose proof I' as ((NFu & _) & _).
  destruct NFt as (_ & _ & NFtf & NFtc). destruct NFu as (_ & _ & NFuf & NFuc).
  assert (c4 : cells u = cells t) by (rewrite c', Ct; reflexivity).
  assert (LFq : forall f, livef u f <-> livef t f).
  { intros f. unfold livef, live_f, nf. rewrite v1, NFtf, NFuf. reflexivity. }
  assert (HF : forall x, halfface u x = halfface t x) by (intros x; unfold halfface, face_at; rewrite v1; reflexivity).
  intros _ _. apply (rot_on_ext (livef t)); [intros f; symmetry; apply LFq|].
  apply (rstate_transfer_id (livef t) (livef t) t u (rinv_rstate t Gt Et' Ft' Rt)). intros e Fe.
  assert (IO : forall k x, inc_on (livef t) t k x <-> inc_on (livef t) u k x) by (intros k x; unfold inc_on; rewrite HF; reflexivity).
  assert (He : e < l).
  { destruct (fan_on_witness _ _ _ Fe) as [x Hx]. apply IO in Hx. pose proof (inc_edge_lt t e x RO Hx) as Q. rewrite Nt in Q.
    destruct Hx as [_ Hx]. pose proof (halfface_In_free t l x _ FFt Hx). unfold l in *. lia. }
  split; [|split].
  - apply (edge_map_of_reads_id (livef t) (livef t) t u e (fun c => c)).
    + intros x. apply IO.
    + intros x _ Ec. unfold cell_of in *. rewrite v4. exact Ec.
    + intros x c _ Ec. split; [unfold cell_of in *; rewrite v4; exact Ec|]. split; [rewrite NFtc, NFuc; reflexivity|]. intros _.
      split; [unfold cell_at; rewrite c4; reflexivity|]. intros z _. apply HF.
  - unfold hfs_at. rewrite v3, nth_remove_two_unshift. unfold unshift2. destruct (Nat.ltb_spec (2 * e) (2 * l)); [reflexivity|lia].
  - unfold hfs_at. rewrite v3, nth_remove_two_unshift. unfold unshift2. destruct (Nat.ltb_spec (2 * e + 1) (2 * l)); [reflexivity|lia].
Qed.

Theorem rot_all_delete_edge_core_imm h s :
  deferred s = false -> shift_inv2 s -> h < ne s -> edge_free s h -> rot_all s -> rot_all (delete_edge_core h s).
Proof. intros D I Hh FF R. destruct (fast s) eqn:Fa; [apply rot_all_delete_edge_core_fast|apply rot_all_delete_edge_core_shift]; assumption. Qed.
