(* Kernel5/RotDelete.v -- C09 at history level, step 4: the four public deletions keep rot_all in all four (deferred x fast) modes.
   A public deletion is a descending loop of cell cores, then of face cores, then of edge cores, then one vertex core; the
   intermediate states satisfy the existing invariants (deferred mode: bu_inv2, Kernel2/ExactDeletions.v; immediate modes: shift_inv2
   with the free-ness conditions, Kernel/ShiftCompose.v and Kernel3/FastPhases.v), and each core keeps rot_all
   (Kernel5/RotCellCore.v, RotFaceCore.v, RotEdgeCore.v, RotOpsFrame.v). *)
From Coq Require Import ZArith Lia Bool Arith List ZifyNat ZifyBool.
From OVM Require Import Base.ListX Base.ListLemmas Kernel.State Kernel.Ops Kernel.Mirror Kernel.Recompute Kernel.Closure Kernel.ExactInv
                        Kernel.DeferredDelete Kernel.ShiftFace Kernel.ShiftEdge Kernel.ShiftVertex Kernel.ShiftCompose
                        Kernel2.LookupModel Kernel2.ListAux Kernel2.ReorderExact Kernel2.ExactBase Kernel2.ExactDelCell Kernel2.ExactDelFace
                        Kernel2.ExactDeletions Kernel3.GcDefs Kernel3.FastDefs Kernel3.FastBase Kernel3.FastCell Kernel3.FastFace Kernel3.FastEdge
                        Kernel3.FastMany Kernel3.FastPhases
                        Kernel5.RotDefs Kernel5.RotFrame Kernel5.RotOpsFrame Kernel5.RotExact Kernel5.RotStage Kernel5.RotFlags
                        Kernel5.RotCellCore Kernel5.RotFaceCore Kernel5.RotEdgeCore.
Import ListNotations.
Ltac Zify.zify_post_hook ::= Z.div_mod_to_equations.
Local Open Scope nat_scope.

(* ================================================================== deferred mode, both incidence kinds on *)

Lemma bu_inv2_rinv s : bu_inv2 s -> rinv s.
Proof.
  intros ((_ & EO & FO & R & L) & _ & _ & _ & SN & CL & _). exact (conj EO (conj FO (conj R (conj L (conj CL (fun _ _ => SN)))))).
Qed.

Definition dinv (s : mesh) : Prop := bu_inv2 s /\ rot_all s.

Lemma dinv_cell_core t x : dinv t -> ok_cell t x -> dinv (delete_cell_core x t).
Proof.
  intros [I R] [A B]. split; [apply bu_inv2_delete_cell_core; assumption|].
  apply rot_all_delete_cell_core; [apply bu_inv2_rinv; exact I|exact A|exact R].
Qed.

Lemma dinv_face_core t x : dinv t -> ok_face t x -> dinv (delete_face_core x t).
Proof.
  intros [I R] (A & B & C & D'). split; [apply bu_inv2_delete_face_core; assumption|].
  pose proof I as (_ & _ & _ & D & _ & _ & _ & FS).
  apply rot_all_delete_face_core_def; [exact D|apply bu_inv2_rinv; exact I|exact A|exact (FS x A B)|exact R].
Qed.

Lemma dinv_edge_core t x : dinv t -> ok_edge t x -> dinv (delete_edge_core x t).
Proof.
  intros [I R] [A B]. split; [apply bu_inv2_delete_edge_core; assumption|].
  pose proof I as (_ & _ & _ & D & _). apply rot_all_delete_edge_core_def; assumption.
Qed.

Lemma dinv_del_desc_cells l s : NoDup l -> dinv s -> (forall c, In c l -> ok_cell s c) -> dinv (del_desc delete_cell_core l s).
Proof.
  intros N I O. apply (del_desc_inv delete_cell_core dinv ok_cell); auto.
  - intros t x It Ox. apply dinv_cell_core; assumption.
  - intros t x y [It _] [A B] [C D'] Nxy. destruct (bu_inv2_flags t It) as (E & F & D).
    destruct (ExactDelCell.delete_cell_core_view x t D F E) as (_&_&_&w4&_&_&w7&_). unfold ok_cell, nc, c_deleted. rewrite w4, w7.
    rewrite Base.ListLemmas.nth_upd_neq by exact Nxy. split; assumption.
Qed.

Lemma dinv_del_desc_faces l s : NoDup l -> dinv s -> (forall f, In f l -> ok_face s f) -> dinv (del_desc delete_face_core l s).
Proof.
  intros N I O. apply (del_desc_inv delete_face_core dinv ok_face); auto.
  - intros t x It Ox. apply dinv_face_core; assumption.
  - intros t x y [It _] _ (A & B & C & D') Nxy. destruct (bu_inv2_flags t It) as (E & F & D).
    destruct (ExactDelFace.delete_face_core_view x t D E) as (_&_&w3&_&_&_&w7&_&w9&_).
    unfold ok_face, nf, f_deleted, cell_of. rewrite w3, w7, w9.
    rewrite Base.ListLemmas.nth_upd_neq by exact Nxy. repeat split; assumption.
Qed.

Lemma dinv_del_desc_edges l s : NoDup l -> dinv s -> (forall e, In e l -> ok_edge s e) -> dinv (del_desc delete_edge_core l s).
Proof.
  intros N I O. apply (del_desc_inv delete_edge_core dinv ok_edge); auto.
  - intros t x It Ox. apply dinv_edge_core; assumption.
  - intros t x y [It _] _ [C D'] Nxy. destruct (bu_inv2_flags t It) as (E & F & D).
    destruct (ExactDeletions.delete_edge_core_view x t D) as (w1 & w2 & _). unfold ok_edge, ne, e_deleted. rewrite w1, w2.
    rewrite Base.ListLemmas.nth_upd_neq by exact Nxy. split; assumption.
Qed.

(* the phases, as in Kernel2/ExactDeletions.v, with rot_all carried along *)
Lemma dinv_cells_phase s fs : dinv s -> (forall f, In f fs -> f < nf s) ->
  dinv (del_desc delete_cell_core (incident_cells_of_faces s fs) s).
Proof.
  intros [I R] Hfs. pose proof I as ((_ & _ & FO & _) & _).
  assert (Ecs : incident_cells_of_faces s fs = cells_at_faces s fs) by (apply incident_cells_cache_is_scan; assumption).
  apply dinv_del_desc_cells; [rewrite Ecs; apply NoDup_cells_at_faces|exact (conj I R)|].
  intros c Hc. rewrite Ecs in Hc. exact (cells_at_faces_live s fs c Hc).
Qed.

Theorem rot_all_delete_cell_def c s : bu_inv2 s -> c < nc s -> c_deleted s c = false -> rot_all s -> rot_all (delete_cell c s).
Proof. intros I Hc Hl R. exact (proj2 (dinv_cell_core s c (conj I R) (conj Hc Hl))). Qed.

Theorem dinv_delete_face f s : dinv s -> f < nf s -> f_deleted s f = false -> dinv (delete_face f s).
Proof.
  intros [I R] Hf Hl. unfold delete_face.
  assert (Hfs : forall x, In x [f] -> x < nf s) by (intros x [<-|[]]; exact Hf).
  destruct (ExactDeletions.cells_phase s [f] I Hfs) as (_ & _ & O).
  apply dinv_face_core; [apply dinv_cells_phase; [exact (conj I R)|exact Hfs]|exact (O f (or_introl eq_refl) Hl)].
Qed.

Lemma dinv_upper_phases s es : dinv s -> (forall e, In e es -> e < ne s) ->
  let fs := incident_faces_of_edges s es in
  let cs := incident_cells_of_faces s fs in
  dinv (del_desc delete_face_core fs (del_desc delete_cell_core cs s)).
Proof.
  intros [I R] Hes fs cs. pose proof I as ((_ & EO & _) & E & F & D & _).
  assert (Efs : fs = faces_at_edges s es) by (apply incident_faces_cache_is_scan; assumption).
  assert (Hfs : forall f, In f fs -> f < nf s /\ f_deleted s f = false) by (intros f Hf; rewrite Efs in Hf; exact (faces_at_edges_live s es f Hf)).
  destruct (ExactDeletions.cells_phase s fs I (fun f Hf => proj1 (Hfs f Hf))) as (_ & _ & O). fold cs in O.
  apply dinv_del_desc_faces; [rewrite Efs; apply NoDup_faces_at_edges|apply dinv_cells_phase; [exact (conj I R)|exact (fun f Hf => proj1 (Hfs f Hf))]|].
  intros f Hf. apply O; [exact Hf|exact (proj2 (Hfs f Hf))].
Qed.

Theorem dinv_delete_edge e s : dinv s -> e < ne s -> e_deleted s e = false -> dinv (delete_edge e s).
Proof.
  intros [I R] He Hl. unfold delete_edge.
  assert (Hes : forall x, In x [e] -> x < ne s) by (intros x [<-|[]]; exact He).
  destruct (ExactDeletions.upper_phases s [e] I Hes) as (_ & E1 & E2).
  apply dinv_edge_core; [exact (dinv_upper_phases s [e] (conj I R) Hes)|].
  split; [unfold ne; rewrite E1; exact He|unfold e_deleted; rewrite E2; exact Hl].
Qed.

Theorem dinv_delete_vertex v s : dinv s -> v < nv s -> dinv (delete_vertex v s).
Proof.
  intros [I R] Hv. unfold delete_vertex. pose proof I as ((VO & _) & _).
  set (es := incident_edges_of_vertex s v).
  assert (Ees : es = edges_at_vertex s v) by (apply incident_edges_cache_is_scan; assumption).
  assert (Hes : forall e, In e es -> e < ne s /\ e_deleted s e = false) by (intros e He; rewrite Ees in He; exact (edges_at_vertex_live s v e He)).
  destruct (ExactDeletions.upper_phases s es I (fun e He => proj1 (Hes e He))) as (_ & E1 & E2).
  assert (Dd : dinv (del_desc delete_edge_core es (del_desc delete_face_core (incident_faces_of_edges s es)
                       (del_desc delete_cell_core (incident_cells_of_faces s (incident_faces_of_edges s es)) s)))).
  { apply dinv_del_desc_edges; [rewrite Ees; apply NoDup_edges_at_vertex|exact (dinv_upper_phases s es (conj I R) (fun e He => proj1 (Hes e He)))|].
    intros e He. destruct (Hes e He) as [A B]. unfold ok_edge, ne, e_deleted. rewrite E1, E2. split; assumption. }
  destruct Dd as [I2 R2]. split; [apply bu_inv2_delete_vertex_core; exact I2|apply rot_all_delete_vertex_core; exact R2].
Qed.

(* ================================================================== immediate modes: the phase facts, mode-independent *)

Lemma sorted_suffix p : forall l, strictly_sorted (p ++ l) -> strictly_sorted l.
Proof. induction p as [|a p IH]; intros l H; [exact H|]. apply IH. exact (sorted_tail _ _ H). Qed.

(* a descending loop keeps rot_all if every step does, under a precondition that holds at every intermediate state *)
Lemma rot_all_del_desc core (Pre : nat -> mesh -> Prop) :
  (forall a u, Pre a u -> rot_all u -> rot_all (core a u)) ->
  forall l t, (forall p a r, l = p ++ a :: r -> Pre a (del_desc core r t)) -> rot_all t -> rot_all (del_desc core l t).
Proof.
  intros Step. induction l as [|a r IH]; intros t H R; [exact R|]. rewrite del_desc_cons.
  apply Step; [exact (H [] a r eq_refl)|]. apply IH; [|exact R]. intros p b q E. apply (H (a :: p) b q). rewrite E. reflexivity.
Qed.

Lemma imm_del_desc_cells cs s : strictly_sorted cs -> (forall c, In c cs -> c < nc s) -> deferred s = false -> shift_inv2 s ->
  let t := del_desc delete_cell_core cs s in
  shift_inv2 t /\ deferred t = false /\ fast t = fast s /\ nv t = nv s /\ edges t = edges s /\ faces t = faces s /\ nc t = nc s - length cs.
Proof.
  intros Ss R D I. cbv zeta. destruct (fast s) eqn:F.
  - pose proof (fast_del_desc_cells cs s Ss R D F I) as P. cbv zeta in P. destruct P as (a1&a2&a3&a4&a5&a6&_&a8&_). auto 10.
  - pose proof (del_desc_cells_immediate cs s Ss R D F (shift_inv_fbu_inv s (proj1 I))) as P. cbv zeta in P.
    destruct P as (_ & Dt & Ft & t1 & t2 & t3 & _ & t5 & _).
    split; [apply del_desc_cells_inv2; assumption|]. auto 10.
Qed.

Lemma rot_all_del_desc_cells cs s : strictly_sorted cs -> (forall c, In c cs -> c < nc s) -> deferred s = false -> shift_inv2 s ->
  rot_all s -> rot_all (del_desc delete_cell_core cs s).
Proof.
  intros Ss R D I. apply (rot_all_del_desc delete_cell_core (fun a u => rinv u /\ a < nc u)).
  - intros a u [G Ha]. apply rot_all_delete_cell_core; assumption.
  - intros p a r E. subst cs. pose proof (sorted_suffix p _ Ss) as Sa.
    assert (Ra : forall c, In c (a :: r) -> c < nc s) by (intros c Hc; apply R; apply in_or_app; right; exact Hc).
    pose proof (imm_del_desc_cells r s (sorted_tail _ _ Sa) (fun c Hc => Ra c (or_intror Hc)) D I) as P. cbv zeta in P.
    destruct P as (Iu & _ & _ & _ & _ & _ & Nu). split; [apply shift_inv2_rinv; exact Iu|].
    rewrite Nu. pose proof (sorted_room a r (nc s) Sa Ra). lia.
Qed.

Lemma imm_cells_phase fs s : deferred s = false -> shift_inv2 s ->
  let cs := cells_at_faces s fs in let t := del_desc delete_cell_core cs s in
  shift_inv2 t /\ deferred t = false /\ fast t = fast s /\ nv t = nv s /\ edges t = edges s /\ faces t = faces s /\
  (forall f, In f fs -> face_free t f).
Proof.
  intros D I. cbv zeta. destruct (fast s) eqn:F.
  - pose proof (fast_cells_phase fs s D F I) as P. cbv zeta in P. destruct P as (a1&a2&a3&a4&a5&a6&_&_&_&a10). auto 10.
  - pose proof (ShiftCompose.cells_phase fs s D F I) as P. cbv zeta in P. destruct P as (a1&a2&a3&a4&a5&a6&_&_&_&a10). auto 10.
Qed.

Lemma rot_all_cells_phase fs s : deferred s = false -> shift_inv2 s -> rot_all s ->
  rot_all (del_desc delete_cell_core (cells_at_faces s fs) s).
Proof.
  intros D I. apply rot_all_del_desc_cells; auto.
  - apply strictly_sorted_filter, sorted_live_cells.
  - intros c Hc. apply (cells_at_faces_live s fs c) in Hc. tauto.
Qed.

Lemma imm_faces_phase fs t : strictly_sorted fs -> (forall f, In f fs -> f < nf t) -> deferred t = false -> shift_inv2 t ->
  (forall f, In f fs -> face_free t f) ->
  let u := del_desc delete_face_core fs t in
  shift_inv2 u /\ deferred u = false /\ fast u = fast t /\ nv u = nv t /\ edges u = edges t /\ nf u = nf t - length fs /\
  (forall g, (forall f, In f fs -> g < f) -> face_free t g -> face_free u g) /\
  (forall f, f < nf u -> exists i, i < nf t /\ ~ In i fs /\ face_at t i = face_at u f).
Proof.
  intros Ss R D I FF. cbv zeta. destruct (fast t) eqn:F.
  - pose proof (fast_faces_phase fs t Ss R D F I FF) as P. cbv zeta in P. destruct P as (a1&a2&a3&a4&a5&a6&_&a8&_&a10).
    split; [exact a1|]. split; [exact a2|]. split; [exact a3|]. split; [exact a4|]. split; [exact a5|]. split; [exact a8|]. split; [exact a10|].
    intros f Hf. assert (J : In (face_at (del_desc delete_face_core fs t) f) (fast_remove_many [] fs (faces t))) by (rewrite <- a6; apply nth_In; exact Hf).
    apply (In_fast_remove_many [] fs (faces t) _ Ss R) in J. destruct J as [i (Hi & Hn & Ei)]. exists i. auto.
  - pose proof (faces_phase fs t Ss R D F I FF) as P. cbv zeta in P. destruct P as (a1&a2&a3&a4&a5&a6&_&a8&_&a10).
    split; [exact a1|]. split; [exact a2|]. split; [exact a3|]. split; [exact a4|]. split; [exact a5|]. split; [exact a8|]. split; [exact a10|].
    intros f Hf. assert (J : In (face_at (del_desc delete_face_core fs t) f) (keep_slots [] fs (faces t))).
    { rewrite <- (remove_slots_keep [] fs (faces t) Ss R), <- a6. apply nth_In. exact Hf. }
    apply In_keep_slots in J. destruct J as [i (Hi & Hn & Ei)]. exists i. auto.
Qed.

Lemma rot_all_del_desc_faces fs t : strictly_sorted fs -> (forall f, In f fs -> f < nf t) -> deferred t = false -> shift_inv2 t ->
  (forall f, In f fs -> face_free t f) -> rot_all t -> rot_all (del_desc delete_face_core fs t).
Proof.
  intros Ss R D I FF.
  apply (rot_all_del_desc delete_face_core (fun a u => deferred u = false /\ shift_inv2 u /\ a < nf u /\ face_free u a)).
  - intros a u (Du & Iu & Ha & Fa). apply rot_all_delete_face_core_imm; assumption.
  - intros p a r E. subst fs. pose proof (sorted_suffix p _ Ss) as Sa.
    assert (Ra : forall c, In c (a :: r) -> c < nf t) by (intros c Hc; apply R; apply in_or_app; right; exact Hc).
    assert (FFa : forall c, In c (a :: r) -> face_free t c) by (intros c Hc; apply FF; apply in_or_app; right; exact Hc).
    pose proof (imm_faces_phase r t (sorted_tail _ _ Sa) (fun c Hc => Ra c (or_intror Hc)) D I (fun c Hc => FFa c (or_intror Hc))) as P. cbv zeta in P.
    destruct P as (Iu & Du & _ & _ & _ & Nu & Pr & _). split; [exact Du|]. split; [exact Iu|]. split.
    + rewrite Nu. pose proof (sorted_room a r (nf t) Sa Ra). lia.
    + apply Pr; [apply strictly_sorted_lt; exact Sa|apply FFa; left; reflexivity].
Qed.

Lemma imm_edges_phase es t : strictly_sorted es -> (forall e, In e es -> e < ne t) -> deferred t = false -> shift_inv2 t ->
  (forall e, In e es -> edge_free t e) ->
  let u := del_desc delete_edge_core es t in
  shift_inv2 u /\ deferred u = false /\ ne u = ne t - length es /\
  (forall g, (forall e, In e es -> g < e) -> edge_free t g -> edge_free u g).
Proof.
  intros Ss R D I FF. cbv zeta. destruct (fast t) eqn:F.
  - pose proof (fast_edges_phase es t Ss R D F I FF) as P. cbv zeta in P. destruct P as (a1&a2&_&_&_&_&_&a8&_&a10). auto.
  - pose proof (edges_phase es t Ss R D F I FF) as P. cbv zeta in P. destruct P as (a1&a2&_&_&_&_&_&a8&_&a10). auto.
Qed.

Lemma rot_all_del_desc_edges es t : strictly_sorted es -> (forall e, In e es -> e < ne t) -> deferred t = false -> shift_inv2 t ->
  (forall e, In e es -> edge_free t e) -> rot_all t -> rot_all (del_desc delete_edge_core es t).
Proof.
  intros Ss R D I FF.
  apply (rot_all_del_desc delete_edge_core (fun a u => deferred u = false /\ shift_inv2 u /\ a < ne u /\ edge_free u a)).
  - intros a u (Du & Iu & Ha & Fa). apply rot_all_delete_edge_core_imm; assumption.
  - intros p a r E. subst es. pose proof (sorted_suffix p _ Ss) as Sa.
    assert (Ra : forall c, In c (a :: r) -> c < ne t) by (intros c Hc; apply R; apply in_or_app; right; exact Hc).
    assert (FFa : forall c, In c (a :: r) -> edge_free t c) by (intros c Hc; apply FF; apply in_or_app; right; exact Hc).
    pose proof (imm_edges_phase r t (sorted_tail _ _ Sa) (fun c Hc => Ra c (or_intror Hc)) D I (fun c Hc => FFa c (or_intror Hc))) as P. cbv zeta in P.
    destruct P as (Iu & Du & Nu & Pr). split; [exact Du|]. split; [exact Iu|]. split.
    + rewrite Nu. pose proof (sorted_room a r (ne t) Sa Ra). lia.
    + apply Pr; [apply strictly_sorted_lt; exact Sa|apply FFa; left; reflexivity].
Qed.

(* ================================================================== immediate modes: the public deletions *)

Theorem rot_all_delete_cell_imm c s : shift_inv2 s -> c < nc s -> rot_all s -> rot_all (delete_cell c s).
Proof. intros I Hc R. apply rot_all_delete_cell_core; [apply shift_inv2_rinv; exact I|exact Hc|exact R]. Qed.

Theorem rot_all_delete_face_imm f s : deferred s = false -> shift_inv2 s -> f < nf s -> rot_all s -> rot_all (delete_face f s).
Proof.
  intros D I Hf R. unfold delete_face. pose proof I as ((_ & _ & _ & FO & _) & _).
  rewrite (incident_cells_cache_is_scan s [f] FO) by (intros x [<-|[]]; exact Hf).
  pose proof (imm_cells_phase [f] s D I) as P. cbv zeta in P.
  pose proof (rot_all_cells_phase [f] s D I R) as Rt.
  set (t := del_desc delete_cell_core (cells_at_faces s [f]) s) in *.
  destruct P as (It & Dt & _ & _ & _ & t3 & FFt).
  apply rot_all_delete_face_core_imm; [exact Dt|exact It|unfold nf; rewrite t3; exact Hf|exact (FFt f (or_introl eq_refl))|exact Rt].
Qed.

(* after the cells and the faces at the edges es are gone, no face mentions an edge of es *)
Lemma upper_imm s es : deferred s = false -> shift_inv2 s -> (forall e, In e es -> e < ne s) -> rot_all s ->
  let fs := faces_at_edges s es in let cs := cells_at_faces s fs in
  let u := del_desc delete_face_core fs (del_desc delete_cell_core cs s) in
  shift_inv2 u /\ deferred u = false /\ ne u = ne s /\ rot_all u /\ (forall e, In e es -> edge_free u e).
Proof.
  intros D I Hes R. cbv zeta. pose proof I as ((NF & _) & _).
  set (fs := faces_at_edges s es).
  pose proof (imm_cells_phase fs s D I) as P. cbv zeta in P. pose proof (rot_all_cells_phase fs s D I R) as Rt.
  set (t := del_desc delete_cell_core (cells_at_faces s fs) s) in *.
  destruct P as (It & Dt & _ & _ & t2 & t3 & FFt).
  assert (Sfs : strictly_sorted fs) by (apply strictly_sorted_filter, sorted_live_faces).
  assert (Rfs : forall f, In f fs -> f < nf t) by (intros f Hf; unfold nf; rewrite t3; exact (In_faces_at_edges_lt s es f Hf)).
  pose proof (imm_faces_phase fs t Sfs Rfs Dt It FFt) as Q. cbv zeta in Q.
  pose proof (rot_all_del_desc_faces fs t Sfs Rfs Dt It FFt Rt) as Ru.
  set (u := del_desc delete_face_core fs t) in *.
  destruct Q as (Iu & Du & _ & _ & u2 & _ & _ & FK).
  split; [exact Iu|]. split; [exact Du|]. split; [unfold ne; rewrite u2, t2; reflexivity|]. split; [exact Ru|].
  intros e He f he Hhe Ee. destruct (Nat.lt_ge_cases f (nf u)) as [Hf|Hf]; [|unfold face_at in Hhe; rewrite nth_overflow in Hhe by exact Hf; destruct Hhe].
  destruct (FK f Hf) as [i (Hi & Hn & Ei)]. apply Hn. apply (faces_at_edges_spec s es i NF).
  unfold nf in Hi. rewrite t3 in Hi. split; [exact Hi|]. exists he. split; [|rewrite Ee; exact He].
  unfold face_at in Ei. rewrite t3 in Ei. unfold face_at at 1. rewrite Ei. exact Hhe.
Qed.

Theorem rot_all_delete_edge_imm e s : deferred s = false -> shift_inv2 s -> e < ne s -> rot_all s -> rot_all (delete_edge e s).
Proof.
  intros D I He R. unfold delete_edge. pose proof I as ((_ & _ & EO & FO & _) & _).
  rewrite (incident_faces_cache_is_scan s [e] EO) by (intros x [<-|[]]; exact He).
  rewrite (incident_cells_cache_is_scan s (faces_at_edges s [e]) FO) by (intros x Hx; exact (In_faces_at_edges_lt s [e] x Hx)).
  assert (Hes : forall x, In x [e] -> x < ne s) by (intros x [<-|[]]; exact He).
  pose proof (upper_imm s [e] D I Hes R) as P. cbv zeta in P. destruct P as (Iu & Du & Nu & Ru & FFe).
  apply rot_all_delete_edge_core_imm; [exact Du|exact Iu|rewrite Nu; exact He|apply FFe; left; reflexivity|exact Ru].
Qed.

Theorem rot_all_delete_vertex_imm v s : deferred s = false -> shift_inv2 s -> v < nv s -> rot_all s -> rot_all (delete_vertex v s).
Proof.
  intros D I Hv R. unfold delete_vertex. pose proof I as ((_ & VO & EO & FO & _) & _).
  rewrite (incident_edges_cache_is_scan s v VO Hv). set (es := edges_at_vertex s v).
  assert (Hes : forall x, In x es -> x < ne s) by (intros x Hx; exact (In_edges_at_vertex_lt s v x Hx)).
  rewrite (incident_faces_cache_is_scan s es EO) by exact Hes.
  rewrite (incident_cells_cache_is_scan s (faces_at_edges s es) FO) by (intros x Hx; exact (In_faces_at_edges_lt s es x Hx)).
  pose proof (upper_imm s es D I Hes R) as P. cbv zeta in P. destruct P as (Iu & Du & Nu & Ru & FFe).
  apply rot_all_delete_vertex_core. apply rot_all_del_desc_edges; auto.
  - apply strictly_sorted_filter, sorted_live_edges.
  - intros x Hx. rewrite Nu. exact (Hes x Hx).
Qed.
