(* Kernel5/RotReorder.v -- C09 at history level: what reorder_incident_halffaces / reorder_edges do to rot_on.

     fan_on / exact_on / rot_ok do not read the halfedge->halfface lists except at the two slots of the edge (frame lemmas)
     rot_ok_after_reorder_edges   an exact fan edge that occurs in a duplicate-free list es is in rotational order after reorder_edges es
     rot_on_reorder_edges         the stage lemma: if every edge NOT in es that is an exact fan is in rotational order, then after
                                  reorder_edges es (es duplicate-free, caches of the fan edges in es exact) every exact fan edge is
     rot_on_reorder_one           one call keeps rot_on *)
From Coq Require Import ZArith Lia Bool Arith List ZifyNat ZifyBool Permutation.
From OVM Require Import Kernel.State Kernel.Ops Kernel.Mirror Kernel2.LookupModel Kernel2.ListAux Kernel2.AdjacentProofs
                        Kernel2.RotationProofs Kernel2.ReorderExact Kernel2.ExactBase Kernel5.RotDefs.
Import ListNotations.
Ltac Zify.zify_post_hook ::= Z.div_mod_to_equations.
Local Open Scope nat_scope.

(* ================================================================== frames: states that differ in inc_hfs only *)

Lemma fan_on_set_inc_hfs P x s e : fan_on P (set_inc_hfs x s) e <-> fan_on P s e.
Proof. reflexivity. Qed.

Lemma inc_on_set_inc_hfs P x s h y : inc_on P (set_inc_hfs x s) h y <-> inc_on P s h y.
Proof. reflexivity. Qed.

Lemma rot_ok_hfs_frame x s e : nth (2 * e) x [] = hfs_at s (2 * e) -> nth (2 * e + 1) x [] = hfs_at s (2 * e + 1) ->
  (rot_ok (set_inc_hfs x s) e <-> rot_ok s e).
Proof.
  intros E0 E1. unfold rot_ok. unfold hfs_at at 1 2 3 4. cbn [inc_hfs set_inc_hfs]. rewrite E0, E1. reflexivity.
Qed.

Lemma exact_on_hfs_frame P x s e : nth (2 * e) x [] = hfs_at s (2 * e) -> nth (2 * e + 1) x [] = hfs_at s (2 * e + 1) ->
  (exact_on P (set_inc_hfs x s) e <-> exact_on P s e).
Proof.
  intros E0 E1. unfold exact_on. unfold hfs_at at 1 2 3 4 5. cbn [inc_hfs set_inc_hfs]. rewrite E0, E1. reflexivity.
Qed.

(* two states with the same reads around e *)
Lemma rot_ok_same_slots s t e : (exists x, t = set_inc_hfs x s) -> hfs_at t (2 * e) = hfs_at s (2 * e) ->
  hfs_at t (2 * e + 1) = hfs_at s (2 * e + 1) -> (rot_ok t e <-> rot_ok s e).
Proof. intros [x ->] E0 E1. apply rot_ok_hfs_frame; assumption. Qed.

Lemma exact_on_same_slots P s t e : (exists x, t = set_inc_hfs x s) -> hfs_at t (2 * e) = hfs_at s (2 * e) ->
  hfs_at t (2 * e + 1) = hfs_at s (2 * e + 1) -> (exact_on P t e <-> exact_on P s e).
Proof. intros [x ->] E0 E1. apply exact_on_hfs_frame; assumption. Qed.

Lemma fan_on_same_reads P s t e : (exists x, t = set_inc_hfs x s) -> (fan_on P t e <-> fan_on P s e).
Proof. intros [x ->]. reflexivity. Qed.

(* ================================================================== reorder_edges: frames *)

Lemma reorder_edges_is_set es s : exists x, reorder_edges es s = set_inc_hfs x s.
Proof. destruct (reorder_edges_frame2 es s) as [x [E _]]. exists x. exact E. Qed.

Lemma reorder_edges_cons e es s : reorder_edges (e :: es) s = reorder_edges es (reorder_incident_halffaces e s).
Proof. reflexivity. Qed.

Lemma reorder_edges_app es1 es2 s : reorder_edges (es1 ++ es2) s = reorder_edges es2 (reorder_edges es1 s).
Proof. unfold reorder_edges. apply fold_left_app. Qed.

Lemma reorder_edges_other es : forall s k, (forall e, In e es -> k <> 2 * e /\ k <> 2 * e + 1) ->
  hfs_at (reorder_edges es s) k = hfs_at s k.
Proof.
  induction es as [|e es IH]; intros s k H; [reflexivity|]. rewrite reorder_edges_cons, IH.
  - destruct (H e (or_introl eq_refl)) as [A B]. apply reorder_other_slots; assumption.
  - intros e' He'. apply H. right. exact He'.
Qed.

Lemma reorder_edges_not_in es s e : ~ In e es ->
  hfs_at (reorder_edges es s) (2 * e) = hfs_at s (2 * e) /\ hfs_at (reorder_edges es s) (2 * e + 1) = hfs_at s (2 * e + 1).
Proof.
  intros N. split; apply reorder_edges_other; intros e' He'; assert (e' <> e) by (intros ->; contradiction); lia.
Qed.

(* ================================================================== reorder establishes the order *)

Theorem rot_ok_after_reorder_edges P es s e :
  NoDup es -> In e es -> exact_on P s e -> fan_on P s e -> rot_ok (reorder_edges es s) e.
Proof.
  intros Nd Hin X F. destruct (in_split _ _ Hin) as [es1 [es2 ->]].
  apply NoDup_remove_2 in Nd.
  assert (N1 : ~ In e es1) by (intros H; apply Nd; apply in_or_app; left; exact H).
  assert (N2 : ~ In e es2) by (intros H; apply Nd; apply in_or_app; right; exact H).
  rewrite reorder_edges_app, reorder_edges_cons.
  set (m := reorder_edges es1 s).
  destruct (reorder_edges_not_in es1 s e N1) as [A0 A1]. fold m in A0, A1.
  assert (Xm : exact_on P m e) by (apply (exact_on_same_slots P s m e); [apply reorder_edges_is_set|exact A0|exact A1|exact X]).
  assert (Fm : fan_on P m e) by (apply (fan_on_same_reads P s m e); [apply reorder_edges_is_set|exact F]).
  pose proof (reorder_post_on P m e Xm Fm) as R.
  destruct (reorder_edges_not_in es2 (reorder_incident_halffaces e m) e N2) as [B0 B1].
  apply (rot_ok_same_slots (reorder_incident_halffaces e m)); [apply reorder_edges_is_set|exact B0|exact B1|exact R].
Qed.

(* ================================================================== the stage lemma *)

Theorem rot_on_reorder_edges P es s :
  NoDup es -> (forall e, In e es -> fan_on P s e -> exact_on P s e) ->
  (forall e, ~ In e es -> exact_on P s e -> fan_on P s e -> rot_ok s e) ->
  rot_on P (reorder_edges es s).
Proof.
  intros Nd Hex Hout e X F.
  assert (Fs : fan_on P s e) by (apply (fan_on_same_reads P s (reorder_edges es s) e); [apply reorder_edges_is_set|exact F]).
  destruct (in_dec Nat.eq_dec e es) as [Hin|Hnin].
  - apply (rot_ok_after_reorder_edges P); auto.
  - destruct (reorder_edges_not_in es s e Hnin) as [A0 A1].
    apply (rot_ok_same_slots s); [apply reorder_edges_is_set|exact A0|exact A1|].
    apply Hout; [exact Hnin| |exact Fs].
    apply (exact_on_same_slots P s (reorder_edges es s) e); [apply reorder_edges_is_set|exact A0|exact A1|exact X].
Qed.

Theorem rot_on_reorder_edges_all P es s :
  NoDup es -> (forall e, In e es -> fan_on P s e -> exact_on P s e) -> rot_on P s -> rot_on P (reorder_edges es s).
Proof. intros Nd Hex R. apply rot_on_reorder_edges; auto. Qed.

Theorem rot_on_reorder_one P e s : (fan_on P s e -> exact_on P s e) -> rot_on P s -> rot_on P (reorder_incident_halffaces e s).
Proof.
  intros Hex R. change (reorder_incident_halffaces e s) with (reorder_edges [e] s). apply rot_on_reorder_edges_all; [|intros e' [<-|[]]; exact Hex|exact R].
  constructor; [intros []|constructor].
Qed.

(* any list, when exactness of the fan edges is known at every intermediate state *)
Theorem rot_on_reorder_edges_any P es : forall s,
  (forall es1 es2 e, es = es1 ++ e :: es2 -> fan_on P s e -> exact_on P (reorder_edges es1 s) e) ->
  rot_on P s -> rot_on P (reorder_edges es s).
Proof.
  induction es as [|e es IH]; intros s Hex R; [exact R|]. rewrite reorder_edges_cons. apply IH.
  - intros es1 es2 e' E F'. specialize (Hex (e :: es1) es2 e'). rewrite E in Hex. apply Hex; [reflexivity|].
    apply (fan_on_same_reads P s (reorder_incident_halffaces e s) e'); [apply reorder_frame|exact F'].
  - apply rot_on_reorder_one; [|exact R]. intros F. exact (Hex [] es e eq_refl F).
Qed.

Lemma livef_reorder_edges es s f : livef (reorder_edges es s) f <-> livef s f.
Proof. destruct (reorder_edges_is_set es s) as [x ->]. reflexivity. Qed.

Lemma flags_reorder_edges es s : ebu (reorder_edges es s) = ebu s /\ fbu (reorder_edges es s) = fbu s.
Proof. destruct (reorder_edges_is_set es s) as [x ->]. split; reflexivity. Qed.

(* ================================================================== reorder keeps the cache of a fan edge exact *)

Theorem exact_on_after_reorder_one P s e : exact_on P s e -> fan_on P s e -> exact_on P (reorder_incident_halffaces e s) e.
Proof.
  intros (Nd & M0 & M1 & Len) (l & Hne & Ndl & Ml & Shape).
  destruct (reorder_post_lists s e l Nd Hne Ndl) as (_ & Mir & Perm & _); auto.
  - intros x. rewrite Ml, M0. reflexivity.
  - intros x Hx. apply M1. apply inc_on_odd. rewrite opp_involutive. apply M0. exact Hx.
  - set (s' := reorder_incident_halffaces e s) in *. set (L := hfs_at s' (2 * e)) in *.
    assert (IO : forall h x, inc_on P s' h x <-> inc_on P s h x) by (intros h x; unfold s'; destruct (reorder_frame e s) as [y ->]; reflexivity).
    assert (ML : forall x, In x L <-> inc_on P s (2 * e) x).
    { intros x. rewrite <- M0. split; intros H; [exact (Permutation_in _ Perm H)|exact (Permutation_in _ (Permutation_sym Perm) H)]. }
    split; [exact (Permutation_NoDup (Permutation_sym Perm) Nd)|]. split; [|split].
    + intros x. rewrite IO. apply ML.
    + intros x. rewrite Mir, IO, <- in_rev, in_map_iff. split.
      * intros [y [<- Hy]]. apply inc_on_odd. rewrite opp_involutive. apply ML. exact Hy.
      * intros I. exists (opp x). split; [apply opp_involutive|]. apply ML. apply inc_on_odd. exact I.
    + rewrite Mir, rev_length, map_length. reflexivity.
Qed.

Theorem exact_on_after_reorder_edges P es s e :
  NoDup es -> In e es -> exact_on P s e -> fan_on P s e -> exact_on P (reorder_edges es s) e.
Proof.
  intros Nd Hin X F. destruct (in_split _ _ Hin) as [es1 [es2 ->]].
  apply NoDup_remove_2 in Nd.
  assert (N1 : ~ In e es1) by (intros H; apply Nd; apply in_or_app; left; exact H).
  assert (N2 : ~ In e es2) by (intros H; apply Nd; apply in_or_app; right; exact H).
  rewrite reorder_edges_app, reorder_edges_cons.
  set (m := reorder_edges es1 s).
  destruct (reorder_edges_not_in es1 s e N1) as [A0 A1]. fold m in A0, A1.
  assert (Xm : exact_on P m e) by (apply (exact_on_same_slots P s m e); [apply reorder_edges_is_set|exact A0|exact A1|exact X]).
  assert (Fm : fan_on P m e) by (apply (fan_on_same_reads P s m e); [apply reorder_edges_is_set|exact F]).
  pose proof (exact_on_after_reorder_one P m e Xm Fm) as R.
  destruct (reorder_edges_not_in es2 (reorder_incident_halffaces e m) e N2) as [B0 B1].
  apply (exact_on_same_slots P (reorder_incident_halffaces e m)); [apply reorder_edges_is_set|exact B0|exact B1|exact R].
Qed.
