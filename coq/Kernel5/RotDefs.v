(* Kernel5/RotDefs.v -- C09 at history level: DEFINITIONS and the single-call theorem in list form.

     rot_ok s e      the conclusion of C09_reorder_post stated about the CURRENT state s: the list of halfedge 2e is in rotational
                     order and the list of 2e+1 is its mirrored reverse
     rot_inv s       with both the edge and the face incidences on: every live edge whose cache is exact and that is a single fan
                     satisfies rot_ok
   For the proofs the incidence predicate is a parameter (P f = "face f counts as present"), because inside delete_face_core the
   dying face is still stored and not flagged while it has left the lists already:
     inc_on P s h x  halfface x belongs to a present face and contains halfedge h        (incident_hf s = inc_on (livef s) s)
     fan_on P s e    single_fan with inc_on P                                             (single_fan s e = fan_on (livef s) s e)
     exact_on P s e  edge_cache_exact with inc_on P
     rot_on P s      every edge (live or not) with exact_on and fan_on satisfies rot_ok   (rot_all s: the instance P = livef s,
                     guarded by the two incidence flags; it implies rot_inv s)
   reorder_post_lists: Kernel2/RotationProofs.v reorder_post with the list hypotheses it really uses. *)
From Coq Require Import ZArith Lia Bool Arith List ZifyNat ZifyBool Permutation.
From OVM Require Import Kernel.State Kernel.Ops Kernel.Mirror Kernel2.LookupModel Kernel2.ListAux Kernel2.AdjacentProofs
                        Kernel2.RotationProofs.
Import ListNotations.
Ltac Zify.zify_post_hook ::= Z.div_mod_to_equations.
Local Open Scope nat_scope.

(* ================================================================== definitions *)

Definition livef (s : mesh) (f : nat) : Prop := live_f s f = true.

Definition inc_on (P : nat -> Prop) (s : mesh) (h x : nat) : Prop := P (x / 2) /\ In h (halfface s x).

Definition fan_on (P : nat -> Prop) (s : mesh) (e : nat) : Prop :=
  exists l, l <> [] /\ NoDup l /\ (forall x, In x l <-> inc_on P s (2 * e) x) /\
            (fan_cycle s (2 * e) l \/ fan_chain s (2 * e) l).

Definition exact_on (P : nat -> Prop) (s : mesh) (e : nat) : Prop :=
  NoDup (hfs_at s (2 * e)) /\ (forall x, In x (hfs_at s (2 * e)) <-> inc_on P s (2 * e) x) /\
  (forall x, In x (hfs_at s (2 * e + 1)) <-> inc_on P s (2 * e + 1) x) /\
  length (hfs_at s (2 * e + 1)) = length (hfs_at s (2 * e)).

Definition rot_ok (s : mesh) (e : nat) : Prop :=
  rotational s (2 * e) (hfs_at s (2 * e)) /\ hfs_at s (2 * e + 1) = rev (map opp (hfs_at s (2 * e))).

Definition rot_on (P : nat -> Prop) (s : mesh) : Prop := forall e, exact_on P s e -> fan_on P s e -> rot_ok s e.

(* the invariant used in the proofs (no liveness guard on the edge) *)
Definition rot_all (s : mesh) : Prop := ebu s = true -> fbu s = true -> rot_on (livef s) s.

(* THE invariant of the history theorem *)
Definition rot_inv (s : mesh) : Prop :=
  ebu s = true -> fbu s = true ->
  forall e, live_e s e = true -> edge_cache_exact s e -> single_fan s e -> rot_ok s e.

(* ================================================================== the instances *)

Lemma inc_on_livef s h x : inc_on (livef s) s h x <-> incident_hf s h x.
Proof. reflexivity. Qed.

Lemma fan_on_livef s e : fan_on (livef s) s e <-> single_fan s e.
Proof. reflexivity. Qed.

Lemma exact_on_livef s e : exact_on (livef s) s e <-> edge_cache_exact s e.
Proof. unfold exact_on, edge_cache_exact, he_cache_exact. split; intros H; tauto. Qed.

Lemma rot_all_inv s : rot_all s -> rot_inv s.
Proof. intros H E F e _ X Y. apply (H E F e); [apply exact_on_livef; exact X|exact Y]. Qed.

Lemma rot_ok_unfold s e :
  rot_ok s e <->
  (let L := hfs_at s (2 * e) in
   (forall i, i < length L ->
      (hf_is_open s (nth i L 0) = false ->
         adjacent_halfface_in_cell s (nth i L 0) (2 * e) = Some (opp (nth (circ_next (length L) i) L 0))) /\
      (hf_is_open s (nth i L 0) = true -> i = length L - 1)) /\
   hfs_at s (2 * e + 1) = rev (map opp L)).
Proof. reflexivity. Qed.

(* ================================================================== small facts *)

Lemma opp_double e : opp (2 * e) = 2 * e + 1.
Proof. rewrite opp_spec. lia. Qed.
Lemma opp_odd e : opp (2 * e + 1) = 2 * e.
Proof. rewrite opp_spec. lia. Qed.

Lemma In_halfface_opp s x h : In h (halfface s x) <-> In (opp h) (halfface s (opp x)).
Proof.
  rewrite halfface_opp, <- in_rev, in_map_iff. split.
  - intros H. exists h. auto.
  - intros [y [E Hy]]. apply opp_inj in E. subst. exact Hy.
Qed.

Lemma inc_on_opp P s h x : inc_on P s h x <-> inc_on P s (opp h) (opp x).
Proof. unfold inc_on. rewrite opp_div2, <- In_halfface_opp. reflexivity. Qed.

Lemma inc_on_odd P s e x : inc_on P s (2 * e + 1) x <-> inc_on P s (2 * e) (opp x).
Proof. rewrite (inc_on_opp P s (2 * e + 1) x), opp_odd. reflexivity. Qed.

Lemma inc_on_ext (P Q : nat -> Prop) s h x : (P (x / 2) <-> Q (x / 2)) -> (inc_on P s h x <-> inc_on Q s h x).
Proof. unfold inc_on. tauto. Qed.

(* rotational order in terms of the forward link *)
Lemma rotational_links s h L :
  rotational s h L <->
  forall i, i < length L ->
    (hf_is_open s (nth i L 0) = false -> fwd_link s h (nth i L 0) (nth (circ_next (length L) i) L 0)) /\
    (hf_is_open s (nth i L 0) = true -> i = length L - 1).
Proof.
  unfold rotational, fwd_link. split; intros H i Hi; destruct (H i Hi) as [A B]; (split; [|exact B]); intros O.
  - split; [exact O|exact (A O)].
  - exact (proj2 (A O)).
Qed.

(* ================================================================== C09_reorder_post, list form *)

Theorem reorder_post_lists s e l :
  NoDup (hfs_at s (2 * e)) -> l <> [] -> NoDup l -> (forall x, In x l <-> In x (hfs_at s (2 * e))) ->
  (forall x, In x (hfs_at s (2 * e)) -> In (opp x) (hfs_at s (2 * e + 1))) ->
  length (hfs_at s (2 * e + 1)) = length (hfs_at s (2 * e)) ->
  (fan_cycle s (2 * e) l \/ fan_chain s (2 * e) l) ->
  let s' := reorder_incident_halffaces e s in
  let L := hfs_at s' (2 * e) in
  rotational s' (2 * e) L /\
  hfs_at s' (2 * e + 1) = rev (map opp L) /\
  Permutation L (hfs_at s (2 * e)) /\
  (fan_cycle s (2 * e) L \/ fan_chain s (2 * e) L).
Proof.
  intros Hnd Hne Hndl Hsame Hmir Hlen1 Hshape. cbv zeta.
  set (h := 2 * e) in *. set (inc := hfs_at s h) in *. set (n := length inc) in *.
  assert (Hln : length l = n) by (apply NoDup_same_length; assumption).
  assert (Hn1 : 1 <= n) by (destruct l; [congruence|simpl in Hln; lia]).
  assert (Hrot_s' : forall L, rotational s h L -> rotational (reorder_incident_halffaces e s) h L).
  { intros L R. unfold reorder_incident_halffaces. destruct (reorder_list s e); [|exact R]. exact R. }
  destruct (Nat.lt_ge_cases n 2) as [Hsmall|Hbig].
  - assert (Hnone : reorder_list s e = None).
    { unfold reorder_list. fold h. fold inc. fold n. destruct (Nat.ltb_spec n 2); [reflexivity|lia]. }
    unfold reorder_incident_halffaces. rewrite Hnone. fold h. fold inc.
    assert (Hn : n = 1) by lia.
    destruct l as [|x [|y t]]; simpl in Hln; try lia.
    assert (Einc : inc = [x]) by (apply length1_In; [lia|apply Hsame; left; reflexivity]).
    rewrite Einc. split; [|split; [|split]].
    + destruct Hshape as [C|C]; [apply rotational_of_cycle | apply rotational_of_chain]; auto.
    + change (rev (map opp [x])) with [opp x]. apply length1_In; [rewrite Hlen1; exact Hn|].
      apply Hmir. rewrite Einc. left. reflexivity.
    + apply Permutation_refl.
    + exact Hshape.
  - destruct inc as [|start rest] eqn:Einc; [simpl in n; lia|].
    assert (Hst : In start l) by (apply Hsame; left; reflexivity).
    destruct (in_split _ _ Hst) as [pre [post El]]. subst l.
    assert (Hh : h < length (inc_hfs s)).
    { apply nth_nonnil_lt. unfold inc, hfs_at in Einc. rewrite Einc. discriminate. }
    assert (Hh1 : h + 1 < length (inc_hfs s)).
    { apply nth_nonnil_lt. intros E0.
      assert (Z : length (hfs_at s (h + 1)) = 0) by (unfold hfs_at; rewrite E0; reflexivity).
      rewrite Hlen1 in Z. lia. }
    assert (Hwrite : forall L, length L = n -> reorder_list s e = Some L ->
              hfs_at (reorder_incident_halffaces e s) h = L /\
              hfs_at (reorder_incident_halffaces e s) (h + 1) = rev (map opp L)).
    { intros L HL HR. unfold reorder_incident_halffaces. rewrite HR. fold h. unfold hfs_at. simpl inc_hfs. split.
      - rewrite nth_upd_other by lia. apply nth_upd_same. exact Hh.
      - rewrite nth_upd_same by (rewrite upd_length; exact Hh1).
        rewrite map_length, rev_length, HL.
        replace (skipn n (nth (h + 1) (inc_hfs s) [])) with (@nil nat).
        + rewrite app_nil_r, map_rev. reflexivity.
        + symmetry. apply skipn_all2. change (nth (h + 1) (inc_hfs s) []) with (hfs_at s (h + 1)). rewrite Hlen1. lia. }
    destruct Hshape as [C|C].
    + destruct (reorder_list_cycle s e pre start post) as [HR HC]; fold h; fold inc; try rewrite Einc; auto.
      destruct (Hwrite (start :: post ++ pre)) as [W0 W1]; [simpl; rewrite app_length in *; simpl in Hln; lia|exact HR|].
      rewrite W0. fold h. split; [|split; [|split]].
      * apply Hrot_s'. apply rotational_of_cycle; [discriminate|exact HC].
      * exact W1.
      * apply NoDup_Permutation.
        -- apply (Permutation_NoDup (l := pre ++ start :: post)); [|exact Hndl].
           change (start :: post ++ pre) with ((start :: post) ++ pre). apply Permutation_app_comm.
        -- exact Hnd.
        -- intros x. rewrite <- Hsame. change (start :: post ++ pre) with ((start :: post) ++ pre).
           rewrite !in_app_iff. tauto.
      * left. exact HC.
    + pose proof (reorder_list_chain s e pre start post) as HR. fold h in HR. fold inc in HR. rewrite Einc in HR.
      specialize (HR Hbig eq_refl Hln Hndl C).
      destruct (Hwrite (pre ++ start :: post) Hln HR) as [W0 W1].
      rewrite W0. fold h. split; [|split; [|split]].
      * apply Hrot_s'. apply rotational_of_chain; [exact Hne|exact C].
      * exact W1.
      * apply NoDup_Permutation; [exact Hndl|exact Hnd|exact Hsame].
      * right. exact C.
Qed.

(* with the parametrised incidence: one call of reorder on an exact fan edge *)
Theorem reorder_post_on P s e : exact_on P s e -> fan_on P s e -> rot_ok (reorder_incident_halffaces e s) e.
Proof.
  intros (Nd & M0 & M1 & Len) (l & Hne & Ndl & Ml & Shape).
  destruct (reorder_post_lists s e l Nd Hne Ndl) as (A & B & _); auto.
  - intros x. rewrite Ml, M0. reflexivity.
  - intros x Hx. apply M1. apply inc_on_odd. rewrite opp_involutive. apply M0. exact Hx.
  - split; assumption.
Qed.

(* ================================================================== the incidence predicate up to equivalence *)

Lemma fan_on_ext (P Q : nat -> Prop) s e : (forall f, P f <-> Q f) -> fan_on P s e -> fan_on Q s e.
Proof.
  intros H (l & A & B & C & D). exists l. split; [exact A|]. split; [exact B|]. split; [|exact D].
  intros x. rewrite C. apply inc_on_ext. apply H.
Qed.

Lemma exact_on_ext (P Q : nat -> Prop) s e : (forall f, P f <-> Q f) -> exact_on P s e -> exact_on Q s e.
Proof.
  intros H (A & B & C & D). split; [exact A|]. split; [|split; [|exact D]]; intros x; [rewrite B|rewrite C]; apply inc_on_ext; apply H.
Qed.

Lemma rot_on_ext (P Q : nat -> Prop) s : (forall f, P f <-> Q f) -> rot_on P s -> rot_on Q s.
Proof.
  intros H R e X F. apply R; [apply (exact_on_ext Q P)|apply (fan_on_ext Q P)]; auto; intros f; symmetry; apply H.
Qed.
