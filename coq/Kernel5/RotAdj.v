(* Kernel5/RotAdj.v -- adjacent_halfface_in_cell and hf_is_open under a renaming of the halfface handles (g) and of the halfedge
   handles (k): if the cell of hf is stored in s' as the g-image of its definition in s and the halffaces of the cell as the k-images
   of theirs, the search loop of adjacent_halfface_in_cell runs in lock step (same order, same early returns). *)
From Coq Require Import ZArith Lia Bool Arith List ZifyNat ZifyBool.
From OVM Require Import Kernel.State Kernel.Ops Kernel.Mirror Kernel2.LookupModel Kernel2.ListAux Kernel2.AdjacentProofs.
Import ListNotations.
Ltac Zify.zify_post_hook ::= Z.div_mod_to_equations.
Local Open Scope nat_scope.

Definition mapst (g : nat -> nat) (st : adj_state) : adj_state :=
  match st with
  | AdjRun sk idx => AdjRun sk (option_map g idx)
  | AdjRet r => AdjRet (option_map g r)
  end.

Lemma eqb_of_inj (f : nat -> nat) a b : (f a = f b -> a = b) -> (f a =? f b) = (a =? b).
Proof.
  intros H. destruct (Nat.eqb_spec a b) as [->|N]; [apply Nat.eqb_refl|]. apply Nat.eqb_neq. intros E. apply N, H, E.
Qed.

Lemma memb_map_on (k : nat -> nat) x l : (forall w, In w l -> (k x =? k w) = (x =? w)) -> memb (k x) (map k l) = memb x l.
Proof.
  unfold memb. induction l as [|w t IH]; intros H; [reflexivity|]. cbn [map existsb].
  rewrite (H w (or_introl eq_refl)), IH; [reflexivity|]. intros z Hz. apply H. right. exact Hz.
Qed.

Section Rename.
Context (s s' : mesh) (g k : nat -> nat) (hf he c c' : nat).
Hypothesis C1 : cell_of s hf = Some c.
Hypothesis C2 : cell_of s' (g hf) = Some c'.
Hypothesis C3 : cell_at s' c' = map g (cell_at s c).
Hypothesis HF : forall z, z = hf \/ In z (cell_at s c) -> halfface s' (g z) = map k (halfface s z).
Hypothesis Gi : forall z, In z (cell_at s c) -> (g z =? g hf) = (z =? hf) /\ (g z =? opp (g hf)) = (z =? opp hf).
Hypothesis Ki : forall he1 z w, he1 = he \/ he1 = opp he -> z = hf \/ In z (cell_at s c) -> In w (halfface s z) ->
                  (opp (k w) =? k he1) = (opp w =? he1) /\ (k he1 =? k w) = (he1 =? w).
Hypothesis Ko : k (opp he) = opp (k he).

Lemma inner_rename he1 hfh st heh :
  (opp (k heh) =? k he1) = (opp heh =? he1) -> (g hfh =? opp (g hf)) = (hfh =? opp hf) ->
  adj_inner s' (g hf) (k he1) (g hfh) (mapst g st) (k heh) = mapst g (adj_inner s hf he1 hfh st heh).
Proof.
  intros E1 E2. unfold adj_inner. destruct st as [sk idx|r]; cbn [mapst]; [|reflexivity].
  rewrite E1, E2. destruct ((opp heh =? he1) && negb (hfh =? opp hf)); [|reflexivity].
  destruct idx as [i|]; cbn [option_map mapst]; [reflexivity|]. destruct sk; reflexivity.
Qed.

Lemma inner_fold_rename he1 hfh : he1 = he \/ he1 = opp he -> In hfh (cell_at s c) ->
  forall hes st, (forall w, In w hes -> In w (halfface s hfh)) ->
  fold_left (adj_inner s' (g hf) (k he1) (g hfh)) (map k hes) (mapst g st) = mapst g (fold_left (adj_inner s hf he1 hfh) hes st).
Proof.
  intros H1 Hin. induction hes as [|w t IH]; intros st Hs; [reflexivity|]. cbn [map fold_left].
  rewrite inner_rename.
  - apply IH. intros z Hz. apply Hs. right. exact Hz.
  - exact (proj1 (Ki he1 hfh w H1 (or_intror Hin) (Hs w (or_introl eq_refl)))).
  - exact (proj2 (Gi hfh Hin)).
Qed.

Lemma outer_rename he1 hfh st : he1 = he \/ he1 = opp he -> In hfh (cell_at s c) ->
  adj_outer s' (g hf) (k he1) (mapst g st) (g hfh) = mapst g (adj_outer s hf he1 st hfh).
Proof.
  intros H1 Hin. unfold adj_outer. destruct st as [sk idx|r]; cbn [mapst]; [|reflexivity].
  rewrite (proj1 (Gi hfh Hin)). destruct (hfh =? hf).
  - destruct idx; reflexivity.
  - rewrite (HF hfh (or_intror Hin)). apply (inner_fold_rename he1 hfh H1 Hin _ (AdjRun sk idx)). auto.
Qed.

Lemma outer_fold_rename he1 : he1 = he \/ he1 = opp he -> forall l st, (forall z, In z l -> In z (cell_at s c)) ->
  fold_left (adj_outer s' (g hf) (k he1)) (map g l) (mapst g st) = mapst g (fold_left (adj_outer s hf he1) l st).
Proof.
  intros H1. induction l as [|z t IH]; intros st Hs; [reflexivity|]. cbn [map fold_left].
  rewrite outer_rename by (auto; apply Hs; left; reflexivity). apply IH. intros y Hy. apply Hs. right. exact Hy.
Qed.

Lemma resolve_rename : resolve_he s' (g hf) (k he) = option_map k (resolve_he s hf he).
Proof.
  unfold resolve_he. rewrite (HF hf (or_introl eq_refl)), <- Ko.
  rewrite (memb_map_on k he) by (intros w Hw; exact (proj2 (Ki he hf w (or_introl eq_refl) (or_introl eq_refl) Hw))).
  rewrite (memb_map_on k (opp he)) by (intros w Hw; exact (proj2 (Ki (opp he) hf w (or_intror eq_refl) (or_introl eq_refl) Hw))).
  destruct (memb he (halfface s hf)); [reflexivity|]. destruct (memb (opp he) (halfface s hf)); reflexivity.
Qed.

Theorem adjacent_rename : adjacent_halfface_in_cell s' (g hf) (k he) = option_map g (adjacent_halfface_in_cell s hf he).
Proof.
  rewrite !adjacent_unfold, C1, C2, resolve_rename.
  assert (R : forall he1, resolve_he s hf he = Some he1 -> he1 = he \/ he1 = opp he) by (intros he1 H; exact (proj2 (resolve_he_In s hf he he1 H))).
  destruct (resolve_he s hf he) as [he1|]; [|reflexivity]. cbn [option_map]. unfold adj_fold. rewrite C3.
  change (AdjRun false None) with (mapst g (AdjRun false None)) at 1.
  rewrite (outer_fold_rename he1 (R he1 eq_refl)) by auto.
  destruct (fold_left (adj_outer s hf he1) (cell_at s c) (AdjRun false None)); reflexivity.
Qed.

End Rename.

(* ================================================================== the same with injectivity on domains *)

Theorem adjacent_rename_inj (s s' : mesh) (g k : nat -> nat) (Dg Dk : nat -> Prop) (hf he c c' : nat) :
  cell_of s hf = Some c -> cell_of s' (g hf) = Some c' -> cell_at s' c' = map g (cell_at s c) ->
  (forall z, z = hf \/ In z (cell_at s c) -> halfface s' (g z) = map k (halfface s z)) ->
  (forall a b, Dg a -> Dg b -> g a = g b -> a = b) -> (forall a, Dg a -> Dg (opp a) /\ g (opp a) = opp (g a)) ->
  Dg hf -> (forall z, In z (cell_at s c) -> Dg z) ->
  (forall a b, Dk a -> Dk b -> k a = k b -> a = b) -> (forall a, Dk a -> Dk (opp a) /\ k (opp a) = opp (k a)) ->
  Dk he -> (forall z w, z = hf \/ In z (cell_at s c) -> In w (halfface s z) -> Dk w) ->
  adjacent_halfface_in_cell s' (g hf) (k he) = option_map g (adjacent_halfface_in_cell s hf he).
Proof.
  intros C1 C2 C3 HF Gi Go Dhf Dc Kinj Ko Dhe Dw.
  apply (adjacent_rename s s' g k hf he c c' C1 C2 C3 HF).
  - intros z Hz. split; [apply eqb_of_inj; apply Gi; auto|].
    rewrite <- (proj2 (Go hf Dhf)). apply eqb_of_inj. apply Gi; [auto|exact (proj1 (Go hf Dhf))].
  - intros he1 z w H1 Hz Hw.
    assert (D1 : Dk he1) by (destruct H1 as [->| ->]; [exact Dhe|exact (proj1 (Ko he Dhe))]).
    pose proof (Dw z w Hz Hw) as D2. split.
    + rewrite <- (proj2 (Ko w D2)). apply eqb_of_inj. apply Kinj; [exact (proj1 (Ko w D2))|exact D1].
    + apply eqb_of_inj. apply Kinj; assumption.
  - exact (proj2 (Ko he Dhe)).
Qed.

(* the identity renaming: the query reads cell_of at hf, the cell's definition and the definitions of its faces *)
Theorem adjacent_same (s s' : mesh) (hf he c c' : nat) :
  cell_of s hf = Some c -> cell_of s' hf = Some c' -> cell_at s' c' = cell_at s c ->
  (forall z, z = hf \/ In z (cell_at s c) -> halfface s' z = halfface s z) ->
  adjacent_halfface_in_cell s' hf he = adjacent_halfface_in_cell s hf he.
Proof.
  intros C1 C2 C3 HF.
  pose proof (adjacent_rename_inj s s' (fun x => x) (fun x => x) (fun _ => True) (fun _ => True) hf he c c' C1 C2) as T.
  rewrite T; auto.
  - destruct (adjacent_halfface_in_cell s hf he); reflexivity.
  - rewrite map_id. exact C3.
  - intros z Hz. rewrite map_id. apply HF. exact Hz.
Qed.

(* ================================================================== openness *)

Lemma open_rename (s s' : mesh) (r : nat -> nat) x y :
  cell_of s' y = option_map r (cell_of s x) -> (forall c, cell_of s x = Some c -> c_deleted s' (r c) = c_deleted s c) ->
  hf_is_open s' y = hf_is_open s x.
Proof. unfold hf_is_open. intros -> H. destruct (cell_of s x) as [c|]; cbn [option_map]; [apply H; reflexivity|reflexivity]. Qed.

Lemma open_same (s s' : mesh) x : cell_of s' x = cell_of s x -> (forall c, cell_of s x = Some c -> c_deleted s' c = c_deleted s c) ->
  hf_is_open s' x = hf_is_open s x.
Proof. intros E H. apply (open_rename s s' (fun c => c)); [rewrite E; destruct (cell_of s x); reflexivity|exact H]. Qed.
