(* Kernel5/RotOpsFrame.v -- C09 at history level, step 1: the operations that do not touch the halfface lists or the cells / faces
   around an edge keep rot_all: add_vertex, add_vertices, add_edge, the property operations, enable_fast, enable_vbu,
   swap_vertex_indices, delete_vertex_core (all modes), set_flags / set_counts, clear. *)
From Coq Require Import ZArith Lia Bool Arith List ZifyNat ZifyBool.
From OVM Require Import Base.ListX Base.ListLemmas Kernel.State Kernel.Ops Kernel.Mirror Kernel.Construct Kernel.Closure Kernel.ExactInv
                        Kernel.SwapEffects Kernel2.LookupModel Kernel2.RotationProofs
                        Kernel5.RotDefs Kernel5.RotTransfer Kernel5.RotFrame.
Import ListNotations.
Local Open Scope nat_scope.

Ltac rsr := cbn [set_nv set_edges set_faces set_cells set_vdel set_edel set_fdel set_cdel set_counts set_flags
                set_out_hes set_inc_hfs set_inc_cell set_props resize_props resize_eprops resize_fprops resize_cprops resize_vprops
                delete_prop_elem swap_prop_elems vertex_deleted edge_deleted face_deleted cell_deleted
                nv edges faces cells vdel edel fdel cdel ndv nde ndf ndc vbu ebu fbu deferred fast
                out_hes inc_hfs inc_cell pv pe phe pf phf pc pm props fst snd].

Ltac same_rot_refl := unfold same_rot, hfs_at; rsr; repeat split.

(* ---------------------------------------------------------------- record updates *)
Lemma same_rot_set_props k x s : same_rot s (set_props k x s).
Proof. same_rot_refl. Qed.
Lemma same_rot_set_flags a d f s : same_rot s (set_flags a (ebu s) (fbu s) d f s).
Proof. same_rot_refl. Qed.
Lemma same_rot_set_counts a b c d s : same_rot s (set_counts a b c d s).
Proof. same_rot_refl. Qed.
Lemma same_rot_set_out_hes x s : same_rot s (set_out_hes x s).
Proof. same_rot_refl. Qed.
Lemma same_rot_set_edges x s : same_rot s (set_edges x s).
Proof. same_rot_refl. Qed.
Lemma same_rot_set_vdel x s : same_rot s (set_vdel x s).
Proof. same_rot_refl. Qed.
Lemma same_rot_set_edel x s : same_rot s (set_edel x s).
Proof. same_rot_refl. Qed.
Lemma same_rot_set_nv x s : same_rot s (set_nv x s).
Proof. same_rot_refl. Qed.
Lemma same_rot_resize_props k n s : same_rot s (resize_props k n s).
Proof. same_rot_refl. Qed.
Lemma same_rot_delete_prop_elem k i s : same_rot s (delete_prop_elem k i s).
Proof. same_rot_refl. Qed.
Lemma same_rot_swap_prop_elems k i j s : same_rot s (swap_prop_elems k i j s).
Proof. same_rot_refl. Qed.

Lemma same_rot_if (b : bool) s t u : same_rot s t -> same_rot s u -> same_rot s (if b then t else u).
Proof. destruct b; auto. Qed.

(* ---------------------------------------------------------------- add_vertex / add_vertices *)
Lemma same_rot_add_vertex s : same_rot s (fst (add_vertex s)).
Proof.
  pose proof (add_vertex_view s) as W. cbv zeta in W. destruct W as (w1&w2&w3&w4&w5&w6&w7&w8&w9&w10&w11&w12&w13).
  unfold same_rot, hfs_at. rewrite w3, w4, w6, w7, w9, w10, w11, w12. repeat split.
Qed.

Lemma same_rot_add_n_vertices n : forall s, same_rot s (add_n_vertices n s).
Proof.
  induction n as [|n IH]; intros s; [apply same_rot_refl|]. cbn [add_n_vertices].
  exact (same_rot_trans _ _ _ (same_rot_add_vertex s) (IH _)).
Qed.

(* ---------------------------------------------------------------- add_edge *)
Lemma nth_resize_default {A} (d : A) n l k : length l <= n -> nth k (resize n d l) d = nth k l d.
Proof.
  intros H. unfold resize. rewrite firstn_all2 by exact H.
  destruct (Nat.lt_ge_cases k (length l)) as [Hk|Hk]; [apply app_nth1; exact Hk|].
  rewrite app_nth2 by exact Hk. rewrite (nth_overflow l) by exact Hk.
  destruct (Nat.lt_ge_cases (k - length l) (n - length l)) as [Hj|Hj].
  - apply nth_repeat.
  - apply nth_overflow. rewrite repeat_length. exact Hj.
Qed.

Lemma same_rot_append_edge s a b : (ebu s = true -> length (inc_hfs s) <= 2 * S (ne s)) -> same_rot s (fst (append_edge s a b)).
Proof.
  intros L. pose proof (append_edge_view s a b) as W. cbv zeta in W. destruct W as (w1&w2&w3&w4&w5&w6&w7&w8&w9&w10&w11&w12&w13).
  unfold same_rot, hfs_at. rewrite w3, w4, w6, w7, w9, w10, w11, w13. repeat split.
  intros k. destruct (ebu s) eqn:E; [|reflexivity]. apply nth_resize_default. apply L. reflexivity.
Qed.

Lemma same_rot_add_edge s a b dup : (ebu s = true -> length (inc_hfs s) <= 2 * S (ne s)) -> same_rot s (fst (add_edge s a b dup)).
Proof.
  intros L. unfold add_edge. destruct dup; [apply same_rot_append_edge; exact L|].
  destruct (find_dup_edge s a b); [apply same_rot_refl|apply same_rot_append_edge; exact L].
Qed.

(* ---------------------------------------------------------------- modes, vertex incidences *)
Lemma same_rot_enable_fast b s : same_rot s (enable_fast b s).
Proof. unfold enable_fast. same_rot_refl. Qed.

Lemma same_rot_enable_vbu b s : same_rot s (enable_vbu b s).
Proof. unfold enable_vbu. destruct b; destruct (vbu s); cbn [andb negb]; same_rot_refl. Qed.

Lemma same_rot_set_deferred b s : same_rot s (set_flags (vbu s) (ebu s) (fbu s) b (fast s) s).
Proof. same_rot_refl. Qed.

(* ---------------------------------------------------------------- swap_vertex_indices *)
Lemma same_rot_swap_vertex a b s : same_rot s (swap_vertex_indices a b s).
Proof.
  destruct (Nat.eq_dec a b) as [->|N]; [rewrite swap_vertex_self; apply same_rot_refl|].
  pose proof (swap_vertex_effect a b s N) as W. cbv zeta in W.
  destruct W as (_&_&_&w4&w5&_&w7&w8&w9&w10&_&_&_&_&_&_&_&(_&m2&m3&_)&_).
  unfold same_rot, hfs_at. rewrite w4, w5, w7, w8, w9, w10, m2, m3. repeat split.
Qed.

(* ---------------------------------------------------------------- delete_vertex_core, every mode *)
Lemma same_rot_delete_vertex_core h0 s0 : same_rot s0 (delete_vertex_core h0 s0).
Proof.
  unfold delete_vertex_core.
  set (h := if fast s0 && negb (deferred s0) then nv s0 - 1 else h0).
  set (s := if fast s0 && negb (deferred s0) then swap_vertex_indices h0 h s0 else s0).
  assert (S0 : same_rot s0 s) by (unfold s; apply same_rot_if; [apply same_rot_swap_vertex|apply same_rot_refl]).
  apply (same_rot_trans _ _ _ S0). clearbody s. clear S0.
  destruct (deferred s); [same_rot_refl|].
  unfold vertex_deleted. destruct (vbu s) eqn:V; rsr; rewrite ?V; same_rot_refl.
Qed.

(* ---------------------------------------------------------------- rot_all through these operations *)
Theorem rot_all_add_vertex s : rot_all s -> rot_all (fst (add_vertex s)).
Proof. apply rot_all_same, same_rot_add_vertex. Qed.
Theorem rot_all_add_n_vertices n s : rot_all s -> rot_all (add_n_vertices n s).
Proof. apply rot_all_same, same_rot_add_n_vertices. Qed.
Theorem rot_all_add_edge s a b dup : lens_ok s -> rot_all s -> rot_all (fst (add_edge s a b dup)).
Proof. intros (_ & L & _). apply rot_all_same, same_rot_add_edge. intros E. rewrite (L E). lia. Qed.
Theorem rot_all_set_props k x s : rot_all s -> rot_all (set_props k x s).
Proof. apply rot_all_same, same_rot_set_props. Qed.
Theorem rot_all_enable_fast b s : rot_all s -> rot_all (enable_fast b s).
Proof. apply rot_all_same, same_rot_enable_fast. Qed.
Theorem rot_all_enable_vbu b s : rot_all s -> rot_all (enable_vbu b s).
Proof. apply rot_all_same, same_rot_enable_vbu. Qed.
Theorem rot_all_set_deferred b s : rot_all s -> rot_all (set_flags (vbu s) (ebu s) (fbu s) b (fast s) s).
Proof. apply rot_all_same, same_rot_set_deferred. Qed.
Theorem rot_all_set_counts a b c d s : rot_all s -> rot_all (set_counts a b c d s).
Proof. apply rot_all_same, same_rot_set_counts. Qed.
Theorem rot_all_swap_vertex a b s : rot_all s -> rot_all (swap_vertex_indices a b s).
Proof. apply rot_all_same, same_rot_swap_vertex. Qed.
Theorem rot_all_delete_vertex_core h s : rot_all s -> rot_all (delete_vertex_core h s).
Proof. apply rot_all_same, same_rot_delete_vertex_core. Qed.

Theorem rot_all_clear cp s : rot_all (clear_mesh cp s).
Proof. apply rot_all_no_faces. reflexivity. Qed.
