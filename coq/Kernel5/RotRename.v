(* Kernel5/RotRename.v -- the general renaming lemma: an edge_map from what the two states STORE around the edge.
   g renames halffaces (inverse g'), k renames halfedges, r renames cells.  Asked: incidence corresponds; for every halfface x around
   the edge, the halfface->cell entry of g x is the r-image of that of x, the deleted flag of the cell is kept, and for a live cell
   its stored definition is the g-image of the old one and the stored halffaces of the cell are the k-images of the old ones.
   Injectivity of g, k only on domains Dg, Dk (index shifts are not injective at the removed handles). *)
From Coq Require Import ZArith Lia Bool Arith List ZifyNat ZifyBool.
From OVM Require Import Kernel.State Kernel.Ops Kernel.Mirror Kernel2.LookupModel Kernel2.ListAux Kernel2.AdjacentProofs
                        Kernel2.RotationProofs Kernel5.RotDefs Kernel5.RotTransfer Kernel5.RotAdj.
Import ListNotations.
Ltac Zify.zify_post_hook ::= Z.div_mod_to_equations.
Local Open Scope nat_scope.

Definition around (P : nat -> Prop) (s : mesh) (e x : nat) : Prop := inc_on P s (2 * e) x \/ inc_on P s (2 * e + 1) x.

Lemma around_opp P s e x : around P s e x -> around P s e (opp x).
Proof.
  intros [H|H]; [right|left].
  - apply inc_on_odd. rewrite opp_involutive. exact H.
  - apply inc_on_odd in H. exact H.
Qed.

Theorem edge_map_of_reads (P P' : nat -> Prop) (s s' : mesh) (e e' : nat) (g g' k r : nat -> nat) (Dg Dk : nat -> Prop) :
  (forall x, g (opp x) = opp (g x)) -> (forall y, g' (opp y) = opp (g' y)) ->
  (forall x, inc_on P s (2 * e) x -> inc_on P' s' (2 * e') (g x) /\ g' (g x) = x) ->
  (forall y, inc_on P' s' (2 * e') y -> inc_on P s (2 * e) (g' y) /\ g (g' y) = y) ->
  (forall a b, Dg a -> Dg b -> g a = g b -> a = b) -> (forall a, Dg a -> Dg (opp a)) -> (forall x, around P s e x -> Dg x) ->
  (forall a b, Dk a -> Dk b -> k a = k b -> a = b) -> (forall a, Dk a -> Dk (opp a) /\ k (opp a) = opp (k a)) ->
  Dk (2 * e) -> k (2 * e) = 2 * e' ->
  (forall x, around P s e x -> cell_of s x = None -> cell_of s' (g x) = None) ->
  (forall x c, around P s e x -> cell_of s x = Some c ->
     cell_of s' (g x) = Some (r c) /\ c_deleted s' (r c) = c_deleted s c /\
     (c_deleted s c = false ->
        cell_at s' (r c) = map g (cell_at s c) /\ (forall z, In z (cell_at s c) -> Dg z) /\
        (forall z, z = x \/ In z (cell_at s c) -> halfface s' (g z) = map k (halfface s z) /\ forall w, In w (halfface s z) -> Dk w))) ->
  edge_map P P' s s' e e' g g'.
Proof.
  intros Go Go' Fw Bw Ginj Gopp Ginc Kinj Kopp Dke Ke NoC Cell.
  assert (Ko : k (2 * e + 1) = 2 * e' + 1).
  { rewrite <- (opp_double e), (proj2 (Kopp _ Dke)), Ke. apply opp_double. }
  assert (Dko : Dk (2 * e + 1)) by (rewrite <- (opp_double e); exact (proj1 (Kopp _ Dke))).
  assert (Adj : forall x h h', around P s e x -> Dk h -> k h = h' -> hf_is_open s x = false ->
            adjacent_halfface_in_cell s' (g x) h' = option_map g (adjacent_halfface_in_cell s x h) /\
            (forall a, adjacent_halfface_in_cell s x h = Some a -> Dg a)).
  { intros x h h' Hx Dh Eh O. unfold hf_is_open in O. destruct (cell_of s x) as [c|] eqn:Ec; [|discriminate].
    destruct (Cell x c Hx Ec) as (C2 & _ & Live). destruct (Live O) as (C3 & Dc & HF). split.
    - rewrite <- Eh.
      apply (adjacent_rename_inj s s' g k Dg Dk x h c (r c) Ec C2 C3
               (fun z Hz => proj1 (HF z Hz)) Ginj (fun a Da => conj (Gopp a Da) (Go a)) (Ginc x Hx) Dc Kinj Kopp Dh
               (fun z w Hz Hw => proj2 (HF z Hz) w Hw)).
    - intros a Ea. destruct (adjacent_result_spec s x h a Ea) as (c0 & he1 & E0 & _ & Hin & _).
      rewrite Ec in E0. injection E0 as <-. apply Dc. exact Hin. }
  apply (edge_map_of_adj P P' s s' e e' g g' Dg); auto.
  - intros x Hx. apply Ginc. left. exact Hx.
  - intros x Hx. destruct (cell_of s x) as [c|] eqn:Ec.
    + destruct (Cell x c Hx Ec) as (C2 & Cd & _). unfold hf_is_open. rewrite C2, Ec. exact Cd.
    + unfold hf_is_open. rewrite (NoC x Hx Ec), Ec. reflexivity.
  - intros x Hx O. apply (Adj x (2 * e) (2 * e')); auto. left. exact Hx.
  - intros x Hx O. apply (Adj x (2 * e + 1) (2 * e' + 1)); auto. right. exact Hx.
Qed.

(* ================================================================== halfface handles unchanged, cells renamed by r *)
Theorem edge_map_of_reads_id (P P' : nat -> Prop) (s s' : mesh) (e : nat) (r : nat -> nat) :
  (forall x, inc_on P s (2 * e) x <-> inc_on P' s' (2 * e) x) ->
  (forall x, around P s e x -> cell_of s x = None -> cell_of s' x = None) ->
  (forall x c, around P s e x -> cell_of s x = Some c ->
     cell_of s' x = Some (r c) /\ c_deleted s' (r c) = c_deleted s c /\
     (c_deleted s c = false ->
        cell_at s' (r c) = cell_at s c /\ (forall z, z = x \/ In z (cell_at s c) -> halfface s' z = halfface s z))) ->
  edge_map P P' s s' e e (fun x => x) (fun x => x).
Proof.
  intros I NoC Cell.
  apply (edge_map_of_reads P P' s s' e e (fun x => x) (fun x => x) (fun x => x) r (fun _ => True) (fun _ => True)); auto.
  - intros x Hx. split; [apply I; exact Hx|reflexivity].
  - intros y Hy. split; [apply I; exact Hy|reflexivity].
  - intros x c Hx Ec. destruct (Cell x c Hx Ec) as (A & B & C). split; [exact A|]. split; [exact B|]. intros Hd.
    destruct (C Hd) as [C1 C2]. split; [rewrite map_id; exact C1|]. split; [auto|]. intros z Hz. rewrite map_id. split; [apply C2; exact Hz|auto].
Qed.
