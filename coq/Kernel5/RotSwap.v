(* Kernel5/RotSwap.v -- C09 at history level, step 5: the index swaps are pure renamings and keep rot_all
   (swap_vertex_indices: Kernel5/RotOpsFrame.v).
     swap_cell_indices a b    the halfface->cell entries and the cell slots are renamed by swap_idx a b
     swap_face_indices a b    halfface handles renamed by swap_half a b in the lists, in the live cells and in the cache
     swap_edge_indices a b    halfedge handles renamed by swap_half a b in the live faces; the two pairs of lists change places
   Deferred-deleted cells / faces may keep stale definitions (known finding D13); nothing here reads them. *)
From Coq Require Import ZArith Lia Bool Arith List ZifyNat ZifyBool.
From OVM Require Import Base.ListX Base.ListLemmas Kernel.State Kernel.Ops Kernel.Mirror Kernel.Recompute Kernel.Closure Kernel.ExactInv
                        Kernel.SwapEffects Kernel.SwapCellCache Kernel.SwapFaceCache Kernel.SwapEdgeCache Kernel.ShiftCompose
                        Kernel2.LookupModel Kernel2.ListAux Kernel2.AdjacentProofs Kernel2.RotationProofs Kernel2.ReorderExact
                        Kernel3.GcDefs Kernel3.GcInv Kernel3.FastEdge Kernel4.AllStaleFace Kernel4.AllStaleEdge
                        Kernel5.RotDefs Kernel5.RotTransfer Kernel5.RotAdj Kernel5.RotFrame Kernel5.RotExact Kernel5.RotRename.
Import ListNotations.
Ltac Zify.zify_post_hook ::= Z.div_mod_to_equations.
Local Open Scope nat_scope.

Lemma nth_swap_nth_idx {A} a b (d : A) l k : a < length l -> b < length l -> nth (swap_idx a b k) (swap_nth a b d l) d = nth k l d.
Proof.
  intros Ha Hb. rewrite nth_swap_nth by assumption. unfold swap_idx.
  destruct (Nat.eqb_spec k a) as [->|N1].
  - destruct (Nat.eqb_spec b a) as [->|N2]; [reflexivity|]. rewrite Nat.eqb_refl. reflexivity.
  - destruct (Nat.eqb_spec k b) as [->|N2].
    + rewrite Nat.eqb_refl. reflexivity.
    + destruct (Nat.eqb_spec k a); [contradiction|]. destruct (Nat.eqb_spec k b); [contradiction|]. reflexivity.
Qed.


(* ================================================================== swap_cell_indices *)

Theorem rot_all_swap_cell a b s : rinv s -> a < nc s -> b < nc s -> rot_all s -> rot_all (swap_cell_indices a b s).
Proof.
  intros G Ha Hb R. destruct (Nat.eq_dec a b) as [->|N]; [rewrite swap_cell_self; exact R|].
  pose proof (swap_cell_effect a b s N) as W. cbv zeta in W.
  destruct W as (c1&c2&_&_&_&c6&_&_&c9&_&c11&_&_&_&_&_&_&_&(_&m2&m3&_)&_).
  set (t := swap_cell_indices a b s) in *. intros Et Ft.
  assert (E : ebu s = true) by congruence. assert (F : fbu s = true) by congruence.
  pose proof G as (EO & FO & RO & (_ & L2 & L3 & _ & L5 & L6) & _).
  assert (IC : inc_cell t = map (option_map (swap_idx a b)) (inc_cell s)).
  { apply swap_cell_cache_relabeled; auto; apply cell_entries_sound_of_exact; auto. }
  assert (HF : forall x, halfface t x = halfface s x) by (intros x; unfold halfface, face_at; rewrite c6; reflexivity).
  assert (LF : forall f, livef t f <-> livef s f) by (intros f; unfold livef, live_f, nf, f_deleted; rewrite c6, c9; reflexivity).
  assert (IO : forall h x, inc_on (livef s) s h x <-> inc_on (livef t) t h x) by (intros h x; unfold inc_on; rewrite HF, LF; reflexivity).
  assert (CO : forall x, cell_of t x = option_map (swap_idx a b) (cell_of s x)) by (intros x; unfold cell_of; rewrite IC; apply nth_map_option).
  apply (rot_on_transfer (livef s) (livef t) s t (R E F)). intros e X Fa.
  exists e, (fun x => x), (fun x => x). split; [|split; [|split]].
  - apply rinv_exact_on; auto. destruct (fan_on_witness _ _ _ Fa) as [x Hx]. apply IO in Hx. exact (inc_edge_lt s e x RO Hx).
  - apply (edge_map_of_reads_id (livef s) (livef t) s t e (swap_idx a b)).
    + intros x. apply IO.
    + intros x _ Ec. rewrite CO, Ec. reflexivity.
    + intros x c _ Ec. split; [rewrite CO, Ec; reflexivity|]. split.
      * unfold c_deleted. rewrite c2. apply nth_swap_nth_idx; rewrite L6; assumption.
      * intros _. split; [unfold cell_at; rewrite c1; apply nth_swap_nth_idx; assumption|]. intros z _. apply HF.
  - rewrite map_id. unfold hfs_at. rewrite c11. reflexivity.
  - rewrite map_id. unfold hfs_at. rewrite c11. reflexivity.
Qed.

(* ================================================================== swap_face_indices *)

Lemma halfface_swapped s t a b x : faces t = swap_nth a b [] (faces s) -> a < nf s -> b < nf s ->
  halfface t x = halfface s (swap_half a b x).
Proof.
  intros Ef Ha Hb. unfold halfface. rewrite swap_half_even. destruct (swap_half_spec a b x) as [Q _]. rewrite Q.
  replace (face_at t (x / 2)) with (face_at s (swap_idx a b (x / 2))); [reflexivity|].
  unfold face_at. rewrite Ef, nth_swap_nth by assumption. unfold swap_idx.
  destruct (Nat.eqb_spec (x / 2) a); [reflexivity|]. destruct (Nat.eqb_spec (x / 2) b); reflexivity.
Qed.

(* CA: the live cells are stored relabeled (from ginv: Kernel4/AllStaleFace.v, also with stale flagged cells; without flags:
   Kernel3/FastFace.v) *)
Theorem rot_all_swap_face_gen a b s : rinv s -> a < nf s -> b < nf s ->
  (forall c, c < nc s -> c_deleted s c = false -> cell_at (swap_face_indices a b s) c = map (swap_half a b) (cell_at s c)) ->
  rot_all s -> rot_all (swap_face_indices a b s).
Proof.
  intros G Ha Hb CA R. destruct (Nat.eq_dec a b) as [->|N]; [rewrite swap_face_self; exact R|].
  pose proof (swap_face_effect a b s N) as W. cbv zeta in W.
  destruct W as (c1&c2&_&_&_&_&_&_&c9&_&_&_&_&_&_&_&(_&m2&m3&_)&_).
  set (t := swap_face_indices a b s) in *. intros Et Ft.
  assert (E : ebu s = true) by congruence. assert (F : fbu s = true) by congruence.
  pose proof G as (EO & FO & RO & (_ & L2 & L3 & _ & L5 & L6) & _).
  pose proof (L2 E) as L2'. pose proof (L3 F) as L3'.
  assert (IC : inc_cell t = swap_nth (2 * a + 1) (2 * b + 1) None (swap_nth (2 * a) (2 * b) None (inc_cell s))) by (apply swap_face_inc_cell_fbu; assumption).
  assert (IH : inc_hfs t = map (map (swap_half a b)) (inc_hfs s)).
  { apply swap_face_inc_hfs_relabeled; auto. apply hfs_sound_of_exact; auto. }
  set (sw := swap_half a b).
  assert (SW : forall x, sw (sw x) = x) by (intros x; apply swap_half_involutive).
  assert (HF : forall x, halfface t (sw x) = halfface s x) by (intros x; rewrite (halfface_swapped s t a b _ c1 Ha Hb); fold sw; rewrite SW; reflexivity).
  assert (LF : forall x, livef t (sw x / 2) <-> livef s (x / 2)).
  { intros x. unfold livef, live_f, nf, f_deleted. rewrite c1, c2, swap_nth_length. destruct (swap_half_spec a b x) as [Q _]. unfold sw. rewrite Q.
    rewrite nth_swap_nth_idx by (rewrite L5; assumption).
    replace (swap_idx a b (x / 2) <? length (faces s)) with (x / 2 <? length (faces s)); [reflexivity|].
    pose proof (swap_idx_lt a b (nf s) (x / 2) Ha Hb) as T. unfold nf in T.
    destruct (Nat.ltb_spec (x / 2) (length (faces s))); destruct (Nat.ltb_spec (swap_idx a b (x / 2)) (length (faces s))); try reflexivity; lia. }
  assert (IO : forall h x, inc_on (livef s) s h x <-> inc_on (livef t) t h (sw x)) by (intros h x; unfold inc_on; rewrite HF, LF; reflexivity).
  assert (CO : forall x, cell_of t (sw x) = cell_of s x).
  { intros x. unfold cell_of. rewrite IC, nth_half_swap by lia. fold sw. rewrite SW. reflexivity. }
  assert (SO : forall x, sw (opp x) = opp (sw x)) by (intros x; symmetry; apply opp_swap_half).
  apply (rot_on_transfer (livef s) (livef t) s t (R E F)). intros e X Fa.
  exists e, sw, sw. split; [|split; [|split]].
  - apply rinv_exact_on; auto. destruct (fan_on_witness _ _ _ Fa) as [x Hx]. rewrite <- (SW x) in Hx. apply IO in Hx. exact (inc_edge_lt s e _ RO Hx).
  - apply (edge_map_of_reads (livef s) (livef t) s t e e sw sw (fun x => x) (fun c => c) (fun _ => True) (fun _ => True)); auto.
    + intros x Hx. split; [apply IO; exact Hx|apply SW].
    + intros y Hy. split; [apply IO; rewrite SW; exact Hy|apply SW].
    + intros x y _ _. apply swap_half_inj.
    + intros x _ Ec. rewrite CO. exact Ec.
    + intros x c Hx Ec. split; [rewrite CO; exact Ec|]. split; [unfold c_deleted; rewrite c9; reflexivity|]. intros Hd.
      assert (Hxl : x < 2 * nf s) by (destruct Hx as [Hx|Hx]; exact (inc_on_lt s _ x Hx)).
      destruct (proj1 (FO F x Hxl c) Ec) as (Hc & _ & _).
      split; [apply CA; assumption|]. split; [auto|]. intros z _. rewrite map_id. split; [apply HF|auto].
  - unfold hfs_at. rewrite IH. apply nth_map_map_half.
  - unfold hfs_at. rewrite IH. apply nth_map_map_half.
Qed.

(* ================================================================== swap_edge_indices *)

Lemma halfface_map_faces (k : nat -> nat) s t x : (forall y, k (opp y) = opp (k y)) ->
  face_at t (x / 2) = map k (face_at s (x / 2)) -> halfface t x = map k (halfface s x).
Proof.
  intros Ko Ef. unfold halfface. rewrite Ef. destruct (Nat.even x); [reflexivity|].
  rewrite map_rev, !map_map. f_equal. apply map_ext. intros y. symmetry. apply Ko.
Qed.

Lemma swap_half_double a b e : swap_half a b (2 * e) = 2 * swap_idx a b e.
Proof.
  destruct (swap_half_spec a b (2 * e)) as [Q1 Q2]. replace (2 * e / 2) with e in Q1 by lia.
  pose proof (Nat.div_mod_eq (swap_half a b (2 * e)) 2). lia.
Qed.

Theorem rot_all_swap_edge_gen a b s : rinv s -> a < ne s -> b < ne s ->
  (forall f, f < nf s -> f_deleted s f = false -> face_at (swap_edge_indices a b s) f = map (swap_half a b) (face_at s f)) ->
  nf (swap_edge_indices a b s) = nf s ->
  rot_all s -> rot_all (swap_edge_indices a b s).
Proof.
  intros G Ha Hb FA NFt R. destruct (Nat.eq_dec a b) as [->|N]; [rewrite swap_edge_self; exact R|].
  pose proof (swap_edge_effect a b s N) as W. cbv zeta in W.
  destruct W as (_&_&_&_&_&c6&_&c8&c9&c10&_&_&_&_&_&_&(_&m2&m3&_)&_).
  set (t := swap_edge_indices a b s) in *. intros Et Ft.
  assert (E : ebu s = true) by congruence. assert (F : fbu s = true) by congruence.
  pose proof G as (EO & FO & RO & (_ & L2 & L3 & _ & L5 & L6) & CRL & _).
  pose proof (L2 E) as L2'.
  assert (IH : inc_hfs t = swap_nth (2 * a + 1) (2 * b + 1) [] (swap_nth (2 * a) (2 * b) [] (inc_hfs s))) by (apply swap_edge_inc_hfs_ebu; assumption).
  set (sw := swap_half a b).
  assert (SW : forall x, sw (sw x) = x) by (intros x; apply swap_half_involutive).
  assert (SO : forall x, sw (opp x) = opp (sw x)) by (intros x; symmetry; apply opp_swap_half).
  assert (LF : forall f, livef t f <-> livef s f) by (intros f; unfold livef, live_f, f_deleted; rewrite NFt, c8; reflexivity).
  assert (HF : forall x, livef s (x / 2) -> halfface t x = map sw (halfface s x)).
  { intros x Hl. apply livef_spec in Hl. destruct Hl as [H1 H2]. apply halfface_map_faces; [exact SO|]. apply FA; assumption. }
  apply (rot_on_transfer (livef s) (livef t) s t (R E F)). intros e' X Fa.
  set (e := swap_idx a b e').
  assert (Ke : sw (2 * e) = 2 * e') by (unfold sw, e; rewrite swap_half_double, swap_idx_involutive; reflexivity).
  assert (Ke' : sw (2 * e') = 2 * e) by (rewrite <- Ke; apply SW).
  assert (IO : forall x, inc_on (livef s) s (2 * e) x <-> inc_on (livef t) t (2 * e') x).
  { intros x. unfold inc_on. rewrite LF. split; intros [Hl Hi]; (split; [exact Hl|]).
    - rewrite (HF x Hl). unfold sw. apply In_map_swap_half. fold sw. rewrite Ke'. exact Hi.
    - rewrite (HF x Hl) in Hi. unfold sw in Hi. apply In_map_swap_half in Hi. fold sw in Hi. rewrite Ke' in Hi. exact Hi. }
  exists e, (fun x => x), (fun x => x). split; [|split; [|split]].
  - apply rinv_exact_on; auto. destruct (fan_on_witness _ _ _ Fa) as [x Hx]. apply IO in Hx. exact (inc_edge_lt s e x RO Hx).
  - apply (edge_map_of_reads (livef s) (livef t) s t e e' (fun x => x) (fun x => x) sw (fun c => c) (fun _ => True) (fun _ => True)); auto.
    + intros x Hx. split; [apply IO; exact Hx|reflexivity].
    + intros y Hy. split; [apply IO; exact Hy|reflexivity].
    + intros x y _ _. apply swap_half_inj.
    + intros x _ Ec. unfold cell_of in *. rewrite c10. exact Ec.
    + intros x c Hx Ec. split; [unfold cell_of in *; rewrite c10; exact Ec|]. split; [unfold c_deleted; rewrite c9; reflexivity|]. intros Hd.
      assert (Hxl : livef s (x / 2)) by (destruct Hx as [[Hx _]|[Hx _]]; exact Hx).
      assert (Hx2 : x < 2 * nf s) by (apply livef_spec in Hxl; lia).
      destruct (proj1 (FO F x Hx2 c) Ec) as (Hc & _ & _).
      split; [rewrite map_id; unfold cell_at; rewrite c6; reflexivity|]. split; [auto|]. intros z [->|Hz].
      * split; [apply HF; exact Hxl|auto].
      * split; [|auto]. apply HF. apply livef_spec. exact (CRL c z Hc Hd Hz).
  - rewrite map_id. unfold hfs_at. rewrite IH, nth_half_swap by lia. fold sw. rewrite Ke'. reflexivity.
  - rewrite map_id. unfold hfs_at. rewrite IH, nth_half_swap by lia. fold sw.
    replace (sw (2 * e' + 1)) with (2 * e + 1); [reflexivity|]. rewrite <- (opp_double e'), SO, Ke'. symmetry. apply opp_double.
Qed.

(* ================================================================== from the cache invariant, also with deletions pending *)

Theorem rot_all_swap_face a b s : ginv s -> a < nf s -> b < nf s -> rot_all s -> rot_all (swap_face_indices a b s).
Proof.
  intros G Ha Hb. destruct (ginv_swap_face_any a b s G Ha Hb) as (_ & CA & _). apply rot_all_swap_face_gen; auto. apply ginv_rinv; exact G.
Qed.

Theorem rot_all_swap_edge a b s : ginv s -> a < ne s -> b < ne s -> rot_all s -> rot_all (swap_edge_indices a b s).
Proof.
  intros G Ha Hb. destruct (ginv_swap_edge_any a b s G Ha Hb) as (_ & FA & NFt). apply rot_all_swap_edge_gen; auto. apply ginv_rinv; exact G.
Qed.
