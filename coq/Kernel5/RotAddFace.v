(* Kernel5/RotAddFace.v -- C09 at history level, step 2: add_face keeps rot_all.
   add_face appends the two new halffaces (cell-less, hence open on both sides) to the lists of the halfedges of the new face.
     an edge that is not an edge of the new face keeps its lists and reads;
     an edge of the new face is a single fan afterwards only if the new face is its only face (add_face_fan_is_trivial: the fan is the
     one-element chain), and then its two lists are the singletons [new halfface], [opposite] - trivially in order;
     in particular an edge that had a face before is NOT a single fan afterwards (add_face_breaks_fan). *)
From Coq Require Import ZArith Lia Bool Arith List ZifyNat ZifyBool.
From OVM Require Import Base.ListX Base.ListLemmas Kernel.State Kernel.Ops Kernel.Mirror Kernel.Recompute Kernel.Closure Kernel.ExactInv Kernel.ExactRun
                        Kernel2.LookupModel Kernel2.ListAux Kernel2.AdjacentProofs Kernel2.RotationProofs Kernel2.ReorderExact Kernel2.ExactBase
                        Kernel3.GcDefs
                        Kernel5.RotDefs Kernel5.RotTransfer Kernel5.RotAdj Kernel5.RotFrame Kernel5.RotOpsFrame Kernel5.RotExact Kernel5.RotRename
                        Kernel5.RotStage Kernel5.RotFlags.
Import ListNotations.
Ltac Zify.zify_post_hook ::= Z.div_mod_to_equations.
Local Open Scope nat_scope.

(* ================================================================== the shape of a fan that contains a halfface open on both sides *)

Lemma linked_has_next (R : nat -> nat -> Prop) l x : linked R l -> In x l -> x <> last l 0 -> exists y, R x y.
Proof.
  intros Hl. induction Hl as [|a|a b t Rab Hl IH]; intros Hin Hne.
  - destruct Hin.
  - destruct Hin as [<-|[]]. exfalso. apply Hne. reflexivity.
  - destruct Hin as [<-|Hin]; [exists b; exact Rab|]. apply IH; [exact Hin|]. rewrite last_cons_cons in Hne. exact Hne.
Qed.

Lemma linked_has_prev (R : nat -> nat -> Prop) l y : linked R l -> In y l -> y <> hd 0 l -> exists x, R x y.
Proof.
  intros Hl. induction Hl as [|a|a b t Rab Hl IH]; intros Hin Hne.
  - destruct Hin.
  - destruct Hin as [<-|[]]. exfalso. apply Hne. reflexivity.
  - destruct Hin as [<-|Hin]; [exfalso; apply Hne; reflexivity|]. destruct (Nat.eq_dec y b) as [->|N]; [exists a; exact Rab|].
    apply IH; [exact Hin|exact N].
Qed.

Lemma hd_last_single (l : list nat) x : NoDup l -> l <> [] -> hd 0 l = x -> last l 0 = x -> l = [x].
Proof.
  intros Nd Hne Hh Hl. destruct l as [|a t]; [congruence|]. cbn [hd] in Hh. subst a. destruct t as [|b t]; [reflexivity|]. exfalso.
  inversion Nd as [|? ? Hx _]; subst. apply Hx. rewrite <- Hl at 1. rewrite last_cons_cons.
  destruct (exists_last (l := b :: t) ltac:(discriminate)) as [t' [a ->]]. rewrite last_snoc. apply in_or_app. right. left. reflexivity.
Qed.

(* a fan around halfedge 2e that contains a halfface x0 with both sides open is the one-element chain [x0] *)
Theorem fan_with_isolated_face P s e x0 :
  inc_on P s (2 * e) x0 -> hf_is_open s x0 = true -> hf_is_open s (opp x0) = true ->
  fan_on P s e -> forall x, inc_on P s (2 * e) x -> x = x0.
Proof.
  intros I0 O0 O1 (l & Hne & Nd & Ml & Shape) x Ix.
  assert (Hin : In x0 l) by (apply Ml; exact I0).
  assert (L1 : l = [x0]).
  { destruct Shape as [[Lf Cl]|(Lf & Lb & _ & _)].
    - exfalso. destruct (Nat.eq_dec x0 (last l 0)) as [E|N].
      + rewrite <- E in Cl. destruct Cl as [O _]. congruence.
      + destruct (linked_has_next _ l x0 Lf Hin N) as [y [O _]]. congruence.
    - apply hd_last_single; auto.
      + destruct (Nat.eq_dec x0 (hd 0 l)) as [E|N]; [symmetry; exact E|]. exfalso.
        destruct (linked_has_prev _ l x0 Lb Hin N) as [y [O _]]. congruence.
      + destruct (Nat.eq_dec x0 (last l 0)) as [E|N]; [symmetry; exact E|]. exfalso.
        destruct (linked_has_next _ l x0 Lf Hin N) as [y [O _]]. congruence. }
  apply Ml in Ix. rewrite L1 in Ix. destruct Ix as [<-|[]]. reflexivity.
Qed.

(* an edge whose only face is open (on the side of the halfedge) is trivially in order when its cache is exact *)
Lemma nodup_all_eq (l : list nat) x0 : NoDup l -> In x0 l -> (forall x, In x l -> x = x0) -> l = [x0].
Proof.
  intros Nd Hin All. destruct l as [|a t]; [destruct Hin|]. assert (a = x0) by (apply All; left; reflexivity). subst a.
  destruct t as [|b t]; [reflexivity|]. exfalso. assert (b = x0) by (apply All; right; left; reflexivity). subst b.
  inversion Nd as [|? ? Hx _]; subst. apply Hx. left. reflexivity.
Qed.

Theorem trivial_fan_rot_ok P s e x0 :
  exact_on P s e -> inc_on P s (2 * e) x0 -> (forall x, inc_on P s (2 * e) x -> x = x0) -> hf_is_open s x0 = true -> rot_ok s e.
Proof.
  intros (Nd & M0 & M1 & Len) I0 All O.
  assert (L0 : hfs_at s (2 * e) = [x0]).
  { apply nodup_all_eq; [exact Nd|apply M0; exact I0|]. intros x Hx. apply All. apply M0. exact Hx. }
  assert (L1 : hfs_at s (2 * e + 1) = [opp x0]).
  { apply length1_In; [rewrite Len, L0; reflexivity|]. apply M1. apply inc_on_odd. rewrite opp_involutive. exact I0. }
  split.
  - rewrite L0. intros i Hi. cbn [length] in Hi. assert (i = 0) by lia. subst i. cbn [nth length]. split; [intros Q; congruence|reflexivity].
  - rewrite L1, L0. reflexivity.
Qed.

(* ================================================================== append_face *)

Lemma fold_estep_in_other f hes : forall ll h, h < length ll -> ~ In h hes -> ~ In (opp h) hes ->
  nth h (fold_left (estep_in f) hes ll) [] = nth h ll [].
Proof.
  induction hes as [|he hes IH]; intros ll h Hh N1 N2; [reflexivity|]. cbn [fold_left].
  rewrite IH; [|rewrite estep_in_length; exact Hh|intros H; apply N1; right; exact H|intros H; apply N2; right; exact H].
  unfold estep_in. rewrite nth_push_at by (rewrite push_at_length; exact Hh). rewrite nth_push_at by exact Hh.
  destruct (Nat.eqb_spec (opp he) h) as [E1|E1]; [exfalso; apply N2; left; rewrite <- E1; symmetry; apply opp_involutive|].
  destruct (Nat.eqb_spec he h) as [E2|E2]; [exfalso; apply N1; left; exact E2|reflexivity].
Qed.

Section AppendFace.
Context (s : mesh) (hes : list nat).
Hypothesis G : rinv s.
Hypothesis E : ebu s = true.
Hypothesis F : fbu s = true.
Hypothesis Hr : forall h, In h hes -> h < 2 * ne s.
Let f := nf s.
Let t := fst (append_face s hes).

Lemma af_reads :
  faces t = faces s ++ [hes] /\ fdel t = fdel s ++ [false] /\ cells t = cells s /\ cdel t = cdel s /\
  inc_hfs t = add_face_inc f hes (inc_hfs s) /\ inc_cell t = resize (2 * S f) None (inc_cell s) /\ ebu t = true /\ fbu t = true.
Proof.
  pose proof (append_face_view s hes) as W. cbv zeta in W. destruct W as (_&_&w3&w4&_&w6&w7&_&w9&w10&_&w12&w13).
  rewrite E in w12. rewrite F in w13. fold t in w3, w4, w6, w7, w9, w10, w12, w13. repeat split; try assumption; congruence.
Qed.

Lemma af_lens : length (fdel s) = nf s /\ length (inc_cell s) = 2 * nf s /\ length (inc_hfs s) = 2 * ne s.
Proof. destruct G as (_ & _ & _ & (_ & L2 & L3 & _ & L5 & _) & _). auto. Qed.

Lemma af_halfface_old x : x / 2 < f -> halfface t x = halfface s x.
Proof. intros Hx. destruct af_reads as (a & _). unfold halfface, face_at. rewrite a, app_nth1 by exact Hx. reflexivity. Qed.

Lemma af_halfface_new x : x / 2 = f -> halfface t x = if Nat.even x then hes else rev (map opp hes).
Proof.
  intros Hx. destruct af_reads as (a & _). unfold halfface, face_at. rewrite a, Hx. unfold f, nf. rewrite nth_middle. reflexivity.
Qed.

Lemma nth_app_false' (l : list bool) i : nth i (l ++ [false]) false = nth i l false.
Proof.
  destruct (Nat.lt_ge_cases i (length l)) as [H|H]; [apply app_nth1; exact H|].
  rewrite app_nth2 by exact H. rewrite (nth_overflow l) by exact H. destruct (i - length l) as [|[|k]]; reflexivity.
Qed.

Lemma af_livef g : livef t g <-> livef s g \/ g = f.
Proof.
  destruct af_reads as (a & b & _). destruct af_lens as (L5 & _).
  assert (FD : f_deleted t g = f_deleted s g) by (unfold f_deleted; rewrite b; apply nth_app_false').
  assert (NF : nf t = S f) by (unfold nf; rewrite a, app_length; cbn [length]; fold (nf s); fold f; lia).
  unfold livef, live_f. rewrite NF, FD. fold f. destruct (Nat.lt_trichotomy g f) as [H|[->|H]].
  - replace (g <? S f) with true by (symmetry; apply Nat.ltb_lt; lia). replace (g <? f) with true by (symmetry; apply Nat.ltb_lt; lia).
    split; [auto|intros [Q|Q]; [exact Q|lia]].
  - replace (f <? S f) with true by (symmetry; apply Nat.ltb_lt; lia).
    replace (f_deleted s f) with false by (symmetry; unfold f_deleted; apply nth_overflow; rewrite L5; apply Nat.le_refl). split; auto.
  - replace (g <? S f) with false by (symmetry; apply Nat.ltb_ge; lia). replace (g <? f) with false by (symmetry; apply Nat.ltb_ge; lia).
    cbn [andb]. split; [discriminate|intros [Q|Q]; [discriminate|lia]].
Qed.

Lemma af_cell_of x : cell_of t x = cell_of s x.
Proof.
  destruct af_reads as (_&_&_&_&_&c&_). destruct af_lens as (_ & L3 & _). unfold cell_of. rewrite c. apply nth_resize_default. unfold f. lia.
Qed.

Lemma af_new_open x : x / 2 = f -> hf_is_open t x = true.
Proof.
  intros Hx. destruct af_lens as (_ & L3 & _). unfold hf_is_open. rewrite af_cell_of. unfold cell_of. rewrite nth_overflow; [reflexivity|].
  rewrite L3. fold f. lia.
Qed.

Lemma af_hfs_other k : ~ In k hes -> ~ In (opp k) hes -> hfs_at t k = hfs_at s k.
Proof.
  intros N1 N2. destruct af_reads as (_&_&_&_&d&_). destruct af_lens as (_ & _ & L2). unfold hfs_at. rewrite d, add_face_inc_eq.
  destruct (Nat.lt_ge_cases k (length (inc_hfs s))) as [Hk|Hk]; [apply fold_estep_in_other; assumption|].
  rewrite !nth_overflow; [reflexivity|exact Hk|rewrite fold_estep_in_length; exact Hk].
Qed.

(* the new halfface around a halfedge of the new face *)
Lemma af_new_incident he : In he hes -> let x0 := if Nat.even he then 2 * f else 2 * f + 1 in
  x0 / 2 = f /\ inc_on (livef t) t (2 * (he / 2)) x0.
Proof.
  intros Hhe. cbv zeta. destruct (Nat.even he) eqn:Ev.
  - assert (Eh : 2 * (he / 2) = he) by (rewrite even_mod2 in Ev; apply Nat.eqb_eq in Ev; lia).
    split; [lia|]. split; [apply af_livef; right; lia|]. rewrite af_halfface_new by lia.
    replace (Nat.even (2 * f)) with true by (symmetry; rewrite even_mod2; apply Nat.eqb_eq; lia). rewrite Eh. exact Hhe.
  - assert (Eh : 2 * (he / 2) = opp he) by (rewrite opp_spec; rewrite even_mod2 in Ev; apply Nat.eqb_neq in Ev; lia).
    split; [lia|]. split; [apply af_livef; right; lia|]. rewrite af_halfface_new by lia.
    replace (Nat.even (2 * f + 1)) with false by (symmetry; rewrite even_mod2; apply Nat.eqb_neq; lia).
    rewrite Eh, <- in_rev. apply in_map. exact Hhe.
Qed.

(* an edge of the new face that is a single fan afterwards has the new face as its only face *)
Theorem add_face_fan_is_trivial he : In he hes -> fan_on (livef t) t (he / 2) ->
  forall x, inc_on (livef t) t (2 * (he / 2)) x -> x = (if Nat.even he then 2 * f else 2 * f + 1).
Proof.
  intros Hhe Fa. destruct (af_new_incident he Hhe) as [Hf I0]. cbv zeta in *.
  apply (fan_with_isolated_face (livef t) t (he / 2) _ I0); [apply af_new_open; exact Hf|apply af_new_open; rewrite opp_div2; exact Hf|exact Fa].
Qed.

Theorem add_face_breaks_fan he x : In he hes -> inc_on (livef s) s (2 * (he / 2)) x -> ~ fan_on (livef t) t (he / 2).
Proof.
  intros Hhe [L I] Fa. pose proof L as L'. apply livef_spec in L'. destruct L' as [Lx _]. fold f in Lx.
  assert (Ix : inc_on (livef t) t (2 * (he / 2)) x) by (split; [apply af_livef; left; exact L|rewrite af_halfface_old by exact Lx; exact I]).
  pose proof (add_face_fan_is_trivial he Hhe Fa x Ix) as Q. destruct (Nat.even he); subst x; lia.
Qed.

Theorem rot_all_append_face : rot_all s -> rot_all t.
Proof.
  intros R _ _ e X Fa. destruct af_reads as (a & b & c4 & c7 & _).
  destruct (in_dec Nat.eq_dec (2 * e) hes) as [H0|N0]; [|destruct (in_dec Nat.eq_dec (2 * e + 1) hes) as [H1|N1]].
  - (* an edge of the new face, stored orientation *)
    pose proof (add_face_fan_is_trivial (2 * e) H0) as T. replace (2 * e / 2) with e in T by lia. specialize (T Fa).
    replace (Nat.even (2 * e)) with true in T by (symmetry; rewrite even_mod2; apply Nat.eqb_eq; lia).
    destruct (af_new_incident (2 * e) H0) as [_ I0]. cbv zeta in I0. replace (2 * e / 2) with e in I0 by lia.
    replace (Nat.even (2 * e)) with true in I0 by (symmetry; rewrite even_mod2; apply Nat.eqb_eq; lia).
    apply (trivial_fan_rot_ok (livef t) t e (2 * f)); auto. apply af_new_open. lia.
  - pose proof (add_face_fan_is_trivial (2 * e + 1) H1) as T. replace ((2 * e + 1) / 2) with e in T by lia. specialize (T Fa).
    replace (Nat.even (2 * e + 1)) with false in T by (symmetry; rewrite even_mod2; apply Nat.eqb_neq; lia).
    destruct (af_new_incident (2 * e + 1) H1) as [_ I0]. cbv zeta in I0. replace ((2 * e + 1) / 2) with e in I0 by lia.
    replace (Nat.even (2 * e + 1)) with false in I0 by (symmetry; rewrite even_mod2; apply Nat.eqb_neq; lia).
    apply (trivial_fan_rot_ok (livef t) t e (2 * f + 1)); auto. apply af_new_open. lia.
  - (* not an edge of the new face *)
    assert (O0 : opp (2 * e) = 2 * e + 1) by apply opp_double. assert (O1 : opp (2 * e + 1) = 2 * e) by apply opp_odd.
    assert (Old : forall k x, k = 2 * e \/ k = 2 * e + 1 -> In k (halfface t x) -> livef t (x / 2) -> x / 2 < f).
    { intros k x Hk Ik Lx. apply af_livef in Lx. destruct Lx as [Lx|Lx]; [apply livef_spec in Lx; exact (proj1 Lx)|]. exfalso.
      rewrite af_halfface_new in Ik by exact Lx. destruct (Nat.even x).
      - destruct Hk as [->| ->]; contradiction.
      - rewrite <- in_rev in Ik. apply in_map_iff in Ik. destruct Ik as [w [Ew Hw]].
        assert (w = opp k) by (rewrite <- Ew; symmetry; apply opp_involutive). subst w.
        destruct Hk as [->| ->]; [rewrite O0 in Hw|rewrite O1 in Hw]; contradiction. }
    assert (IO : forall k x, k = 2 * e \/ k = 2 * e + 1 -> (inc_on (livef s) s k x <-> inc_on (livef t) t k x)).
    { intros k x Hk. split.
      - intros [L I]. pose proof L as L'. apply livef_spec in L'. split; [apply af_livef; left; exact L|rewrite af_halfface_old by (apply L'); exact I].
      - intros [L I]. pose proof (Old k x Hk I L) as Hx. rewrite af_halfface_old in I by exact Hx. split; [|exact I].
        apply af_livef in L. destruct L as [L|L]; [exact L|unfold f in *; lia]. }
    destruct G as (_ & FO & (_ & _ & R3) & _).
    apply (rot_edge_transfer_id (livef s) (livef t) s t e (R E F)); [| | |exact X|exact Fa].
    + apply (edge_map_of_reads_id (livef s) (livef t) s t e (fun c => c)).
      * intros x. apply IO. left. reflexivity.
      * intros x _ Ec. rewrite af_cell_of. exact Ec.
      * intros x c Hx Ec. split; [rewrite af_cell_of; exact Ec|]. split; [unfold c_deleted; rewrite c7; reflexivity|]. intros Hd.
        assert (Hxl : x < 2 * nf s) by (destruct Hx as [Hx|Hx]; exact (inc_on_lt s _ x Hx)).
        destruct (proj1 (FO F x Hxl c) Ec) as (Hc & _ & _).
        split; [unfold cell_at; rewrite c4; reflexivity|]. intros z [->|Hz]; apply af_halfface_old; unfold f; [lia|].
        pose proof (R3 c Hc Hd z Hz). lia.
    + apply af_hfs_other; rewrite ?O0; assumption.
    + apply af_hfs_other; rewrite ?O1; assumption.
Qed.
End AppendFace.

(* ================================================================== add_face, add_face from vertices *)

Lemma bv_append_face s hes : bv (fst (append_face s hes)) = bv s.
Proof. pose proof (append_face_view s hes) as W. cbv zeta in W. destruct W as (_&_&_&_&_&_&_&_&w9&w10&_). unfold bv. congruence. Qed.

Theorem rot_all_add_face s hes chk : rinv s -> (forall h, In h hes -> h < 2 * ne s) -> rot_all s -> rot_all (fst (add_face s hes chk)).
Proof.
  intros G Hr R. unfold add_face. destruct (chk && negb (loop_ok s hes)); [exact R|].
  assert (T : rot_all (fst (append_face s hes))).
  { destruct (ebu s && fbu s) eqn:B.
    - apply andb_true_iff in B. destruct B as [E F]. apply rot_all_append_face; assumption.
    - apply rot_all_off. rewrite (bv_both _ _ (bv_append_face s hes)). exact B. }
  destruct (append_face s hes). exact T.
Qed.

(* the invariant part moves along a frame *)
Lemma rinv_same_rot s t : rinv s -> same_rot s t -> bu_inv t -> ne s <= ne t -> rinv t.
Proof.
  intros (_ & _ & _ & (_ & L2 & _) & CL & SN) (a1 & a2 & a3 & a4 & a5 & a6 & a7 & a8) (_ & EO & FO & RO & LO) Hne.
  split; [exact EO|]. split; [exact FO|]. split; [exact RO|]. split; [exact LO|]. split.
  - intros c hf. unfold cells_ref_live in CL. specialize (CL c hf). unfold nc, c_deleted, cell_at, nf, f_deleted in *. rewrite a1, a2, a3, a4. exact CL.
  - intros E F h Hh. rewrite a7 in E. rewrite a8 in F. rewrite a6. destruct (Nat.lt_ge_cases h (2 * ne s)) as [Hlt|Hge]; [apply SN; assumption|].
    unfold hfs_at. rewrite nth_overflow by (rewrite (L2 E); exact Hge). constructor.
Qed.

Lemma ne_add_edge_le s a b dup : ne s <= ne (fst (add_edge s a b dup)).
Proof.
  unfold add_edge. assert (A : ne s <= ne (fst (append_edge s a b))).
  { pose proof (append_edge_view s a b) as W. cbv zeta in W. destruct W as (_ & w2 & _). unfold ne. rewrite w2, app_length. lia. }
  destruct dup; [exact A|]. destruct (find_dup_edge s a b); [apply Nat.le_refl|exact A].
Qed.

Lemma add_face_v_step_same v w acc : bu_inv (fst acc) ->
  same_rot (fst acc) (fst (add_face_v_step v w acc)) /\ ne (fst acc) <= ne (fst (add_face_v_step v w acc)).
Proof.
  destruct acc as [s hes]. cbn [fst]. intros (_ & _ & _ & _ & (_ & L2 & _)). unfold add_face_v_step.
  pose proof (same_rot_add_edge s v w false) as T. pose proof (ne_add_edge_le s v w false) as N.
  destruct (add_edge s v w false) as [s' e]. cbn [fst] in *. split; [|exact N]. apply T. intros E. rewrite (L2 E). lia.
Qed.

Lemma add_face_v_edges_same first : forall vs acc, bu_inv (fst acc) -> first < nv (fst acc) -> (forall v, In v vs -> v < nv (fst acc)) ->
  (forall h, In h (snd acc) -> h < 2 * ne (fst acc)) ->
  same_rot (fst acc) (fst (add_face_v_edges first vs acc)) /\ ne (fst acc) <= ne (fst (add_face_v_edges first vs acc)).
Proof.
  induction vs as [|v t IH]; intros acc H Hf Hvs Hr; cbn [add_face_v_edges]; [split; [apply same_rot_refl|apply Nat.le_refl]|].
  destruct t as [|w t'].
  - exact (add_face_v_step_same v first acc H).
  - destruct (add_face_v_step_inv v w acc H (Hvs v (or_introl eq_refl)) (Hvs w (or_intror (or_introl eq_refl))) Hr) as (a & b & c).
    destruct (add_face_v_step_same v w acc H) as [S1 N1].
    destruct (IH (add_face_v_step v w acc) a) as [S2 N2]; auto; try (rewrite b; assumption).
    + intros u Hu. rewrite b. apply Hvs. right. exact Hu.
    + split; [exact (same_rot_trans _ _ _ S1 S2)|lia].
Qed.

Theorem rot_all_add_face_v s vs : rinv s -> bu_inv s -> (forall v, In v vs -> v < nv s) -> rot_all s -> rot_all (fst (add_face_v s vs)).
Proof.
  intros G H Hvs R. unfold add_face_v. destruct vs as [|f t]; [exact R|].
  pose proof (add_face_v_edges_inv f (f :: t) (s, []) H (Hvs f (or_introl eq_refl)) Hvs ltac:(intros h [])) as (B & Rg).
  pose proof (add_face_v_edges_same f (f :: t) (s, []) H (Hvs f (or_introl eq_refl)) Hvs ltac:(intros h [])) as (S1 & N1).
  destruct (add_face_v_edges f (f :: t) (s, [])) as [s1 hes]. cbn [fst snd] in *.
  apply rot_all_add_face; [exact (rinv_same_rot s s1 G S1 B N1)|exact Rg|exact (rot_all_same s s1 S1 R)].
Qed.
