(* Kernel5/RotExample.v -- C09 at history level: a decidable checker for rot_ok (sound), and the non-vacuity example: a closed ring of
   four tetrahedra around the edge (0,1), attached in scrambled order; one cell deleted (deferred), two faces swapped, garbage
   collected (fast mode): the axis edge is an open chain of three cells, its lists are in rotational order. *)
From Coq Require Import ZArith Lia Bool Arith List ZifyNat ZifyBool.
From OVM Require Import Base.ListX Kernel.State Kernel.Ops Kernel.Mirror Kernel2.LookupModel Kernel2.ListAux Kernel2.AdjacentProofs
                        Kernel2.RotationProofs Kernel4.AllDefs Kernel5.RotDefs Kernel5.RotHistory.
Import ListNotations.
Local Open Scope nat_scope.

(* ================================================================== the checker *)

Definition list_eqb (a b : list nat) : bool := if list_eq_dec Nat.eq_dec a b then true else false.

Definition rot_ok_b (s : mesh) (e : nat) : bool :=
  let L := hfs_at s (2 * e) in
  forallb (fun i =>
             let x := nth i L 0 in
             if hf_is_open s x then i =? length L - 1
             else match adjacent_halfface_in_cell s x (2 * e) with
                  | Some a => a =? opp (nth (circ_next (length L) i) L 0)
                  | None => false
                  end) (seq 0 (length L))
  && list_eqb (hfs_at s (2 * e + 1)) (rev (map opp L)).

Theorem rot_ok_b_sound s e : rot_ok_b s e = true -> rot_ok s e.
Proof.
  unfold rot_ok_b, rot_ok, rotational. cbv zeta. rewrite andb_true_iff, forallb_forall. intros [A B]. split.
  - intros i Hi. specialize (A i ltac:(apply in_seq; lia)). destruct (hf_is_open s (nth i (hfs_at s (2 * e)) 0)).
    + split; [discriminate|]. intros _. apply Nat.eqb_eq. exact A.
    + split; [|discriminate]. intros _. destruct (adjacent_halfface_in_cell s (nth i (hfs_at s (2 * e)) 0) (2 * e)) as [a|]; [|discriminate].
      apply Nat.eqb_eq in A. rewrite A. reflexivity.
  - unfold list_eqb in B. destruct (list_eq_dec Nat.eq_dec (hfs_at s (2 * e + 1)) (rev (map opp (hfs_at s (2 * e))))); [assumption|discriminate].
Qed.

Theorem rot_ok_b_complete s e : rot_ok s e -> rot_ok_b s e = true.
Proof.
  unfold rot_ok_b, rot_ok, rotational. cbv zeta. intros [A B]. rewrite andb_true_iff, forallb_forall. split.
  - intros i Hi. apply in_seq in Hi. destruct (A i ltac:(lia)) as [A1 A2]. destruct (hf_is_open s (nth i (hfs_at s (2 * e)) 0)).
    + apply Nat.eqb_eq. apply A2. reflexivity.
    + rewrite (A1 eq_refl). apply Nat.eqb_refl.
  - unfold list_eqb. destruct (list_eq_dec Nat.eq_dec (hfs_at s (2 * e + 1)) (rev (map opp (hfs_at s (2 * e))))); [reflexivity|contradiction].
Qed.

(* ================================================================== the example history *)

(* vertices 0, 1: the axis; 2, 3, 4, 5: the ring.  Faces 0..3: (0,1,r_k); 4..7: (0,r_k,r_k+1); 8..11: (1,r_k+1,r_k) *)
Definition tet (k : nat) : list nat := [2 * k; 2 * (4 + k); 2 * ((k + 1) mod 4) + 1; 2 * (8 + k)].

Definition ring_ops : list op :=
  [AddVertices 6;
   AddFaceV [0; 1; 2]; AddFaceV [0; 1; 3]; AddFaceV [0; 1; 4]; AddFaceV [0; 1; 5];
   AddFaceV [0; 2; 3]; AddFaceV [0; 3; 4]; AddFaceV [0; 4; 5]; AddFaceV [0; 5; 2];
   AddFaceV [1; 3; 2]; AddFaceV [1; 4; 3]; AddFaceV [1; 5; 4]; AddFaceV [1; 2; 5];
   AddCell (tet 2) true; AddCell (tet 0) true; AddCell (tet 3) true; AddCell (tet 1) true].

(* delete the second cell (deferred), swap faces 0 and 5, collect (fast mode) *)
Definition chain_ops : list op := ring_ops ++ [DelCell 1; SwapF 0 5; CollectGarbage].

(* notations, not definitions: the kernel must never compare a folded with an unfolded run by lazy reduction *)
Notation ring_state := (run ring_ops).
Notation chain_state := (run chain_ops).

Ltac nodup_list := repeat constructor; simpl; intuition discriminate.
(* every equation is decided by vm_compute (never by conversion: the states are long runs) *)
Ltac link := unfold fwd_link, bwd_link; split; vm_compute; reflexivity.
Ltac links := repeat (apply linked_cons; [link|]); apply linked_one.

Example ring_history_in_class : all_ok ring_ops = true /\ all_ok chain_ops = true.
Proof. split; vm_compute; reflexivity. Qed.

(* the closed ring, cells attached in the order 3rd, 1st, 4th, 2nd *)
Example ring_is_rotational :
  edge_at ring_state 0 = (0, 1) /\ ebu ring_state = true /\ fbu ring_state = true /\ live_e ring_state 0 = true /\
  hfs_at ring_state 0 = [4; 6; 0; 2] /\ hfs_at ring_state 1 = [3; 1; 7; 5] /\
  single_fan ring_state 0 /\ rot_ok_b ring_state 0 = true /\ rot_ok ring_state 0.
Proof.
  assert (Fan : single_fan ring_state 0).
  { exists [4; 6; 0; 2]. split; [discriminate|]. split; [nodup_list|].
    split; [apply incident_list_check; vm_compute; reflexivity|].
    left. split; [links|cbn [last hd]; link]. }
  assert (E : ebu ring_state = true) by (vm_compute; reflexivity). assert (F : fbu ring_state = true) by (vm_compute; reflexivity).
  assert (L : live_e ring_state 0 = true) by (vm_compute; reflexivity).
  split; [vm_compute; reflexivity|]. split; [exact E|]. split; [exact F|]. split; [exact L|].
  split; [vm_compute; reflexivity|]. split; [vm_compute; reflexivity|]. split; [exact Fan|]. split; [vm_compute; reflexivity|].
  pose proof (reachable_rotational_order ring_ops (proj1 ring_history_in_class)) as T. cbv zeta in T. exact (T E F 0 L Fan).
Qed.

(* after deleting one cell, swapping two faces and collecting: an open chain of three cells around the axis *)
Example chain_is_rotational :
  edge_at chain_state 0 = (0, 1) /\ nc chain_state = 3 /\ needs_gc chain_state = false /\
  ebu chain_state = true /\ fbu chain_state = true /\ live_e chain_state 0 = true /\
  hfs_at chain_state 0 = [2; 4; 6; 10] /\ hfs_at chain_state 1 = [11; 7; 5; 3] /\
  hf_is_open chain_state 10 = true /\ hf_is_open chain_state 3 = true /\
  single_fan chain_state 0 /\ rot_ok_b chain_state 0 = true /\ rot_ok chain_state 0.
Proof.
  assert (Fan : single_fan chain_state 0).
  { exists [2; 4; 6; 10]. split; [discriminate|]. split; [nodup_list|].
    split; [apply incident_list_check; vm_compute; reflexivity|].
    right. split; [links|]. split; [links|]. cbn [last hd]. split; vm_compute; reflexivity. }
  assert (E : ebu chain_state = true) by (vm_compute; reflexivity). assert (F : fbu chain_state = true) by (vm_compute; reflexivity).
  assert (L : live_e chain_state 0 = true) by (vm_compute; reflexivity).
  split; [vm_compute; reflexivity|]. split; [vm_compute; reflexivity|]. split; [vm_compute; reflexivity|].
  split; [exact E|]. split; [exact F|]. split; [exact L|].
  split; [vm_compute; reflexivity|]. split; [vm_compute; reflexivity|]. split; [vm_compute; reflexivity|].
  split; [vm_compute; reflexivity|]. split; [exact Fan|]. split; [vm_compute; reflexivity|].
  pose proof (reachable_rotational_order chain_ops (proj2 ring_history_in_class)) as T. cbv zeta in T. exact (T E F 0 L Fan).
Qed.

(* the checker agrees with the theorem on the example (and the checker alone already decides it) *)
Example chain_checker_agrees : rot_ok chain_state 0.
Proof. apply rot_ok_b_sound. vm_compute. reflexivity. Qed.
