(* Kernel5/RotGc.v -- C09 at history level, step 6: collect_garbage keeps rot_all.
   collect_garbage is four passes (cells, faces, edges, vertices, each from the highest slot down); a step clears the flag of a
   flagged entity and runs its delete_*_core in immediate mode, with the other flags still pending.  The stored definition of a
   flagged entity may be stale (known finding D13), so the loops inside the cores run over arbitrary handle lists:
     cell step    Kernel5/RotCellCore.v rot_all_gc_cell_step (both fast modes)
     face step    the flagged face is in no list: its loop only re-orders (any list of edges, duplicates allowed: rstate_reorder_one),
                  then the face slot goes (Kernel5/RotFaceCore.v face_tail_shift); fast mode: swap with the last face, and the fast
                  removal of the last face is the index-shifting removal up to the fast flag (Kernel3/GcFastFace.v)
     edge step    no re-ordering: the renaming of Kernel5/RotEdgeCore.v; fast mode as for faces (Kernel3/GcFastEdge.v)
     vertex step  a frame
   The passes carry the cache invariant ginv with the existing step theorems of Kernel3/Gc*.v. *)
From Coq Require Import ZArith Lia Bool Arith List ZifyNat ZifyBool.
From OVM Require Import Base.ListX Base.ListLemmas Kernel.State Kernel.Ops Kernel.Mirror Kernel.Recompute Kernel.Closure Kernel.ExactInv
                        Kernel.ExactDelete Kernel.SwapEffects Kernel.Sizes Kernel.ShiftFace Kernel.ShiftEdge Kernel.ShiftVertex Kernel.ShiftCompose
                        Kernel2.LookupModel Kernel2.ListAux Kernel2.ReorderExact Kernel2.ExactBase Kernel2.ExactDelFace
                        Kernel3.FastDefs Kernel3.FastBase Kernel3.GcDefs Kernel3.GcList Kernel3.GcInv Kernel3.GcReorder
                        Kernel3.GcCell Kernel3.GcFace Kernel3.GcEdge Kernel3.GcVertex Kernel3.GcMain
                        Kernel3.GcFastBase Kernel3.GcFastCell Kernel3.GcFastFace Kernel3.GcFastEdge Kernel3.GcFastVertex
                        Kernel3.GcFastPassCF Kernel3.GcFastPassEV Kernel3.GcFastMain
                        Kernel5.RotDefs Kernel5.RotReorder Kernel5.RotFrame Kernel5.RotOpsFrame Kernel5.RotExact Kernel5.RotStage Kernel5.RotFlags
                        Kernel5.RotSwap Kernel5.RotCellCore Kernel5.RotFaceCore Kernel5.RotEdgeCore.
Import ListNotations.
Ltac Zify.zify_post_hook ::= Z.div_mod_to_equations.
Local Open Scope nat_scope.

(* ================================================================== the face step, non-fast *)

Section FaceStep.
Context (s : mesh) (h : nat).
Context (D : deferred s = false) (Fa : fast s = false) (I : ginv s) (NC : no_cflags s) (Hh : h < nf s) (Hd : f_deleted s h = true).
Context (E : ebu s = true) (Fb : fbu s = true).
Let t0 := clr_f h s.

(* one iteration on a state whose lists satisfy the specification: nothing is removed, the edge is re-ordered *)
Lemma gcr_fstep x he : length x = 2 * ne s -> slots_spec (set_inc_hfs x t0) (P_live s) ->
  fstep h (set_inc_hfs x t0) he = reorder_incident_halffaces (he / 2) (set_inc_hfs x t0).
Proof.
  intros Lx S.
  assert (A0 : forall k y, y / 2 = h -> ~ In y (nth k x [])) by (apply (gcf_absent s h Hh Hd (set_inc_hfs x t0) x); auto).
  unfold fstep. cbv zeta. change (inc_hfs (set_inc_hfs x t0)) with x.
  rewrite (remove_at_absent he (2 * h) x) by (apply A0; lia).
  rewrite (remove_at_absent (opp he) (2 * h + 1) x) by (apply A0; lia).
  change (set_inc_hfs x (set_inc_hfs x t0)) with (set_inc_hfs x t0). change (fbu (set_inc_hfs x t0)) with (fbu s). rewrite Fb. reflexivity.
Qed.

Lemma gcr_fold hes : forall t, (exists x, t = set_inc_hfs x t0 /\ length x = 2 * ne s) -> slots_spec t (P_live s) ->
  rstate (livef s) t -> rstate (livef s) (fold_left (fstep h) hes t).
Proof.
  induction hes as [|he r IH]; intros t Fr S R; [exact R|]. cbn [fold_left].
  destruct (gcf_fstep_spec s h I Hh Hd t he E Fb Fr S) as [Fr' S']. apply IH; [exact Fr'|exact S'|].
  destruct Fr as [x [-> Lx]]. rewrite (gcr_fstep x he Lx S). apply rstate_reorder_one. exact R.
Qed.

Theorem rstate_gc_face_mid : rot_all s -> rstate (livef s) (face_mid h t0).
Proof.
  intros R. pose proof I as ((_ & _ & _ & _ & (_ & L2 & _)) & _).
  unfold face_mid. apply gcr_fold.
  - exists (inc_hfs s). split; [symmetry; apply (set_inc_hfs_self t0)|exact (L2 E)].
  - apply (slots_spec_transfer s t0); [reflexivity|reflexivity|apply ginv_slots_spec; assumption].
  - exact (rinv_rstate s (ginv_rinv s I) E Fb R).
Qed.

Theorem rot_all_gc_face_step_on : rot_all s -> rot_all (delete_face_core h t0).
Proof.
  intros R. pose proof (gcf_cells s h D Fa I NC Hh Hd) as CE0. fold t0 in CE0. revert CE0.
  assert (E0 : ebu t0 = true) by exact E.
  rewrite (delete_face_core_split h t0 E0). unfold face_victim, face_swapped.
  change (fast t0) with (fast s). change (deferred t0) with (deferred s). rewrite Fa. cbn [andb]. intros CE0.
  pose proof (rstate_gc_face_mid R) as M. destruct (face_mid_reads h t0) as [y Ey].
  pose proof I as ((_ & _ & _ & _ & (_ & _ & _ & _ & L5 & _)) & _).
  assert (LFm : length (fdel (face_mid h t0)) = nf (face_mid h t0)).
  { rewrite Ey. unfold t0, clr_f. cbn [fdel set_inc_hfs set_fdel]. rewrite upd_length. exact L5. }
  assert (Dm : deferred (face_mid h t0) = false) by (rewrite Ey; exact D).
  assert (Fam : fast (face_mid h t0) = false) by (rewrite Ey; exact Fa).
  assert (Em : ebu (face_mid h t0) = true) by (rewrite Ey; exact E).
  assert (Fbm : fbu (face_mid h t0) = true) by (rewrite Ey; exact Fb).
  assert (Hhm : h < nf (face_mid h t0)) by (rewrite Ey; exact Hh).
  assert (CEm : cells (face_tail h (face_mid h t0)) = map (map (cor2 (2 * h + 1))) (cells (face_mid h t0))) by (rewrite CE0, Ey; reflexivity).
  assert (FFm : forall x c z, cell_of (face_mid h t0) x = Some c -> In z (cell_at (face_mid h t0) c) -> z / 2 <> h).
  { rewrite Ey. apply face_free_tail. exact (gcf_face_free s h I NC Hd). }
  intros _ _. apply (face_tail_shift h (face_mid h t0) Dm Fam Em Fbm Hhm LFm CEm FFm).
  apply (rstate_ext (livef s)); [|exact M]. intros f. rewrite Ey. unfold without, livef, live_f, t0, clr_f, nf, f_deleted.
  cbn [faces fdel set_inc_hfs set_fdel]. rewrite nth_upd. destruct (Nat.eqb_spec h f) as [->|N].
  - unfold f_deleted in Hd. rewrite Hd. rewrite andb_false_r. split; [discriminate|intros [_ Q]; congruence].
  - cbn [andb]. split; [intros Q; split; [exact Q|congruence]|tauto].
Qed.
End FaceStep.

Theorem rot_all_gc_face_step h s : deferred s = false -> fast s = false -> ginv s -> no_cflags s -> h < nf s -> f_deleted s h = true ->
  rot_all s -> rot_all (delete_face_core h (clr_f h s)).
Proof.
  intros D Fa I NC Hh Hd R. destruct (ebu s && fbu s) eqn:B.
  2:{ apply rot_all_off. rewrite (bv_both _ _ (bv_delete_face_core h (clr_f h s))). exact B. }
  apply andb_true_iff in B. destruct B as [E F]. apply rot_all_gc_face_step_on; assumption.
Qed.

Lemma same_rot_set_fast b s : same_rot s (set_fast b s).
Proof. unfold set_fast. same_rot_refl. Qed.

(* fast mode: swap, then the last face goes as in non-fast mode *)
Theorem rot_all_gc_face_step_fast h s : deferred s = false -> fast s = true -> ginv s -> no_cflags s -> h < nf s -> f_deleted s h = true ->
  rot_all s -> rot_all (delete_face_core h (clr_f h s)).
Proof.
  intros D Fa I NC Hh Hd R. rewrite (gfs_split s h D Fa I Hh).
  pose proof (gfs_swapped s h D Fa I NC Hh Hd) as Sw. cbv zeta in Sw.
  assert (Hl : nf s - 1 < nf s) by lia.
  pose proof (rot_all_swap_face h (nf s - 1) s I Hh Hl R) as Rt.
  set (t := swap_face_indices h (nf s - 1) s) in *.
  destruct Sw as (It & NCt & Dt & Ft & Nt & Hdt & _).
  rewrite <- Nt in *. rewrite (gcfast_face_last t Dt Ft It NCt ltac:(lia) Hdt).
  apply (rot_all_same _ _ (same_rot_set_fast true _)).
  assert (Hlt : nf t - 1 < nf (set_fast false t)) by (change (nf t - 1 < nf t); lia).
  exact (rot_all_gc_face_step (nf t - 1) (set_fast false t) Dt eq_refl (ginv_set_fast false t It) NCt Hlt Hdt
           (rot_all_same _ _ (same_rot_set_fast false t) Rt)).
Qed.

(* ================================================================== the edge step *)

Theorem rot_all_gc_edge_step h s : deferred s = false -> fast s = false -> ginv s -> no_fflags s -> h < ne s -> e_deleted s h = true ->
  rot_all s -> rot_all (delete_edge_core h (clr_e h s)).
Proof.
  intros D Fa I NFf Hh Hd R. destruct (ebu s && fbu s) eqn:B.
  2:{ apply rot_all_off. rewrite (bv_both _ _ (bv_delete_edge_core h (clr_e h s))). exact B. }
  apply andb_true_iff in B. destruct B as [E F].
  pose proof (gc_edge_step s h D Fa I NFf Hh Hd) as St. destruct St as (_ & _ & _ & _ & _ & _ & v3 & v4 & _ & _ & v7 & v8 & _).
  pose proof (delete_edge_core_view h (clr_e h s) D Fa) as V. cbv zeta in V.
  destruct V as (_ & _ & _ & _ & _ & _ & _ & _ & _ & w10 & w11 & _).
  change (ebu (clr_e h s)) with (ebu s) in w10. rewrite E in w10. change (inc_hfs (clr_e h s)) with (inc_hfs s) in w10.
  change (inc_cell (clr_e h s)) with (inc_cell s) in w11.
  set (t := delete_edge_core h (clr_e h s)) in *.
  assert (LFq : forall f, livef t f <-> livef s f).
  { intros f. unfold livef, live_f, nf, f_deleted. rewrite v3, v7, map_length. reflexivity. }
  apply (rot_all_of_rstate (livef s)); [intros f; symmetry; apply LFq|].
  apply (edge_shift_rstate s t h (gce_edge_free s h I NFf Hd) (halfface_cor2_faces s t h v3) w11 v4 v8 w10).
  exact (rinv_rstate s (ginv_rinv s I) E F R).
Qed.

Theorem rot_all_gc_edge_step_fast h s : deferred s = false -> fast s = true -> ginv s -> no_fflags s -> h < ne s -> e_deleted s h = true ->
  rot_all s -> rot_all (delete_edge_core h (clr_e h s)).
Proof.
  intros D Fa I NFf Hh Hd R. rewrite (ges_split s h D Fa I Hh).
  pose proof (ges_swapped s h D Fa I NFf Hh Hd) as Sw. cbv zeta in Sw.
  assert (Hl : ne s - 1 < ne s) by lia.
  pose proof (rot_all_swap_edge h (ne s - 1) s I Hh Hl R) as Rt.
  set (t := swap_edge_indices h (ne s - 1) s) in *.
  destruct Sw as (It & NFt & Dt & Ft & Nt & Hdt & _).
  rewrite <- Nt in *. rewrite (gcfast_edge_last t Dt Ft It NFt ltac:(lia) Hdt).
  apply (rot_all_same _ _ (same_rot_set_fast true _)).
  assert (Hlt : ne t - 1 < ne (set_fast false t)) by (change (ne t - 1 < ne t); lia).
  exact (rot_all_gc_edge_step (ne t - 1) (set_fast false t) Dt eq_refl (ginv_set_fast false t It) NFt Hlt Hdt
           (rot_all_same _ _ (same_rot_set_fast false t) Rt)).
Qed.

(* ================================================================== the vertex step *)

Theorem rot_all_gc_vertex_step h s : rot_all s -> rot_all (delete_vertex_core h (clr_v h s)).
Proof. intros R. apply rot_all_delete_vertex_core. apply (rot_all_same s); [|exact R]. unfold clr_v. apply same_rot_set_vdel. Qed.

(* ================================================================== a pass *)

Lemma gc_pass_rot (Inv : mesh -> Prop) (size : mesh -> nat) is_del clr core :
  (forall s n, Inv s -> n < size s -> is_del s n = true -> (forall i, n < i -> is_del s i = false) ->
     Inv (core n (clr n s)) /\ n <= size (core n (clr n s)) /\ (forall i, n <= i -> is_del (core n (clr n s)) i = false) /\
     (rot_all s -> rot_all (core n (clr n s)))) ->
  forall n s, Inv s -> n <= size s -> (forall i, n <= i -> is_del s i = false) -> rot_all s ->
    Inv (gc_pass n is_del clr core s) /\ (forall i, is_del (gc_pass n is_del clr core s) i = false) /\
    rot_all (gc_pass n is_del clr core s).
Proof.
  intros Step. induction n as [|n IH]; intros s I Hn Hi R.
  - rewrite gc_pass_0. split; [exact I|]. split; [intros i; apply Hi; lia|exact R].
  - rewrite gc_pass_S. destruct (is_del s n) eqn:Hd.
    + assert (Hlt : n < size s) by lia.
      destruct (Step s n I Hlt Hd (fun i Hgt => Hi i Hgt)) as (I1 & Hn1 & Hi1 & R1). apply IH; auto.
    + apply IH; auto; [lia|]. intros i Hge. destruct (Nat.eq_dec i n) as [->|N]; [exact Hd|apply Hi; lia].
Qed.

Definition imm_ginv (f : bool) (s : mesh) : Prop := deferred s = false /\ fast s = f /\ ginv s.

Lemma flag_shift del n i : n <= i -> (forall j, n < j -> nth j del false = false) -> nth i (remove_nth n del) false = false.
Proof. intros Hge H. rewrite flag_after_remove, unshift1_ge by exact Hge. apply H. lia. Qed.

(* ---------------------------------------------------------------- cells *)
Lemma pass_c_rot f n s : imm_ginv f s -> n <= nc s -> (forall i, n <= i -> c_deleted s i = false) -> rot_all s ->
  imm_ginv f (pass_c n s) /\ no_cflags (pass_c n s) /\ rot_all (pass_c n s).
Proof.
  unfold pass_c. apply (gc_pass_rot (imm_ginv f) nc). clear n s. intros s n (D & F & I) Hlt Hd Ab.
  assert (Rs : rot_all s -> rot_all (delete_cell_core n (clr_c n s))) by (apply rot_all_gc_cell_step; [apply ginv_rinv; exact I|exact Hlt|exact Hd]).
  destruct f.
  - pose proof (gcfast_cell_step s n D F I Hlt Hd) as St. destruct St as (I1 & D1 & F1 & _ & _ & _ & a4 & _ & _ & _ & a8 & _).
    split; [exact (conj D1 (conj F1 I1))|]. split; [unfold nc; rewrite a4, fast_remove_length; fold (nc s); lia|]. split; [|exact Rs].
    intros i Hge. unfold c_deleted. rewrite a8. apply (flags_above_fast_remove (cdel s) n (nc s) (ginv_len_cdel s I) Hlt); [exact Ab|exact Hge].
  - pose proof (gc_cell_step s n D F I Hlt Hd) as St. destruct St as (I1 & D1 & F1 & _ & _ & _ & a4 & _ & _ & _ & a8 & _).
    split; [exact (conj D1 (conj F1 I1))|]. split; [unfold nc; rewrite a4, remove_nth_length by exact Hlt; fold (nc s); lia|]. split; [|exact Rs].
    intros i Hge. unfold c_deleted. rewrite a8. apply flag_shift; [exact Hge|exact Ab].
Qed.

(* ---------------------------------------------------------------- faces *)
Lemma pass_f_rot f n s : imm_ginv f s /\ no_cflags s -> n <= nf s -> (forall i, n <= i -> f_deleted s i = false) -> rot_all s ->
  (imm_ginv f (pass_f n s) /\ no_cflags (pass_f n s)) /\ no_fflags (pass_f n s) /\ rot_all (pass_f n s).
Proof.
  unfold pass_f. apply (gc_pass_rot (fun s => imm_ginv f s /\ no_cflags s) nf). clear n s. intros s n ((D & F & I) & NC) Hlt Hd Ab.
  destruct f.
  - pose proof (gcfast_face_step s n D F I NC Hlt Hd) as St. destruct St as (I1 & D1 & F1 & NC1 & _ & _ & a3 & _ & _ & _ & a7 & _).
    split; [exact (conj (conj D1 (conj F1 I1)) NC1)|]. split; [unfold nf; rewrite a3, fast_remove_length; fold (nf s); lia|].
    split; [|apply rot_all_gc_face_step_fast; assumption].
    intros i Hge. unfold f_deleted. rewrite a7. apply (flags_above_fast_remove (fdel s) n (nf s) (ginv_len_fdel s I) Hlt); [exact Ab|exact Hge].
  - pose proof (gc_face_step s n D F I NC Hlt Hd) as St. destruct St as (I1 & D1 & F1 & NC1 & _ & _ & a3 & _ & _ & _ & a7 & _).
    split; [exact (conj (conj D1 (conj F1 I1)) NC1)|]. split; [unfold nf; rewrite a3, remove_nth_length by exact Hlt; fold (nf s); lia|].
    split; [|apply rot_all_gc_face_step; assumption].
    intros i Hge. unfold f_deleted. rewrite a7. apply flag_shift; [exact Hge|exact Ab].
Qed.

(* ---------------------------------------------------------------- edges *)
Lemma pass_e_rot f n s : imm_ginv f s /\ no_fflags s -> n <= ne s -> (forall i, n <= i -> e_deleted s i = false) -> rot_all s ->
  (imm_ginv f (pass_e n s) /\ no_fflags (pass_e n s)) /\ no_eflags (pass_e n s) /\ rot_all (pass_e n s).
Proof.
  unfold pass_e. apply (gc_pass_rot (fun s => imm_ginv f s /\ no_fflags s) ne). clear n s. intros s n ((D & F & I) & NFf) Hlt Hd Ab.
  destruct f.
  - pose proof (gcfast_edge_step s n D F I NFf Hlt Hd) as St. destruct St as (I1 & D1 & F1 & NF1 & _ & a2 & _ & _ & _ & a6 & _).
    split; [exact (conj (conj D1 (conj F1 I1)) NF1)|]. split; [unfold ne; rewrite a2, fast_remove_length; fold (ne s); lia|].
    split; [|apply rot_all_gc_edge_step_fast; assumption].
    intros i Hge. unfold e_deleted. rewrite a6. apply (flags_above_fast_remove (edel s) n (ne s) (ginv_len_edel s I) Hlt); [exact Ab|exact Hge].
  - pose proof (gc_edge_step s n D F I NFf Hlt Hd) as St. destruct St as (I1 & D1 & F1 & NF1 & _ & a2 & _ & _ & _ & a6 & _).
    split; [exact (conj (conj D1 (conj F1 I1)) NF1)|]. split; [unfold ne; rewrite a2, remove_nth_length by exact Hlt; fold (ne s); lia|].
    split; [|apply rot_all_gc_edge_step; assumption].
    intros i Hge. unfold e_deleted. rewrite a6. apply flag_shift; [exact Hge|exact Ab].
Qed.

(* ---------------------------------------------------------------- vertices: frames only *)
Lemma pass_v_rot n s : rot_all s -> rot_all (pass_v n s).
Proof.
  unfold pass_v, gc_pass. generalize (rev (seq 0 n)). intros l. revert s. induction l as [|i l IH]; intros s R; [exact R|].
  cbn [fold_left]. apply IH. destruct (v_deleted s i); [apply rot_all_gc_vertex_step; exact R|exact R].
Qed.

(* ================================================================== collect_garbage *)

Lemma rot_all_same_back s t : same_rot s t -> rot_all s -> rot_all t.
Proof. apply rot_all_same. Qed.

Theorem rot_all_collect_garbage s : ginv s -> rot_all s -> rot_all (collect_garbage s).
Proof.
  intros I R. destruct (deferred s) eqn:Dd; [|unfold collect_garbage; rewrite Dd; exact R].
  destruct (needs_gc s) eqn:G; [|unfold collect_garbage; rewrite G, orb_true_r; exact R].
  destruct (collect_garbage_stages s Dd G) as (p1 & p2 & p3 & p4 & St). cbv zeta in St. destruct St as (E1 & E2 & E3 & E4 & ->).
  (* cells *)
  set (s0 := set_flags (vbu s) (ebu s) (fbu s) false (fast s) s) in *.
  assert (I0 : imm_ginv (fast s) s0) by (split; [reflexivity|split; [reflexivity|apply ginv_set_modes; exact I]]).
  assert (R0 : rot_all s0) by (apply (rot_all_same s); [apply same_rot_set_flags|exact R]).
  assert (H1 : forall i, nc s0 <= i -> c_deleted s0 i = false).
  { intros i Hi. apply flags_beyond_length. change (length (cdel s) <= i). rewrite (ginv_len_cdel s I). exact Hi. }
  destruct (pass_c_rot (fast s) (nc s0) s0 I0 (le_n _) H1 R0) as (I1 & NC1 & R1). rewrite <- E1 in I1, NC1, R1.
  clear E1 H1 I0 R0. clearbody s0.
  (* faces *)
  set (s1 := set_counts (ndv p1) (nde p1) (ndf p1) 0 p1) in *.
  assert (I1' : imm_ginv (fast s) s1 /\ no_cflags s1) by exact (conj I1 NC1).
  assert (R1' : rot_all s1) by (apply (rot_all_same p1); [apply same_rot_set_counts|exact R1]).
  assert (H2 : forall i, nf s1 <= i -> f_deleted s1 i = false).
  { intros i Hi. apply flags_beyond_length. change (length (fdel p1) <= i). change (nf s1) with (nf p1) in Hi.
    rewrite (ginv_len_fdel p1 (proj2 (proj2 I1))). exact Hi. }
  destruct (pass_f_rot (fast s) (nf s1) s1 I1' (le_n _) H2 R1') as ((I2 & NC2) & NF2 & R2). rewrite <- E2 in I2, NC2, NF2, R2.
  clear E2 H2 I1' R1'. clearbody s1.
  (* edges *)
  set (s2 := set_counts (ndv p2) (nde p2) 0 (ndc p2) p2) in *.
  assert (I2' : imm_ginv (fast s) s2 /\ no_fflags s2) by exact (conj I2 NF2).
  assert (R2' : rot_all s2) by (apply (rot_all_same p2); [apply same_rot_set_counts|exact R2]).
  assert (H3 : forall i, ne s2 <= i -> e_deleted s2 i = false).
  { intros i Hi. apply flags_beyond_length. change (length (edel p2) <= i). change (ne s2) with (ne p2) in Hi.
    rewrite (ginv_len_edel p2 (proj2 (proj2 I2))). exact Hi. }
  destruct (pass_e_rot (fast s) (ne s2) s2 I2' (le_n _) H3 R2') as (_ & _ & R3). rewrite <- E3 in R3.
  clear E3 H3 I2' R2'. clearbody s2.
  (* vertices *)
  set (s3 := set_counts (ndv p3) 0 (ndf p3) (ndc p3) p3) in *.
  assert (R3' : rot_all s3) by (apply (rot_all_same p3); [apply same_rot_set_counts|exact R3]).
  pose proof (pass_v_rot (nv s3) s3 R3') as R4. rewrite <- E4 in R4. clear E4. clearbody s3.
  apply (rot_all_same (set_counts 0 (nde p4) (ndf p4) (ndc p4) p4)); [apply same_rot_set_flags|].
  apply (rot_all_same p4); [apply same_rot_set_counts|exact R4].
Qed.

Theorem rot_all_enable_deferred b s : ginv s -> rot_all s -> rot_all (enable_deferred b s).
Proof.
  intros I R. unfold enable_deferred. apply (rot_all_same _ _ (same_rot_set_flags _ _ _ _)).
  destruct (deferred s && negb b); [apply rot_all_collect_garbage; assumption|exact R].
Qed.
