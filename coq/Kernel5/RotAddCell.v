(* Kernel5/RotAddCell.v -- C09 at history level, step 3: add_cell keeps rot_all.
   add_cell appends the cell, points its halffaces to it, and re-orders every edge of the cell.  Edges of the cell: C09_reorder_post
   (list form) gives rot_ok for those that are exact single fans afterwards.  Edges not in the cell keep their two lists, and for the
   halffaces around them hf_is_open and adjacent_halfface_in_cell are unchanged (they belong to other cells).
   Nothing is assumed about the new cell (an edge where it breaks the fan is simply not a single fan afterwards). *)
From Coq Require Import ZArith Lia Bool Arith List ZifyNat ZifyBool Permutation.
From OVM Require Import Base.ListX Kernel.State Kernel.Ops Kernel.Mirror Kernel.Recompute Kernel.Closure Kernel.ExactInv Kernel.Construct
                        Kernel2.LookupModel Kernel2.ListAux Kernel2.AdjacentProofs Kernel2.RotationProofs Kernel2.ReorderExact
                        Kernel3.GcDefs
                        Kernel5.RotDefs Kernel5.RotTransfer Kernel5.RotAdj Kernel5.RotReorder Kernel5.RotFrame Kernel5.RotExact.
Import ListNotations.
Ltac Zify.zify_post_hook ::= Z.div_mod_to_equations.
Local Open Scope nat_scope.

(* the state before the re-ordering *)
Definition ac3 (s : mesh) (hfs : list nat) : mesh :=
  set_inc_cell (fold_left (fun l hf => upd hf (Some (nc s)) l) hfs (inc_cell s))
    (resize_cprops (S (nc s)) (set_cdel (cdel s ++ [false]) (set_cells (cells s ++ [hfs]) s))).

Definition cell_edges (s : mesh) (hfs : list nat) : list nat :=
  set_of_list (concat (map (fun hf => face_edge_handles s (hf / 2)) hfs)).

Lemma append_cell_on s hfs : ebu s = true -> fbu s = true ->
  fst (append_cell s hfs) = reorder_edges (cell_edges (ac3 s hfs) hfs) (ac3 s hfs).
Proof.
  intros E F. unfold append_cell.
  set (s2 := resize_cprops (S (nc s)) (set_cdel (cdel s ++ [false]) (set_cells (cells s ++ [hfs]) s))).
  change (fbu s2) with (fbu s). rewrite F.
  set (s3 := set_inc_cell _ s2). change (ebu s3) with (ebu s). rewrite E. reflexivity.
Qed.

Lemma append_cell_off s hfs : ebu s && fbu s = false -> ebu (fst (append_cell s hfs)) && fbu (fst (append_cell s hfs)) = false.
Proof.
  intros H. unfold append_cell.
  set (s2 := resize_cprops (S (nc s)) (set_cdel (cdel s ++ [false]) (set_cells (cells s ++ [hfs]) s))).
  change (fbu s2) with (fbu s). destruct (fbu s) eqn:F; [|cbn [fst]; change (fbu s2) with (fbu s); rewrite F; apply andb_false_r].
  set (s3 := set_inc_cell _ s2). change (ebu s3) with (ebu s). destruct (ebu s) eqn:E; [discriminate|].
  cbn [fst]. change (ebu s3) with (ebu s). rewrite E. reflexivity.
Qed.

(* ---------------------------------------------------------------- reads of ac3 *)
Lemma fold_upd_other {A} (v : A) (d : A) : forall (l : list nat) (acc : list A) x, ~ In x l ->
  nth x (fold_left (fun a hf => upd hf v a) l acc) d = nth x acc d.
Proof.
  induction l as [|y l IH]; intros acc x N; [reflexivity|]. cbn [fold_left]. rewrite IH by (intros H; apply N; right; exact H).
  apply nth_upd_other. intros ->. apply N. left. reflexivity.
Qed.

Lemma ac3_cell_of s hfs x : ~ In x hfs -> cell_of (ac3 s hfs) x = cell_of s x.
Proof. intros N. unfold cell_of, ac3. cbn [inc_cell set_inc_cell]. apply fold_upd_other. exact N. Qed.

Lemma nth_app_false (l : list bool) i : nth i (l ++ [false]) false = nth i l false.
Proof.
  destruct (Nat.lt_ge_cases i (length l)) as [H|H]; [apply app_nth1; exact H|].
  rewrite app_nth2 by exact H. rewrite (nth_overflow l) by exact H. destruct (i - length l) as [|[|k]]; reflexivity.
Qed.

Lemma ac3_c_deleted s hfs c : c_deleted (ac3 s hfs) c = c_deleted s c.
Proof. unfold c_deleted, ac3. cbn [cdel set_inc_cell resize_cprops resize_props set_props set_cdel]. apply nth_app_false. Qed.

Lemma ac3_cell_at s hfs c : c < nc s -> cell_at (ac3 s hfs) c = cell_at s c.
Proof. intros H. unfold cell_at, ac3. cbn [cells set_inc_cell resize_cprops resize_props set_props set_cdel set_cells]. apply app_nth1. exact H. Qed.

Lemma ac3_halfface s hfs x : halfface (ac3 s hfs) x = halfface s x.
Proof. reflexivity. Qed.

Lemma ac3_inc_on s hfs h x : inc_on (livef (ac3 s hfs)) (ac3 s hfs) h x <-> inc_on (livef s) s h x.
Proof. reflexivity. Qed.

Lemma ac3_hfs_at s hfs k : hfs_at (ac3 s hfs) k = hfs_at s k.
Proof. reflexivity. Qed.

Lemma ac3_exact_on s hfs e : exact_on (livef (ac3 s hfs)) (ac3 s hfs) e <-> exact_on (livef s) s e.
Proof. reflexivity. Qed.

(* a halfface of the new cell around edge e puts e among the re-ordered edges *)
Lemma cell_edges_In s hfs x h : In x hfs -> In h (halfface s x) -> In (h / 2) (cell_edges s hfs).
Proof.
  intros Hx Hh. unfold cell_edges. apply set_of_list_In. apply in_concat. exists (face_edge_handles s (x / 2)).
  split; [apply in_map_iff; exists x; auto|]. unfold face_edge_handles. apply In_halfface_edge. exact Hh.
Qed.

Lemma not_cell_edge s hfs e x : ~ In e (cell_edges s hfs) -> In (2 * e) (halfface s x) \/ In (2 * e + 1) (halfface s x) -> ~ In x hfs.
Proof.
  intros N [H|H] Hx; apply N.
  - replace e with (2 * e / 2) by lia. exact (cell_edges_In s hfs x _ Hx H).
  - replace e with ((2 * e + 1) / 2) by lia. exact (cell_edges_In s hfs x _ Hx H).
Qed.

(* ---------------------------------------------------------------- an edge that is not an edge of the new cell *)
Lemma ac3_edge_map s hfs e : fbu s = true -> fbu_ok s -> ~ In e (cell_edges (ac3 s hfs) hfs) ->
  edge_map (livef s) (livef (ac3 s hfs)) s (ac3 s hfs) e e idn idn.
Proof.
  intros F FO N.
  assert (Nx : forall x, inc_on (livef s) s (2 * e) x \/ inc_on (livef s) s (2 * e + 1) x -> ~ In x hfs).
  { intros x [[_ H]|[_ H]]; apply (not_cell_edge (ac3 s hfs) hfs e x N); [left|right]; exact H. }
  assert (Adj : forall x h, inc_on (livef s) s (2 * e) x \/ inc_on (livef s) s (2 * e + 1) x -> hf_is_open s x = false ->
            adjacent_halfface_in_cell (ac3 s hfs) x h = adjacent_halfface_in_cell s x h).
  { intros x h Hx O.
    assert (Hlt : x < 2 * nf s) by (destruct Hx as [Hx|Hx]; exact (inc_on_lt s _ x Hx)).
    destruct (not_open_cell_live s x F FO Hlt O) as (c & Ec & Hc & _ & _).
    apply (adjacent_same s (ac3 s hfs) x h c c Ec).
    - rewrite ac3_cell_of by (apply Nx; exact Hx). exact Ec.
    - apply ac3_cell_at. exact Hc.
    - intros z _. reflexivity. }
  apply edge_map_id.
  - intros x. symmetry. apply ac3_inc_on.
  - intros x Hx. apply open_same; [apply ac3_cell_of, Nx; exact Hx|]. intros c _. apply ac3_c_deleted.
  - intros x Hx O. apply Adj; auto.
  - intros x Hx O. apply Adj; auto.
Qed.

(* ---------------------------------------------------------------- the theorem *)
Theorem rot_all_append_cell s hfs : rinv s -> rot_all s -> rot_all (fst (append_cell s hfs)).
Proof.
  intros G R. destruct (ebu s && fbu s) eqn:B; [|apply rot_all_off, append_cell_off; exact B].
  apply andb_true_iff in B. destruct B as [E F]. rewrite (append_cell_on s hfs E F). intros _ _.
  pose proof G as (EO & FO & RO & _).
  set (t := ac3 s hfs). set (es := cell_edges t hfs).
  assert (Rt : rot_on (livef t) (reorder_edges es t)).
  { apply rot_on_reorder_edges.
    - apply set_of_list_NoDup.
    - intros e _ Fa. apply ac3_exact_on. apply rinv_exact_on; [exact G|exact E|exact F|].
      destruct (fan_on_witness _ _ _ Fa) as [x Hx]. exact (inc_edge_lt s e x RO Hx).
    - intros e N X Fa.
      apply (rot_edge_transfer_id (livef s) (livef t) s t e (R E F) (ac3_edge_map s hfs e F FO N)); [reflexivity|reflexivity|exact X|exact Fa]. }
  apply (rot_on_ext (livef t)); [|exact Rt]. intros f. symmetry. apply livef_reorder_edges.
Qed.

Theorem rot_all_add_cell s hfs chk : rinv s -> rot_all s -> rot_all (fst (add_cell s hfs chk)).
Proof.
  intros G R. unfold add_cell. destruct (chk && negb (cell_check s hfs)); [exact R|].
  pose proof (rot_all_append_cell s hfs G R) as T. destruct (append_cell s hfs). exact T.
Qed.
