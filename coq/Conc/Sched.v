(* Conc/Sched.v -- C20, the part that is logic: interleavings of read-only steps.

   A thread is a list of query steps  q : S -> S * O  on a shared state.  A step is READ-ONLY when it returns
   the state it was given.  A schedule is any list of thread numbers: entry t lets thread t execute its next
   pending step (entries naming a finished or non-existent thread do nothing).  For threads consisting of
   read-only steps EVERY schedule (no fairness, no bound - induction over the schedule) leaves the shared
   state unchanged and lets every thread observe exactly the outputs of running it alone, sequentially, on the
   initial state.

   What this does NOT model: the C++ memory model (data races of the compiled accesses), caches, allocator.
   The bridge to the code is the regenerated table Gen/ConstWrites.v (no hidden writes in const members) and
   the ThreadSanitizer run of harness/run_conc.cc. *)
From Coq Require Import List Arith Lia.
Import ListNotations.

Section Sched.
  Variables St Out : Type.

  Definition step := St -> St * Out.
  Definition read_only (q : step) : Prop := forall s, fst (q s) = s.

  (* a pure observation function as a step *)
  Definition pure_query (f : St -> Out) : step := fun s => (s, f s).
  Lemma pure_query_read_only f : read_only (pure_query f).
  Proof. intros s. reflexivity. Qed.

  (* running one thread alone *)
  Fixpoint run_seq (th : list step) (s : St) : St * list Out :=
    match th with
    | [] => (s, [])
    | q :: r => let s' := fst (q s) in let o := snd (q s) in
                (fst (run_seq r s'), o :: snd (run_seq r s'))
    end.

  Lemma run_seq_read_only th s : Forall read_only th -> fst (run_seq th s) = s.
  Proof.
    intros H. revert s. induction H as [|q r Hq _ IH]; intros s; simpl; [reflexivity|]. rewrite Hq. apply IH.
  Qed.

  (* a thread of pure observations, run alone, returns the observations of the initial state, in order *)
  Lemma run_seq_pure (fs : list (St -> Out)) s :
    run_seq (map pure_query fs) s = (s, map (fun f => f s) fs).
  Proof. induction fs as [|f fs IH]; simpl; [reflexivity|]. rewrite IH. reflexivity. Qed.
  Lemma pure_thread_read_only (fs : list (St -> Out)) : Forall read_only (map pure_query fs).
  Proof. induction fs; simpl; constructor; auto using pure_query_read_only. Qed.

  (* replace the t-th element *)
  Fixpoint set_nth {A} (t : nat) (x : A) (l : list A) : list A :=
    match l, t with
    | [], _ => []
    | _ :: r, 0 => x :: r
    | y :: r, S k => y :: set_nth k x r
    end.
  Lemma set_nth_length {A} t (x : A) l : length (set_nth t x l) = length l.
  Proof. revert t. induction l as [|y l IH]; intros [|t]; simpl; auto. Qed.
  Lemma nth_set_nth_same {A} t (x d : A) l : t < length l -> nth t (set_nth t x l) d = x.
  Proof. revert t. induction l as [|y l IH]; intros [|t] H; simpl in *; try lia; auto. all: try (apply IH; lia). Qed.
  Lemma nth_set_nth_other {A} t u (x d : A) l : t <> u -> nth u (set_nth t x l) d = nth u l d.
  Proof.
    revert t u. induction l as [|y l IH]; intros [|t] [|u] H; simpl; auto; try lia. all: try (apply IH; lia).
  Qed.

  Record config := { st : St; pending : list (list step); outs : list (list Out) }.

  Definition init (ths : list (list step)) (s : St) : config :=
    {| st := s; pending := ths; outs := map (fun _ => []) ths |}.

  (* one scheduling decision: thread t executes its next step on the CURRENT shared state *)
  Definition sched_step (c : config) (t : nat) : config :=
    match nth_error (pending c) t with
    | Some (q :: rest) =>
        {| st := fst (q (st c));
           pending := set_nth t rest (pending c);
           outs := set_nth t (nth t (outs c) [] ++ [snd (q (st c))]) (outs c) |}
    | _ => c
    end.

  Definition run_sched (c : config) (sch : list nat) : config := fold_left sched_step sch c.

  Definition complete (c : config) : Prop := Forall (fun p => p = []) (pending c).

  (* the invariant: the shared state is the initial one, and for every thread
       outputs so far ++ outputs of running the rest alone = outputs of running the whole thread alone *)
  Definition inv (ths : list (list step)) (s0 : St) (c : config) : Prop :=
    st c = s0 /\ length (pending c) = length ths /\ length (outs c) = length ths /\
    Forall (Forall read_only) (pending c) /\
    forall t, t < length ths ->
      nth t (outs c) [] ++ snd (run_seq (nth t (pending c) []) s0) = snd (run_seq (nth t ths []) s0).

  Lemma inv_init ths s0 : Forall (Forall read_only) ths -> inv ths s0 (init ths s0).
  Proof.
    intros H. unfold inv, init; simpl. repeat split; auto.
    - apply map_length.
    - intros t Ht. assert (E : nth t (map (fun _ : list step => @nil Out) ths) [] = []).
      { clear. revert t. induction ths as [|x l IH]; intros [|t]; simpl; auto. }
      rewrite E. reflexivity.
  Qed.

  Lemma Forall_set_nth {A} (P : A -> Prop) t x l : Forall P l -> P x -> Forall P (set_nth t x l).
  Proof.
    intros H Hx. revert t. induction H as [|y l Hy Hl IH]; intros [|t]; simpl; constructor; auto.
  Qed.

  Lemma inv_step ths s0 c t : inv ths s0 c -> inv ths s0 (sched_step c t).
  Proof.
    intros (Hst & Hlp & Hlo & Hro & Hout). unfold sched_step.
    destruct (nth_error (pending c) t) as [[|q rest]|] eqn:E; try (unfold inv; repeat split; assumption).
    assert (Ht : t < length (pending c)) by (apply nth_error_Some; congruence).
    assert (Hnth : nth t (pending c) [] = q :: rest) by (apply nth_error_nth; exact E).
    assert (Hq : Forall read_only (q :: rest)).
    { rewrite Forall_forall in Hro. apply Hro. apply nth_error_In with t. exact E. }
    pose proof (Forall_inv Hq) as Hq1. pose proof (Forall_inv_tail Hq) as Hq2.
    unfold inv; simpl. repeat split.
    - rewrite Hq1. exact Hst.
    - rewrite set_nth_length. exact Hlp.
    - rewrite set_nth_length. exact Hlo.
    - apply Forall_set_nth; assumption.
    - intros u Hu. destruct (Nat.eq_dec t u) as [->|Hne].
      + rewrite nth_set_nth_same by lia. rewrite nth_set_nth_same by lia.
        rewrite <- (Hout u Hu). rewrite Hnth. simpl. rewrite Hst. rewrite Hq1.
        rewrite <- app_assoc. reflexivity.
      + rewrite !nth_set_nth_other by assumption. apply Hout. exact Hu.
  Qed.

  Lemma inv_run ths s0 sch : forall c, inv ths s0 c -> inv ths s0 (run_sched c sch).
  Proof.
    induction sch as [|t sch IH]; intros c H; simpl; [exact H|]. apply IH. apply inv_step. exact H.
  Qed.

  (* ---- the theorem: any schedule whatsoever *)
  Theorem interleaving_read_only (ths : list (list step)) (s0 : St) (sch : list nat) :
    Forall (Forall read_only) ths ->
    let c := run_sched (init ths s0) sch in
    st c = s0 /\
    (forall t, t < length ths ->
       exists k, nth t (outs c) [] = firstn k (snd (run_seq (nth t ths []) s0))) /\
    (complete c -> outs c = map (fun th => snd (run_seq th s0)) ths).
  Proof.
    intros H c. pose proof (inv_run ths s0 sch _ (inv_init ths s0 H)) as (Hst & Hlp & Hlo & Hro & Hout). fold c in Hst, Hlp, Hlo, Hro, Hout.
    split; [exact Hst|]. split.
    - intros t Ht. exists (length (nth t (outs c) [])). rewrite <- (Hout t Ht).
      rewrite firstn_app, Nat.sub_diag, firstn_all. simpl. rewrite app_nil_r. reflexivity.
    - intros Hc. apply nth_ext with (d := []) (d' := []).
      + rewrite map_length. exact Hlo.
      + intros t Ht. rewrite Hlo in Ht.
        rewrite (nth_indep (map _ ths) [] ((fun th => snd (run_seq th s0)) [])) by (rewrite map_length; exact Ht).
        rewrite (map_nth (fun th => snd (run_seq th s0))).
        rewrite <- (Hout t Ht).
        assert (E : nth t (pending c) [] = []).
        { unfold complete in Hc. rewrite Forall_forall in Hc. apply Hc. apply nth_In. lia. }
        rewrite E. simpl. rewrite app_nil_r. reflexivity.
  Qed.

  (* two complete schedules cannot be told apart *)
  Corollary complete_schedules_agree ths s0 sch1 sch2 :
    Forall (Forall read_only) ths ->
    complete (run_sched (init ths s0) sch1) -> complete (run_sched (init ths s0) sch2) ->
    outs (run_sched (init ths s0) sch1) = outs (run_sched (init ths s0) sch2) /\
    st (run_sched (init ths s0) sch1) = st (run_sched (init ths s0) sch2).
  Proof.
    intros H C1 C2.
    destruct (interleaving_read_only ths s0 sch1 H) as (S1 & _ & O1).
    destruct (interleaving_read_only ths s0 sch2 H) as (S2 & _ & O2).
    rewrite (O1 C1), (O2 C2), S1, S2. split; reflexivity.
  Qed.

  (* threads of pure observation functions: after ANY complete schedule every thread holds exactly the values of
     its functions on the initial state *)
  Corollary pure_queries_interleave (fss : list (list (St -> Out))) s0 sch :
    let c := run_sched (init (map (map pure_query) fss) s0) sch in
    st c = s0 /\ (complete c -> outs c = map (map (fun f => f s0)) fss).
  Proof.
    intros c.
    assert (H : Forall (Forall read_only) (map (map pure_query) fss)).
    { apply Forall_forall. intros th Hth. apply in_map_iff in Hth. destruct Hth as (fs & <- & _). apply pure_thread_read_only. }
    destruct (interleaving_read_only _ s0 sch H) as (A & _ & C). split; [exact A|].
    intros Hc. fold c in C. rewrite (C Hc). rewrite map_map. apply map_ext. intros fs. rewrite run_seq_pure. reflexivity.
  Qed.

  (* ---- complete schedules exist (the theorem is not vacuous): run the threads one after the other *)
  Lemma sched_step_length c t : length (pending (sched_step c t)) = length (pending c).
  Proof.
    unfold sched_step. destruct (nth_error (pending c) t) as [[|q rest]|]; try reflexivity. simpl. apply set_nth_length.
  Qed.

  Lemma drain_thread t : forall n c, nth t (pending c) [] = nth t (pending c) [] -> length (nth t (pending c) []) = n ->
    t < length (pending c) ->
    let c' := run_sched c (repeat t n) in
    nth t (pending c') [] = [] /\ length (pending c') = length (pending c) /\
    forall u, u <> t -> nth u (pending c') [] = nth u (pending c) [].
  Proof.
    induction n as [|n IH]; intros c _ Hn Ht; simpl.
    - split; [destruct (nth t (pending c) []); [reflexivity | discriminate]|]. split; reflexivity || (intros; reflexivity).
    - assert (E : exists q rest, nth_error (pending c) t = Some (q :: rest) /\ length rest = n).
      { destruct (nth_error (pending c) t) as [p|] eqn:E'; [|apply nth_error_None in E'; lia].
        rewrite (nth_error_nth _ _ [] E') in Hn. destruct p as [|q rest]; [discriminate|]. exists q, rest. split; [reflexivity|]. simpl in Hn. lia. }
      destruct E as (q & rest & E & Hr).
      set (c1 := sched_step c t).
      assert (P1 : pending c1 = set_nth t rest (pending c)) by (unfold c1, sched_step; rewrite E; reflexivity).
      assert (L1 : length (pending c1) = length (pending c)) by (rewrite P1; apply set_nth_length).
      destruct (IH c1 eq_refl) as (A & B & C).
      + rewrite P1, nth_set_nth_same by exact Ht. exact Hr.
      + lia.
      + split; [exact A|]. split; [lia|]. intros u Hu. rewrite (C u Hu). rewrite P1. apply nth_set_nth_other. congruence.
  Qed.

  Fixpoint sequential_schedule (ths : list (list step)) (t : nat) : list nat :=
    match ths with [] => [] | th :: r => repeat t (length th) ++ sequential_schedule r (S t) end.

  Lemma run_sched_app c a b : run_sched c (a ++ b) = run_sched (run_sched c a) b.
  Proof. unfold run_sched. apply fold_left_app. Qed.

  Lemma sequential_schedule_complete_aux : forall suffix t c,
    length (pending c) = t + length suffix ->
    (forall i, i < length suffix -> nth (t + i) (pending c) [] = nth i suffix []) ->
    let c' := run_sched c (sequential_schedule suffix t) in
    length (pending c') = length (pending c) /\
    (forall u, u < t -> nth u (pending c') [] = nth u (pending c) []) /\
    (forall u, t <= u < t + length suffix -> nth u (pending c') [] = []).
  Proof.
    induction suffix as [|th r IH]; intros t c Hl Hs; simpl.
    - split; [reflexivity|]. split; [intros; reflexivity | intros u Hu; simpl in Hu; lia].
    - rewrite run_sched_app.
      assert (Hth : nth t (pending c) [] = th) by (rewrite <- (Nat.add_0_r t) at 1; apply (Hs 0); simpl; lia).
      destruct (drain_thread t (length th) c eq_refl) as (A & B & C); [rewrite Hth; reflexivity | simpl in Hl; lia |].
      set (c1 := run_sched c (repeat t (length th))) in *.
      destruct (IH (S t) c1) as (A2 & B2 & C2).
      + rewrite B. simpl in Hl. lia.
      + intros i Hi. rewrite C by lia. replace (S t + i) with (t + S i) by lia. apply (Hs (S i)). simpl. lia.
      + split; [lia|]. split.
        * intros u Hu. rewrite B2 by lia. apply C. lia.
        * intros u Hu. simpl in Hu. destruct (Nat.eq_dec u t) as [->|Hne].
          -- rewrite B2 by lia. exact A.
          -- apply C2. lia.
  Qed.

  Theorem complete_schedule_exists ths s0 : complete (run_sched (init ths s0) (sequential_schedule ths 0)).
  Proof.
    destruct (sequential_schedule_complete_aux ths 0 (init ths s0)) as (A & _ & C); simpl; auto.
    unfold complete. apply Forall_forall. intros p Hp.
    destruct (In_nth _ _ [] Hp) as (u & Hu & <-). apply C. rewrite A in Hu. simpl in Hu. lia.
  Qed.
End Sched.

Arguments read_only {St Out} q.
Arguments pure_query {St Out} f.
Arguments sched_step {St Out} c t.
Arguments run_seq {St Out} th s.
Arguments init {St Out} ths s.
Arguments run_sched {St Out} c sch.
Arguments complete {St Out} c.
Arguments sequential_schedule {St Out} ths t.
Arguments st {St Out} c.
Arguments outs {St Out} c.
Arguments pending {St Out} c.
