(* Mesh/TH2HexRefute.v -- each of the three conjuncts of hex_cell_wf_b (Mesh/TH2HexFrame.v) is needed:
   check_halfface_ordering together with the shape invariant and the two OTHER conjuncts does not give the cube pattern.
   The full statement one would like,
       forall s c, hex_shape s -> c < nc s -> check_halfface_ordering s (cell_at s c) = true -> hex_cube_pattern s c,
   is false of the model (and, replayed, of the library: the unchecked add_cell stores any six quads, the checked ones
   never look at vertices).  Witnesses computed with vm_compute. *)
From Coq Require Import ZArith Lia Bool Arith List ZifyNat ZifyBool Permutation.
From OVM Require Import Base.ListX Base.ListLemmas Kernel.State Kernel.Ops Kernel.Mirror Kernel2.LookupModel Kernel2.ListAux
                        Kernel2.AdjacentProofs Mesh.TetModel Mesh.HexModel Mesh.HexIterModel Mesh.TetProofs Mesh.HexProofs
                        Mesh.TH2HexBase Mesh.TH2HexAdj Mesh.TH2HexOrd Mesh.TH2HexFrame Mesh.TH2HexSides Mesh.TH2HexVerts
                        Mesh.TH2HexLayout Mesh.TH2HexMain.
Import ListNotations.
Ltac Zify.zify_post_hook ::= Z.div_mod_to_equations.
Local Open Scope nat_scope.

(* the three conjuncts of hex_cell_wf_b, separately *)
Definition wf_closed (s : mesh) (c : nat) : bool := closed_cell_b s c.
Definition wf_loops (s : mesh) (c : nat) : bool := forallb (fun h => loop_ok s (halfface s h)) (cell_at s c).
Definition wf_eight (s : mesh) (c : nat) : bool :=
  nodup_b (hf_vertices s (hx (cell_at s c) 0) ++ hf_vertices s (hx (cell_at s c) 1)).
Definition wf_cache (s : mesh) (c : nat) : bool :=
  forallb (fun h => match cell_of s h with Some c' => c' =? c | None => false end) (cell_at s c).

(* the two traversals of check_halfface_ordering alone (the whole check before the fix "hex halfface ordering check must
   require vertex-disjoint top and bottom faces", de91a3d) *)
Definition ordering_walk (s : mesh) (l : list nat) : bool :=
  ord_pass s l (hx l 0) order_top order_top && ord_pass s l (hx l 1) order_bot order_bot.

Lemma check_is_walk_and_disjoint s l :
  check_halfface_ordering s l = ordering_walk s l && disjointb (hf_vertices s (hx l 1)) (hf_vertices s (hx l 0)).
Proof. reflexivity. Qed.

Lemma hex_cell_wf_b_split s c : hex_cell_wf_b s c = wf_closed s c && wf_loops s c && wf_eight s c.
Proof. reflexivity. Qed.

(* a reported list with a repeated vertex is not the cube pattern *)
Lemma pattern_needs_distinct s c vs : hex_vertices s c = Some vs -> nodup_b vs = false -> ~ hex_cube_pattern s c.
Proof.
  intros Hv Hn (v0&v1&v2&v3&v4&v5&v6&v7&E&_&_&_&_&_&_&ND). rewrite Hv in E. inversion E; subst vs.
  apply nodup_b_spec in ND. rewrite ND in Hn. discriminate.
Qed.

Lemma pattern_needs_walk s c : hex_vertices s c = None -> ~ hex_cube_pattern s c.
Proof. intros Hv (v0&v1&v2&v3&v4&v5&v6&v7&E&_). rewrite Hv in E. discriminate. Qed.

(* ================================================================== 1. without closedness: an OPEN cell passes the ordering check *)

(* five faces of a cube and a far-away quad in place of the sixth, listed so that the missing side is the one across the
   FIRST halfedge of the first halfface and across the FIRST halfedge of the second halfface: check_halfface_ordering
   only starts counting at the first recognised neighbour, so both traversals pass with three neighbours.  The cache is
   consistent, every face is a closed loop, the first two halffaces have eight distinct vertices - and hex_vertices
   dereferences the invalid handle returned by adjacent_halfface_in_cell (UB in the library). *)
Definition refute_open_ops : list hop :=
  [HK (AddVertices 12);
   HK (AddFaceV [3; 2; 1; 0]); HK (AddFaceV [6; 5; 4; 7]); HK (AddFaceV [1; 2; 6; 7]); HK (AddFaceV [4; 5; 3; 0]);
   HK (AddFaceV [1; 7; 4; 0]); HK (AddFaceV [2; 3; 5; 6]); HK (AddFaceV [8; 9; 10; 11]);
   HK (AddCell [0; 2; 4; 6; 8; 12] false)].
Definition refute_open : mesh := hex_run refute_open_ops.

Lemma refute_open_facts :
  nc refute_open = 1 /\ cell_at refute_open 0 = [0; 2; 4; 6; 8; 12] /\
  check_halfface_ordering refute_open (cell_at refute_open 0) = true /\
  wf_cache refute_open 0 = true /\ wf_loops refute_open 0 = true /\ wf_eight refute_open 0 = true /\
  wf_closed refute_open 0 = false /\ hex_vertices refute_open 0 = None /\ hex_layout refute_open (cell_at refute_open 0) = false.
Proof. vm_compute. repeat split. Qed.

Lemma refute_open_shape : hex_shape refute_open.
Proof. apply hex_shape_b_ok. vm_compute. reflexivity. Qed.

Theorem hex_pattern_without_closedness_refuted :
  exists s c, hex_shape s /\ c < nc s /\ check_halfface_ordering s (cell_at s c) = true /\
              wf_cache s c = true /\ wf_loops s c = true /\ wf_eight s c = true /\
              hex_vertices s c = None /\ ~ hex_cube_pattern s c /\ hex_layout s (cell_at s c) = false.
Proof.
  exists refute_open, 0. destruct refute_open_facts as (N&_&O&C&L&E&_&V&Y).
  split; [exact refute_open_shape|]. split; [rewrite N; lia|].
  repeat (split; [assumption|]). split; [apply pattern_needs_walk; exact V | exact Y].
Qed.

(* ================================================================== 2. without closed loops: a face stored out of cyclic order *)

(* the six faces of a cube, but the side face (2,3,5,6) across the first halfedge of the first halfface is stored with
   its halfedges in the order 2->3, 5->6, 3->5, 6->2 (add_face without topology check).  The cell is closed (closedness
   and the ordering check only look at the SET of halfedges of a face), the first two halffaces have eight distinct
   vertices, even hex_layout holds - but "the halfedge after the next" of the side face is no longer opposite to the
   top edge, and hex_vertices reports 3,0,1,2,3,5,4,0 *)
Definition refute_loop_ops : list hop :=
  [HK (AddVertices 8);
   HK (AddFaceV [3; 2; 1; 0]); HK (AddFaceV [7; 6; 5; 4]); HK (AddFaceV [1; 2; 6; 7]); HK (AddFaceV [4; 5; 3; 0]);
   HK (AddFaceV [1; 7; 4; 0]); HK (AddFaceV [2; 3; 5; 6]);
   HK (AddFace [1; 11; 21; 17] false);
   HK (AddCell [0; 2; 4; 6; 8; 12] false)].
Definition refute_loop : mesh := hex_run refute_loop_ops.

Lemma refute_loop_facts :
  nc refute_loop = 1 /\ cell_at refute_loop 0 = [0; 2; 4; 6; 8; 12] /\
  face_at refute_loop 5 = [1; 21; 11; 17] /\ face_at refute_loop 6 = [1; 11; 21; 17] /\
  check_halfface_ordering refute_loop (cell_at refute_loop 0) = true /\
  wf_closed refute_loop 0 = true /\ wf_eight refute_loop 0 = true /\ wf_loops refute_loop 0 = false /\
  map (fun h => loop_ok refute_loop (halfface refute_loop h)) (cell_at refute_loop 0) = [true; true; true; true; true; false] /\
  hex_vertices refute_loop 0 = Some [3; 0; 1; 2; 3; 5; 4; 0] /\ hex_layout refute_loop (cell_at refute_loop 0) = true.
Proof. vm_compute. repeat split. Qed.

Lemma refute_loop_shape : hex_shape refute_loop.
Proof. apply hex_shape_b_ok. vm_compute. reflexivity. Qed.

Theorem hex_pattern_without_loops_refuted :
  exists s c, hex_shape s /\ c < nc s /\ check_halfface_ordering s (cell_at s c) = true /\
              wf_closed s c = true /\ wf_eight s c = true /\
              hex_vertices s c = Some [3; 0; 1; 2; 3; 5; 4; 0] /\ ~ hex_cube_pattern s c.
Proof.
  exists refute_loop, 0. destruct refute_loop_facts as (N&_&_&_&O&C&E&_&_&V&_).
  split; [exact refute_loop_shape|]. split; [rewrite N; lia|].
  repeat (split; [assumption|]). apply (pattern_needs_distinct _ _ _ V). vm_compute. reflexivity.
Qed.

(* ================================================================== 3. without eight distinct vertices: a pinched cube *)

(* a cube whose vertex 6 is identified with the antipodal vertex 0: twelve different edges, six different quads, every
   quad a closed loop of four different vertices, the surface closed.  Built WITHOUT topology check here.  Before the fix
   "checked hex add_cell must reject cells without eight distinct vertices" it was accepted by both topology-checked forms
   of add_cell; since the fix both reject it (regression Examples pinched_cell_rejected_*, below).  Seven vertices;
   hex_vertices reports vertex 0 twice; the first two halffaces share vertex 0 *)
Definition refute_pinched_ops : list hop := [HK (AddVertices 8); HAddCellV [0; 1; 2; 3; 4; 5; 0; 7] false].
Definition refute_pinched : mesh := hex_run refute_pinched_ops.

Definition refute_pinched_ops' : list hop :=
  [HK (AddVertices 8);
   HK (AddFaceV [3; 2; 1; 0]); HK (AddFaceV [7; 0; 5; 4]); HK (AddFaceV [1; 2; 0; 7]); HK (AddFaceV [4; 5; 3; 0]);
   HK (AddFaceV [1; 7; 4; 0]); HK (AddFaceV [2; 3; 5; 0]);
   HK (AddCell [0; 2; 4; 6; 8; 10] false)].
Definition refute_pinched' : mesh := hex_run refute_pinched_ops'.

(* regression (fix e0de5bf): both topology-checked forms reject the pinched cell and leave the mesh unchanged *)
Example pinched_cell_rejected_from_vertices :
  let s := hex_run [HK (AddVertices 8)] in
  hex_valid s (HAddCellV [0; 1; 2; 3; 4; 5; 0; 7] true) = true /\ hex_step s (HAddCellV [0; 1; 2; 3; 4; 5; 0; 7] true) = HROk s None.
Proof. vm_compute. split; reflexivity. Qed.

Example pinched_cell_rejected_from_halffaces :
  let s := hex_run (removelast refute_pinched_ops') in
  hex_valid s (HK (AddCell [0; 2; 4; 6; 8; 10] true)) = true /\ hex_step s (HK (AddCell [0; 2; 4; 6; 8; 10] true)) = HROk s None /\
  cell_check s [0; 2; 4; 6; 8; 10] = true /\ ordering_walk s [0; 2; 4; 6; 8; 10] = true /\
  length (hfs_vertex_set s [0; 2; 4; 6; 8; 10]) = 7.
Proof. vm_compute. repeat split. Qed.

Lemma refute_pinched_facts :
  nc refute_pinched = 1 /\ cell_at refute_pinched 0 = [0; 2; 4; 6; 8; 10] /\ ne refute_pinched = 12 /\
  ordering_walk refute_pinched (cell_at refute_pinched 0) = true /\
  wf_closed refute_pinched 0 = true /\ wf_loops refute_pinched 0 = true /\ wf_eight refute_pinched 0 = false /\
  forallb (fun h => nodup_b (hf_vertices refute_pinched h)) (cell_at refute_pinched 0) = true /\
  hex_vertices refute_pinched 0 = Some [3; 0; 1; 2; 5; 0; 7; 4] /\ hex_layout refute_pinched (cell_at refute_pinched 0) = false.
Proof. vm_compute. repeat split. Qed.

Lemma refute_pinched_facts' :
  nc refute_pinched' = 1 /\ cell_at refute_pinched' 0 = [0; 2; 4; 6; 8; 10] /\
  ordering_walk refute_pinched' (cell_at refute_pinched' 0) = true /\
  wf_closed refute_pinched' 0 = true /\ wf_loops refute_pinched' 0 = true /\ wf_eight refute_pinched' 0 = false /\
  hex_vertices refute_pinched' 0 = Some [3; 0; 1; 2; 5; 0; 7; 4] /\ hex_layout refute_pinched' (cell_at refute_pinched' 0) = false.
Proof. vm_compute. repeat split. Qed.

Lemma refute_pinched_shape : hex_shape refute_pinched.
Proof. apply hex_shape_b_ok. vm_compute. reflexivity. Qed.

Theorem hex_pattern_without_eight_vertices_refuted :
  exists s c, hex_shape s /\ c < nc s /\ ordering_walk s (cell_at s c) = true /\
              wf_closed s c = true /\ wf_loops s c = true /\
              hex_vertices s c = Some [3; 0; 1; 2; 5; 0; 7; 4] /\ ~ hex_cube_pattern s c /\ hex_layout s (cell_at s c) = false.
Proof.
  exists refute_pinched, 0. destruct refute_pinched_facts as (N&_&_&O&C&L&_&_&V&Y).
  split; [exact refute_pinched_shape|]. split; [rewrite N; lia|].
  repeat (split; [assumption|]). split; [|exact Y]. apply (pattern_needs_distinct _ _ _ V). vm_compute. reflexivity.
Qed.

(* ================================================================== 4. a vertex COUNT is not enough: ten vertices, not a cube *)

(* two closed components: a sphere of four quads P=(0,1,2,3), Q=(2,1,0,4), X=(3,2,4,5), Y=(0,3,5,4) in which P and Q share
   TWO edges, and a pillow Z=(6,7,8,9), W=(9,8,7,6).  Listed as [P; Q; X; Z; Y; W]: the traversal of P meets Q, Q (not
   recognised: ordering_walk only starts counting at the first neighbour among positions 2..5), then X, Y =
   positions 2, 4; the traversal of Q meets P, P, then Y, X = positions 4, 2.  Both pass.  The cell is closed, all faces
   are closed loops, the cell has TEN distinct vertices.  Before the fix e0de5bf the topology-checked add_cell (cell_check +
   ordering check) ACCEPTED it; now it is rejected (regression Example two_components_rejected, below) and the witness is
   built without topology check.  The first two halffaces share three vertices; hex_vertices reports 0,3,2,1,4,2,3,5 *)
Definition refute_two_components_pre : list hop :=
  [HK (AddVertices 10);
   HK (AddFaceV [0; 1; 2; 3]); HK (AddFaceV [2; 1; 0; 4]); HK (AddFaceV [3; 2; 4; 5]); HK (AddFaceV [6; 7; 8; 9]);
   HK (AddFaceV [0; 3; 5; 4]); HK (AddFaceV [9; 8; 7; 6])].
Definition refute_two_components_ops : list hop := refute_two_components_pre ++ [HK (AddCell [0; 2; 4; 6; 8; 10] false)].
Definition refute_two_components : mesh := hex_run refute_two_components_ops.

Lemma refute_two_components_facts :
  hex_step (hex_run refute_two_components_pre) (HK (AddCell [0; 2; 4; 6; 8; 10] false)) = HROk refute_two_components (Some 0) /\
  nc refute_two_components = 1 /\ cell_at refute_two_components 0 = [0; 2; 4; 6; 8; 10] /\
  ordering_walk refute_two_components (cell_at refute_two_components 0) = true /\
  wf_closed refute_two_components 0 = true /\ wf_loops refute_two_components 0 = true /\ wf_eight refute_two_components 0 = false /\
  hfs_vertex_set refute_two_components (cell_at refute_two_components 0) = [0; 1; 2; 3; 4; 5; 6; 7; 8; 9] /\
  hex_vertices refute_two_components 0 = Some [0; 3; 2; 1; 4; 2; 3; 5] /\
  hex_layout refute_two_components (cell_at refute_two_components 0) = false.
Proof. vm_compute. repeat split. Qed.

Lemma refute_two_components_shape : hex_shape refute_two_components.
Proof. apply hex_shape_b_ok. vm_compute. reflexivity. Qed.

Theorem hex_pattern_with_ten_vertices_refuted :
  exists s0 hfs s c, hex_step s0 (HK (AddCell hfs false)) = HROk s (Some c) /\
              hex_shape s /\ c < nc s /\ ordering_walk s (cell_at s c) = true /\
              wf_closed s c = true /\ wf_loops s c = true /\ 8 <= length (hfs_vertex_set s (cell_at s c)) /\
              hex_vertices s c = Some [0; 3; 2; 1; 4; 2; 3; 5] /\ ~ hex_cube_pattern s c /\ hex_layout s (cell_at s c) = false.
Proof.
  exists (hex_run refute_two_components_pre), [0; 2; 4; 6; 8; 10], refute_two_components, 0.
  destruct refute_two_components_facts as (St&N&_&O&C&L&_&VS&V&Y).
  split; [exact St|]. split; [exact refute_two_components_shape|]. split; [rewrite N; lia|].
  repeat (split; [assumption|]). split; [rewrite VS; cbn [length]; lia|]. split; [exact V|].
  split; [|exact Y]. apply (pattern_needs_distinct _ _ _ V). vm_compute. reflexivity.
Qed.

(* regression (fix e0de5bf): the topology-checked add_cell rejects the two components and leaves the mesh unchanged *)
Example two_components_rejected :
  let s := hex_run refute_two_components_pre in
  hex_valid s (HK (AddCell [0; 2; 4; 6; 8; 10] true)) = true /\ hex_step s (HK (AddCell [0; 2; 4; 6; 8; 10] true)) = HROk s None /\
  cell_check s [0; 2; 4; 6; 8; 10] = true /\ ordering_walk s [0; 2; 4; 6; 8; 10] = true /\
  length (hfs_vertex_set s [0; 2; 4; 6; 8; 10]) = 10.
Proof. vm_compute. repeat split. Qed.

(* ================================================================== 5. exactly eight vertices are not enough either *)

(* top T=(0,1,2,3), bottom B=(0,4,2,5) SHARING the vertices 0 and 2; sides (1,0,5,6), (3,2,4,7), (5,2,1,6), (4,0,3,7): in every
   side face the edge to the top and the edge to the bottom are ADJACENT instead of opposite.  Six quads, each a closed loop on
   four different vertices, twelve edges, a closed surface, exactly EIGHT distinct vertices; the traversal of T meets the sides
   in the order 2,4,3,5 and that of B in the order 3,4,2,5.  After the fix e0de5bf the topology-checked add_cell still accepted
   it (so did the library); since the fix de91a3d (vertex-disjoint top and bottom) it is rejected - built without check here.  Found by exhaustive search over the closed six-quad
   surfaces on eight labelled vertices that pass both checks (build/th2/search8.py: all 96 have this shape). *)
Definition refute_twisted_pre : list hop :=
  [HK (AddVertices 8);
   HK (AddFaceV [0; 1; 2; 3]); HK (AddFaceV [0; 4; 2; 5]); HK (AddFaceV [1; 0; 5; 6]); HK (AddFaceV [3; 2; 4; 7]);
   HK (AddFaceV [5; 2; 1; 6]); HK (AddFaceV [4; 0; 3; 7])].
Definition refute_twisted : mesh := hex_run (refute_twisted_pre ++ [HK (AddCell [0; 2; 4; 6; 8; 10] false)]).

Lemma refute_twisted_facts :
  hex_step (hex_run refute_twisted_pre) (HK (AddCell [0; 2; 4; 6; 8; 10] false)) = HROk refute_twisted (Some 0) /\
  nc refute_twisted = 1 /\ cell_at refute_twisted 0 = [0; 2; 4; 6; 8; 10] /\ ne refute_twisted = 12 /\
  ordering_walk refute_twisted (cell_at refute_twisted 0) = true /\ cell_check refute_twisted (cell_at refute_twisted 0) = true /\
  wf_closed refute_twisted 0 = true /\ wf_loops refute_twisted 0 = true /\ wf_eight refute_twisted 0 = false /\
  forallb (fun h => nodup_b (hf_vertices refute_twisted h)) (cell_at refute_twisted 0) = true /\
  hfs_vertex_set refute_twisted (cell_at refute_twisted 0) = [0; 1; 2; 3; 4; 5; 6; 7] /\
  hex_layout refute_twisted (cell_at refute_twisted 0) = false /\
  disjointb (hf_vertices refute_twisted 0) (hf_vertices refute_twisted 2) = false.
Proof. vm_compute. repeat split. Qed.

Lemma refute_twisted_shape : hex_shape refute_twisted.
Proof. apply hex_shape_b_ok. vm_compute. reflexivity. Qed.

(* regression (fix de91a3d): the topology-checked add_cell rejects it and leaves the mesh unchanged - no re-ordering helps *)
Example twisted_cell_rejected :
  let s := hex_run refute_twisted_pre in
  hex_valid s (HK (AddCell [0; 2; 4; 6; 8; 10] true)) = true /\ hex_step s (HK (AddCell [0; 2; 4; 6; 8; 10] true)) = HROk s None /\
  cell_check s [0; 2; 4; 6; 8; 10] = true /\ ordering_walk s [0; 2; 4; 6; 8; 10] = true /\ check_halfface_ordering s [0; 2; 4; 6; 8; 10] = false /\
  length (hfs_vertex_set s [0; 2; 4; 6; 8; 10]) = 8.
Proof. vm_compute. repeat split. Qed.

(* the two walks, closedness, loops and exactly eight vertices do not give the layout: this is why the check now also asks for
   vertex-disjoint top and bottom *)
Theorem hex_pattern_with_shared_top_and_bottom_refuted :
  exists s0 hfs s c, hex_step s0 (HK (AddCell hfs false)) = HROk s (Some c) /\
              hex_shape s /\ c < nc s /\ ordering_walk s (cell_at s c) = true /\
              wf_closed s c = true /\ wf_loops s c = true /\ length (hfs_vertex_set s (cell_at s c)) = 8 /\
              wf_eight s c = false /\ hex_layout s (cell_at s c) = false.
Proof.
  exists (hex_run refute_twisted_pre), [0; 2; 4; 6; 8; 10], refute_twisted, 0.
  destruct refute_twisted_facts as (St&N&_&_&O&_&C&L&E&_&VS&Y&_).
  split; [exact St|]. split; [exact refute_twisted_shape|]. split; [rewrite N; lia|].
  repeat (split; [assumption|]). split; [rewrite VS; reflexivity|]. split; assumption.
Qed.

(* the unconditional statement is therefore false *)
Theorem hex_pattern_from_ordering_alone_refuted :
  ~ (forall s c, hex_shape s -> c < nc s -> check_halfface_ordering s (cell_at s c) = true -> hex_cube_pattern s c).
Proof.
  intros H. destruct hex_pattern_without_loops_refuted as (s&c&K&Hc&O&_&_&_&N). exact (N (H s c K Hc O)).
Qed.
