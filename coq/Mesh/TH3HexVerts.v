(* Mesh/TH3HexVerts.v -- C16: hex_vertices of a cell created by add_cell(eight vertices) returns exactly the eight given vertices,
   rotated about the first axis by the position j at which the first halfface's stored halfedge list starts:

       j = 0 : v0 v1 v2 v3 v4 v5 v6 v7       j = 1 : v1 v2 v3 v0 v7 v4 v5 v6
       j = 2 : v2 v3 v0 v1 v6 v7 v4 v5       j = 3 : v3 v0 v1 v2 v5 v6 v7 v4

   (input positions 0-4, 1-7, 2-6, 3-5 are joined by edges of the cell, as output positions are).  A first halfface CREATED by the
   call starts at v3 (its vertex list is v3 v2 v1 v0): j = 3; a first halfface found in the mesh keeps the rotation it was stored with. *)
From Coq Require Import ZArith Lia Bool Arith List ZifyNat ZifyBool Permutation.
From OVM Require Import Base.ListX Base.ListLemmas Kernel.State Kernel.Ops Kernel.Mirror Kernel.Recompute Kernel.Closure Kernel.CellCheck
                        Kernel.Construct Kernel.ExactInv Kernel.ExactRun Kernel2.ListAux Kernel2.ExactAddCell
                        Mesh.TetModel Mesh.TetProofs Mesh.HexModel Mesh.HexIterModel Mesh.HexProofs Mesh.TH2CollapseBase Mesh.TH2CollapseLoop
                        Mesh.TH2CollapseFold Mesh.TH2HexBase Mesh.TH2HexAdj Mesh.TH2HexOrd Mesh.TH2HexFrame Mesh.TH2HexVerts Mesh.TH2HexMain
                        Mesh.TH2HexChecked Mesh.TH2HexEight Mesh.TH2HexWf
                        Mesh.TH3Base Mesh.TH3HexQuad Mesh.TH3HexCube Mesh.TH3HexMain.
Import ListNotations.
Ltac Zify.zify_post_hook ::= Z.div_mod_to_equations.
Local Open Scope nat_scope.

Definition hexv_perm (j : nat) : list nat :=
  match j with
  | 0 => [0; 1; 2; 3; 4; 5; 6; 7]
  | 1 => [1; 2; 3; 0; 7; 4; 5; 6]
  | 2 => [2; 3; 0; 1; 6; 7; 4; 5]
  | _ => [3; 0; 1; 2; 5; 6; 7; 4]
  end.
Definition hexv_rot (j : nat) (vs : list nat) : list nat := map (fun i => nth i vs 0) (hexv_perm j).

(* the ends of the halfedges of a closed quad on known vertices *)
Lemma quad_ends_loop s hf p0 p1 p2 p3 he : loop_ok s (halfface s hf) = true -> rot4 (hf_vertices s hf) [p0; p1; p2; p3] ->
  In he (halfface s hf) -> In (he_ends s he) [(p0, p1); (p1, p2); (p2, p3); (p3, p0)].
Proof.
  intros L R Hin. pose proof (rot4_length_l _ _ R) as L4. unfold hf_vertices in L4, R. rewrite map_length in L4.
  destruct (len4_quad _ L4) as (g0 & g1 & g2 & g3 & E). rewrite E in *. cbn [map] in R.
  apply loop4 in L. destruct L as (l0 & l1 & l2 & l3). unfold he_ends.
  inversion R; subst; destruct Hin as [<-|[<-|[<-|[<-|[]]]]]; rewrite ?l0, ?l1, ?l2, ?l3; cbn [In]; tauto.
Qed.

(* the index pairs of the sixteen halfedges of the four side halffaces *)
Definition SIDE16 : list (nat * nat) :=
  [(1, 2); (2, 6); (6, 7); (7, 1);  (4, 5); (5, 3); (3, 0); (0, 4);  (1, 7); (7, 4); (4, 0); (0, 1);  (2, 3); (3, 5); (5, 6); (6, 2)].

Lemma pairs_from vs x w L : NoDup vs -> x < length vs -> in_range_pb (length vs) L = true ->
  In (nth x vs 0, w) (map (avp vs) L) -> In w (map (fun p => nth (snd p) vs 0) (filter (fun p => fst p =? x) L)).
Proof.
  intros ND Hx R Hin. apply in_map_iff in Hin. destruct Hin as (p & Ep & Hp). unfold avp in Ep. injection Ep as E1 E2.
  unfold in_range_pb in R. rewrite forallb_forall in R. pose proof (R p Hp) as Rp. apply andb_true_iff in Rp. destruct Rp as [A _]. apply Nat.ltb_lt in A.
  apply (proj1 (NoDup_nth vs 0) ND) in E1; [|assumption..].
  apply in_map_iff. exists p. split; [exact E2|]. apply filter_In. split; [exact Hp|]. apply Nat.eqb_eq. exact E1.
Qed.

Section Verts.
  Variables (s s' : mesh) (a0 a1 a2 a3 a4 a5 a6 a7 : nat) (chk : bool) (c : nat).
  Let vs := [a0; a1; a2; a3; a4; a5; a6; a7].
  Hypothesis K : hex_shape s.
  Hypothesis C : cre_inv s.
  Hypothesis ND8 : NoDup vs.
  Hypothesis RV : forall v, In v vs -> v < nv s.
  Hypothesis CALL : hex_add_cell_v s vs chk = (s', Some c).

  Lemma cv_shape : hex_shape s'.
  Proof. pose proof (shape_hex_add_cell_v s vs chk K) as X. rewrite CALL in X. exact X. Qed.

  (* what joins a vertex of the first halfface to a vertex of the second one *)
  Lemma cv_joined h0 h1 h2 h3 h4 h5 u w :
    hf_on s' h2 [a1; a2; a6; a7] -> hf_on s' h3 [a4; a5; a3; a0] -> hf_on s' h4 [a1; a7; a4; a0] -> hf_on s' h5 [a2; a3; a5; a6] ->
    (forall h, In h [h0; h1; h2; h3; h4; h5] -> loop_ok s' (halfface s' h) = true) ->
    hex_joined s' [h0; h1; h2; h3; h4; h5] u w -> In (u, w) (map (avp vs) SIDE16).
  Proof.
    intros (_ & _ & R2) (_ & _ & R3) (_ & _ & R4) (_ & _ & R5) LO (i & he & Hi & Hin & F & T).
    assert (EN : he_ends s' he = (u, w)) by (unfold he_ends; rewrite F, T; reflexivity).
    unfold SIDE16, vs. cbn [map avp nth fst snd].
    assert (Ci : i = 2 \/ i = 3 \/ i = 4 \/ i = 5) by lia.
    destruct Ci as [-> | [-> | [-> | ->]]]; cbn [hx nth] in Hin.
    - pose proof (quad_ends_loop s' h2 _ _ _ _ he (LO h2 ltac:(cbn; tauto)) R2 Hin) as P. rewrite EN in P. cbn [In] in *. tauto.
    - pose proof (quad_ends_loop s' h3 _ _ _ _ he (LO h3 ltac:(cbn; tauto)) R3 Hin) as P. rewrite EN in P. cbn [In] in *. tauto.
    - pose proof (quad_ends_loop s' h4 _ _ _ _ he (LO h4 ltac:(cbn; tauto)) R4 Hin) as P. rewrite EN in P. cbn [In] in *. tauto.
    - pose proof (quad_ends_loop s' h5 _ _ _ _ he (LO h5 ltac:(cbn; tauto)) R5 Hin) as P. rewrite EN in P. cbn [In] in *. tauto.
  Qed.

  Lemma cv_partner x u w : x < 8 -> u = nth x vs 0 -> In (u, w) (map (avp vs) SIDE16) ->
    In w (map (fun p => nth (snd p) vs 0) (filter (fun p => fst p =? x) SIDE16)).
  Proof. intros Hx -> H. apply (pairs_from vs x w SIDE16 ND8 Hx); [vm_compute; reflexivity | exact H]. Qed.

  Theorem created_hex_vertices :
    exists j, j < 4 /\ hex_vertices s' c = Some (hexv_rot j vs) /\
      hd_error (hf_vertices s' (hx (cell_at s' c) 0)) = Some (nth j vs 0) /\
      (find_halfface_extensive s [a3; a2; a1; a0] = None -> j = 3).
  Proof.
    destruct (created_cell s s' a0 a1 a2 a3 a4 a5 a6 a7 chk c C ND8 RV CALL)
      as (h0 & h1 & h2 & h3 & h4 & h5 & Ec & NC & CA & M0 & M1 & M2 & M3 & M4 & M5 & X0 & WF & ORD & _).
    assert (Hc : c < nc s') by lia.
    pose proof ORD as ORD'. rewrite <- CA in ORD'.
    destruct (TH2_hex_vertices_cube_pattern s' c cv_shape Hc ORD' WF) as (v0 & v1 & v2 & v3 & v4 & v5 & v6 & v7 & HV & T0 & _ & J0 & J1 & J2 & J3 & NDv).
    apply hex_cell_wf_b_spec in WF. destruct WF as (_ & LO & _). rewrite CA in *. change (hx [h0; h1; h2; h3; h4; h5] 0) with h0 in *.
    pose proof (cv_joined h0 h1 h2 h3 h4 h5 _ _ M2 M3 M4 M5 LO J0) as P0. pose proof (cv_joined h0 h1 h2 h3 h4 h5 _ _ M2 M3 M4 M5 LO J1) as P1.
    pose proof (cv_joined h0 h1 h2 h3 h4 h5 _ _ M2 M3 M4 M5 LO J2) as P2. pose proof (cv_joined h0 h1 h2 h3 h4 h5 _ _ M2 M3 M4 M5 LO J3) as P3.
    destruct (nodup8_neq v0 v1 v2 v3 v4 v5 v6 v7 NDv) as
      ((n01&n02&n03&n04&n05&n06&n07)&(n12&n13&n14&n15&n16&n17)&(n23&n24&n25&n26&n27)&(n34&n35&n36&n37)&(n45&n46&n47)&(n56&n57)&n67).
    destruct (nodup8_neq a0 a1 a2 a3 a4 a5 a6 a7 ND8) as
      ((m01&m02&m03&m04&m05&m06&m07)&(m12&m13&m14&m15&m16&m17)&(m23&m24&m25&m26&m27)&(m34&m35&m36&m37)&(m45&m46&m47)&(m56&m57)&m67).
    destruct M0 as (_ & _ & R0). rewrite T0 in R0, X0. rewrite T0. cbn [hd_error].
    destruct (rot4_cases _ _ _ _ _ R0) as [E|[E|[E|E]]]; injection E as -> -> -> ->.
    - (* stored as given: a3 a2 a1 a0 *)
      exists 3. split; [lia|]. split; [|split; [reflexivity | reflexivity]].
      apply (cv_partner 3) in P0; [|lia | reflexivity]. apply (cv_partner 0) in P1; [|lia | reflexivity].
      apply (cv_partner 1) in P2; [|lia | reflexivity]. apply (cv_partner 2) in P3; [|lia | reflexivity].
      unfold SIDE16, vs in P0, P1, P2, P3. cbn [map filter fst snd Nat.eqb nth In] in P0, P1, P2, P3.
      rewrite HV. unfold hexv_rot, hexv_perm, vs. cbn [map nth].
      destruct P0 as [<-|[<-|[]]]; [congruence|]. destruct P1 as [<-|[<-|[]]]; [|congruence].
      destruct P2 as [<-|[<-|[]]]; [congruence|]. destruct P3 as [<-|[<-|[]]]; [|congruence]. reflexivity.
    - exists 0. split; [lia|]. split; [|split; [reflexivity | intros N; specialize (X0 N); congruence]].
      apply (cv_partner 0) in P0; [|lia | reflexivity]. apply (cv_partner 1) in P1; [|lia | reflexivity].
      apply (cv_partner 2) in P2; [|lia | reflexivity]. apply (cv_partner 3) in P3; [|lia | reflexivity].
      unfold SIDE16, vs in P0, P1, P2, P3. cbn [map filter fst snd Nat.eqb nth In] in P0, P1, P2, P3.
      rewrite HV. unfold hexv_rot, hexv_perm, vs. cbn [map nth].
      destruct P0 as [<-|[<-|[]]]; [|congruence]. destruct P1 as [<-|[<-|[]]]; [congruence|].
      destruct P2 as [<-|[<-|[]]]; [|congruence]. destruct P3 as [<-|[<-|[]]]; [congruence|]. reflexivity.
    - exists 1. split; [lia|]. split; [|split; [reflexivity | intros N; specialize (X0 N); congruence]].
      apply (cv_partner 1) in P0; [|lia | reflexivity]. apply (cv_partner 2) in P1; [|lia | reflexivity].
      apply (cv_partner 3) in P2; [|lia | reflexivity]. apply (cv_partner 0) in P3; [|lia | reflexivity].
      unfold SIDE16, vs in P0, P1, P2, P3. cbn [map filter fst snd Nat.eqb nth In] in P0, P1, P2, P3.
      rewrite HV. unfold hexv_rot, hexv_perm, vs. cbn [map nth].
      destruct P0 as [<-|[<-|[]]]; [congruence|]. destruct P1 as [<-|[<-|[]]]; [|congruence].
      destruct P2 as [<-|[<-|[]]]; [congruence|]. destruct P3 as [<-|[<-|[]]]; [|congruence]. reflexivity.
    - exists 2. split; [lia|]. split; [|split; [reflexivity | intros N; specialize (X0 N); congruence]].
      apply (cv_partner 2) in P0; [|lia | reflexivity]. apply (cv_partner 3) in P1; [|lia | reflexivity].
      apply (cv_partner 0) in P2; [|lia | reflexivity]. apply (cv_partner 1) in P3; [|lia | reflexivity].
      unfold SIDE16, vs in P0, P1, P2, P3. cbn [map filter fst snd Nat.eqb nth In] in P0, P1, P2, P3.
      rewrite HV. unfold hexv_rot, hexv_perm, vs. cbn [map nth].
      destruct P0 as [<-|[<-|[]]]; [|congruence]. destruct P1 as [<-|[<-|[]]]; [congruence|].
      destruct P2 as [<-|[<-|[]]]; [|congruence]. destruct P3 as [<-|[<-|[]]]; [congruence|]. reflexivity.
  Qed.
End Verts.

Print Assumptions created_hex_vertices.
