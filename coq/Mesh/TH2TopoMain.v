(* Mesh/TH2TopoMain.v -- C15, TetTopology constructor, for EVERY well-formed tetrahedron of EVERY mesh state.

   Main theorems (hypothesis: the decidable [tet_cell_ok_b s c] of TH2TopoWf.v):
     tt_make_consistent           TetTopology(mesh, ch, abc, a), a any vertex of abc, abc any halfface of the cell
     tt_make_default_consistent   TetTopology(mesh, ch, abc)   (a = VH(): A is the from-vertex of abc's first halfedge)
     tt_make_hf_consistent        TetTopology(mesh, abc, a)    (needs the incident-cell entry of abc)
     tt_make_c_consistent         TetTopology(mesh, ch)
     tt_make_c_v_consistent       TetTopology(mesh, ch, a)     (a any vertex of the cell)
   each: the constructor returns (no UB) a TetTopology t with tt_consistent s c t = true, i.e. (tt_consistent_components)
   four distinct vertices, every labelled halfedge joins its two labelled vertices, every labelled halfface with a start
   is the cell's (outer labels: the opposite) halfface on those vertices in that rotation, get_label inverts the accessors;
   moreover a() = a and hfh<ABC>() = abc.

   The two hypotheses beyond the vertex-level [tet_wf] are both necessary:
     tt_make_without_closure_refuted        a tetrahedron with one face stored flipped (unchecked add_cell)
     tt_make_without_closure_dup_refuted    a tetrahedron one of whose faces uses a duplicate edge (add_edge(.., true))
     tt_make_without_loops_refuted          a tetrahedron one of whose faces lists its halfedges out of order
   all three are [tet_wf], built by public (unchecked) calls. *)
From Coq Require Import ZArith Lia Bool Arith List.
From OVM Require Import Base.ListX Base.ListLemmas Base.Int32 Gen.TetLabels Kernel.State Kernel.Ops Kernel.Mirror
                        Mesh.TetModel Mesh.TetProofs Mesh.TetTopoModel Mesh.TetTopoProofs
                        Mesh.TH2TopoWf Mesh.TH2TopoFrame Mesh.TH2TopoMake Mesh.TH2TopoLabel Mesh.TH2TopoCons.
Import ListNotations.
Local Open Scope nat_scope.

Lemma tt_consistent_components s c t : tt_consistent s c t = true <->
  tt_v_distinct t = true /\ tt_he_consistent s t = true /\ tt_hf_consistent s c t = true /\ tt_label_consistent t = true.
Proof. unfold tt_consistent. rewrite !andb_true_iff. tauto. Qed.

(* ------------------------------------------------------------------ the four-argument constructor *)

(* explicit form: the result is the record of a labelled tetrahedron *)
Theorem tt_make_explicit s c hfs abc a : tet_cell_ok s c hfs -> In abc hfs -> In a (hf_vertices s abc) ->
  exists i B C D ab bc ca ad bd cd db dc da X Y Z,
    tet_frame s c hfs abc i a B C D ab bc ca ad bd cd db dc da X Y Z /\
    tt_make s c abc (Some a) = Some (tt_rec a B C D ab bc ca ad bd cd X Y Z abc).
Proof.
  intros OK Habc Ha.
  destruct (tet_frame_exists s c hfs OK abc a Habc Ha) as (i&B&C&D&ab&bc&ca&ad&bd&cd&db&dc&da&X&Y&Z&FR&Fi).
  exists i, B, C, D, ab, bc, ca, ad, bd, cd, db, dc, da, X, Y, Z. split; [exact FR|].
  exact (tt_make_frame s c hfs abc i a B C D ab bc ca ad bd cd db dc da X Y Z FR (Some a) Fi).
Qed.

Theorem tt_make_consistent s c : tet_cell_ok_b s c = true ->
  forall abc a, In abc (cell_at s c) -> In a (hf_vertices s abc) ->
  exists t, tt_make s c abc (Some a) = Some t /\ tt_consistent s c t = true /\
            tt_vh_l t VL_A = Some a /\ tt_hfh_l t HFL_ABC = Some abc.
Proof.
  intros H abc a Habc Ha. apply tet_cell_ok_b_spec in H. destruct H as (hfs&OK).
  rewrite (tet_cell_ok_cell_at s c hfs OK) in Habc.
  destruct (tt_make_explicit s c hfs abc a OK Habc Ha) as (i&B&C&D&ab&bc&ca&ad&bd&cd&db&dc&da&X&Y&Z&FR&E).
  eexists. split; [exact E|]. split; [|split; reflexivity].
  exact (rec_consistent s c hfs abc i a B C D ab bc ca ad bd cd db dc da X Y Z FR).
Qed.

Theorem tt_make_default_consistent s c : tet_cell_ok_b s c = true ->
  forall abc, In abc (cell_at s c) ->
  exists t, tt_make s c abc None = Some t /\ tt_consistent s c t = true /\
            tt_vh_l t VL_A = Some (he_from s (nth 0 (halfface s abc) 0)) /\ tt_hfh_l t HFL_ABC = Some abc.
Proof.
  intros H abc Habc. apply tet_cell_ok_b_spec in H. destruct H as (hfs&OK).
  rewrite (tet_cell_ok_cell_at s c hfs OK) in Habc.
  destruct (tet_frame_exists_default s c hfs OK abc Habc) as (A&B&C&D&ab&bc&ca&ad&bd&cd&db&dc&da&X&Y&Z&FR).
  pose proof (tt_make_frame s c hfs abc 0 A B C D ab bc ca ad bd cd db dc da X Y Z FR None eq_refl) as E.
  eexists. split; [exact E|]. split; [|split; [|reflexivity]].
  - exact (rec_consistent s c hfs abc 0 A B C D ab bc ca ad bd cd db dc da X Y Z FR).
  - destruct (rot3i_nth _ _ _ _ _ (fr_habc _ _ _ _ _ _ _ _ _ _ _ _ _ _ _ _ _ _ _ _ _ FR)) as (E0&_).
    rewrite E0. destruct (fr_ab _ _ _ _ _ _ _ _ _ _ _ _ _ _ _ _ _ _ _ _ _ FR) as [EA _]. rewrite EA. reflexivity.
Qed.

(* ------------------------------------------------------------------ the derived constructors *)

(* TetTopology(mesh, abc, a): the cell is the incident cell of abc *)
Theorem tt_make_hf_consistent s c : tet_cell_ok_b s c = true -> tet_cell_inc_b s c = true ->
  forall abc a, In abc (cell_at s c) -> In a (hf_vertices s abc) ->
  exists t, tt_make_hf s abc (Some a) = Some t /\ tt_consistent s c t = true /\
            tt_vh_l t VL_A = Some a /\ tt_hfh_l t HFL_ABC = Some abc.
Proof.
  intros H Hi abc a Habc Ha. unfold tt_make_hf, rd. rewrite (proj1 (tet_cell_inc_b_spec s c) Hi abc Habc). cbn [bind].
  exact (tt_make_consistent s c H abc a Habc Ha).
Qed.

Theorem tt_make_hf_default_consistent s c : tet_cell_ok_b s c = true -> tet_cell_inc_b s c = true ->
  forall abc, In abc (cell_at s c) ->
  exists t, tt_make_hf s abc None = Some t /\ tt_consistent s c t = true /\ tt_hfh_l t HFL_ABC = Some abc.
Proof.
  intros H Hi abc Habc. unfold tt_make_hf, rd. rewrite (proj1 (tet_cell_inc_b_spec s c) Hi abc Habc). cbn [bind].
  destruct (tt_make_default_consistent s c H abc Habc) as (t&E&K&_&F). exists t. auto.
Qed.

(* TetTopology(mesh, ch): the cell's first halfface, default start *)
Theorem tt_make_c_consistent s c : tet_cell_ok_b s c = true ->
  exists t, tt_make_c s c = Some t /\ tt_consistent s c t = true /\ tt_hfh_l t HFL_ABC = Some (nth 0 (cell_at s c) 0).
Proof.
  intros H. pose proof H as H'. apply tet_cell_ok_b_spec in H'. destruct H' as (hfs&OK).
  pose proof (tet_cell_ok_cell_at s c hfs OK) as Ec.
  destruct OK as [Hc Hl _ _ _ _ _]. unfold tt_make_c, rd. rewrite Hc. cbn [bind].
  destruct hfs as [|abc r]; [discriminate|]. cbn [nth_error bind].
  destruct (tt_make_default_consistent s c H abc) as (t&E&K&_&F); [rewrite Ec; left; reflexivity|].
  exists t. rewrite Ec. cbn [nth]. auto.
Qed.

(* TetTopology(mesh, ch, a): the first halfface of the cell that contains a *)
Theorem tt_make_c_v_consistent s c : tet_cell_ok_b s c = true ->
  forall a, In a (hfs_vertex_set s (cell_at s c)) ->
  exists t abc, tt_make_c_v s c a = Some t /\ tt_consistent s c t = true /\
                tt_vh_l t VL_A = Some a /\ tt_hfh_l t HFL_ABC = Some abc /\
                find (fun hf => memb a (hf_vertices s hf)) (cell_at s c) = Some abc.
Proof.
  intros H a Ha. pose proof H as H'. apply tet_cell_ok_b_spec in H'. destruct H' as (hfs&OK).
  pose proof (tet_cell_ok_cell_at s c hfs OK) as Ec. rewrite Ec in Ha |- *.
  apply hfs_vertex_set_In in Ha. destruct Ha as (hf&Hhf&Hv).
  destruct (find (fun hf => memb a (hf_vertices s hf)) hfs) as [abc|] eqn:F.
  - destruct (find_some _ _ F) as [Habc M]. apply memb_In in M.
    destruct (tt_make_consistent s c H abc a) as (t&E&K&VA&FA); [rewrite Ec; exact Habc | exact M|].
    exists t, abc. unfold tt_make_c_v, rd. rewrite (tco_cell s c hfs OK). cbn [bind]. rewrite F.
    split; [exact E|]. auto.
  - exfalso. pose proof (find_none _ _ F hf Hhf) as N. cbv beta in N. apply memb_In in Hv. congruence.
Qed.

(* ------------------------------------------------------------------ relation with the vertex-level tet_wf *)

(* the hypotheses in the form "tet_wf + closed loops + halfedge-level closure" *)
Theorem tt_make_consistent_wf s c hfs V : tet_wf s c hfs V ->
  (forall hf, In hf hfs -> loop_ok s (halfface s hf) = true) ->
  (forall hf h, In hf hfs -> In h (halfface s hf) -> exists hf', In hf' hfs /\ In (opp h) (halfface s hf')) ->
  forall abc a, In abc hfs -> In a (hf_vertices s abc) ->
  exists t, tt_make s c abc (Some a) = Some t /\ tt_consistent s c t = true /\
            tt_vh_l t VL_A = Some a /\ tt_hfh_l t HFL_ABC = Some abc.
Proof.
  intros WF Hloop Hcl abc a Habc Ha.
  pose proof (tet_wf_cell_ok s c hfs V WF Hloop Hcl) as OK.
  apply (tt_make_consistent s c); [apply tet_cell_ok_b_spec; exists hfs; exact OK | | exact Ha].
  rewrite (tet_cell_ok_cell_at s c hfs OK). exact Habc.
Qed.

(* a decidable form of tet_wf, to compute the witnesses below *)
Definition tet_wf_b (s : mesh) (c : nat) (hfs V : list nat) : bool :=
  match nth_error (cells s) c with
  | Some l => if list_eq_dec Nat.eq_dec l hfs then true else false
  | None => false
  end &&
  (length hfs =? 4) && nodup_b hfs && nodup_b V && (length V =? 4) &&
  forallb (fun hf => match nth_error (inc_cell s) hf with Some (Some c') => c' =? c | _ => false end &&
                     (length (hf_vertices s hf) =? 3) && nodup_b (hf_vertices s hf) && incl_b (hf_vertices s hf) V) hfs &&
  hfs_distinct_b s hfs.

Lemma tet_wf_b_sound s c hfs V : tet_wf_b s c hfs V = true -> tet_wf s c hfs V.
Proof.
  unfold tet_wf_b, tet_wf. intros H.
  repeat match goal with H : (_ && _) = true |- _ => apply andb_true_iff in H; destruct H end.
  split.
  { destruct (nth_error (cells s) c) as [l|]; [|discriminate]. destruct (list_eq_dec Nat.eq_dec l hfs); [congruence | discriminate]. }
  split; [apply Nat.eqb_eq; assumption|]. split; [apply nodup_b_spec; assumption|].
  split; [apply nodup_b_spec; assumption|]. split; [apply Nat.eqb_eq; assumption|].
  split; [|apply hfs_distinct_b_spec; assumption].
  intros hf Hhf.
  match goal with H : forallb _ hfs = true |- _ => pose proof (proj1 (forallb_forall _ _) H hf Hhf) as K end. cbv beta in K.
  repeat match goal with H : (_ && _) = true |- _ => apply andb_true_iff in H; destruct H end.
  split.
  { destruct (nth_error (inc_cell s) hf) as [[c'|]|]; try discriminate.
    match goal with H : (c' =? c) = true |- _ => apply Nat.eqb_eq in H; subst c' end. reflexivity. }
  split; [apply Nat.eqb_eq; assumption|]. split; [apply nodup_b_spec; assumption | apply incl_b_spec; assumption].
Qed.

Definition loops_b (s : mesh) (hfs : list nat) : bool := forallb (fun hf => loop_ok s (halfface s hf)) hfs.

(* every (halfface, start vertex) choice of the cell fails *)
Definition all_choices_fail (s : mesh) (c : nat) : bool :=
  forallb (fun hf => forallb (fun a => match tt_make s c hf (Some a) with
                                       | Some t => negb (tt_consistent s c t)
                                       | None => true end) (hf_vertices s hf)) (cell_at s c).

Lemma not_consistent_by_computation s c abc a :
  match tt_make s c abc (Some a) with Some t => negb (tt_consistent s c t) | None => true end = true ->
  ~ (exists t, tt_make s c abc (Some a) = Some t /\ tt_consistent s c t = true).
Proof.
  intros H (t&E&K). rewrite E in H. rewrite K in H. discriminate.
Qed.

(* ------------------------------------------------------------------ refutations without the extra hypotheses *)

(* (1) one face stored flipped: vertices 0..3, faces 0..3 on (0,1,2), (0,2,3), (0,3,1), (1,3,2); the cell is given the
   halffaces [0; 2; 4; 7], i.e. face 3 from the other side, by the unchecked add_cell.  Every halfface is a closed loop,
   the cell is tet_wf, but the halfedge 1->2 occurs twice and its opposite 2->1 in no halfface of the cell. *)
Definition flipped_tet_ops : list top :=
  [TK (AddVertices 4); TK (AddFaceV [0; 1; 2]); TK (AddFaceV [0; 2; 3]); TK (AddFaceV [0; 3; 1]); TK (AddFaceV [1; 3; 2]);
   TK (AddCell [0; 2; 4; 7] false)].
Definition flipped_tet : mesh := tet_run flipped_tet_ops.

Theorem tt_make_without_closure_refuted :
  exists s c hfs V abc a, tet_wf s c hfs V /\ (forall hf, In hf hfs -> loop_ok s (halfface s hf) = true) /\
    In abc hfs /\ In a (hf_vertices s abc) /\
    ~ (exists t, tt_make s c abc (Some a) = Some t /\ tt_consistent s c t = true).
Proof.
  exists flipped_tet, 0, [0; 2; 4; 7], [0; 1; 2; 3], 0, 0.
  split; [apply tet_wf_b_sound; vm_compute; reflexivity|].
  split; [apply (proj1 (forallb_forall _ _)); change (loops_b flipped_tet [0; 2; 4; 7] = true); vm_compute; reflexivity|].
  split; [left; reflexivity|]. split; [vm_compute; auto|].
  apply not_consistent_by_computation. vm_compute. reflexivity.
Qed.

(* what exactly goes wrong: the side halfface across ab is not found, ad() stays invalid (-1, read as halfedge 1) *)
Example flipped_tet_result :
  tt_make flipped_tet 0 0 (Some 0) =
    Some {| tt_vh := [Some 0; Some 1; Some 2; Some 3];
            tt_heh := [Some 0; Some 2; Some 4; Some 6; Some 9; None];
            tt_hfh := [None; Some 2; Some 4; Some 0] |} /\
  all_choices_fail flipped_tet 0 = true /\ cell_closed_b flipped_tet [0; 2; 4; 7] = false.
Proof. vm_compute. repeat split. Qed.

(* (2) a duplicate edge: the face on (0,3,1) is built on a SECOND edge 1->0 (add_edge(1, 0, allow_duplicates = true),
   edge 6, halfedge 12); all four faces are closed loops in the right orientation, the cell is tet_wf, but the halfedge
   opposite to ab = 0->1 (halfedge 1) is in no halfface of the cell. *)
Definition dup_edge_tet_ops : list top :=
  [TK (AddVertices 4); TK (AddFaceV [0; 1; 2]); TK (AddFaceV [0; 2; 3]); TK (AddFaceV [1; 3; 2]); TK (AddEdge 1 0 true);
   TK (AddFace [9; 11; 12] false); TK (AddCell [0; 2; 4; 6] false)].
Definition dup_edge_tet : mesh := tet_run dup_edge_tet_ops.

Theorem tt_make_without_closure_dup_refuted :
  exists s c hfs V abc a, tet_wf s c hfs V /\ (forall hf, In hf hfs -> loop_ok s (halfface s hf) = true) /\
    In abc hfs /\ In a (hf_vertices s abc) /\
    ~ (exists t, tt_make s c abc (Some a) = Some t /\ tt_consistent s c t = true).
Proof.
  exists dup_edge_tet, 0, [0; 2; 4; 6], [0; 1; 2; 3], 0, 0.
  split; [apply tet_wf_b_sound; vm_compute; reflexivity|].
  split; [apply (proj1 (forallb_forall _ _)); change (loops_b dup_edge_tet [0; 2; 4; 6] = true); vm_compute; reflexivity|].
  split; [left; reflexivity|]. split; [vm_compute; auto|].
  apply not_consistent_by_computation. vm_compute. reflexivity.
Qed.

Example dup_edge_tet_result :
  tt_make dup_edge_tet 0 0 (Some 0) =
    Some {| tt_vh := [Some 0; Some 1; Some 2; Some 0];
            tt_heh := [Some 0; Some 2; Some 4; Some 6; None; Some 10];
            tt_hfh := [Some 4; Some 2; None; Some 0] |} /\
  edges dup_edge_tet = [(0, 1); (1, 2); (2, 0); (2, 3); (3, 0); (1, 3); (1, 0)] /\
  cell_closed_b dup_edge_tet [0; 2; 4; 6] = false.
Proof. vm_compute. repeat split. Qed.

(* (3) a face whose halfedges are listed out of order: face 4 = [0->1; 2->0; 1->2] (unchecked add_face); its
   from-vertices are three distinct vertices, so the cell [8; 2; 4; 6] is tet_wf, and it is closed at the halfedge level
   (the same twelve halfedges as the proper tetrahedron), but halfface 8 is not a loop. *)
Definition unordered_face_tet_ops : list top :=
  [TK (AddVertices 4); TK (AddFaceV [0; 1; 2]); TK (AddFaceV [0; 2; 3]); TK (AddFaceV [0; 3; 1]); TK (AddFaceV [1; 3; 2]);
   TK (AddFace [0; 4; 2] false); TK (AddCell [8; 2; 4; 6] false)].
Definition unordered_face_tet : mesh := tet_run unordered_face_tet_ops.

Theorem tt_make_without_loops_refuted :
  exists s c hfs V abc a, tet_wf s c hfs V /\
    (forall hf h, In hf hfs -> In h (halfface s hf) -> exists hf', In hf' hfs /\ In (opp h) (halfface s hf')) /\
    In abc hfs /\ In a (hf_vertices s abc) /\
    ~ (exists t, tt_make s c abc (Some a) = Some t /\ tt_consistent s c t = true).
Proof.
  exists unordered_face_tet, 0, [8; 2; 4; 6], [0; 1; 2; 3], 8, 0.
  split; [apply tet_wf_b_sound; vm_compute; reflexivity|].
  split; [apply cell_closed_b_spec; vm_compute; reflexivity|].
  split; [left; reflexivity|]. split; [vm_compute; auto|].
  apply not_consistent_by_computation. vm_compute. reflexivity.
Qed.

Example unordered_face_tet_result :
  tt_make unordered_face_tet 0 8 (Some 0) =
    Some {| tt_vh := [Some 0; Some 2; Some 1; Some 3];
            tt_heh := [Some 0; Some 4; Some 2; Some 11; Some 9; Some 6];
            tt_hfh := [Some 2; Some 6; Some 4; Some 8] |} /\
  all_choices_fail unordered_face_tet 0 = true /\ loops_b unordered_face_tet [8; 2; 4; 6] = false.
Proof. vm_compute. repeat split. Qed.

(* the predicate rejects the three witnesses, each in exactly one conjunct: [length; NoDup; closed triangles; four
   vertices; distinct vertex sets; halfedge-level closure] *)
Definition ok_parts (s : mesh) (c : nat) : list bool :=
  match nth_error (cells s) c with
  | None => []
  | Some hfs => [length hfs =? 4; nodup_b hfs; forallb (tri_ok_b s) hfs; length (hfs_vertex_set s hfs) =? 4;
                 hfs_distinct_b s hfs; cell_closed_b s hfs]
  end.

Example witnesses_rejected :
  tet_cell_ok_b flipped_tet 0 = false /\ tet_cell_ok_b dup_edge_tet 0 = false /\ tet_cell_ok_b unordered_face_tet 0 = false /\
  ok_parts flipped_tet 0 = [true; true; true; true; true; false] /\
  ok_parts dup_edge_tet 0 = [true; true; true; true; true; false] /\
  ok_parts unordered_face_tet 0 = [true; true; false; true; true; true].
Proof. vm_compute. repeat split. Qed.

(* ------------------------------------------------------------------ non-vacuity: the hypotheses hold on glued tetrahedra *)

Definition all_cells_ok (s : mesh) : bool := forallb (fun c => tet_cell_ok_b s c && tet_cell_inc_b s c) (live_cells s).

(* tt_mesh_2: the second tetrahedron (cell 1 = [0; 8; 10; 12]) finds the shared face 0 stored by the first one, in another
   rotation than the one it asks for; tt_mesh_fan: four tetrahedra around the edge 0-1, built by add_cell(vertices) with
   and without the check and by add_cell(v0, v1, v2, v3) *)
Example tet_cell_ok_on_glued_tets :
  tet_cell_ok_b tt_mesh_1 0 = true /\
  tet_cell_ok_b tt_mesh_2 0 = true /\ tet_cell_ok_b tt_mesh_2 1 = true /\ tet_cell_inc_b tt_mesh_2 1 = true /\
  cell_at tt_mesh_2 1 = [0; 8; 10; 12] /\ halfface tt_mesh_2 0 = [0; 2; 4] /\ hf_vertices tt_mesh_2 0 = [3; 2; 1] /\
  all_cells_ok tt_mesh_fan = true /\ length (live_cells tt_mesh_fan) = 4.
Proof. vm_compute. repeat split. Qed.

(* the main theorem applied: second tetrahedron of tt_mesh_2, shared halfface 0, start vertex 1 (its LAST halfedge) *)
Example tt_make_consistent_applies :
  exists t, tt_make tt_mesh_2 1 0 (Some 1) = Some t /\ tt_consistent tt_mesh_2 1 t = true /\
            tt_vh_l t VL_A = Some 1 /\ tt_hfh_l t HFL_ABC = Some 0.
Proof.
  apply tt_make_consistent; [vm_compute; reflexivity | vm_compute; auto | vm_compute; auto].
Qed.

Example tt_make_c_v_consistent_applies :
  exists t abc, tt_make_c_v tt_mesh_fan 2 5 = Some t /\ tt_consistent tt_mesh_fan 2 t = true /\
                tt_vh_l t VL_A = Some 5 /\ tt_hfh_l t HFL_ABC = Some abc /\
                find (fun hf => memb 5 (hf_vertices tt_mesh_fan hf)) (cell_at tt_mesh_fan 2) = Some abc.
Proof.
  apply tt_make_c_v_consistent; [vm_compute; reflexivity | vm_compute; auto 6].
Qed.

(* every cell accepted by the CHECKED add_cell(halffaces) is closed at the halfedge level (cell_check_closed), and the
   cells built by add_cell(vertices) / add_cell(v0..v3) in the examples satisfy the whole predicate (above). *)
Theorem checked_add_cell_closed s hfs s' c : add_cell s hfs true = (s', Some c) -> cell_closed_b s hfs = true.
Proof.
  unfold add_cell. cbn [andb]. destruct (cell_check s hfs) eqn:E; cbn [negb]; [|discriminate].
  intros _. exact (cell_check_closed s hfs E).
Qed.

(* ------------------------------------------------------------------ the decided statement of TetTopoProofs.v, for every state *)

(* [all_tt_consistent s] (all 12 (halfface, start vertex) choices and the default start, for every live cell) was decided
   on three concrete meshes; it holds for EVERY state all of whose live cells satisfy the predicate *)
Theorem all_tt_consistent_of_ok s :
  forallb (tet_cell_ok_b s) (live_cells s) = true -> all_tt_consistent s = true.
Proof.
  intros H. unfold all_tt_consistent. apply forallb_forall. intros c Hc.
  pose proof (proj1 (forallb_forall _ _) H c Hc) as OK. cbv beta in OK.
  apply forallb_forall. intros hf Hhf. apply andb_true_iff. split.
  - apply forallb_forall. intros a Ha.
    destruct (tt_make_consistent s c OK hf a Hhf Ha) as (t&E&K&VA&FA). rewrite E, K, VA, FA. cbn [oeqb andb].
    rewrite !Nat.eqb_refl. reflexivity.
  - destruct (tt_make_default_consistent s c OK hf Hhf) as (t&E&K&_&_). rewrite E. exact K.
Qed.

Example all_tt_consistent_of_ok_applies :
  forallb (tet_cell_ok_b tt_mesh_fan) (live_cells tt_mesh_fan) = true /\ live_cells tt_mesh_fan = [0; 1; 2; 3].
Proof. vm_compute. split; reflexivity. Qed.

Print Assumptions all_tt_consistent_of_ok.
Print Assumptions tt_make_explicit.
Print Assumptions tt_make_consistent.
Print Assumptions tt_make_default_consistent.
Print Assumptions tt_make_hf_consistent.
Print Assumptions tt_make_hf_default_consistent.
Print Assumptions tt_make_c_consistent.
Print Assumptions tt_make_c_v_consistent.
Print Assumptions tt_make_consistent_wf.
Print Assumptions tt_make_without_closure_refuted.
Print Assumptions tt_make_without_closure_dup_refuted.
Print Assumptions tt_make_without_loops_refuted.
Print Assumptions tet_cell_ok_b_spec.
Print Assumptions tet_wf_cell_ok.
Print Assumptions tet_cell_ok_wf.
