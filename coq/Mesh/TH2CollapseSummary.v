(* Mesh/TH2CollapseSummary.v -- C15, collapse_edge: the sets of the collapse theorems read through the stored definitions
   (under collapse_ready): the star of a = the live cells with a as a vertex of one of their halffaces; the rebuilt cells =
   the cells of the star no halfface of which contains the halfedge a->b, in ascending order. *)
From Coq Require Import ZArith Lia Bool Arith List.
From OVM Require Import Base.ListX Base.ListLemmas Kernel.State Kernel.Ops Kernel.Closure Kernel2.ExactBase
                        Mesh.TetModel Mesh.TetProofs Mesh.TH2CollapseBase Mesh.TH2CollapseLoop Mesh.TH2CollapseFold Mesh.TH2CollapseStar
                        Mesh.TH2CollapseMain.
Import ListNotations.
Local Open Scope nat_scope.

Theorem star_is_vertex_incidence s heh : collapse_ready s heh -> forall c,
  In c (star s (he_from s heh)) <->
  c < nc s /\ c_deleted s c = false /\ exists hf, In hf (cell_at s c) /\ In (he_from s heh) (hf_vertices s hf).
Proof. intros R c. exact (In_star_vertices _ _ s (Hab_ s heh R) (L0_ s heh R) c). Qed.

Theorem rebuilt_cells_brute_force s heh : collapse_ready s heh ->
  strictly_sorted (rebuilt_cells s heh) /\
  forall c, In c (rebuilt_cells s heh) <->
    In c (star s (he_from s heh)) /\ ~ (exists hf, In hf (cell_at s c) /\ In heh (halfface s hf)).
Proof.
  intros R. rewrite (rebuilt_cells_is_filter _ _ s (Hab_ s heh R) (L0_ s heh R) (Ha_ s heh R) heh eq_refl). split.
  - apply strictly_sorted_filter. unfold star, cells_at_faces. apply strictly_sorted_filter, sorted_live_cells.
  - intros c. rewrite filter_In, negb_true_iff. destruct R as (B & Z & V & K & FLo & FL & Rh & Dh & N & OK).
    pose proof (ready_L1 s heh (conj B (conj Z (conj V (conj K (conj FLo (conj FL (conj Rh (conj Dh (conj N OK)))))))))) as L.
    split.
    + intros [S M]. split; [exact S|]. intros (hf & H1 & H2). destruct (star_facts s heh c S) as [Hc Dc].
      assert (In c (collapsing_cells s heh)) as X by (apply (In_collapsing_cells _ _ s L heh c Rh); split; [exact Hc|]; split; [exact Dc|]; exists hf; split; assumption).
      apply memb_In in X. congruence.
    + intros [S NE]. split; [exact S|]. destruct (memb c (collapsing_cells s heh)) eqn:M; [|reflexivity]. exfalso. apply NE.
      apply memb_In in M. apply (In_collapsing_cells _ _ s L heh c Rh) in M. destruct M as (_ & _ & hf & H1 & H2). exists hf. split; assumption.
Qed.
