(* Mesh/TH2HexLayout.v -- the documented layout (HexModel.hex_layout) of a well-formed ordered hex cell: halffaces
   2k / 2k+1 share no vertex, and the neighbours of the first halfface along its halfedges are the list positions
   2, 4, 3, 5 up to rotation.  Proofs only. *)
From Coq Require Import ZArith Lia Bool Arith List ZifyNat ZifyBool Permutation.
From OVM Require Import Base.ListX Base.ListLemmas Kernel.State Kernel.Ops Kernel.Mirror Kernel2.LookupModel Kernel2.ListAux
                        Kernel2.AdjacentProofs Mesh.TetModel Mesh.HexModel Mesh.HexIterModel Mesh.TetProofs Mesh.HexProofs
                        Mesh.TH2HexBase Mesh.TH2HexAdj Mesh.TH2HexOrd Mesh.TH2HexFrame Mesh.TH2HexSides.
Import ListNotations.
Ltac Zify.zify_post_hook ::= Z.div_mod_to_equations.
Local Open Scope nat_scope.

Lemma olist_eqb_refl (r : list nat) : olist_eqb (map Some r) r = true.
Proof.
  unfold olist_eqb. rewrite map_length, Nat.eqb_refl. cbn [andb].
  induction r as [|x r IH]; [reflexivity|]. cbn [map combine forallb fst snd]. rewrite Nat.eqb_refl. exact IH.
Qed.

Section Layout.
  Variables (s : mesh) (c e0 e1 e2 e3 g0 g1 g2 g3 a0 a1 a2 a3 : nat).
  Hypothesis Hshape : hex_shape s.
  Hypothesis Hc : c < nc s.
  Hypothesis Hwf : hex_cell_wf s c.
  Hypothesis Hfr : hex_frame s c e0 e1 e2 e3 g0 g1 g2 g3 a0 a1 a2 a3.

  Let l := cell_at s c.
  Let h0 := hx l 0.
  Let h1 := hx l 1.

  Ltac sd L := eapply L; eassumption.

  (* ---- x-front / x-back *)
  Theorem layout_x : disjointb (hf_vertices s h0) (hf_vertices s h1) = true.
  Proof. apply disjointb_spec. intros v H0 H1. exact (sd_UW s c Hwf v H0 H1). Qed.

  (* ---- two sides whose top edges and bottom edges have no end point in common *)
  Lemma side_disj A e g A' e' g' : is_side s c A e g -> is_side s c A' e' g' ->
    (forall x y, In x [he_to s e; he_from s e; he_to s g; he_from s g] ->
                 In y [he_to s e'; he_from s e'; he_to s g'; he_from s g'] -> x <> y) ->
    disjointb (hf_vertices s A) (hf_vertices s A') = true.
  Proof.
    intros (HA&He&Hg&Oe&Og&_) (HA'&He'&Hg'&Oe'&Og'&_) Hne. apply disjointb_spec. intros v Hv Hv'.
    pose proof (sd_side_vertices s c Hshape Hc Hwf A e g v HA He Hg Oe Og Hv) as V.
    pose proof (sd_side_vertices s c Hshape Hc Hwf A' e' g' v HA' He' Hg' Oe' Og' Hv') as V'.
    apply (Hne v v); [cbn [In] | cbn [In] | reflexivity].
    - destruct V as [V|[V|[V|V]]]; symmetry in V; tauto.
    - destruct V' as [V'|[V'|[V'|V']]]; symmetry in V'; tauto.
  Qed.

  Lemma corners_neq :
    let u0 := he_from s e0 in let u1 := he_from s e1 in let u2 := he_from s e2 in let u3 := he_from s e3 in
    let w0 := he_from s g0 in let w1 := he_from s g1 in let w2 := he_from s g2 in let w3 := he_from s g3 in
    (forall x y, In x [u1; u0; w1; w0] -> In y [u3; u2; w3; w2] -> x <> y) /\
    (forall x y, In x [u2; u1; w0; w3] -> In y [u0; u3; w2; w1] -> x <> y).
  Proof.
    cbv zeta.
    assert (ND : NoDup [he_from s e0; he_from s e1; he_from s e2; he_from s e3; he_from s g0; he_from s g1; he_from s g2; he_from s g3])
      by (sd sd_corners_nodup).
    apply nodup8_neq in ND.
    destruct ND as ((n01&n02&n03&n04&n05&n06&n07)&(n12&n13&n14&n15&n16&n17)&(n23&n24&n25&n26&n27)&(n34&n35&n36&n37)&
                    (n45&n46&n47)&(n56&n57)&n67).
    split; intros x y Hx Hy; cbn [In] in Hx, Hy;
      destruct Hx as [<-|[<-|[<-|[<-|[]]]]]; destruct Hy as [<-|[<-|[<-|[<-|[]]]]]; congruence.
  Qed.

  Theorem sides_disjoint :
    disjointb (hf_vertices s a0) (hf_vertices s a2) = true /\ disjointb (hf_vertices s a1) (hf_vertices s a3) = true.
  Proof.
    assert (TL : he_to s e0 = he_from s e1 /\ he_to s e1 = he_from s e2 /\ he_to s e2 = he_from s e3 /\ he_to s e3 = he_from s e0)
      by (sd sd_top_loop).
    assert (BL : he_to s g0 = he_from s g1 /\ he_to s g1 = he_from s g2 /\ he_to s g2 = he_from s g3 /\ he_to s g3 = he_from s g0)
      by (sd sd_bot_loop).
    destruct TL as (T0&T1&T2&T3). destruct BL as (B0&B1&B2&B3).
    assert (S0 : is_side s c a0 e0 g0) by (sd sd_side0). assert (S1 : is_side s c a1 e1 g3) by (sd sd_side1).
    assert (S2 : is_side s c a2 e2 g2) by (sd sd_side2). assert (S3 : is_side s c a3 e3 g1) by (sd sd_side3).
    destruct corners_neq as [C02 C13]. split.
    - apply (side_disj a0 e0 g0 a2 e2 g2 S0 S2). rewrite T0, B0, T2, B2. exact C02.
    - apply (side_disj a1 e1 g3 a3 e3 g1 S1 S3). rewrite T1, B3, T3, B1. exact C13.
  Qed.

  (* ---- y-front / y-back and z-front / z-back *)
  Theorem layout_yz :
    disjointb (hf_vertices s (hx l 2)) (hf_vertices s (hx l 3)) = true /\
    disjointb (hf_vertices s (hx l 4)) (hf_vertices s (hx l 5)) = true.
  Proof.
    destruct sides_disjoint as [D02 D13].
    pose proof (disjointb_sym _ _ D02) as D20. pose proof (disjointb_sym _ _ D13) as D31.
    destruct (proj1 (proj2 (proj2 (proj2 (proj2 Hfr))))) as (k&Hk&E). fold l in E.
    destruct k as [|[|[|[|k]]]]; [| | | | exfalso; lia]; cbn [Nat.iter nat_rect rot1n app] in E;
      injection E as E0 E1 E2 E3; rewrite E0, E1, E2, E3 in *; split; assumption.
  Qed.

  (* ---- the neighbours of the first halfface *)
  Theorem layout_neighbours :
    map (unique_neighbour s l h0) (halfface s h0) = [Some a0; Some a1; Some a2; Some a3].
  Proof.
    assert (Htop : halfface s h0 = [e0; e1; e2; e3]) by (sd sd_top).
    assert (AT : adjacent_halfface_in_cell s h0 e0 = Some a0 /\ adjacent_halfface_in_cell s h0 e1 = Some a1 /\
                 adjacent_halfface_in_cell s h0 e2 = Some a2 /\ adjacent_halfface_in_cell s h0 e3 = Some a3) by (sd sd_adj_top).
    destruct AT as (A0&A1&A2&A3).
    assert (I0 : In h0 l) by (sd sd_in0).
    pose proof (proj1 (proj2 (proj2 (proj2 (proj2 (proj2 Hfr)))))) as NO. fold l h0 in NO.
    assert (U : forall e a, In e [e0; e1; e2; e3] -> adjacent_halfface_in_cell s h0 e = Some a -> unique_neighbour s l h0 e = Some a).
    { intros e a He Ha. apply (unique_neighbour_nbr s c h0 e a (proj1 Hwf) I0 NO); [rewrite Htop; exact He | exact Ha]. }
    rewrite Htop. cbn [map].
    rewrite (U e0 a0), (U e1 a1), (U e2 a2), (U e3 a3); try assumption; try reflexivity; cbn [In]; auto 6.
  Qed.

  Theorem cube_layout : hex_layout s l = true.
  Proof.
    unfold hex_layout. apply andb_true_iff. split; [apply andb_true_iff; split|].
    - apply Nat.eqb_eq. sd sd_len.
    - destruct layout_yz as [Dy Dz]. pose proof layout_x as Dx.
      cbn [forallb Nat.mul Nat.add]. fold h0 h1. rewrite Dx, Dy, Dz. reflexivity.
    - cbv zeta. fold h0. rewrite layout_neighbours.
      destruct (proj1 (proj2 (proj2 (proj2 (proj2 Hfr))))) as (k&Hk&E). fold l in E.
      apply existsb_exists. exists k. split.
      + assert (Ck : k = 0 \/ k = 1 \/ k = 2 \/ k = 3) by lia. cbn [In]. lia.
      + rewrite <- E. exact (olist_eqb_refl [a0; a1; a2; a3]).
  Qed.
End Layout.
