(* Mesh/TH2HexWf.v -- C16, after the fixes e0de5bf (eight distinct vertices) and de91a3d (vertex-disjoint top and bottom):
   a stored cell that passes cell_check and check_halfface_ordering, whose six halffaces are different, whose faces are quads
   that are closed loops on FOUR DISTINCT vertices, and whose halffaces the halfface -> cell cache sends to the cell, is well
   formed (hex_cell_wf_b) - hence every cell accepted by the topology-checked add_cell on such faces is, and the cube pattern
   of hex_vertices / the layout / vertex-disjoint opposite faces hold for it.  "Four distinct vertices" cannot be weakened to
   "closed loop": a top quad on the vertex cycle (0,1,0,2) over a duplicate edge is accepted (replay build/th2/hex9.scripts). *)
From Coq Require Import ZArith Lia Bool Arith List ZifyNat ZifyBool.
From OVM Require Import Base.ListX Base.ListLemmas Base.ListLemmas2 Kernel.State Kernel.Ops Kernel.Mirror Kernel.Recompute Kernel.CellCheck
                        Kernel2.ListAux Kernel2.LookupModel Kernel2.AdjacentProofs Kernel2.ExactBase Kernel2.ExactAddCell
                        Mesh.TetModel Mesh.TetProofs Mesh.HexModel Mesh.HexIterModel Mesh.HexProofs
                        Mesh.TH2CollapseFold Mesh.TH2HexBase Mesh.TH2HexAdj Mesh.TH2HexOrd Mesh.TH2HexFrame Mesh.TH2HexMain
                        Mesh.TH2HexChecked Mesh.TH2HexEight.
Import ListNotations.
Ltac Zify.zify_post_hook ::= Z.div_mod_to_equations.
Local Open Scope nat_scope.

(* an element of a duplicate-free concatenation lies in one block only *)
Lemma concat_block_unique {A} (f : A -> list nat) : forall l a b x, NoDup (concat (map f l)) -> NoDup l ->
  In a l -> In b l -> In x (f a) -> In x (f b) -> a = b.
Proof.
  induction l as [|y t IH]; intros a b x ND NL Ha Hb Xa Xb; [destruct Ha|].
  cbn [map concat] in ND. destruct (NoDup_app_parts _ _ ND) as (N1 & N2 & DJ). inversion NL as [|? ? Ny Nt]; subst.
  assert (T : forall z, In z t -> In x (f z) -> In x (concat (map f t))).
  { intros z Hz Xz. apply in_concat. exists (f z). split; [apply in_map; exact Hz | exact Xz]. }
  destruct Ha as [<-|Ha], Hb as [<-|Hb]; [reflexivity | exfalso; exact (DJ x Xa (T b Hb Xb)) | exfalso; exact (DJ x Xb (T a Ha Xa)) |].
  exact (IH a b x N2 Nt Ha Hb Xa Xb).
Qed.

(* a quad that is a closed loop on four distinct vertices: its halfedges are different and it contains no halfedge together
   with its opposite *)
Lemma quad_simple s e0 e1 e2 e3 : loop_ok s [e0; e1; e2; e3] = true -> NoDup (map (he_from s) [e0; e1; e2; e3]) ->
  NoDup [e0; e1; e2; e3] /\ forall h, In h [e0; e1; e2; e3] -> ~ In (opp h) [e0; e1; e2; e3].
Proof.
  intros L ND. apply loop4 in L. destruct L as (l0 & l1 & l2 & l3). split.
  - apply (NoDup_map_inv (he_from s)). exact ND.
  - cbn [map] in ND. apply nodup4_neq in ND. destruct ND as (n01 & n02 & n03 & n12 & n13 & n23).
    intros h Hh Ho.
    assert (Q : forall g, In g [e0; e1; e2; e3] -> In (opp g) [e0; e1; e2; e3] -> False).
    { intros g Hg Hog. pose proof (he_from_opp s g) as A1. pose proof (he_to_opp s g) as A2. pose proof (opp_neq g) as A3.
      destruct Hg as [<-|[<-|[<-|[<-|[]]]]]; destruct Hog as [E|[E|[E|[E|[]]]]]; try (symmetry in E; contradiction); rewrite <- E in *; congruence. }
    exact (Q h Hh Ho).
Qed.

Section Wf.
  Variables (s : mesh) (c x0 x1 x2 x3 x4 x5 : nat).
  Let l := [x0; x1; x2; x3; x4; x5].
  Hypothesis Hl : cell_at s c = l.
  Hypothesis ND : NoDup l.
  Hypothesis MO : matched_once (concat (map (halfface s) l)).
  Hypothesis L4 : forall h, In h l -> length (halfface s h) = 4.
  Hypothesis LO : forall h, In h l -> loop_ok s (halfface s h) = true.
  Hypothesis QV : forall h, In h l -> NoDup (hf_vertices s h).
  Hypothesis ORD : check_halfface_ordering s l = true.

  Lemma wf_four h : In h l -> exists e0 e1 e2 e3, halfface s h = [e0; e1; e2; e3].
  Proof.
    intros H. specialize (L4 h H). destruct (halfface s h) as [|e0 [|e1 [|e2 [|e3 [|]]]]]; try discriminate. exists e0, e1, e2, e3. reflexivity.
  Qed.

  Lemma wf_simple h : In h l -> NoDup (halfface s h) /\ forall e, In e (halfface s h) -> ~ In (opp e) (halfface s h).
  Proof.
    intros H. destruct (wf_four h H) as (e0 & e1 & e2 & e3 & E). pose proof (LO h H) as Lp. pose proof (QV h H) as Q.
    unfold hf_vertices in Q. rewrite E in *. exact (quad_simple s e0 e1 e2 e3 Lp Q).
  Qed.

  Lemma wf_unique a b e : In a l -> In b l -> In e (halfface s a) -> In e (halfface s b) -> a = b.
  Proof. intros Ha Hb Ea Eb. exact (concat_block_unique (halfface s) l a b e (proj1 MO) ND Ha Hb Ea Eb). Qed.

  (* the neighbour across a halfedge: the one other halfface of the cell with the opposite halfedge *)
  Lemma wf_nbr h e : In h l -> In e (halfface s h) ->
    exists y, In y l /\ y <> h /\ In (opp e) (halfface s y) /\ get_adjacent_halfface s (Some h) (Some e) l = Some y.
  Proof.
    intros Hh He.
    assert (IC : In (opp e) (concat (map (halfface s) l))).
    { apply (proj2 MO). apply in_concat. exists (halfface s h). split; [apply in_map; exact Hh | exact He]. }
    apply in_concat in IC. destruct IC as (blk & Hb & Ho). apply in_map_iff in Hb. destruct Hb as (y & <- & Hy).
    assert (Nyh : y <> h) by (intros ->; exact (proj2 (wf_simple h Hh) e He Ho)).
    destruct (get_adj_exists s h e l y Hy Nyh Ho) as (z & G). destruct (get_adj_some s h e l z G) as (Hz & _ & Oz).
    assert (z = y) by exact (wf_unique z y (opp e) Hz Hy Oz Ho). subst z.
    exists y. auto.
  Qed.

  Lemma wf_in i : i < 6 -> In (hx l i) l.
  Proof. intros H. unfold hx. apply nth_In. exact H. Qed.

  Lemma wf_ord : ord_pass s l x0 order_top order_top = true /\ ord_pass s l x1 order_bot order_bot = true /\
                 (forall v, In v (hf_vertices s x1) -> ~ In v (hf_vertices s x0)).
  Proof.
    unfold check_halfface_ordering in ORD. apply andb_true_iff in ORD. destruct ORD as [O D]. apply andb_true_iff in O. destruct O as [Ot Ob].
    split; [exact Ot|]. split; [exact Ob|]. apply disjointb_spec. exact D.
  Qed.

  (* a halfedge of the top is not matched by the bottom, and vice versa: they would share a vertex *)
  Lemma wf_top_bot_apart e : In e (halfface s x0) -> ~ In (opp e) (halfface s x1).
  Proof.
    intros He Ho. destruct wf_ord as (_ & _ & DJ). apply (DJ (he_from s (opp e))).
    - unfold hf_vertices. apply in_map. exact Ho.
    - rewrite he_from_opp. (* to-vertex of e = from-vertex of the next halfedge of the loop *)
      destruct (wf_four x0 (wf_in 0 ltac:(lia))) as (e0 & e1 & e2 & e3 & E). pose proof (LO x0 (wf_in 0 ltac:(lia))) as Lp.
      unfold hf_vertices. rewrite E in *. apply loop4 in Lp. destruct Lp as (l0 & l1 & l2 & l3). cbn [map In] in *.
      destruct He as [<-|[<-|[<-|[<-|[]]]]]; rewrite ?l0, ?l1, ?l2, ?l3; tauto.
  Qed.

  Lemma wf_bot_top_apart e : In e (halfface s x1) -> ~ In (opp e) (halfface s x0).
  Proof.
    intros He Ho. apply (wf_top_bot_apart (opp e) Ho). rewrite opp_involutive. exact He.
  Qed.

  Lemma side_of y : In y l -> y <> x0 -> y <> x1 -> exists i, In i [2; 3; 4; 5] /\ hx l i = y.
  Proof.
    intros [<-|[<-|[<-|[<-|[<-|[<-|[]]]]]]] N0 N1; try contradiction.
    - exists 2. split; [cbn; tauto | reflexivity].
    - exists 3. split; [cbn; tauto | reflexivity].
    - exists 4. split; [cbn; tauto | reflexivity].
    - exists 5. split; [cbn; tauto | reflexivity].
  Qed.

  (* the four neighbours of the top are the four sides, in the cyclic order 2,4,3,5; of the bottom: 3,4,2,5 *)
  Lemma wf_walk h other order : (h = x0 /\ other = x1 /\ order = order_top) \/ (h = x1 /\ other = x0 /\ order = order_bot) ->
    exists e0 e1 e2 e3 a0 a1 a2 a3 k, halfface s h = [e0; e1; e2; e3] /\ k < 4 /\
      In (opp e0) (halfface s a0) /\ In (opp e1) (halfface s a1) /\ In (opp e2) (halfface s a2) /\ In (opp e3) (halfface s a3) /\
      a0 = hx l (nth k order 0) /\ a1 = hx l (nth ((k + 1) mod 4) order 0) /\
      a2 = hx l (nth ((k + 2) mod 4) order 0) /\ a3 = hx l (nth ((k + 3) mod 4) order 0).
  Proof.
    intros C.
    assert (Hh : In h l) by (destruct C as [(-> & _)|(-> & _)]; [exact (wf_in 0 ltac:(lia)) | exact (wf_in 1 ltac:(lia))]).
    assert (AP : forall e, In e (halfface s h) -> ~ In (opp e) (halfface s other)).
    { destruct C as [(-> & -> & _)|(-> & -> & _)]; [exact wf_top_bot_apart | exact wf_bot_top_apart]. }
    assert (OP : ord_pass s l h order order = true) by (destruct wf_ord as (a & b & _); destruct C as [(-> & _ & ->)|(-> & _ & ->)]; assumption).
    assert (H01 : (h = x0 \/ h = x1) /\ (other = x0 \/ other = x1) /\ h <> other).
    { inversion ND as [|? ? N0 _]; subst. destruct C as [(-> & -> & _)|(-> & -> & _)]; (split; [tauto|split; [tauto|]]); intros E; apply N0; rewrite E; cbn; tauto. }
    assert (ORDER : forall i, In i order <-> In i [2; 3; 4; 5]) by (destruct C as [(_ & _ & ->)|(_ & _ & ->)]; intros i; cbn; tauto).
    destruct (wf_four h Hh) as (e0 & e1 & e2 & e3 & E).
    assert (NB : forall e, In e (halfface s h) -> exists y, In (opp e) (halfface s y) /\ get_adjacent_halfface s (Some h) (Some e) l = Some y /\
                                                         exists i, In i order /\ hx l i = y).
    { intros e He. destruct (wf_nbr h e Hh He) as (y & Hy & Nyh & Oy & G). exists y. split; [exact Oy|]. split; [exact G|].
      assert (Nyo : y <> other) by (intros ->; exact (AP e He Oy)).
      destruct (side_of y Hy) as (i & Hi & Ei); [destruct H01 as ([->| ->] & [->| ->] & N); congruence .. |].
      exists i. split; [apply ORDER; exact Hi | exact Ei]. }
    rewrite E in NB.
    destruct (NB e0 ltac:(cbn; tauto)) as (a0 & O0 & G0 & R0). destruct (NB e1 ltac:(cbn; tauto)) as (a1 & O1 & G1 & _).
    destruct (NB e2 ltac:(cbn; tauto)) as (a2 & O2 & G2 & _). destruct (NB e3 ltac:(cbn; tauto)) as (a3 & O3 & G3 & _).
    destruct (ord_pass_quad s l h order e0 e1 e2 e3 a0 a1 a2 a3 E G0 G1 G2 G3 R0 OP) as (k & Hk & E0 & E1 & E2 & E3).
    exists e0, e1, e2, e3, a0, a1, a2, a3, k. split; [exact E|]. split; [destruct C as [(_ & _ & ->)|(_ & _ & ->)]; exact Hk|]. auto 10.
  Qed.

  (* positions: different positions of the duplicate-free list hold different halffaces *)
  Lemma hx_inj i j : i < 6 -> j < 6 -> hx l i = hx l j -> i = j.
  Proof. intros Hi Hj E. exact (proj1 (NoDup_nth l 0) ND i j Hi Hj E). Qed.

  Lemma order_pos order k : order = order_top \/ order = order_bot -> k < 4 ->
    nth k order 0 < 6 /\ nth ((k + 1) mod 4) order 0 < 6 /\ nth k order 0 <> nth ((k + 1) mod 4) order 0.
  Proof.
    intros [-> | ->] Hk; destruct k as [|[|[|[|]]]]; try lia; cbn; repeat split; lia.
  Qed.

  (* neither the opposite of the top nor of the bottom is in the cell: all four neighbours would be that one halfface *)
  Lemma wf_no_opp_tb h other order : (h = x0 /\ other = x1 /\ order = order_top) \/ (h = x1 /\ other = x0 /\ order = order_bot) ->
    ~ In (opp h) l.
  Proof.
    intros C Hin. destruct (wf_walk h other order C) as (e0 & e1 & e2 & e3 & a0 & a1 & a2 & a3 & k & E & Hk & O0 & O1 & _ & _ & E0 & E1 & _).
    assert (OO : order = order_top \/ order = order_bot) by (destruct C as [(_ & _ & ->)|(_ & _ & ->)]; tauto).
    destruct (order_pos order k OO Hk) as (p0 & p1 & pn).
    assert (A0 : In a0 l) by (rewrite E0; apply wf_in; exact p0). assert (A1 : In a1 l) by (rewrite E1; apply wf_in; exact p1).
    assert (I0 : In (opp e0) (halfface s (opp h))) by (apply in_halfface_opp; rewrite opp_involutive, E; cbn; tauto).
    assert (I1 : In (opp e1) (halfface s (opp h))) by (apply in_halfface_opp; rewrite opp_involutive, E; cbn; tauto).
    pose proof (wf_unique a0 (opp h) (opp e0) A0 Hin O0 I0) as X0. pose proof (wf_unique a1 (opp h) (opp e1) A1 Hin O1 I1) as X1.
    apply pn. apply hx_inj; [exact p0 | exact p1|]. rewrite <- E0, <- E1. congruence.
  Qed.

  (* every side is a neighbour of the top *)
  Lemma wf_side_top i : 2 <= i < 6 -> exists e, In e (halfface s x0) /\ In (opp e) (halfface s (hx l i)).
  Proof.
    intros Hi. destruct (wf_walk x0 x1 order_top (or_introl (conj eq_refl (conj eq_refl eq_refl))))
      as (e0 & e1 & e2 & e3 & a0 & a1 & a2 & a3 & k & E & Hk & O0 & O1 & O2 & O3 & E0 & E1 & E2 & E3).
    pose proof (top_positions_cover l k a0 a1 a2 a3 i Hk E0 E1 E2 E3 Hi) as Hc. rewrite E.
    destruct Hc as [<-|[<-|[<-|[<-|[]]]]]; [exists e0 | exists e1 | exists e2 | exists e3]; (split; [cbn; tauto | assumption]).
  Qed.

  Theorem wf_no_opposite_pair x : In x l -> ~ In (opp x) l.
  Proof.
    intros Hx Ho.
    pose proof (wf_no_opp_tb x0 x1 order_top (or_introl (conj eq_refl (conj eq_refl eq_refl)))) as N0.
    pose proof (wf_no_opp_tb x1 x0 order_bot (or_intror (conj eq_refl (conj eq_refl eq_refl)))) as N1.
    destruct (Nat.eq_dec x x0) as [->|Nx0]; [exact (N0 Ho)|]. destruct (Nat.eq_dec x x1) as [->|Nx1]; [exact (N1 Ho)|].
    destruct (side_of x Hx Nx0 Nx1) as (i & Hi & Ei).
    assert (Hi' : 2 <= i < 6) by (cbn in Hi; lia).
    destruct (wf_side_top i Hi') as (e & He & Oe). rewrite Ei in Oe.
    (* e lies in the top and in opp x *)
    assert (Ie : In e (halfface s (opp x))) by (apply in_halfface_opp; exact Oe).
    pose proof (wf_unique x0 (opp x) e (wf_in 0 ltac:(lia)) Ho He Ie) as X. apply N0. rewrite X, opp_involutive. exact Hx.
  Qed.

  (* the faces are simple in the sense of the kernel *)
  Lemma wf_face_simple h : In h l -> simple_hes (face_at s (h / 2)).
  Proof.
    intros H. destruct (wf_simple h H) as [N O]. unfold halfface in N, O. destruct (Nat.even h) eqn:Ev.
    - split; [exact N|]. intros e He. exact (O e He).
    - split.
      + apply NoDup_rev in N. rewrite rev_involutive in N. exact (NoDup_map_inv opp _ N).
      + intros e He Hoe. apply (O (opp e)).
        * rewrite <- in_rev. apply in_map. exact He.
        * rewrite opp_involutive, <- in_rev. apply in_map_iff. exists (opp e). split; [apply opp_involutive | exact Hoe].
  Qed.

  Hypothesis CACHE : forall h, In h l -> cell_of s h = Some c.

  Theorem wf_cell : hex_cell_wf_b s c = true.
  Proof.
    apply hex_cell_wf_b_spec. unfold hex_cell_wf. rewrite Hl. split; [|split].
    - apply closed_cell_of_check; rewrite ?Hl.
      + exact CACHE.
      + exact MO.
      + exact wf_face_simple.
      + exact wf_no_opposite_pair.
    - exact LO.
    - change (hx l 0) with x0. change (hx l 1) with x1.
      destruct wf_ord as (_ & _ & DJ).
      apply NoDup_app_intro; [exact (QV x0 (wf_in 0 ltac:(lia))) | exact (QV x1 (wf_in 1 ltac:(lia)))|].
      intros v H0 H1. exact (DJ v H1 H0).
  Qed.
End Wf.

(* ================================================================== the topology-checked add_cell(halffaces) *)

Lemma hex_add_cell_checked_via s hfs s' c : hex_add_cell s hfs true = (s', Some c) ->
  exists l, add_cell s l true = (s', Some c) /\ length l = 6 /\ (forall x, In x l -> In x hfs) /\
            (forall x, In x hfs -> length (face_at s (x / 2)) = 4) /\ check_halfface_ordering s l = true.
Proof.
  intros H. unfold hex_add_cell in H.
  destruct (Nat.eqb_spec (length hfs) 6) as [L6|L6]; cbn [negb] in H; [|discriminate].
  destruct (forallb (fun hf => length (face_at s (hf / 2)) =? 4) hfs) eqn:F4; cbn [negb] in H; [|discriminate].
  destruct (negb (length (hfs_vertex_set s hfs) =? 8)); [discriminate|].
  rewrite forallb_forall in F4.
  assert (F4' : forall x, In x hfs -> length (face_at s (x / 2)) = 4) by (intros x Hx; apply Nat.eqb_eq; exact (F4 x Hx)).
  destruct (check_halfface_ordering s hfs) eqn:O1; [exists hfs; auto|].
  destruct (reorder_bottom s hfs) as [b|] eqn:B; [|discriminate].
  destruct (all_some (upd 1 (Some b) (reorder_top s hfs))) as [l|] eqn:A; [|discriminate].
  destruct (check_halfface_ordering s l) eqn:O2; [|discriminate].
  assert (NE : hfs <> []) by (intros ->; discriminate).
  exists l. split; [exact H|]. split; [rewrite (all_some_length _ _ A), upd_length; apply reorder_top_length|]. split; [|auto].
  apply (all_some_from_list hfs (upd 1 (Some b) (reorder_top s hfs)) l); [|exact A]. apply Forall_upd_from; [apply reorder_top_from_list; exact NE|].
  cbn [from_list]. unfold reorder_bottom in B. exact (get_adjacent_from _ _ _ _ _ B).
Qed.

(* every cell accepted by the topology-checked add_cell whose faces are quads = closed loops on four distinct vertices is
   well formed (with the face incidences on and the given handles designating faces) *)
Theorem accepted_cell_wf s hfs s' c : hex_add_cell s hfs true = (s', Some c) ->
  fbu s = true -> length (inc_cell s) = 2 * nf s -> (forall hf, In hf hfs -> hf < 2 * nf s) ->
  (forall hf, In hf (cell_at s' c) -> loop_ok s' (halfface s' hf) = true /\ NoDup (hf_vertices s' hf)) ->
  hex_cell_wf_b s' c = true.
Proof.
  intros H Fb Li Rg QD. destruct (hex_add_cell_checked_via s hfs s' c H) as (l & A & L6 & Sub & F4 & Ord).
  pose proof (add_cell_checked_cell_check s l s' c A) as CC.
  pose proof (add_cell_edges s l true) as EE. rewrite A in EE. cbn [fst] in EE.
  destruct (fc_append_cell s l) as (Fs & Cs & _). destruct (inc_cell_append_cell s l Fb) as [IC _].
  pose proof (append_cell_handle s l) as Hh.
  unfold add_cell in A. rewrite CC in A. cbn [andb negb] in A.
  destruct (append_cell s l) as [s1 c1]. cbn [fst snd] in *. injection A as E1 E2. subst s1. assert (Ec : c = nc s) by (rewrite <- E2; exact Hh).
  assert (CA : cell_at s' c = l) by (rewrite Ec; unfold cell_at, nc; rewrite Cs; rewrite app_nth2 by apply Nat.le_refl; rewrite Nat.sub_diag; reflexivity).
  rewrite CA in QD.
  destruct l as [|x0 [|x1 [|x2 [|x3 [|x4 [|x5 [|]]]]]]]; try discriminate.
  assert (HF : forall h, halfface s' h = halfface s h) by (intros h; apply halfface_faces; exact Fs).
  apply (wf_cell s' c x0 x1 x2 x3 x4 x5 CA).
  - apply (cell_check_nodup s _ CC). intros x Hx. apply F4. apply Sub. exact Hx.
  - apply cell_check_spec in CC. destruct CC as [_ M]. erewrite map_ext; [exact M|]. intros h. apply HF.
  - intros h Hin. rewrite HF. unfold halfface. specialize (F4 h (Sub h Hin)). destruct (Nat.even h); [exact F4|]. rewrite rev_length, map_length. exact F4.
  - intros h Hin. exact (proj1 (QD h Hin)).
  - intros h Hin. exact (proj2 (QD h Hin)).
  - rewrite (check_ordering_faces s s' _ Fs EE). exact Ord.
  - intros h Hin. unfold cell_of. rewrite IC, nth_fold_upd. replace (memb h [x0; x1; x2; x3; x4; x5]) with true by (symmetry; apply Base.ListLemmas.memb_In; exact Hin).
    replace (h <? length (inc_cell s)) with true by (symmetry; apply Nat.ltb_lt; rewrite Li; apply Rg; apply Sub; exact Hin). cbn [andb]. rewrite Ec. reflexivity.
Qed.

(* hence hex_vertices reports the cube pattern, the cell is in the documented layout and its opposite faces are vertex-disjoint *)
Theorem accepted_cell_is_a_cube s hfs s' c : hex_shape s -> hex_add_cell s hfs true = (s', Some c) ->
  fbu s = true -> length (inc_cell s) = 2 * nf s -> (forall hf, In hf hfs -> hf < 2 * nf s) ->
  (forall hf, In hf (cell_at s' c) -> loop_ok s' (halfface s' hf) = true /\ NoDup (hf_vertices s' hf)) ->
  hex_cell_wf_b s' c = true /\ hex_cube_pattern s' c /\ hex_layout s' (cell_at s' c) = true /\
  (let l := cell_at s' c in
   disjointb (hf_vertices s' (hx l 0)) (hf_vertices s' (hx l 1)) = true /\
   disjointb (hf_vertices s' (hx l 2)) (hf_vertices s' (hx l 3)) = true /\
   disjointb (hf_vertices s' (hx l 4)) (hf_vertices s' (hx l 5)) = true).
Proof.
  intros K H Fb Li Rg QD. pose proof (accepted_cell_wf s hfs s' c H Fb Li Rg QD) as W.
  pose proof (shape_hex_add_cell s hfs true K) as K'. rewrite H in K'. cbn [fst] in K'.
  destruct (hex_add_cell_checked_stored s hfs s' c H) as (Ec & _ & _ & _ & O).
  assert (Hc : c < nc s').
  { destruct (hex_add_cell_checked s hfs s' (Some c) H) as [[E _]|(l & _ & Cs & _)]; [discriminate|].
    unfold nc. rewrite Cs, app_length. cbn [length]. subst c. unfold nc. lia. }
  split; [exact W|]. split; [exact (TH2_hex_vertices_cube_pattern s' c K' Hc O W)|]. split; [exact (TH2_hex_cell_layout s' c K' Hc O W)|].
  exact (TH2_hex_cell_opposite_faces_disjoint s' c K' Hc O W).
Qed.

(* non-vacuity: the second cube of two glued cubes, given in a permuted order, through the re-ordering path *)
Example accepted_cell_is_a_cube_applies :
  let s := hex_run [HK (AddVertices 12); HAddCellV [0; 1; 2; 3; 4; 5; 6; 7] true; HAddCellV [8; 9; 10; 11; 7; 1; 2; 6] true;
                    HK (EnableDeferred false); HK (DelCell 1)] in
  let hfs := [20; 14; 5; 18; 12; 16] in
  exists s', hex_add_cell s hfs true = (s', Some 1) /\ cell_at s' 1 <> hfs /\
    fbu s = true /\ length (inc_cell s) = 2 * nf s /\ forallb (fun hf => hf <? 2 * nf s) hfs = true /\
    forallb (fun hf => loop_ok s' (halfface s' hf) && nodup_b (hf_vertices s' hf)) (cell_at s' 1) = true /\
    hex_cell_wf_b s' 1 = true.
Proof. vm_compute. eexists. repeat split. intros E. discriminate. Qed.

Print Assumptions accepted_cell_wf.
Print Assumptions accepted_cell_is_a_cube.

(* ================================================================== "four distinct vertices" cannot be weakened to "closed loop" *)

(* top = the halfedges 0->1, 1->0 (one edge, both directions), 0->2 on edge 1 and 2->0 on the DUPLICATE edge 2: a closed loop on
   the vertex cycle (0,1,0,2), accepted by the topology-checked add_face; bottom (3,4,5,6); four sides.  Closed, exactly eight
   vertices, top and bottom vertex-disjoint; the walk around the top skips its two self-matched halfedges and then meets
   l4, l3 in order: accepted by the topology-checked add_cell (model and library, replay build/th2/hex9.scripts: there
   hex_vertices crashes).  Out of contract (a non-simple face); it shows what the hypothesis of accepted_cell_wf is for. *)
Definition degenerate_top_pre : list hop :=
  [HK (AddVertices 8);
   HK (AddEdge 0 1 false); HK (AddEdge 0 2 false); HK (AddEdge 2 0 true); HK (AddEdge 0 5 false); HK (AddEdge 5 4 false); HK (AddEdge 4 2 false);
   HK (AddEdge 4 3 false); HK (AddEdge 3 0 false); HK (AddEdge 6 5 false); HK (AddEdge 0 7 false); HK (AddEdge 7 6 false); HK (AddEdge 3 6 false);
   HK (AddFace [0; 1; 2; 4] true); HK (AddFace [13; 9; 17; 23] true); HK (AddFace [16; 7; 18; 20] true);
   HK (AddFace [5; 11; 12; 14] true); HK (AddFace [3; 6; 8; 10] true); HK (AddFace [15; 22; 21; 19] true)].

Theorem accepted_cell_wf_without_distinct_face_vertices_refuted :
  exists s0 hfs s c, hex_step s0 (HK (AddCell hfs true)) = HROk s (Some c) /\
    (forall hf, In hf (cell_at s c) -> loop_ok s (halfface s hf) = true) /\
    length (hfs_vertex_set s (cell_at s c)) = 8 /\ hf_vertices s (hx (cell_at s c) 0) = [0; 1; 0; 2] /\
    hex_cell_wf_b s c = false /\ hex_vertices s c = None.
Proof.
  exists (hex_run degenerate_top_pre), [0; 2; 4; 6; 8; 10],
         (match hex_step (hex_run degenerate_top_pre) (HK (AddCell [0; 2; 4; 6; 8; 10] true)) with HROk s _ => s | _ => empty_mesh end), 0.
  split; [vm_compute; reflexivity|]. split.
  - assert (F : forallb (fun hf => loop_ok (match hex_step (hex_run degenerate_top_pre) (HK (AddCell [0; 2; 4; 6; 8; 10] true)) with HROk s _ => s | _ => empty_mesh end)
                                      (halfface (match hex_step (hex_run degenerate_top_pre) (HK (AddCell [0; 2; 4; 6; 8; 10] true)) with HROk s _ => s | _ => empty_mesh end) hf))
                         [0; 2; 4; 6; 8; 10] = true) by (vm_compute; reflexivity).
    rewrite forallb_forall in F. intros hf Hin. apply F.
    assert (E : cell_at (match hex_step (hex_run degenerate_top_pre) (HK (AddCell [0; 2; 4; 6; 8; 10] true)) with HROk s _ => s | _ => empty_mesh end) 0 = [0; 2; 4; 6; 8; 10])
      by (vm_compute; reflexivity). rewrite E in Hin. exact Hin.
  - vm_compute. repeat split.
Qed.
Print Assumptions accepted_cell_wf_without_distinct_face_vertices_refuted.
