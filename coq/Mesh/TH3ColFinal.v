(* Mesh/TH3ColFinal.v -- C15, collapse_edge(a -> b): the invariant of the result, the statements.

   deferred mode (handles stable), s' the state after the call, under collapse_ready s heh /\ link_ok s heh
   (Mesh/TH2CollapseMain.v, Mesh/TH3ColMain.v; both decidable):
     collapse_edge_deferred_bu_inv2   bu_inv2 s' /\ szd s'                                    (nothing else assumed)
     collapse_edge_deferred_inv       K s (up_closed + counters do not undercount) -> Hinv s', gc_ready s', all_inv s'
     collapse_edge_deferred_full_inv  full_inv s -> full_inv s' (and Hinv s', gc_ready s')
     collapse_ready_of_all_inv        collapse_ready from the kernel's history invariant + the tet-specific facts
   immediate modes: C15_collapse_immediate_slow / _fast of Props/Properties_C15_C16_full.v WITHOUT their hypothesis
   gc_ready d' (collapse_edge_immediate_slow_inv / _fast_inv).
   link_ok cannot be dropped: link_condition_needed_refuted (clause 4: the rebuilt tet lands on a halfface of a surviving
   tet; the halfface -> cell cache of the result is wrong), parallel_edges_refuted (clause 1: a legal mesh with a duplicate
   edge, add_edge(u, v, allow_duplicates = true); the rebuilt cell is not closed).  Non-vacuity: collapse_ex (five tets,
   an image face is found among the faces of a collapsing tet). *)
From Coq Require Import ZArith Lia Bool Arith List ZifyNat ZifyBool.
From OVM Require Import Base.ListX Base.ListLemmas Kernel.State Kernel.Ops Kernel.Mirror Kernel.Recompute Kernel.Closure Kernel.Sizes
                        Kernel.ExactInv Kernel.InvB Kernel.DeferredDelete Kernel.SwapInvol Kernel.ShiftFace Kernel2.LookupModel Kernel2.AdjacentProofs Kernel2.ReorderExact Kernel2.ExactBase Kernel2.ExactAddCell
                        Kernel3.GcDefs Kernel3.GcInv Kernel3.GcHist Kernel3.GcMain Kernel3.GcFastBase Kernel3.GcFastChain Kernel3.GcFastMain
                        Kernel4.AllDefs Kernel4.AllBridges Kernel4.AllHistory
                        Mesh.TetModel Mesh.TetProofs Mesh.TH2ShapeHist Mesh.TH2CollapseBase Mesh.TH2CollapseLoop Mesh.TH2CollapseFold Mesh.TH2CollapseStar
                        Mesh.TH2CollapseMain Mesh.TH2CollapseTuple Mesh.TH2CollapseFinal Mesh.TH2CollapseModes Mesh.TH2CollapseEx
                        Mesh.TH3ColBase Mesh.TH3ColLoop Mesh.TH3ColReadd Mesh.TH3ColMain.
Import ListNotations.
Local Open Scope nat_scope.

(* ================================================================== 1. deferred mode *)

Theorem collapse_edge_deferred_bu_inv2 s heh : collapse_ready s heh -> link_ok s heh ->
  exists s', collapse_edge s heh = Some (s', he_to s heh) /\ collapse_result s heh s' /\ bu_inv2 s' /\ szd s'.
Proof.
  intros RDY LK. destruct (collapse_edge_inv_gen s heh RDY LK (fun _ => True) col_closed_True I) as (s' & Q & CR & B & Z & _ & _).
  exists s'. auto.
Qed.

Theorem collapse_edge_deferred_inv s heh : collapse_ready s heh -> link_ok s heh -> K s ->
  exists s', collapse_edge s heh = Some (s', he_to s heh) /\ collapse_result s heh s' /\
             bu_inv2 s' /\ szd s' /\ gc_ready s' /\ Hinv s' /\ all_inv s'.
Proof.
  intros RDY LK Kk. pose proof RDY as (B & Z & _).
  destruct (collapse_edge_inv_gen s heh RDY LK Hinv col_closed_Hinv (conj B (conj Kk Z))) as (s' & Q & CR & B' & Z' & H' & _).
  exists s'. split; [exact Q|]. split; [exact CR|]. split; [exact B'|]. split; [exact Z'|].
  split; [exact (Hinv_gc_ready s' H')|]. split; [exact H' | exact (Hinv_all_inv s' H')].
Qed.

Theorem collapse_edge_deferred_full_inv s heh : collapse_ready s heh -> link_ok s heh -> full_inv s ->
  exists s', collapse_edge s heh = Some (s', he_to s heh) /\ collapse_result s heh s' /\
             bu_inv2 s' /\ szd s' /\ gc_ready s' /\ Hinv s' /\ full_inv s'.
Proof.
  intros RDY LK FI.
  destruct (collapse_edge_inv_gen s heh RDY LK full_inv col_closed_full_inv FI) as (s' & Q & CR & B' & Z' & F' & _).
  exists s'. split; [exact Q|]. split; [exact CR|]. split; [exact B'|]. split; [exact Z'|].
  pose proof (bu_inv2_deferred s' B') as D'.
  split; [exact (all_inv_gc_ready s' (proj1 F') D')|].
  split; [exact (all_inv_Hinv s' (proj1 F') D' (bu_inv2_ebu s' B') (bu_inv2_fbu s' B')) | exact F'].
Qed.

(* collapse_ready from the invariant of the kernel's histories *)
Theorem collapse_ready_of_all_inv s heh : all_inv s -> deferred s = true -> full_bu s = true -> tet_shape s -> faces_loop s ->
  heh / 2 < ne s -> e_deleted s (heh / 2) = false -> he_from s heh <> he_to s heh ->
  (forall c, In c (rebuilt_cells s heh) -> forall hf, In hf (cell_at s c) -> tri_ok (he_to s heh) s hf) ->
  collapse_ready s heh /\ K s.
Proof.
  intros A D FB Ks FLo Rh Dh N OK. unfold full_bu in FB. apply andb_true_iff in FB. destruct FB as [FB Fb]. apply andb_true_iff in FB. destruct FB as [Vb Eb].
  pose proof (all_inv_Hinv s A D Eb Fb) as (B & Kk & Z). split; [|exact Kk].
  unfold collapse_ready. split; [exact B|]. split; [exact Z|]. split; [exact Vb|]. split; [exact Ks|]. split; [exact FLo|].
  split; [exact (proj1 (proj2 (proj1 Kk)))|]. auto.
Qed.

(* the bundle full_inv /\ deferred /\ all incidences /\ tet_shape /\ faces_loop is kept by a collapse *)
Definition tet_hist_inv (s : mesh) : Prop :=
  full_inv s /\ deferred s = true /\ full_bu s = true /\ tet_shape s /\ faces_loop s.

Corollary collapse_edge_history_invariant s heh : tet_hist_inv s ->
  heh / 2 < ne s -> e_deleted s (heh / 2) = false -> he_from s heh <> he_to s heh ->
  (forall c, In c (rebuilt_cells s heh) -> forall hf, In hf (cell_at s c) -> tri_ok (he_to s heh) s hf) ->
  link_ok s heh ->
  exists s', collapse_edge s heh = Some (s', he_to s heh) /\ collapse_result s heh s' /\ tet_hist_inv s' /\ gc_ready s' /\ bu_inv2 s'.
Proof.
  intros (FI & D & FB & Ks & FLo) Rh Dh N OK LK.
  destruct (collapse_ready_of_all_inv s heh (proj1 FI) D FB Ks FLo Rh Dh N OK) as [RDY _].
  pose proof RDY as (_ & _ & Vb & _).
  destruct (collapse_edge_inv_gen s heh RDY LK (fun t => full_inv t /\ vbu t = true) (col_closed_and _ _ col_closed_full_inv col_closed_vbu) (conj FI Vb))
    as (s' & Q & CR & B' & Z' & [F' V'] & FLo').
  pose proof (bu_inv2_deferred s' B') as D'.
  exists s'. split; [exact Q|]. split; [exact CR|]. split; [|split; [exact (all_inv_gc_ready s' (proj1 F') D') | exact B']].
  split; [exact F'|]. split; [exact D'|].
  split; [unfold full_bu; rewrite V', (bu_inv2_ebu s' B'), (bu_inv2_fbu s' B'); reflexivity|].
  split; [destruct CR as (_ & _ & _ & _ & _ & _ & _ & _ & _ & T & _); exact T | exact FLo'].
Qed.

(* ================================================================== 2. the immediate modes *)

Lemma K_enable_deferred_true s : deferred s = false -> K s -> K (enable_deferred true s).
Proof. intros D H. unfold enable_deferred. rewrite D. cbn [andb]. apply (K_kview s); [reflexivity | exact H]. Qed.

(* the fast flag of the deferred result *)
Lemma collapse_edge_deferred_fast d heh d' r : dshape d -> collapse_edge d heh = Some (d', r) -> fast d' = fast d.
Proof.
  intros DS Q. pose proof (collapse_edge_unfold d heh) as U. rewrite Q in U. cbv zeta in U. rewrite (proj2 DS) in U. cbn [negb] in U. unfold bind in U.
  destruct (collapse_pre d heh) as [[t1 t3]|] eqn:P; [|discriminate]. injection U as U1 _.
  unfold collapse_pre, bind in P. cbv zeta in P.
  destruct (fold_left (collapse_cell (he_from d heh) (he_to d heh) (collapsing_cells d heh)) (vertex_cells d (he_from d heh)) (Some (d, [])))
    as [[u1 news]|] eqn:E1; [|discriminate].
  destruct (fold_left collapse_readd news (Some (delete_vertex (he_from d heh) u1))) as [u3|] eqn:E3; [|discriminate]. injection P as <- <-.
  assert (H1 : dshape u1) by (refine (dshape_fold_collapse_cell _ _ _ _ _ _ _ E1); intros p Hp; injection Hp as <-; exact DS).
  assert (G1 : fast u1 = fast d).
  { refine (fast_fold_collapse_cell _ _ _ _ (fast d) _ (u1, news) _ E1). intros p Hp. injection Hp as <-. split; [exact DS | reflexivity]. }
  assert (G3 : fast u3 = fast d).
  { refine (fast_fold_readd _ (fast d) _ _ _ E3). intros p Hp. injection Hp as <-.
    rewrite (fast_dstep _ _ _ _ _ _ (delete_vertex_deferred (he_from d heh) u1 (proj2 H1))). exact G1. }
  rewrite U1. unfold enable_deferred. rewrite andb_false_r. exact G3.
Qed.

Theorem collapse_edge_immediate_slow_inv s heh : deferred s = false -> fast s = false -> let d := enable_deferred true s in
  collapse_ready d heh -> link_ok d heh -> K d ->
  exists d', collapse_edge d heh = Some (d', he_to d heh) /\ collapse_result d heh d' /\ gc_ready d' /\
  exists s', collapse_edge s heh = Some (s', if he_from d heh <? he_to d heh then he_to d heh - 1 else he_to d heh) /\
     nv s' = logical_nv d' /\ edges s' = logical_edges d' /\ faces s' = logical_faces d' /\ cells s' = logical_cells d' /\
     no_flags s' /\ deferred s' = false /\ fast s' = false /\
     ((forall v, v_deleted s v = false) -> length (vdel s) = nv s -> rank (vdel d') (he_to d heh) = (if he_from d heh <? he_to d heh then he_to d heh - 1 else he_to d heh)).
Proof.
  intros D Fa d RDY LK Kd. destruct (collapse_edge_immediate_slow s heh D Fa RDY) as (d' & Q & CR & H). fold d in Q, CR, H.
  destruct (collapse_edge_deferred_inv d heh RDY LK Kd) as (d'' & Q' & _ & _ & _ & G & _). rewrite Q in Q'. injection Q' as <-.
  exists d'. split; [exact Q|]. split; [exact CR|]. split; [exact G|]. exact (H G).
Qed.

Theorem collapse_edge_immediate_fast_inv s heh : deferred s = false -> fast s = true -> let d := enable_deferred true s in
  collapse_ready d heh -> link_ok d heh -> K d ->
  exists d', collapse_edge d heh = Some (d', he_to d heh) /\ collapse_result d heh d' /\ gc_ready d' /\
  exists s' rv re rf rc,
     collapse_edge s heh = Some (s', if he_to d heh =? nv s - 1 then he_from d heh else he_to d heh) /\
     gc_fast_post d' (collect_garbage d') rv re rf rc /\ no_flags s' /\ deferred s' = false /\
     nv s' = nv (collect_garbage d') /\ edges s' = edges (collect_garbage d') /\ faces s' = faces (collect_garbage d') /\
     cells s' = cells (collect_garbage d').
Proof.
  intros D Fa d RDY LK Kd. destruct (collapse_edge_immediate_fast s heh D Fa RDY) as (d' & s1 & Q & CR & _ & H). fold d in Q, CR, H.
  destruct (collapse_edge_deferred_inv d heh RDY LK Kd) as (d'' & Q' & _ & _ & Z & G & _). rewrite Q in Q'. injection Q' as <-.
  exists d'. split; [exact Q|]. split; [exact CR|]. split; [exact G|]. apply (H G); [apply szd_sized; exact Z|].
  pose proof RDY as (_ & _ & _ & Kd' & _).
  rewrite (collapse_edge_deferred_fast d heh d' _ (conj Kd' eq_refl) Q). unfold d, enable_deferred. rewrite D. exact Fa.
Qed.

(* ================================================================== 3. non-vacuity *)

Example collapse_ex_link_ok :
  collapse_ready_b collapse_ex 0 = true /\ link_ok_b collapse_ex 0 = true /\ full_inv_b collapse_ex = true.
Proof. vm_compute. repeat split. Qed.

(* the image (1,3,2) of the halfface (0,3,2) of the rebuilt tet (0,3,2,5) is FOUND: it is the halfface 6 of the collapsing
   tet (0,1,2,3) - first entry of the first rebuilt cell *)
Example collapse_ex_image_found :
  nf collapse_ex = 15 /\ cell_at collapse_ex_after 5 = [6; 30; 32; 18] /\ cell_of collapse_ex 6 = Some 0 /\
  star collapse_ex 0 = [0; 1; 2; 3] /\ cell_of collapse_ex_after 6 = Some 5.
Proof. vm_compute. repeat split. Qed.

Example collapse_ex_invariant :
  exists s', collapse_edge collapse_ex 0 = Some (s', 1) /\ collapse_result collapse_ex 0 s' /\
             bu_inv2 s' /\ szd s' /\ gc_ready s' /\ Hinv s' /\ full_inv s'.
Proof.
  assert (R : collapse_ready collapse_ex 0) by (apply collapse_ready_b_sound; vm_compute; reflexivity).
  assert (L : link_ok collapse_ex 0) by (apply link_ok_b_sound; vm_compute; reflexivity).
  assert (F : full_inv collapse_ex) by (apply full_inv_b_sound; vm_compute; reflexivity).
  assert (E2 : he_to collapse_ex 0 = 1) by (vm_compute; reflexivity).
  pose proof (collapse_edge_deferred_full_inv collapse_ex 0 R L F) as H. rewrite E2 in H. exact H.
Qed.

(* the history continues: a second collapse (1 -> 2, halfedge 2) on the result of the first, with the invariant of the first
   result taken from the theorem *)
Definition tet_hist_inv_b (s : mesh) : bool := full_inv_b s && deferred s && full_bu s && kshape_b 3 4 s && faces_loop_b s.
Lemma tet_hist_inv_b_sound s : tet_hist_inv_b s = true -> tet_hist_inv s.
Proof.
  unfold tet_hist_inv_b. rewrite !andb_true_iff. intros [[[[A B] C] D] E].
  split; [apply full_inv_b_sound; exact A|]. split; [exact B|]. split; [exact C|].
  split; [apply kshape_b_sound; exact D | apply faces_loop_b_sound; exact E].
Qed.

Lemma some_pair_fst {A B} (x x' : A) (y y' : B) : Some (x, y) = Some (x', y') -> x = x'.
Proof. intros H. injection H. auto. Qed.

Example collapse_twice :
  exists s1 s2, collapse_edge collapse_ex 0 = Some (s1, 1) /\ collapse_edge s1 2 = Some (s2, 2) /\
                tet_hist_inv s1 /\ tet_hist_inv s2 /\ gc_ready s2 /\ bu_inv2 s2.
Proof.
  assert (T0 : tet_hist_inv collapse_ex) by (apply tet_hist_inv_b_sound; vm_compute; reflexivity).
  assert (R0 : collapse_ready collapse_ex 0) by (apply collapse_ready_b_sound; vm_compute; reflexivity).
  assert (K0 : link_ok collapse_ex 0) by (apply link_ok_b_sound; vm_compute; reflexivity).
  pose proof R0 as (_ & _ & _ & _ & _ & _ & Rh & Dh & N & OK).
  destruct (collapse_edge_history_invariant collapse_ex 0 T0 Rh Dh N OK K0) as (s1 & Q1 & _ & T1 & _).
  assert (Q : collapse_edge collapse_ex 0 = Some (collapse_ex_after, 1)) by (vm_compute; reflexivity).
  assert (E : s1 = collapse_ex_after) by exact (some_pair_fst _ _ _ _ (eq_trans (eq_sym Q1) Q)).
  subst s1. clear Q1 Rh Dh N OK.
  assert (R1 : collapse_ready collapse_ex_after 2) by (apply collapse_ready_b_sound; vm_compute; reflexivity).
  assert (K1 : link_ok collapse_ex_after 2) by (apply link_ok_b_sound; vm_compute; reflexivity).
  assert (E2 : he_to collapse_ex_after 2 = 2) by (vm_compute; reflexivity).
  pose proof R1 as (_ & _ & _ & _ & _ & _ & Rh & Dh & N & OK).
  destruct (collapse_edge_history_invariant collapse_ex_after 2 T1 Rh Dh N OK K1) as (s2 & Q2 & _ & T2 & G2 & B2).
  rewrite E2 in Q2. exists collapse_ex_after, s2. split; [exact Q|]. split; [exact Q2|]. split; [exact T1|]. split; [exact T2|]. split; [exact G2 | exact B2].
Qed.

(* ================================================================== 4. link_ok cannot be dropped *)

(* clause 4 (the link condition): tets (0,2,3,4) and (1,2,3,5) and a free edge 0-1 (Mesh/TH2CollapseEx.v link_violation);
   every other clause of link_ok and collapse_ready hold; after the collapse the halfface 8 = (1,2,3) belongs to the live
   cells 1 (untouched) and 2 (rebuilt) and the cache names 2.
   full statement (refuted): collapse_edge_deferred_bu_inv2 without link_ok *)
Definition link_violation_after : mesh := match collapse_edge link_violation 0 with Some (s', _) => s' | None => empty_mesh end.

Theorem link_condition_needed_refuted :
  exists s heh s', collapse_ready s heh /\ link_ok_b s heh = false /\
    npar_b (img_pair_b s heh) s = true /\ forallb (tetc_b s) (rebuilt_cells s heh) = true /\
    pw_nonrot_b (map (hf_vertices s) (rebuilt_halffaces s heh)) = true /\ full_inv_b s = true /\
    collapse_edge s heh = Some (s', he_to s heh) /\ ~ bu_inv2 s' /\ ~ gc_ready s'.
Proof.
  exists link_violation, 0, link_violation_after.
  split; [apply collapse_ready_b_sound; vm_compute; reflexivity|].
  split; [vm_compute; reflexivity|]. split; [vm_compute; reflexivity|]. split; [vm_compute; reflexivity|].
  split; [vm_compute; reflexivity|]. split; [vm_compute; reflexivity|]. split; [vm_compute; reflexivity|].
  assert (FB : fbu link_violation_after = true) by (vm_compute; reflexivity).
  assert (X : ~ fbu_ok link_violation_after).
  { intros FO.
    assert (C : cell_of link_violation_after 8 = Some 1).
    { apply (FO FB 8); [vm_compute; lia|]. split; [vm_compute; lia|]. split; [vm_compute; reflexivity|]. vm_compute. left. reflexivity. }
    vm_compute in C. discriminate. }
  split; [intros ((_ & _ & FO & _) & _); exact (X FO) | intros (_ & _ & (_ & _ & FO & _) & _); exact (X FO)].
Qed.

(* clause 1 (no parallel edges): one tet (0,2,3,4), a free edge 0-1, and TWO edges between 2 and 3 (add_edge(2, 3) and then
   add_edge(2, 3, allow_duplicates = true)); the tet is built on the second one.  The state satisfies the kernel's full
   invariant, collapse_ready and the clauses 2-4 of link_ok.  The image of the halfface (0,2,3) is created on the FIRST
   edge 2-3 (add_halfedge takes the first halfedge found), the image of (2,4,3) is the existing halfface on the second:
   the rebuilt cell is not closed. *)
Definition par_adds : list top :=
  [TK (AddVertices 5); TK (AddEdge 0 1 false); TK (AddEdge 2 3 false); TK (AddEdge 2 3 true);
   TK (AddEdge 0 2 false); TK (AddEdge 0 3 false); TK (AddEdge 0 4 false); TK (AddEdge 2 4 false); TK (AddEdge 3 4 false);
   TK (AddFace [6; 4; 9] true); TK (AddFace [8; 14; 11] true); TK (AddFace [10; 13; 7] true); TK (AddFace [12; 15; 5] true);
   TK (AddCell [0; 2; 4; 6] true)].
Definition par_ex : mesh := tet_run par_adds.
Definition par_ex_after : mesh := match collapse_edge par_ex 0 with Some (s', _) => s' | None => empty_mesh end.

Theorem parallel_edges_refuted :
  exists s heh s', collapse_ready s heh /\ full_inv_b s = true /\ nc s = 1 /\
    npar_b (img_pair_b s heh) s = false /\ forallb (tetc_b s) (rebuilt_cells s heh) = true /\
    pw_nonrot_b (map (hf_vertices s) (rebuilt_halffaces s heh)) = true /\ free_or_star_b s heh = true /\
    collapse_edge s heh = Some (s', he_to s heh) /\ ~ bu_inv2 s' /\ ~ gc_ready s'.
Proof.
  exists par_ex, 0, par_ex_after.
  split; [apply collapse_ready_b_sound; vm_compute; reflexivity|].
  split; [vm_compute; reflexivity|]. split; [vm_compute; reflexivity|]. split; [vm_compute; reflexivity|].
  split; [vm_compute; reflexivity|]. split; [vm_compute; reflexivity|]. split; [vm_compute; reflexivity|].
  split; [vm_compute; reflexivity|].
  assert (X : ~ live_cells_closed par_ex_after).
  { intros CL. assert (C : closed_cell par_ex_after 1) by (apply CL; vm_compute; [lia | reflexivity]).
    apply closed_cell_b_spec in C. vm_compute in C. discriminate. }
  assert (EF : ebu par_ex_after = true /\ fbu par_ex_after = true) by (vm_compute; split; reflexivity).
  split; [intros (_ & _ & _ & _ & _ & _ & CL & _); exact (X CL)|].
  intros (_ & _ & (_ & _ & _ & GE)). destruct (GE (proj1 EF) (proj2 EF)) as [_ CL]. exact (X CL).
Qed.

Print Assumptions collapse_edge_deferred_bu_inv2.
Print Assumptions collapse_edge_deferred_inv.
Print Assumptions collapse_edge_deferred_full_inv.
Print Assumptions collapse_edge_history_invariant.
Print Assumptions collapse_edge_immediate_slow_inv.
Print Assumptions collapse_edge_immediate_fast_inv.
Print Assumptions link_ok_b_sound.
Print Assumptions collapse_ex_invariant.
Print Assumptions collapse_twice.
Print Assumptions link_condition_needed_refuted.
Print Assumptions parallel_edges_refuted.
