(* Mesh/TH3TetChecked.v -- C15: every cell accepted by the TOPOLOGY-CHECKED add_cell(halffaces) of the tet kernel, on simple
   triangles, is a tetrahedron - after the fix 814053a ("the four vertex triples must be four different sets").

   tet_add_cell_checked_ok               the full statement, for every state (no hypothesis on parallel edges)
   Before the fix it was false (model and library): hfs = [hf; opp hf; x; opp x], hf on (0,1,2), x on (1,2,3) over a PARALLEL
   edge 1-2 passed every test (four halffaces of valence 3, four distinct vertices, every halfedge matched once).  Kept as
   regressions:
   tet_two_pillows_rejected / tet_two_pillows_dup_rejected     the two former witnesses are rejected, state unchanged
   tet_add_cell_unchecked_stores_two_pillows                   the UNCHECKED call still stores them (get_cell_vertices empty)
   The earlier partial results stay true (their extra hypotheses are no longer needed):
   tet_add_cell_checked_ok_partial       under no_par s (and live halfedges)
   tet_add_cell_checked_ok_partial_sets  under "no two given halffaces on the same vertex set"
   tet_add_cell_checked_ok_cre           for live halffaces of a cre_inv state
   Proofs only. *)
From Coq Require Import ZArith Lia Bool Arith List ZifyNat ZifyBool.
From OVM Require Import Base.ListX Base.ListLemmas Kernel.State Kernel.Ops Kernel.Mirror Kernel.Recompute Kernel.Closure Kernel.CellCheck
                        Kernel.Construct Kernel.ExactInv Kernel.ExactRun Kernel2.ExactAddCell
                        Mesh.TetModel Mesh.TetProofs Mesh.HexModel Mesh.HexProofs Mesh.TH2CollapseBase Mesh.TH2CollapseLoop Mesh.TH2CollapseFold
                        Mesh.TH2HexChecked Mesh.TH2HexEight Mesh.TH2HexWf Mesh.TH2TopoWf Mesh.TH3Base.
Import ListNotations.
Ltac Zify.zify_post_hook ::= Z.div_mod_to_equations.
Local Open Scope nat_scope.

(* ================================================================== 1. what an accepted call gives *)

Lemma tri_ok_same s t hf : faces t = faces s -> edges t = edges s -> tri_ok s hf -> tri_ok t hf.
Proof.
  intros F E (h0 & h1 & h2 & Eh & E0 & E1 & E2 & N).
  assert (HF : forall h, he_from t h = he_from s h) by (intros h; unfold he_from, edge_at; rewrite E; reflexivity).
  assert (HT : forall h, he_to t h = he_to s h) by (intros h; unfold he_to, edge_at; rewrite E; reflexivity).
  exists h0, h1, h2. rewrite (halfface_faces s t hf F), !HF, !HT. auto.
Qed.

Lemma tri_ok_nonempty s hf : tri_ok s hf -> halfface s hf <> [].
Proof. intros (h0 & h1 & h2 & E & _) X. rewrite E in X. discriminate. Qed.

Lemma tet_add_cell_checked_core s hfs s' c : tet_add_cell s hfs true = (s', Some c) ->
  length hfs = 4 /\ length (hfs_vertex_set s hfs) = 4 /\ cell_check s hfs = true /\ add_cell s hfs true = (s', Some c).
Proof.
  intros H. destruct (tet_add_cell_checked_guards s hfs s' c H) as (L & _ & V & _ & _ & A).
  split; [exact L|]. split; [exact V|]. split; [exact (add_cell_checked_cell_check s hfs s' c A) | exact A].
Qed.

(* the accepted cell, given that no two of its halffaces are on the same vertex set *)
Theorem tet_add_cell_checked_ok_partial_sets s hfs s' c : tet_add_cell s hfs true = (s', Some c) ->
  fbu s = true -> length (inc_cell s) = 2 * nf s -> (forall hf, In hf hfs -> hf < 2 * nf s) ->
  (forall hf, In hf hfs -> tri_ok s hf) ->
  (forall hf hf', In hf hfs -> In hf' hfs -> hf <> hf' -> ~ incl (hf_vertices s hf') (hf_vertices s hf)) ->
  c = nc s /\ cell_at s' c = hfs /\ tet_cell_ok s' c hfs /\ tet_cell_ok_b s' c = true /\ tet_cell_inc_b s' c = true /\
  tet_wf s' c hfs (hfs_vertex_set s' hfs).
Proof.
  intros H Fb Li Rg TRI DIS. destruct (tet_add_cell_checked_core s hfs s' c H) as (L4 & V4 & CC & A).
  unfold add_cell in A. rewrite CC in A. cbn [andb negb] in A.
  pose proof (append_cell_effect s hfs) as W. destruct (inc_cell_append_cell s hfs Fb) as [IC _].
  destruct (append_cell s hfs) as [s1 c1]. cbn [fst] in IC. injection A as -> ->.
  destruct W as (Ec & Cs & _ & _ & Es & Fs & _). subst c.
  assert (NE : nth_error (cells s') (nc s) = Some hfs) by (unfold nc; rewrite Cs, nth_error_app2, Nat.sub_diag by lia; reflexivity).
  assert (CA : cell_at s' (nc s) = hfs) by (unfold cell_at; apply nth_error_nth; exact NE).
  assert (HV : forall hf, hf_vertices s' hf = hf_vertices s hf) by (intros hf; apply hf_vertices_same; assumption).
  assert (HF : forall hf, halfface s' hf = halfface s hf) by (intros hf; apply halfface_faces; exact Fs).
  apply cell_check_spec in CC. destruct CC as [_ [ND CL]].
  assert (NDh : NoDup hfs).
  { apply (NoDup_concat_map (halfface s)); [exact ND|]. intros x Hx. exact (tri_ok_nonempty s x (TRI x Hx)). }
  assert (OK : tet_cell_ok s' (nc s) hfs).
  { constructor.
    - exact NE.
    - exact L4.
    - exact NDh.
    - intros hf Hhf. exact (tri_ok_same s s' hf Fs Es (TRI hf Hhf)).
    - rewrite (vertex_set_same_state s s' hfs Fs Es). exact V4.
    - intros hf hf' Hh Hh' N. rewrite !HV. exact (DIS hf hf' Hh Hh' N).
    - intros hf h Hhf Hh. rewrite HF in Hh.
      assert (Hc : In (opp h) (concat (map (halfface s) hfs))).
      { apply CL. apply in_concat. exists (halfface s hf). split; [apply in_map; exact Hhf | exact Hh]. }
      apply in_concat in Hc. destruct Hc as (l & Hl & Ho). apply in_map_iff in Hl. destruct Hl as (hf' & <- & Hhf').
      exists hf'. rewrite HF. split; assumption. }
  assert (INC : forall hf, In hf hfs -> nth_error (inc_cell s') hf = Some (Some (nc s))).
  { intros hf Hhf. pose proof (Rg hf Hhf) as R.
    rewrite (nth_error_nth' _ None) by (rewrite IC, length_fold_upd, Li; exact R). rewrite IC, nth_fold_upd.
    replace (memb hf hfs) with true by (symmetry; apply memb_In; exact Hhf).
    replace (hf <? length (inc_cell s)) with true by (symmetry; apply Nat.ltb_lt; rewrite Li; exact R). reflexivity. }
  split; [reflexivity|]. split; [exact CA|]. split; [exact OK|]. split; [apply tet_cell_ok_b_spec; exists hfs; exact OK|].
  split; [apply tet_cell_inc_b_spec; rewrite CA; exact INC|]. exact (tet_cell_ok_wf s' (nc s) hfs OK INC).
Qed.

(* ================================================================== 2. without parallel edges two halffaces of an accepted cell are never
                                                                          on the same vertex set *)

Lemma third_element (l : list nat) a b : NoDup l -> length l = 4 -> exists x, In x l /\ x <> a /\ x <> b.
Proof.
  intros ND L. destruct (find (fun x => negb (x =? a) && negb (x =? b)) l) as [x|] eqn:F.
  - apply find_some in F. destruct F as [Hx P]. apply andb_true_iff in P. destruct P as [P1 P2].
    apply negb_true_iff in P1, P2. apply Nat.eqb_neq in P1, P2. exists x. auto.
  - exfalso. assert (I : incl l [a; b]).
    { intros x Hx. pose proof (find_none _ _ F x Hx) as P. cbv beta in P. cbn [In].
      destruct (Nat.eqb_spec x a) as [->|]; [auto|]. destruct (Nat.eqb_spec x b) as [->|]; [auto|]. discriminate. }
    pose proof (NoDup_incl_length ND I) as Le. cbn [length] in Le. lia.
Qed.

(* two of the three vertices of a triangle inside a four-element set lie in any given three-element subset *)
Lemma two_in_triple (W T T' : list nat) : NoDup W -> length W = 4 -> NoDup T -> length T = 3 -> incl T W ->
  NoDup T' -> length T' = 3 -> incl T' W -> exists u v, In u T' /\ In v T' /\ u <> v /\ In u T /\ In v T.
Proof.
  intros NW LW NT LT IT NT' LT' IT'. destruct T' as [|x [|y [|z [|]]]]; try discriminate.
  inversion NT' as [|? ? nx N1]; subst. inversion N1 as [|? ? ny N2]; subst. cbn [In] in nx, ny.
  assert (Wx : In x W) by (apply IT'; cbn [In]; auto). assert (Wy : In y W) by (apply IT'; cbn [In]; auto).
  assert (Wz : In z W) by (apply IT'; cbn [In]; auto).
  destruct (in_dec Nat.eq_dec x T) as [Tx|Tx], (in_dec Nat.eq_dec y T) as [Ty|Ty], (in_dec Nat.eq_dec z T) as [Tz|Tz].
  - exists x, y. cbn [In]. repeat split; auto.
  - exists x, y. cbn [In]. repeat split; auto.
  - exists x, z. cbn [In]. repeat split; auto.
  - exfalso. apply ny. left. symmetry. exact (apex_unique W T y z NW LW NT LT IT Wy Ty Wz Tz).
  - exists y, z. cbn [In]. repeat split; auto.
  - exfalso. apply nx. right. left. symmetry. exact (apex_unique W T x z NW LW NT LT IT Wx Tx Wz Tz).
  - exfalso. apply nx. left. symmetry. exact (apex_unique W T x y NW LW NT LT IT Wx Tx Wy Ty).
  - exfalso. apply nx. left. symmetry. exact (apex_unique W T x y NW LW NT LT IT Wx Tx Wy Ty).
Qed.

(* any two vertices of a closed triangle are joined by one of its halfedges *)
Lemma tri_pair_or s hf u v : tri_ok s hf -> In u (hf_vertices s hf) -> In v (hf_vertices s hf) -> u <> v ->
  exists h, In h (halfface s hf) /\ ((he_from s h = u /\ he_to s h = v) \/ (he_from s h = v /\ he_to s h = u)).
Proof.
  intros (h0 & h1 & h2 & E & E0 & E1 & E2 & _) Hu Hv N. unfold hf_vertices in Hu, Hv. rewrite E in *. cbn [map In] in Hu, Hv.
  destruct Hu as [<-|[<-|[<-|[]]]]; destruct Hv as [<-|[<-|[<-|[]]]]; try (exfalso; apply N; reflexivity).
  - exists h0. cbn [In]. split; [auto|]. left. auto.
  - exists h2. cbn [In]. split; [auto|]. right. auto.
  - exists h0. cbn [In]. split; [auto|]. right. auto.
  - exists h1. cbn [In]. split; [auto|]. left. auto.
  - exists h2. cbn [In]. split; [auto|]. left. auto.
  - exists h1. cbn [In]. split; [auto|]. right. auto.
Qed.

Lemma tri_ok_vertices s hf : tri_ok s hf -> NoDup (hf_vertices s hf) /\ length (hf_vertices s hf) = 3.
Proof. intros (h0 & h1 & h2 & E & _ & _ & _ & N). unfold hf_vertices. rewrite E. split; [exact N | reflexivity]. Qed.

Section NoPar.
  Variables (s : mesh) (hfs : list nat).
  Hypothesis ND : NoDup (concat (map (halfface s) hfs)).
  Hypothesis NDh : NoDup hfs.
  Hypothesis L4 : length hfs = 4.
  Hypothesis V4 : length (hfs_vertex_set s hfs) = 4.
  Hypothesis TRI : forall hf, In hf hfs -> tri_ok s hf.
  Hypothesis NP : no_par s.
  Hypothesis LV : forall hf h, In hf hfs -> In h (halfface s hf) -> live_he_p s h.

  (* halfedges of two given halffaces with the same ends: the same halfface *)
  Lemma same_ends_same_face hf1 hf2 h g : In hf1 hfs -> In hf2 hfs -> In h (halfface s hf1) -> In g (halfface s hf2) ->
    he_from s h = he_from s g -> he_to s h = he_to s g -> hf1 = hf2.
  Proof.
    intros H1 H2 Hh Hg F T.
    assert (N : he_from s h <> he_to s h).
    { destruct (tri_ok_at s hf1 h (TRI hf1 H1) Hh) as (k1 & k2 & _ & E0 & _ & _ & Nd). rewrite E0. inversion Nd as [|? ? n _]; subst.
      intros X. apply n. left. symmetry. exact X. }
    pose proof (he_unique s h g NP (LV hf1 h H1 Hh) (LV hf2 g H2 Hg) F T N) as E. subst g.
    exact (concat_block_unique (halfface s) hfs hf1 hf2 h ND NDh H1 H2 Hh Hg).
  Qed.

  Lemma nopar_distinct hf hf' : In hf hfs -> In hf' hfs -> hf <> hf' -> ~ incl (hf_vertices s hf') (hf_vertices s hf).
  Proof.
    intros H H' N I.
    destruct (tri_ok_vertices s hf (TRI hf H)) as [NT LT]. destruct (tri_ok_vertices s hf' (TRI hf' H')) as [NT' LT'].
    assert (I' : incl (hf_vertices s hf) (hf_vertices s hf')) by (apply (NoDup_length_incl NT'); [lia | exact I]).
    destruct (third_element hfs hf hf' NDh L4) as (hf'' & H'' & N1 & N2).
    destruct (tri_ok_vertices s hf'' (TRI hf'' H'')) as [NT'' LT''].
    assert (IW : forall x, In x hfs -> incl (hf_vertices s x) (hfs_vertex_set s hfs)).
    { intros x Hx v Hv. apply hfs_vertex_set_In. exists x. split; assumption. }
    destruct (two_in_triple (hfs_vertex_set s hfs) (hf_vertices s hf) (hf_vertices s hf'') (hfs_vertex_set_NoDup s hfs) V4 NT LT (IW hf H)
                NT'' LT'' (IW hf'' H'')) as (u & v & Hu & Hv & Nuv & Tu & Tv).
    destruct (tri_pair_or s hf'' u v (TRI hf'' H'') Hu Hv Nuv) as (h2 & Hh2 & P2).
    destruct (tri_pair_or s hf u v (TRI hf H) Tu Tv Nuv) as (h0 & Hh0 & P0).
    destruct (tri_pair_or s hf' u v (TRI hf' H') (I' u Tu) (I' v Tv) Nuv) as (h1 & Hh1 & P1).
    destruct P0 as [[F0 T0]|[F0 T0]], P1 as [[F1 T1]|[F1 T1]], P2 as [[F2 T2]|[F2 T2]];
      first [ apply N; apply (same_ends_same_face hf hf' h0 h1 H H' Hh0 Hh1); congruence
            | apply N1; apply (same_ends_same_face hf'' hf h2 h0 H'' H Hh2 Hh0); congruence
            | apply N2; apply (same_ends_same_face hf'' hf' h2 h1 H'' H' Hh2 Hh1); congruence ].
  Qed.
End NoPar.

(* the accepted cell in a state without parallel edges *)
Theorem tet_add_cell_checked_ok_partial s hfs s' c : tet_add_cell s hfs true = (s', Some c) ->
  fbu s = true -> length (inc_cell s) = 2 * nf s -> (forall hf, In hf hfs -> hf < 2 * nf s) ->
  (forall hf, In hf hfs -> tri_ok s hf) ->
  no_par s -> (forall hf h, In hf hfs -> In h (halfface s hf) -> live_he_p s h) ->
  c = nc s /\ cell_at s' c = hfs /\ tet_cell_ok s' c hfs /\ tet_cell_ok_b s' c = true /\ tet_cell_inc_b s' c = true /\
  tet_wf s' c hfs (hfs_vertex_set s' hfs).
Proof.
  intros H Fb Li Rg TRI NP LV. apply (tet_add_cell_checked_ok_partial_sets s hfs s' c H Fb Li Rg TRI).
  destruct (tet_add_cell_checked_core s hfs s' c H) as (L4 & V4 & CC & _). apply cell_check_spec in CC. destruct CC as [_ [ND _]].
  assert (NDh : NoDup hfs).
  { apply (NoDup_concat_map (halfface s)); [exact ND|]. intros x Hx. exact (tri_ok_nonempty s x (TRI x Hx)). }
  exact (nopar_distinct s hfs ND NDh L4 V4 TRI NP LV).
Qed.

(* the form with the invariant of Mesh/TH3Base.v: live halffaces of a cre_inv state *)
Corollary tet_add_cell_checked_ok_cre s hfs s' c : tet_add_cell s hfs true = (s', Some c) ->
  cre_inv s -> fbu s = true -> (forall hf, In hf hfs -> hf / 2 < nf s /\ f_deleted s (hf / 2) = false) ->
  (forall hf, In hf hfs -> NoDup (hf_vertices s hf)) ->
  c = nc s /\ cell_at s' c = hfs /\ tet_cell_ok s' c hfs /\ tet_cell_ok_b s' c = true /\ tet_cell_inc_b s' c = true /\
  tet_wf s' c hfs (hfs_vertex_set s' hfs).
Proof.
  intros H C Fb LVf NDv.
  assert (V3 : forall hf, In hf hfs -> length (face_at s (hf / 2)) = 3) by exact (proj1 (proj2 (tet_add_cell_checked_guards s hfs s' c H))).
  apply (tet_add_cell_checked_ok_partial s hfs s' c H Fb).
  - destruct (cre_bu s C) as (_ & _ & _ & _ & (_ & _ & L3 & _)). exact (L3 Fb).
  - intros hf Hhf. destruct (LVf hf Hhf) as [r _]. lia.
  - intros hf Hhf. destruct (LVf hf Hhf) as [r d]. apply tri_ok_b_spec. unfold tri_ok_b.
    destruct (halfface_three s hf (V3 hf Hhf)) as (g0 & g1 & g2 & E). rewrite (cre_hf_loop s hf C r d). rewrite E at 1. cbn [length Nat.eqb andb].
    apply nodup_b_spec. exact (NDv hf Hhf).
  - exact (cre_no_par s C).
  - intros hf h Hhf Hh. destruct (LVf hf Hhf) as [r d]. exact (cre_hf_he s hf h C r d Hh).
Qed.

(* ================================================================== 3. after the fix 814053a: the full statement *)

(* the checked add_cell(halffaces) now also requires the four vertex TRIPLES to be different sets (hfs_triple_count = 4):
   no hypothesis on the state is needed any more *)
Theorem tet_add_cell_checked_ok s hfs s' c : tet_add_cell s hfs true = (s', Some c) ->
  fbu s = true -> length (inc_cell s) = 2 * nf s -> (forall hf, In hf hfs -> hf < 2 * nf s) ->
  (forall hf, In hf hfs -> tri_ok s hf) ->
  c = nc s /\ cell_at s' c = hfs /\ tet_cell_ok s' c hfs /\ tet_cell_ok_b s' c = true /\ tet_cell_inc_b s' c = true /\
  tet_wf s' c hfs (hfs_vertex_set s' hfs).
Proof.
  intros H Fb Li Rg TRI. apply (tet_add_cell_checked_ok_partial_sets s hfs s' c H Fb Li Rg TRI).
  destruct (tet_add_cell_checked_guards s hfs s' c H) as (_ & _ & _ & _ & DIF & _).
  intros hf hf' Hh Hh' N I. apply (DIF hf hf' Hh Hh' N). split; [|exact I].
  destruct (tri_ok_vertices s hf (TRI hf Hh)) as [NT LT]. destruct (tri_ok_vertices s hf' (TRI hf' Hh')) as [NT' LT'].
  apply (NoDup_length_incl NT'); [lia | exact I].
Qed.

(* ---- regression: the two former witnesses of the refuted statement.  hf = halfface 0 on (0,1,2); a second edge 1-2
   (add_edge(1,2,true)); x = halfface 2 on (1,2,3) over that edge; hfs = [hf; opp hf; x; opp x]: four halffaces of valence 3, four
   distinct vertices, every halfedge matched once - but two vertex triples only *)
Notation pillow_pre := [TK (AddVertices 4); TK (AddFaceV [0; 1; 2]); TK (AddEdge 1 2 true); TK (AddEdge 2 3 false); TK (AddEdge 3 1 false);
                        TK (AddFace [6; 8; 10] true)].

Example tet_two_pillows_rejected :
  let s := tet_run pillow_pre in let hfs := [0; 1; 2; 3] in
  tet_step s (TK (AddCell hfs true)) = TOk s None /\ tet_add_cell s hfs true = (s, None) /\
  fbu s = true /\ length (inc_cell s) = 2 * nf s /\ forallb (fun hf => hf <? 2 * nf s) hfs = true /\ forallb (tri_ok_b s) hfs = true /\
  cell_check s hfs = true /\ length (hfs_vertex_set s hfs) = 4 /\ hfs_triple_count s hfs = 2 /\ no_par_b s = false.
Proof. vm_compute. repeat split. Qed.

(* no halfface together with its opposite: duplicate faces 0, 1 on (0,1,2) and 2, 3 on (1,2,3) *)
Notation pillow_dup_pre := [TK (AddVertices 4); TK (AddFaceV [0; 1; 2]); TK (AddFace [0; 2; 4] true); TK (AddEdge 1 2 true); TK (AddEdge 2 3 false);
                            TK (AddEdge 3 1 false); TK (AddFace [6; 8; 10] true); TK (AddFace [6; 8; 10] true)].

Example tet_two_pillows_dup_rejected :
  let s := tet_run pillow_dup_pre in let hfs := [0; 3; 4; 7] in
  tet_step s (TK (AddCell hfs true)) = TOk s None /\ tet_add_cell s hfs true = (s, None) /\
  forallb (tri_ok_b s) hfs = true /\ forallb (fun hf => negb (memb (opp hf) hfs)) hfs = true /\
  cell_check s hfs = true /\ length (hfs_vertex_set s hfs) = 4 /\ hfs_triple_count s hfs = 2.
Proof. vm_compute. repeat split. Qed.

(* the UNCHECKED call still stores the two pillows (the caller's responsibility): no tetrahedron, get_cell_vertices empty *)
Theorem tet_add_cell_unchecked_stores_two_pillows :
  exists s hfs s' c, tet_step s (TK (AddCell hfs false)) = TOk s' (Some c) /\ tet_add_cell s hfs false = (s', Some c) /\
    forallb (tri_ok_b s) hfs = true /\ hfs = [0; 1; 2; 3] /\ map (hf_vertices s') hfs = [[0; 1; 2]; [0; 2; 1]; [1; 2; 3]; [1; 3; 2]] /\
    tet_cell_ok_b s' c = false /\ tet_cell_inc_b s' c = true /\
    gcv_c s' c = Some [] /\ gcv_hf s' 0 = Some [] /\ gcv_hf s' 2 = Some [1; 2; 3; 0] /\
    halfface_opposite_vertex s' 0 = None /\ tet_iter s' c 1 = None.
Proof.
  exists (tet_run pillow_pre), [0; 1; 2; 3], (fst (tet_add_cell (tet_run pillow_pre) [0; 1; 2; 3] false)), 0.
  vm_compute. repeat split.
Qed.

Print Assumptions tet_add_cell_checked_ok_partial_sets.
Print Assumptions tet_add_cell_checked_ok_partial.
Print Assumptions tet_add_cell_checked_ok_cre.
Print Assumptions tet_add_cell_checked_ok.
Print Assumptions tet_two_pillows_rejected.
Print Assumptions tet_two_pillows_dup_rejected.
Print Assumptions tet_add_cell_unchecked_stores_two_pillows.
