(* Mesh/TH3HexSummary.v -- C16: a cell created by add_cell(eight vertices) is a cube in the documented layout: the assembly of
   Mesh/TH3HexMain.v (well formed, ordered) with the theorems of Mesh/TH2HexMain.v (cube pattern of hex_vertices, layout, vertex-disjoint
   opposite faces), which then need no hypothesis on the cell. *)
From Coq Require Import ZArith Lia Bool Arith List ZifyNat ZifyBool.
From OVM Require Import Base.ListX Base.ListLemmas Kernel.State Kernel.Ops
                        Mesh.TetModel Mesh.HexModel Mesh.HexIterModel Mesh.HexProofs Mesh.TH2HexBase Mesh.TH2HexFrame Mesh.TH2HexMain
                        Mesh.TH3Base Mesh.TH3HexQuad Mesh.TH3HexCube Mesh.TH3HexMain Mesh.TH3HexVerts.
Import ListNotations.
Local Open Scope nat_scope.

Theorem created_cell_is_a_cube s s' a0 a1 a2 a3 a4 a5 a6 a7 chk c :
  hex_shape s -> cre_inv s -> NoDup [a0; a1; a2; a3; a4; a5; a6; a7] -> (forall v, In v [a0; a1; a2; a3; a4; a5; a6; a7] -> v < nv s) ->
  hex_add_cell_v s [a0; a1; a2; a3; a4; a5; a6; a7] chk = (s', Some c) ->
  c = nc s /\ c < nc s' /\ hex_shape s' /\
  hex_cell_wf_b s' c = true /\ check_halfface_ordering s' (cell_at s' c) = true /\
  hex_cube_pattern s' c /\ hex_layout s' (cell_at s' c) = true /\
  (let l := cell_at s' c in
   disjointb (hf_vertices s' (hx l 0)) (hf_vertices s' (hx l 1)) = true /\
   disjointb (hf_vertices s' (hx l 2)) (hf_vertices s' (hx l 3)) = true /\
   disjointb (hf_vertices s' (hx l 4)) (hf_vertices s' (hx l 5)) = true).
Proof.
  intros K C ND RV CALL.
  destruct (created_cell s s' a0 a1 a2 a3 a4 a5 a6 a7 chk c C ND RV CALL)
    as (h0 & h1 & h2 & h3 & h4 & h5 & Ec & NC & CA & _ & _ & _ & _ & _ & _ & _ & WF & ORD & _).
  assert (Hc : c < nc s') by lia. rewrite <- CA in ORD.
  pose proof (shape_hex_add_cell_v s [a0; a1; a2; a3; a4; a5; a6; a7] chk K) as K'. rewrite CALL in K'. cbn [fst] in K'.
  split; [exact Ec|]. split; [exact Hc|]. split; [exact K'|]. split; [exact WF|]. split; [exact ORD|].
  split; [exact (TH2_hex_vertices_cube_pattern s' c K' Hc ORD WF)|]. split; [exact (TH2_hex_cell_layout s' c K' Hc ORD WF)|].
  exact (TH2_hex_cell_opposite_faces_disjoint s' c K' Hc ORD WF).
Qed.

Print Assumptions created_cell_is_a_cube.
