(* Mesh/TH3HexQuad.v -- C16, cells created from eight vertices: toolkit.
     quad_edges        a live halfface of a cre_inv state whose vertex cycle is a rotation of (p0,p1,p2,p3) consists of four live
                       halfedges p0->p1, p1->p2, p2->p3, p3->p0 (up to the same rotation)
     find_ext_rot4     what find_halfface_extensive finds for a quad: a live halfface whose vertex cycle is a rotation of the quad
     NoDup_avp         pairs of entries of a duplicate-free vertex list at different index pairs are different (reflection)
     ord_pass_intro    the converse of TH2HexOrd.ord_pass_quad: a traversal that meets the right neighbours passes
   Proofs only. *)
From Coq Require Import ZArith Lia Bool Arith List ZifyNat ZifyBool Permutation.
From OVM Require Import Base.ListX Base.ListLemmas Kernel.State Kernel.Ops Kernel.Mirror Kernel.Recompute Kernel.Closure Kernel.CellCheck
                        Kernel.Construct Kernel.ExactInv Kernel.ExactRun Kernel2.ListAux
                        Mesh.TetModel Mesh.TetProofs Mesh.HexModel Mesh.HexIterModel Mesh.HexProofs Mesh.TH2CollapseBase Mesh.TH2CollapseLoop
                        Mesh.TH2HexBase Mesh.TH2HexOrd Mesh.TH2HexChecked Mesh.TH2HexEight Mesh.TH3Base.
Import ListNotations.
Ltac Zify.zify_post_hook ::= Z.div_mod_to_equations.
Local Open Scope nat_scope.

(* ================================================================== 1. the halfedges of a quad on known vertices *)

Lemma quad_edges s hf p0 p1 p2 p3 : cre_inv s -> hf / 2 < nf s -> f_deleted s (hf / 2) = false ->
  rot4 (hf_vertices s hf) [p0; p1; p2; p3] ->
  exists e0 e1 e2 e3, rot4 (halfface s hf) [e0; e1; e2; e3] /\
    he_ends s e0 = (p0, p1) /\ he_ends s e1 = (p1, p2) /\ he_ends s e2 = (p2, p3) /\ he_ends s e3 = (p3, p0) /\
    live_he_p s e0 /\ live_he_p s e1 /\ live_he_p s e2 /\ live_he_p s e3.
Proof.
  intros C Hf D R. pose proof (cre_hf_loop s hf C Hf D) as L.
  assert (LV : forall h, In h (halfface s hf) -> live_he_p s h) by (intros h; apply (cre_hf_he s hf h C Hf D)).
  pose proof (rot4_length_l _ _ R) as L4. unfold hf_vertices in L4, R. rewrite map_length in L4.
  destruct (len4_quad _ L4) as (g0 & g1 & g2 & g3 & E). rewrite E in *. cbn [map] in R.
  apply loop4 in L. destruct L as (l0 & l1 & l2 & l3).
  assert (V0 : live_he_p s g0) by (apply LV; cbn; tauto). assert (V1 : live_he_p s g1) by (apply LV; cbn; tauto).
  assert (V2 : live_he_p s g2) by (apply LV; cbn; tauto). assert (V3 : live_he_p s g3) by (apply LV; cbn; tauto).
  unfold he_ends.
  inversion R; subst.
  - exists g0, g1, g2, g3. split; [constructor|]. rewrite l0, l1, l2, l3. auto 10.
  - exists g1, g2, g3, g0. split; [constructor|]. rewrite l0, l1, l2, l3. auto 10.
  - exists g2, g3, g0, g1. split; [constructor|]. rewrite l0, l1, l2, l3. auto 10.
  - exists g3, g0, g1, g2. split; [constructor|]. rewrite l0, l1, l2, l3. auto 10.
Qed.

(* ================================================================== 2. find_halfface_extensive on a quad *)

Lemma find_ext_rot4 s q0 q1 q2 q3 hf : bu_inv s -> q0 < nv s -> find_halfface_extensive s [q0; q1; q2; q3] = Some hf ->
  hf / 2 < nf s /\ f_deleted s (hf / 2) = false /\ rot4 (hf_vertices s hf) [q0; q1; q2; q3].
Proof.
  intros B Ha. unfold find_halfface_extensive, find_halfedge. cbn [nth]. destruct (vbu s) eqn:V; [|discriminate].
  destruct (find (fun h => he_to s h =? q1) (out_at s q0)) as [he0|] eqn:F0; [|discriminate].
  destruct (ebu s) eqn:E; [|discriminate]. intros F. apply find_some in F. destruct F as [Hin C].
  apply find_some in F0. destruct F0 as [Hout _]. destruct B as (VO & EO & _).
  apply (VO V _ Ha) in Hout. destruct Hout as (r0 & _).
  apply (EO E he0 ltac:(lia)) in Hin. destruct Hin as (rf & df & _). split; [exact rf|]. split; [exact df|].
  apply andb_true_iff in C. destruct C as [C1 C2]. apply Nat.eqb_eq in C1. rewrite forallb_forall in C2. cbn [length] in C1.
  unfold hf_vertices. destruct (len4_quad _ C1) as (g0 & g1 & g2 & g3 & EH). rewrite EH in *. cbn [length] in C2.
  set (off := fold_left (fun o i => if nth i [g0; g1; g2; g3] 0 =? he0 then i else o) (seq 0 4) 0) in *.
  assert (K : forall i, i < 4 -> he_from s (nth ((i + off mod 4) mod 4) [g0; g1; g2; g3] 0) = nth i [q0; q1; q2; q3] 0).
  { intros i Hi. replace ((i + off mod 4) mod 4) with ((i + off) mod 4) by (rewrite Nat.add_mod_idemp_r by lia; reflexivity).
    apply Nat.eqb_eq. apply C2. apply in_seq. lia. }
  pose proof (Nat.mod_upper_bound off 4 ltac:(lia)) as U. clear C2. set (k := off mod 4) in *. clearbody k. clear off.
  pose proof (K 0 ltac:(lia)) as K0. pose proof (K 1 ltac:(lia)) as K1. pose proof (K 2 ltac:(lia)) as K2. pose proof (K 3 ltac:(lia)) as K3.
  cbn [map]. destruct k as [|[|[|[|k]]]]; [| | | | lia];
    cbn [Nat.add Nat.modulo Nat.divmod Nat.sub fst snd nth] in K0, K1, K2, K3; rewrite <- K0, <- K1, <- K2, <- K3; constructor.
Qed.

(* ================================================================== 3. reflection: pairs of entries of a duplicate-free list *)

Definition avp (vs : list nat) (p : nat * nat) : nat * nat := (nth (fst p) vs 0, nth (snd p) vs 0).

Fixpoint nodup_pb (l : list (nat * nat)) : bool :=
  match l with
  | [] => true
  | x :: t => negb (existsb (fun y => (fst x =? fst y) && (snd x =? snd y)) t) && nodup_pb t
  end.

Lemma nodup_pb_sound l : nodup_pb l = true -> NoDup l.
Proof.
  induction l as [|x t IH]; cbn [nodup_pb]; intros H; [constructor|]. apply andb_true_iff in H. destruct H as [H1 H2].
  constructor; [|exact (IH H2)]. intros Hin. apply negb_true_iff in H1.
  assert (X : existsb (fun y => (fst x =? fst y) && (snd x =? snd y)) t = true).
  { apply existsb_exists. exists x. split; [exact Hin|]. rewrite !Nat.eqb_refl. reflexivity. }
  congruence.
Qed.

Lemma NoDup_avp vs l : NoDup vs -> (forall p, In p l -> fst p < length vs /\ snd p < length vs) -> NoDup l -> NoDup (map (avp vs) l).
Proof.
  intros NV. induction l as [|x t IH]; intros R ND; [constructor|]. inversion ND as [|? ? Nx Nt]; subst. cbn [map]. constructor.
  - intros Hin. apply in_map_iff in Hin. destruct Hin as (y & Ey & Hy). apply Nx.
    destruct (R x (or_introl eq_refl)) as [x1 x2]. destruct (R y (or_intror Hy)) as [y1 y2].
    unfold avp in Ey. injection Ey as E1 E2.
    apply (proj1 (NoDup_nth vs 0) NV) in E1; [|assumption..]. apply (proj1 (NoDup_nth vs 0) NV) in E2; [|assumption..].
    destruct x as [xa xb], y as [ya yb]. cbn [fst snd] in *. subst. exact Hy.
  - apply IH; [intros p Hp; apply R; right; exact Hp | exact Nt].
Qed.

Definition in_range_pb (n : nat) (l : list (nat * nat)) : bool := forallb (fun p => (fst p <? n) && (snd p <? n)) l.

Lemma NoDup_avp_b vs l : NoDup vs -> in_range_pb (length vs) l = true -> nodup_pb l = true -> NoDup (map (avp vs) l).
Proof.
  intros NV R ND. apply NoDup_avp; [exact NV| |exact (nodup_pb_sound l ND)].
  unfold in_range_pb in R. rewrite forallb_forall in R. intros p Hp. specialize (R p Hp). apply andb_true_iff in R. destruct R as [A B].
  apply Nat.ltb_lt in A, B. split; assumption.
Qed.

(* ================================================================== 4. a traversal that meets the right neighbours passes *)

Lemma find_index_in_order (l : list nat) order k : NoDup l -> length l = 6 -> order = order_top \/ order = order_bot -> k < 4 ->
  find_index (fun i => hx l i =? hx l (nth k order 0)) order = Some k.
Proof.
  intros ND L6 OO Hk. unfold find_index.
  assert (LO : length order = 4) by (destruct OO as [-> | ->]; reflexivity).
  assert (RG : forall j, j < 4 -> nth j order 0 < 6) by (intros j Hj; destruct OO as [-> | ->]; destruct j as [|[|[|[|]]]]; cbn; lia).
  assert (INJ : forall i j, i < 4 -> j < 4 -> nth i order 0 = nth j order 0 -> i = j).
  { intros i j Hi Hj. destruct OO as [-> | ->]; destruct i as [|[|[|[|]]]]; try lia; destruct j as [|[|[|[|]]]]; try lia; cbn; lia. }
  rewrite (find_index_from_first _ order k 0 0); [reflexivity | lia | apply Nat.eqb_refl|].
  intros j Hj. apply Nat.eqb_neq. intros E. unfold hx in E.
  apply (proj1 (NoDup_nth l 0) ND) in E; [|rewrite L6; apply RG; lia..]. apply INJ in E; lia.
Qed.

Theorem ord_pass_intro s (l : list nat) h order f0 f1 f2 f3 k :
  NoDup l -> length l = 6 -> order = order_top \/ order = order_bot -> k < 4 ->
  halfface s h = [f0; f1; f2; f3] ->
  get_adjacent_halfface s (Some h) (Some f0) l = Some (hx l (nth k order 0)) ->
  get_adjacent_halfface s (Some h) (Some f1) l = Some (hx l (nth ((k + 1) mod 4) order 0)) ->
  get_adjacent_halfface s (Some h) (Some f2) l = Some (hx l (nth ((k + 2) mod 4) order 0)) ->
  get_adjacent_halfface s (Some h) (Some f3) l = Some (hx l (nth ((k + 3) mod 4) order 0)) ->
  ord_pass s l h order order = true.
Proof.
  intros ND L6 OO Hk Hf G0 G1 G2 G3. unfold ord_pass. rewrite Hf. cbn [fold_left].
  rewrite (ord_step_first s l h order order f0 _ G0), (find_index_in_order l order k ND L6 OO Hk).
  rewrite (ord_step_next s l h order order k f1 _ G1), Nat.eqb_refl.
  rewrite (ord_step_next s l h order order _ f2 _ G2).
  replace (((k + 1) mod 4 + 1) mod 4) with ((k + 2) mod 4) by lia. rewrite Nat.eqb_refl.
  rewrite (ord_step_next s l h order order _ f3 _ G3).
  replace (((k + 2) mod 4 + 1) mod 4) with ((k + 3) mod 4) by lia. rewrite Nat.eqb_refl. reflexivity.
Qed.

Print Assumptions quad_edges.
Print Assumptions find_ext_rot4.
Print Assumptions ord_pass_intro.
