(* Mesh/TH3ColMain.v -- C15, collapse_edge(a -> b) with deferred deletion on: the INVARIANT of the result.

   link_ok s heh (decidable: link_ok_b), a hypothesis on the state BEFORE the call, with a = from(heh), b = to(heh),
   R = the rebuilt tets (incident to a, not containing the halfedge):
     1. no parallel live edges between the images (a replaced by b) of two vertices of a halfface of a rebuilt tet
        (add_halfedge takes the FIRST halfedge x -> y; with parallel edges two image triangles of one tet may pick
        different edges for the same vertex pair and the rebuilt cell is not closed);
     2. every rebuilt tet is tet-like: no two of its halffaces have a common directed edge or are mirror images;
     3. no two halffaces of rebuilt tets are on the same vertex cycle (else two rebuilt cells get the same halfface);
     4. THE LINK CONDITION proper: a live halfface of s on the image cycle of a halfface of a rebuilt tet is free or
        belongs to a cell of the star of a (which the collapse deletes) - never to a surviving cell.
   Under collapse_ready s heh /\ link_ok s heh the result satisfies bu_inv2 and szd, and every predicate kept by the
   five kernel steps of the collapse (col_closed: Hinv, full_inv) that holds before holds after. *)
From Coq Require Import ZArith Lia Bool Arith List ZifyNat ZifyBool.
From OVM Require Import Base.ListX Base.ListLemmas Kernel.State Kernel.Ops Kernel.Mirror Kernel.Recompute Kernel.Closure Kernel.Sizes
                        Kernel.ExactInv Kernel.ExactRun Kernel.DeferredDelete Kernel.CellCheck Kernel2.ReorderExact Kernel2.ExactBase Kernel2.ExactHistory
                        Kernel2.ExactDeletions Kernel2.ExactAddCell Kernel3.GcDefs Kernel3.GcHist
                        Mesh.TetModel Mesh.TetProofs Mesh.TH2CollapseBase Mesh.TH2CollapseLoop Mesh.TH2CollapseFold Mesh.TH2CollapseStar
                        Mesh.TH2ShapeHist Mesh.TH2CollapseMain Mesh.TH2CollapseTuple Mesh.TH2CollapseFinal Mesh.TH2CollapseModes
                        Mesh.TH3ColBase Mesh.TH3ColLoop Mesh.TH3ColReadd.
Import ListNotations.
Ltac Zify.zify_post_hook ::= Z.div_mod_to_equations.
Local Open Scope nat_scope.

(* ================================================================== the hypothesis *)

(* p and q are the images of two vertices of one halfface of a rebuilt tet *)
Definition img_pair_b (s : mesh) (heh : nat) (p q : nat) : bool :=
  let a := he_from s heh in let b := he_to s heh in
  existsb (fun c => existsb (fun hf => memb p (map (sub a b) (hf_vertices s hf)) && memb q (map (sub a b) (hf_vertices s hf)))
                            (cell_at s c))
          (rebuilt_cells s heh).

Definition npar_b (qb : nat -> nat -> bool) (s : mesh) : bool :=
  forallb (fun h => forallb (fun h' =>
      e_deleted s (h / 2) || e_deleted s (h' / 2) || negb (he_from s h =? he_from s h') || negb (he_to s h =? he_to s h') ||
      negb (qb (he_from s h) (he_to s h)) || (h =? h')) (seq 0 (2 * ne s))) (seq 0 (2 * ne s)).

Lemma npar_b_sound qb s : npar_b qb s = true -> npar (fun p q => qb p q = true) s.
Proof.
  unfold npar_b. rewrite forallb_forall. intros H h h' R R' D D' Fr To Qh.
  specialize (H h ltac:(apply in_seq; lia)). rewrite forallb_forall in H. specialize (H h' ltac:(apply in_seq; lia)).
  rewrite D, D', Fr, To, !Nat.eqb_refl in H. rewrite <- Fr, <- To, Qh in H. cbn [negb orb] in H. apply Nat.eqb_eq. exact H.
Qed.

Definition free_or_star_b (s : mesh) (heh : nat) : bool :=
  let a := he_from s heh in let b := he_to s heh in
  forallb (fun c => forallb (fun hf => forallb (fun x =>
      f_deleted s (x / 2) || negb (rot3_b (map (sub a b) (hf_vertices s hf)) (hf_vertices s x)) ||
      match cell_of s x with None => true | Some c' => memb c' (star s a) end) (seq 0 (2 * nf s))) (cell_at s c))
    (rebuilt_cells s heh).

Definition link_ok (s : mesh) (heh : nat) : Prop :=
  let a := he_from s heh in let b := he_to s heh in
  npar (fun p q => img_pair_b s heh p q = true) s /\
  (forall c, In c (rebuilt_cells s heh) -> tetc s c) /\
  pw_nonrot_b (map (hf_vertices s) (rebuilt_halffaces s heh)) = true /\
  (forall c hf x c', In c (rebuilt_cells s heh) -> In hf (cell_at s c) -> x / 2 < nf s -> f_deleted s (x / 2) = false ->
     rot3 (map (sub a b) (hf_vertices s hf)) (hf_vertices s x) -> cell_of s x = Some c' -> In c' (star s a)).

Definition link_ok_b (s : mesh) (heh : nat) : bool :=
  npar_b (img_pair_b s heh) s && forallb (tetc_b s) (rebuilt_cells s heh) &&
  pw_nonrot_b (map (hf_vertices s) (rebuilt_halffaces s heh)) && free_or_star_b s heh.

Theorem link_ok_b_sound s heh : link_ok_b s heh = true -> link_ok s heh.
Proof.
  unfold link_ok_b, link_ok. rewrite !andb_true_iff. intros [[[A B] C] D]. cbv zeta.
  split; [apply npar_b_sound; exact A|].
  split; [intros c Hc; apply tetc_b_sound; rewrite forallb_forall in B; exact (B c Hc)|].
  split; [exact C|].
  intros c hf x c' Hc Hhf Rx Dx RO CO. unfold free_or_star_b in D. cbv zeta in D. rewrite forallb_forall in D. specialize (D c Hc).
  rewrite forallb_forall in D. specialize (D hf Hhf). rewrite forallb_forall in D. specialize (D x ltac:(apply in_seq; lia)).
  rewrite Dx, (rot3_b_complete _ _ RO), CO in D. cbn [negb orb] in D. apply memb_In. exact D.
Qed.

(* global absence of parallel live edges implies clause 1 *)
Definition no_par (s : mesh) : Prop := npar (fun _ _ => True) s.
Lemma no_par_npar Q s : no_par s -> npar Q s.
Proof. intros H h h' R R' D D' Fr To _. exact (H h h' R R' D D' Fr To I). Qed.

(* ================================================================== the images of the rebuilt halffaces *)
Lemma news_forall2 a b s t : forall Rl news, news_ok a b s t Rl news ->
  Forall2 (fun hf n => img a b t (hf_vertices s hf) n) (flat_map (cell_at s) Rl) (concat (map snd news)).
Proof.
  intros Rl news H. induction H as [|ch n Rl news [E I] _ IH]; [constructor|]. cbn [flat_map map concat].
  apply Forall2_app; [exact (cell_img_forall2 a b s t ch (snd n) I) | exact IH].
Qed.

Lemma news_in a b s t Rl news n : news_ok a b s t Rl news -> In n news -> In (fst n) Rl /\ cell_img a b s t (fst n) (snd n).
Proof.
  intros H Hn. destruct (forall2_in_r _ _ _ n H Hn) as (ch & Hch & E & I). rewrite E. auto.
Qed.

Section MainInv.
  Variables (s : mesh) (heh : nat).
  Hypothesis RDY : collapse_ready s heh.
  Hypothesis LK : link_ok s heh.
  Variable P : mesh -> Prop.
  Hypothesis HP : col_closed P.
  Hypothesis P0 : P s.
  Let a := he_from s heh.
  Let b := he_to s heh.
  Let R := rebuilt_cells s heh.
  Let Q := fun p q => img_pair_b s heh p q = true.

  Let Hab : a <> b := Hab_ s heh RDY.
  Let L0 : L1 a b s s := L0_ s heh RDY.
  Let Ha : a < nv s := Ha_ s heh RDY.

  Lemma edge_ab : heh / 2 < ne s /\ e_deleted s (heh / 2) = false /\
    (fst (edge_at s (heh / 2)) = a \/ snd (edge_at s (heh / 2)) = a) /\ (fst (edge_at s (heh / 2)) = b \/ snd (edge_at s (heh / 2)) = b).
  Proof.
    pose proof RDY as (_ & _ & _ & _ & _ & _ & Rh & Dh & _). split; [exact Rh|]. split; [exact Dh|].
    unfold a, b, he_from, he_to. generalize (edge_at s (heh / 2)). intros [p q]. cbn [fst snd]. generalize (Nat.even heh). intros [|]; auto.
  Qed.

  Lemma Hbl_ : exists e0, e0 < ne s /\ e_deleted s e0 = false /\ (fst (edge_at s e0) = b \/ snd (edge_at s e0) = b).
  Proof. destruct edge_ab as (x & y & _ & z). exists (heh / 2). auto. Qed.

  Lemma R_in_star c : In c R -> In c (star s a) /\ c < nc s /\ c_deleted s c = false.
  Proof.
    intros H. unfold R in H. rewrite (R_filter s heh RDY) in H. apply filter_In in H. destruct H as [H _].
    split; [exact H | exact (star_facts s heh c H)].
  Qed.

  Lemma R_cell_ok c : In c R -> cell_ok b s c.
  Proof. intros H hf Hin. pose proof RDY as (_ & _ & _ & _ & _ & _ & _ & _ & _ & OK). exact (OK c H hf Hin). Qed.

  Lemma R_Q c hf p q : In c R -> In hf (cell_at s c) -> In p (hf_vertices s hf) -> In q (hf_vertices s hf) -> Q (sub a b p) (sub a b q).
  Proof.
    intros Hc Hhf Hp Hq. unfold Q, img_pair_b. cbv zeta. apply existsb_exists. exists c. split; [exact Hc|].
    apply existsb_exists. exists hf. split; [exact Hhf|]. apply andb_true_iff. split; apply memb_In; apply in_map; assumption.
  Qed.

  (* ---------------------------------------------------------------- phase 1 *)
  Lemma phase1_inv : exists s1 news,
    fold_left (collapse_cell a b (collapsing_cells s heh)) (vertex_cells s a) (Some (s, [])) = Some (s1, news) /\
    L2 a b s Q P s1 /\ cdel s1 = flag_all R (cdel s) /\ news_ok a b s s1 R news.
  Proof.
    rewrite (vertex_cells_is_star a b s Hab L0 Ha).
    assert (LL : L2 a b s Q P s) by (split; [exact L0 | split; [exact (proj1 LK) | exact P0]]).
    destruct (fold_cells_spec2 a b s Hab Q P HP L0 Hbl_ (collapsing_cells s heh) (star s a) s [] LL) as (s1 & news & Q1 & L & _ & CD & NO).
    - unfold star. apply NoDup_cells_at_faces.
    - intros c Hc. destruct (star_facts s heh c Hc) as [x y]. auto.
    - intros c Hc M. apply R_cell_ok. unfold R. rewrite (R_filter s heh RDY). apply filter_In. split; [exact Hc|]. unfold keepb. rewrite M. reflexivity.
    - exists s1, news. unfold R. rewrite (R_filter s heh RDY). cbn [app] in Q1. auto.
  Qed.

  (* ---------------------------------------------------------------- the flags after delete_vertex *)
  Lemma flags_after s1 : L1 a b s s1 -> cdel s1 = flag_all R (cdel s) -> forall c, c < nc s ->
    c_deleted (delete_vertex a s1) c = c_deleted s c || memb c (star s a).
  Proof.
    intros L CD1 c Hc. pose proof L as (G & B1 & _).
    assert (Ha1 : a < nv s1) by (destruct G as (n & _); rewrite n; exact Ha).
    pose proof (delete_vertex_flags s1 a (proj1 B1) (bu_inv2_deferred s1 B1) Ha1) as V. cbv zeta in V.
    destruct V as (_ & _ & _ & _ & _ & _ & _ & v8 & _).
    pose proof (L1_lens a b s s L0) as (_ & _ & Lc0).
    unfold c_deleted at 1. rewrite v8, CD1.
    rewrite nth_flag_rev by (rewrite flag_all_length, Lc0; exact Hc). rewrite nth_flag_all by (rewrite Lc0; exact Hc).
    fold (c_deleted s c). destruct (c_deleted s c); [reflexivity|]. cbn [orb].
    pose proof (star_after_loop a b s Hab L0 s1 R c L CD1) as SA.
    destruct (memb c (star s a)) eqn:MS.
    - destruct (memb c R) eqn:MR; [reflexivity|]. cbn [orb]. apply memb_In. apply SA. split; [apply memb_In; exact MS | reflexivity].
    - assert (MR : memb c R = false).
      { destruct (memb c R) eqn:MR; [|reflexivity]. apply memb_In in MR. destruct (R_in_star c MR) as [X _]. apply memb_In in X. congruence. }
      rewrite MR. cbn [orb]. destruct (memb c (star s1 a)) eqn:M1; [|reflexivity]. apply memb_In in M1. apply SA in M1.
      destruct M1 as [M1 _]. apply memb_In in M1. congruence.
  Qed.

  (* ---------------------------------------------------------------- the call *)
  Theorem collapse_edge_inv_gen : exists s',
    collapse_edge s heh = Some (s', b) /\ collapse_result s heh s' /\ bu_inv2 s' /\ szd s' /\ P s' /\ faces_loop s'.
  Proof.
    destruct phase1_inv as (s1 & news & Q1 & (L & NP1 & P1) & CD1 & NO1).
    pose proof L as (G & B1 & Z1 & _ & K1 & FLo1 & _).
    pose proof (bu_inv2_deferred s1 B1) as D1.
    assert (Ha1 : a < nv s1) by (destruct G as (n & _); rewrite n; exact Ha).
    pose proof (delete_vertex_flags s1 a (proj1 B1) D1 Ha1) as V. cbv zeta in V.
    pose proof (flags_after s1 L CD1) as FA.
    pose proof (bu_inv2_delete_vertex a s1 B1 Ha1) as B2.
    pose proof (szd_delete_vertex a s1 Z1 Ha1) as Z2.
    pose proof (L1_lens a b s s1 L) as (Le1 & Lf1 & Lc1).
    pose proof (L1_lens a b s s L0) as (Le0 & Lf0 & Lc0).
    assert (P2 : P (delete_vertex a s1)).
    { apply (proj1 (proj2 (proj2 (proj2 HP))) s1 a P1 B1 Ha1). intros (U & _).
      destruct edge_ab as (Rh & Dh & EA & _).
      assert (Rh' : heh / 2 < ne s1) by (pose proof (grow_ne s s1 G Le0 Lf0); lia).
      assert (Dh' : e_deleted s1 (heh / 2) = false) by (rewrite (grow_e_deleted s s1 G Le0 _ Rh); exact Dh).
      destruct (U _ Rh' Dh') as [U1 U2]. rewrite (grow_edge_at s s1 G _ Rh) in U1, U2. destruct EA as [EA|EA]; rewrite <- EA; assumption. }
    set (s2 := delete_vertex a s1) in *. destruct V as (v1 & v2 & v3 & v4 & v5 & v6 & v7 & v8 & v9).
    assert (K2 : tet_shape s2) by (destruct K1 as [A C]; split; [rewrite v3; exact A | rewrite v4; exact C]).
    (* the images survive the deletion of a *)
    assert (M12 : forall vs n, img a b s1 vs n -> img a b s2 vs n).
    { intros vs n I. pose proof (img_not_at_a a b s s1 vs n Hab L I) as NA. destruct I as (r & d & ro).
      split; [unfold nf; rewrite v3; exact r|]. split.
      - unfold f_deleted. rewrite v7, nth_flag_rev by (rewrite Lf1; exact r). fold (f_deleted s1 (n / 2)). rewrite d. cbn [orb].
        destruct (memb (n / 2) (faces_at_edges s1 (edges_at_vertex s1 a))) eqn:M; [|reflexivity]. apply memb_In in M. contradiction.
      - rewrite (hf_vertices_same s1 s2 n v3 v2). exact ro. }
    pose proof (news_ok_mono s heh s1 s2 R news M12 NO1) as NO2.
    destruct (news_ok_shape s heh s2 R news NO2) as (LN & MF & SH).
    destruct G as (g1 & g2 & (E & g3 & g4) & (F & g5 & g6) & g7 & _).
    assert (NC2 : nc s2 = nc s) by (unfold nc; rewrite v4, g7; reflexivity).
    assert (CA2 : forall c, cell_at s2 c = cell_at s c) by (intros c; unfold cell_at; rewrite v4, g7; reflexivity).
    pose proof L0 as (_ & B0 & _).
    (* every new cell is new_cell_ok in s2 *)
    assert (NEW : forall n, In n news -> length (snd n) = 4 /\ new_cell_ok s2 (snd n)).
    { intros n Hn. split; [exact (proj1 (SH n Hn))|].
      destruct (news_in a b s s1 R news n NO1 Hn) as [HR CI1]. destruct (R_in_star _ HR) as (_ & Hc & Dc).
      pose proof LK as (_ & LK2 & _ & LK4).
      destruct (img_cell_check a b s s1 Hab L0 L Q NP1 (fst n) Hc Dc (R_cell_ok _ HR) (fun hf H p q => R_Q _ hf p q HR H)
                  (LK2 _ HR) (snd n) CI1) as [CK NOPP].
      split; [rewrite (cell_check_same s1 s2 _ v3); exact CK|].
      intros x Hx. destruct (forall2_in_r _ _ _ x (cell_img_forall2 a b s s1 _ _ CI1) Hx) as (hf & Hhf & I1).
      pose proof (M12 _ _ I1) as (r2 & d2 & ro2).
      split; [exact r2|]. split; [exact d2|]. split; [|exact (NOPP x Hx)].
      destruct (cell_of s2 x) as [c'|] eqn:CO; [|reflexivity]. exfalso.
      apply (bu_inv2_fbu_ok s2 B2 (bu_inv2_fbu s2 B2) x (half_lt _ _ r2)) in CO. destruct CO as (rc & dc & ic).
      rewrite NC2 in rc. rewrite CA2 in ic. rewrite (FA c' rc) in dc. apply orb_false_iff in dc. destruct dc as [dc ms].
      destruct B0 as (_ & _ & _ & _ & _ & CR & _). destruct (CR c' x rc dc ic) as [rx dx].
      assert (CO0 : cell_of s x = Some c') by (apply (bu_inv2_fbu_ok s (proj1 (proj2 L0)) (bu_inv2_fbu s (proj1 (proj2 L0))) x (half_lt _ _ rx)); auto).
      assert (HV : hf_vertices s2 x = hf_vertices s x).
      { rewrite (hf_vertices_same s1 s2 x v3 v2).
        exact (proj1 (live_hf_vertices_grow a b s Hab s s1 x L0 (proj1 L) rx dx)). }
      rewrite HV in ro2. pose proof (LK4 (fst n) hf x c' HR Hhf rx dx ro2 CO0) as X. apply memb_In in X. exact (eq_true_false_abs _ X ms). }
    (* the new halffaces are pairwise different *)
    assert (ND : NoDup (concat (map snd news))).
    { apply (nodup_images a b s s2 (flat_map (cell_at s) R) (concat (map snd news))).
      - exact (news_forall2 a b s s2 R news NO2).
      - intros hf Hin. apply in_flat_map in Hin. destruct Hin as (c & Hc & Hhf). exact (R_cell_ok c Hc hf Hhf).
      - exact (proj1 (proj2 (proj2 LK))). }
    destruct (readd_fold P HP news s2 B2 Z2 K2 P2 NEW ND) as (s3 & Q3 & B3 & Z3 & K3 & P3 & SD).
    assert (D3 : deferred s3 = true) by exact (bu_inv2_deferred s3 B3).
    assert (QQ : collapse_edge s heh = Some (s3, b)).
    { unfold collapse_edge. pose proof RDY as (B & _). rewrite (bu_inv2_deferred s B). cbn [negb]. cbv zeta. unfold bind.
      fold a. fold b. rewrite Q1. fold s2. rewrite Q3. rewrite (enable_deferred_true_id s3 D3). reflexivity. }
    exists s3. split; [exact QQ|]. split.
    { destruct (collapse_edge_deferred_cells s heh RDY) as (s'' & Q' & CR). fold b in Q'. rewrite QQ in Q'. injection Q' as <-. exact CR. }
    split; [exact B3|]. split; [exact Z3|]. split; [exact P3|].
    (* every live face of the result is a live face of s1 with the same halfedges *)
    intros f Hf Df. rewrite (same_defs_nf s2 s3 SD) in Hf. rewrite (same_defs_f_deleted s2 s3 f SD) in Df.
    assert (Hf1 : f < nf s1) by (unfold nf in *; rewrite v3 in Hf; exact Hf).
    unfold f_deleted in Df. rewrite v7, nth_flag_rev in Df by (rewrite Lf1; exact Hf1). apply orb_false_iff in Df. destruct Df as [Df _].
    destruct SD as (_ & d2 & d3 & _).
    assert (FA3 : face_at s3 f = face_at s1 f) by (unfold face_at; rewrite d3, v3; reflexivity).
    rewrite FA3, (loop_ok_ext s1 s3); [exact (FLo1 f Hf1 Df)|].
    intros h _. unfold he_from, he_to, edge_at. rewrite d2, v2. split; reflexivity.
  Qed.
End MainInv.

Print Assumptions link_ok_b_sound.
Print Assumptions collapse_edge_inv_gen.
