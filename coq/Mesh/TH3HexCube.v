(* Mesh/TH3HexCube.v -- C16, cells created from eight vertices: the STATIC part.

   In a state with cre_inv (exact caches, faces closed loops of live halfedges, no parallel edges), six live halffaces h0..h5 whose
   vertex cycles are rotations of the six quads hex_quads [a0..a7] of eight pairwise distinct vertices fit together as a cube:
     - the 24 halfedges are pairwise different and each is matched by its opposite (matched_once: what cell_check tests),
     - the six halffaces are different, each a closed loop of four halfedges on four distinct vertices,
     - the list [h0..h5] passes check_halfface_ordering (the hex kernel never runs it for add_cell(vertices)).
   Proofs only. *)
From Coq Require Import ZArith Lia Bool Arith List ZifyNat ZifyBool Permutation.
From OVM Require Import Base.ListX Base.ListLemmas Kernel.State Kernel.Ops Kernel.Mirror Kernel.Recompute Kernel.Closure Kernel.CellCheck
                        Kernel.Construct Kernel.ExactInv Kernel.ExactRun Kernel2.ListAux
                        Mesh.TetModel Mesh.TetProofs Mesh.HexModel Mesh.HexIterModel Mesh.HexProofs Mesh.TH2CollapseBase Mesh.TH2CollapseLoop
                        Mesh.TH2HexBase Mesh.TH2HexAdj Mesh.TH2HexOrd Mesh.TH2HexChecked Mesh.TH2HexEight Mesh.TH2HexWf Mesh.TH3Base Mesh.TH3HexQuad.
Import ListNotations.
Ltac Zify.zify_post_hook ::= Z.div_mod_to_equations.
Local Open Scope nat_scope.

(* a live halfface whose vertex cycle is a rotation of the quad q *)
Definition hf_on (s : mesh) (hf : nat) (q : list nat) : Prop :=
  hf / 2 < nf s /\ f_deleted s (hf / 2) = false /\ rot4 (hf_vertices s hf) q.

Lemma rot4_cases {A} (S : list A) x0 x1 x2 x3 : rot4 S [x0; x1; x2; x3] ->
  S = [x0; x1; x2; x3] \/ S = [x3; x0; x1; x2] \/ S = [x2; x3; x0; x1] \/ S = [x1; x2; x3; x0].
Proof. intros H. inversion H; subst; tauto. Qed.

Lemma nodup4_intro (a b c d : nat) : a <> b -> a <> c -> a <> d -> b <> c -> b <> d -> c <> d -> NoDup [a; b; c; d].
Proof.
  intros. repeat constructor; cbn [In]; intuition.
Qed.

Lemma opp_by_ends s h h' u v : no_par s -> live_he_p s h -> live_he_p s h' ->
  he_ends s h = (u, v) -> he_ends s h' = (v, u) -> u <> v -> h' = opp h.
Proof.
  intros NP L L' E E' N. unfold he_ends in E, E'. injection E as F T. injection E' as F' T'.
  apply (he_unique_opp s h h' NP L L'); congruence.
Qed.

(* the index pairs of the 24 halfedges, face by face *)
Definition IDX24 : list (nat * nat) :=
  [(3, 2); (2, 1); (1, 0); (0, 3);  (7, 6); (6, 5); (5, 4); (4, 7);  (1, 2); (2, 6); (6, 7); (7, 1);
   (4, 5); (5, 3); (3, 0); (0, 4);  (1, 7); (7, 4); (4, 0); (0, 1);  (2, 3); (3, 5); (5, 6); (6, 2)].

Section Named.
  Variables (s : mesh) (a0 a1 a2 a3 a4 a5 a6 a7 : nat) (h0 h1 h2 h3 h4 h5 : nat).
  Variables (t0 t1 t2 t3 b0 b1 b2 b3 c0 c1 c2 c3 d0 d1 d2 d3 f0 f1 f2 f3 g0 g1 g2 g3 : nat).
  Let vs := [a0; a1; a2; a3; a4; a5; a6; a7].
  Let l := [h0; h1; h2; h3; h4; h5].
  Let E24 := [t0; t1; t2; t3; b0; b1; b2; b3; c0; c1; c2; c3; d0; d1; d2; d3; f0; f1; f2; f3; g0; g1; g2; g3].
  Hypothesis NP : no_par s.
  Hypothesis ND8 : NoDup vs.
  Hypothesis RT : rot4 (halfface s h0) [t0; t1; t2; t3].
  Hypothesis RB : rot4 (halfface s h1) [b0; b1; b2; b3].
  Hypothesis RC : rot4 (halfface s h2) [c0; c1; c2; c3].
  Hypothesis RD : rot4 (halfface s h3) [d0; d1; d2; d3].
  Hypothesis RF : rot4 (halfface s h4) [f0; f1; f2; f3].
  Hypothesis RG : rot4 (halfface s h5) [g0; g1; g2; g3].
  Hypothesis ENDS : map (he_ends s) E24 = map (avp vs) IDX24.
  Hypothesis LV : forall h, In h E24 -> live_he_p s h.
  Hypothesis LO : forall h, In h l -> loop_ok s (halfface s h) = true.
  Hypothesis QV : forall h, In h l -> NoDup (hf_vertices s h).

  Lemma nm_neq : (a0 <> a1 /\ a0 <> a2 /\ a0 <> a3 /\ a0 <> a4 /\ a0 <> a5 /\ a0 <> a6 /\ a0 <> a7) /\
    (a1 <> a2 /\ a1 <> a3 /\ a1 <> a4 /\ a1 <> a5 /\ a1 <> a6 /\ a1 <> a7) /\ (a2 <> a3 /\ a2 <> a4 /\ a2 <> a5 /\ a2 <> a6 /\ a2 <> a7) /\
    (a3 <> a4 /\ a3 <> a5 /\ a3 <> a6 /\ a3 <> a7) /\ (a4 <> a5 /\ a4 <> a6 /\ a4 <> a7) /\ (a5 <> a6 /\ a5 <> a7) /\ a6 <> a7.
  Proof. exact (nodup8_neq a0 a1 a2 a3 a4 a5 a6 a7 ND8). Qed.

  Lemma nm_nodup24 : NoDup E24.
  Proof.
    apply (NoDup_map_inv (he_ends s)). rewrite ENDS. apply NoDup_avp_b; [exact ND8 | vm_compute; reflexivity | vm_compute; reflexivity].
  Qed.

  (* the ends of the k-th halfedge *)
  Lemma nm_ends k : k < 24 -> he_ends s (nth k E24 0) = avp vs (nth k IDX24 (0, 0)).
  Proof.
    intros Hk. pose proof (f_equal (fun m => nth k m (0, 0)) ENDS) as X. cbv beta in X.
    rewrite (nth_indep _ (0, 0) (he_ends s 0)) in X by (rewrite map_length; exact Hk). rewrite map_nth in X.
    rewrite (nth_indep _ (0, 0) (avp vs (0, 0))) in X by (rewrite map_length; exact Hk). rewrite map_nth in X. exact X.
  Qed.

  (* X = opp Y for the twelve pairs *)
  Lemma nm_opp i j : i < 24 -> j < 24 -> nth j IDX24 (0, 0) = (snd (nth i IDX24 (0, 0)), fst (nth i IDX24 (0, 0))) ->
    fst (nth i IDX24 (0, 0)) <> snd (nth i IDX24 (0, 0)) -> fst (nth i IDX24 (0, 0)) < 8 -> snd (nth i IDX24 (0, 0)) < 8 ->
    nth j E24 0 = opp (nth i E24 0).
  Proof.
    intros Hi Hj SW NE R1 R2.
    apply (opp_by_ends s (nth i E24 0) (nth j E24 0) (nth (fst (nth i IDX24 (0, 0))) vs 0) (nth (snd (nth i IDX24 (0, 0))) vs 0) NP).
    - apply LV. apply nth_In. exact Hi.
    - apply LV. apply nth_In. exact Hj.
    - rewrite (nm_ends i Hi). reflexivity.
    - rewrite (nm_ends j Hj), SW. reflexivity.
    - intros E. apply NE. apply (proj1 (NoDup_nth vs 0) ND8); [exact R1 | exact R2 | exact E].
  Qed.

  Ltac nm_opp_tac i j := apply (nm_opp i j); [lia | lia | reflexivity | cbn; lia | cbn; lia | cbn; lia].

  Lemma O_c0 : c0 = opp t1. Proof. nm_opp_tac 1 8. Qed.
  Lemma O_c2 : c2 = opp b0. Proof. nm_opp_tac 4 10. Qed.
  Lemma O_d0 : d0 = opp b2. Proof. nm_opp_tac 6 12. Qed.
  Lemma O_d2 : d2 = opp t3. Proof. nm_opp_tac 3 14. Qed.
  Lemma O_f0 : f0 = opp c3. Proof. nm_opp_tac 11 16. Qed.
  Lemma O_f1 : f1 = opp b3. Proof. nm_opp_tac 7 17. Qed.
  Lemma O_f2 : f2 = opp d3. Proof. nm_opp_tac 15 18. Qed.
  Lemma O_f3 : f3 = opp t2. Proof. nm_opp_tac 2 19. Qed.
  Lemma O_g0 : g0 = opp t0. Proof. nm_opp_tac 0 20. Qed.
  Lemma O_g1 : g1 = opp d1. Proof. nm_opp_tac 13 21. Qed.
  Lemma O_g2 : g2 = opp b1. Proof. nm_opp_tac 5 22. Qed.
  Lemma O_g3 : g3 = opp c1. Proof. nm_opp_tac 9 23. Qed.

  Lemma nm_closed h : In h E24 -> In (opp h) E24.
  Proof.
    pose proof O_c0 as o1. pose proof O_c2 as o2. pose proof O_d0 as o3. pose proof O_d2 as o4. pose proof O_f0 as o5. pose proof O_f1 as o6.
    pose proof O_f2 as o7. pose proof O_f3 as o8. pose proof O_g0 as o9. pose proof O_g1 as o10. pose proof O_g2 as o11. pose proof O_g3 as o12.
    unfold E24. intros H.
    repeat (destruct H as [<-|H];
      [first [ rewrite <- o1 | rewrite <- o2 | rewrite <- o3 | rewrite <- o4 | rewrite <- o5 | rewrite <- o6
             | rewrite <- o7 | rewrite <- o8 | rewrite <- o9 | rewrite <- o10 | rewrite <- o11 | rewrite <- o12
             | rewrite o1, opp_involutive | rewrite o2, opp_involutive | rewrite o3, opp_involutive | rewrite o4, opp_involutive
             | rewrite o5, opp_involutive | rewrite o6, opp_involutive | rewrite o7, opp_involutive | rewrite o8, opp_involutive
             | rewrite o9, opp_involutive | rewrite o10, opp_involutive | rewrite o11, opp_involutive | rewrite o12, opp_involutive ];
       cbn [In]; tauto|]).
    destruct H.
  Qed.

  Lemma nm_perm : Permutation (concat (map (halfface s) l)) E24.
  Proof.
    unfold l, E24. cbn [map concat]. rewrite app_nil_r.
    change [t0; t1; t2; t3; b0; b1; b2; b3; c0; c1; c2; c3; d0; d1; d2; d3; f0; f1; f2; f3; g0; g1; g2; g3]
      with ([t0; t1; t2; t3] ++ [b0; b1; b2; b3] ++ [c0; c1; c2; c3] ++ [d0; d1; d2; d3] ++ [f0; f1; f2; f3] ++ [g0; g1; g2; g3]).
    repeat apply Permutation_app; apply rot4_perm; assumption.
  Qed.

  Theorem nm_matched_once : matched_once (concat (map (halfface s) l)).
  Proof.
    split.
    - apply (Permutation_NoDup (Permutation_sym nm_perm)). exact nm_nodup24.
    - intros h Hh. apply (Permutation_in _ (Permutation_sym nm_perm)). apply nm_closed. exact (Permutation_in _ nm_perm Hh).
  Qed.

  Lemma nm_len4 h : In h l -> length (halfface s h) = 4.
  Proof. unfold l. intros [<-|[<-|[<-|[<-|[<-|[<-|[]]]]]]]; eapply rot4_length_l; eassumption. Qed.

  Theorem nm_nodup_l : NoDup l.
  Proof.
    apply (NoDup_concat_map (halfface s)); [exact (proj1 nm_matched_once)|]. intros x Hx E. pose proof (nm_len4 x Hx) as L. rewrite E in L. discriminate.
  Qed.

  (* the neighbour the hex kernel's search finds *)
  Lemma nm_get_adj h e y : In h l -> In e (halfface s h) -> In y l -> In (opp e) (halfface s y) ->
    get_adjacent_halfface s (Some h) (Some e) l = Some y.
  Proof.
    intros Hh He Hy Ho.
    destruct (wf_nbr s h0 h1 h2 h3 h4 h5 nm_nodup_l nm_matched_once nm_len4 LO QV h e Hh He) as (y' & Hy' & _ & Ho' & G).
    unfold l. rewrite G. f_equal. exact (wf_unique s h0 h1 h2 h3 h4 h5 nm_nodup_l nm_matched_once y' y (opp e) Hy' Hy Ho' Ho).
  Qed.

  Lemma nm_in_face hf x0 x1 x2 x3 x : rot4 (halfface s hf) [x0; x1; x2; x3] -> In x [x0; x1; x2; x3] -> In x (halfface s hf).
  Proof. intros R H. apply (rot4_In _ _ x R). exact H. Qed.

  (* the four neighbours of the top and of the bottom *)
  Lemma nm_top_nbrs :
    get_adjacent_halfface s (Some h0) (Some t0) l = Some h5 /\ get_adjacent_halfface s (Some h0) (Some t1) l = Some h2 /\
    get_adjacent_halfface s (Some h0) (Some t2) l = Some h4 /\ get_adjacent_halfface s (Some h0) (Some t3) l = Some h3.
  Proof.
    repeat split; apply nm_get_adj; unfold l; try (cbn [In]; tauto);
      try (apply (nm_in_face _ _ _ _ _ _ RT); cbn [In]; tauto).
    - rewrite <- O_g0. apply (nm_in_face _ _ _ _ _ _ RG). cbn [In]; tauto.
    - rewrite <- O_c0. apply (nm_in_face _ _ _ _ _ _ RC). cbn [In]; tauto.
    - rewrite <- O_f3. apply (nm_in_face _ _ _ _ _ _ RF). cbn [In]; tauto.
    - rewrite <- O_d2. apply (nm_in_face _ _ _ _ _ _ RD). cbn [In]; tauto.
  Qed.

  Lemma nm_bot_nbrs :
    get_adjacent_halfface s (Some h1) (Some b0) l = Some h2 /\ get_adjacent_halfface s (Some h1) (Some b1) l = Some h5 /\
    get_adjacent_halfface s (Some h1) (Some b2) l = Some h3 /\ get_adjacent_halfface s (Some h1) (Some b3) l = Some h4.
  Proof.
    repeat split; apply nm_get_adj; unfold l; try (cbn [In]; tauto);
      try (apply (nm_in_face _ _ _ _ _ _ RB); cbn [In]; tauto).
    - rewrite <- O_c2. apply (nm_in_face _ _ _ _ _ _ RC). cbn [In]; tauto.
    - rewrite <- O_g2. apply (nm_in_face _ _ _ _ _ _ RG). cbn [In]; tauto.
    - rewrite <- O_d0. apply (nm_in_face _ _ _ _ _ _ RD). cbn [In]; tauto.
    - rewrite <- O_f1. apply (nm_in_face _ _ _ _ _ _ RF). cbn [In]; tauto.
  Qed.

  Lemma nm_ord_top : ord_pass s l h0 order_top order_top = true.
  Proof.
    destruct nm_top_nbrs as (G0 & G1 & G2 & G3). pose proof nm_nodup_l as ND.
    destruct (rot4_cases _ _ _ _ _ RT) as [E|[E|[E|E]]].
    - apply (ord_pass_intro s l h0 order_top t0 t1 t2 t3 3 ND eq_refl (or_introl eq_refl) ltac:(lia) E); assumption.
    - apply (ord_pass_intro s l h0 order_top t3 t0 t1 t2 2 ND eq_refl (or_introl eq_refl) ltac:(lia) E); assumption.
    - apply (ord_pass_intro s l h0 order_top t2 t3 t0 t1 1 ND eq_refl (or_introl eq_refl) ltac:(lia) E); assumption.
    - apply (ord_pass_intro s l h0 order_top t1 t2 t3 t0 0 ND eq_refl (or_introl eq_refl) ltac:(lia) E); assumption.
  Qed.

  Lemma nm_ord_bot : ord_pass s l h1 order_bot order_bot = true.
  Proof.
    destruct nm_bot_nbrs as (G0 & G1 & G2 & G3). pose proof nm_nodup_l as ND.
    destruct (rot4_cases _ _ _ _ _ RB) as [E|[E|[E|E]]].
    - apply (ord_pass_intro s l h1 order_bot b0 b1 b2 b3 2 ND eq_refl (or_intror eq_refl) ltac:(lia) E); assumption.
    - apply (ord_pass_intro s l h1 order_bot b3 b0 b1 b2 1 ND eq_refl (or_intror eq_refl) ltac:(lia) E); assumption.
    - apply (ord_pass_intro s l h1 order_bot b2 b3 b0 b1 0 ND eq_refl (or_intror eq_refl) ltac:(lia) E); assumption.
    - apply (ord_pass_intro s l h1 order_bot b1 b2 b3 b0 3 ND eq_refl (or_intror eq_refl) ltac:(lia) E); assumption.
  Qed.
End Named.

(* ================================================================== the statement without the names *)

Section Cube.
  Variables (s : mesh) (a0 a1 a2 a3 a4 a5 a6 a7 : nat) (h0 h1 h2 h3 h4 h5 : nat).
  Let vs := [a0; a1; a2; a3; a4; a5; a6; a7].
  Let l := [h0; h1; h2; h3; h4; h5].
  Hypothesis C : cre_inv s.
  Hypothesis ND8 : NoDup vs.
  Hypothesis Q0 : hf_on s h0 [a3; a2; a1; a0].
  Hypothesis Q1 : hf_on s h1 [a7; a6; a5; a4].
  Hypothesis Q2 : hf_on s h2 [a1; a2; a6; a7].
  Hypothesis Q3 : hf_on s h3 [a4; a5; a3; a0].
  Hypothesis Q4 : hf_on s h4 [a1; a7; a4; a0].
  Hypothesis Q5 : hf_on s h5 [a2; a3; a5; a6].

  Lemma cb_on h : In h l -> exists q, hf_on s h q /\ In q (hex_quads vs).
  Proof.
    unfold l, hex_quads, vs. cbn [nth]. intros [<-|[<-|[<-|[<-|[<-|[<-|[]]]]]]]; eexists; (split; [eassumption|]); cbn [In]; tauto.
  Qed.

  Lemma cb_quad_nodup q : In q (hex_quads vs) -> NoDup q.
  Proof.
    destruct (nodup8_neq a0 a1 a2 a3 a4 a5 a6 a7 ND8) as
      ((n01&n02&n03&n04&n05&n06&n07)&(n12&n13&n14&n15&n16&n17)&(n23&n24&n25&n26&n27)&(n34&n35&n36&n37)&(n45&n46&n47)&(n56&n57)&n67).
    unfold hex_quads, vs. cbn [nth]. intros [<-|[<-|[<-|[<-|[<-|[<-|[]]]]]]]; apply nodup4_intro; auto.
  Qed.

  Lemma cb_len4 h : In h l -> length (halfface s h) = 4.
  Proof.
    intros H. destruct (cb_on h H) as (q & (_ & _ & R) & _). pose proof (rot4_length_l _ _ R) as L. unfold hf_vertices in L. rewrite map_length in L. exact L.
  Qed.

  Lemma cb_loop h : In h l -> loop_ok s (halfface s h) = true.
  Proof. intros H. destruct (cb_on h H) as (q & (r & d & _) & _). exact (cre_hf_loop s h C r d). Qed.

  Lemma cb_verts h : In h l -> NoDup (hf_vertices s h).
  Proof.
    intros H. destruct (cb_on h H) as (q & (_ & _ & R) & Hq). apply (rot4_NoDup _ _ (rot4_sym _ _ R)). exact (cb_quad_nodup q Hq).
  Qed.

  Theorem cube_static : NoDup l /\ matched_once (concat (map (halfface s) l)) /\ check_halfface_ordering s l = true.
  Proof.
    destruct Q0 as (r0 & dl0 & R0), Q1 as (r1 & dl1 & R1), Q2 as (r2 & dl2 & R2), Q3 as (r3 & dl3 & R3), Q4 as (r4 & dl4 & R4), Q5 as (r5 & dl5 & R5).
    destruct (quad_edges s h0 _ _ _ _ C r0 dl0 R0) as (t0 & t1 & t2 & t3 & RT & et0 & et1 & et2 & et3 & lt0 & lt1 & lt2 & lt3).
    destruct (quad_edges s h1 _ _ _ _ C r1 dl1 R1) as (b0 & b1 & b2 & b3 & RB & eb0 & eb1 & eb2 & eb3 & lb0 & lb1 & lb2 & lb3).
    destruct (quad_edges s h2 _ _ _ _ C r2 dl2 R2) as (c0 & c1 & c2 & c3 & RC & ec0 & ec1 & ec2 & ec3 & lc0 & lc1 & lc2 & lc3).
    destruct (quad_edges s h3 _ _ _ _ C r3 dl3 R3) as (d0 & d1 & d2 & d3 & RD & ed0 & ed1 & ed2 & ed3 & ld0 & ld1 & ld2 & ld3).
    destruct (quad_edges s h4 _ _ _ _ C r4 dl4 R4) as (f0 & f1 & f2 & f3 & RF & ef0 & ef1 & ef2 & ef3 & lf0 & lf1 & lf2 & lf3).
    destruct (quad_edges s h5 _ _ _ _ C r5 dl5 R5) as (g0 & g1 & g2 & g3 & RG & eg0 & eg1 & eg2 & eg3 & lg0 & lg1 & lg2 & lg3).
    assert (ENDS : map (he_ends s) [t0; t1; t2; t3; b0; b1; b2; b3; c0; c1; c2; c3; d0; d1; d2; d3; f0; f1; f2; f3; g0; g1; g2; g3] = map (avp vs) IDX24).
    { cbn [map]. rewrite et0, et1, et2, et3, eb0, eb1, eb2, eb3, ec0, ec1, ec2, ec3, ed0, ed1, ed2, ed3, ef0, ef1, ef2, ef3, eg0, eg1, eg2, eg3. reflexivity. }
    assert (LV : forall h, In h [t0; t1; t2; t3; b0; b1; b2; b3; c0; c1; c2; c3; d0; d1; d2; d3; f0; f1; f2; f3; g0; g1; g2; g3] -> live_he_p s h).
    { intros h H. repeat (destruct H as [<-|H]; [assumption|]). destruct H. }
    pose proof (cre_no_par s C) as NP.
    split; [exact (nm_nodup_l s a0 a1 a2 a3 a4 a5 a6 a7 h0 h1 h2 h3 h4 h5 t0 t1 t2 t3 b0 b1 b2 b3 c0 c1 c2 c3 d0 d1 d2 d3 f0 f1 f2 f3 g0 g1 g2 g3
                     NP ND8 RT RB RC RD RF RG ENDS LV cb_loop cb_verts)|].
    split; [exact (nm_matched_once s a0 a1 a2 a3 a4 a5 a6 a7 h0 h1 h2 h3 h4 h5 t0 t1 t2 t3 b0 b1 b2 b3 c0 c1 c2 c3 d0 d1 d2 d3 f0 f1 f2 f3 g0 g1 g2 g3
                     NP ND8 RT RB RC RD RF RG ENDS LV cb_loop cb_verts)|].
    unfold check_halfface_ordering. change (hx l 0) with h0. change (hx l 1) with h1. unfold l.
    rewrite (nm_ord_top s a0 a1 a2 a3 a4 a5 a6 a7 h0 h1 h2 h3 h4 h5 t0 t1 t2 t3 b0 b1 b2 b3 c0 c1 c2 c3 d0 d1 d2 d3 f0 f1 f2 f3 g0 g1 g2 g3
               NP ND8 RT RB RC RD RF RG ENDS LV cb_loop cb_verts).
    rewrite (nm_ord_bot s a0 a1 a2 a3 a4 a5 a6 a7 h0 h1 h2 h3 h4 h5 t0 t1 t2 t3 b0 b1 b2 b3 c0 c1 c2 c3 d0 d1 d2 d3 f0 f1 f2 f3 g0 g1 g2 g3
               NP ND8 RT RB RC RD RF RG ENDS LV cb_loop cb_verts).
    cbn [andb]. apply disjointb_spec. intros x H1 H0.
    apply (rot4_In _ _ x R1) in H1. apply (rot4_In _ _ x R0) in H0.
    destruct (nodup8_neq a0 a1 a2 a3 a4 a5 a6 a7 ND8) as
      ((n01&n02&n03&n04&n05&n06&n07)&(n12&n13&n14&n15&n16&n17)&(n23&n24&n25&n26&n27)&(n34&n35&n36&n37)&(n45&n46&n47)&(n56&n57)&n67).
    cbn [In] in H1, H0. destruct H1 as [<-|[<-|[<-|[<-|[]]]]]; destruct H0 as [E|[E|[E|[E|[]]]]]; congruence.
  Qed.
End Cube.

Print Assumptions cube_static.
