(* Mesh/TetTopoProofs.v -- the label algebra of TetTopology (regenerated Gen/TetLabels.v), decided over the WHOLE
   finite label domains by vm_compute and lifted with forallb_forall, the inversion of the array accessors by
   get_label for every TetTopology with distinct entries, and the constructor on concrete tetrahedra. *)
From Coq Require Import ZArith Lia Bool Arith List.
From OVM Require Import Base.ListX Base.Int32 Gen.TetLabels Kernel.State Kernel.Ops Kernel.Mirror Mesh.TetModel Mesh.TetTopoModel.
Import ListNotations.
Local Open Scope Z_scope.

Ltac split_ands := repeat match goal with H : (_ && _)%bool = true |- _ => apply andb_true_iff in H; destruct H end.

Definition zmem (x : Z) (l : list Z) : bool := existsb (Z.eqb x) l.

Lemma zmem_In x l : zmem x l = true <-> In x l.
Proof.
  unfold zmem. rewrite existsb_exists. split.
  - intros (y&Hy&E). apply Z.eqb_eq in E. subst. exact Hy.
  - intros H. exists x. split; [exact H | apply Z.eqb_refl].
Qed.

(* ------------------------------------------------------------------ halfedge labels: 12 of them *)

Definition hel_ok (l : Z) : bool :=
  zmem (TT_hel_from l) VL_all && zmem (TT_hel_to l) VL_all && negb (TT_hel_from l =? TT_hel_to l) &&
  (TT_hel (TT_hel_from l) (TT_hel_to l) =? l) &&
  zmem (HEL_opposite l) HEL_all && (HEL_opposite (HEL_opposite l) =? l) &&
  (TT_hel_from (HEL_opposite l) =? TT_hel_to l) && (TT_hel_to (HEL_opposite l) =? TT_hel_from l) &&
  negb (Bool.eqb (HEL_is_forward l) (HEL_is_forward (HEL_opposite l))) &&
  (if HEL_is_forward l then l <? 6 else Z.land l 7 <? 6).

Lemma hel_all_ok : forallb hel_ok HEL_all = true. Proof. vm_compute. reflexivity. Qed.

(* every halfedge label joins two distinct vertex labels, hel<From,To> inverts (hel_from, hel_to), and
   opposite() swaps the two ends, is an involution and flips is_forward *)
Theorem hel_labels_consistent l : In l HEL_all ->
  In (TT_hel_from l) VL_all /\ In (TT_hel_to l) VL_all /\ TT_hel_from l <> TT_hel_to l /\
  TT_hel (TT_hel_from l) (TT_hel_to l) = l /\
  In (HEL_opposite l) HEL_all /\ HEL_opposite (HEL_opposite l) = l /\
  TT_hel_from (HEL_opposite l) = TT_hel_to l /\ TT_hel_to (HEL_opposite l) = TT_hel_from l /\
  HEL_is_forward l <> HEL_is_forward (HEL_opposite l).
Proof.
  intros H. pose proof (proj1 (forallb_forall _ _) hel_all_ok l H) as K. unfold hel_ok in K.
  split_ands.
  repeat match goal with
         | H : zmem _ _ = true |- _ => apply zmem_In in H
         | H : (_ =? _) = true |- _ => apply Z.eqb_eq in H
         | H : negb (_ =? _) = true |- _ => apply negb_true_iff in H; apply Z.eqb_neq in H
         end.
  repeat split; try assumption.
  match goal with H : negb (Bool.eqb _ _) = true |- _ => apply negb_true_iff in H; apply eqb_false_iff in H; exact H end.
Qed.

(* hel<From,To>() is total on the 12 ordered pairs of distinct vertex labels *)
Definition pair_ok (a b : Z) : bool :=
  (a =? b) || (zmem (TT_hel a b) HEL_all && (TT_hel_from (TT_hel a b) =? a) && (TT_hel_to (TT_hel a b) =? b)).

Lemma pairs_all_ok : forallb (fun a => forallb (pair_ok a) VL_all) VL_all = true. Proof. vm_compute. reflexivity. Qed.

Theorem hel_total a b : In a VL_all -> In b VL_all -> a <> b ->
  In (TT_hel a b) HEL_all /\ TT_hel_from (TT_hel a b) = a /\ TT_hel_to (TT_hel a b) = b.
Proof.
  intros Ha Hb N. pose proof (proj1 (forallb_forall _ _) (proj1 (forallb_forall _ _) pairs_all_ok a Ha) b Hb) as K.
  unfold pair_ok in K. apply orb_true_iff in K. destruct K as [K|K]; [apply Z.eqb_eq in K; contradiction|].
  split_ands.
  repeat match goal with H : zmem _ _ = true |- _ => apply zmem_In in H | H : (_ =? _) = true |- _ => apply Z.eqb_eq in H end. repeat split; assumption.
Qed.

(* ------------------------------------------------------------------ halfface labels: 32 of them, 24 with a start *)

Definition vl3 (l : Z) : list Z := [TT_hfl_vl l 0; TT_hfl_vl l 1; TT_hfl_vl l 2].
Definition base_of (l : Z) : Z := Z.land l 28.                 (* OppX / OuterOppX of the label's group *)
Definition opp_vertex (l : Z) : Z := Z.shiftr (Z.land l 15) 2. (* the vertex label X of OppX *)

Definition hfl_ok (l : Z) : bool :=
  zmem (HFL_opposite l) HFL_all && (HFL_opposite (HFL_opposite l) =? l) &&
  negb (Bool.eqb (HFL_is_inner l) (HFL_is_inner (HFL_opposite l))) &&
  (HFL_inner (HFL_outer l) =? HFL_inner l) && (if HFL_is_inner l then HFL_inner l =? l else HFL_outer l =? l) &&
  Bool.eqb (HFL_has_start l) (negb (Z.land l 3 =? 0)) &&
  (if HFL_has_start l then
     (* three distinct vertex labels, none of them the group's opposite vertex *)
     forallb (fun v => zmem v VL_all && negb (v =? opp_vertex l)) (vl3 l) &&
     negb (TT_hfl_vl l 0 =? TT_hfl_vl l 1) && negb (TT_hfl_vl l 1 =? TT_hfl_vl l 2) && negb (TT_hfl_vl l 0 =? TT_hfl_vl l 2) &&
     (* the three labels of a group are the three rotations of one cycle *)
     forallb (fun m => if HFL_has_start m && (base_of m =? base_of l)
                       then existsb (fun k => (TT_hfl_vl m 0 =? TT_hfl_vl l k) && (TT_hfl_vl m 1 =? TT_hfl_vl l (Z.rem (k + 1) 3))
                                              && (TT_hfl_vl m 2 =? TT_hfl_vl l (Z.rem (k + 2) 3))) [0; 1; 2]
                       else true) HFL_all &&
     (* the outer label with the same start is the same triangle traversed the other way round *)
     (TT_hfl_vl (HFL_opposite l) 0 =? TT_hfl_vl l 0) && (TT_hfl_vl (HFL_opposite l) 1 =? TT_hfl_vl l 2) &&
     (TT_hfl_vl (HFL_opposite l) 2 =? TT_hfl_vl l 1) &&
     (* the labelled halfedges of the halfface join its labelled vertices cyclically *)
     forallb (fun i => zmem (TT_hfl_hel l i) HEL_all && (TT_hel_from (TT_hfl_hel l i) =? TT_hfl_vl l i) &&
                       (TT_hel_to (TT_hfl_hel l i) =? TT_hfl_vl l (Z.rem (i + 1) 3))) [0; 1; 2]
   else true).

Lemma hfl_all_ok : forallb hfl_ok HFL_all = true. Proof. vm_compute. reflexivity. Qed.

Theorem hfl_labels_consistent l : In l HFL_all -> HFL_has_start l = true ->
  (forall v, In v (vl3 l) -> In v VL_all /\ v <> opp_vertex l) /\ NoDup (vl3 l) /\
  TT_hfl_vl (HFL_opposite l) 0 = TT_hfl_vl l 0 /\ TT_hfl_vl (HFL_opposite l) 1 = TT_hfl_vl l 2 /\
  TT_hfl_vl (HFL_opposite l) 2 = TT_hfl_vl l 1 /\
  (forall i, In i [0; 1; 2] -> In (TT_hfl_hel l i) HEL_all /\ TT_hel_from (TT_hfl_hel l i) = TT_hfl_vl l i /\
                                TT_hel_to (TT_hfl_hel l i) = TT_hfl_vl l (Z.rem (i + 1) 3)).
Proof.
  intros H S. pose proof (proj1 (forallb_forall _ _) hfl_all_ok l H) as K. unfold hfl_ok in K. rewrite S in K.
  split_ands.
  repeat match goal with
         | H : (_ =? _) = true |- _ => apply Z.eqb_eq in H
         | H : negb (_ =? _) = true |- _ => apply negb_true_iff in H; apply Z.eqb_neq in H
         end.
  split; [|split; [|split; [assumption|split; [assumption|split; [assumption|]]]]].
  - intros v Hv. match goal with H : forallb _ (vl3 l) = true |- _ => pose proof (proj1 (forallb_forall _ _) H v Hv) as Q end.
    cbv beta in Q. split_ands. repeat match goal with H : zmem _ _ = true |- _ => apply zmem_In in H | H : negb (_ =? _)%Z = true |- _ => apply negb_true_iff in H; apply Z.eqb_neq in H end. split; assumption.
  - unfold vl3. repeat constructor; simpl; intuition congruence.
  - intros i Hi. match goal with H : forallb _ [0; 1; 2] = true |- _ => pose proof (proj1 (forallb_forall _ _) H i Hi) as Q end.
    cbv beta in Q. split_ands.
    repeat match goal with H : zmem _ _ = true |- _ => apply zmem_In in H | H : (_ =? _) = true |- _ => apply Z.eqb_eq in H end.
    repeat split; assumption.
Qed.

Theorem hfl_opposite_involutive l : In l HFL_all ->
  In (HFL_opposite l) HFL_all /\ HFL_opposite (HFL_opposite l) = l /\ HFL_is_inner l <> HFL_is_inner (HFL_opposite l).
Proof.
  intros H. pose proof (proj1 (forallb_forall _ _) hfl_all_ok l H) as K. unfold hfl_ok in K.
  split_ands.
  repeat match goal with H : zmem _ _ = true |- _ => apply zmem_In in H | H : (_ =? _) = true |- _ => apply Z.eqb_eq in H end.
  repeat split; try assumption.
  match goal with H : negb (Bool.eqb (HFL_is_inner l) _) = true |- _ => apply negb_true_iff in H; apply eqb_false_iff in H; exact H end.
Qed.

(* ------------------------------------------------------------------ get_label inverts the accessors *)
Local Open Scope nat_scope.

Lemma find_index_from_unique {A} (p : A -> bool) (l : list A) (i : nat) (d : A) : forall k,
  i < length l -> p (nth i l d) = true -> (forall j, j < i -> p (nth j l d) = false) ->
  find_index_from p l k = Some (k + i).
Proof.
  revert i. induction l as [|x l IH]; intros i k Hi Hp Hn; [simpl in Hi; lia|].
  cbn [find_index_from]. destruct i as [|i].
  - simpl in Hp. rewrite Hp. f_equal. lia.
  - pose proof (Hn 0 ltac:(lia)) as H0. simpl in H0. rewrite H0.
    rewrite (IH i (S k)); [f_equal; lia | simpl in Hi; lia | exact Hp |].
    intros j Hj. exact (Hn (S j) ltac:(lia)).
Qed.

Lemma find_index_unique {A} (p : A -> bool) (l : list A) (i : nat) (d : A) :
  i < length l -> p (nth i l d) = true -> (forall j, j < i -> p (nth j l d) = false) -> find_index p l = Some i.
Proof. intros. unfold find_index. rewrite (find_index_from_unique p l i d 0); auto. Qed.

(* vertices: a TetTopology with four distinct vertices *)
Theorem label_v_inverts (t : ttopo) a b c d : tt_vh t = [Some a; Some b; Some c; Some d] -> NoDup [a; b; c; d] ->
  forall l v, In l VL_all -> tt_vh_l t l = Some v -> tt_label_v t v = Some l.
Proof.
  intros E ND l v Hl Hv. unfold tt_label_v, tt_vh_l, oget in *. rewrite E in *.
  inversion ND as [|? ? n1 ND1]; subst. inversion ND1 as [|? ? n2 ND2]; subst. inversion ND2 as [|? ? n3 _]; subst.
  simpl in n1, n2, n3.
  destruct Hl as [<-|[<-|[<-|[<-|[]]]]]; cbn in Hv; inversion Hv; subst v; cbn [find_index find_index_from oeqb];
    rewrite ?Nat.eqb_refl;
    repeat match goal with |- context [?x =? ?y] => destruct (Nat.eqb_spec x y); try (exfalso; intuition congruence) end; reflexivity.
Qed.

(* halfedges: six stored halfedges on six distinct edges *)
Lemma label_he_at (hs : list nat) (i x h : nat) (side : bool) :
  NoDup (map (fun h => h / 2) hs) -> i < length hs -> nth i hs 0 = x -> h = (if side then x else opp x) ->
  match find_index (fun o => ofull o =? h / 2) (map Some hs) with
  | Some i0 => Some (if oeqb (nth i0 (map Some hs) None) h then Z.of_nat i0 else HEL_opposite (Z.of_nat i0))
  | None => None end = Some (if side then Z.of_nat i else HEL_opposite (Z.of_nat i)).
Proof.
  intros ND Hi Hx Hs.
  assert (Hh2 : h / 2 = x / 2) by (subst h; destruct side; [reflexivity | apply opp_div2]).
  assert (N : forall j, j < length hs -> nth j (map Some hs) None = Some (nth j hs 0)).
  { intros j Hj. rewrite (nth_indep _ None (Some 0)) by (rewrite map_length; exact Hj). apply (map_nth Some hs 0 j). }
  rewrite (find_index_unique _ _ i None).
  - rewrite (N i Hi), Hx. cbn [oeqb]. destruct side; subst h; [rewrite Nat.eqb_refl; reflexivity|].
    destruct (Nat.eqb_spec x (opp x)) as [F|F]; [exfalso; exact (opp_neq x (eq_sym F)) | reflexivity].
  - rewrite map_length. exact Hi.
  - rewrite (N i Hi), Hx. cbn [ofull]. rewrite Hh2. apply Nat.eqb_refl.
  - intros j Hj. rewrite (N j ltac:(lia)). cbn [ofull]. apply Nat.eqb_neq. intros F. rewrite Hh2, <- Hx in F.
    assert (j = i); [|lia].
    apply (proj1 (NoDup_nth (map (fun h => h / 2) hs) 0) ND); [rewrite map_length; lia | rewrite map_length; lia|].
    rewrite !(map_nth (fun h => h / 2) hs 0). exact F.
Qed.

Theorem label_he_inverts (t : ttopo) (hs : list nat) :
  tt_heh t = map Some hs -> length hs = 6 -> NoDup (map (fun h => h / 2) hs) ->
  forall l h, In l HEL_all -> tt_heh_l t l = Some h -> tt_label_he t h = Some l.
Proof.
  intros E L ND l h Hl Hh. unfold tt_label_he, tt_heh_l, oget in *. rewrite E in *.
  assert (N : forall j, j < 6 -> nth j (map Some hs) None = Some (nth j hs 0)).
  { intros j Hj. rewrite (nth_indep _ None (Some 0)) by (rewrite map_length; lia). apply (map_nth Some hs 0 j). }
  destruct Hl as [<-|[<-|[<-|[<-|[<-|[<-|[<-|[<-|[<-|[<-|[<-|[<-|[]]]]]]]]]]]]].
  - change (nth 0 (map Some hs) None = Some h) in Hh. rewrite N in Hh by lia. inversion Hh. exact (label_he_at hs 0 _ _ true ND ltac:(lia) eq_refl eq_refl).
  - change (nth 1 (map Some hs) None = Some h) in Hh. rewrite N in Hh by lia. inversion Hh. exact (label_he_at hs 1 _ _ true ND ltac:(lia) eq_refl eq_refl).
  - change (nth 2 (map Some hs) None = Some h) in Hh. rewrite N in Hh by lia. inversion Hh. exact (label_he_at hs 2 _ _ true ND ltac:(lia) eq_refl eq_refl).
  - change (nth 3 (map Some hs) None = Some h) in Hh. rewrite N in Hh by lia. inversion Hh. exact (label_he_at hs 3 _ _ true ND ltac:(lia) eq_refl eq_refl).
  - change (nth 4 (map Some hs) None = Some h) in Hh. rewrite N in Hh by lia. inversion Hh. exact (label_he_at hs 4 _ _ true ND ltac:(lia) eq_refl eq_refl).
  - change (nth 5 (map Some hs) None = Some h) in Hh. rewrite N in Hh by lia. inversion Hh. exact (label_he_at hs 5 _ _ true ND ltac:(lia) eq_refl eq_refl).
  - change (oopp (nth 0 (map Some hs) None) = Some h) in Hh. rewrite N in Hh by lia. inversion Hh. exact (label_he_at hs 0 _ _ false ND ltac:(lia) eq_refl eq_refl).
  - change (oopp (nth 1 (map Some hs) None) = Some h) in Hh. rewrite N in Hh by lia. inversion Hh. exact (label_he_at hs 1 _ _ false ND ltac:(lia) eq_refl eq_refl).
  - change (oopp (nth 2 (map Some hs) None) = Some h) in Hh. rewrite N in Hh by lia. inversion Hh. exact (label_he_at hs 2 _ _ false ND ltac:(lia) eq_refl eq_refl).
  - change (oopp (nth 3 (map Some hs) None) = Some h) in Hh. rewrite N in Hh by lia. inversion Hh. exact (label_he_at hs 3 _ _ false ND ltac:(lia) eq_refl eq_refl).
  - change (oopp (nth 4 (map Some hs) None) = Some h) in Hh. rewrite N in Hh by lia. inversion Hh. exact (label_he_at hs 4 _ _ false ND ltac:(lia) eq_refl eq_refl).
  - change (oopp (nth 5 (map Some hs) None) = Some h) in Hh. rewrite N in Hh by lia. inversion Hh. exact (label_he_at hs 5 _ _ false ND ltac:(lia) eq_refl eq_refl).
Qed.

(* ------------------------------------------------------------------ the constructor on concrete tetrahedra *)

(* all 12 (halfface, start vertex) choices of every live cell: constructed and consistent *)
Definition all_tt_consistent (s : mesh) : bool :=
  forallb (fun c =>
    forallb (fun hf =>
      forallb (fun a => match tt_make s c hf (Some a) with
                        | Some t => tt_consistent s c t && oeqb (tt_vh_l t VL_A) a && oeqb (tt_hfh_l t HFL_ABC) hf
                        | None => false end) (hf_vertices s hf)
      && match tt_make s c hf None with Some t => tt_consistent s c t | None => false end) (cell_at s c)) (live_cells s).

(* one tetrahedron; two tetrahedra glued along a face that the second one finds stored in the other rotation and on
   the other side; a closed fan of four tetrahedra around an edge *)
Definition tt_mesh_1 : mesh := tet_run [TK (AddVertices 4); TAddCellV [0; 1; 2; 3] true].
Definition tt_mesh_2 : mesh :=
  tet_run [TK (AddVertices 5); TK (AddFaceV [3; 2; 1]); TAddCellV [0; 1; 2; 3] true; TAddCell4 1 3 2 4 false].
Definition tt_mesh_fan : mesh :=
  tet_run [TK (AddVertices 6); TAddCellV [0; 1; 2; 3] true; TAddCell4 0 1 3 4 true; TAddCellV [0; 1; 4; 5] false;
           TAddCell4 0 1 5 2 true].

Example tt_constructor_consistent_on_examples :
  all_tt_consistent tt_mesh_1 = true /\ all_tt_consistent tt_mesh_2 = true /\ all_tt_consistent tt_mesh_fan = true /\
  length (live_cells tt_mesh_2) = 2 /\ length (live_cells tt_mesh_fan) = 4.
Proof. vm_compute. repeat split. Qed.

(* non-vacuity of the inversion theorems: the constructed TetTopology has distinct entries *)
Example label_inversion_applies :
  match tt_make tt_mesh_1 0 0 (Some 0) with
  | Some t => tt_vh t = [Some 0; Some 1; Some 2; Some 3] /\
              exists hs, tt_heh t = map Some hs /\ length hs = 6 /\ NoDup (map (fun h => h / 2) hs)
  | None => False
  end.
Proof.
  vm_compute. split; [reflexivity|]. exists [0; 2; 4; 6; 9; 11]. split; [reflexivity|]. split; [reflexivity|].
  repeat constructor; simpl; intuition discriminate.
Qed.
