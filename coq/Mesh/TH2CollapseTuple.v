(* Mesh/TH2CollapseTuple.v -- C15, collapse_edge: the rebuilt tets through get_cell_vertices.
   cell_tuple s c is the vertex tuple of a cell read off its STORED definition (first halfface's vertices in its cyclic
   order, then the first vertex of the second halfface outside it); get_cell_vertices(c) computes exactly this whenever
   the halfface -> cell cache names c for its first halfface.  For every rebuilt tet the tuple of the new cell is the old
   tuple with a replaced by b, up to a cyclic rotation of the first three entries (an even permutation: the orientation
   is preserved). *)
From Coq Require Import ZArith Lia Bool Arith List ZifyNat ZifyBool.
From OVM Require Import Base.ListX Base.ListLemmas Kernel.State Kernel.Ops Kernel.Mirror Kernel.Recompute Kernel.Closure Kernel.Sizes
                        Kernel.ExactInv Kernel.DeferredDelete Kernel2.AdjacentProofs Kernel2.ReorderExact Kernel2.ExactBase
                        Mesh.TetModel Mesh.TetProofs Mesh.TH2CollapseBase Mesh.TH2CollapseLoop Mesh.TH2CollapseFold Mesh.TH2CollapseStar
                        Mesh.TH2CollapseMain.
Import ListNotations.
Ltac Zify.zify_post_hook ::= Z.div_mod_to_equations.
Local Open Scope nat_scope.

(* ------------------------------------------------------------------ the tuple of a stored cell *)
Definition outside (vs : list nat) (w : nat) : bool := negb (memb w vs).

Definition cell_tuple (s : mesh) (c : nat) : list nat :=
  match cell_at s c with
  | h0 :: h1 :: _ =>
      let vs := hf_vertices s h0 in
      match find (outside vs) (hf_vertices s h1) with Some w => vs ++ [w] | None => [] end
  | _ => []
  end.

Lemma out3_outside x y z w : out3 x y z w = outside [x; y; z] w.
Proof.
  unfold out3, outside, memb. cbn [existsb]. rewrite orb_false_r, !negb_orb.
  rewrite (Nat.eqb_sym w x), (Nat.eqb_sym w y), (Nat.eqb_sym w z), andb_assoc. reflexivity.
Qed.

Lemma find_ext_eq {A} (p q : A -> bool) l : (forall x, p x = q x) -> find p l = find q l.
Proof. intros H. induction l as [|x l IH]; [reflexivity|]. cbn [find]. rewrite H, IH. reflexivity. Qed.

(* get_cell_vertices(c) is the tuple of the stored definition *)
Theorem gcv_c_is_tuple s c h0 h1 r x y z w : nth_error (cells s) c = Some (h0 :: h1 :: r) -> h0 <> h1 ->
  nth_error (inc_cell s) h0 = Some (Some c) -> hf_vertices s h0 = [x; y; z] -> cell_tuple s c = [x; y; z; w] ->
  gcv_c s c = Some [x; y; z; w].
Proof.
  intros EC N IC HV CT. unfold gcv_c, gcv_hf, bind, rd. rewrite EC. cbn [nth_error]. rewrite IC, EC. cbn [nth_error].
  rewrite Nat.eqb_refl. cbn [negb]. rewrite HV, gcv_scan_spec, (find_ext_eq _ _ _ (out3_outside x y z)).
  unfold cell_tuple, cell_at in CT. rewrite (nth_error_nth _ _ [] EC), HV in CT.
  destruct (find (outside [x; y; z]) (hf_vertices s h1)) as [w'|]; [|discriminate].
  cbn [app] in CT. injection CT as <-. reflexivity.
Qed.

(* ------------------------------------------------------------------ rotations *)
Lemma rot3_sym l m : rot3 l m -> rot3 m l.
Proof.
  destruct l as [|p [|q [|r [|]]]]; cbn [rot3]; try contradiction. intros [-> | [-> | ->]]; cbn [rot3]; tauto.
Qed.

Lemma rot3_trans l m n : rot3 l m -> rot3 m n -> rot3 l n.
Proof.
  destruct l as [|p [|q [|r [|]]]]; cbn [rot3]; try contradiction. intros [-> | [-> | ->]]; cbn [rot3]; intros [-> | [-> | ->]]; tauto.
Qed.

Lemma rot3_same_elements l m u : rot3 l m -> (In u l <-> In u m).
Proof.
  destruct l as [|p [|q [|r [|]]]]; cbn [rot3]; try contradiction. intros [-> | [-> | ->]]; cbn [In]; tauto.
Qed.

Lemma rot3_length l m : rot3 l m -> length l = 3 /\ length m = 3.
Proof. destruct l as [|p [|q [|r [|]]]]; cbn [rot3]; try contradiction. intros [-> | [-> | ->]]; split; reflexivity. Qed.

Lemma rot3_map_sub_inv a b x y z x' y' z' : ~ In b [x; y; z] -> ~ In b [x'; y'; z'] ->
  rot3 (map (sub a b) [x; y; z]) (map (sub a b) [x'; y'; z']) -> rot3 [x; y; z] [x'; y'; z'].
Proof.
  intros B1 B2. cbn [map rot3 In] in *.
  assert (I : forall u v, (u = x \/ u = y \/ u = z) -> (v = x' \/ v = y' \/ v = z') -> sub a b v = sub a b u -> v = u).
  { intros u v Hu Hv E. apply (sub_inj_on a b v u); [intuition congruence | intuition congruence | exact E]. }
  intros [E | [E | E]]; injection E as E1 E2 E3.
  - left. rewrite (I x x'), (I y y'), (I z z') by tauto. reflexivity.
  - right. left. rewrite (I y x'), (I z y'), (I x z') by tauto. reflexivity.
  - right. right. rewrite (I z x'), (I x y'), (I y z') by tauto. reflexivity.
Qed.

(* ------------------------------------------------------------------ the tuple of a rebuilt cell *)
Lemma find_unique_sat {A} (p : A -> bool) l w : (forall u, In u l -> p u = true -> u = w) -> (exists u, In u l /\ p u = true) -> find p l = Some w.
Proof.
  intros U (u & Hu & Pu). destruct (find p l) as [v|] eqn:F.
  - apply find_some in F. destruct F as [Hv Pv]. rewrite (U v Hv Pv). reflexivity.
  - rewrite (find_none _ _ F u Hu) in Pu. discriminate.
Qed.

Section Tuple.
  Variables (a b : nat) (s s' : mesh).

  (* the second halfface of the old cell has exactly one vertex outside the first: a tetrahedron *)
  Definition two_faces_ok (c : nat) : Prop :=
    match cell_at s c with
    | h0 :: h1 :: _ => exists w, filter (outside (hf_vertices s h0)) (hf_vertices s h1) = [w]
    | _ => False
    end.

  Lemma memb_map_sub vs u : ~ In b vs -> u <> b -> (In (sub a b u) (map (sub a b) vs) <-> In u vs).
  Proof.
    intros NB Nu. rewrite in_map_iff. split.
    - intros (v & E & Hv). assert (v = u); [|subst; exact Hv]. apply (sub_inj_on a b v u); [intros ->; contradiction | exact Nu | exact E].
    - intros H. exists u. split; [reflexivity | exact H].
  Qed.

  Theorem tuple_of_image c nhfs x y z w : cell_img a b s s' c nhfs -> two_faces_ok c ->
    (forall hf, In hf (cell_at s c) -> tri_ok b s hf) -> cell_tuple s c = [x; y; z; w] ->
    forall c', cell_at s' c' = nhfs ->
    exists x' y' z', rot3 [sub a b x; sub a b y; sub a b z] [x'; y'; z'] /\ cell_tuple s' c' = [x'; y'; z'; sub a b w] /\
                     hf_vertices s' (nth 0 nhfs 0) = [x'; y'; z'] /\ nth 0 nhfs 0 <> nth 1 nhfs 0.
  Proof.
    intros (n0 & n1 & n2 & n3 & c0 & c1 & c2 & c3 & EN & EC & i0 & i1 & _) TF TO CT c' EC'.
    unfold two_faces_ok in TF. rewrite EC in TF. destruct TF as (w0 & FW).
    destruct (TO c0 ltac:(rewrite EC; left; reflexivity)) as (p0 & q0 & r0 & V0 & ND0 & NB0).
    destruct (TO c1 ltac:(rewrite EC; right; left; reflexivity)) as (p1 & q1 & r1 & V1 & ND1 & NB1).
    unfold cell_tuple in CT. rewrite EC in CT. cbv zeta in CT.
    assert (IW : In w0 (filter (outside (hf_vertices s c0)) (hf_vertices s c1))) by (rewrite FW; left; reflexivity).
    apply filter_In in IW. destruct IW as [IW1 IW2].
    assert (FU : find (outside (hf_vertices s c0)) (hf_vertices s c1) = Some w0).
    { apply find_unique_sat; [|exists w0; split; assumption]. intros u Hu Pu.
      assert (In u (filter (outside (hf_vertices s c0)) (hf_vertices s c1))) as X by (apply filter_In; split; assumption).
      rewrite FW in X. destruct X as [<-|[]]. reflexivity. }
    rewrite FU, V0 in CT. cbn [app] in CT. injection CT as <- <- <- <-.
    destruct i0 as (_ & _ & ro0). destruct i1 as (_ & _ & ro1). rewrite V0 in ro0. rewrite V1 in ro1.
    destruct (rot3_length _ _ ro0) as [_ L0']. destruct (hf_vertices s' n0) as [|x' [|y' [|z' [|]]]] eqn:HV0; try discriminate.
    exists x', y', z'. subst nhfs. cbn [nth]. cbn [map] in ro0. split; [exact ro0|].
    assert (W0b : w0 <> b) by (intros ->; apply NB1; rewrite <- V1; exact IW1).
    assert (OUT : forall u, In u (hf_vertices s c1) -> (outside [x'; y'; z'] (sub a b u) = true <-> u = w0)).
    { intros u Hu. assert (Ub : u <> b) by (intros ->; apply NB1; rewrite <- V1; exact Hu).
      unfold outside. rewrite negb_true_iff. split.
      - intros M. assert (X : In u (filter (outside (hf_vertices s c0)) (hf_vertices s c1))).
        { apply filter_In. split; [exact Hu|]. unfold outside. apply negb_true_iff. destruct (memb u (hf_vertices s c0)) eqn:MU; [|reflexivity].
          apply memb_In in MU. rewrite V0 in MU. exfalso.
          assert (In (sub a b u) [x'; y'; z']) as Y.
          { apply (rot3_same_elements _ _ _ ro0). change [sub a b p0; sub a b q0; sub a b r0] with (map (sub a b) [p0; q0; r0]). apply (proj2 (memb_map_sub [p0; q0; r0] u NB0 Ub)). exact MU. }
          apply memb_In in Y. congruence. }
        rewrite FW in X. destruct X as [<-|[]]. reflexivity.
      - intros ->. destruct (memb (sub a b w0) [x'; y'; z']) eqn:MU; [|reflexivity]. exfalso. apply memb_In in MU.
        apply (rot3_same_elements _ _ _ ro0) in MU. change [sub a b p0; sub a b q0; sub a b r0] with (map (sub a b) [p0; q0; r0]) in MU.
        apply (proj1 (memb_map_sub [p0; q0; r0] w0 NB0 W0b)) in MU. unfold outside in IW2. apply negb_true_iff in IW2. rewrite V0 in IW2.
        apply memb_In in MU. congruence. }
    assert (FN : find (outside [x'; y'; z']) (hf_vertices s' n1) = Some (sub a b w0)).
    { apply find_unique_sat.
      - intros v Hv Pv. apply (rot3_same_elements _ _ _ ro1) in Hv. apply in_map_iff in Hv. destruct Hv as (u & <- & Hu).
        rewrite V1 in OUT. rewrite (proj1 (OUT u Hu) Pv). reflexivity.
      - exists (sub a b w0). split; [apply (rot3_same_elements _ _ _ ro1); apply in_map; rewrite <- V1; exact IW1|].
        apply (OUT w0 IW1). reflexivity. }
    split.
    - unfold cell_tuple. rewrite EC'. cbv zeta. rewrite HV0, FN. reflexivity.
    - split; [exact HV0|]. intros E. rewrite <- E, HV0 in FN. apply find_some in FN. destruct FN as [F1 F2].
      unfold outside in F2. apply negb_true_iff in F2. apply memb_In in F1. congruence.
  Qed.
End Tuple.
