(* Mesh/TH3TetFound.v -- C15, tetrahedra CREATED from vertices: one find-or-create step.

     tri_on t hf a b c   hf is a live halfface of t whose three halfedges run a->b, b->c, c->a, starting anywhere
                         (the stored rotation of a FOUND face is whatever it was created with)
     find_vs_tri_on      find_halfface(a,b,c) only looks at the halfedges a->b and b->c; under cre_inv (closed loops)
                         and tet_shape (three halfedges per face) the third halfedge is c->a
     find_or_add_spec    find_or_add_face_v: growth, invariants kept, the result is tri_on; a created face is stored
                         in the order given
   Proofs only. *)
From Coq Require Import ZArith Lia Bool Arith List ZifyNat ZifyBool.
From OVM Require Import Base.ListX Base.ListLemmas Kernel.State Kernel.Ops Kernel.Mirror Kernel.Recompute Kernel.Closure Kernel.CellCheck
                        Kernel.Construct Kernel.ExactInv Kernel.ExactRun
                        Mesh.TetModel Mesh.TetProofs Mesh.HexModel Mesh.HexProofs Mesh.TH2CollapseBase Mesh.TH2CollapseLoop Mesh.TH2HexChecked
                        Mesh.TH2HexEight Mesh.TH3Base.
Import ListNotations.
Ltac Zify.zify_post_hook ::= Z.div_mod_to_equations.
Local Open Scope nat_scope.

(* ================================================================== 1. triangles by their directed edges *)

Definition tri_pairs (a b c : nat) : list (nat * nat) := [(a, b); (b, c); (c, a)].

(* the three rotations of a triple of pairs *)
Definition rotp (l m : list (nat * nat)) : Prop :=
  match l with
  | [p; q; r] => m = [p; q; r] \/ m = [q; r; p] \/ m = [r; p; q]
  | _ => False
  end.

Definition tri_on (t : mesh) (hf a b c : nat) : Prop :=
  hf / 2 < nf t /\ f_deleted t (hf / 2) = false /\
  exists g0 g1 g2, halfface t hf = [g0; g1; g2] /\ rotp (tri_pairs a b c) (map (he_ends t) [g0; g1; g2]).

Lemma tri_on_range t hf a b c : tri_on t hf a b c -> hf < 2 * nf t.
Proof. intros (R & _). lia. Qed.

(* the vertices: a rotation of (a, b, c) *)
Lemma tri_on_vertices t hf a b c : tri_on t hf a b c -> TH2CollapseBase.rot3 [a; b; c] (hf_vertices t hf).
Proof.
  intros (_ & _ & g0 & g1 & g2 & E & R). unfold hf_vertices. rewrite E. unfold tri_pairs in R. cbn [rotp map] in R.
  unfold he_ends in R. cbn [TH2CollapseBase.rot3 map].
  destruct R as [R|[R|R]]; injection R as -> _ -> _ -> _; auto.
Qed.

Lemma rot3_In_iff a b c l v : TH2CollapseBase.rot3 [a; b; c] l -> (In v l <-> v = a \/ v = b \/ v = c).
Proof. cbn [TH2CollapseBase.rot3]. intros [->|[->| ->]]; cbn [In]; intuition congruence. Qed.

Lemma tri_on_In t hf a b c v : tri_on t hf a b c -> (In v (hf_vertices t hf) <-> v = a \/ v = b \/ v = c).
Proof. intros T. apply rot3_In_iff. exact (tri_on_vertices t hf a b c T). Qed.

Lemma rot3_NoDup a b c l : TH2CollapseBase.rot3 [a; b; c] l -> a <> b -> b <> c -> a <> c -> NoDup l /\ length l = 3.
Proof.
  cbn [TH2CollapseBase.rot3]. intros [->|[->| ->]] N1 N2 N3; (split; [|reflexivity]); repeat constructor; cbn [In]; intuition congruence.
Qed.

Lemma list3_inj {A} (x y z x' y' z' : A) : [x; y; z] = [x'; y'; z'] -> x = x' /\ y = y' /\ z = z'.
Proof. intros H. inversion H. auto. Qed.

(* the halfedges: exactly one for each of the three directed edges *)
Lemma tri_on_pairs t hf a b c p : tri_on t hf a b c ->
  (In p (tri_pairs a b c) <-> exists g, In g (halfface t hf) /\ he_ends t g = p).
Proof.
  intros (_ & _ & g0 & g1 & g2 & E & R). rewrite E. unfold tri_pairs in *. cbn [rotp map] in R. split.
  - intros Hp. cbn [In] in Hp.
    destruct R as [R|[R|R]]; apply list3_inj in R; destruct R as (R0 & R1 & R2); destruct Hp as [<-|[<-|[<-|[]]]];
      first [exists g0; split; [cbn [In]; auto | assumption] | exists g1; split; [cbn [In]; auto | assumption]
            | exists g2; split; [cbn [In]; auto | assumption]].
  - intros (g & Hg & Eg). cbn [In] in Hg |- *.
    destruct R as [R|[R|R]]; apply list3_inj in R; destruct R as (R0 & R1 & R2); destruct Hg as [<-|[<-|[<-|[]]]]; rewrite <- Eg; auto.
Qed.

Lemma tri_on_three t hf a b c : tri_on t hf a b c -> length (halfface t hf) = 3.
Proof. intros (_ & _ & g0 & g1 & g2 & E & _). rewrite E. reflexivity. Qed.

(* a triangle on the directed edges is a closed loop *)
Lemma tri_on_loop t hf a b c : tri_on t hf a b c -> loop_ok t (halfface t hf) = true.
Proof.
  intros (_ & _ & g0 & g1 & g2 & E & R). rewrite E. apply loop3. unfold tri_pairs in R. cbn [rotp map] in R. unfold he_ends in R.
  destruct R as [R|[R|R]]; injection R as R0 R1 R2 R3 R4 R5; repeat split; congruence.
Qed.

(* ---- growth keeps a triangle *)
Lemma tri_on_grow t t' hf a b c : cre_inv t -> grow t t' -> tri_on t hf a b c -> tri_on t' hf a b c.
Proof.
  intros C G (R & D & g0 & g1 & g2 & E & Rt). pose proof (cre_bu t C) as B. destruct (bu_lens t B) as [Le Lf].
  split; [pose proof (grow_nf t t' G Le Lf); lia|]. split; [rewrite (grow_f_deleted t t' G Lf _ R); exact D|].
  exists g0, g1, g2. split; [rewrite (grow_halfface t t' G hf R); exact E|].
  assert (HE : forall g, In g [g0; g1; g2] -> he_ends t' g = he_ends t g).
  { intros g Hg. rewrite <- E in Hg. destruct (cre_hf_he t hf g C R D Hg) as [r _]. unfold he_ends.
    rewrite (grow_he_from t t' G g r), (grow_he_to t t' G g r). reflexivity. }
  rewrite (map_ext_in _ _ _ HE). exact Rt.
Qed.

(* ---- states with the same edges, faces and face flags *)
Lemma tri_on_same t u hf a b c : faces u = faces t -> edges u = edges t -> fdel u = fdel t -> tri_on t hf a b c -> tri_on u hf a b c.
Proof.
  intros F E D (R & Dl & g0 & g1 & g2 & Eh & Rt). split; [unfold nf; rewrite F; exact R|].
  split; [unfold f_deleted; rewrite D; exact Dl|]. exists g0, g1, g2. split; [rewrite (halfface_faces t u hf F); exact Eh|].
  assert (HE : forall g, he_ends u g = he_ends t g) by (intros g; unfold he_ends, he_from, he_to, edge_at; rewrite E; reflexivity).
  rewrite (map_ext _ _ HE). exact Rt.
Qed.

(* ================================================================== 2. find_halfface(vertices) *)

Lemma find_halfedge_spec s a b h : bu_inv s -> a < nv s -> find_halfedge s a b = Some h ->
  live_he_p s h /\ he_from s h = a /\ he_to s h = b.
Proof.
  intros B Ha. unfold find_halfedge. destruct (vbu s) eqn:V; [|discriminate]. intros F. apply find_some in F. destruct F as [Hin Ht].
  apply Nat.eqb_eq in Ht. destruct B as (VO & _). apply (VO V a Ha h) in Hin. destruct Hin as (r & d & f).
  split; [split; assumption|]. split; assumption.
Qed.

(* find_halfface(a, b, c) reads the halfedges a->b and b->c only: the face found contains both; with closed loops of
   three halfedges the third one runs c->a *)
Lemma find_vs_tri_on s a b c hf : cre_inv s -> tet_shape s -> a < nv s -> b < nv s -> a <> b -> b <> c -> a <> c ->
  find_halfface_vs s a b c = Some hf -> tri_on s hf a b c.
Proof.
  intros C K Ha Hb Nab Nbc Nac. pose proof (cre_bu s C) as B. unfold find_halfface_vs.
  destruct (find_halfedge s a b) as [he0|] eqn:F0; [|discriminate]. destruct (find_halfedge s b c) as [he1|] eqn:F1; [|discriminate].
  destruct (find_halfedge_spec s a b he0 B Ha F0) as ([r0 d0] & f0 & t0).
  destruct (find_halfedge_spec s b c he1 B Hb F1) as ([r1 d1] & f1 & t1).
  unfold find_halfface_hes. destruct (ebu s) eqn:E; [|discriminate]. intros F. apply find_some in F. destruct F as [Hin M].
  apply memb_In in M. pose proof B as (_ & EO & _). apply (EO E he0 ltac:(lia)) in Hin. destruct Hin as (rf & df & I0).
  split; [exact rf|]. split; [exact df|].
  assert (L3 : length (face_at s (hf / 2)) = 3) by (apply (proj1 (kshape_live 3 4 s K)); exact rf).
  destruct (halfface_three s hf L3) as (g0 & g1 & g2 & Eh). exists g0, g1, g2. split; [exact Eh|].
  pose proof (cre_hf_loop s hf C rf df) as Lo. rewrite Eh in Lo. apply loop3 in Lo. destruct Lo as (l0 & l1 & l2).
  rewrite Eh in I0, M. unfold tri_pairs. cbn [rotp map]. unfold he_ends.
  destruct I0 as [<-|[<-|[<-|[]]]]; destruct M as [<-|[<-|[<-|[]]]]; try (exfalso; congruence).
  - left. repeat f_equal; congruence.
  - right. right. repeat f_equal; congruence.
  - right. left. repeat f_equal; congruence.
Qed.

(* ================================================================== 3. add_face(vertices) of a triangle *)

Lemma add_face_tri_on s a b c : cre_inv s -> a < nv s -> b < nv s -> c < nv s ->
  exists s', add_face_v s [a; b; c] = (s', Some (nf s)) /\ grow s s' /\ cre_inv s' /\ nf s' = S (nf s) /\
    tri_on s' (2 * nf s) a b c /\ hf_vertices s' (2 * nf s) = [a; b; c].
Proof.
  intros C Ha Hb Hc.
  destruct (add_face_v_cre s [a; b; c] C ltac:(discriminate) ltac:(intros v [<-|[<-|[<-|[]]]]; assumption))
    as (s' & hes & Q & G & C' & NF & HF & M & Lv & HV).
  exists s'. split; [exact Q|]. split; [exact G|]. split; [exact C'|]. split; [exact NF|]. split; [|exact HV].
  destruct (bu_lens s (cre_bu s C)) as [Le Lf]. unfold tri_on. rewrite dbl_div.
  split; [lia|]. split; [apply (grow_f_new s s' G Lf); lia|]. cbn [hd cyc_pairs] in M.
  destruct hes as [|g0 [|g1 [|g2 [|g3 r]]]]; cbn [map] in M; try discriminate.
  exists g0, g1, g2. split; [exact HF|]. unfold tri_pairs. cbn [rotp map]. left. exact M.
Qed.

(* ================================================================== 4. one find-or-create step *)

Lemma full_bu_flags s : full_bu s = true -> vbu s = true /\ ebu s = true /\ fbu s = true.
Proof. unfold full_bu. rewrite !andb_true_iff. tauto. Qed.

Lemma grow_full_bu s t : grow s t -> full_bu t = full_bu s.
Proof. intros (_ & _ & _ & _ & _ & V & E & F & _). unfold full_bu. rewrite V, E, F. reflexivity. Qed.

Lemma grow_nv s t : grow s t -> nv t = nv s.
Proof. intros (n & _). exact n. Qed.

Lemma find_or_add_spec s a b c : cre_inv s -> tet_shape s -> a < nv s -> b < nv s -> c < nv s -> a <> b -> b <> c -> a <> c ->
  let r := find_or_add_face_v s a b c in
  grow s (fst r) /\ cre_inv (fst r) /\ tet_shape (fst r) /\ tri_on (fst r) (snd r) a b c /\
  match find_halfface_vs s a b c with
  | Some hf => r = (s, hf)
  | None => snd r = 2 * nf s /\ nf (fst r) = S (nf s) /\ hf_vertices (fst r) (snd r) = [a; b; c]
  end.
Proof.
  intros C K Ha Hb Hc Nab Nbc Nac. cbv zeta. pose proof (shape_find_or_add_face_v s a b c K) as K'. unfold find_or_add_face_v in *.
  destruct (find_halfface_vs s a b c) as [hf|] eqn:F.
  - cbn [fst snd]. split; [apply grow_refl|]. split; [exact C|]. split; [exact K|]. split; [|reflexivity].
    exact (find_vs_tri_on s a b c hf C K Ha Hb Nab Nbc Nac F).
  - destruct (add_face_tri_on s a b c C Ha Hb Hc) as (s' & Q & G & C' & NF & T & HV). rewrite Q in *. cbn [fst snd] in *. auto 10.
Qed.

(* the cell flags are not touched *)
Lemma cdel_add_edge s v w d : cdel (fst (add_edge s v w d)) = cdel s.
Proof.
  unfold add_edge. destruct d; [|destruct (find_dup_edge s v w); [reflexivity|]];
    (pose proof (append_edge_view s v w) as W; cbv zeta in W; destruct W as (_ & _ & _ & _ & _ & _ & X & _); exact X).
Qed.

Lemma cdel_add_face_v_step v w acc : cdel (fst (add_face_v_step v w acc)) = cdel (fst acc).
Proof.
  destruct acc as [s hes]. unfold add_face_v_step. pose proof (cdel_add_edge s v w false) as X.
  destruct (add_edge s v w false) as [s1 e]. exact X.
Qed.

Lemma cdel_add_face_v_edges first : forall vs acc, cdel (fst (add_face_v_edges first vs acc)) = cdel (fst acc).
Proof.
  induction vs as [|v t IH]; intros acc; [reflexivity|]. cbn [add_face_v_edges]. destruct t as [|w t'].
  - apply cdel_add_face_v_step.
  - rewrite IH. apply cdel_add_face_v_step.
Qed.

Lemma cdel_add_face_v s vs : cdel (fst (add_face_v s vs)) = cdel s.
Proof.
  unfold add_face_v. destruct vs as [|first t]; [reflexivity|]. pose proof (cdel_add_face_v_edges first (first :: t) (s, [])) as X.
  destruct (add_face_v_edges first (first :: t) (s, [])) as [s1 hes]. cbn [fst] in X. unfold add_face. cbn [andb].
  pose proof (append_face_view s1 hes) as W. cbv zeta in W. destruct W as (_ & _ & _ & _ & _ & _ & Y & _).
  destruct (append_face s1 hes) as [s2 f]. cbn [fst] in *. congruence.
Qed.

Lemma cdel_find_or_add s a b c : cdel (fst (find_or_add_face_v s a b c)) = cdel s.
Proof.
  unfold find_or_add_face_v. destruct (find_halfface_vs s a b c); [reflexivity|]. pose proof (cdel_add_face_v s [a; b; c]) as X.
  destruct (add_face_v s [a; b; c]) as [s' [f|]]; exact X.
Qed.

Print Assumptions find_or_add_spec.
Print Assumptions find_vs_tri_on.
