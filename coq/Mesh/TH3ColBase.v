(* Mesh/TH3ColBase.v -- C15, collapse_edge, the invariant of the RESULT: building blocks.
   1. directed vertex pairs of a triangle (cyc), mirror images, triangles as loops;
   2. `npar Q t`: no two live halfedges of t run between the same ordered pair of vertices when that pair is in Q
      (no parallel edges where the collapse looks edges up), kept by add_halfedge (which appends an edge only when the
      complete, cached search finds none);
   3. `col_closed P`: P is kept by the five kernel steps collapse_edge is made of (found-or-appended edge, appended simple
      face of live halfedges, deferred delete_cell / delete_vertex, unchecked add_cell of a cell that passes the check on
      free live halffaces) and by property swaps.  Instances: the trivial predicate, Hinv (Kernel3/GcHist.v) and
      full_inv (Kernel4/AllDefs.v). *)
From Coq Require Import ZArith Lia Bool Arith List ZifyNat ZifyBool.
From OVM Require Import Base.ListX Base.ListLemmas Kernel.State Kernel.Ops Kernel.Mirror Kernel.Recompute Kernel.Closure Kernel.Sizes
                        Kernel.ExactInv Kernel.InvB Kernel.ExactRun Kernel.DeferredDelete Kernel2.ReorderExact Kernel2.ExactBase Kernel2.ExactHistory
                        Kernel2.ExactDeletions Kernel2.ExactAddCell Kernel3.GcDefs Kernel3.GcHist
                        Kernel4.AllDefs Kernel4.AllBridges Kernel4.AllStepMisc Kernel4.AllHistory
                        Mesh.TetModel Mesh.TetProofs Mesh.TH2CollapseBase Mesh.TH2CollapseLoop Mesh.TH2CollapseFold Mesh.TH2CollapseStar
                        Mesh.TH2CollapseMain Mesh.TH2CollapseTuple Mesh.TH2CollapseFinal.
Import ListNotations.
Ltac Zify.zify_post_hook ::= Z.div_mod_to_equations.
Local Open Scope nat_scope.

(* ================================================================== 1. directed pairs of a triangle *)

(* (p, q) is one of the three directed edges of the vertex cycle l *)
Definition cyc (l : list nat) (p q : nat) : Prop :=
  match l with
  | [x; y; z] => (p = x /\ q = y) \/ (p = y /\ q = z) \/ (p = z /\ q = x)
  | _ => False
  end.

Definition cyc_b (l : list nat) (p q : nat) : bool :=
  match l with
  | [x; y; z] => ((p =? x) && (q =? y)) || ((p =? y) && (q =? z)) || ((p =? z) && (q =? x))
  | _ => false
  end.

Lemma cyc_b_spec l p q : cyc_b l p q = true <-> cyc l p q.
Proof.
  destruct l as [|x [|y [|z [|]]]]; cbn [cyc cyc_b]; try (split; [discriminate | contradiction]).
  rewrite !orb_true_iff, !andb_true_iff, !Nat.eqb_eq. tauto.
Qed.

Lemma cyc_rot l m p q : rot3 l m -> (cyc l p q <-> cyc m p q).
Proof.
  destruct l as [|x [|y [|z [|]]]]; cbn [rot3]; try contradiction.
  intros [-> | [-> | ->]]; cbn [cyc]; tauto.
Qed.

Lemma cyc_In l p q : cyc l p q -> In p l /\ In q l.
Proof.
  destruct l as [|x [|y [|z [|]]]]; cbn [cyc]; try contradiction. cbn [In]. intuition congruence.
Qed.

Lemma cyc_map (f : nat -> nat) l p q : cyc (map f l) p q <-> exists x y, cyc l x y /\ p = f x /\ q = f y.
Proof.
  destruct l as [|x [|y [|z [|]]]]; cbn [map cyc]; try (split; [contradiction | intros (? & ? & [] & _)]).
  split.
  - intros [[-> ->] | [[-> ->] | [-> ->]]]; [exists x, y | exists y, z | exists z, x]; tauto.
  - intros (x0 & y0 & [[-> ->] | [[-> ->] | [-> ->]]] & -> & ->); tauto.
Qed.

Definition mirror3 (l : list nat) : list nat := match l with [x; y; z] => [x; z; y] | _ => l end.

Lemma rot3_mirror l m : rot3 l m -> rot3 (mirror3 l) (mirror3 m).
Proof.
  destruct l as [|x [|y [|z [|]]]]; cbn [rot3]; try contradiction.
  intros [-> | [-> | ->]]; cbn [mirror3 rot3]; tauto.
Qed.

Lemma mirror3_map (f : nat -> nat) l : mirror3 (map f l) = map f (mirror3 l).
Proof. destruct l as [|x [|y [|z [|]]]]; reflexivity. Qed.

Lemma mirror3_notin b l : ~ In b l -> ~ In b (mirror3 l).
Proof. destruct l as [|x [|y [|z [|]]]]; cbn [mirror3 In]; tauto. Qed.

(* two cycles with a common directed edge *)
Definition shares_dir_b (u w : list nat) : bool :=
  match u with
  | [x; y; z] => cyc_b w x y || cyc_b w y z || cyc_b w z x
  | _ => false
  end.

Lemma shares_dir_b_complete u w p q : cyc u p q -> cyc w p q -> shares_dir_b u w = true.
Proof.
  destruct u as [|x [|y [|z [|]]]]; cbn [cyc]; try contradiction. intros H W. cbn [shares_dir_b].
  destruct H as [[-> ->] | [[-> ->] | [-> ->]]]; rewrite (proj2 (cyc_b_spec w _ _) W); rewrite ?orb_true_r; reflexivity.
Qed.

(* w is a rotation of the mirror image of u *)
Definition mirror_b (u w : list nat) : bool := rot3_b (mirror3 u) w.

(* ================================================================== triangles as loops *)

Definition tri_loop (s : mesh) (hf : nat) : Prop :=
  exists g0 g1 g2, halfface s hf = [g0; g1; g2] /\
    he_to s g0 = he_from s g1 /\ he_to s g1 = he_from s g2 /\ he_to s g2 = he_from s g0.

Lemma tri_loop_cyc s hf g : tri_loop s hf -> In g (halfface s hf) -> cyc (hf_vertices s hf) (he_from s g) (he_to s g).
Proof.
  intros (g0 & g1 & g2 & E & c0 & c1 & c2). unfold hf_vertices. rewrite E. cbn [map cyc In].
  intros [<-|[<-|[<-|[]]]]; rewrite ?c0, ?c1, ?c2; tauto.
Qed.

Lemma cyc_tri_loop s hf p q : tri_loop s hf -> cyc (hf_vertices s hf) p q ->
  exists g, In g (halfface s hf) /\ he_from s g = p /\ he_to s g = q.
Proof.
  intros (g0 & g1 & g2 & E & c0 & c1 & c2). unfold hf_vertices. rewrite E. cbn [map cyc In].
  intros [[-> ->] | [[-> ->] | [-> ->]]]; [exists g0 | exists g1 | exists g2]; rewrite ?c0, ?c1, ?c2; tauto.
Qed.

Lemma hf_vertices_opp s hf : tri_loop s hf -> hf_vertices s (opp hf) = mirror3 (hf_vertices s hf).
Proof.
  intros (g0 & g1 & g2 & E & c0 & c1 & c2). unfold hf_vertices. rewrite halfface_opp, E. cbn [map rev app mirror3].
  rewrite !he_from_opp, c0, c1, c2. reflexivity.
Qed.

Lemma tri_loop_same s t hf : faces t = faces s -> edges t = edges s -> tri_loop s hf -> tri_loop t hf.
Proof.
  intros F E (g0 & g1 & g2 & EH & c0 & c1 & c2). exists g0, g1, g2.
  unfold halfface, face_at, he_from, he_to, edge_at in *. rewrite F, E. auto.
Qed.

(* a halfface of a simple face lists no halfedge twice *)
Lemma halfface_NoDup s hf : simple_hes (face_at s (hf / 2)) -> NoDup (halfface s hf).
Proof.
  intros [N _]. unfold halfface. destruct (Nat.even hf); [exact N|]. apply NoDup_rev.
  apply FinFun.Injective_map_NoDup; [|exact N]. intros x y E. apply (f_equal opp) in E. rewrite !opp_involutive in E. exact E.
Qed.

(* ================================================================== 2. no parallel edges where Q looks *)

Definition npar (Q : nat -> nat -> Prop) (t : mesh) : Prop :=
  forall h h', h / 2 < ne t -> h' / 2 < ne t -> e_deleted t (h / 2) = false -> e_deleted t (h' / 2) = false ->
    he_from t h = he_from t h' -> he_to t h = he_to t h' -> Q (he_from t h) (he_to t h) -> h = h'.

Lemma npar_same Q t t' : edges t' = edges t -> edel t' = edel t -> npar Q t -> npar Q t'.
Proof.
  intros E D H. unfold npar, ne, e_deleted, he_from, he_to, edge_at in *. rewrite E, D. exact H.
Qed.

Lemma he_parity h : h = 2 * (h / 2) + (if Nat.even h then 0 else 1).
Proof. rewrite even_mod2. destruct (Nat.eqb_spec (h mod 2) 0); lia. Qed.

Lemma npar_tet_add_halfedge Q t x y : bu_inv2 t -> vbu t = true -> x < nv t -> y < nv t -> x <> y -> npar Q t ->
  npar Q (fst (tet_add_halfedge t x y)).
Proof.
  intros B V Hx Hy Nxy NP. unfold tet_add_halfedge, find_halfedge. rewrite V.
  destruct (find (fun h => he_to t h =? y) (out_at t x)) as [h0|] eqn:F; [exact NP|].
  assert (AE : add_edge t x y false = append_edge t x y) by (unfold add_edge, find_dup_edge; rewrite V, F; reflexivity).
  rewrite AE.
  (* no live halfedge runs from x to y, nor from y to x *)
  assert (NO : forall h, h / 2 < ne t -> e_deleted t (h / 2) = false -> he_from t h = x -> he_to t h = y -> False).
  { intros h R D Fr To. assert (I : In h (out_at t x)) by (apply (bu_inv2_vbu_ok t B V x Hx); auto).
    pose proof (find_none _ _ F h I) as X. cbn beta in X. rewrite To, Nat.eqb_refl in X. discriminate. }
  assert (NO' : forall h, h / 2 < ne t -> e_deleted t (h / 2) = false -> he_from t h = y -> he_to t h = x -> False).
  { intros h R D Fr To. apply (NO (opp h)); rewrite ?opp_div2, ?he_from_opp, ?he_to_opp; assumption. }
  pose proof (grow_append_edge t x y) as G.
  pose proof (append_edge_view t x y) as W. cbv zeta in W. destruct W as (_ & w2 & _).
  destruct (bu_inv2_lens t B) as (_ & _ & _ & Le & _).
  destruct (append_edge t x y) as [t1 e1]. cbn [fst] in *.
  assert (NE : ne t1 = S (ne t)) by (unfold ne; rewrite w2, app_length; simpl; lia).
  assert (EA : edge_at t1 (ne t) = (x, y)) by (unfold edge_at, ne; rewrite w2, app_nth2, Nat.sub_diag by lia; reflexivity).
  assert (NEW : forall h, h / 2 = ne t -> (he_from t1 h = x /\ he_to t1 h = y /\ Nat.even h = true) \/
                                          (he_from t1 h = y /\ he_to t1 h = x /\ Nat.even h = false)).
  { intros h Eh. unfold he_from, he_to. rewrite Eh, EA. destruct (Nat.even h); [left | right]; auto. }
  intros h h' R R' D D' Fr To Qh. rewrite NE in R, R'.
  destruct (le_lt_dec (ne t) (h / 2)) as [X|X]; destruct (le_lt_dec (ne t) (h' / 2)) as [X'|X'].
  - (* both on the new edge *)
    assert (E1 : h / 2 = ne t) by lia. assert (E2 : h' / 2 = ne t) by lia.
    pose proof (he_parity h) as P1. pose proof (he_parity h') as P2.
    destruct (NEW h E1) as [(a1 & a2 & a3)|(a1 & a2 & a3)]; destruct (NEW h' E2) as [(b1 & b2 & b3)|(b1 & b2 & b3)];
      rewrite a3 in P1; rewrite b3 in P2; try lia; exfalso; congruence.
  - (* h new, h' old *)
    exfalso. assert (E1 : h / 2 = ne t) by lia.
    rewrite (grow_he_from t t1 G h' X') in Fr. rewrite (grow_he_to t t1 G h' X') in To.
    rewrite (grow_e_deleted t t1 G Le _ X') in D'.
    destruct (NEW h E1) as [(a1 & a2 & _)|(a1 & a2 & _)]; [apply (NO h') | apply (NO' h')]; congruence.
  - exfalso. assert (E2 : h' / 2 = ne t) by lia.
    rewrite (grow_he_from t t1 G h X) in Fr. rewrite (grow_he_to t t1 G h X) in To.
    rewrite (grow_e_deleted t t1 G Le _ X) in D.
    destruct (NEW h' E2) as [(a1 & a2 & _)|(a1 & a2 & _)]; [apply (NO h) | apply (NO' h)]; congruence.
  - rewrite (grow_he_from t t1 G h X), (grow_he_from t t1 G h' X') in Fr.
    rewrite (grow_he_to t t1 G h X), (grow_he_to t t1 G h' X') in To.
    rewrite (grow_e_deleted t t1 G Le _ X) in D. rewrite (grow_e_deleted t t1 G Le _ X') in D'.
    rewrite (grow_he_from t t1 G h X), (grow_he_to t t1 G h X) in Qh.
    exact (NP h h' X X' D D' Fr To Qh).
Qed.

(* ================================================================== 3. predicates kept by the steps of collapse_edge *)

Definition col_closed (P : mesh -> Prop) : Prop :=
  (forall t x y, P t -> bu_inv2 t -> x < nv t -> y < nv t ->
     (up_closed t -> v_deleted t x = false /\ v_deleted t y = false) -> P (fst (add_edge t x y false))) /\
  (forall t hes, P t -> bu_inv2 t -> hes <> [] -> (forall h, In h hes -> h / 2 < ne t /\ e_deleted t (h / 2) = false) ->
     simple_hes hes -> P (fst (add_face t hes false))) /\
  (forall t c, P t -> bu_inv2 t -> c < nc t -> c_deleted t c = false -> P (delete_cell c t)) /\
  (forall t v, P t -> bu_inv2 t -> v < nv t -> (up_closed t -> v_deleted t v = false) -> P (delete_vertex v t)) /\
  (forall t hfs, P t -> bu_inv2 t -> new_cell_ok t hfs -> P (fst (add_cell t hfs false))) /\
  (forall k i j t, P t -> P (swap_prop_elems k i j t)).

Lemma col_closed_True : col_closed (fun _ => True).
Proof. unfold col_closed. repeat split. Qed.

Lemma col_closed_and P1 P2 : col_closed P1 -> col_closed P2 -> col_closed (fun t => P1 t /\ P2 t).
Proof.
  intros (a1 & a2 & a3 & a4 & a5 & a6) (b1 & b2 & b3 & b4 & b5 & b6). unfold col_closed.
  split; [intros t x y [p1 p2] B X Y U; split; [apply a1 | apply b1]; assumption|].
  split; [intros t hes [p1 p2] B N L S; split; [apply a2 | apply b2]; assumption|].
  split; [intros t c [p1 p2] B X D; split; [apply a3 | apply b3]; assumption|].
  split; [intros t v [p1 p2] B X U; split; [apply a4 | apply b4]; assumption|].
  split; [intros t hfs [p1 p2] B N; split; [apply a5 | apply b5]; assumption|].
  intros k i j t [p1 p2]. split; [apply a6 | apply b6]; assumption.
Qed.

(* ---------------------------------------------------------------- the calls as kernel operations *)
Lemma nodup_b_complete l : NoDup l -> nodup_b l = true.
Proof.
  induction 1 as [|x t Nin _ IH]; [reflexivity|]. cbn [nodup_b]. rewrite IH, andb_true_r. apply negb_true_iff.
  destruct (memb x t) eqn:M; [|reflexivity]. apply memb_In in M. contradiction.
Qed.

Lemma simple_b_complete hes : simple_hes hes -> simple_b hes = true.
Proof.
  intros [N S]. unfold simple_b. apply andb_true_iff. split; [apply nodup_b_complete; exact N|].
  apply forallb_forall. intros h Hh. apply negb_true_iff. destruct (memb (opp h) hes) eqn:M; [|reflexivity].
  apply memb_In in M. exfalso. exact (S h Hh M).
Qed.

Lemma live_v_of s v : v < nv s -> v_deleted s v = false -> live_v s v = true.
Proof. intros A B. unfold live_v. rewrite B. apply andb_true_iff. split; [apply Nat.ltb_lt; exact A | reflexivity]. Qed.
Lemma live_e_of s e : e < ne s -> e_deleted s e = false -> live_e s e = true.
Proof. intros A B. unfold live_e. rewrite B. apply andb_true_iff. split; [apply Nat.ltb_lt; exact A | reflexivity]. Qed.
Lemma live_f_of s f : f < nf s -> f_deleted s f = false -> live_f s f = true.
Proof. intros A B. unfold live_f. rewrite B. apply andb_true_iff. split; [apply Nat.ltb_lt; exact A | reflexivity]. Qed.
Lemma live_c_of s c : c < nc s -> c_deleted s c = false -> live_c s c = true.
Proof. intros A B. unfold live_c. rewrite B. apply andb_true_iff. split; [apply Nat.ltb_lt; exact A | reflexivity]. Qed.

Lemma exec_add_edge s x y d : fst (exec s (AddEdge x y d)) = fst (add_edge s x y d).
Proof. cbn [exec]. destruct (add_edge s x y d). reflexivity. Qed.

Lemma valid_add_edge s x y : x < nv s -> y < nv s -> v_deleted s x = false -> v_deleted s y = false -> valid_op s (AddEdge x y false) = true.
Proof. intros. cbn [valid_op]. rewrite !live_v_of by assumption. reflexivity. Qed.

Lemma valid_add_face s hes : hes <> [] -> (forall h, In h hes -> h / 2 < ne s /\ e_deleted s (h / 2) = false) -> valid_op s (AddFace hes false) = true.
Proof.
  intros N L. cbn [valid_op orb]. apply andb_true_iff. split; [destruct hes; [congruence | reflexivity]|].
  unfold all_b. apply forallb_forall. intros h Hh. destruct (L h Hh) as [A B]. unfold live_he. apply live_e_of; assumption.
Qed.

Lemma valid_add_cell s hfs c : new_cell_ok s hfs -> valid_op s (AddCell hfs c) = true /\ valid_op3 s (AddCell hfs c) = true.
Proof.
  intros [CK NW]. cbn [valid_op valid_op3 valid_op2]. rewrite CK, orb_true_r. cbn [andb]. split.
  - unfold all_b. apply forallb_forall. intros hf Hhf. destruct (NW hf Hhf) as (A & B & _). unfold live_hf. apply live_f_of; assumption.
  - apply andb_true_iff. split; apply forallb_forall; intros hf Hhf; destruct (NW hf Hhf) as (_ & _ & C & D).
    + rewrite C. reflexivity.
    + apply negb_true_iff. destruct (memb (opp hf) hfs) eqn:M; [|reflexivity]. apply memb_In in M. contradiction.
Qed.

(* ---------------------------------------------------------------- Hinv *)
Lemma Hinv_exec s o : Hinv s -> hist_op o = true -> valid_op s o = true -> valid_op2 s o = true -> Hinv (fst (exec s o)).
Proof. intros H G V V2. rewrite <- (next_valid s o V). apply Hinv_step; [exact H | exact G | intros _; exact V2]. Qed.

Lemma Hinv_up s : Hinv s -> up_closed s. Proof. intros (_ & (U & _) & _). exact U. Qed.

Theorem col_closed_Hinv : col_closed Hinv.
Proof.
  unfold col_closed.
  split.
  { intros t x y H B X Y U. destruct (U (Hinv_up t H)) as [U1 U2]. rewrite <- exec_add_edge.
    apply Hinv_exec; [exact H | reflexivity | apply valid_add_edge; assumption | reflexivity]. }
  split.
  { intros t hes H B N L S. change (add_face t hes false) with (exec t (AddFace hes false)).
    apply Hinv_exec; [exact H | reflexivity | apply valid_add_face; assumption | apply simple_b_complete; exact S]. }
  split.
  { intros t c H B X D. change (delete_cell c t) with (fst (exec t (DelCell c))).
    apply Hinv_exec; [exact H | reflexivity | apply live_c_of; assumption | reflexivity]. }
  split.
  { intros t v H B X U. change (delete_vertex v t) with (fst (exec t (DelVertex v))).
    apply Hinv_exec; [exact H | reflexivity | apply live_v_of; [exact X | exact (U (Hinv_up t H))] | reflexivity]. }
  split.
  { intros t hfs H B N. destruct (valid_add_cell t hfs true N) as [V V3]. rewrite (add_cell_unchecked t hfs (proj1 N)).
    change (add_cell t hfs true) with (exec t (AddCell hfs true)).
    apply Hinv_exec; [exact H | reflexivity | exact V|]. cbn [valid_op3 orb] in V3. exact V3. }
  intros k i j t (B & Kk & Z). split; [exact B|]. split; [apply (K_kview t); [reflexivity | exact Kk] | apply szd_swap_prop; exact Z].
Qed.

(* ---------------------------------------------------------------- full_inv *)
Lemma full_inv_up s : full_inv s -> up_closed s. Proof. intros (A & _). exact (all_inv_up_closed s A). Qed.

Lemma full_inv_exec_fst s o : full_inv s -> all_op s o = true -> valid_op s o = true -> valid_op3 s o = true -> full_inv (fst (exec s o)).
Proof. intros H G V V3. exact (proj1 (full_inv_exec3 s o H G V V3)). Qed.

Theorem col_closed_full_inv : col_closed full_inv.
Proof.
  unfold col_closed.
  split.
  { intros t x y H B X Y U. destruct (U (full_inv_up t H)) as [U1 U2]. rewrite <- exec_add_edge.
    apply full_inv_exec_fst; [exact H | reflexivity | apply valid_add_edge; assumption | reflexivity]. }
  split.
  { intros t hes H B N L S. change (add_face t hes false) with (exec t (AddFace hes false)).
    apply full_inv_exec_fst; [exact H | reflexivity | apply valid_add_face; assumption | apply simple_b_complete; exact S]. }
  split.
  { intros t c H B X D. change (delete_cell c t) with (fst (exec t (DelCell c))).
    apply full_inv_exec_fst; [exact H | reflexivity | apply live_c_of; assumption | reflexivity]. }
  split.
  { intros t v H B X U. change (delete_vertex v t) with (fst (exec t (DelVertex v))).
    apply full_inv_exec_fst; [exact H | reflexivity | apply live_v_of; [exact X | exact (U (full_inv_up t H))] | reflexivity]. }
  split.
  { intros t hfs H B N. destruct (valid_add_cell t hfs false N) as [V V3].
    change (add_cell t hfs false) with (exec t (AddCell hfs false)).
    apply full_inv_exec_fst; [exact H | cbn [all_op]; rewrite (bu_inv2_fbu t B); reflexivity | exact V | exact V3]. }
  intros k i j t (A & T & LN & CO).
  split; [|split; [exact T | split; [exact LN | exact CO]]].
  unfold swap_prop_elems. apply all_inv_set_props; [exact A|].
  apply (szd_swap_prop k i j t). exact (all_inv_szd t A).
Qed.

(* ---------------------------------------------------------------- the vertex incidences stay on *)
Theorem col_closed_vbu : col_closed (fun t => vbu t = true).
Proof.
  unfold col_closed. split.
  { intros t x y V _ _ _ _. pose proof (append_edge_view t x y) as W. cbv zeta in W. destruct W as (_ & _ & _ & _ & _ & _ & _ & w8 & _).
    unfold add_edge. destruct (find_dup_edge t x y); [exact V | rewrite w8; exact V]. }
  split.
  { intros t hes V _ _ _ _. pose proof (append_face_view t hes) as W. cbv zeta in W. destruct W as (_ & _ & _ & _ & _ & _ & _ & w8 & _).
    unfold add_face. cbn [andb]. destruct (append_face t hes) as [t1 f]. cbn [fst] in *. rewrite w8. exact V. }
  split.
  { intros t c V B0 _ _. pose proof (delete_cell_deferred c t (bu_inv2_deferred t B0)) as S.
    destruct S as (_ & _ & _ & _ & _ & _ & _ & _ & _ & _ & _ & _ & (f1 & _) & _). rewrite f1. exact V. }
  split.
  { intros t v V B0 _ _. pose proof (delete_vertex_deferred v t (bu_inv2_deferred t B0)) as S. cbv zeta in S.
    destruct S as (_ & _ & _ & _ & _ & _ & _ & _ & _ & _ & _ & _ & (f1 & _) & _). rewrite f1. exact V. }
  split.
  { intros t hfs V B0 _. unfold add_cell. cbn [andb].
    destruct (append_cell_eq t hfs (bu_inv2_fbu t B0) (bu_inv2_ebu t B0)) as [es E]. rewrite E. cbn [fst].
    destruct (reorder_edges_frame2 es (cell_added t hfs)) as (x & -> & _). exact V. }
  intros k i j t V. exact V.
Qed.

Print Assumptions npar_tet_add_halfedge.
Print Assumptions col_closed_Hinv.
Print Assumptions col_closed_full_inv.
Print Assumptions col_closed_vbu.
