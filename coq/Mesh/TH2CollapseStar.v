(* Mesh/TH2CollapseStar.v -- C15, collapse_edge: which cells are flagged.  The star of a vertex through the stored
   definitions (the brute-force closure of Kernel/Closure.v), what delete_vertex flags, the star after the first loop,
   and the cache-guided sets of collapse_edge (vertex_cells, collapsing_cells) as brute-force sets. *)
From Coq Require Import ZArith Lia Bool Arith List ZifyNat ZifyBool.
From OVM Require Import Base.ListX Base.ListLemmas Kernel.State Kernel.Ops Kernel.Mirror Kernel.Recompute Kernel.Closure Kernel.Sizes
                        Kernel.ExactInv Kernel.ExactRun Kernel.DeferredDelete Kernel2.ReorderExact Kernel2.ExactBase Kernel2.ExactHistory
                        Mesh.TetModel Mesh.TetProofs Mesh.TH2CollapseBase Mesh.TH2CollapseLoop.
Import ListNotations.
Ltac Zify.zify_post_hook ::= Z.div_mod_to_equations.
Local Open Scope nat_scope.

(* the live cells with a live face with a live edge at the vertex v *)
Definition star (s : mesh) (v : nat) : list nat := cells_at_faces s (faces_at_edges s (edges_at_vertex s v)).

Lemma In_edges_at s v e : In e (edges_at_vertex s v) <->
  e < ne s /\ e_deleted s e = false /\ (fst (edge_at s e) = v \/ snd (edge_at s e) = v).
Proof.
  unfold edges_at_vertex. rewrite filter_In, In_live_edges. destruct (edge_at s e) as [x y]. cbn [fst snd].
  rewrite orb_true_iff, !Nat.eqb_eq. tauto.
Qed.

Lemma In_faces_at s es f : In f (faces_at_edges s es) <->
  f < nf s /\ f_deleted s f = false /\ exists he, In he (face_at s f) /\ In (he / 2) es.
Proof.
  unfold faces_at_edges. rewrite filter_In, In_live_faces, existsb_exists. split.
  - intros [[A B] (he & H1 & H2)]. apply memb_In in H2. split; [exact A|]. split; [exact B|]. exists he. split; assumption.
  - intros (A & B & he & H1 & H2). split; [split; assumption|]. exists he. split; [exact H1 | apply memb_In; exact H2].
Qed.

Lemma In_cells_at s fs c : In c (cells_at_faces s fs) <->
  c < nc s /\ c_deleted s c = false /\ exists hf, In hf (cell_at s c) /\ In (hf / 2) fs.
Proof.
  unfold cells_at_faces. rewrite filter_In, In_live_cells, existsb_exists. split.
  - intros [[A B] (he & H1 & H2)]. apply memb_In in H2. split; [exact A|]. split; [exact B|]. exists he. split; assumption.
  - intros (A & B & he & H1 & H2). split; [split; assumption|]. exists he. split; [exact H1 | apply memb_In; exact H2].
Qed.

Lemma In_star s v c : In c (star s v) <->
  c < nc s /\ c_deleted s c = false /\
  exists hf he, In hf (cell_at s c) /\ hf / 2 < nf s /\ f_deleted s (hf / 2) = false /\ In he (face_at s (hf / 2)) /\
                he / 2 < ne s /\ e_deleted s (he / 2) = false /\ (fst (edge_at s (he / 2)) = v \/ snd (edge_at s (he / 2)) = v).
Proof.
  unfold star. rewrite In_cells_at. split.
  - intros (A & B & hf & H1 & H2). apply In_faces_at in H2. destruct H2 as (C & D & he & H3 & H4). apply In_edges_at in H4.
    destruct H4 as (E & F & G). split; [exact A|]. split; [exact B|]. exists hf, he. tauto.
  - intros (A & B & hf & he & H1 & C & D & H3 & E & F & G). split; [exact A|]. split; [exact B|]. exists hf. split; [exact H1|].
    apply In_faces_at. split; [exact C|]. split; [exact D|]. exists he. split; [exact H3|]. apply In_edges_at. tauto.
Qed.

(* ---------------------------------------------------------------- what delete_vertex flags (deferred mode, exact caches) *)
Lemma delete_vertex_flags s v : bu_inv s -> deferred s = true -> v < nv s ->
  let s' := delete_vertex v s in
  nv s' = nv s /\ edges s' = edges s /\ faces s' = faces s /\ cells s' = cells s /\
  vdel s' = flag_all [v] (vdel s) /\
  edel s' = flag_all (rev (edges_at_vertex s v)) (edel s) /\
  fdel s' = flag_all (rev (faces_at_edges s (edges_at_vertex s v))) (fdel s) /\
  cdel s' = flag_all (rev (star s v)) (cdel s) /\ deferred s' = true.
Proof.
  intros (VO & EO & FO & _) D Hv. cbv zeta. pose proof (delete_vertex_deferred v s D) as H. cbv zeta in H.
  rewrite (incident_edges_cache_is_scan s v VO Hv) in H.
  rewrite (incident_faces_cache_is_scan s _ EO) in H by (intros e He; apply edges_at_vertex_live in He; tauto).
  rewrite (incident_cells_cache_is_scan s _ FO) in H by (intros f Hf; apply faces_at_edges_live in Hf; tauto).
  destruct H as (x1 & x2 & x3 & x4 & x5 & x6 & x7 & x8 & _ & _ & _ & _ & (_ & _ & _ & x9 & _) & _).
  unfold star. repeat split; try assumption. congruence.
Qed.

Lemma nth_flag_rev L l i : i < length l -> nth i (flag_all (rev L) l) false = nth i l false || memb i L.
Proof. intros H. rewrite nth_flag_all by exact H. rewrite memb_rev. reflexivity. Qed.

(* ---------------------------------------------------------------- the star after the first loop of collapse_edge *)
Section StarLoop.
  Variables (a b : nat) (s0 : mesh).
  Hypothesis Hab : a <> b.
  Hypothesis L0 : L1 a b s0 s0.

  Lemma endpoint_cases s h v : (fst (edge_at s (h / 2)) = v \/ snd (edge_at s (h / 2)) = v) <-> (he_from s h = v \/ he_to s h = v).
  Proof. unfold he_from, he_to. destruct (edge_at s (h / 2)) as [x y]. cbn [fst snd]. destruct (Nat.even h); tauto. Qed.

  Lemma star_after_loop t R c : L1 a b s0 t -> cdel t = flag_all R (cdel s0) ->
    (In c (star t a) <-> In c (star s0 a) /\ memb c R = false).
  Proof.
    intros L CD. pose proof L as (G & B & _ & _ & _ & _ & _ & _ & AE & AF).
    pose proof (L1_lens a b s0 s0 L0) as (Le & Lf & Lc).
    assert (FL : forall x, x < nc s0 -> c_deleted t x = c_deleted s0 x || memb x R).
    { intros x Hx. unfold c_deleted. rewrite CD. apply nth_flag_all. rewrite Lc. exact Hx. }
    rewrite !In_star. split.
    - intros (A & D & hf & he & H1 & C & Df & H3 & E & De & EP). rewrite (grow_nc s0 t G) in A. rewrite (grow_cell_at s0 t G) in H1.
      assert (E0 : he / 2 < ne s0).
      { destruct (le_lt_dec (ne s0) (he / 2)) as [X|X]; [|exact X]. exfalso. destruct (AE (he / 2) X E) as [P Q]. destruct EP; contradiction. }
      assert (C0 : hf / 2 < nf s0).
      { destruct (le_lt_dec (nf s0) (hf / 2)) as [X|X]; [|exact X]. exfalso. destruct (AF (hf / 2) X C he H3) as (_ & P & Q).
        apply endpoint_cases in EP. destruct EP; contradiction. }
      rewrite (grow_face_at s0 t G _ C0) in H3. rewrite (grow_f_deleted s0 t G Lf _ C0) in Df.
      rewrite (grow_edge_at s0 t G _ E0) in EP. rewrite (grow_e_deleted s0 t G Le _ E0) in De.
      rewrite (FL c A) in D. apply orb_false_iff in D. destruct D as [D0 DR].
      split; [|exact DR]. split; [exact A|]. split; [exact D0|]. exists hf, he. tauto.
    - intros [(A & D0 & hf & he & H1 & C0 & Df & H3 & E0 & De & EP) DR].
      split; [rewrite (grow_nc s0 t G); exact A|]. split; [rewrite (FL c A), D0, DR; reflexivity|].
      exists hf, he. rewrite (grow_cell_at s0 t G). split; [exact H1|].
      pose proof (grow_nf s0 t G). pose proof (grow_ne s0 t G).
      rewrite (grow_face_at s0 t G _ C0), (grow_f_deleted s0 t G Lf _ C0), (grow_edge_at s0 t G _ E0), (grow_e_deleted s0 t G Le _ E0).
      repeat split; try assumption; lia.
  Qed.
End StarLoop.

(* ---------------------------------------------------------------- the star through vertices, and the cache-guided sets *)
Section StarExact.
  Variables (a b : nat) (s : mesh).
  Hypothesis Hab : a <> b.
  Hypothesis L : L1 a b s s.

  Lemma cell_hf_live c hf : c < nc s -> c_deleted s c = false -> In hf (cell_at s c) -> hf / 2 < nf s /\ f_deleted s (hf / 2) = false.
  Proof. exact (live_cell_hf a b s s c hf L). Qed.

  Lemma In_halfface_face hf g : In g (halfface s hf) -> exists he, In he (face_at s (hf / 2)) /\ he / 2 = g / 2.
  Proof.
    intros H. apply In_halfface in H. destruct (Nat.even hf); [exists g; split; [exact H | reflexivity]|].
    exists (opp g). split; [exact H | apply opp_div2].
  Qed.

  Lemma In_face_halfface hf he : In he (face_at s (hf / 2)) -> exists g, In g (halfface s hf) /\ g / 2 = he / 2.
  Proof.
    intros H. destruct (Nat.even hf) eqn:E.
    - exists he. split; [apply In_halfface; rewrite E; exact H | reflexivity].
    - exists (opp he). split; [apply In_halfface; rewrite E, opp_involutive; exact H | apply opp_div2].
  Qed.

  (* in a loop triangle, an endpoint of one of its halfedges is the from-vertex of one of them *)
  Lemma endpoint_is_vertex hf g v : hf / 2 < nf s -> f_deleted s (hf / 2) = false -> In g (halfface s hf) ->
    (he_from s g = v \/ he_to s g = v) -> In v (hf_vertices s hf).
  Proof.
    intros R D Hg EP. pose proof L as (_ & _ & _ & _ & K & FLo & _).
    destruct (halfface_three s hf (proj1 (kshape_live 3 4 s K) _ R)) as (g0 & g1 & g2 & EG).
    destruct (halfface_loop s hf g0 g1 g2 (FLo _ R D) EG) as (c0 & c1 & c2).
    unfold hf_vertices. rewrite EG in *. cbn [map In] in *.
    destruct Hg as [<-|[<-|[<-|[]]]]; destruct EP as [<-|<-]; rewrite ?c0, ?c1, ?c2; tauto.
  Qed.

  Theorem In_star_vertices c : In c (star s a) <->
    c < nc s /\ c_deleted s c = false /\ exists hf, In hf (cell_at s c) /\ In a (hf_vertices s hf).
  Proof.
    rewrite In_star. split.
    - intros (A & D & hf & he & H1 & C & Df & H3 & E & De & EP). split; [exact A|]. split; [exact D|]. exists hf. split; [exact H1|].
      destruct (In_face_halfface hf he H3) as (g & Hg & E2).
      apply (endpoint_is_vertex hf g a C Df Hg). apply endpoint_cases. rewrite E2. exact EP.
    - intros (A & D & hf & H1 & Hv). split; [exact A|]. split; [exact D|]. destruct (cell_hf_live c hf A D H1) as [C Df].
      unfold hf_vertices in Hv. apply in_map_iff in Hv. destruct Hv as (g & Fg & Hg).
      destruct (In_halfface_face hf g Hg) as (he & H3 & E2).
      destruct (L1_hf_he a b s Hab s hf g L C Df Hg) as (r & d & _).
      exists hf, he. split; [exact H1|]. split; [exact C|]. split; [exact Df|]. split; [exact H3|]. rewrite E2.
      split; [exact r|]. split; [exact d|]. apply endpoint_cases. left. exact Fg.
  Qed.

  Lemma cell_of_nth_error hf c : nth_error (inc_cell s) hf = Some (Some c) <-> cell_of s hf = Some c.
  Proof.
    unfold cell_of. split.
    - intros H. apply nth_error_nth with (d := None) in H. exact H.
    - intros H. destruct (le_lt_dec (length (inc_cell s)) hf) as [X|X].
      + rewrite nth_overflow in H by exact X. discriminate.
      + rewrite (nth_error_nth' _ None X). rewrite H. reflexivity.
  Qed.

  Hypothesis Ha : a < nv s.

  Theorem vertex_cells_is_star : vertex_cells s a = star s a.
  Proof.
    pose proof L as (_ & B & _ & V & _). pose proof (bu_inv2_ebu s B) as E. pose proof (bu_inv2_fbu s B) as F.
    unfold vertex_cells, full_bu. rewrite V, E, F. cbn [andb negb].
    apply strictly_sorted_ext; [apply set_of_list_sorted | unfold star, cells_at_faces; apply strictly_sorted_filter, sorted_live_cells|].
    intros c. rewrite set_of_list_In, In_star_vertices, in_flat_map. split.
    - intros (he & H1 & H2). apply in_flat_map in H2. destruct H2 as (hf & H3 & H4).
      assert (CO : cell_of s hf = Some c).
      { apply cell_of_nth_error. destruct (nth_error (inc_cell s) hf) as [[c'|]|]; cbn [In] in H4; try contradiction.
        destruct H4 as [->|[]]. reflexivity. }
      apply (bu_inv2_vbu_ok s B V a Ha) in H1. destruct H1 as (r & d & Fr).
      apply (bu_inv2_ebu_ok s B E he (half_lt _ _ r)) in H3. destruct H3 as (rf & df & Ih).
      apply (bu_inv2_fbu_ok s B F hf (half_lt _ _ rf)) in CO. destruct CO as (rc & dc & Ic).
      split; [exact rc|]. split; [exact dc|]. exists hf. split; [exact Ic|]. unfold hf_vertices. apply in_map_iff. exists he. split; assumption.
    - intros (A & D & hf & H1 & Hv). destruct (cell_hf_live c hf A D H1) as [C Df].
      unfold hf_vertices in Hv. apply in_map_iff in Hv. destruct Hv as (g & Fg & Hg).
      destruct (L1_hf_he a b s Hab s hf g L C Df Hg) as (r & d & _).
      exists g. split; [apply (bu_inv2_vbu_ok s B V a Ha); auto|].
      apply in_flat_map. exists hf. split; [apply (bu_inv2_ebu_ok s B E g (half_lt _ _ r)); auto|].
      assert (CO : cell_of s hf = Some c) by (apply (bu_inv2_fbu_ok s B F hf (half_lt _ _ C)); auto).
      apply cell_of_nth_error in CO. rewrite CO. left. reflexivity.
  Qed.

  (* the cells that contain the halfedge heh itself *)
  Theorem In_collapsing_cells heh c : heh / 2 < ne s ->
    (In c (collapsing_cells s heh) <-> c < nc s /\ c_deleted s c = false /\ exists hf, In hf (cell_at s c) /\ In heh (halfface s hf)).
  Proof.
    intros R. pose proof L as (_ & B & _). pose proof (bu_inv2_ebu s B) as E. pose proof (bu_inv2_fbu s B) as F.
    unfold collapsing_cells. rewrite E, in_flat_map. split.
    - intros (hf & H1 & H2). assert (CO : cell_of s hf = Some c) by (destruct (cell_of s hf) as [c'|]; cbn [In] in H2; [destruct H2 as [->|[]]; reflexivity | contradiction]).
      apply (bu_inv2_ebu_ok s B E heh (half_lt _ _ R)) in H1. destruct H1 as (rf & df & Ih).
      apply (bu_inv2_fbu_ok s B F hf (half_lt _ _ rf)) in CO. destruct CO as (rc & dc & Ic).
      split; [exact rc|]. split; [exact dc|]. exists hf. split; assumption.
    - intros (A & D & hf & H1 & H2). destruct (cell_hf_live c hf A D H1) as [C Df].
      exists hf. split; [apply (bu_inv2_ebu_ok s B E heh (half_lt _ _ R)); auto|].
      assert (CO : cell_of s hf = Some c) by (apply (bu_inv2_fbu_ok s B F hf (half_lt _ _ C)); auto).
      rewrite CO. left. reflexivity.
  Qed.

  Theorem rebuilt_cells_is_filter heh : he_from s heh = a ->
    rebuilt_cells s heh = filter (fun c => negb (memb c (collapsing_cells s heh))) (star s a).
  Proof. intros E. unfold rebuilt_cells. rewrite E, vertex_cells_is_star. reflexivity. Qed.
End StarExact.
