(* Mesh/TH2CollapseBase.v -- C15, collapse_edge: the building blocks.  `grow s t`: t is s with edges and faces appended
   (nothing else of the definitions changed); the halfedge / halfface found-or-created by add_halfedge / add_halfface
   under the deferred-mode invariant of the kernel (Kernel2/ExactBase.v bu_inv2: exact caches); triangles as loops. *)
From Coq Require Import ZArith Lia Bool Arith List ZifyNat ZifyBool.
From OVM Require Import Base.ListX Base.ListLemmas Kernel.State Kernel.Ops Kernel.Mirror Kernel.Recompute Kernel.Closure Kernel.Sizes
                        Kernel.ExactInv Kernel.ExactRun Kernel.DeferredDelete Kernel2.ExactBase Kernel2.ExactHistory
                        Mesh.TetModel Mesh.TetProofs.
Import ListNotations.
Ltac Zify.zify_post_hook ::= Z.div_mod_to_equations.
Local Open Scope nat_scope.

(* ------------------------------------------------------------------ the vertex substitution a -> b *)
Definition sub (a b x : nat) : nat := if x =? a then b else x.

Lemma sub_neq a b x : a <> b -> sub a b x <> a.
Proof. unfold sub. destruct (Nat.eqb_spec x a); congruence. Qed.

Lemma sub_inj_on a b x y : x <> b -> y <> b -> sub a b x = sub a b y -> x = y.
Proof. unfold sub. destruct (Nat.eqb_spec x a), (Nat.eqb_spec y a); congruence. Qed.

(* ------------------------------------------------------------------ growth: edges and faces appended *)
Definition grow (s t : mesh) : Prop :=
  nv t = nv s /\ vdel t = vdel s /\
  (exists E, edges t = edges s ++ E /\ edel t = edel s ++ repeat false (length E)) /\
  (exists F, faces t = faces s ++ F /\ fdel t = fdel s ++ repeat false (length F)) /\
  cells t = cells s /\ vbu t = vbu s /\ ebu t = ebu s /\ fbu t = fbu s /\ deferred t = deferred s.

Lemma grow_refl s : grow s s.
Proof.
  unfold grow. repeat split; try reflexivity; exists []; rewrite !app_nil_r; split; reflexivity.
Qed.

Lemma grow_trans s t u : grow s t -> grow t u -> grow s u.
Proof.
  intros (a1 & a2 & (E1 & a3 & a4) & (F1 & a5 & a6) & a7 & a8 & a9 & a10 & a11)
         (b1 & b2 & (E2 & b3 & b4) & (F2 & b5 & b6) & b7 & b8 & b9 & b10 & b11).
  unfold grow. repeat split; try congruence.
  - exists (E1 ++ E2). rewrite b3, a3, b4, a4, app_length, repeat_app, !app_assoc. split; reflexivity.
  - exists (F1 ++ F2). rewrite b5, a5, b6, a6, app_length, repeat_app, !app_assoc. split; reflexivity.
Qed.

Section Grow.
  Variables s t : mesh.
  Hypothesis G : grow s t.
  Hypothesis Le : length (edel s) = ne s.
  Hypothesis Lf : length (fdel s) = nf s.

  Lemma grow_ne : ne s <= ne t.
  Proof. destruct G as (_ & _ & (E & EE & _) & _). unfold ne. rewrite EE, app_length. lia. Qed.
  Lemma grow_nf : nf s <= nf t.
  Proof. destruct G as (_ & _ & _ & (F & FF & _) & _). unfold nf. rewrite FF, app_length. lia. Qed.
  Lemma grow_nc : nc t = nc s.
  Proof. destruct G as (_ & _ & _ & _ & C & _). unfold nc. rewrite C. reflexivity. Qed.

  Lemma grow_edge_at e : e < ne s -> edge_at t e = edge_at s e.
  Proof. intros H. destruct G as (_ & _ & (E & EE & _) & _). unfold edge_at. rewrite EE. apply app_nth1. exact H. Qed.
  Lemma grow_face_at f : f < nf s -> face_at t f = face_at s f.
  Proof. intros H. destruct G as (_ & _ & _ & (F & FF & _) & _). unfold face_at. rewrite FF. apply app_nth1. exact H. Qed.
  Lemma grow_cell_at c : cell_at t c = cell_at s c.
  Proof. destruct G as (_ & _ & _ & _ & C & _). unfold cell_at. rewrite C. reflexivity. Qed.

  Lemma grow_he_from h : h / 2 < ne s -> he_from t h = he_from s h.
  Proof. intros H. unfold he_from. rewrite grow_edge_at by exact H. reflexivity. Qed.
  Lemma grow_he_to h : h / 2 < ne s -> he_to t h = he_to s h.
  Proof. intros H. unfold he_to. rewrite grow_edge_at by exact H. reflexivity. Qed.
  Lemma grow_halfface hf : hf / 2 < nf s -> halfface t hf = halfface s hf.
  Proof. intros H. unfold halfface. rewrite grow_face_at by exact H. reflexivity. Qed.

  Lemma grow_e_deleted e : e < ne s -> e_deleted t e = e_deleted s e.
  Proof.
    intros H. destruct G as (_ & _ & (E & _ & EE) & _). unfold e_deleted. rewrite EE. apply app_nth1. rewrite Le. exact H.
  Qed.
  Lemma grow_e_new e : ne s <= e -> e_deleted t e = false.
  Proof.
    intros H. destruct G as (_ & _ & (E & _ & EE) & _). unfold e_deleted. rewrite EE, app_nth2 by (rewrite Le; exact H).
    destruct (le_lt_dec (length E) (e - length (edel s))) as [X|X].
    - apply nth_overflow. rewrite repeat_length. exact X.
    - apply nth_repeat.
  Qed.
  Lemma grow_f_deleted f : f < nf s -> f_deleted t f = f_deleted s f.
  Proof.
    intros H. destruct G as (_ & _ & _ & (F & _ & FF) & _). unfold f_deleted. rewrite FF. apply app_nth1. rewrite Lf. exact H.
  Qed.
  Lemma grow_f_new f : nf s <= f -> f_deleted t f = false.
  Proof.
    intros H. destruct G as (_ & _ & _ & (F & _ & FF) & _). unfold f_deleted. rewrite FF, app_nth2 by (rewrite Lf; exact H).
    destruct (le_lt_dec (length F) (f - length (fdel s))) as [X|X].
    - apply nth_overflow. rewrite repeat_length. exact X.
    - apply nth_repeat.
  Qed.
  Lemma grow_v_deleted v : v_deleted t v = v_deleted s v.
  Proof. destruct G as (_ & V & _). unfold v_deleted. rewrite V. reflexivity. Qed.
End Grow.

(* halfface vertices of an old halfface whose halfedges are old *)
Lemma grow_hf_vertices s t hf : grow s t -> hf / 2 < nf s -> (forall h, In h (face_at s (hf / 2)) -> h / 2 < ne s) ->
  hf_vertices t hf = hf_vertices s hf.
Proof.
  intros G Hf R. unfold hf_vertices. rewrite (grow_halfface s t G hf Hf). apply map_ext_in. intros h Hh.
  apply (grow_he_from s t G). apply In_halfface in Hh. destruct (Nat.even hf).
  - apply R. exact Hh.
  - specialize (R _ Hh). rewrite opp_div2 in R. exact R.
Qed.

(* ------------------------------------------------------------------ property-only changes *)
Lemma bu_inv2_set_props k x s : bu_inv2 s -> bu_inv2 (set_props k x s).
Proof. intros H. exact H. Qed.
Lemma bu_inv2_swap_prop k i j s : bu_inv2 s -> bu_inv2 (swap_prop_elems k i j s).
Proof. intros H. exact H. Qed.
Lemma grow_swap_prop k i j s : grow s (swap_prop_elems k i j s).
Proof. exact (grow_refl s). Qed.

(* ------------------------------------------------------------------ add_halfedge *)

Lemma bu_inv2_vbu_ok s : bu_inv2 s -> vbu_ok s. Proof. intros ((V & _) & _). exact V. Qed.
Lemma bu_inv2_ebu_ok s : bu_inv2 s -> ebu_ok s. Proof. intros ((_ & E & _) & _). exact E. Qed.
Lemma bu_inv2_fbu_ok s : bu_inv2 s -> fbu_ok s. Proof. intros ((_ & _ & F & _) & _). exact F. Qed.
Lemma bu_inv2_refs s : bu_inv2 s -> refs_ok s. Proof. intros ((_ & _ & _ & R & _) & _). exact R. Qed.
Lemma bu_inv2_lens s : bu_inv2 s -> lens_ok s. Proof. intros ((_ & _ & _ & _ & L) & _). exact L. Qed.
Lemma bu_inv2_ebu s : bu_inv2 s -> ebu s = true. Proof. intros (_ & E & _). exact E. Qed.
Lemma bu_inv2_fbu s : bu_inv2 s -> fbu s = true. Proof. intros (_ & _ & F & _). exact F. Qed.
Lemma bu_inv2_deferred s : bu_inv2 s -> deferred s = true. Proof. intros (_ & _ & _ & D & _). exact D. Qed.
Lemma bu_inv2_simple s : bu_inv2 s -> faces_simple s. Proof. intros (_ & _ & _ & _ & _ & _ & _ & S). exact S. Qed.

Lemma grow_append_edge s x y : grow s (fst (append_edge s x y)).
Proof.
  pose proof (append_edge_view s x y) as V. cbv zeta in V.
  destruct V as (v1 & v2 & v3 & v4 & v5 & v6 & v7 & v8 & v9 & v10 & _).
  assert (D : deferred (fst (append_edge s x y)) = deferred s) by apply deferred_append_edge.
  assert (VD : vdel (fst (append_edge s x y)) = vdel s).
  { unfold append_edge. cbv zeta. cbn [fst]. repeat match goal with |- context [if ?c then _ else _] => destruct c end; reflexivity. }
  unfold grow. repeat split; try assumption.
  - exists [(x, y)]. split; assumption.
  - exists []. rewrite v3, v6, !app_nil_r. split; reflexivity.
Qed.

(* the outcome of add_halfedge(x, y): a live halfedge from x to y; nothing but (possibly) one appended edge (x, y) *)
Lemma tet_add_halfedge_spec s x y : bu_inv2 s -> szd s -> vbu s = true -> x < nv s -> y < nv s ->
  let r := tet_add_halfedge s x y in
  grow s (fst r) /\ bu_inv2 (fst r) /\ szd (fst r) /\
  snd r / 2 < ne (fst r) /\ e_deleted (fst r) (snd r / 2) = false /\ he_from (fst r) (snd r) = x /\ he_to (fst r) (snd r) = y /\
  (forall e, ne s <= e -> e < ne (fst r) -> edge_at (fst r) e = (x, y)) /\ nf (fst r) = nf s.
Proof.
  intros B Z V Hx Hy. cbv zeta. unfold tet_add_halfedge, find_halfedge. rewrite V.
  destruct (find (fun h => he_to s h =? y) (out_at s x)) as [h|] eqn:F.
  - cbn [fst snd]. apply find_some in F. destruct F as [Hin Ht]. apply Nat.eqb_eq in Ht.
    apply (bu_inv2_vbu_ok s B V x Hx) in Hin. destruct Hin as (R & D & Fr).
    split; [apply grow_refl|]. split; [exact B|]. split; [exact Z|]. split; [exact R|]. split; [exact D|].
    split; [exact Fr|]. split; [exact Ht|]. split; [|reflexivity]. intros e Q1 Q2. lia.
  - assert (AE : add_edge s x y false = append_edge s x y).
    { unfold add_edge, find_dup_edge. rewrite V, F. reflexivity. }
    pose proof (bu_inv2_add_edge s x y false B Hx Hy) as B1. pose proof (szd_add_edge s x y false Z) as Z1.
    rewrite AE in *. pose proof (grow_append_edge s x y) as G1.
    pose proof (append_edge_view s x y) as W. cbv zeta in W. destruct W as (w1 & w2 & w3 & _).
    assert (S1 : snd (append_edge s x y) = ne s) by reflexivity.
    destruct (append_edge s x y) as [s1 e]. cbn [fst snd] in *. subst e.
    assert (NE : ne s1 = S (ne s)) by (unfold ne; rewrite w2, app_length; simpl; lia).
    assert (EA : edge_at s1 (ne s) = (x, y)) by (unfold edge_at, ne; rewrite w2, app_nth2, Nat.sub_diag by lia; reflexivity).
    pose proof (bu_inv2_lens s B) as (_ & _ & _ & Le & _).
    split; [exact G1|]. split; [exact B1|]. split; [exact Z1|].
    replace (2 * ne s / 2) with (ne s) by lia.
    split; [lia|]. split; [apply (grow_e_new s s1 G1 Le); lia|].
    split; [rewrite he_from_even, EA; reflexivity|].
    split; [unfold he_to; replace (2 * ne s / 2) with (ne s) by lia; rewrite EA;
            replace (Nat.even (2 * ne s)) with true by (symmetry; rewrite even_mod2; apply Nat.eqb_eq; lia); reflexivity|].
    split; [intros e Q1 Q2; replace e with (ne s) by lia; exact EA|].
    unfold nf. rewrite w3. reflexivity.
Qed.

(* ------------------------------------------------------------------ triangles as loops *)

(* every live face is a closed loop of halfedges *)
Definition faces_loop (s : mesh) : Prop := forall f, f < nf s -> f_deleted s f = false -> loop_ok s (face_at s f) = true.
Definition faces_loop_b (s : mesh) : bool := forallb (fun f => f_deleted s f || loop_ok s (face_at s f)) (seq 0 (nf s)).
Lemma faces_loop_b_sound s : faces_loop_b s = true -> faces_loop s.
Proof.
  unfold faces_loop_b. rewrite forallb_forall. intros H f Hf D. specialize (H f ltac:(apply in_seq; lia)). rewrite D in H. exact H.
Qed.

Lemma loop3 s e0 e1 e2 : loop_ok s [e0; e1; e2] = true <->
  he_to s e0 = he_from s e1 /\ he_to s e1 = he_from s e2 /\ he_to s e2 = he_from s e0.
Proof.
  cbn [loop_ok chain_ok]. rewrite !andb_true_iff, !Nat.eqb_eq. tauto.
Qed.

Lemma loop_ok_ext s t l : (forall h, In h l -> he_from t h = he_from s h /\ he_to t h = he_to s h) -> loop_ok t l = loop_ok s l.
Proof.
  intros H. unfold loop_ok. destruct l as [|h0 l0]; [reflexivity|].
  assert (H0 : he_from t h0 = he_from s h0) by (apply H; left; reflexivity).
  assert (G : forall l, (forall h, In h l -> he_from t h = he_from s h /\ he_to t h = he_to s h) -> chain_ok t h0 l = chain_ok s h0 l).
  { induction l as [|h l IH]; intros Hl; [reflexivity|]. cbn [chain_ok]. destruct l as [|h2 l'].
    - rewrite (proj2 (Hl h (or_introl eq_refl))), H0. reflexivity.
    - rewrite (proj2 (Hl h (or_introl eq_refl))), (proj1 (Hl h2 (or_intror (or_introl eq_refl)))).
      rewrite IH; [reflexivity|]. intros x Hx. apply Hl. right. exact Hx. }
  apply G. exact H.
Qed.

(* the from-vertices of a halfface that is a loop [e0;e1;e2] (even) or its mirror (odd) *)
Lemma halfface_three s hf : length (face_at s (hf / 2)) = 3 -> exists g0 g1 g2, halfface s hf = [g0; g1; g2].
Proof.
  intros L. unfold halfface. destruct (face_at s (hf / 2)) as [|a [|b [|c [|]]]]; try discriminate.
  destruct (Nat.even hf); [exists a, b, c; reflexivity | exists (opp c), (opp b), (opp a); reflexivity].
Qed.

(* a halfface of a loop face is a loop *)
Lemma halfface_loop s hf g0 g1 g2 : loop_ok s (face_at s (hf / 2)) = true -> halfface s hf = [g0; g1; g2] ->
  he_to s g0 = he_from s g1 /\ he_to s g1 = he_from s g2 /\ he_to s g2 = he_from s g0.
Proof.
  unfold halfface. intros L E. destruct (Nat.even hf).
  - rewrite E in L. apply loop3. exact L.
  - destruct (face_at s (hf / 2)) as [|a [|b [|c [|d r]]]]; cbn [map rev app] in E; try discriminate.
    2:{ exfalso. apply (f_equal (@length nat)) in E. rewrite !app_length in E. cbn [length] in E. lia. }
    injection E as E0 E1 E2. subst g0 g1 g2.
    apply loop3 in L. destruct L as (l1 & l2 & l3). rewrite !he_to_opp, !he_from_opp. repeat split; congruence.
Qed.

(* cyclic rotations of a three-element list *)
Definition rot3 (l m : list nat) : Prop :=
  match l with
  | [x; y; z] => m = [x; y; z] \/ m = [y; z; x] \/ m = [z; x; y]
  | _ => False
  end.

Lemma rot3_refl x y z : rot3 [x; y; z] [x; y; z]. Proof. left. reflexivity. Qed.

(* a triangle loop that contains a halfedge x->y and a halfedge y->z (x, y, z distinct) runs through x, y, z in this cyclic order *)
Lemma loop_through s g0 g1 g2 h0 h1 x y z :
  he_to s g0 = he_from s g1 -> he_to s g1 = he_from s g2 -> he_to s g2 = he_from s g0 ->
  In h0 [g0; g1; g2] -> In h1 [g0; g1; g2] ->
  he_from s h0 = x -> he_to s h0 = y -> he_from s h1 = y -> he_to s h1 = z -> x <> y -> y <> z -> x <> z ->
  rot3 [x; y; z] (map (he_from s) [g0; g1; g2]).
Proof.
  intros L0 L1 L2 I0 I1 F0 T0 F1 T1 Nxy Nyz Nxz. cbn [map rot3].
  destruct I0 as [<-|[<-|[<-|[]]]]; destruct I1 as [<-|[<-|[<-|[]]]]; try congruence.
  - left. congruence.
  - right. right. congruence.
  - right. left. congruence.
Qed.
