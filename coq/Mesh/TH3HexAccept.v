(* Mesh/TH3HexAccept.v -- C16, add_cell(eight vertices, topologyCheck = true): which calls are accepted.  Under cre_inv and for eight
   pairwise distinct vertices the six found-or-created quads always pass the "closed two-manifold" test of add_cell(vertices) (two
   std::sets: 24 different halfedges on 12 edges) and would pass the base kernel's cell_check; the call is rejected exactly when one of
   the six halffaces already has an incident cell (only a halfface that was FOUND can have one). *)
From Coq Require Import ZArith Lia Bool Arith List ZifyNat ZifyBool Permutation.
From OVM Require Import Base.ListX Base.ListLemmas Kernel.State Kernel.Ops Kernel.Mirror Kernel.Recompute Kernel.Closure Kernel.CellCheck
                        Kernel.Construct Kernel.ExactInv Kernel.ExactRun Kernel2.ListAux Kernel2.ExactAddCell
                        Mesh.TetModel Mesh.TetProofs Mesh.HexModel Mesh.HexIterModel Mesh.HexProofs Mesh.TH2CollapseBase Mesh.TH2CollapseLoop
                        Mesh.TH2CollapseFold Mesh.TH2HexBase Mesh.TH2HexChecked Mesh.TH2HexEight
                        Mesh.TH3Base Mesh.TH3TetAccept Mesh.TH3HexQuad Mesh.TH3HexCube Mesh.TH3HexMain.
Import ListNotations.
Ltac Zify.zify_post_hook ::= Z.div_mod_to_equations.
Local Open Scope nat_scope.

Definition has_cell_b (t : mesh) (hf : nat) : bool := match cell_of t hf with Some _ => true | None => false end.

Theorem hex_add_cell_v_checked_acceptance s a0 a1 a2 a3 a4 a5 a6 a7 :
  let vs := [a0; a1; a2; a3; a4; a5; a6; a7] in
  cre_inv s -> NoDup vs -> (forall v, In v vs -> v < nv s) -> full_bu s = true ->
  exists s1 hfs, created_from s vs s1 hfs /\ closed_by_sets s1 hfs = true /\ cell_check s1 hfs = true /\
    if existsb (has_cell_b s1) hfs then hex_add_cell_v s vs true = (s1, None)
    else exists s', hex_add_cell_v s vs true = (s', Some (nc s)).
Proof.
  intros vs C ND8 RV FB. unfold hex_add_cell_v. rewrite FB. cbn [negb].
  replace (length vs =? 8) with true by reflexivity. cbn [negb andb].
  rewrite (set_of_list_length_NoDup vs ND8). replace (length vs =? 8) with true by reflexivity. cbn [negb].
  fold quad_step.
  set (qs := combine (hex_quads vs) (map (find_halfface_extensive s) (hex_quads vs))) in *.
  assert (HQ : forall qf, In qf qs -> (exists x0 x1 x2 x3, fst qf = [x0; x1; x2; x3]) /\ (forall v, In v (fst qf) -> v < nv s) /\
                                       snd qf = find_halfface_extensive s (fst qf)).
  { intros [q f] Hin. unfold qs, vs, hex_quads in Hin. cbn [nth map combine] in Hin. cbn [fst snd].
    repeat (destruct Hin as [Hin|Hin]; [injection Hin as <- <-; (split; [do 4 eexists; reflexivity|]); (split; [|reflexivity]);
      intros v Hv; apply RV; unfold vs; cbn [In] in *; tauto|]). destruct Hin. }
  pose proof (fold_quads_cre s C qs s [] [] (grow_refl s) C (Forall2_nil _) HQ) as (G1 & C1 & F1).
  destruct (fold_left quad_step qs (s, [])) as [s1 hfs]. cbn [fst snd app] in *.
  exists s1, hfs. split; [split; [exact G1 | split; [exact C1 | exact F1]]|].
  unfold qs, vs, hex_quads in F1. cbn [nth map combine] in F1.
  destruct (forall2_six _ _ _ _ _ _ _ _ F1) as (h0 & h1 & h2 & h3 & h4 & h5 & -> & (M0 & _) & (M1 & _) & (M2 & _) & (M3 & _) & (M4 & _) & (M5 & _)).
  cbn [fst snd] in M0, M1, M2, M3, M4, M5.
  destruct (cube_static s1 a0 a1 a2 a3 a4 a5 a6 a7 h0 h1 h2 h3 h4 h5 C1 ND8 M0 M1 M2 M3 M4 M5) as (_ & MO & _).
  assert (CB : closed_by_sets s1 [h0; h1; h2; h3; h4; h5] = true).
  { unfold closed_by_sets. apply Nat.eqb_eq. apply closed_sets_of_opp. exact (proj2 MO). }
  assert (CC : cell_check s1 [h0; h1; h2; h3; h4; h5] = true) by (apply cell_check_spec; split; [discriminate | exact MO]).
  split; [exact CB|]. split; [exact CC|]. rewrite CB. cbn [negb andb].
  assert (FB1 : fbu s1 = true).
  { destruct G1 as (_ & _ & _ & _ & _ & _ & _ & fb & _). rewrite fb. unfold full_bu in FB. apply andb_true_iff in FB. exact (proj2 FB). }
  rewrite FB1. cbn [andb]. fold (has_cell_b s1).
  destruct (existsb (has_cell_b s1) [h0; h1; h2; h3; h4; h5]); [reflexivity|].
  destruct (add_cell_cases s1 [h0; h1; h2; h3; h4; h5] false) as [R|(s2 & R & _)].
  - exfalso. unfold add_cell in R. cbn [andb] in R. destruct (append_cell s1 [h0; h1; h2; h3; h4; h5]). discriminate.
  - exists s2. rewrite R. rewrite (grow_nc s s1 G1). reflexivity.
Qed.

Print Assumptions hex_add_cell_v_checked_acceptance.
