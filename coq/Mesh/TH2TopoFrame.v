(* Mesh/TH2TopoFrame.v -- the geometry: a cell satisfying [tet_cell_ok] (TH2TopoWf.v), seen from any of its
   halffaces [abc] rotated to start at any of its halfedges [ab], is a fully labelled tetrahedron:

       abc = (ab, bc, ca)   on (A, B, C)
       X   = (ba, ad, db)   on (B, A, D)        ba = opp ab ...
       Y   = (cb, bd, dc)   on (C, B, D)
       Z   = (ac, cd, da)   on (A, C, D)

   with A, B, C, D distinct, the cell's halffaces being exactly abc, X, Y, Z (in ANY stored order and each side
   halfface in ANY stored rotation).  [tet_frame] records this; [tet_frame_exists] / [tet_frame_exists_default]
   derive it from [tet_cell_ok]. *)
From Coq Require Import ZArith Lia Bool Arith List.
From OVM Require Import Base.ListX Base.ListLemmas Kernel.State Kernel.Ops Kernel.Mirror
                        Mesh.TetModel Mesh.TetProofs Mesh.TH2TopoWf.
Import ListNotations.
Local Open Scope nat_scope.

Record tet_frame (s : mesh) (c : nat) (hfs : list nat) (abc i : nat)
                 (A B C D ab bc ca ad bd cd db dc da X Y Z : nat) : Prop := {
  fr_cell : nth_error (cells s) c = Some hfs;
  fr_incl : forall hf, In hf hfs -> hf = abc \/ hf = X \/ hf = Y \/ hf = Z;
  fr_abc : In abc hfs; fr_X : In X hfs; fr_Y : In Y hfs; fr_Z : In Z hfs;
  fr_faces : NoDup [abc; X; Y; Z];
  fr_habc : rot3i i (halfface s abc) ab bc ca;
  fr_hX : rot3 (halfface s X) (opp ab) ad db;
  fr_hY : rot3 (halfface s Y) (opp bc) bd dc;
  fr_hZ : rot3 (halfface s Z) (opp ca) cd da;
  fr_ab : ends s ab A B; fr_bc : ends s bc B C; fr_ca : ends s ca C A;
  fr_ad : ends s ad A D; fr_bd : ends s bd B D; fr_cd : ends s cd C D;
  fr_db : ends s db D B; fr_dc : ends s dc D C; fr_da : ends s da D A;
  fr_nd : NoDup [A; B; C; D]
}.

Lemma nodup3_neq (x y z : nat) : NoDup [x; y; z] -> x <> y /\ x <> z /\ y <> z.
Proof.
  intros N. inversion N as [|? ? a N']; subst. inversion N' as [|? ? b _]; subst. simpl in a, b.
  repeat split; intros E; subst; intuition.
Qed.

Lemma nodup4_neq (x y z w : nat) : NoDup [x; y; z; w] -> x <> y /\ x <> z /\ x <> w /\ y <> z /\ y <> w /\ z <> w.
Proof.
  intros N. inversion N as [|? ? a N']; subst. apply nodup3_neq in N'. destruct N' as (p&q&r). simpl in a.
  repeat split; try assumption; intros E; subst; intuition.
Qed.

Lemma nodup4_intro (x y z w : nat) : x <> y -> x <> z -> x <> w -> y <> z -> y <> w -> z <> w -> NoDup [x; y; z; w].
Proof. intros. repeat constructor; simpl; intuition congruence. Qed.

(* two halfedges with different ends are different *)
Ltac ends_differ s H :=
  first [ let K := fresh in pose proof (f_equal (he_from s) H) as K; rewrite ?he_from_opp in K; congruence
        | let K := fresh in pose proof (f_equal (he_to s) H) as K; rewrite ?he_to_opp in K; congruence ].

Section Geometry.
  Variables (s : mesh) (c : nat) (hfs : list nat).
  Hypothesis OK : tet_cell_ok s c hfs.

  (* the side halfface across a halfedge [h] of a halfface of the cell *)
  Lemma side_face hf h : In hf hfs -> In h (halfface s hf) ->
    exists F h1 h2, In F hfs /\ rot3 (halfface s F) (opp h) h1 h2 /\
      he_from s h1 = he_from s h /\ he_to s h1 = he_from s h2 /\ he_to s h2 = he_to s h /\
      NoDup [he_to s h; he_from s h; he_to s h1].
  Proof.
    intros Hhf Hh. destruct (tco_closed s c hfs OK hf h Hhf Hh) as (F&HF&Ho).
    destruct (tri_ok_at s F (opp h) (tco_tri s c hfs OK F HF) Ho) as (h1&h2&R&E0&E1&E2&N).
    rewrite he_to_opp in E0. rewrite he_from_opp in E2, N.
    exists F, h1, h2. split; [exact HF|]. split; [exact R|]. split; [symmetry; exact E0|].
    split; [exact E1|]. split; [exact E2|]. rewrite <- E0, <- E1 in N. exact N.
  Qed.

  Lemma verts_rot3 F p q r : rot3 (halfface s F) p q r -> rot3 (hf_vertices s F) (he_from s p) (he_from s q) (he_from s r).
  Proof. intros R. unfold hf_vertices. apply (rot3_map (he_from s)). exact R. Qed.

  Lemma in_vertex_set hf v : In hf hfs -> In v (hf_vertices s hf) -> In v (hfs_vertex_set s hfs).
  Proof. intros H Hv. apply hfs_vertex_set_In. exists hf. split; assumption. Qed.

  (* five distinct vertices do not fit in the cell *)
  Lemma no_fifth_vertex (v0 v1 v2 v3 v4 : nat) : NoDup [v0; v1; v2; v3; v4] ->
    (forall v, In v [v0; v1; v2; v3; v4] -> In v (hfs_vertex_set s hfs)) -> False.
  Proof.
    intros N I. pose proof (NoDup_incl_length N I) as L. rewrite (tco_four s c hfs OK) in L. cbn [length] in L. lia.
  Qed.

  Section Core.
    Variables (abc i ab bc ca : nat).
    Hypothesis Habc : In abc hfs.
    Hypothesis R : rot3i i (halfface s abc) ab bc ca.
    Hypothesis E0 : he_to s ab = he_from s bc.
    Hypothesis E1 : he_to s bc = he_from s ca.
    Hypothesis E2 : he_to s ca = he_from s ab.
    Hypothesis N : NoDup [he_from s ab; he_from s bc; he_from s ca].

    Lemma frame_core : exists D ad bd cd db dc da X Y Z,
      tet_frame s c hfs abc i (he_from s ab) (he_from s bc) (he_from s ca) D ab bc ca ad bd cd db dc da X Y Z.
    Proof.
      pose proof (rot3i_rot3 _ _ _ _ _ R) as R3.
      assert (Iab : In ab (halfface s abc)) by (apply (rot3_In _ _ _ _ _ R3); auto).
      assert (Ibc : In bc (halfface s abc)) by (apply (rot3_In _ _ _ _ _ R3); auto).
      assert (Ica : In ca (halfface s abc)) by (apply (rot3_In _ _ _ _ _ R3); auto).
      destruct (side_face abc ab Habc Iab) as (X&ad&db&HX&RX&Xa&Xb&Xc&NX).
      destruct (side_face abc bc Habc Ibc) as (Y&bd&dc&HY&RY&Ya&Yb&Yc&NY).
      destruct (side_face abc ca Habc Ica) as (Z&cd&da&HZ&RZ&Za&Zb&Zc&NZ).
      remember (he_from s ab) as A eqn:EA. remember (he_from s bc) as B eqn:EB. remember (he_from s ca) as C eqn:EC.
      remember (he_to s ad) as D eqn:ED. remember (he_to s bd) as D' eqn:ED'. remember (he_to s cd) as D'' eqn:ED''.
      symmetry in EA, EB, EC, ED, ED', ED''.
      rewrite E0 in NX. rewrite E1 in NY. rewrite E2 in NZ.
      destruct (nodup3_neq _ _ _ N) as (nAB&nAC&nBC).
      destruct (nodup3_neq _ _ _ NX) as (_&nBD&nAD).
      destruct (nodup3_neq _ _ _ NY) as (_&nCD'&nBD').
      destruct (nodup3_neq _ _ _ NZ) as (_&nAD''&nCD'').
      symmetry in Xb, Yb, Zb. rewrite E0 in Xc. rewrite E1 in Yc. rewrite E2 in Zc.
      (* the side halffaces are not abc *)
      assert (in_abc : forall h, In h (halfface s abc) -> h = ab \/ h = bc \/ h = ca).
      { intros h Hh. apply (rot3_In _ _ _ _ _ R3). exact Hh. }
      assert (XnA : X <> abc).
      { intros E. assert (K : In (opp ab) (halfface s abc)) by (rewrite <- E; apply (rot3_In _ _ _ _ _ RX); auto).
        destruct (in_abc _ K) as [K'|[K'|K']]; [exact (opp_neq _ K') | ends_differ s K' | ends_differ s K']. }
      assert (YnA : Y <> abc).
      { intros E. assert (K : In (opp bc) (halfface s abc)) by (rewrite <- E; apply (rot3_In _ _ _ _ _ RY); auto).
        destruct (in_abc _ K) as [K'|[K'|K']]; [ends_differ s K' | exact (opp_neq _ K') | ends_differ s K']. }
      assert (ZnA : Z <> abc).
      { intros E. assert (K : In (opp ca) (halfface s abc)) by (rewrite <- E; apply (rot3_In _ _ _ _ _ RZ); auto).
        destruct (in_abc _ K) as [K'|[K'|K']]; [ends_differ s K' | ends_differ s K' | exact (opp_neq _ K')]. }
      (* the apexes are not on abc: the vertex sets differ *)
      pose proof (verts_rot3 abc _ _ _ R3) as Vabc. rewrite EA, EB, EC in Vabc.
      pose proof (verts_rot3 X _ _ _ RX) as VX. rewrite he_from_opp, E0, Xa, Xb in VX.
      pose proof (verts_rot3 Y _ _ _ RY) as VY. rewrite he_from_opp, E1, Ya, Yb in VY.
      pose proof (verts_rot3 Z _ _ _ RZ) as VZ. rewrite he_from_opp, E2, Za, Zb in VZ.
      assert (nCD : C <> D).
      { intros E. apply (tco_distinct s c hfs OK abc X Habc HX (fun e => XnA (eq_sym e))). intros v Hv.
        apply (rot3_In _ _ _ _ v VX) in Hv. apply (rot3_In _ _ _ _ v Vabc). destruct Hv as [->|[->| ->]]; auto. }
      assert (nAD' : A <> D').
      { intros E. apply (tco_distinct s c hfs OK abc Y Habc HY (fun e => YnA (eq_sym e))). intros v Hv.
        apply (rot3_In _ _ _ _ v VY) in Hv. apply (rot3_In _ _ _ _ v Vabc). destruct Hv as [->|[->| ->]]; auto. }
      assert (nBD'' : B <> D'').
      { intros E. apply (tco_distinct s c hfs OK abc Z Habc HZ (fun e => ZnA (eq_sym e))). intros v Hv.
        apply (rot3_In _ _ _ _ v VZ) in Hv. apply (rot3_In _ _ _ _ v Vabc). destruct Hv as [->|[->| ->]]; auto. }
      (* one apex: there are only four vertices *)
      assert (SA : In A (hfs_vertex_set s hfs)) by (apply (in_vertex_set abc); [exact Habc | apply (rot3_In _ _ _ _ _ Vabc); auto]).
      assert (SB : In B (hfs_vertex_set s hfs)) by (apply (in_vertex_set abc); [exact Habc | apply (rot3_In _ _ _ _ _ Vabc); auto]).
      assert (SC : In C (hfs_vertex_set s hfs)) by (apply (in_vertex_set abc); [exact Habc | apply (rot3_In _ _ _ _ _ Vabc); auto]).
      assert (SD : In D (hfs_vertex_set s hfs)) by (apply (in_vertex_set X); [exact HX | apply (rot3_In _ _ _ _ _ VX); auto]).
      assert (SD' : In D' (hfs_vertex_set s hfs)) by (apply (in_vertex_set Y); [exact HY | apply (rot3_In _ _ _ _ _ VY); auto]).
      assert (SD'' : In D'' (hfs_vertex_set s hfs)) by (apply (in_vertex_set Z); [exact HZ | apply (rot3_In _ _ _ _ _ VZ); auto]).
      assert (DD' : D' = D).
      { destruct (Nat.eq_dec D' D) as [|n]; [assumption|exfalso].
        apply (no_fifth_vertex D' A B C D).
        - constructor; [simpl; intuition congruence|]. apply nodup4_intro; assumption.
        - intros v [<-|[<-|[<-|[<-|[<-|[]]]]]]; assumption. }
      assert (DD'' : D'' = D).
      { destruct (Nat.eq_dec D'' D) as [|n]; [assumption|exfalso].
        apply (no_fifth_vertex D'' A B C D).
        - constructor; [simpl; intuition congruence|]. apply nodup4_intro; assumption.
        - intros v [<-|[<-|[<-|[<-|[<-|[]]]]]]; assumption. }
      subst D' D''.
      (* the side halffaces are pairwise different *)
      assert (in_X : forall h, In h (halfface s X) -> h = opp ab \/ h = ad \/ h = db).
      { intros h Hh. apply (rot3_In _ _ _ _ _ RX). exact Hh. }
      assert (in_Y : forall h, In h (halfface s Y) -> h = opp bc \/ h = bd \/ h = dc).
      { intros h Hh. apply (rot3_In _ _ _ _ _ RY). exact Hh. }
      assert (XnY : X <> Y).
      { intros E. assert (K : In (opp bc) (halfface s X)) by (rewrite E; apply (rot3_In _ _ _ _ _ RY); auto).
        destruct (in_X _ K) as [K'|[K'|K']]; ends_differ s K'. }
      assert (XnZ : X <> Z).
      { intros E. assert (K : In (opp ca) (halfface s X)) by (rewrite E; apply (rot3_In _ _ _ _ _ RZ); auto).
        destruct (in_X _ K) as [K'|[K'|K']]; ends_differ s K'. }
      assert (YnZ : Y <> Z).
      { intros E. assert (K : In (opp ca) (halfface s Y)) by (rewrite E; apply (rot3_In _ _ _ _ _ RZ); auto).
        destruct (in_Y _ K) as [K'|[K'|K']]; ends_differ s K'. }
      assert (NF : NoDup [abc; X; Y; Z]) by (apply nodup4_intro; auto).
      assert (IF : incl [abc; X; Y; Z] hfs) by (intros f [<-|[<-|[<-|[<-|[]]]]]; assumption).
      assert (IF' : incl hfs [abc; X; Y; Z]).
      { apply NoDup_length_incl; [exact NF | rewrite (tco_len s c hfs OK); cbn [length]; lia | exact IF]. }
      rewrite DD' in Yb. rewrite DD'' in Zb.
      assert (ND4 : NoDup [A; B; C; D]) by (apply nodup4_intro; assumption).
      assert (INC : forall hf, In hf hfs -> hf = abc \/ hf = X \/ hf = Y \/ hf = Z).
      { intros hf Hhf. destruct (IF' hf Hhf) as [<-|[<-|[<-|[<-|[]]]]]; auto. }
      pose proof (tco_cell s c hfs OK) as CELL.
      exists D, ad, bd, cd, db, dc, da, X, Y, Z. constructor; unfold ends; try assumption; split; assumption.
    Qed.
  End Core.

  (* start vertex [a] given: the constructor's index is the first halfedge of abc leaving a *)
  Theorem tet_frame_exists abc a : In abc hfs -> In a (hf_vertices s abc) ->
    exists i B C D ab bc ca ad bd cd db dc da X Y Z,
      tet_frame s c hfs abc i a B C D ab bc ca ad bd cd db dc da X Y Z /\
      find_index (fun x => he_from s x =? a) (halfface s abc) = Some i.
  Proof.
    intros Habc Ha.
    destruct (tri_ok_start s abc a (tco_tri s c hfs OK abc Habc) Ha) as (i&ab&bc&ca&R&F&EA&E0&E1&E2&N).
    destruct (frame_core abc i ab bc ca Habc R E0 E1 E2 N) as (D&ad&bd&cd&db&dc&da&X&Y&Z&FR).
    rewrite EA in FR. exists i, (he_from s bc), (he_from s ca), D, ab, bc, ca, ad, bd, cd, db, dc, da, X, Y, Z.
    split; [exact FR | exact F].
  Qed.

  (* default start: index 0 *)
  Theorem tet_frame_exists_default abc : In abc hfs ->
    exists A B C D ab bc ca ad bd cd db dc da X Y Z,
      tet_frame s c hfs abc 0 A B C D ab bc ca ad bd cd db dc da X Y Z.
  Proof.
    intros Habc.
    destruct (tri_ok_first s abc (tco_tri s c hfs OK abc Habc)) as (ab&bc&ca&R&E0&E1&E2&N).
    destruct (frame_core abc 0 ab bc ca Habc R E0 E1 E2 N) as (D&ad&bd&cd&db&dc&da&X&Y&Z&FR).
    exists (he_from s ab), (he_from s bc), (he_from s ca), D, ab, bc, ca, ad, bd, cd, db, dc, da, X, Y, Z. exact FR.
  Qed.
End Geometry.

(* ------------------------------------------------------------------ consequences of a frame *)

Section FrameFacts.
  Variables (s : mesh) (c : nat) (hfs : list nat) (abc i : nat) (A B C D ab bc ca ad bd cd db dc da X Y Z : nat).
  Hypothesis FR : tet_frame s c hfs abc i A B C D ab bc ca ad bd cd db dc da X Y Z.

  Lemma fr_neq : A <> B /\ A <> C /\ A <> D /\ B <> C /\ B <> D /\ C <> D.
  Proof. apply nodup4_neq. exact (fr_nd _ _ _ _ _ _ _ _ _ _ _ _ _ _ _ _ _ _ _ _ _ FR). Qed.

  Lemma fr_faces_neq : abc <> X /\ abc <> Y /\ abc <> Z /\ X <> Y /\ X <> Z /\ Y <> Z.
  Proof. apply nodup4_neq. exact (fr_faces _ _ _ _ _ _ _ _ _ _ _ _ _ _ _ _ _ _ _ _ _ FR). Qed.

  (* all 12 ends as equations *)
  Lemma fr_ends :
    (he_from s ab = A /\ he_to s ab = B) /\ (he_from s bc = B /\ he_to s bc = C) /\ (he_from s ca = C /\ he_to s ca = A) /\
    (he_from s ad = A /\ he_to s ad = D) /\ (he_from s bd = B /\ he_to s bd = D) /\ (he_from s cd = C /\ he_to s cd = D) /\
    (he_from s db = D /\ he_to s db = B) /\ (he_from s dc = D /\ he_to s dc = C) /\ (he_from s da = D /\ he_to s da = A).
  Proof. destruct FR. unfold ends in *. tauto. Qed.

  Lemma fr_abc_list : rot3 (halfface s abc) ab bc ca.
  Proof. apply (rot3i_rot3 i). exact (fr_habc _ _ _ _ _ _ _ _ _ _ _ _ _ _ _ _ _ _ _ _ _ FR). Qed.

  Lemma fr_len_abc : length (halfface s abc) = 3.
  Proof. exact (rot3_length _ _ _ _ fr_abc_list). Qed.

  (* the side halffaces are not abc *)
  Lemma fr_X_neq : X <> abc.
  Proof.
    destruct fr_ends as ((?&?)&(?&?)&(?&?)&(?&?)&(?&?)&(?&?)&(?&?)&(?&?)&(?&?)). destruct fr_neq as (?&?&?&?&?&?).
    intros E. assert (K : In (opp ab) (halfface s abc)).
    { rewrite <- E. apply (rot3_In _ _ _ _ _ (fr_hX _ _ _ _ _ _ _ _ _ _ _ _ _ _ _ _ _ _ _ _ _ FR)). auto. }
    apply (rot3_In _ _ _ _ _ fr_abc_list) in K. destruct K as [K|[K|K]]; [exact (opp_neq _ K) | ends_differ s K | ends_differ s K].
  Qed.

  Lemma fr_Y_neq : Y <> abc.
  Proof.
    destruct fr_ends as ((?&?)&(?&?)&(?&?)&(?&?)&(?&?)&(?&?)&(?&?)&(?&?)&(?&?)). destruct fr_neq as (?&?&?&?&?&?).
    intros E. assert (K : In (opp bc) (halfface s abc)).
    { rewrite <- E. apply (rot3_In _ _ _ _ _ (fr_hY _ _ _ _ _ _ _ _ _ _ _ _ _ _ _ _ _ _ _ _ _ FR)). auto. }
    apply (rot3_In _ _ _ _ _ fr_abc_list) in K. destruct K as [K|[K|K]]; [ends_differ s K | exact (opp_neq _ K) | ends_differ s K].
  Qed.

  Lemma fr_Z_neq : Z <> abc.
  Proof.
    destruct fr_ends as ((?&?)&(?&?)&(?&?)&(?&?)&(?&?)&(?&?)&(?&?)&(?&?)&(?&?)). destruct fr_neq as (?&?&?&?&?&?).
    intros E. assert (K : In (opp ca) (halfface s abc)).
    { rewrite <- E. apply (rot3_In _ _ _ _ _ (fr_hZ _ _ _ _ _ _ _ _ _ _ _ _ _ _ _ _ _ _ _ _ _ FR)). auto. }
    apply (rot3_In _ _ _ _ _ fr_abc_list) in K. destruct K as [K|[K|K]]; [ends_differ s K | ends_differ s K | exact (opp_neq _ K)].
  Qed.

  (* vertices of the four halffaces and of their opposites, up to rotation *)
  Lemma fr_v_abc : rot3 (hf_vertices s abc) A B C.
  Proof.
    destruct fr_ends as ((EA&_)&(EB&_)&(EC&_)&_).
    pose proof (rot3_map (he_from s) _ _ _ _ fr_abc_list) as R. rewrite EA, EB, EC in R. exact R.
  Qed.

  Lemma rot3_opp_face hf p q r : rot3 (halfface s hf) p q r -> rot3 (halfface s (opp hf)) (opp r) (opp q) (opp p).
  Proof.
    intros R. rewrite halfface_opp. destruct R as [->|[->| ->]]; cbn [map rev app];
      [left | right; right | right; left]; reflexivity.
  Qed.

  Lemma rot3_shift {T} (l : list T) p q r : rot3 l p q r -> rot3 l q r p.
  Proof. intros [->|[->| ->]]; [right; right | left | right; left]; reflexivity. Qed.

  Lemma fr_v_X : rot3 (hf_vertices s X) B A D.
  Proof.
    destruct fr_ends as ((_&EB)&_&_&(EA&_)&_&_&(ED&_)&_).
    pose proof (rot3_map (he_from s) _ _ _ _ (fr_hX _ _ _ _ _ _ _ _ _ _ _ _ _ _ _ _ _ _ _ _ _ FR)) as R.
    rewrite he_from_opp, EB, EA, ED in R. exact R.
  Qed.

  Lemma fr_v_Y : rot3 (hf_vertices s Y) C B D.
  Proof.
    destruct fr_ends as (_&(_&EC)&_&_&(EB&_)&_&_&(ED&_)&_).
    pose proof (rot3_map (he_from s) _ _ _ _ (fr_hY _ _ _ _ _ _ _ _ _ _ _ _ _ _ _ _ _ _ _ _ _ FR)) as R.
    rewrite he_from_opp, EC, EB, ED in R. exact R.
  Qed.

  Lemma fr_v_Z : rot3 (hf_vertices s Z) A C D.
  Proof.
    destruct fr_ends as (_&_&(_&EA)&_&_&(EC&_)&_&_&(ED&_)).
    pose proof (rot3_map (he_from s) _ _ _ _ (fr_hZ _ _ _ _ _ _ _ _ _ _ _ _ _ _ _ _ _ _ _ _ _ FR)) as R.
    rewrite he_from_opp, EA, EC, ED in R. exact R.
  Qed.

  Lemma fr_v_abc_opp : rot3 (hf_vertices s (opp abc)) A C B.
  Proof.
    destruct fr_ends as ((_&EB)&(_&EC)&(_&EA)&_).
    pose proof (rot3_map (he_from s) _ _ _ _ (rot3_opp_face _ _ _ _ fr_abc_list)) as R.
    rewrite !he_from_opp, EA, EB, EC in R. exact R.
  Qed.

  Lemma fr_v_X_opp : rot3 (hf_vertices s (opp X)) A B D.
  Proof.
    destruct fr_ends as ((EA&_)&_&_&(_&ED)&_&_&(_&EB)&_).
    pose proof (rot3_map (he_from s) _ _ _ _ (rot3_opp_face _ _ _ _ (fr_hX _ _ _ _ _ _ _ _ _ _ _ _ _ _ _ _ _ _ _ _ _ FR))) as R.
    rewrite !he_from_opp, he_to_opp, EA, EB, ED in R. apply rot3_shift. apply rot3_shift. exact R.
  Qed.

  Lemma fr_v_Y_opp : rot3 (hf_vertices s (opp Y)) B C D.
  Proof.
    destruct fr_ends as (_&(EB&_)&_&_&(_&ED)&_&_&(_&EC)&_).
    pose proof (rot3_map (he_from s) _ _ _ _ (rot3_opp_face _ _ _ _ (fr_hY _ _ _ _ _ _ _ _ _ _ _ _ _ _ _ _ _ _ _ _ _ FR))) as R.
    rewrite !he_from_opp, he_to_opp, EB, EC, ED in R. apply rot3_shift. apply rot3_shift. exact R.
  Qed.

  Lemma fr_v_Z_opp : rot3 (hf_vertices s (opp Z)) C A D.
  Proof.
    destruct fr_ends as (_&_&(EC&_)&_&_&(_&ED)&_&_&(_&EA)).
    pose proof (rot3_map (he_from s) _ _ _ _ (rot3_opp_face _ _ _ _ (fr_hZ _ _ _ _ _ _ _ _ _ _ _ _ _ _ _ _ _ _ _ _ _ FR))) as R.
    rewrite !he_from_opp, he_to_opp, EA, EC, ED in R. apply rot3_shift. apply rot3_shift. exact R.
  Qed.

  Lemma fr_cell_at : cell_at s c = hfs.
  Proof. unfold cell_at. apply nth_error_nth. exact (fr_cell _ _ _ _ _ _ _ _ _ _ _ _ _ _ _ _ _ _ _ _ _ FR). Qed.
End FrameFacts.
