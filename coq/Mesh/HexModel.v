(* Mesh/HexModel.v -- HexahedralMeshTopologyKernel on top of the kernel model: valence guards,
   check_halfface_ordering, the automatic re-ordering of a topology-checked add_cell, add_cell from eight
   vertices, the orientation helpers and adjacent_halfface_on_sheet / _on_surface.  Line references:
   src/OpenVolumeMesh/Mesh/HexahedralMeshTopologyKernel.{cc,hh}.  Definitions only.

   The re-ordering path builds a list that may still hold InvalidHalfFaceHandle (-1) entries: such a list is a
   [list (option nat)] here; since the fix "checked hex add_cell must reject what the re-ordering could not bring
   into order" a list with an invalid entry, or one that fails check_halfface_ordering, is rejected. *)
From OVM Require Export Mesh.TetModel.
From OVM Require Import Base.Int32 Gen.HexOrient.
Local Open Scope nat_scope.

(* ------------------------------------------------------------------ guards (.cc:41-70) *)

Definition hex_add_face (s : mesh) (hes : list nat) (check : bool) : mesh * option nat :=
  if negb (length hes =? 4) then (s, None) else add_face s hes check.

Definition hex_add_face_v (s : mesh) (vs : list nat) : mesh * option nat :=
  if negb (length vs =? 4) then (s, None) else add_face_v s vs.

(* ------------------------------------------------------------------ get_adjacent_halfface (.cc:437-455) *)

(* the halfedge argument may be the invalid handle ([None]): its "opposite" matches nothing *)
Definition get_adjacent_halfface (s : mesh) (hf : option nat) (he : option nat) (l : list nat) : option nat :=
  match he with
  | None => None
  | Some he =>
      find (fun x => negb (match hf with Some h => x =? h | None => false end) && memb (opp he) (halfface s x)) l
  end.

(* ------------------------------------------------------------------ check_halfface_ordering (.cc:161-257) *)

Definition hx (l : list nat) (i : nat) : nat := nth i l 0.

(* one traversal: [first] maps the first recognised neighbour to an offset, [order] is orderTop/orderBot.
   state: None = already failed; Some off = running offset (None inside = -1) *)
Definition ord_step (s : mesh) (hfs : list nat) (self : nat) (first order : list nat)
           (st : option (option nat)) (he : nat) : option (option nat) :=
  match st with
  | None => None
  | Some off =>
      let a := get_adjacent_halfface s (Some self) (Some he) hfs in
      match off with
      | None =>
          Some (match a with
                | None => None
                | Some a => find_index (fun i => hx hfs i =? a) first
                end)
      | Some o =>
          let o' := (o + 1) mod 4 in
          if match a with Some a => a =? hx hfs (nth o' order 0) | None => false end then Some (Some o') else None
      end
  end.

Definition ord_pass (s : mesh) (hfs : list nat) (self : nat) (first order : list nat) : bool :=
  match fold_left (ord_step s hfs self first order) (halfface s self) (Some None) with
  | Some (Some _) => true
  | _ => false
  end.

Definition order_top : list nat := [2; 4; 3; 5].
Definition order_bot : list nat := [3; 4; 2; 5].

Definition disjointb (a b : list nat) : bool := forallb (fun x => negb (memb x b)) a.

(* since the fix "hex halfface ordering check must require vertex-disjoint top and bottom faces" (.cc:280-290): no from-vertex
   of the second halfface is a from-vertex of the first *)
Definition check_halfface_ordering (s : mesh) (hfs : list nat) : bool :=
  ord_pass s hfs (hx hfs 0) order_top order_top && ord_pass s hfs (hx hfs 1) order_bot order_bot &&
  disjointb (hf_vertices s (hx hfs 1)) (hf_vertices s (hx hfs 0)).

(* ------------------------------------------------------------------ a list that may hold invalid handles *)

Definition all_some (l : list (option nat)) : option (list nat) :=
  fold_right (fun o acc => match o, acc with Some x, Some t => Some (x :: t) | _, _ => None end) (Some []) l.

(* ------------------------------------------------------------------ add_cell(halffaces, check) (.cc:75-157) *)

Definition reorder_top (s : mesh) (hfs : list nat) : list (option nat) :=
  let h0 := hx hfs 0 in
  fst (fold_left (fun (acc : list (option nat) * nat) he =>
                    let '(ord, idx) := acc in
                    match get_adjacent_halfface s (Some h0) (Some he) hfs with
                    | None => acc                                           (* continue *)
                    | Some a => (upd (nth idx order_top 0) (Some a) ord, S idx)
                    end)
                 (halfface s h0) (upd 0 (Some h0) (repeat None 6), 0)).

(* next_halfedge_in_halfface with possibly invalid arguments *)
Definition next_he_o (s : mesh) (he : option nat) (hf : option nat) : option nat :=
  match he with
  | None => None
  | Some he => next_he_in_hf_list (halfface_o s hf) he
  end.

Definition reorder_bottom (s : mesh) (hfs : list nat) : option nat :=
  let h0 := hx hfs 0 in
  let he0 := nth 0 (halfface s h0) 0 in
  let hf1 := get_adjacent_halfface s (Some h0) (Some he0) hfs in
  let he1 := Some (opp he0) in
  let he2 := next_he_o s he1 hf1 in
  let he3 := next_he_o s he2 hf1 in
  get_adjacent_halfface s hf1 he3 hfs.

(* after the re-ordering (.cc:155-163): every handle valid and check_halfface_ordering of the re-ordered list, or the
   call is rejected; only then the base add_cell (with its own closedness test).  Since the fix "checked hex add_cell must
   reject cells without eight distinct vertices" the checked call first requires exactly eight distinct vertices over the six
   halffaces (.cc:103-115: std::set of the from-vertices) *)
Definition hex_add_cell (s : mesh) (hfs : list nat) (check : bool) : mesh * option nat :=
  if negb (length hfs =? 6) then (s, None)
  else if negb (forallb (fun hf => length (face_at s (hf / 2)) =? 4) hfs) then (s, None)
  else if negb check then add_cell s hfs false
  else if negb (length (hfs_vertex_set s hfs) =? 8) then (s, None)
  else if check_halfface_ordering s hfs then add_cell s hfs true
  else
    let ord := reorder_top s hfs in
    match reorder_bottom s hfs with
    | None => (s, None)
    | Some b =>
        match all_some (upd 1 (Some b) ord) with
        | None => (s, None)
        | Some l => if check_halfface_ordering s l then add_cell s l true else (s, None)
        end
    end.

(* ------------------------------------------------------------------ add_cell(8 vertices, check) (.cc:261-433) *)

(* find_halfface_extensive, TopologyKernel.cc:2043-2087 *)
Definition find_halfface_extensive (s : mesh) (vs : list nat) : option nat :=
  match find_halfedge s (nth 0 vs 0) (nth 1 vs 0) with
  | None => None
  | Some he0 =>
      if ebu s then
        find (fun hf =>
                let hes := halfface s hf in
                let n := length hes in
                (n =? length vs) &&
                (let offset := fold_left (fun off i => if nth i hes 0 =? he0 then i else off) (seq 0 n) 0 in
                 forallb (fun i => he_from s (nth ((i + offset) mod n) hes 0) =? nth i vs 0) (seq 0 n)))
             (hfs_at s he0)
      else None
  end.

Definition hex_quads (vs : list nat) : list (list nat) :=
  let v := fun i => nth i vs 0 in
  [ [v 3; v 2; v 1; v 0]; [v 7; v 6; v 5; v 4]; [v 1; v 2; v 6; v 7];
    [v 4; v 5; v 3; v 0]; [v 1; v 7; v 4; v 0]; [v 2; v 3; v 5; v 6] ].

Definition hex_add_cell_v (s : mesh) (vs : list nat) (check : bool) : mesh * option nat :=
  if negb (full_bu s) then (s, None)
  else if negb (length vs =? 8) then (s, None)
  else if check && negb (length (set_of_list vs) =? 8) then (s, None)     (* same fix, .cc:301-307: std::set of the eight handles *)
  else
    let quads := hex_quads vs in
    let found := map (find_halfface_extensive s) quads in          (* all six lookups come first *)
    let '(s1, hfs) :=
        fold_left (fun (acc : mesh * list nat) (qf : list nat * option nat) =>
                     let '(s', l) := acc in
                     match snd qf with
                     | Some hf => (s', l ++ [hf])
                     | None => match add_face_v s' (fst qf) with
                               | (s'', Some f) => (s'', l ++ [2 * f])
                               | (s'', None) => (s'', l ++ [0])        (* unreachable: four vertices *)
                               end
                     end)
                  (combine quads found) (s, []) in
    if check && negb (closed_by_sets s1 hfs) then (s1, None)
    else if check && fbu s1 && existsb (fun hf => match cell_of s1 hf with Some _ => true | None => false end) hfs
         then (s1, None)
    else add_cell s1 hfs false.

(* ------------------------------------------------------------------ orientation helpers (.hh:160-284) *)

(* orientation(hf, c): position of the first occurrence, INVALID (from the regenerated constants) otherwise *)
Definition orientation (s : mesh) (hf c : nat) : Z :=
  match find_index (Nat.eqb hf) (cell_at s c) with
  | Some i => Z.of_nat i
  | None => HEX_INVALID
  end.

(* xfront_halfface ... zback_halfface: halffaces()[XF] ... ; None = read out of range *)
Definition oriented_slot (s : mesh) (o : Z) (c : nat) : ub nat := rd (cell_at s c) (Z.to_nat o).

(* get_oriented_halfface(o, c); Some None = InvalidHalfFaceHandle *)
Definition get_oriented_halfface (s : mesh) (o : Z) (c : nat) : ub (option nat) :=
  if existsb (Z.eqb o) [HEX_XF; HEX_XB; HEX_YF; HEX_YB; HEX_ZF; HEX_ZB]
  then do h <- oriented_slot s o c; Some (Some h)
  else Some None.

(* opposite_halfface_handle_in_cell(hf, c) (.hh:160-174): a chain of six tests *)
Definition opposite_halfface_in_cell (s : mesh) (hf c : nat) : ub (option nat) :=
  let o := orientation s hf c in
  if Z.eqb o HEX_XF then do h <- oriented_slot s HEX_XB c; Some (Some h) else
  if Z.eqb o HEX_XB then do h <- oriented_slot s HEX_XF c; Some (Some h) else
  if Z.eqb o HEX_YF then do h <- oriented_slot s HEX_YB c; Some (Some h) else
  if Z.eqb o HEX_YB then do h <- oriented_slot s HEX_YF c; Some (Some h) else
  if Z.eqb o HEX_ZF then do h <- oriented_slot s HEX_ZB c; Some (Some h) else
  if Z.eqb o HEX_ZB then do h <- oriented_slot s HEX_ZF c; Some (Some h) else
  Some None.

(* adjacent_halfface_on_sheet (.hh:286-326): each "while(true)" body runs at most once *)
Definition adjacent_halfface_on_sheet (s : mesh) (hf he : nat) : option nat :=
  if negb (fbu s) then None else
  let way2 :=
      match adjacent_halfface_in_cell s (opp hf) (opp he) with
      | None => None
      | Some m1 => option_map opp (adjacent_halfface_in_cell s (opp m1) (opp he))
      end in
  match adjacent_halfface_in_cell s hf he with
  | None => way2
  | Some n1 =>
      match adjacent_halfface_in_cell s (opp n1) he with
      | None => way2
      | Some n3 => Some n3
      end
  end.

(* adjacent_halfface_on_surface / neighboring_outside_halfface (.hh:328-366) *)
Definition is_boundary_hf (s : mesh) (hf : nat) : bool :=
  match cell_of s hf with None => true | Some _ => false end.

Definition adjacent_halfface_on_surface (s : mesh) (hf he : nat) : option nat :=
  if negb (ebu s) then None else
  let fix scan (l : list nat) :=
      match l with
      | [] => None
      | x :: t =>
          if x =? hf then scan t
          else if is_boundary_hf s x then Some x
          else if is_boundary_hf s (opp x) then Some (opp x)
          else scan t
      end in
  scan (hfs_at s he).


Definition rot1n (l : list nat) : list nat := match l with [] => [] | x :: t => t ++ [x] end.

(* ------------------------------------------------------------------ the documented layout (specification side) *)

(* the halfface of [l] other than [self] that contains the opposite of [he], if there is exactly one *)
Definition unique_neighbour (s : mesh) (l : list nat) (self he : nat) : option nat :=
  match filter (fun x => negb (x =? self) && memb (opp he) (halfface s x)) l with
  | [x] => Some x
  | _ => None
  end.

Definition olist_eqb (a : list (option nat)) (b : list nat) : bool :=
  (length a =? length b) && forallb (fun p => match fst p with Some x => x =? snd p | None => false end) (combine a b).

(* "x-front, x-back, y-front, y-back, z-front, z-back": halffaces 2k / 2k+1 share no vertex, and walking around
   the first halfface's halfedges meets halffaces 2, 4, 3, 5 in that cyclic order *)
Definition hex_layout (s : mesh) (l : list nat) : bool :=
  (length l =? 6) &&
  forallb (fun k => disjointb (hf_vertices s (hx l (2 * k))) (hf_vertices s (hx l (2 * k + 1)))) [0; 1; 2] &&
  (let nb := map (unique_neighbour s l (hx l 0)) (halfface s (hx l 0)) in
   let want := [hx l 2; hx l 4; hx l 3; hx l 5] in
   existsb (fun k => olist_eqb nb (Nat.iter k rot1n want)) [0; 1; 2; 3]).

(* ------------------------------------------------------------------ the hex step function *)

Inductive hop :=
| HK (o : op)
| HAddCellV (vs : list nat) (check : bool).

Definition hex_valid (s : mesh) (o : hop) : bool :=
  match o with
  | HK k => valid_op s k
  | HAddCellV vs _ => all_b (live_v s) vs
  end.

Definition hex_exec (s : mesh) (o : hop) : mesh * option nat :=
  match o with
  | HK (AddFace hes check) => hex_add_face s hes check
  | HK (AddFaceV vs) => hex_add_face_v s vs
  | HK (AddCell hfs check) => hex_add_cell s hfs check
  | HK k => exec s k
  | HAddCellV vs check => hex_add_cell_v s vs check
  end.

Inductive hres := HROk (s : mesh) (r : option nat) | HRRejected.

Definition hex_step (s : mesh) (o : hop) : hres :=
  if hex_valid s o then let '(s', r) := hex_exec s o in HROk s' r else HRRejected.

Definition hex_run_from (s : mesh) (ops : list hop) : mesh :=
  fold_left (fun s o => match hex_step s o with HROk s' _ => s' | _ => s end) ops s.
Definition hex_run (ops : list hop) : mesh := hex_run_from empty_mesh ops.
