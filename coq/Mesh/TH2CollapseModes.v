(* Mesh/TH2CollapseModes.v -- C15, collapse_edge in the IMMEDIATE modes, transferred from the deferred-mode theorem through
   the collection theorems of C04 (collect_garbage = the logical mesh; with fast deletion: up to a bijection), and the
   worked examples. *)
From Coq Require Import ZArith Lia Bool Arith List ZifyNat ZifyBool.
From OVM Require Import Base.ListX Base.ListLemmas Kernel.State Kernel.Ops Kernel.SwapInvol Kernel.Sizes Kernel.DeferredDelete Kernel.ShiftFace Kernel2.ExactBase
                        Kernel3.GcDefs Kernel3.GcInv Kernel3.GcMain Kernel3.GcFastBase Kernel3.GcFastChain Kernel3.GcFastMain
                        Mesh.TetModel Mesh.TetProofs Mesh.TH2ShapeHist Mesh.TH2CollapseBase Mesh.TH2CollapseLoop Mesh.TH2CollapseFold Mesh.TH2CollapseStar
                        Mesh.TH2CollapseMain Mesh.TH2CollapseTuple Mesh.TH2CollapseFinal.
Import ListNotations.
Local Open Scope nat_scope.

Lemma enable_deferred_true_id x : deferred x = true -> enable_deferred true x = x.
Proof. intros D. unfold enable_deferred. rewrite andb_false_r. destruct x. cbn in *. subst. reflexivity. Qed.

Lemma ed_true_fields s : fast (enable_deferred true s) = fast s /\ nv (enable_deferred true s) = nv s /\ vdel (enable_deferred true s) = vdel s.
Proof. unfold enable_deferred. rewrite andb_false_r. repeat split; reflexivity. Qed.

(* ================================================================== 1. an immediate collapse = the deferred collapse + the switch back *)
Theorem collapse_edge_immediate s heh : deferred s = false -> let d := enable_deferred true s in collapse_ready d heh ->
  exists d' s1, collapse_edge d heh = Some (d', he_to d heh) /\ collapse_result d heh d' /\ fast s1 = fast s /\ nv s1 = nv s /\
    collapse_edge s heh = Some (enable_deferred false d', collapse_survivor false s1 (he_from d heh) (he_to d heh)).
Proof.
  intros D d RDY. destruct (collapse_edge_deferred_cells d heh RDY) as (d' & Q & CR).
  assert (Dd : deferred d = true) by reflexivity.
  pose proof Q as Q0. rewrite (collapse_edge_deferred_is_pre d heh Dd) in Q. unfold bind in Q.
  destruct (collapse_pre d heh) as [[s1 s3]|] eqn:P; [|discriminate]. injection Q as Q1.
  assert (D3 : deferred s3 = true).
  { destruct RDY as (_ & _ & _ & K & _). exact (proj2 (proj2 (dshape_collapse_pre d heh s1 s3 (conj K Dd) P))). }
  rewrite (enable_deferred_true_id s3 D3) in Q1. subst d'.
  exists s3, s1. split; [exact Q0|]. split; [exact CR|].
  assert (FN : fast s1 = fast s /\ nv s1 = nv s).
  { unfold collapse_pre, bind in P. cbv zeta in P.
    destruct (fold_left (collapse_cell (he_from d heh) (he_to d heh) (collapsing_cells d heh)) (vertex_cells d (he_from d heh)) (Some (d, [])))
      as [[t1 news]|] eqn:E1; [|discriminate].
    destruct (fold_left collapse_readd news (Some (delete_vertex (he_from d heh) t1))) as [t3|]; [|discriminate]. injection P as <- _.
    destruct RDY as (_ & Z & _ & K & _). split.
    - refine (fast_fold_collapse_cell _ _ _ _ (fast s) _ (t1, news) _ E1). intros p Hp. injection Hp as <-. cbn [fst].
      split; [split; [exact K | reflexivity] | exact (proj1 (ed_true_fields s))].
    - assert (X : szn (nv s) t1) by (refine (szn_fold_collapse_cell _ _ _ _ _ _ (t1, news) _ E1); intros p Hp; injection Hp as <-; split; [exact Z | exact (proj1 (proj2 (ed_true_fields s)))]).
      exact (proj2 X). }
  split; [exact (proj1 FN)|]. split; [exact (proj2 FN)|].
  rewrite (collapse_edge_immediate_is_deferred_then_collect s heh D). fold d. unfold bind. rewrite P. reflexivity.
Qed.

(* the number of not-flagged vertices below b when exactly a is flagged: the handle that designates b after the collection *)
Lemma rank_single l a x : (forall i, nth i l false = false) -> a < length l ->
  rank (flag_all [a] l) x = if a <? x then x - 1 else x.
Proof.
  intros AF Ha. unfold rank, alive.
  assert (N : forall i, nth i (flag_all [a] l) false = (i =? a)).
  { intros i. unfold flag_all. cbn [fold_left]. rewrite nth_upd. rewrite (Nat.eqb_sym a i).
    replace (a <? length l) with true by (symmetry; apply Nat.ltb_lt; exact Ha). rewrite andb_true_r, AF. destruct (i =? a); reflexivity. }
  induction x as [|x IH]; [reflexivity|].
  rewrite seq_S, filter_app, app_length, IH. cbn [filter plus]. rewrite N.
  destruct (Nat.eqb_spec x a) as [->|NE]; cbn [negb length].
  - replace (a <? a) with false by (symmetry; apply Nat.ltb_ge; lia). replace (a <? S a) with true by (symmetry; apply Nat.ltb_lt; lia). lia.
  - destruct (Nat.ltb_spec a x), (Nat.ltb_spec a (S x)); lia.
Qed.

(* ================================================================== 2. immediate slow mode *)
(* the mesh handed back is the LOGICAL mesh of the deferred result d' (its live entities in order, every handle renamed by
   rank: C04), the handle returned is the one b has in it *)
Theorem collapse_edge_immediate_slow s heh : deferred s = false -> fast s = false -> let d := enable_deferred true s in
  collapse_ready d heh -> exists d', collapse_edge d heh = Some (d', he_to d heh) /\ collapse_result d heh d' /\
  (gc_ready d' -> exists s', collapse_edge s heh = Some (s', if he_from d heh <? he_to d heh then he_to d heh - 1 else he_to d heh) /\
     nv s' = logical_nv d' /\ edges s' = logical_edges d' /\ faces s' = logical_faces d' /\ cells s' = logical_cells d' /\
     no_flags s' /\ deferred s' = false /\ fast s' = false /\
     ((forall v, v_deleted s v = false) -> length (vdel s) = nv s -> rank (vdel d') (he_to d heh) = (if he_from d heh <? he_to d heh then he_to d heh - 1 else he_to d heh))).
Proof.
  intros D Fa d RDY. destruct (collapse_edge_immediate s heh D RDY) as (d' & s1 & Q & CR & F1 & N1 & QI). fold d in Q, CR, QI.
  exists d'. split; [exact Q|]. split; [exact CR|]. intros GR.
  pose proof CR as (_ & _ & _ & _ & _ & _ & _ & VD & D' & _).
  assert (Fd' : fast d' = false).
  { (* the fast flag of the deferred result: collapse_edge keeps it *)
    pose proof RDY as (_ & _ & _ & K & _).
    assert (DS : dshape d) by (split; [exact K | reflexivity]).
    pose proof (collapse_edge_unfold d heh) as U. rewrite Q in U. cbv zeta in U. change (deferred d) with true in U. cbn [negb] in U. unfold bind in U.
    destruct (collapse_pre d heh) as [[t1 t3]|] eqn:P; [|discriminate]. injection U as U1.
    unfold collapse_pre, bind in P. cbv zeta in P.
    destruct (fold_left (collapse_cell (he_from d heh) (he_to d heh) (collapsing_cells d heh)) (vertex_cells d (he_from d heh)) (Some (d, [])))
      as [[u1 news]|] eqn:E1; [|discriminate].
    destruct (fold_left collapse_readd news (Some (delete_vertex (he_from d heh) u1))) as [u3|] eqn:E3; [|discriminate]. injection P as <- <-.
    assert (H1 : dshape u1) by (refine (dshape_fold_collapse_cell _ _ _ _ _ _ _ E1); intros p Hp; injection Hp as <-; exact DS).
    assert (G1 : fast u1 = false).
    { refine (fast_fold_collapse_cell _ _ _ _ false _ (u1, news) _ E1). intros p Hp. injection Hp as <-. split; [exact DS|].
      cbn [fst]. unfold d. rewrite (proj1 (ed_true_fields s)). exact Fa. }
    assert (G3 : fast u3 = false).
    { refine (fast_fold_readd _ false _ _ _ E3). intros p Hp. injection Hp as <-.
      rewrite (fast_dstep _ _ _ _ _ _ (delete_vertex_deferred (he_from d heh) u1 (proj2 H1))). exact G1. }
    rewrite U1. unfold enable_deferred. rewrite andb_false_r. exact G3. }
  pose proof (collect_garbage_nonfast_logical d' GR Fd') as C. cbv zeta in C.
  destruct C as (c1 & c2 & c3 & c4 & _ & _ & _ & _ & c9 & _ & _ & _ & c13 & _).
  exists (enable_deferred false d'). unfold collapse_survivor in QI. cbn [negb] in QI. rewrite F1, Fa in QI.
  split; [exact QI|]. unfold enable_deferred. rewrite D'. cbn [negb andb].
  split; [exact c1|]. split; [exact c2|]. split; [exact c3|]. split; [exact c4|]. split; [exact c9|]. split; [reflexivity|].
  split; [exact c13|]. intros NFl LV. rewrite VD.
  assert (VS : vdel d = vdel s) by exact (proj2 (proj2 (ed_true_fields s))).
  assert (NS : nv d = nv s) by exact (proj1 (proj2 (ed_true_fields s))).
  rewrite VS. apply rank_single.
  - intros i. exact (NFl i).
  - rewrite LV, <- NS. exact (proj1 (ready_endpoints d heh RDY)).
Qed.

(* ================================================================== 3. immediate fast mode *)
(* the mesh handed back is the deferred result d' with its live entities renumbered by bijections (C04, fast collection) *)
Theorem collapse_edge_immediate_fast s heh : deferred s = false -> fast s = true -> let d := enable_deferred true s in
  collapse_ready d heh -> exists d' s1, collapse_edge d heh = Some (d', he_to d heh) /\ collapse_result d heh d' /\ nv s1 = nv s /\
  (gc_ready d' -> sized d' -> fast d' = true -> exists s' rv re rf rc,
     collapse_edge s heh = Some (s', if he_to d heh =? nv s - 1 then he_from d heh else he_to d heh) /\
     gc_fast_post d' (collect_garbage d') rv re rf rc /\ no_flags s' /\ deferred s' = false /\
     nv s' = nv (collect_garbage d') /\ edges s' = edges (collect_garbage d') /\ faces s' = faces (collect_garbage d') /\
     cells s' = cells (collect_garbage d')).
Proof.
  intros D Fa d RDY. destruct (collapse_edge_immediate s heh D RDY) as (d' & s1 & Q & CR & F1 & N1 & QI). fold d in Q, CR, QI.
  exists d', s1. split; [exact Q|]. split; [exact CR|]. split; [exact N1|]. intros GR Z Fd'.
  pose proof CR as (_ & _ & _ & _ & _ & _ & _ & _ & D' & _).
  destruct (collect_garbage_fast_post d' GR Z Fd') as (rv & re & rf & rc & P & NF & _).
  exists (enable_deferred false d'), rv, re, rf, rc. unfold collapse_survivor in QI. cbn [negb] in QI. rewrite F1, Fa, N1 in QI.
  split; [exact QI|]. split; [exact P|]. unfold enable_deferred. rewrite D'. cbn [negb andb].
  split; [exact NF|]. repeat split; reflexivity.
Qed.
