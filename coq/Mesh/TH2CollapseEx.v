(* Mesh/TH2CollapseEx.v -- C15, collapse_edge: worked examples (non-vacuity of the hypotheses of the collapse theorems in
   all deletion modes) and the role of the link condition. *)
From Coq Require Import ZArith List.
From OVM Require Import Base.ListX Kernel.State Kernel.Ops Kernel.Closure Kernel.InvB Kernel3.GcDefs Kernel3.GcInv
                        Mesh.TetModel Mesh.TetProofs Mesh.TH2CollapseBase Mesh.TH2CollapseFold Mesh.TH2CollapseStar
                        Mesh.TH2CollapseMain Mesh.TH2CollapseTuple Mesh.TH2CollapseFinal Mesh.TH2CollapseModes.
Import ListNotations.
Local Open Scope nat_scope.

(* five tets: (0,1,2,3) and (0,1,3,4) contain the edge 0-1; (0,3,2,5) and (0,4,3,5) are incident to 0 but not to 1 and
   are rebuilt; (1,2,3,6) is not incident to 0.  The edge 0 -> 1 (halfedge 0) satisfies the link condition. *)
Definition collapse_adds : list top :=
  [TK (AddVertices 7); TAddCellV [0; 1; 2; 3] true; TAddCellV [0; 1; 3; 4] true; TAddCellV [0; 3; 2; 5] true;
   TAddCellV [0; 4; 3; 5] true; TAddCellV [1; 2; 3; 6] true].
Definition collapse_ex : mesh := tet_run collapse_adds.

Example collapse_ex_hypotheses :
  deferred collapse_ex = true /\ find_halfedge collapse_ex 0 1 = Some 0 /\
  collapse_ready_b collapse_ex 0 = true /\ rebuilt_tets_ok_b collapse_ex 0 = true /\
  star collapse_ex 0 = [0; 1; 2; 3] /\ collapsing_cells collapse_ex 0 = [0; 1] /\ rebuilt_cells collapse_ex 0 = [2; 3] /\
  map (gcv_c collapse_ex) [0; 1; 2; 3; 4] = [Some [0; 1; 2; 3]; Some [0; 1; 3; 4]; Some [0; 3; 2; 5]; Some [0; 4; 3; 5]; Some [1; 2; 3; 6]].
Proof. vm_compute. repeat split. Qed.

Definition collapse_ex_after : mesh := match collapse_edge collapse_ex 0 with Some (s', _) => s' | None => empty_mesh end.

Example collapse_ex_result :
  collapse_edge collapse_ex 0 = Some (collapse_ex_after, 1) /\
  cells collapse_ex_after = cells collapse_ex ++ [[6; 30; 32; 18]; [12; 33; 34; 22]] /\
  cdel collapse_ex_after = [true; true; true; true; false; false; false] /\
  map (gcv_c collapse_ex_after) [4; 5; 6] = [Some [1; 2; 3; 6]; Some [1; 3; 2; 5]; Some [1; 4; 3; 5]] /\
  bu_inv2_b collapse_ex_after = true /\ gc_ready_b collapse_ex_after = true.
Proof. vm_compute. repeat split. Qed.

(* the theorems apply *)
Example collapse_ex_theorem :
  exists s', collapse_edge collapse_ex 0 = Some (s', 1) /\ collapse_result collapse_ex 0 s' /\
    forall k, k < 2 ->
      let c := nth k [2; 3] 0 in let c' := 5 + k in
      live_c collapse_ex c = true /\ live_c s' c' = true /\
      exists x y z w x' y' z',
        gcv_c collapse_ex c = Some [x; y; z; w] /\ rot3 [sub 0 1 x; sub 0 1 y; sub 0 1 z] [x'; y'; z'] /\
        gcv_c s' c' = Some [x'; y'; z'; sub 0 1 w].
Proof.
  assert (R : collapse_ready collapse_ex 0) by (apply collapse_ready_b_sound; vm_compute; reflexivity).
  assert (T : rebuilt_tets_ok_b collapse_ex 0 = true) by (vm_compute; reflexivity).
  assert (E1 : he_from collapse_ex 0 = 0) by (vm_compute; reflexivity).
  assert (E2 : he_to collapse_ex 0 = 1) by (vm_compute; reflexivity).
  assert (E3 : rebuilt_cells collapse_ex 0 = [2; 3]) by (vm_compute; reflexivity).
  assert (E4 : nc collapse_ex = 5) by (vm_compute; reflexivity).
  pose proof (collapse_edge_deferred_tets collapse_ex 0 R T) as H. rewrite E1, E2, E3, E4 in H. exact H.
Qed.

Example collapse_ex_untouched :
  gcv_c collapse_ex_after 4 = gcv_c collapse_ex 4.
Proof.
  assert (R : collapse_ready collapse_ex 0) by (apply collapse_ready_b_sound; vm_compute; reflexivity).
  assert (Q : collapse_edge collapse_ex 0 = Some (collapse_ex_after, he_to collapse_ex 0)) by (vm_compute; reflexivity).
  apply (collapse_edge_untouched_gcv collapse_ex 0 R collapse_ex_after Q).
  - vm_compute. reflexivity.
  - apply fbu_ok_b_sound. vm_compute. reflexivity.
  - vm_compute. repeat constructor.
  - vm_compute. reflexivity.
  - assert (S : star collapse_ex (he_from collapse_ex 0) = [0; 1; 2; 3]) by (vm_compute; reflexivity). rewrite S.
    cbn [In]. intros [H|[H|[H|[H|[]]]]]; discriminate.
Qed.

(* ---------------------------------------------------------------- the immediate modes *)
Definition collapse_ex_slow : mesh := tet_run ([TK (EnableFast false); TK (EnableDeferred false)] ++ collapse_adds).
Definition collapse_ex_fast : mesh := tet_run ([TK (EnableDeferred false)] ++ collapse_adds).

Definition deferred_result (s : mesh) (h : nat) : mesh :=
  match collapse_edge (enable_deferred true s) h with Some (d', _) => d' | None => empty_mesh end.

Example collapse_ex_slow_hypotheses :
  deferred collapse_ex_slow = false /\ fast collapse_ex_slow = false /\
  collapse_ready_b (enable_deferred true collapse_ex_slow) 0 = true /\
  gc_ready_b (deferred_result collapse_ex_slow 0) = true /\
  (exists s', collapse_edge collapse_ex_slow 0 = Some (s', 0) /\ nv s' = 6 /\
     cells s' = [[1; 8; 10; 12]; [0; 14; 16; 4]; [2; 17; 18; 6]] /\
     map (gcv_c s') [0; 1; 2] = [Some [0; 1; 2; 5]; Some [0; 2; 1; 4]; Some [0; 3; 2; 4]]).
Proof. vm_compute. repeat split. eexists. repeat split. Qed.

Example collapse_ex_slow_theorem :
  exists d', collapse_edge (enable_deferred true collapse_ex_slow) 0 = Some (d', 1) /\
    collapse_result (enable_deferred true collapse_ex_slow) 0 d' /\
    exists s', collapse_edge collapse_ex_slow 0 = Some (s', 0) /\ cells s' = logical_cells d' /\ faces s' = logical_faces d' /\
               edges s' = logical_edges d' /\ nv s' = logical_nv d' /\ rank (vdel d') 1 = 0.
Proof.
  assert (D : deferred collapse_ex_slow = false) by (vm_compute; reflexivity).
  assert (F : fast collapse_ex_slow = false) by (vm_compute; reflexivity).
  assert (R : collapse_ready (enable_deferred true collapse_ex_slow) 0) by (apply collapse_ready_b_sound; vm_compute; reflexivity).
  destruct (collapse_edge_immediate_slow collapse_ex_slow 0 D F R) as (d' & Q & CR & H).
  assert (E1 : he_from (enable_deferred true collapse_ex_slow) 0 = 0) by (vm_compute; reflexivity).
  assert (E2 : he_to (enable_deferred true collapse_ex_slow) 0 = 1) by (vm_compute; reflexivity).
  rewrite E1, E2 in *. exists d'. split; [exact Q|]. split; [exact CR|].
  assert (G : gc_ready d').
  { assert (X : d' = deferred_result collapse_ex_slow 0) by (unfold deferred_result; rewrite Q; reflexivity).
    rewrite X. apply gc_ready_b_sound. vm_compute. reflexivity. }
  destruct (H G) as (s' & Q' & a1 & a2 & a3 & a4 & _ & _ & _ & RK). exists s'. change (if 0 <? 1 then 1 - 1 else 1) with 0 in Q'.
  split; [exact Q'|]. split; [exact a4|]. split; [exact a3|]. split; [exact a2|]. split; [exact a1|].
  apply RK; [intros v; vm_compute; destruct v as [|[|[|[|[|[|[|[|]]]]]]]]; reflexivity | vm_compute; reflexivity].
Qed.

Example collapse_ex_fast_hypotheses :
  deferred collapse_ex_fast = false /\ fast collapse_ex_fast = true /\
  collapse_ready_b (enable_deferred true collapse_ex_fast) 0 = true /\
  gc_ready_b (deferred_result collapse_ex_fast 0) = true /\ szd_b (deferred_result collapse_ex_fast 0) = true /\
  fast (deferred_result collapse_ex_fast 0) = true /\
  (exists s', collapse_edge collapse_ex_fast 0 = Some (s', 1) /\ nv s' = 6 /\
     map (gcv_c s') [0; 1; 2] = [Some [1; 4; 3; 5]; Some [1; 2; 3; 0]; Some [1; 3; 2; 5]]).
Proof. vm_compute. repeat split. eexists. repeat split. Qed.

(* ---------------------------------------------------------------- the link condition *)
(* tets (0,2,3,4) and (1,2,3,5) and a free edge 0-1: the edge 2-3 is in the links of 0 and of 1 but not in the link of the
   edge 0-1 (no tet contains 0 and 1).  collapse_ready and rebuilt_tets_ok hold (the hypotheses of the theorems are about
   the star of a only), the rebuilt tet (1,2,3,4) lands on the halfface (1,2,3) of the surviving tet (1,2,3,5): the
   halfface -> cell cache of the result is not exact, and get_cell_vertices of the UNTOUCHED tet changes.
   full statement (refuted): collapse_edge_untouched_gcv without its hypothesis fbu_ok s' *)
Definition link_violation : mesh :=
  tet_run [TK (AddVertices 6); THalfEdge 0 1; TAddCellV [0; 2; 3; 4] true; TAddCellV [1; 2; 3; 5] true].

Theorem untouched_gcv_without_link_condition_refuted :
  exists s heh s' c, collapse_ready s heh /\ rebuilt_tets_ok_b s heh = true /\ collapse_edge s heh = Some (s', he_to s heh) /\
    c < nc s /\ c_deleted s c = false /\ ~ In c (star s (he_from s heh)) /\ fbu s' = true /\ fbu_ok_b s' = false /\
    gcv_c s c = Some [1; 2; 3; 5] /\ gcv_c s' c = Some [1; 2; 3; 4].
Proof.
  exists link_violation, 0, (match collapse_edge link_violation 0 with Some (s', _) => s' | None => empty_mesh end), 1.
  split; [apply collapse_ready_b_sound; vm_compute; reflexivity|].
  split; [vm_compute; reflexivity|]. split; [vm_compute; reflexivity|]. split; [vm_compute; repeat constructor|].
  split; [vm_compute; reflexivity|]. split.
  { assert (S : star link_violation (he_from link_violation 0) = [0]) by (vm_compute; reflexivity). rewrite S. intros [H|[]]. discriminate. }
  vm_compute. repeat split.
Qed.

Print Assumptions collapse_ex_theorem.
Print Assumptions collapse_ex_slow_theorem.
Print Assumptions untouched_gcv_without_link_condition_refuted.
