(* Mesh/TH2TopoCons.v -- the record [tt_rec] of a labelled tetrahedron ([tet_frame]) is consistent: four distinct
   vertices, every labelled halfedge joins its two labelled vertices, every labelled halfface with a start is the
   cell's (outer labels: the opposite) halfface on those vertices in that rotation, get_label inverts the accessors.
   Each of the four components of [tt_consistent] is proved separately ([rec_v_distinct], [rec_he_consistent],
   [rec_hf_consistent], [rec_label_consistent]) by a case split over the finite label domains. *)
From Coq Require Import ZArith Lia Bool Arith List.
From OVM Require Import Base.ListX Base.ListLemmas Base.Int32 Gen.TetLabels Kernel.State Kernel.Ops Kernel.Mirror
                        Mesh.TetModel Mesh.TetProofs Mesh.TetTopoModel Mesh.TetTopoProofs
                        Mesh.TH2TopoWf Mesh.TH2TopoFrame Mesh.TH2TopoMake Mesh.TH2TopoLabel.
Import ListNotations.
Local Open Scope nat_scope.

(* ------------------------------------------------------------------ introduction rules for the boolean components *)

Lemma he_consistent_intro s t :
  (forall l, In l HEL_all -> exists h, tt_heh_l t l = Some h /\
      tt_vh_l t (TT_hel_from l) = Some (he_from s h) /\ tt_vh_l t (TT_hel_to l) = Some (he_to s h)) ->
  tt_he_consistent s t = true.
Proof.
  intros H. unfold tt_he_consistent. apply forallb_forall. intros l Hl.
  destruct (H l Hl) as (h&E1&E2&E3). rewrite E1. cbn [oall]. rewrite E2, E3. cbn [oeqb]. rewrite !Nat.eqb_refl. reflexivity.
Qed.

Lemma hf_consistent_intro s c t :
  (forall l, In l HFL_all -> HFL_has_start l = true -> exists hf x y z, tt_hfh_l t l = Some hf /\
      tt_vh_l t (TT_hfl_vl l 0) = Some x /\ tt_vh_l t (TT_hfl_vl l 1) = Some y /\ tt_vh_l t (TT_hfl_vl l 2) = Some z /\
      is_rotation (hf_vertices s hf) [x; y; z] = true /\
      (if HFL_is_inner l then memb hf (cell_at s c) else memb (opp hf) (cell_at s c)) = true) ->
  tt_hf_consistent s c t = true.
Proof.
  intros H. unfold tt_hf_consistent. apply forallb_forall. intros l Hl.
  destruct (HFL_has_start l) eqn:S; [|reflexivity].
  destruct (H l Hl S) as (hf&x&y&z&E1&E2&E3&E4&R&M). rewrite E1. cbn [oall map]. rewrite E2, E3, E4, R, M. reflexivity.
Qed.

Lemma is_rotation_rot3 (l : list nat) x y z : rot3 l x y z -> is_rotation l [x; y; z] = true.
Proof.
  intros R. unfold is_rotation.
  assert (L : length l = 3) by (exact (rot3_length _ _ _ _ R)). rewrite L. cbn [length Nat.eqb andb].
  apply existsb_exists. destruct R as [->|[->| ->]].
  - exists 0. split; [simpl; auto|]. change (Nat.iter 0 rot1 [x; y; z]) with [x; y; z].
    destruct (list_eq_dec Nat.eq_dec [x; y; z] [x; y; z]); congruence.
  - exists 2. split; [simpl; auto|]. change (Nat.iter 2 rot1 [y; z; x]) with [x; y; z].
    destruct (list_eq_dec Nat.eq_dec [x; y; z] [x; y; z]); congruence.
  - exists 1. split; [simpl; auto|]. change (Nat.iter 1 rot1 [z; x; y]) with [x; y; z].
    destruct (list_eq_dec Nat.eq_dec [x; y; z] [x; y; z]); congruence.
Qed.

(* ------------------------------------------------------------------ the four components on a labelled tetrahedron *)

Section Consistent.
  Variables (s : mesh) (c : nat) (hfs : list nat) (abc i : nat) (A B C D ab bc ca ad bd cd db dc da X Y Z : nat).
  Hypothesis FR : tet_frame s c hfs abc i A B C D ab bc ca ad bd cd db dc da X Y Z.
  Let T := tt_rec A B C D ab bc ca ad bd cd X Y Z abc.

  Ltac frame_facts :=
    destruct (fr_ends _ _ _ _ _ _ _ _ _ _ _ _ _ _ _ _ _ _ _ _ _ FR)
      as ((Eab&Eab')&(Ebc&Ebc')&(Eca&Eca')&(Ead&Ead')&(Ebd&Ebd')&(Ecd&Ecd')&(Edb&Edb')&(Edc&Edc')&(Eda&Eda'));
    destruct (fr_neq _ _ _ _ _ _ _ _ _ _ _ _ _ _ _ _ _ _ _ _ _ FR) as (nAB&nAC&nAD&nBC&nBD&nCD).

  (* four distinct vertices *)
  Theorem rec_v_distinct : tt_v_distinct T = true.
  Proof.
    frame_facts. unfold tt_v_distinct, T, tt_rec. cbn [tt_vh].
    rewrite (proj2 (Nat.eqb_neq _ _) nAB), (proj2 (Nat.eqb_neq _ _) nAC), (proj2 (Nat.eqb_neq _ _) nAD),
            (proj2 (Nat.eqb_neq _ _) nBC), (proj2 (Nat.eqb_neq _ _) nBD), (proj2 (Nat.eqb_neq _ _) nCD). reflexivity.
  Qed.

  (* every labelled halfedge joins its two labelled vertices: all 12 labels *)
  Theorem rec_he_consistent : tt_he_consistent s T = true.
  Proof.
    frame_facts. apply he_consistent_intro. intros l Hl. unfold HEL_all in Hl.
    repeat (destruct Hl as [<-|Hl]; [|]); [..|destruct Hl];
      (eexists; split; [reflexivity|]; rewrite ?he_from_opp, ?he_to_opp;
       rewrite ?Eab, ?Eab', ?Ebc, ?Ebc', ?Eca, ?Eca', ?Ead, ?Ead', ?Ebd, ?Ebd', ?Ecd, ?Ecd'; split; reflexivity).
  Qed.

  (* every labelled halfface with a start: all 24 labels *)
  Theorem rec_hf_consistent : tt_hf_consistent s c T = true.
  Proof.
    pose proof (fr_v_abc _ _ _ _ _ _ _ _ _ _ _ _ _ _ _ _ _ _ _ _ _ FR) as V1.
    pose proof (fr_v_X _ _ _ _ _ _ _ _ _ _ _ _ _ _ _ _ _ _ _ _ _ FR) as V2.
    pose proof (fr_v_Y _ _ _ _ _ _ _ _ _ _ _ _ _ _ _ _ _ _ _ _ _ FR) as V3.
    pose proof (fr_v_Z _ _ _ _ _ _ _ _ _ _ _ _ _ _ _ _ _ _ _ _ _ FR) as V4.
    pose proof (fr_v_abc_opp _ _ _ _ _ _ _ _ _ _ _ _ _ _ _ _ _ _ _ _ _ FR) as V5.
    pose proof (fr_v_X_opp _ _ _ _ _ _ _ _ _ _ _ _ _ _ _ _ _ _ _ _ _ FR) as V6.
    pose proof (fr_v_Y_opp _ _ _ _ _ _ _ _ _ _ _ _ _ _ _ _ _ _ _ _ _ FR) as V7.
    pose proof (fr_v_Z_opp _ _ _ _ _ _ _ _ _ _ _ _ _ _ _ _ _ _ _ _ _ FR) as V8.
    assert (M1 : memb abc (cell_at s c) = true).
    { rewrite (fr_cell_at _ _ _ _ _ _ _ _ _ _ _ _ _ _ _ _ _ _ _ _ _ FR). apply memb_In. exact (fr_abc _ _ _ _ _ _ _ _ _ _ _ _ _ _ _ _ _ _ _ _ _ FR). }
    assert (M2 : memb X (cell_at s c) = true).
    { rewrite (fr_cell_at _ _ _ _ _ _ _ _ _ _ _ _ _ _ _ _ _ _ _ _ _ FR). apply memb_In. exact (fr_X _ _ _ _ _ _ _ _ _ _ _ _ _ _ _ _ _ _ _ _ _ FR). }
    assert (M3 : memb Y (cell_at s c) = true).
    { rewrite (fr_cell_at _ _ _ _ _ _ _ _ _ _ _ _ _ _ _ _ _ _ _ _ _ FR). apply memb_In. exact (fr_Y _ _ _ _ _ _ _ _ _ _ _ _ _ _ _ _ _ _ _ _ _ FR). }
    assert (M4 : memb Z (cell_at s c) = true).
    { rewrite (fr_cell_at _ _ _ _ _ _ _ _ _ _ _ _ _ _ _ _ _ _ _ _ _ FR). apply memb_In. exact (fr_Z _ _ _ _ _ _ _ _ _ _ _ _ _ _ _ _ _ _ _ _ _ FR). }
    apply hf_consistent_intro. intros l Hl S. unfold HFL_all in Hl.
    repeat (destruct Hl as [<-|Hl]; [|]); [..|destruct Hl]; try discriminate S;
      (eexists; eexists; eexists; eexists;
       split; [reflexivity|]; split; [reflexivity|]; split; [reflexivity|]; split; [reflexivity|]; split;
       [ apply is_rotation_rot3;
         first [ assumption | apply rot3_shift; assumption | apply rot3_shift; apply rot3_shift; assumption ]
       | match goal with |- (if ?b then _ else _) = true => let v := eval vm_compute in b in change b with v end;
         cbv iota; rewrite ?opp_involutive; assumption ]).
  Qed.

  (* the six stored halfedges lie on six distinct edges, the four stored halffaces on four distinct faces *)
  Lemma rec_edges_distinct : NoDup (map (fun h => h / 2) [ab; bc; ca; cd; ad; bd]).
  Proof.
    frame_facts. cbn [map].
    repeat constructor; cbn [In]; intros K;
      repeat (destruct K as [K|K]; [destruct (half_eq _ _ K) as [K'|K']; ends_differ s K'|]); exact K.
  Qed.

  Lemma he_in_face_vertices hf h p q r : rot3 (halfface s hf) p q r -> In h (halfface s hf) -> In (he_from s h) (hf_vertices s hf).
  Proof. intros _ H. unfold hf_vertices. apply in_map. exact H. Qed.

  (* a face and its two halffaces have the same vertices *)
  Lemma same_face_vertices hf hf' v : hf / 2 = hf' / 2 -> length (halfface s hf') = 3 ->
    (forall k, k < 3 -> he_to s (nth k (halfface s hf') 0) = he_from s (nth (if S k =? 3 then 0 else S k) (halfface s hf') 0)) ->
    In v (hf_vertices s hf) -> In v (hf_vertices s hf').
  Proof.
    intros E L Cl Hv. destruct (half_eq _ _ E) as [->| ->]; [exact Hv|].
    unfold hf_vertices in Hv |- *. rewrite halfface_opp in Hv.
    destruct (halfface s hf') as [|h0 [|h1 [|h2 [|]]]]; try discriminate.
    pose proof (Cl 0 ltac:(lia)) as C0. pose proof (Cl 1 ltac:(lia)) as C1. pose proof (Cl 2 ltac:(lia)) as C2.
    cbn [nth Nat.eqb] in C0, C1, C2. cbn [map rev app] in Hv. rewrite !he_from_opp in Hv. rewrite C0, C1, C2 in Hv.
    cbn [map]. simpl in Hv |- *. tauto.
  Qed.

  Lemma rot3_closed hf p q r : rot3 (halfface s hf) p q r ->
    he_to s p = he_from s q -> he_to s q = he_from s r -> he_to s r = he_from s p ->
    length (halfface s hf) = 3 /\
    (forall k, k < 3 -> he_to s (nth k (halfface s hf) 0) = he_from s (nth (if S k =? 3 then 0 else S k) (halfface s hf) 0)).
  Proof.
    intros R E0 E1 E2. split; [exact (rot3_length _ _ _ _ R)|]. intros k Hk.
    destruct R as [->|[->| ->]]; destruct k as [|[|[|k]]]; try lia; cbn [nth Nat.eqb]; assumption.
  Qed.

  Lemma rec_faces_distinct : NoDup (map (fun h => h / 2) [Y; Z; X; abc]).
  Proof.
    frame_facts.
    pose proof (fr_v_abc _ _ _ _ _ _ _ _ _ _ _ _ _ _ _ _ _ _ _ _ _ FR) as V1.
    pose proof (fr_v_X _ _ _ _ _ _ _ _ _ _ _ _ _ _ _ _ _ _ _ _ _ FR) as V2.
    pose proof (fr_v_Y _ _ _ _ _ _ _ _ _ _ _ _ _ _ _ _ _ _ _ _ _ FR) as V3.
    pose proof (fr_v_Z _ _ _ _ _ _ _ _ _ _ _ _ _ _ _ _ _ _ _ _ _ FR) as V4.
    destruct (rot3_closed abc ab bc ca (fr_abc_list _ _ _ _ _ _ _ _ _ _ _ _ _ _ _ _ _ _ _ _ _ FR)) as [L1 C1]; try congruence.
    destruct (rot3_closed X (opp ab) ad db (fr_hX _ _ _ _ _ _ _ _ _ _ _ _ _ _ _ _ _ _ _ _ _ FR)) as [L2 C2];
      rewrite ?he_to_opp, ?he_from_opp; try congruence.
    destruct (rot3_closed Z (opp ca) cd da (fr_hZ _ _ _ _ _ _ _ _ _ _ _ _ _ _ _ _ _ _ _ _ _ FR)) as [L4 C4];
      rewrite ?he_to_opp, ?he_from_opp; try congruence.
    (* D is on Y, Z, X but not on abc; A on Z, X but not on Y; B on X but not on Z *)
    assert (DY : In D (hf_vertices s Y)) by (apply (rot3_In _ _ _ _ _ V3); auto).
    assert (DZ : In D (hf_vertices s Z)) by (apply (rot3_In _ _ _ _ _ V4); auto).
    assert (DX : In D (hf_vertices s X)) by (apply (rot3_In _ _ _ _ _ V2); auto).
    assert (AY : In A (hf_vertices s Z)) by (apply (rot3_In _ _ _ _ _ V4); auto).
    assert (nDabc : ~ In D (hf_vertices s abc)).
    { intros K. apply (rot3_In _ _ _ _ _ V1) in K. intuition congruence. }
    assert (nAY : ~ In A (hf_vertices s Y)).
    { intros K. apply (rot3_In _ _ _ _ _ V3) in K. intuition congruence. }
    assert (nBZ : ~ In B (hf_vertices s Z)).
    { intros K. apply (rot3_In _ _ _ _ _ V4) in K. intuition congruence. }
    assert (nCX : ~ In C (hf_vertices s X)).
    { intros K. apply (rot3_In _ _ _ _ _ V2) in K. intuition congruence. }
    assert (CY : In C (hf_vertices s Y)) by (apply (rot3_In _ _ _ _ _ V3); auto).
    assert (CZ : In C (hf_vertices s Z)) by (apply (rot3_In _ _ _ _ _ V4); auto).
    cbn [map]. repeat constructor; cbn [In]; intros K; repeat (destruct K as [K|K]); try exact K.
    - (* Z / Y *) apply nAY. apply (same_face_vertices Z Y A); [first [exact K | symmetry; exact K] | | | exact AY].
      + exact (rot3_length _ _ _ _ (fr_hY _ _ _ _ _ _ _ _ _ _ _ _ _ _ _ _ _ _ _ _ _ FR)).
      + apply (rot3_closed Y (opp bc) bd dc (fr_hY _ _ _ _ _ _ _ _ _ _ _ _ _ _ _ _ _ _ _ _ _ FR));
          rewrite ?he_to_opp, ?he_from_opp; congruence.
    - (* X / Y *) apply nCX. apply (same_face_vertices Y X C); [first [exact K | symmetry; exact K] | exact L2 | exact C2 | exact CY].
    - (* abc / Y *) apply nDabc. apply (same_face_vertices Y abc D); [first [exact K | symmetry; exact K] | exact L1 | exact C1 | exact DY].
    - (* X / Z *) apply nCX. apply (same_face_vertices Z X C); [first [exact K | symmetry; exact K] | exact L2 | exact C2 | exact CZ].
    - (* abc / Z *) apply nDabc. apply (same_face_vertices Z abc D); [first [exact K | symmetry; exact K] | exact L1 | exact C1 | exact DZ].
    - (* abc / X *) apply nDabc. apply (same_face_vertices X abc D); [first [exact K | symmetry; exact K] | exact L1 | exact C1 | exact DX].
  Qed.

  Lemma rec_vertices_distinct : NoDup [A; B; C; D].
  Proof. exact (fr_nd _ _ _ _ _ _ _ _ _ _ _ _ _ _ _ _ _ _ _ _ _ FR). Qed.

  (* get_label inverts the accessors: 4 vertex labels, 12 halfedge labels, 32 halfface labels *)
  Theorem rec_label_consistent : tt_label_consistent T = true.
  Proof.
    unfold tt_label_consistent. apply andb_true_iff. split; [apply andb_true_iff; split|].
    - apply forallb_forall. intros l Hl.
      assert (Ex : exists v, tt_vh_l T l = Some v).
      { unfold VL_all in Hl. repeat (destruct Hl as [<-|Hl]; [eexists; reflexivity|]). destruct Hl. }
      destruct Ex as (v&Ev). rewrite Ev. cbn [oall].
      rewrite (label_v_inverts T A B C D eq_refl rec_vertices_distinct l v Hl Ev). apply Z.eqb_refl.
    - apply forallb_forall. intros l Hl.
      assert (Ex : exists h, tt_heh_l T l = Some h).
      { unfold HEL_all in Hl. repeat (destruct Hl as [<-|Hl]; [eexists; reflexivity|]). destruct Hl. }
      destruct Ex as (h&Eh). rewrite Eh. cbn [oall].
      rewrite (label_he_inverts T [ab; bc; ca; cd; ad; bd] eq_refl eq_refl rec_edges_distinct l h Hl Eh). apply Z.eqb_refl.
    - apply forallb_forall. intros l Hl.
      exact (label_hf_inverts A B C D _ Y Z X abc rec_vertices_distinct rec_faces_distinct l Hl).
  Qed.

  Theorem rec_consistent : tt_consistent s c T = true.
  Proof.
    unfold tt_consistent. rewrite rec_v_distinct, rec_he_consistent, rec_hf_consistent, rec_label_consistent. reflexivity.
  Qed.

  Lemma rec_vA : tt_vh_l T VL_A = Some A. Proof. reflexivity. Qed.
  Lemma rec_abc : tt_hfh_l T HFL_ABC = Some abc. Proof. reflexivity. Qed.
End Consistent.
