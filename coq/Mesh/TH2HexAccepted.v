(* Mesh/TH2HexAccepted.v -- C16: the cube-pattern / layout theorems applied to a cell ACCEPTED by the topology-checked
   add_cell(halffaces): the ordering hypothesis comes from the acceptance (the stored list passes check_halfface_ordering in
   the new state); what is still asked is hex_cell_wf_b of the stored cell.  That it cannot be dropped - also after the fix
   "checked hex add_cell must reject cells without eight distinct vertices" - is TH2HexRefute.
   checked_add_cell_accepts_a_non_cube_on_eight_vertices_refuted (top and bottom sharing two vertices) and, for the loop
   conjunct, the Example below (a face stored out of cyclic order by an UNCHECKED add_face). *)
From Coq Require Import ZArith Lia Bool Arith List.
From OVM Require Import Base.ListX Kernel.State Kernel.Ops Mesh.TetModel Mesh.TetProofs Mesh.HexModel Mesh.HexIterModel Mesh.HexProofs
                        Mesh.TH2HexFrame Mesh.TH2HexMain Mesh.TH2HexRefute Mesh.TH2HexChecked Mesh.TH2HexEight.
Import ListNotations.
Local Open Scope nat_scope.

Theorem accepted_cell_pattern s hfs s' c : hex_shape s -> hex_add_cell s hfs true = (s', Some c) -> hex_cell_wf_b s' c = true ->
  hex_cube_pattern s' c /\ hex_layout s' (cell_at s' c) = true /\ length (hfs_vertex_set s' (cell_at s' c)) = 8.
Proof.
  intros K H W. pose proof (shape_hex_add_cell s hfs true K) as K'. rewrite H in K'. cbn [fst] in K'.
  destruct (hex_add_cell_checked_stored s hfs s' c H) as (Ec & _ & _ & _ & O).
  assert (Hc : c < nc s').
  { destruct (hex_add_cell_checked s hfs s' (Some c) H) as [[E _]|(l & _ & Cs & _)]; [discriminate|].
    unfold nc. rewrite Cs, app_length. cbn [length]. subst c. unfold nc. lia. }
  split; [exact (TH2_hex_vertices_cube_pattern s' c K' Hc O W)|]. split; [exact (TH2_hex_cell_layout s' c K' Hc O W)|].
  exact (proj1 (hex_add_cell_checked_eight s hfs s' c H)).
Qed.

(* the loop conjunct: a cube one of whose side faces was stored out of cyclic order by add_face WITHOUT check is accepted by
   the topology-checked add_cell (closedness, eight vertices and both ordering traversals only look at halfedge sets) *)
Example checked_add_cell_accepts_a_cell_with_a_non_loop_face :
  let s0 := hex_run (removelast refute_loop_ops) in
  exists s, hex_step s0 (HK (AddCell [0; 2; 4; 6; 8; 12] true)) = HROk s (Some 0) /\
            loop_ok s (halfface s 12) = false /\ hex_vertices s 0 = Some [3; 0; 1; 2; 3; 5; 4; 0].
Proof. vm_compute. eexists. repeat split. Qed.

Print Assumptions accepted_cell_pattern.
