(* Mesh/TH2HexVerts.v -- hex_vertices (the HexVertexIter walk) on a well-formed ordered hex cell: the walk succeeds and
   reports  [u0; u3; u2; u1; w1; w0; w3; w2]  where u_i / w_i are the sources of the top quad e0..e3 and of the
   bottom quad g0..g3 of the frame (Mesh/TH2HexFrame.v); positions 0-4, 1-7, 2-6, 3-5 are joined by a halfedge of a
   side halfface; the eight are distinct.  Proofs only. *)
From Coq Require Import ZArith Lia Bool Arith List ZifyNat ZifyBool Permutation.
From OVM Require Import Base.ListX Base.ListLemmas Kernel.State Kernel.Ops Kernel.Mirror Kernel2.LookupModel Kernel2.ListAux
                        Kernel2.AdjacentProofs Mesh.TetModel Mesh.HexModel Mesh.HexIterModel Mesh.TetProofs Mesh.HexProofs
                        Mesh.TH2HexBase Mesh.TH2HexAdj Mesh.TH2HexOrd Mesh.TH2HexFrame Mesh.TH2HexSides.
Import ListNotations.
Ltac Zify.zify_post_hook ::= Z.div_mod_to_equations.
Local Open Scope nat_scope.

(* ================================================================== 1. the walk, step by step *)

(* names as in HexIterModel.hex_vertices: e1..e4 are the successive predecessors of e0 in the first halfface, hf1 the
   side halfface across e4, e6 / e7 the next two halfedges of hf1 after opp e4, hf2 the halfface across e7, e9 / e10
   the two predecessors of opp e7 in hf2 *)
Lemma hex_vertices_unfold s c l hf0 e0 e1 e2 e3 e4 hf1 e6 e7 hf2 e9 e10 :
  nth_error (cells s) c = Some l -> nth_error l 0 = Some hf0 -> nth_error (halfface s hf0) 0 = Some e0 ->
  prev_he_in_hf s e0 hf0 = Some e1 -> prev_he_in_hf s e1 hf0 = Some e2 ->
  prev_he_in_hf s e2 hf0 = Some e3 -> prev_he_in_hf s e3 hf0 = Some e4 ->
  adjacent_halfface_in_cell s hf0 e4 = Some hf1 ->
  next_he_in_hf s (opp e4) hf1 = Some e6 -> next_he_in_hf s e6 hf1 = Some e7 ->
  adjacent_halfface_in_cell s hf1 e7 = Some hf2 ->
  prev_he_in_hf s (opp e7) hf2 = Some e9 -> prev_he_in_hf s e9 hf2 = Some e10 ->
  hex_vertices s c =
  Some [he_from s e0; he_from s e1; he_from s e2; he_from s e3; he_to s (opp e7); he_to s e9; he_to s e10; he_from s e10].
Proof.
  intros H1 H2 H3 P0 P1 P2 P3 A1 N1 N2 A2 Q1 Q2.
  unfold hex_vertices, bind, rd. rewrite H1, H2, H3, P0, P1, P2, P3, A1, N1.
  unfold next_he_o, halfface_o. unfold next_he_in_hf in N2. rewrite N2, A2.
  unfold prev_he_o, halfface_o. unfold prev_he_in_hf in Q1, Q2. rewrite Q1, Q2. reflexivity.
Qed.

(* ================================================================== 2. on a framed cell *)

Definition hex_joined (s : mesh) (l : list nat) (a b : nat) : Prop :=
  exists i he, 2 <= i < 6 /\ In he (halfface s (hx l i)) /\ he_from s he = a /\ he_to s he = b.

Section Cube.
  Variables (s : mesh) (c e0 e1 e2 e3 g0 g1 g2 g3 a0 a1 a2 a3 : nat).
  Hypothesis Hshape : hex_shape s.
  Hypothesis Hc : c < nc s.
  Hypothesis Hwf : hex_cell_wf s c.
  Hypothesis Hfr : hex_frame s c e0 e1 e2 e3 g0 g1 g2 g3 a0 a1 a2 a3.

  Let l := cell_at s c.
  Let h0 := hx l 0.
  Let h1 := hx l 1.

  Ltac sd L := eapply L; eassumption.

  Theorem cube_walk :
    hex_vertices s c =
    Some [he_from s e0; he_from s e3; he_from s e2; he_from s e1; he_from s g1; he_from s g0; he_from s g3; he_from s g2].
  Proof.
    assert (Htop : halfface s h0 = [e0; e1; e2; e3]) by (sd sd_top).
    assert (Hbot : rot4 (halfface s h1) [g0; g1; g2; g3]) by (sd sd_bot).
    assert (TN : NoDup [e0; e1; e2; e3]) by (sd sd_top_nodup).
    assert (BN : NoDup (halfface s h1)) by (sd sd_bot_nodup_stored).
    assert (BL : he_to s g0 = he_from s g1 /\ he_to s g1 = he_from s g2 /\ he_to s g2 = he_from s g3 /\ he_to s g3 = he_from s g0)
      by (sd sd_bot_loop).
    assert (S0 : is_side s c a0 e0 g0) by (sd sd_side0).
    destruct S0 as (HA&He&Hg&Oe&Og&Bk0&Bk1). fold l in HA. fold l h0 in He. fold l h1 in Hg. fold l h0 in Bk0. fold l h1 in Bk1.
    assert (SS : exists p q, rot4 (halfface s a0) [opp e0; p; opp g0; q] /\
                he_from s p = he_from s e0 /\ he_to s p = he_to s g0 /\ he_from s q = he_from s g0 /\ he_to s q = he_to s e0)
      by (sd sd_side_structure).
    destruct SS as (p&q&R&_).
    assert (AN : NoDup (halfface s a0)) by (apply (closed_cell_hf_NoDup s c); [exact (proj1 Hwf) | exact HA]).
    destruct (prev4 _ _ _ _ TN) as (P0&P1&P2&P3).
    destruct (rot4_next _ _ _ _ _ R AN) as (N0&N1&_&_).
    destruct (rot4_prev _ _ _ _ _ Hbot BN) as (Q0&_&_&Q3).
    assert (A1 : adjacent_halfface_in_cell s h0 e0 = Some a0) by (eapply proj1; sd sd_adj_top).
    rewrite (hex_vertices_unfold s c l h0 e0 e3 e2 e1 e0 a0 p (opp g0) h1 g3 g2).
    - rewrite opp_involutive. destruct BL as (B0&B1&B2&B3). rewrite B0, B3, B2. reflexivity.
    - unfold l, cell_at. apply nth_error_nth'. exact Hc.
    - unfold h0, hx. apply nth_error_nth'. unfold l. rewrite (sd_len s c Hshape Hc). lia.
    - rewrite Htop. reflexivity.
    - unfold prev_he_in_hf. rewrite Htop. exact P0.
    - unfold prev_he_in_hf. rewrite Htop. exact P3.
    - unfold prev_he_in_hf. rewrite Htop. exact P2.
    - unfold prev_he_in_hf. rewrite Htop. exact P1.
    - exact A1.
    - exact N0.
    - exact N1.
    - exact Bk1.
    - rewrite opp_involutive. exact Q0.
    - exact Q3.
  Qed.

  (* ---- pattern positions 0-4, 1-7, 2-6, 3-5 are joined by a halfedge of a side halfface *)
  Lemma cube_join A e g : In A [a0; a1; a2; a3] -> is_side s c A e g -> hex_joined s l (he_from s e) (he_to s g).
  Proof.
    intros HA S. assert (J : exists p, In p (halfface s A) /\ he_from s p = he_from s e /\ he_to s p = he_to s g) by (sd sd_side_join).
    destruct J as (p&Hp&F&T).
    assert (Pos : exists i, 2 <= i < 6 /\ A = hx (cell_at s c) i) by (sd sd_side_position).
    destruct Pos as (i&Hi&->). exists i, p. fold l in Hp. tauto.
  Qed.

  Theorem cube_joins :
    hex_joined s l (he_from s e0) (he_from s g1) /\ hex_joined s l (he_from s e3) (he_from s g2) /\
    hex_joined s l (he_from s e2) (he_from s g3) /\ hex_joined s l (he_from s e1) (he_from s g0).
  Proof.
    assert (BL : he_to s g0 = he_from s g1 /\ he_to s g1 = he_from s g2 /\ he_to s g2 = he_from s g3 /\ he_to s g3 = he_from s g0)
      by (sd sd_bot_loop).
    destruct BL as (B0&B1&B2&B3).
    assert (S0 : is_side s c a0 e0 g0) by (sd sd_side0). assert (S1 : is_side s c a1 e1 g3) by (sd sd_side1).
    assert (S2 : is_side s c a2 e2 g2) by (sd sd_side2). assert (S3 : is_side s c a3 e3 g1) by (sd sd_side3).
    rewrite <- B0, <- B1, <- B2, <- B3. repeat split.
    - apply (cube_join a0); [cbn [In]; auto | exact S0].
    - apply (cube_join a3); [cbn [In]; auto 6 | exact S3].
    - apply (cube_join a2); [cbn [In]; auto | exact S2].
    - apply (cube_join a1); [cbn [In]; auto | exact S1].
  Qed.

  (* ---- the eight reported vertices are distinct *)
  Theorem cube_distinct :
    NoDup [he_from s e0; he_from s e3; he_from s e2; he_from s e1; he_from s g1; he_from s g0; he_from s g3; he_from s g2].
  Proof.
    assert (ND : NoDup [he_from s e0; he_from s e1; he_from s e2; he_from s e3; he_from s g0; he_from s g1; he_from s g2; he_from s g3])
      by (sd sd_corners_nodup).
    apply nodup8_neq in ND.
    destruct ND as ((n01&n02&n03&n04&n05&n06&n07)&(n12&n13&n14&n15&n16&n17)&(n23&n24&n25&n26&n27)&(n34&n35&n36&n37)&
                    (n45&n46&n47)&(n56&n57)&n67).
    repeat constructor; cbn [In];
      (intros H; repeat (destruct H as [H|H]; [congruence|]); exact H).
  Qed.
End Cube.
