(* Mesh/TH2HexMain.v -- C16, hex_vertices and the documented layout for EVERY stored cell of EVERY hex-shaped state that
   passes check_halfface_ordering and the decidable well-formedness test hex_cell_wf_b (Mesh/TH2HexFrame.v):

     hex_cell_wf_b s c  =  closed_cell_b s c                                   (cache sends the cell's halffaces to c;
                                                                                 every halfedge of every halfface matched
                                                                                 exactly once inside the cell)
                        && every halfface of the cell is a closed loop (loop_ok)
                        && the first two halffaces have eight distinct vertices.

   (A) TH2_hex_vertices_cube_pattern, (B) TH2_hex_cell_layout.  Each hypothesis is needed: Mesh/TH2HexRefute.v. *)
From Coq Require Import ZArith Lia Bool Arith List ZifyNat ZifyBool Permutation.
From OVM Require Import Base.ListX Base.ListLemmas Kernel.State Kernel.Ops Kernel.Mirror Kernel2.LookupModel Kernel2.ListAux
                        Kernel2.AdjacentProofs Mesh.TetModel Mesh.HexModel Mesh.HexIterModel Mesh.TetProofs Mesh.HexProofs
                        Mesh.TH2HexBase Mesh.TH2HexAdj Mesh.TH2HexOrd Mesh.TH2HexFrame Mesh.TH2HexSides Mesh.TH2HexVerts
                        Mesh.TH2HexLayout.
Import ListNotations.
Ltac Zify.zify_post_hook ::= Z.div_mod_to_equations.
Local Open Scope nat_scope.

(* ================================================================== (A) the cube pattern of hex_vertices *)

(* hex_vertices s c succeeds with eight DISTINCT vertices v0..v7 such that
   - v0 v1 v2 v3 are the first halfface's vertices AGAINST its cyclic order, starting at the source of its first
     halfedge (its stored vertex cycle is v0 v3 v2 v1);
   - v4 v5 v6 v7 are the second (opposite) halfface's vertices against its cyclic order (its stored vertex cycle is a
     rotation of v4 v7 v6 v5);
   - pattern positions 0-4, 1-7, 2-6, 3-5 are joined by a halfedge of one of the side halffaces l[2..5], running from
     the vertex of the first halfface to the vertex of the second. *)
Definition hex_cube_pattern (s : mesh) (c : nat) : Prop :=
  exists v0 v1 v2 v3 v4 v5 v6 v7,
    hex_vertices s c = Some [v0; v1; v2; v3; v4; v5; v6; v7] /\
    hf_vertices s (hx (cell_at s c) 0) = [v0; v3; v2; v1] /\
    rot4 (hf_vertices s (hx (cell_at s c) 1)) [v4; v7; v6; v5] /\
    hex_joined s (cell_at s c) v0 v4 /\ hex_joined s (cell_at s c) v1 v7 /\
    hex_joined s (cell_at s c) v2 v6 /\ hex_joined s (cell_at s c) v3 v5 /\
    NoDup [v0; v1; v2; v3; v4; v5; v6; v7].

Theorem TH2_hex_vertices_cube_pattern s c :
  hex_shape s -> c < nc s -> check_halfface_ordering s (cell_at s c) = true -> hex_cell_wf_b s c = true ->
  hex_cube_pattern s c.
Proof.
  intros K Hc Hord Hwf. apply hex_cell_wf_b_spec in Hwf.
  destruct (hex_frame_exists s c K Hc Hwf Hord) as (e0&e1&e2&e3&g0&g1&g2&g3&a0&a1&a2&a3&Hfr).
  exists (he_from s e0), (he_from s e3), (he_from s e2), (he_from s e1), (he_from s g1), (he_from s g0), (he_from s g3), (he_from s g2).
  split; [exact (cube_walk s c e0 e1 e2 e3 g0 g1 g2 g3 a0 a1 a2 a3 K Hc Hwf Hfr)|].
  split; [unfold hf_vertices; rewrite (sd_top s c e0 e1 e2 e3 g0 g1 g2 g3 a0 a1 a2 a3 Hfr); reflexivity|].
  split.
  { unfold hf_vertices. apply (rot4_map (he_from s) _ [g1; g2; g3; g0]).
    eapply rot4_trans; [exact (sd_bot s c e0 e1 e2 e3 g0 g1 g2 g3 a0 a1 a2 a3 Hfr) | constructor]. }
  destruct (cube_joins s c e0 e1 e2 e3 g0 g1 g2 g3 a0 a1 a2 a3 K Hc Hwf Hfr) as (J0&J1&J2&J3).
  repeat (split; [assumption|]).
  exact (cube_distinct s c e0 e1 e2 e3 g0 g1 g2 g3 a0 a1 a2 a3 Hwf Hfr).
Qed.

(* ================================================================== (B) the documented layout *)

(* x-front/x-back, y-front/y-back, z-front/z-back are vertex-disjoint and the first halfface meets positions 2,4,3,5
   in that cyclic order, each as THE unique neighbour *)
Theorem TH2_hex_cell_layout s c :
  hex_shape s -> c < nc s -> check_halfface_ordering s (cell_at s c) = true -> hex_cell_wf_b s c = true ->
  hex_layout s (cell_at s c) = true.
Proof.
  intros K Hc Hord Hwf. apply hex_cell_wf_b_spec in Hwf.
  destruct (hex_frame_exists s c K Hc Hwf Hord) as (e0&e1&e2&e3&g0&g1&g2&g3&a0&a1&a2&a3&Hfr).
  exact (cube_layout s c e0 e1 e2 e3 g0 g1 g2 g3 a0 a1 a2 a3 K Hc Hwf Hfr).
Qed.

Theorem TH2_hex_cell_opposite_faces_disjoint s c :
  hex_shape s -> c < nc s -> check_halfface_ordering s (cell_at s c) = true -> hex_cell_wf_b s c = true ->
  let l := cell_at s c in
  disjointb (hf_vertices s (hx l 0)) (hf_vertices s (hx l 1)) = true /\
  disjointb (hf_vertices s (hx l 2)) (hf_vertices s (hx l 3)) = true /\
  disjointb (hf_vertices s (hx l 4)) (hf_vertices s (hx l 5)) = true.
Proof.
  intros K Hc Hord Hwf. apply hex_cell_wf_b_spec in Hwf.
  destruct (hex_frame_exists s c K Hc Hwf Hord) as (e0&e1&e2&e3&g0&g1&g2&g3&a0&a1&a2&a3&Hfr).
  cbv zeta. split; [exact (layout_x s c Hwf)|].
  exact (layout_yz s c e0 e1 e2 e3 g0 g1 g2 g3 a0 a1 a2 a3 K Hc Hwf Hfr).
Qed.

(* the hex kernel's own search and the base kernel's adjacent_halfface_in_cell agree along the first two halffaces *)
Theorem TH2_hex_cell_no_opposite_pair s c :
  hex_shape s -> c < nc s -> check_halfface_ordering s (cell_at s c) = true -> hex_cell_wf_b s c = true ->
  ~ In (opp (hx (cell_at s c) 0)) (cell_at s c) /\ ~ In (opp (hx (cell_at s c) 1)) (cell_at s c).
Proof.
  intros K Hc Hord Hwf. apply hex_cell_wf_b_spec in Hwf.
  destruct (hex_frame_exists s c K Hc Hwf Hord) as (e0&e1&e2&e3&g0&g1&g2&g3&a0&a1&a2&a3&Hfr).
  exact (proj2 (proj2 (proj2 (proj2 (proj2 Hfr))))).
Qed.

(* ================================================================== non-vacuity *)

Lemma hex_shape_b_ok s :
  forallb (fun f => length f =? 4) (faces s) && forallb (fun c => length c =? 6) (cells s) = true -> hex_shape s.
Proof.
  intros H. apply andb_true_iff in H. destruct H as [F C]. rewrite forallb_forall in F, C.
  split; apply Forall_forall; intros x Hx; apply Nat.eqb_eq; auto.
Qed.

(* two cells side by side: the second cell finds the shared face as its second halfface, as the ODD halfface 5 (reversed
   list of opposites) of a face created for the first cell in another rotation *)
Definition th2_two_cells : mesh :=
  hex_run [HK (AddVertices 12); HAddCellV [0; 1; 2; 3; 4; 5; 6; 7] true; HAddCellV [8; 9; 10; 11; 7; 1; 2; 6] true].

(* a 2 x 2 x 1 block: the fourth cell finds two of its faces *)
Definition th2_four_cells : mesh :=
  hex_run [HK (AddVertices 18);
           HAddCellV [0; 1; 2; 3; 4; 5; 6; 7] true; HAddCellV [8; 9; 10; 11; 7; 1; 2; 6] true;
           HAddCellV [12; 13; 14; 15; 2; 3; 5; 6] true; HAddCellV [9; 10; 2; 6; 16; 13; 12; 17] true].

Example th2_two_cells_hyps :
  hex_shape th2_two_cells /\ 1 < nc th2_two_cells /\ cell_at th2_two_cells 1 = [12; 5; 14; 16; 18; 20] /\
  check_halfface_ordering th2_two_cells (cell_at th2_two_cells 1) = true /\ hex_cell_wf_b th2_two_cells 1 = true /\
  hex_vertices th2_two_cells 1 = Some [11; 8; 9; 10; 1; 2; 6; 7].
Proof.
  split; [apply hex_shape_b_ok; vm_compute; reflexivity|].
  split; [apply Nat.ltb_lt; vm_compute; reflexivity|].
  vm_compute. repeat split.
Qed.

Example th2_two_cells_pattern : hex_cube_pattern th2_two_cells 1.
Proof.
  destruct th2_two_cells_hyps as (K&Hc&_&Hord&Hwf&_). exact (TH2_hex_vertices_cube_pattern _ _ K Hc Hord Hwf).
Qed.

Example th2_four_cells_hyps :
  hex_shape th2_four_cells /\ nc th2_four_cells = 4 /\
  forallb (fun c => check_halfface_ordering th2_four_cells (cell_at th2_four_cells c) && hex_cell_wf_b th2_four_cells c) [0; 1; 2; 3] = true.
Proof.
  split; [apply hex_shape_b_ok; vm_compute; reflexivity|]. vm_compute. split; reflexivity.
Qed.

Example th2_four_cells_layout : forall c, c < 4 -> hex_layout th2_four_cells (cell_at th2_four_cells c) = true.
Proof.
  destruct th2_four_cells_hyps as (K&N&H). rewrite forallb_forall in H. intros c Hc.
  assert (Hin : In c [0; 1; 2; 3]) by (cbn [In]; lia).
  specialize (H c Hin). apply andb_true_iff in H. destruct H as [Hord Hwf].
  apply TH2_hex_cell_layout; [exact K | rewrite N; exact Hc | exact Hord | exact Hwf].
Qed.
