(* Mesh/TH2TopoWf.v -- the hypothesis of the general TetTopology constructor theorem (C15).

   [tet_cell_ok_b s c] is a DECIDABLE predicate on (state, cell): the cell stores four distinct halffaces, each a
   closed loop of three halfedges on three distinct vertices, four vertices in all, no two halffaces on the same
   vertex set (so far: the vertex-level [tet_wf] of Mesh/TetProofs.v, without the incident-cell entries, which the
   constructor TetTopology(mesh, ch, abc, a) does not read) and, at the HALFEDGE level, the cell is closed: the
   opposite of every halfedge of every halfface of the cell occurs in some halfface of the cell.

   Beyond [tet_wf] these are exactly two hypotheses: the loops are closed ([loop_ok], what add_face checks when asked
   to) and the halfedge-level closure (what the topology check of add_cell, [cell_check], establishes).  Both are
   necessary: Mesh/TH2TopoMain.v refutes the statement without either of them.

   This file: the predicate, its Prop form [tet_cell_ok] with the reflection lemma, the bridge from/to [tet_wf], and
   the elementary facts about closed triangles that the geometry file (TH2TopoFrame.v) uses. *)
From Coq Require Import ZArith Lia Bool Arith List.
From OVM Require Import Base.ListX Base.ListLemmas Kernel.State Kernel.Ops Kernel.Mirror Kernel.CellCheck
                        Mesh.TetModel Mesh.TetProofs.
Import ListNotations.
Local Open Scope nat_scope.

(* ------------------------------------------------------------------ small decidable list predicates *)

Fixpoint nodup_b (l : list nat) : bool :=
  match l with [] => true | x :: t => negb (memb x t) && nodup_b t end.

Lemma nodup_b_spec l : nodup_b l = true <-> NoDup l.
Proof.
  induction l as [|x t IH]; cbn [nodup_b].
  - split; [intros _; constructor | reflexivity].
  - rewrite andb_true_iff, negb_true_iff, IH. split.
    + intros [M N]. constructor; [|exact N]. intros H. apply memb_In in H. congruence.
    + intros H. inversion H as [|? ? Hn Hd]; subst. split; [|exact Hd].
      destruct (memb x t) eqn:M; [apply memb_In in M; contradiction | reflexivity].
Qed.

Definition incl_b (l m : list nat) : bool := forallb (fun x => memb x m) l.

Lemma incl_b_spec l m : incl_b l m = true <-> incl l m.
Proof.
  unfold incl_b, incl. rewrite forallb_forall. split.
  - intros H a Ha. apply memb_In. exact (H a Ha).
  - intros H a Ha. apply memb_In. exact (H a Ha).
Qed.

(* ------------------------------------------------------------------ the predicate *)

(* a closed triangle on three distinct vertices *)
Definition tri_ok_b (s : mesh) (hf : nat) : bool :=
  (length (halfface s hf) =? 3) && loop_ok s (halfface s hf) && nodup_b (hf_vertices s hf).

(* all halfedges of the halffaces of a cell *)
Definition cell_hes (s : mesh) (hfs : list nat) : list nat := concat (map (halfface s) hfs).

(* halfedge-level closure: the opposite of every halfedge of the cell occurs in the cell *)
Definition cell_closed_b (s : mesh) (hfs : list nat) : bool :=
  forallb (fun h => memb (opp h) (cell_hes s hfs)) (cell_hes s hfs).

Definition hfs_distinct_b (s : mesh) (hfs : list nat) : bool :=
  forallb (fun hf => forallb (fun hf' => (hf =? hf') || negb (incl_b (hf_vertices s hf') (hf_vertices s hf))) hfs) hfs.

Definition tet_cell_ok_b (s : mesh) (c : nat) : bool :=
  match nth_error (cells s) c with
  | None => false
  | Some hfs =>
      (length hfs =? 4) && nodup_b hfs && forallb (tri_ok_b s) hfs &&
      (length (hfs_vertex_set s hfs) =? 4) && hfs_distinct_b s hfs && cell_closed_b s hfs
  end.

(* the incident-cell entries (read only by TetTopology(mesh, abc, a)) *)
Definition tet_cell_inc_b (s : mesh) (c : nat) : bool :=
  forallb (fun hf => match nth_error (inc_cell s) hf with Some (Some c') => c' =? c | _ => false end) (cell_at s c).

(* ------------------------------------------------------------------ Prop form *)

Definition ends (s : mesh) (h u v : nat) : Prop := he_from s h = u /\ he_to s h = v.

Definition tri_ok (s : mesh) (hf : nat) : Prop :=
  exists h0 h1 h2, halfface s hf = [h0; h1; h2] /\
    he_to s h0 = he_from s h1 /\ he_to s h1 = he_from s h2 /\ he_to s h2 = he_from s h0 /\
    NoDup [he_from s h0; he_from s h1; he_from s h2].

Record tet_cell_ok (s : mesh) (c : nat) (hfs : list nat) : Prop := {
  tco_cell : nth_error (cells s) c = Some hfs;
  tco_len : length hfs = 4;
  tco_nodup : NoDup hfs;
  tco_tri : forall hf, In hf hfs -> tri_ok s hf;
  tco_four : length (hfs_vertex_set s hfs) = 4;
  tco_distinct : forall hf hf', In hf hfs -> In hf' hfs -> hf <> hf' -> ~ incl (hf_vertices s hf') (hf_vertices s hf);
  tco_closed : forall hf h, In hf hfs -> In h (halfface s hf) -> exists hf', In hf' hfs /\ In (opp h) (halfface s hf')
}.

Lemma tri_ok_b_spec s hf : tri_ok_b s hf = true <-> tri_ok s hf.
Proof.
  unfold tri_ok_b, tri_ok, hf_vertices. split.
  - intros H. apply andb_true_iff in H. destruct H as [H N]. apply andb_true_iff in H. destruct H as [L Lp].
    apply Nat.eqb_eq in L. destruct (halfface s hf) as [|h0 [|h1 [|h2 [|]]]]; try discriminate.
    exists h0, h1, h2. split; [reflexivity|].
    cbn [loop_ok chain_ok] in Lp. apply andb_true_iff in Lp. destruct Lp as [E0 Lp].
    apply andb_true_iff in Lp. destruct Lp as [E1 E2].
    apply Nat.eqb_eq in E0, E1, E2. apply nodup_b_spec in N. cbn [map] in N. auto.
  - intros (h0&h1&h2&E&E0&E1&E2&N). rewrite E. cbn [length map loop_ok chain_ok].
    rewrite E0, E1, E2, !Nat.eqb_refl. cbn [andb]. apply nodup_b_spec. exact N.
Qed.

Lemma in_cell_hes s hfs h : In h (cell_hes s hfs) <-> exists hf, In hf hfs /\ In h (halfface s hf).
Proof.
  unfold cell_hes. rewrite in_concat. split.
  - intros (l&Hl&Hh). apply in_map_iff in Hl. destruct Hl as (hf&<-&Hhf). exists hf. split; assumption.
  - intros (hf&Hhf&Hh). exists (halfface s hf). split; [apply in_map; exact Hhf | exact Hh].
Qed.

Lemma cell_closed_b_spec s hfs : cell_closed_b s hfs = true <->
  forall hf h, In hf hfs -> In h (halfface s hf) -> exists hf', In hf' hfs /\ In (opp h) (halfface s hf').
Proof.
  unfold cell_closed_b. rewrite forallb_forall. split.
  - intros H hf h Hhf Hh. apply in_cell_hes. apply memb_In. apply H. apply in_cell_hes. exists hf. split; assumption.
  - intros H h Hh. apply in_cell_hes in Hh. destruct Hh as (hf&Hhf&Hh). apply memb_In. apply in_cell_hes.
    exact (H hf h Hhf Hh).
Qed.

Lemma hfs_distinct_b_spec s hfs : hfs_distinct_b s hfs = true <->
  forall hf hf', In hf hfs -> In hf' hfs -> hf <> hf' -> ~ incl (hf_vertices s hf') (hf_vertices s hf).
Proof.
  unfold hfs_distinct_b. rewrite forallb_forall. split.
  - intros H hf hf' Hhf Hhf' N I. pose proof (proj1 (forallb_forall _ _) (H hf Hhf) hf' Hhf') as K. cbv beta in K.
    apply orb_true_iff in K. destruct K as [K|K]; [apply Nat.eqb_eq in K; contradiction|].
    apply negb_true_iff in K. apply incl_b_spec in I. congruence.
  - intros H hf Hhf. apply forallb_forall. intros hf' Hhf'.
    destruct (Nat.eqb_spec hf hf') as [E|E]; [reflexivity|]. cbn [orb]. apply negb_true_iff.
    destruct (incl_b (hf_vertices s hf') (hf_vertices s hf)) eqn:I; [|reflexivity].
    apply incl_b_spec in I. exfalso. exact (H hf hf' Hhf Hhf' E I).
Qed.

Theorem tet_cell_ok_b_spec s c : tet_cell_ok_b s c = true <-> exists hfs, tet_cell_ok s c hfs.
Proof.
  unfold tet_cell_ok_b. split.
  - destruct (nth_error (cells s) c) as [hfs|] eqn:E; [|discriminate]. intros H.
    repeat match goal with H : (_ && _) = true |- _ => apply andb_true_iff in H; destruct H end.
    exists hfs. constructor.
    + exact E.
    + apply Nat.eqb_eq. assumption.
    + apply nodup_b_spec. assumption.
    + intros hf Hhf. apply tri_ok_b_spec.
      match goal with H : forallb (tri_ok_b s) _ = true |- _ => exact (proj1 (forallb_forall _ _) H hf Hhf) end.
    + apply Nat.eqb_eq. assumption.
    + apply hfs_distinct_b_spec. assumption.
    + apply cell_closed_b_spec. assumption.
  - intros (hfs&[Hc Hl Hn Ht Hf Hd Hcl]). rewrite Hc.
    repeat (apply andb_true_iff; split).
    + apply Nat.eqb_eq. exact Hl.
    + apply nodup_b_spec. exact Hn.
    + apply forallb_forall. intros hf Hhf. apply tri_ok_b_spec. exact (Ht hf Hhf).
    + apply Nat.eqb_eq. exact Hf.
    + apply hfs_distinct_b_spec. exact Hd.
    + apply cell_closed_b_spec. exact Hcl.
Qed.

Lemma tet_cell_ok_cell_at s c hfs : tet_cell_ok s c hfs -> cell_at s c = hfs.
Proof.
  intros [Hc _ _ _ _ _ _]. unfold cell_at. apply nth_error_nth. exact Hc.
Qed.

Lemma tet_cell_inc_b_spec s c : tet_cell_inc_b s c = true <->
  forall hf, In hf (cell_at s c) -> nth_error (inc_cell s) hf = Some (Some c).
Proof.
  unfold tet_cell_inc_b. rewrite forallb_forall. split.
  - intros H hf Hhf. specialize (H hf Hhf). destruct (nth_error (inc_cell s) hf) as [[c'|]|]; try discriminate.
    apply Nat.eqb_eq in H. subst. reflexivity.
  - intros H hf Hhf. rewrite (H hf Hhf). apply Nat.eqb_refl.
Qed.

(* ------------------------------------------------------------------ relation with the library's checks *)

(* the topology check of add_cell (sort / adjacent_find / unique by edge) establishes the halfedge-level closure *)
Lemma cell_check_closed s hfs : cell_check s hfs = true -> cell_closed_b s hfs = true.
Proof.
  intros H. apply cell_check_spec in H. destruct H as [_ [_ H]].
  unfold cell_closed_b. apply forallb_forall. intros h Hh. apply memb_In. exact (H h Hh).
Qed.

(* ------------------------------------------------------------------ bridge with tet_wf *)

Lemma hfs_vertex_set_In s hfs v : In v (hfs_vertex_set s hfs) <-> exists hf, In hf hfs /\ In v (hf_vertices s hf).
Proof.
  unfold hfs_vertex_set. rewrite set_of_list_In, in_flat_map. reflexivity.
Qed.

Lemma hfs_vertex_set_NoDup s hfs : NoDup (hfs_vertex_set s hfs).
Proof. apply strictly_sorted_NoDup. apply set_of_list_sorted. Qed.

(* [tet_cell_ok] + the incident-cell entries give [tet_wf] on the cell's vertex set *)
Theorem tet_cell_ok_wf s c hfs : tet_cell_ok s c hfs ->
  (forall hf, In hf hfs -> nth_error (inc_cell s) hf = Some (Some c)) ->
  tet_wf s c hfs (hfs_vertex_set s hfs).
Proof.
  intros [Hc Hl Hn Ht Hf Hd Hcl] Hi. unfold tet_wf.
  split; [exact Hc|]. split; [exact Hl|]. split; [exact Hn|]. split; [apply hfs_vertex_set_NoDup|].
  split; [exact Hf|]. split; [|exact Hd].
  intros hf Hhf. split; [exact (Hi hf Hhf)|].
  destruct (Ht hf Hhf) as (h0&h1&h2&E&_&_&_&N). unfold hf_vertices. rewrite E. cbn [map length].
  split; [reflexivity|]. split; [exact N|].
  intros v Hv. apply hfs_vertex_set_In. exists hf. split; [exact Hhf|]. unfold hf_vertices. rewrite E. exact Hv.
Qed.

(* [tet_wf] + closed loops + halfedge-level closure give [tet_cell_ok]: these two are the only extra hypotheses *)
Theorem tet_wf_cell_ok s c hfs V : tet_wf s c hfs V ->
  (forall hf, In hf hfs -> loop_ok s (halfface s hf) = true) ->
  (forall hf h, In hf hfs -> In h (halfface s hf) -> exists hf', In hf' hfs /\ In (opp h) (halfface s hf')) ->
  tet_cell_ok s c hfs.
Proof.
  intros (Hc&Hl&Hn&HV&HVl&Hhf&Hd) Hloop Hcl.
  assert (Ht : forall hf, In hf hfs -> tri_ok s hf).
  { intros hf H. apply tri_ok_b_spec. unfold tri_ok_b. destruct (Hhf hf H) as (_&L&N&_).
    unfold hf_vertices in L. rewrite map_length in L. rewrite L, (Hloop hf H). cbn [Nat.eqb andb].
    apply nodup_b_spec. exact N. }
  constructor; try assumption.
  (* four vertices: the set is included in V, and two halffaces already have four vertices *)
  assert (I : incl (hfs_vertex_set s hfs) V).
  { intros v Hv. apply hfs_vertex_set_In in Hv. destruct Hv as (hf&H&Hv). destruct (Hhf hf H) as (_&_&_&I). exact (I v Hv). }
  pose proof (NoDup_incl_length (hfs_vertex_set_NoDup s hfs) I) as Le.
  destruct hfs as [|f0 [|f1 r]]; try discriminate.
  assert (H0 : In f0 (f0 :: f1 :: r)) by (left; reflexivity).
  assert (H1 : In f1 (f0 :: f1 :: r)) by (right; left; reflexivity).
  assert (N01 : f0 <> f1). { inversion Hn as [|? ? Hx _]; subst. intros E. apply Hx. left. symmetry. exact E. }
  destruct (Hhf f0 H0) as (_&L0&N0&_).
  (* a vertex of f1 outside f0 *)
  assert (Ex : exists w, In w (hf_vertices s f1) /\ ~ In w (hf_vertices s f0)).
  { destruct (find (fun w => negb (memb w (hf_vertices s f0))) (hf_vertices s f1)) as [w|] eqn:F.
    - apply find_some in F. destruct F as [a b]. exists w. split; [exact a|]. apply negb_true_iff in b. intros M.
      apply memb_In in M. congruence.
    - exfalso. apply (Hd f0 f1 H0 H1 N01). intros a Ha. pose proof (find_none _ _ F a Ha) as K.
      apply negb_false_iff in K. apply memb_In. exact K. }
  destruct Ex as (w&Hw&Hw').
  assert (ND : NoDup (w :: hf_vertices s f0)) by (constructor; assumption).
  assert (I2 : incl (w :: hf_vertices s f0) (hfs_vertex_set s (f0 :: f1 :: r))).
  { intros v [E|Hv]; [subst v|]; apply hfs_vertex_set_In; [exists f1 | exists f0]; split; assumption. }
  pose proof (NoDup_incl_length ND I2) as Ge. cbn [length] in Ge. lia.
Qed.

(* ------------------------------------------------------------------ closed triangles *)

(* the three rotations of a triple *)
Definition rot3 {T} (l : list T) (p q r : T) : Prop := l = [p; q; r] \/ l = [q; r; p] \/ l = [r; p; q].

Lemma rot3_In {T} (l : list T) p q r x : rot3 l p q r -> (In x l <-> x = p \/ x = q \/ x = r).
Proof.
  intros [->|[->| ->]]; simpl; intuition congruence.
Qed.

Lemma rot3_map {T U} (f : T -> U) l p q r : rot3 l p q r -> rot3 (map f l) (f p) (f q) (f r).
Proof. intros [->|[->| ->]]; [left | right; left | right; right]; reflexivity. Qed.

Lemma rot3_length {T} (l : list T) p q r : rot3 l p q r -> length l = 3.
Proof. intros [->|[->| ->]]; reflexivity. Qed.

(* a closed triangle seen from any of its halfedges *)
Lemma tri_ok_at s hf h : tri_ok s hf -> In h (halfface s hf) ->
  exists h1 h2, rot3 (halfface s hf) h h1 h2 /\
    he_to s h = he_from s h1 /\ he_to s h1 = he_from s h2 /\ he_to s h2 = he_from s h /\
    NoDup [he_from s h; he_from s h1; he_from s h2].
Proof.
  intros (h0&h1&h2&E&E0&E1&E2&N) H. rewrite E in H |- *.
  assert (N1 : NoDup [he_from s h1; he_from s h2; he_from s h0]).
  { inversion N as [|? ? a N']; subst. inversion N' as [|? ? b N'']; subst. inversion N'' as [|? ? d _]; subst.
    simpl in a, b, d. repeat constructor; simpl; intuition congruence. }
  assert (N2 : NoDup [he_from s h2; he_from s h0; he_from s h1]).
  { inversion N as [|? ? a N']; subst. inversion N' as [|? ? b N'']; subst. inversion N'' as [|? ? d _]; subst.
    simpl in a, b, d. repeat constructor; simpl; intuition congruence. }
  destruct H as [<-|[<-|[<-|[]]]].
  - exists h1, h2. split; [left; reflexivity|]. auto.
  - exists h2, h0. split; [right; right; reflexivity|]. auto.
  - exists h0, h1. split; [right; left; reflexivity|]. auto.
Qed.

(* the same, with the index the constructor computes: the first halfedge leaving [a] (or index 0) *)
Definition rot3i {T} (i : nat) (l : list T) (p q r : T) : Prop :=
  (i = 0 /\ l = [p; q; r]) \/ (i = 1 /\ l = [r; p; q]) \/ (i = 2 /\ l = [q; r; p]).

Lemma rot3i_rot3 {T} i (l : list T) p q r : rot3i i l p q r -> rot3 l p q r.
Proof. intros [[_ ->]|[[_ ->]|[_ ->]]]; [left | right; right | right; left]; reflexivity. Qed.

Lemma tri_ok_start s hf a : tri_ok s hf -> In a (hf_vertices s hf) ->
  exists i h h1 h2, rot3i i (halfface s hf) h h1 h2 /\
    find_index (fun x => he_from s x =? a) (halfface s hf) = Some i /\
    he_from s h = a /\ he_to s h = he_from s h1 /\ he_to s h1 = he_from s h2 /\ he_to s h2 = he_from s h /\
    NoDup [he_from s h; he_from s h1; he_from s h2].
Proof.
  intros (h0&h1&h2&E&E0&E1&E2&N) H. unfold hf_vertices in H. rewrite E in H |- *.
  inversion N as [|? ? a0 N']; subst. inversion N' as [|? ? b0 N'']; subst. inversion N'' as [|? ? d0 _]; subst.
  simpl in a0, b0, d0. unfold find_index. cbn [find_index_from].
  destruct H as [<-|[<-|[<-|[]]]].
  - exists 0, h0, h1, h2. rewrite Nat.eqb_refl. split; [left; auto|]. repeat split; auto.
  - exists 1, h1, h2, h0.
    destruct (Nat.eqb_spec (he_from s h0) (he_from s h1)) as [F|_]; [exfalso; intuition congruence|].
    rewrite Nat.eqb_refl. split; [right; left; auto|]. repeat split; auto.
    repeat constructor; simpl; intuition congruence.
  - exists 2, h2, h0, h1.
    destruct (Nat.eqb_spec (he_from s h0) (he_from s h2)) as [F|_]; [exfalso; intuition congruence|].
    destruct (Nat.eqb_spec (he_from s h1) (he_from s h2)) as [F|_]; [exfalso; intuition congruence|].
    rewrite Nat.eqb_refl. split; [right; right; auto|]. repeat split; auto.
    repeat constructor; simpl; intuition congruence.
Qed.

(* the default start: index 0 *)
Lemma tri_ok_first s hf : tri_ok s hf ->
  exists h h1 h2, rot3i 0 (halfface s hf) h h1 h2 /\
    he_to s h = he_from s h1 /\ he_to s h1 = he_from s h2 /\ he_to s h2 = he_from s h /\
    NoDup [he_from s h; he_from s h1; he_from s h2].
Proof.
  intros (h0&h1&h2&E&E0&E1&E2&N). exists h0, h1, h2. rewrite E. split; [left; auto|]. auto.
Qed.

(* both ends of a halfedge of a closed triangle are vertices of the triangle *)
Lemma tri_ok_ends_in s hf h : tri_ok s hf -> In h (halfface s hf) ->
  In (he_from s h) (hf_vertices s hf) /\ In (he_to s h) (hf_vertices s hf).
Proof.
  intros T H. destruct (tri_ok_at s hf h T H) as (h1&h2&R&E0&_&_&_).
  unfold hf_vertices. split.
  - apply in_map. exact H.
  - rewrite E0. apply in_map. apply (rot3_In _ _ _ _ _ R). right; left; reflexivity.
Qed.

(* a halfedge is determined... not by its ends, but different ends separate halfedges *)
Lemma he_neq_from s h k : he_from s h <> he_from s k -> h <> k.
Proof. intros N E. subst. apply N. reflexivity. Qed.
Lemma he_neq_to s h k : he_to s h <> he_to s k -> h <> k.
Proof. intros N E. subst. apply N. reflexivity. Qed.
