(* Mesh/TH2CollapseFold.v -- C15, collapse_edge: the loop over the cells of the star of a, and the loop that re-adds the
   rebuilt tets after the vertex a has been deleted. *)
From Coq Require Import ZArith Lia Bool Arith List ZifyNat ZifyBool.
From OVM Require Import Base.ListX Base.ListLemmas Kernel.State Kernel.Ops Kernel.Mirror Kernel.Recompute Kernel.Closure Kernel.Sizes
                        Kernel.ExactInv Kernel.ExactRun Kernel.DeferredDelete Kernel2.ReorderExact Kernel2.ExactBase Kernel2.ExactHistory
                        Kernel2.ExactDelCell Mesh.TetModel Mesh.TetProofs Mesh.TH2CollapseBase Mesh.TH2CollapseLoop.
Import ListNotations.
Ltac Zify.zify_post_hook ::= Z.div_mod_to_equations.
Local Open Scope nat_scope.

Lemma flag_all_cons c R l : flag_all (c :: R) l = flag_all R (flag_all [c] l).
Proof. reflexivity. Qed.

Lemma flag_all_length L : forall l, length (flag_all L l) = length l.
Proof. unfold flag_all. induction L as [|x L IH]; intros l; [reflexivity|]. cbn [fold_left]. rewrite IH. apply upd_length. Qed.

Section Fold.
  Variables (a b : nat) (s0 : mesh) (coll : list nat).
  Hypothesis Hab : a <> b.
  Hypothesis L0 : L1 a b s0 s0.

  Definition keepb (c : nat) : bool := negb (memb c coll).

  (* the rebuilt cell [nhfs] is the cell ch of s0, halfface by halfface, on the substituted vertices in the same cyclic order *)
  Definition cell_img (t : mesh) (ch : nat) (nhfs : list nat) : Prop :=
    exists n0 n1 n2 n3 c0 c1 c2 c3, nhfs = [n0; n1; n2; n3] /\ cell_at s0 ch = [c0; c1; c2; c3] /\
      img a b t (hf_vertices s0 c0) n0 /\ img a b t (hf_vertices s0 c1) n1 /\
      img a b t (hf_vertices s0 c2) n2 /\ img a b t (hf_vertices s0 c3) n3.

  Lemma cell_img_grow t t' ch n : L1 a b s0 t -> grow t t' -> cell_img t ch n -> cell_img t' ch n.
  Proof.
    intros L G (n0 & n1 & n2 & n3 & c0 & c1 & c2 & c3 & E1 & E2 & i0 & i1 & i2 & i3).
    exists n0, n1, n2, n3, c0, c1, c2, c3. split; [exact E1|]. split; [exact E2|].
    split; [exact (img_grow a b s0 Hab t t' _ n0 L G i0)|]. split; [exact (img_grow a b s0 Hab t t' _ n1 L G i1)|].
    split; [exact (img_grow a b s0 Hab t t' _ n2 L G i2) | exact (img_grow a b s0 Hab t t' _ n3 L G i3)].
  Qed.

  Definition news_ok (t : mesh) (R : list nat) (news : list (nat * list nat)) : Prop :=
    Forall2 (fun ch n => fst n = ch /\ cell_img t ch (snd n)) R news.

  Lemma news_ok_grow t t' R news : L1 a b s0 t -> grow t t' -> news_ok t R news -> news_ok t' R news.
  Proof.
    intros L G H. induction H as [|ch n R news [E I] _ IH]; constructor; [|exact IH].
    split; [exact E | exact (cell_img_grow t t' ch (snd n) L G I)].
  Qed.

  (* what is asked of a cell that is rebuilt: every halfface on three distinct vertices, none of them b *)
  Definition cell_ok (c : nat) : Prop := forall hf, In hf (cell_at s0 c) -> tri_ok b s0 hf.

  Lemma four (l : list nat) : length l = 4 -> exists c0 c1 c2 c3, l = [c0; c1; c2; c3].
  Proof. destruct l as [|c0 [|c1 [|c2 [|c3 [|]]]]]; try discriminate. intros _. exists c0, c1, c2, c3. reflexivity. Qed.

  (* one more cell, from a state t of the loop *)
  Lemma cell_step t news ch : L1 a b s0 t -> ch < nc s0 -> c_deleted s0 ch = false -> c_deleted t ch = false ->
    memb ch coll = false -> cell_ok ch ->
    exists t' nhfs, collapse_cell a b coll (Some (t, news)) ch = Some (t', news ++ [(ch, nhfs)]) /\
      L1 a b s0 t' /\ grow t t' /\ cdel t' = flag_all [ch] (cdel t) /\ cell_img t' ch nhfs.
  Proof.
    intros L Hc D0 D M OK. pose proof L as (G0 & _). pose proof L0 as (_ & _ & _ & _ & K0 & _).
    destruct (four (cell_at s0 ch) (proj2 (kshape_live 3 4 s0 K0) ch Hc)) as (c0 & c1 & c2 & c3 & EC).
    assert (Hc' : ch < nc t) by (rewrite (grow_nc s0 t G0); exact Hc).
    assert (EC' : cell_at t ch = [c0; c1; c2; c3]) by (rewrite (grow_cell_at s0 t G0); exact EC).
    assert (TR : forall hf, In hf [c0; c1; c2; c3] -> tri_ok b t hf /\ hf_vertices t hf = hf_vertices s0 hf).
    { intros hf Hin. rewrite <- EC in Hin. destruct (live_cell_hf a b s0 s0 ch hf L0 Hc D0 Hin) as [R D'].
      destruct (tri_ok_grow a b s0 Hab s0 t hf L0 G0 R D' (OK hf Hin)) as (T & _ & _ & E). split; assumption. }
    destruct (collapse_cell_spec a b s0 Hab t coll news ch c0 c1 c2 c3 L Hc' D M EC' (fun hf H => proj1 (TR hf H)))
      as (t' & n0 & n1 & n2 & n3 & Q & L' & G & CD & i0 & i1 & i2 & i3).
    exists t', [n0; n1; n2; n3]. split; [exact Q|]. split; [exact L'|]. split; [exact G|]. split; [exact CD|].
    exists n0, n1, n2, n3, c0, c1, c2, c3. split; [reflexivity|]. split; [exact EC|].
    rewrite (proj2 (TR c0 ltac:(left; reflexivity))) in i0. rewrite (proj2 (TR c1 ltac:(right; left; reflexivity))) in i1.
    rewrite (proj2 (TR c2 ltac:(right; right; left; reflexivity))) in i2. rewrite (proj2 (TR c3 ltac:(right; right; right; left; reflexivity))) in i3.
    auto.
  Qed.

  Lemma c_deleted_flag_other t t' ch c : cdel t' = flag_all [ch] (cdel t) -> c <> ch -> c_deleted t' c = c_deleted t c.
  Proof.
    intros E N. unfold c_deleted. rewrite E. unfold flag_all. cbn [fold_left].
    apply nth_upd_neq. intros E'. apply N. symmetry. exact E'.
  Qed.

  (* the whole loop *)
  Lemma fold_cells_spec : forall cs t news, L1 a b s0 t -> NoDup cs ->
    (forall c, In c cs -> c < nc s0 /\ c_deleted s0 c = false /\ c_deleted t c = false) ->
    (forall c, In c cs -> memb c coll = false -> cell_ok c) ->
    exists t' news', fold_left (collapse_cell a b coll) cs (Some (t, news)) = Some (t', news ++ news') /\
      L1 a b s0 t' /\ grow t t' /\ cdel t' = flag_all (filter keepb cs) (cdel t) /\ news_ok t' (filter keepb cs) news'.
  Proof.
    induction cs as [|c cs IH]; intros t news L ND LV OK.
    - exists t, []. cbn [fold_left filter]. rewrite app_nil_r. split; [reflexivity|]. split; [exact L|]. split; [apply grow_refl|].
      split; [reflexivity | constructor].
    - inversion ND as [|? ? Nin ND']; subst. cbn [fold_left filter].
      destruct (LV c (or_introl eq_refl)) as (Hc & D0 & D).
      assert (KB : keepb c = negb (memb c coll)) by reflexivity.
      destruct (memb c coll) eqn:M; cbn [negb] in KB; rewrite KB.
      + (* a cell that contains the collapsing edge: skipped *)
        assert (Q : collapse_cell a b coll (Some (t, news)) c = Some (t, news)) by (unfold collapse_cell, bind; rewrite M; reflexivity).
        rewrite Q. apply (IH t news L ND'); [intros c' H; apply LV; right; exact H | intros c' H; apply OK; right; exact H].
      + destruct (cell_step t news c L Hc D0 D M (OK c (or_introl eq_refl) M)) as (t1 & nhfs & Q & L' & G & CD & CI).
        rewrite Q.
        destruct (IH t1 (news ++ [(c, nhfs)]) L' ND') as (t' & news' & Q' & L'' & G' & CD' & NO).
        { intros c' H. destruct (LV c' (or_intror H)) as (x & y & z). split; [exact x|]. split; [exact y|].
          rewrite (c_deleted_flag_other t t1 c c' CD); [exact z|]. intros E. subst c'. exact (Nin H). }
        { intros c' H. apply OK. right. exact H. }
        exists t', ((c, nhfs) :: news'). split; [rewrite Q', <- app_assoc; reflexivity|]. split; [exact L''|].
        split; [exact (grow_trans t t1 t' G G')|]. split; [rewrite CD', CD; reflexivity|].
        constructor; [|exact NO]. split; [reflexivity|]. exact (cell_img_grow t1 t' c nhfs L' G' CI).
  Qed.
End Fold.

(* ================================================================== the re-adding loop *)

Lemma nf_reorder_edges es : forall s, nf (reorder_edges es s) = nf s.
Proof. intros s. unfold nf. destruct (fc_reorder_edges es s) as (f & _). rewrite f. reflexivity. Qed.

(* the definitions after an unchecked add_cell *)
Lemma append_cell_defs s hfs : let s' := fst (append_cell s hfs) in
  nv s' = nv s /\ edges s' = edges s /\ faces s' = faces s /\ cells s' = cells s ++ [hfs] /\
  vdel s' = vdel s /\ edel s' = edel s /\ fdel s' = fdel s /\ cdel s' = cdel s ++ [false] /\ deferred s' = deferred s.
Proof.
  cbv zeta. unfold append_cell. cbv zeta.
  match goal with |- context [if fbu ?x then _ else _] => destruct (fbu x) end; cbn [fst]; [|repeat split; reflexivity].
  match goal with |- context [if ebu ?x then reorder_edges ?es ?x else ?x] => destruct (ebu x); [|repeat split; reflexivity];
    destruct (Kernel2.ExactBase.reorder_edges_frame2 es x) as (y & E & _); rewrite E end.
  repeat split; reflexivity.
Qed.

Definition same_defs (s t : mesh) : Prop :=
  nv t = nv s /\ edges t = edges s /\ faces t = faces s /\ vdel t = vdel s /\ edel t = edel s /\ fdel t = fdel s /\ deferred t = deferred s.

Lemma same_defs_refl s : same_defs s s. Proof. repeat split; reflexivity. Qed.
Lemma same_defs_trans s t u : same_defs s t -> same_defs t u -> same_defs s u.
Proof. intros (a1&a2&a3&a4&a5&a6&a7) (b1&b2&b3&b4&b5&b6&b7). repeat split; congruence. Qed.

Lemma same_defs_hf_vertices s t hf : same_defs s t -> hf_vertices t hf = hf_vertices s hf.
Proof. intros (_ & E & F & _). apply hf_vertices_same; assumption. Qed.
Lemma same_defs_f_deleted s t f : same_defs s t -> f_deleted t f = f_deleted s f.
Proof. intros (_ & _ & _ & _ & _ & F & _). unfold f_deleted. rewrite F. reflexivity. Qed.
Lemma same_defs_nf s t : same_defs s t -> nf t = nf s.
Proof. intros (_ & _ & F & _). unfold nf. rewrite F. reflexivity. Qed.

(* the halfface -> cell cache after an unchecked add_cell *)
Lemma inc_cell_append_cell s hfs : fbu s = true ->
  inc_cell (fst (append_cell s hfs)) = fold_left (fun l hf => upd hf (Some (nc s)) l) hfs (inc_cell s) /\
  fbu (fst (append_cell s hfs)) = true.
Proof.
  intros F. unfold append_cell. cbv zeta.
  change (fbu (resize_cprops (S (nc s)) (set_cdel (cdel s ++ [false]) (set_cells (cells s ++ [hfs]) s)))) with (fbu s). rewrite F.
  match goal with |- context [if ebu ?x then reorder_edges ?es ?x else ?x] => destruct (ebu x); [|split; [reflexivity | exact F]];
    destruct (Kernel2.ExactBase.reorder_edges_frame2 es x) as (y & E & _); rewrite E end.
  split; [reflexivity | exact F].
Qed.

Fixpoint inc_after (news : list (nat * list nat)) (l : list (option nat)) (c : nat) : list (option nat) :=
  match news with
  | [] => l
  | n :: t => inc_after t (fold_left (fun l hf => upd hf (Some c) l) (snd n) l) (S c)
  end.

(* one re-added cell: four halffaces on (stored) triangles *)
Lemma readd_step s n : tet_shape s -> length (snd n) = 4 -> (forall hf, In hf (snd n) -> hf / 2 < nf s) ->
  exists s', collapse_readd (Some s) n = Some s' /\ tet_shape s' /\ same_defs s s' /\
             cells s' = cells s ++ [snd n] /\ cdel s' = cdel s ++ [false] /\
             (fbu s = true -> fbu s' = true /\ inc_cell s' = fold_left (fun l hf => upd hf (Some (nc s)) l) (snd n) (inc_cell s)).
Proof.
  intros K L R. unfold collapse_readd, bind, tet_add_cell. rewrite L. cbn [Nat.eqb negb].
  assert (F3 : forallb (fun hf => length (face_at s (hf / 2)) =? 3) (snd n) = true).
  { apply forallb_forall. intros hf Hin. apply Nat.eqb_eq. apply (proj1 (kshape_live 3 4 s K)). apply R. exact Hin. }
  rewrite F3. cbn [negb andb]. unfold add_cell. cbn [andb].
  pose proof (append_cell_defs s (snd n)) as V. cbv zeta in V.
  pose proof (inc_cell_append_cell s (snd n)) as IC.
  pose proof (kshape_add_cell 3 4 s (snd n) false K L) as K'. unfold add_cell in K'. cbn [andb] in K'.
  destruct (append_cell s (snd n)) as [s1 c]. cbn [fst] in *.
  destruct V as (v1 & v2 & v3 & v4 & v5 & v6 & v7 & v8 & v9).
  exists (swap_prop_elems KC (fst n) c s1). split; [reflexivity|].
  split; [destruct K' as [A B]; split; assumption|]. split; [repeat split; assumption|]. split; [assumption|]. split; [assumption|].
  intros F. destruct (IC F) as [I1 I2]. split; [exact I2 | exact I1].
Qed.

Lemma fold_readd_spec : forall news s, tet_shape s ->
  (forall n, In n news -> length (snd n) = 4 /\ forall hf, In hf (snd n) -> hf / 2 < nf s) ->
  exists s', fold_left collapse_readd news (Some s) = Some s' /\ tet_shape s' /\ same_defs s s' /\
             cells s' = cells s ++ map snd news /\ cdel s' = cdel s ++ repeat false (length news) /\
             (fbu s = true -> inc_cell s' = inc_after news (inc_cell s) (nc s)).
Proof.
  induction news as [|n news IH]; intros s K H.
  - exists s. cbn [fold_left map length repeat inc_after]. rewrite !app_nil_r. split; [reflexivity|]. split; [exact K|]. split; [apply same_defs_refl|].
    split; [reflexivity|]. split; reflexivity.
  - cbn [fold_left]. destruct (H n (or_introl eq_refl)) as [L R].
    destruct (readd_step s n K L R) as (s1 & Q & K1 & SD & C1 & D1 & I1). rewrite Q.
    destruct (IH s1 K1) as (s' & Q' & K' & SD' & C' & D' & I').
    { intros m Hm. destruct (H m (or_intror Hm)) as [Lm Rm]. split; [exact Lm|]. intros hf Hin. rewrite (same_defs_nf s s1 SD). apply Rm. exact Hin. }
    exists s'. split; [exact Q'|]. split; [exact K'|]. split; [exact (same_defs_trans s s1 s' SD SD')|].
    split; [rewrite C', C1, <- app_assoc; reflexivity|]. split; [rewrite D', D1, <- app_assoc; reflexivity|].
    intros F. destruct (I1 F) as [F1 E1]. rewrite (I' F1), E1. cbn [inc_after]. unfold nc. rewrite C1, app_length. cbn [length].
    replace (length (cells s) + 1) with (S (length (cells s))) by lia. reflexivity.
Qed.

Lemma NoDup_app_parts {A} (l1 l2 : list A) : NoDup (l1 ++ l2) -> NoDup l1 /\ NoDup l2 /\ (forall x, In x l1 -> ~ In x l2).
Proof.
  induction l1 as [|x l1 IH]; intros H; [split; [constructor|split; [exact H|intros x []]]|].
  cbn [app] in H. inversion H as [|? ? Nin ND]; subst. destruct (IH ND) as (A1 & A2 & A3).
  split; [constructor; [intros I; apply Nin; apply in_or_app; left; exact I | exact A1]|]. split; [exact A2|].
  intros y [<-|Hy]; [intros I; apply Nin; apply in_or_app; right; exact I | apply A3; exact Hy].
Qed.

(* the cache entry of a halfface of the k-th re-added cell that no later re-added cell uses *)
Lemma inc_after_length : forall news l c, length (inc_after news l c) = length l.
Proof.
  induction news as [|n news IH]; intros l c; [reflexivity|]. cbn [inc_after]. rewrite IH. apply Kernel2.ExactAddCell.length_fold_upd.
Qed.

Lemma inc_after_other : forall news l c hf, (forall n, In n news -> ~ In hf (snd n)) -> nth hf (inc_after news l c) None = nth hf l None.
Proof.
  induction news as [|n news IH]; intros l c hf H; [reflexivity|]. cbn [inc_after].
  rewrite IH by (intros m Hm; apply H; right; exact Hm). rewrite Kernel2.ExactAddCell.nth_fold_upd.
  destruct (memb hf (snd n)) eqn:M; [|reflexivity]. apply memb_In in M. exfalso. exact (H n (or_introl eq_refl) M).
Qed.

Lemma inc_after_nth : forall news l c k hf, NoDup (concat (map snd news)) -> k < length news -> In hf (snd (nth k news (0, []))) ->
  hf < length l -> nth hf (inc_after news l c) None = Some (c + k).
Proof.
  induction news as [|n news IH]; intros l c k hf ND Hk Hin Hl; [cbn in Hk; lia|].
  cbn [map concat] in ND. apply NoDup_app_parts in ND. destruct ND as (ND1 & ND2 & DJ).
  cbn [inc_after]. destruct k as [|k].
  - cbn [nth] in Hin. rewrite inc_after_other.
    + rewrite Kernel2.ExactAddCell.nth_fold_upd. replace (memb hf (snd n)) with true by (symmetry; apply memb_In; exact Hin).
      replace (hf <? length l) with true by (symmetry; apply Nat.ltb_lt; exact Hl). cbn [andb]. f_equal. lia.
    + intros m Hm Hhf. apply (DJ hf Hin). apply in_concat. exists (snd m). split; [apply in_map; exact Hm | exact Hhf].
  - cbn [nth] in Hin. cbn [length] in Hk. rewrite (IH _ (S c) k hf ND2 ltac:(lia) Hin).
    + f_equal. lia.
    + rewrite Kernel2.ExactAddCell.length_fold_upd. exact Hl.
Qed.
