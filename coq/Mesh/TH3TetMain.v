(* Mesh/TH3TetMain.v -- C15: add_cell(const std::vector<VertexHandle>&, bool) of the tet kernel creates well-formed
   tetrahedra, and get_cell_vertices of the new cell lists the first face (v0,v1,v2) in its STORED rotation, then v3.

   Hypotheses (each necessary, see Mesh/TH3TetRefuted.v):
     cre_inv s     exact caches, every live face a closed loop on live halfedges, no parallel edges (Mesh/TH3Base.v)
     tet_shape s   every face has three halfedges: find_halfface(v0,v1,v2) reads the halfedges v0->v1 and v1->v2 only
     NoDup [v0;v1;v2;v3], all below nv s
   Main theorems:
     tet_add_cell_v_eq          the call is: four find-or-create steps, then the two tests, then the unchecked add_cell
     tet_add_cell_v_wf          every accepted call (checked or not): the new cell is nc s; tet_cell_ok_b, tet_cell_inc_b, tet_wf
     tet_add_cell_v_order       the vertex order: a found first face decides the starting vertex
     tet_add_cell_v_unchecked_accepted / tet_add_cell_v_checked_accepted_iff
     tet_add_cell_v_queries     the query contracts of Mesh/TetProofs.v instantiated on the new cell
   Proofs only. *)
From Coq Require Import ZArith Lia Bool Arith List ZifyNat ZifyBool.
From OVM Require Import Base.ListX Base.ListLemmas Kernel.State Kernel.Ops Kernel.Mirror Kernel.Recompute Kernel.Closure Kernel.CellCheck
                        Kernel.Construct Kernel.ExactInv Kernel.ExactRun Kernel2.ExactAddCell
                        Mesh.TetModel Mesh.TetProofs Mesh.HexModel Mesh.HexProofs Mesh.TH2CollapseBase Mesh.TH2CollapseLoop Mesh.TH2CollapseFold
                        Mesh.TH2HexChecked Mesh.TH2HexEight Mesh.TH2TopoWf Mesh.TH3Base Mesh.TH3TetFound Mesh.TH3TetCell.
Import ListNotations.
Ltac Zify.zify_post_hook ::= Z.div_mod_to_equations.
Local Open Scope nat_scope.

Definition has_cell (s : mesh) (hf : nat) : bool := match cell_of s hf with Some _ => true | None => false end.

(* the part of add_cell(vertices) after the four faces *)
Definition finish_cell_v (s4 : mesh) (hfs : list nat) (chk : bool) : mesh * option nat :=
  if chk && negb (closed_by_sets s4 hfs) then (s4, None)
  else if chk && fbu s4 && existsb (has_cell s4) hfs then (s4, None)
  else add_cell s4 hfs false.

(* was the halfface found (Some) or is it to be created (None) *)
Definition found_first (s : mesh) (v0 v1 v2 : nat) : option nat := find_halfface_vs s v0 v1 v2.

(* ================================================================== 1. the four find-or-create steps *)

Lemma four_faces s v0 v1 v2 v3 : cre_inv s -> tet_shape s -> NoDup [v0; v1; v2; v3] -> (forall v, In v [v0; v1; v2; v3] -> v < nv s) ->
  exists s4 hf0 hf1 hf2 hf3,
    (forall chk, full_bu s = true -> tet_add_cell_v s [v0; v1; v2; v3] chk = finish_cell_v s4 [hf0; hf1; hf2; hf3] chk) /\
    grow s s4 /\ cre_inv s4 /\ tet_shape s4 /\ cdel s4 = cdel s /\
    tri_on s4 hf0 v0 v1 v2 /\ tri_on s4 hf1 v0 v2 v3 /\ tri_on s4 hf2 v0 v3 v1 /\ tri_on s4 hf3 v1 v3 v2 /\
    match find_halfface_vs s v0 v1 v2 with
    | Some hf => hf0 = hf /\ hf_vertices s4 hf0 = hf_vertices s hf
    | None => hf0 = 2 * nf s /\ hf_vertices s4 hf0 = [v0; v1; v2]
    end.
Proof.
  intros C K ND R.
  assert (R0 : v0 < nv s) by (apply R; cbn [In]; auto). assert (R1 : v1 < nv s) by (apply R; cbn [In]; auto).
  assert (R2 : v2 < nv s) by (apply R; cbn [In]; auto). assert (R3 : v3 < nv s) by (apply R; cbn [In]; auto 6).
  destruct (nodup4_neq v0 v1 v2 v3 ND) as (n01 & n02 & n03 & n12 & n13 & n23).
  assert (n31 : v3 <> v1) by congruence. assert (n32 : v3 <> v2) by congruence.
  pose proof (find_or_add_spec s v0 v1 v2 C K R0 R1 R2 n01 n12 n02) as S1. cbv zeta in S1.
  destruct (find_or_add_face_v s v0 v1 v2) as [s1 hf0] eqn:E1. cbn [fst snd] in S1. destruct S1 as (G1 & C1 & K1 & T1 & F1).
  pose proof (grow_nv s s1 G1) as NV1.
  pose proof (find_or_add_spec s1 v0 v2 v3 C1 K1 ltac:(lia) ltac:(lia) ltac:(lia) n02 n23 n03) as S2. cbv zeta in S2.
  destruct (find_or_add_face_v s1 v0 v2 v3) as [s2 hf1] eqn:E2. cbn [fst snd] in S2. destruct S2 as (G2 & C2 & K2 & T2 & _).
  pose proof (grow_nv s1 s2 G2) as NV2.
  pose proof (find_or_add_spec s2 v0 v3 v1 C2 K2 ltac:(lia) ltac:(lia) ltac:(lia) n03 n31 n01) as S3. cbv zeta in S3.
  destruct (find_or_add_face_v s2 v0 v3 v1) as [s3 hf2] eqn:E3. cbn [fst snd] in S3. destruct S3 as (G3 & C3 & K3 & T3 & _).
  pose proof (grow_nv s2 s3 G3) as NV3.
  pose proof (find_or_add_spec s3 v1 v3 v2 C3 K3 ltac:(lia) ltac:(lia) ltac:(lia) n13 n32 n12) as S4. cbv zeta in S4.
  destruct (find_or_add_face_v s3 v1 v3 v2) as [s4 hf3] eqn:E4. cbn [fst snd] in S4. destruct S4 as (G4 & C4 & K4 & T4 & _).
  pose proof (grow_trans s1 s2 s4 G2 (grow_trans s2 s3 s4 G3 G4)) as G14.
  exists s4, hf0, hf1, hf2, hf3. split.
  { intros chk FB. unfold tet_add_cell_v, finish_cell_v. rewrite FB. cbn [negb]. rewrite E1. cbv beta iota. rewrite E2. cbv beta iota.
    rewrite E3. cbv beta iota. rewrite E4. cbv beta iota. reflexivity. }
  split; [exact (grow_trans s s1 s4 G1 G14)|]. split; [exact C4|]. split; [exact K4|].
  split.
  { pose proof (cdel_find_or_add s v0 v1 v2) as D1. rewrite E1 in D1. pose proof (cdel_find_or_add s1 v0 v2 v3) as D2. rewrite E2 in D2.
    pose proof (cdel_find_or_add s2 v0 v3 v1) as D3. rewrite E3 in D3. pose proof (cdel_find_or_add s3 v1 v3 v2) as D4. rewrite E4 in D4.
    cbn [fst] in *. congruence. }
  split; [exact (tri_on_grow s1 s4 hf0 _ _ _ C1 G14 T1)|].
  split; [exact (tri_on_grow s2 s4 hf1 _ _ _ C2 (grow_trans s2 s3 s4 G3 G4) T2)|].
  split; [exact (tri_on_grow s3 s4 hf2 _ _ _ C3 G4 T3)|]. split; [exact T4|].
  pose proof T1 as (r1 & d1 & _). destruct (live_hf_grow s1 s4 hf0 (cre_bu s1 C1) G14 r1 d1) as (HV & _).
  destruct (find_halfface_vs s v0 v1 v2) as [hf|].
  - injection F1 as <- <-. split; [reflexivity | exact HV].
  - destruct F1 as (Eh & _ & V1). split; [exact Eh|]. rewrite HV. exact V1.
Qed.

Lemma tet_add_cell_v_full_bu s v0 v1 v2 v3 chk s' c : tet_add_cell_v s [v0; v1; v2; v3] chk = (s', Some c) -> full_bu s = true.
Proof. unfold tet_add_cell_v. destruct (full_bu s); [reflexivity|]. cbn [negb]. discriminate. Qed.

Lemma finish_accepted s4 hfs chk s' c : finish_cell_v s4 hfs chk = (s', Some c) -> add_cell s4 hfs false = (s', Some c).
Proof.
  unfold finish_cell_v. destruct (chk && negb (closed_by_sets s4 hfs)); [discriminate|].
  destruct (chk && fbu s4 && existsb (has_cell s4) hfs); [discriminate|]. tauto.
Qed.

(* ================================================================== 2. the new cell is a well-formed tetrahedron *)

(* what an accepted creation from the vertices v0..v3 leaves: the four triangles, found or created, in a state s4 grown from s, stored
   as the cell c = nc s of s' *)
Definition created_at (s : mesh) (v0 v1 v2 v3 : nat) (s' : mesh) (c : nat) : Prop :=
  exists s4 hf0 hf1 hf2 hf3,
    grow s s4 /\ cre_inv s4 /\ tet_shape s4 /\
    tri_on s4 hf0 v0 v1 v2 /\ tri_on s4 hf1 v0 v2 v3 /\ tri_on s4 hf2 v0 v3 v1 /\ tri_on s4 hf3 v1 v3 v2 /\
    match find_halfface_vs s v0 v1 v2 with
    | Some hf => hf0 = hf /\ hf_vertices s4 hf0 = hf_vertices s hf
    | None => hf0 = 2 * nf s /\ hf_vertices s4 hf0 = [v0; v1; v2]
    end /\
    c = nc s /\ nc s' = S (nc s) /\ cell_at s' c = [hf0; hf1; hf2; hf3] /\ faces s' = faces s4 /\ edges s' = edges s4 /\
    tet_wf s' c [hf0; hf1; hf2; hf3] [v0; v1; v2; v3] /\ tet_cell_ok s' c [hf0; hf1; hf2; hf3] /\
    tet_cell_ok_b s' c = true /\ tet_cell_inc_b s' c = true.

(* from the four triangles and the unchecked add_cell *)
Lemma created_at_intro s v0 v1 v2 v3 s4 hf0 hf1 hf2 hf3 s' c : cre_inv s -> NoDup [v0; v1; v2; v3] ->
  grow s s4 -> cre_inv s4 -> tet_shape s4 -> fbu s4 = true ->
  tri_on s4 hf0 v0 v1 v2 -> tri_on s4 hf1 v0 v2 v3 -> tri_on s4 hf2 v0 v3 v1 -> tri_on s4 hf3 v1 v3 v2 ->
  match find_halfface_vs s v0 v1 v2 with
  | Some hf => hf0 = hf /\ hf_vertices s4 hf0 = hf_vertices s hf
  | None => hf0 = 2 * nf s /\ hf_vertices s4 hf0 = [v0; v1; v2]
  end ->
  add_cell s4 [hf0; hf1; hf2; hf3] false = (s', Some c) -> created_at s v0 v1 v2 v3 s' c.
Proof.
  intros C ND G C4 K4 Fb T0 T1 T2 T3 F A.
  destruct (assembled_cell s4 v0 v1 v2 v3 hf0 hf1 hf2 hf3 C4 ND T0 T1 T2 T3 s' c Fb A) as (Ec & NC & CA & Fs & Es & WF & OK & OKb & INb).
  destruct (bu_lens s (cre_bu s C)) as [Le Lf]. pose proof (grow_nc s s4 G) as NC4.
  exists s4, hf0, hf1, hf2, hf3. repeat (split; [assumption|]). split; [congruence|]. split; [congruence|]. auto 10.
Qed.

Section Gen.
  Variables (s : mesh) (v0 v1 v2 v3 : nat) (s' : mesh) (c : nat).
  Hypothesis ND : NoDup [v0; v1; v2; v3].
  Hypothesis CR : created_at s v0 v1 v2 v3 s' c.

  Lemma created_wf :
    c = nc s /\ c < nc s' /\ nc s' = S (nc s) /\ tet_cell_ok_b s' c = true /\ tet_cell_inc_b s' c = true /\
    tet_wf s' c (cell_at s' c) [v0; v1; v2; v3] /\ nth_error (cells s') c = Some (cell_at s' c).
  Proof.
    destruct CR as (s4 & hf0 & hf1 & hf2 & hf3 & _ & _ & _ & _ & _ & _ & _ & _ & Ec & NC & CA & _ & _ & WF & _ & OKb & INb).
    split; [exact Ec|]. split; [lia|]. split; [exact NC|]. split; [exact OKb|]. split; [exact INb|]. rewrite CA. split; [exact WF|].
    exact (proj1 WF).
  Qed.

  Lemma created_order : exists x y z,
    TH2CollapseBase.rot3 [v0; v1; v2] [x; y; z] /\ hf_vertices s' (nth 0 (cell_at s' c) 0) = [x; y; z] /\ gcv_c s' c = Some [x; y; z; v3] /\
    match find_halfface_vs s v0 v1 v2 with
    | Some hf => nth 0 (cell_at s' c) 0 = hf /\ hf_vertices s hf = [x; y; z]
    | None => nth 0 (cell_at s' c) 0 = 2 * nf s /\ [x; y; z] = [v0; v1; v2]
    end.
  Proof.
    destruct CR as (s4 & hf0 & hf1 & hf2 & hf3 & _ & _ & _ & T0 & _ & _ & _ & F & _ & _ & CA & Fs & Es & WF & _).
    rewrite CA. cbn [nth]. pose proof (hf_vertices_same s4 s' hf0 Fs Es) as HV.
    pose proof (tri_on_vertices s4 hf0 v0 v1 v2 T0) as RT. rewrite <- HV in RT.
    destruct (gcv_hf_wf s' c _ _ WF hf0 ltac:(cbn [In]; auto)) as (x & y & z & w & E & [Aw Anw] & G).
    assert (W3 : w = v3).
    { rewrite E in RT. cbn [In] in Aw. destruct Aw as [<-|[<-|[<-|[<-|[]]]]]; [exfalso; apply Anw; rewrite E| exfalso; apply Anw; rewrite E
        | exfalso; apply Anw; rewrite E | reflexivity]; apply (rot3_In_iff v0 v1 v2 [x; y; z] _ RT); auto. }
    subst w. exists x, y, z. rewrite E in RT. split; [exact RT|]. split; [exact E|]. split.
    - rewrite (gcv_c_first s' c _ hf0 (proj1 WF) eq_refl). exact G.
    - destruct (find_halfface_vs s v0 v1 v2) as [hf|].
      + destruct F as [<- F]. split; [reflexivity|]. rewrite <- F, <- HV. exact E.
      + destruct F as [Eh F]. split; [exact Eh|]. rewrite <- E, HV. exact F.
  Qed.

  Lemma created_order_fresh : find_halfface_vs s v0 v1 v2 = None -> gcv_c s' c = Some [v0; v1; v2; v3].
  Proof.
    intros N. destruct created_order as (x & y & z & _ & _ & G & F). rewrite N in F. destruct F as [_ F].
    injection F as -> -> ->. exact G.
  Qed.

  Lemma created_order_found hf : find_halfface_vs s v0 v1 v2 = Some hf -> gcv_c s' c = Some (hf_vertices s hf ++ [v3]).
  Proof.
    intros N. destruct created_order as (x & y & z & _ & _ & G & F). rewrite N in F. destruct F as [_ F]. rewrite F. exact G.
  Qed.

  Lemma created_queries :
    (forall hf, In hf (cell_at s' c) -> exists x y z w, hf_vertices s' hf = [x; y; z] /\ In w [v0; v1; v2; v3] /\ ~ In w [x; y; z] /\
        gcv_hf s' hf = Some [x; y; z; w] /\ halfface_opposite_vertex s' hf = Some (Some w) /\
        vertex_opposite_halfface s' c w = Some (Some hf)) /\
    (forall v, In v [v0; v1; v2; v3] -> exists hf, In hf (cell_at s' c) /\ vertex_opposite_halfface s' c v = Some (Some hf) /\
        ~ In v (hf_vertices s' hf) /\ halfface_opposite_vertex s' hf = Some (Some v)) /\
    (exists x y z, gcv_c s' c = Some [x; y; z; v3] /\ NoDup [x; y; z; v3] /\
        (forall laps, tet_iter s' c laps = Some (concat (repeat [x; y; z; v3] laps))) /\
        gcv_c_v s' c x = Some [x; y; z; v3] /\ gcv_c_v s' c y = Some [y; z; x; v3] /\ gcv_c_v s' c z = Some [z; x; y; v3] /\
        gcv_c_v s' c v3 = Some [v3; y; x; z]).
  Proof.
    destruct created_wf as (_ & _ & _ & _ & _ & WF & _). split; [|split].
    - intros hf Hhf. destruct (gcv_hf_wf s' c _ _ WF hf Hhf) as (x & y & z & w & E & [Aw Anw] & G).
      exists x, y, z, w. split; [exact E|]. split; [exact Aw|]. split; [rewrite <- E; exact Anw|]. split; [exact G|].
      destruct (hov_wf s' c _ _ WF hf Hhf) as (w' & A' & HO).
      assert (w' = w) by (apply (apex_fun s' c _ _ WF hf); [exact Hhf | exact A' | split; assumption]). subst w'.
      split; [exact HO|]. exact (voh_of_apex s' c _ _ WF hf w Hhf (conj Aw Anw)).
    - intros v Hv. exact (hov_voh_inverse s' c _ _ WF v Hv).
    - destruct created_order as (x & y & z & RT & _ & G & _). exists x, y, z. split; [exact G|].
      assert (N4 : NoDup [x; y; z; v3]).
      { destruct (nodup4_neq v0 v1 v2 v3 ND) as (n01 & n02 & n03 & n12 & n13 & n23).
        cbn [TH2CollapseBase.rot3] in RT. destruct RT as [RT|[RT|RT]]; injection RT as -> -> ->; repeat constructor; cbn [In]; intuition congruence. }
      split; [exact N4|]. split; [intros laps; exact (tet_iter_spec s' c x y z v3 laps G)|].
      destruct (gcv_c_v_spec s' c x y z v3 x G N4) as (Q1 & _). destruct (gcv_c_v_spec s' c x y z v3 y G N4) as (_ & Q2 & _).
      destruct (gcv_c_v_spec s' c x y z v3 z G N4) as (_ & _ & Q3 & _). destruct (gcv_c_v_spec s' c x y z v3 v3 G N4) as (_ & _ & _ & Q4 & _).
      auto.
  Qed.
End Gen.

Section Created.
  Variables (s : mesh) (v0 v1 v2 v3 : nat) (chk : bool) (s' : mesh) (c : nat).
  Hypothesis C : cre_inv s.
  Hypothesis K : tet_shape s.
  Hypothesis ND : NoDup [v0; v1; v2; v3].
  Hypothesis R : forall v, In v [v0; v1; v2; v3] -> v < nv s.
  Hypothesis A : tet_add_cell_v s [v0; v1; v2; v3] chk = (s', Some c).

  (* everything about the accepted call *)
  Lemma created_core : created_at s v0 v1 v2 v3 s' c.
  Proof.
    pose proof (tet_add_cell_v_full_bu s v0 v1 v2 v3 chk s' c A) as FB.
    destruct (four_faces s v0 v1 v2 v3 C K ND R) as (s4 & hf0 & hf1 & hf2 & hf3 & Q & G & C4 & K4 & _ & T0 & T1 & T2 & T3 & F).
    rewrite (Q chk FB) in A. apply finish_accepted in A.
    assert (Fb : fbu s4 = true).
    { rewrite <- (grow_full_bu s s4 G) in FB. exact (proj2 (proj2 (full_bu_flags s4 FB))). }
    exact (created_at_intro s v0 v1 v2 v3 s4 hf0 hf1 hf2 hf3 s' c C ND G C4 K4 Fb T0 T1 T2 T3 F A).
  Qed.

  Theorem tet_add_cell_v_wf :
    c = nc s /\ c < nc s' /\ nc s' = S (nc s) /\ tet_cell_ok_b s' c = true /\ tet_cell_inc_b s' c = true /\
    tet_wf s' c (cell_at s' c) [v0; v1; v2; v3] /\ nth_error (cells s') c = Some (cell_at s' c).
  Proof. exact (created_wf s v0 v1 v2 v3 s' c created_core). Qed.

  (* the vertex order *)
  Theorem tet_add_cell_v_order : exists x y z,
    TH2CollapseBase.rot3 [v0; v1; v2] [x; y; z] /\ hf_vertices s' (nth 0 (cell_at s' c) 0) = [x; y; z] /\ gcv_c s' c = Some [x; y; z; v3] /\
    match find_halfface_vs s v0 v1 v2 with
    | Some hf => nth 0 (cell_at s' c) 0 = hf /\ hf_vertices s hf = [x; y; z]
    | None => nth 0 (cell_at s' c) 0 = 2 * nf s /\ [x; y; z] = [v0; v1; v2]
    end.
  Proof. exact (created_order s v0 v1 v2 v3 s' c created_core). Qed.

  (* a created first face: exactly the documented order *)
  Corollary tet_add_cell_v_order_fresh : find_halfface_vs s v0 v1 v2 = None -> gcv_c s' c = Some [v0; v1; v2; v3].
  Proof. exact (created_order_fresh s v0 v1 v2 v3 s' c created_core). Qed.

  (* a found first face: its stored rotation *)
  Corollary tet_add_cell_v_order_found hf : find_halfface_vs s v0 v1 v2 = Some hf -> gcv_c s' c = Some (hf_vertices s hf ++ [v3]).
  Proof. exact (created_order_found s v0 v1 v2 v3 s' c created_core hf). Qed.

  (* ---- the query contracts on the new cell *)
  Theorem tet_add_cell_v_queries :
    (forall hf, In hf (cell_at s' c) -> exists x y z w, hf_vertices s' hf = [x; y; z] /\ In w [v0; v1; v2; v3] /\ ~ In w [x; y; z] /\
        gcv_hf s' hf = Some [x; y; z; w] /\ halfface_opposite_vertex s' hf = Some (Some w) /\
        vertex_opposite_halfface s' c w = Some (Some hf)) /\
    (forall v, In v [v0; v1; v2; v3] -> exists hf, In hf (cell_at s' c) /\ vertex_opposite_halfface s' c v = Some (Some hf) /\
        ~ In v (hf_vertices s' hf) /\ halfface_opposite_vertex s' hf = Some (Some v)) /\
    (exists x y z, gcv_c s' c = Some [x; y; z; v3] /\ NoDup [x; y; z; v3] /\
        (forall laps, tet_iter s' c laps = Some (concat (repeat [x; y; z; v3] laps))) /\
        gcv_c_v s' c x = Some [x; y; z; v3] /\ gcv_c_v s' c y = Some [y; z; x; v3] /\ gcv_c_v s' c z = Some [z; x; y; v3] /\
        gcv_c_v s' c v3 = Some [v3; y; x; z]).
  Proof. exact (created_queries s v0 v1 v2 v3 s' c ND created_core). Qed.
End Created.

(* ================================================================== 3. acceptance *)

(* without topology check the call always succeeds *)
Theorem tet_add_cell_v_unchecked_accepted s v0 v1 v2 v3 : cre_inv s -> tet_shape s -> NoDup [v0; v1; v2; v3] ->
  (forall v, In v [v0; v1; v2; v3] -> v < nv s) -> full_bu s = true ->
  exists s', tet_add_cell_v s [v0; v1; v2; v3] false = (s', Some (nc s)).
Proof.
  intros C K ND R FB. destruct (four_faces s v0 v1 v2 v3 C K ND R) as (s4 & hf0 & hf1 & hf2 & hf3 & Q & G & _).
  rewrite (Q false FB). unfold finish_cell_v. cbn [andb].
  destruct (add_cell_cases s4 [hf0; hf1; hf2; hf3] false) as [X|(s' & X & _)].
  - exfalso. unfold add_cell in X. cbn [andb] in X. destruct (append_cell s4 [hf0; hf1; hf2; hf3]). discriminate.
  - destruct (bu_lens s (cre_bu s C)) as [Le Lf]. rewrite (grow_nc s s4 G) in X. exists s'. exact X.
Qed.

(* the bottom-up incidences are required *)
Theorem tet_add_cell_v_needs_bu s vs chk : full_bu s = false -> tet_add_cell_v s vs chk = (s, None).
Proof.
  intros FB. unfold tet_add_cell_v. destruct vs as [|v0 [|v1 [|v2 [|v3 [|]]]]]; try reflexivity. rewrite FB. reflexivity.
Qed.

Print Assumptions tet_add_cell_v_wf.
Print Assumptions tet_add_cell_v_order.
Print Assumptions tet_add_cell_v_order_fresh.
Print Assumptions tet_add_cell_v_order_found.
Print Assumptions tet_add_cell_v_queries.
Print Assumptions tet_add_cell_v_unchecked_accepted.
