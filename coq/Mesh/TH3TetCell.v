(* Mesh/TH3TetCell.v -- C15, tetrahedra CREATED from vertices: four triangles on the directed edges of a tetrahedron
   (v0,v1,v2), (v0,v2,v3), (v0,v3,v1), (v1,v3,v2), stored as a cell, ARE a well-formed tetrahedron.

     Section Assembly     in a state with cre_inv (live halfedges are determined by their ends): the four halffaces are
                          pairwise on different vertex sets, hence distinct; every halfedge of one of them has its
                          opposite in another one (this is where no_par is needed)
     assembled_cell       after add_cell (unchecked) of the four: tet_wf, tet_cell_ok(_b), tet_cell_inc_b for the new cell
   Proofs only. *)
From Coq Require Import ZArith Lia Bool Arith List ZifyNat ZifyBool.
From OVM Require Import Base.ListX Base.ListLemmas Kernel.State Kernel.Ops Kernel.Mirror Kernel.Recompute Kernel.Closure Kernel.CellCheck
                        Kernel.Construct Kernel.ExactInv Kernel.ExactRun Kernel2.ExactAddCell
                        Mesh.TetModel Mesh.TetProofs Mesh.HexModel Mesh.HexProofs Mesh.TH2CollapseBase Mesh.TH2CollapseLoop Mesh.TH2CollapseFold
                        Mesh.TH2HexChecked Mesh.TH2HexEight Mesh.TH2TopoWf Mesh.TH3Base Mesh.TH3TetFound.
Import ListNotations.
Ltac Zify.zify_post_hook ::= Z.div_mod_to_equations.
Local Open Scope nat_scope.

(* ================================================================== 1. two triangles *)

Lemma tri_incl t hf hf' a b c a' b' c' : tri_on t hf a b c -> tri_on t hf' a' b' c' ->
  incl (hf_vertices t hf') (hf_vertices t hf) -> forall v, v = a' \/ v = b' \/ v = c' -> v = a \/ v = b \/ v = c.
Proof.
  intros T T' I v Hv. apply (tri_on_In t hf a b c v T). apply I. apply (tri_on_In t hf' a' b' c' v T'). exact Hv.
Qed.

(* the halfedge p->q of one triangle and the halfedge q->p of another one are opposite halfedges of one edge *)
Lemma edge_match t hf hf' a b c x y z p q h : cre_inv t -> tri_on t hf a b c -> tri_on t hf' x y z ->
  In h (halfface t hf) -> he_ends t h = (p, q) -> In (q, p) (tri_pairs x y z) -> p <> q -> In (opp h) (halfface t hf').
Proof.
  intros C Ta Tx Hh Eh Hin N. destruct (proj1 (tri_on_pairs t hf' x y z (q, p) Tx) Hin) as (g & Hg & Eg).
  pose proof Ta as (ra & da & _). pose proof Tx as (rx & dx & _).
  pose proof (cre_hf_he t hf h C ra da Hh) as Lh. pose proof (cre_hf_he t hf' g C rx dx Hg) as Lg.
  unfold he_ends in Eh, Eg. injection Eh as F T. injection Eg as F' T'.
  rewrite <- (he_unique_opp t h g (cre_no_par t C) Lh Lg); [exact Hg | congruence | congruence | congruence].
Qed.

(* ================================================================== 2. the four triangles of a tetrahedron *)

Lemma nodup4_neq (v0 v1 v2 v3 : nat) : NoDup [v0; v1; v2; v3] -> v0 <> v1 /\ v0 <> v2 /\ v0 <> v3 /\ v1 <> v2 /\ v1 <> v3 /\ v2 <> v3.
Proof.
  intros ND. inversion ND as [|? ? n0 ND1]; subst. inversion ND1 as [|? ? n1 ND2]; subst. inversion ND2 as [|? ? n2 _]; subst.
  cbn [In] in n0, n1, n2. repeat split; intros E; subst; tauto.
Qed.

Section Assembly.
  Variables (t : mesh) (v0 v1 v2 v3 hf0 hf1 hf2 hf3 : nat).
  Hypothesis C : cre_inv t.
  Hypothesis ND : NoDup [v0; v1; v2; v3].
  Hypothesis T0 : tri_on t hf0 v0 v1 v2.
  Hypothesis T1 : tri_on t hf1 v0 v2 v3.
  Hypothesis T2 : tri_on t hf2 v0 v3 v1.
  Hypothesis T3 : tri_on t hf3 v1 v3 v2.

  Let hfs := [hf0; hf1; hf2; hf3].
  Let V := [v0; v1; v2; v3].

  Ltac th3_sep Ti Tj I w :=
    let E := fresh "E" in
    destruct (tri_incl _ _ _ _ _ _ _ _ _ Ti Tj I w ltac:(auto)) as [E|[E|E]]; congruence.

  (* no two of them on the same vertex set: the apex of one lies in every other one *)
  Lemma asm_distinct hf hf' : In hf hfs -> In hf' hfs -> hf <> hf' -> ~ incl (hf_vertices t hf') (hf_vertices t hf).
  Proof.
    destruct (nodup4_neq v0 v1 v2 v3 ND) as (n01 & n02 & n03 & n12 & n13 & n23). intros H H' N I. unfold hfs in H, H'. cbn [In] in H, H'.
    destruct H as [<-|[<-|[<-|[<-|[]]]]].
    - destruct H' as [<-|[<-|[<-|[<-|[]]]]]; [exact (N eq_refl) | th3_sep T0 T1 I v3 | th3_sep T0 T2 I v3 | th3_sep T0 T3 I v3].
    - destruct H' as [<-|[<-|[<-|[<-|[]]]]]; [th3_sep T1 T0 I v1 | exact (N eq_refl) | th3_sep T1 T2 I v1 | th3_sep T1 T3 I v1].
    - destruct H' as [<-|[<-|[<-|[<-|[]]]]]; [th3_sep T2 T0 I v2 | th3_sep T2 T1 I v2 | exact (N eq_refl) | th3_sep T2 T3 I v2].
    - destruct H' as [<-|[<-|[<-|[<-|[]]]]]; [th3_sep T3 T0 I v0 | th3_sep T3 T1 I v0 | th3_sep T3 T2 I v0 | exact (N eq_refl)].
  Qed.

  Lemma asm_sep_eq Ti_hf Tj_hf a b c a' b' c' w : tri_on t Ti_hf a b c -> tri_on t Tj_hf a' b' c' ->
    (w = a' \/ w = b' \/ w = c') -> w <> a -> w <> b -> w <> c -> Ti_hf <> Tj_hf.
  Proof.
    intros Ti Tj Hw na nb nc E. subst Tj_hf.
    destruct (tri_incl t Ti_hf Ti_hf a b c a' b' c' Ti Tj (incl_refl _) w Hw) as [X|[X|X]]; congruence.
  Qed.

  Lemma asm_nodup : NoDup hfs.
  Proof.
    destruct (nodup4_neq v0 v1 v2 v3 ND) as (n01 & n02 & n03 & n12 & n13 & n23).
    assert (d01 : hf0 <> hf1) by (apply (asm_sep_eq hf0 hf1 _ _ _ _ _ _ v3 T0 T1); auto).
    assert (d02 : hf0 <> hf2) by (apply (asm_sep_eq hf0 hf2 _ _ _ _ _ _ v3 T0 T2); auto).
    assert (d03 : hf0 <> hf3) by (apply (asm_sep_eq hf0 hf3 _ _ _ _ _ _ v3 T0 T3); auto).
    assert (d12 : hf1 <> hf2) by (apply (asm_sep_eq hf1 hf2 _ _ _ _ _ _ v1 T1 T2); auto).
    assert (d13 : hf1 <> hf3) by (apply (asm_sep_eq hf1 hf3 _ _ _ _ _ _ v1 T1 T3); auto).
    assert (d23 : hf2 <> hf3) by (apply (asm_sep_eq hf2 hf3 _ _ _ _ _ _ v2 T2 T3); auto).
    unfold hfs. repeat constructor; cbn [In]; intuition congruence.
  Qed.

  (* each one: three distinct vertices out of the four *)
  Lemma asm_face hf : In hf hfs ->
    length (hf_vertices t hf) = 3 /\ NoDup (hf_vertices t hf) /\ incl (hf_vertices t hf) V /\ loop_ok t (halfface t hf) = true /\
    hf < 2 * nf t.
  Proof.
    destruct (nodup4_neq v0 v1 v2 v3 ND) as (n01 & n02 & n03 & n12 & n13 & n23). intros H. unfold hfs in H. cbn [In] in H.
    assert (G : forall a b c, tri_on t hf a b c -> a <> b -> b <> c -> a <> c -> In a V -> In b V -> In c V ->
                length (hf_vertices t hf) = 3 /\ NoDup (hf_vertices t hf) /\ incl (hf_vertices t hf) V /\ loop_ok t (halfface t hf) = true /\
                hf < 2 * nf t).
    { intros a b c T nab nbc nac Ia Ib Ic. destruct (rot3_NoDup a b c _ (tri_on_vertices t hf a b c T) nab nbc nac) as [N L].
      split; [exact L|]. split; [exact N|]. split; [|split; [exact (tri_on_loop t hf a b c T) | exact (tri_on_range t hf a b c T)]].
      intros v Hv. apply (tri_on_In t hf a b c v T) in Hv. destruct Hv as [->|[->| ->]]; assumption. }
    unfold V in G. cbn [In] in G.
    destruct H as [<-|[<-|[<-|[<-|[]]]]]; [apply (G _ _ _ T0) | apply (G _ _ _ T1) | apply (G _ _ _ T2) | apply (G _ _ _ T3)]; auto 6.
  Qed.

  Ltac th3_opp hf Ti Hh E n :=
    first [ exists hf0; split; [unfold hfs; cbn [In]; auto|]; apply (edge_match t hf hf0 _ _ _ _ _ _ _ _ _ C Ti T0 Hh (eq_sym E)); [solve [cbn [tri_pairs In]; auto 6] | exact n]
          | exists hf1; split; [unfold hfs; cbn [In]; auto|]; apply (edge_match t hf hf1 _ _ _ _ _ _ _ _ _ C Ti T1 Hh (eq_sym E)); [solve [cbn [tri_pairs In]; auto 6] | exact n]
          | exists hf2; split; [unfold hfs; cbn [In]; auto|]; apply (edge_match t hf hf2 _ _ _ _ _ _ _ _ _ C Ti T2 Hh (eq_sym E)); [solve [cbn [tri_pairs In]; auto 6] | exact n]
          | exists hf3; split; [unfold hfs; cbn [In]; auto 6|]; apply (edge_match t hf hf3 _ _ _ _ _ _ _ _ _ C Ti T3 Hh (eq_sym E)); [solve [cbn [tri_pairs In]; auto 6] | exact n] ].

  (* halfedge-level closure *)
  Lemma asm_closed hf h : In hf hfs -> In h (halfface t hf) -> exists hf', In hf' hfs /\ In (opp h) (halfface t hf').
  Proof.
    destruct (nodup4_neq v0 v1 v2 v3 ND) as (n01 & n02 & n03 & n12 & n13 & n23).
    assert (n10 : v1 <> v0) by congruence. assert (n20 : v2 <> v0) by congruence. assert (n30 : v3 <> v0) by congruence.
    assert (n21 : v2 <> v1) by congruence. assert (n31 : v3 <> v1) by congruence. assert (n32 : v3 <> v2) by congruence.
    intros H Hh. unfold hfs in H. cbn [In] in H. destruct H as [<-|[<-|[<-|[<-|[]]]]].
    - destruct (proj2 (tri_on_pairs t hf0 _ _ _ (he_ends t h) T0) (ex_intro _ h (conj Hh eq_refl))) as [E|[E|[E|[]]]];
        [th3_opp hf0 T0 Hh E n01 | th3_opp hf0 T0 Hh E n12 | th3_opp hf0 T0 Hh E n20].
    - destruct (proj2 (tri_on_pairs t hf1 _ _ _ (he_ends t h) T1) (ex_intro _ h (conj Hh eq_refl))) as [E|[E|[E|[]]]];
        [th3_opp hf1 T1 Hh E n02 | th3_opp hf1 T1 Hh E n23 | th3_opp hf1 T1 Hh E n30].
    - destruct (proj2 (tri_on_pairs t hf2 _ _ _ (he_ends t h) T2) (ex_intro _ h (conj Hh eq_refl))) as [E|[E|[E|[]]]];
        [th3_opp hf2 T2 Hh E n03 | th3_opp hf2 T2 Hh E n31 | th3_opp hf2 T2 Hh E n10].
    - destruct (proj2 (tri_on_pairs t hf3 _ _ _ (he_ends t h) T3) (ex_intro _ h (conj Hh eq_refl))) as [E|[E|[E|[]]]];
        [th3_opp hf3 T3 Hh E n13 | th3_opp hf3 T3 Hh E n32 | th3_opp hf3 T3 Hh E n21].
  Qed.

  (* ---- stored as a cell *)
  Theorem assembled_cell s' c : fbu t = true -> add_cell t hfs false = (s', Some c) ->
    c = nc t /\ nc s' = S (nc t) /\ cell_at s' c = hfs /\ faces s' = faces t /\ edges s' = edges t /\
    tet_wf s' c hfs V /\ tet_cell_ok s' c hfs /\ tet_cell_ok_b s' c = true /\ tet_cell_inc_b s' c = true.
  Proof.
    intros Fb A. unfold add_cell in A. cbn [andb] in A.
    pose proof (append_cell_effect t hfs) as W. destruct (inc_cell_append_cell t hfs Fb) as [IC _].
    destruct (append_cell t hfs) as [s1 c1]. cbn [fst] in IC. injection A as -> ->.
    destruct W as (Ec & Cs & _ & _ & Es & Fs & _). subst c.
    assert (NC : nc s' = S (nc t)) by (unfold nc; rewrite Cs, app_length; cbn [length]; lia).
    assert (NE : nth_error (cells s') (nc t) = Some hfs) by (unfold nc; rewrite Cs, nth_error_app2, Nat.sub_diag by lia; reflexivity).
    assert (CA : cell_at s' (nc t) = hfs) by (unfold cell_at; apply nth_error_nth; exact NE).
    assert (HV : forall hf, hf_vertices s' hf = hf_vertices t hf) by (intros hf; apply hf_vertices_same; assumption).
    assert (HF : forall hf, halfface s' hf = halfface t hf) by (intros hf; apply halfface_faces; exact Fs).
    assert (Li : length (inc_cell t) = 2 * nf t).
    { destruct (cre_bu t C) as (_ & _ & _ & _ & (_ & _ & L3 & _)). exact (L3 Fb). }
    assert (WF : tet_wf s' (nc t) hfs V).
    { unfold tet_wf. split; [exact NE|]. split; [reflexivity|]. split; [exact asm_nodup|]. split; [exact ND|]. split; [reflexivity|]. split.
      - intros hf Hhf. destruct (asm_face hf Hhf) as (L & N & I & _ & R). rewrite HV. split; [|auto].
        rewrite (nth_error_nth' _ None) by (rewrite IC, length_fold_upd, Li; exact R). rewrite IC, nth_fold_upd.
        replace (memb hf hfs) with true by (symmetry; apply memb_In; exact Hhf).
        replace (hf <? length (inc_cell t)) with true by (symmetry; apply Nat.ltb_lt; rewrite Li; exact R). reflexivity.
      - intros hf hf' H H' N. rewrite !HV. exact (asm_distinct hf hf' H H' N). }
    assert (OK : tet_cell_ok s' (nc t) hfs).
    { apply (tet_wf_cell_ok s' (nc t) hfs V WF).
      - intros hf Hhf. destruct (asm_face hf Hhf) as (_ & _ & _ & Lo & _). rewrite HF, <- Lo. apply loop_ok_ext. intros h _.
        unfold he_from, he_to, edge_at. rewrite Es. split; reflexivity.
      - intros hf h Hhf Hh. rewrite HF in Hh. destruct (asm_closed hf h Hhf Hh) as (hf' & H' & Ho). exists hf'. rewrite HF. split; assumption. }
    split; [reflexivity|]. split; [exact NC|]. split; [exact CA|]. split; [exact Fs|]. split; [exact Es|]. split; [exact WF|]. split; [exact OK|].
    split; [apply tet_cell_ok_b_spec; exists hfs; exact OK|].
    apply tet_cell_inc_b_spec. rewrite CA. intros hf Hhf. destruct WF as (_ & _ & _ & _ & _ & W6 & _). exact (proj1 (W6 hf Hhf)).
  Qed.
End Assembly.

Print Assumptions assembled_cell.
