(* Mesh/TH3HexHist.v -- C16: histories continue after add_cell(eight vertices).  The call is a sequence of operations of the history
   class of C01 (add_face(vertices) for every quad that was not found - new faces simple -, then add_cell without topology check of a
   cell that WOULD pass the check, on free halffaces): full_inv (Kernel4/AllDefs.v), closed faces and "no parallel edges" hold again
   afterwards, provided no halfface of the new cell belongs to another live cell (automatic with topology check: the call rejects). *)
From Coq Require Import ZArith Lia Bool Arith List ZifyNat ZifyBool Permutation.
From OVM Require Import Base.ListX Base.ListLemmas Kernel.State Kernel.Ops Kernel.Mirror Kernel.Recompute Kernel.Closure Kernel.CellCheck
                        Kernel.Construct Kernel.ExactInv Kernel.ExactRun Kernel2.ListAux Kernel2.ExactBase Kernel2.ExactAddCell Kernel2.ExactHistory
                        Kernel3.GcDefs Kernel3.GcHist Kernel4.AllDefs Kernel4.AllBridges Kernel4.AllStatus
                        Mesh.TetModel Mesh.TetProofs Mesh.HexModel Mesh.HexIterModel Mesh.HexProofs Mesh.TH2CollapseBase Mesh.TH2CollapseLoop
                        Mesh.TH2CollapseFold Mesh.TH2HexBase Mesh.TH2HexAdj Mesh.TH2HexOrd Mesh.TH2HexFrame Mesh.TH2HexChecked Mesh.TH2HexEight Mesh.TH2HexWf
                        Mesh.TH3Base Mesh.TH3HexQuad Mesh.TH3HexCube Mesh.TH3HexMain Mesh.TH3HexEx.
Import ListNotations.
Ltac Zify.zify_post_hook ::= Z.div_mod_to_equations.
Local Open Scope nat_scope.

(* ================================================================== 1. small facts *)

Lemma invb_nodup_complete l : NoDup l -> InvB.nodup_b l = true.
Proof.
  induction l as [|x t IH]; intros H; [reflexivity|]. inversion H as [|? ? Nx Nt]; subst. cbn [InvB.nodup_b].
  rewrite (IH Nt), andb_true_r. apply negb_true_iff. destruct (memb x t) eqn:M; [|reflexivity]. apply Base.ListLemmas.memb_In in M. contradiction.
Qed.

Lemma simple_b_complete hes : simple_hes hes -> simple_b hes = true.
Proof.
  intros [N O]. unfold simple_b. rewrite (invb_nodup_complete hes N). cbn [andb]. apply forallb_forall. intros h Hh.
  apply negb_true_iff. destruct (memb (opp h) hes) eqn:M; [|reflexivity]. apply Base.ListLemmas.memb_In in M. exfalso. exact (O h Hh M).
Qed.

Lemma next_add_face_v t q : valid_op t (AddFaceV q) = true -> next t (AddFaceV q) = fst (add_face_v t q).
Proof. intros V. unfold next, step. rewrite V. cbn [exec]. destruct (add_face_v t q). reflexivity. Qed.

Lemma next_add_cell t hfs chk : valid_op t (AddCell hfs chk) = true -> next t (AddCell hfs chk) = fst (add_cell t hfs chk).
Proof. intros V. unfold next, step. rewrite V. cbn [exec]. destruct (add_cell t hfs chk). reflexivity. Qed.

Lemma live_v_grow s t v : grow s t -> live_v t v = live_v s v.
Proof. intros (n & vd & _). unfold live_v, v_deleted. rewrite n, vd. reflexivity. Qed.

(* the halfedges add_face(vertices) makes for a quad on four distinct vertices form a simple face *)
Lemma quad_face_simple t x0 x1 x2 x3 : cre_inv t -> NoDup [x0; x1; x2; x3] -> (forall v, In v [x0; x1; x2; x3] -> v < nv t) ->
  simple_b (snd (add_face_v_edges x0 [x0; x1; x2; x3] (t, []))) = true.
Proof.
  intros C ND RV.
  pose proof (add_face_v_edges_cre x0 [x0; x1; x2; x3] t [] C (RV x0 (or_introl eq_refl)) RV ltac:(intros h [])) as S. cbv zeta in S.
  destruct (add_face_v_edges x0 [x0; x1; x2; x3] (t, [])) as [t1 hes]. cbn [fst snd] in *. destruct S as (_ & _ & _ & _ & M).
  cbn [map app cyc_pairs] in M. apply simple_b_complete.
  assert (L4 : length hes = 4) by (apply (f_equal (@length _)) in M; rewrite map_length in M; exact M).
  destruct (len4_quad hes L4) as (e0 & e1 & e2 & e3 & ->). cbn [map] in M. unfold he_ends in M.
  injection M as f0 t0 f1 t1' f2 t2 f3 t3.
  apply (quad_simple t1 e0 e1 e2 e3).
  - apply loop4. repeat split; congruence.
  - cbn [map]. rewrite f0, f1, f2, f3. exact ND.
Qed.

(* ================================================================== 2. the fold, with the history invariant *)

Lemma fold_quads_full s : cre_inv s -> forall qs t l q0,
  grow s t -> cre_inv t -> full_inv t -> Forall2 (hf_made t) q0 l ->
  (forall qf, In qf qs -> (exists x0 x1 x2 x3, fst qf = [x0; x1; x2; x3] /\ NoDup [x0; x1; x2; x3]) /\
                          (forall v, In v (fst qf) -> live_v s v = true) /\ snd qf = find_halfface_extensive s (fst qf)) ->
  full_inv (fst (fold_left quad_step qs (t, l))).
Proof.
  intros C. induction qs as [|[q f] qs IH]; intros t l q0 G Ct FI F H; [exact FI|].
  cbn [fold_left]. destruct (H (q, f) (or_introl eq_refl)) as ((x0 & x1 & x2 & x3 & EQ & NDq) & LV & EF). cbn [fst snd] in EQ, LV, EF.
  assert (RVs : forall v, In v q -> v < nv s) by (intros v Hv; exact (proj1 (live_v_parts s v (LV v Hv)))).
  assert (NV : nv t = nv s) by (destruct G as (n & _); exact n).
  assert (HQ1 : forall qf, In qf [(q, f)] -> (exists y0 y1 y2 y3, fst qf = [y0; y1; y2; y3]) /\ (forall v, In v (fst qf) -> v < nv s) /\
                                              snd qf = find_halfface_extensive s (fst qf)).
  { intros qf [<-|[]]. cbn [fst snd]. split; [exists x0, x1, x2, x3; exact EQ|]. split; [exact RVs | exact EF]. }
  pose proof (fold_quads_cre s C [(q, f)] t l q0 G Ct F HQ1) as (G1 & C1 & F1). cbn [fold_left] in G1, C1, F1.
  assert (FI1 : full_inv (fst (quad_step (t, l) (q, f)))).
  { unfold quad_step. cbn [fst snd]. destruct f as [hf|]; [exact FI|].
    assert (V : valid_op t (AddFaceV q) = true).
    { cbn [valid_op]. rewrite EQ. cbn [negb andb]. apply forallb_forall. intros v Hv. rewrite (live_v_grow s t v G). apply LV. rewrite EQ. exact Hv. }
    pose proof (full_inv_op t (AddFaceV q) FI eq_refl) as X. rewrite (next_add_face_v t q V) in X.
    assert (FIq : full_inv (fst (add_face_v t q))).
    { apply X. cbn [valid_op3 valid_op2]. rewrite EQ. apply quad_face_simple; [exact Ct | exact NDq|]. intros v Hv. rewrite NV. apply RVs. rewrite EQ. exact Hv. }
    destruct (add_face_v t q) as [t1 [fh|]]; exact FIq. }
  destruct (quad_step (t, l) (q, f)) as [t1 l1]. cbn [fst snd] in *.
  apply (IH t1 l1 (q0 ++ [(q, f)])); [exact G1 | exact C1 | exact FI1 | exact F1 | intros qf Hqf; apply H; right; exact Hqf].
Qed.

(* ================================================================== 3. the call *)

Section Continue.
  Variables (s s' : mesh) (a0 a1 a2 a3 a4 a5 a6 a7 : nat) (chk : bool) (c : nat).
  Let vs := [a0; a1; a2; a3; a4; a5; a6; a7].
  Hypothesis FI : full_inv s.
  Hypothesis FC : faces_closed s.
  Hypothesis NP : no_par s.
  Hypothesis ND8 : NoDup vs.
  Hypothesis LV : forall v, In v vs -> live_v s v = true.
  Hypothesis CALL : hex_add_cell_v s vs chk = (s', Some c).
  (* no halfface of the new cell in another live cell: checked by the call itself when the topology check is on *)
  Hypothesis FREE : chk = true \/ forall hf c', In hf (cell_at s' c) -> c' < c -> c_deleted s' c' = false -> ~ In hf (cell_at s' c').

  Let C : cre_inv s := cre_inv_of_full_inv s FI FC NP.
  Let RV : forall v, In v vs -> v < nv s := fun v Hv => proj1 (live_v_parts s v (LV v Hv)).

  Theorem created_cell_keeps_invariant : full_inv s' /\ faces_closed s' /\ no_par s'.
  Proof.
    destruct (created_cell s s' a0 a1 a2 a3 a4 a5 a6 a7 chk c C ND8 RV CALL)
      as (k0 & k1 & k2 & k3 & k4 & k5 & Ec & NC & CA & _ & _ & _ & _ & _ & _ & _ & _ & _ & NP' & FL' & _).
    split; [|split; [intros f Hf D; apply loop_ok_spec; exact (FL' f Hf D) | exact NP']].
    (* replay the call with the history invariant *)
    pose proof CALL as H. unfold hex_add_cell_v in H. destruct (full_bu s) eqn:FB; cbn [negb] in H; [|discriminate].
    unfold vs in H. cbn [length Nat.eqb negb] in H. destruct (chk && negb (length (set_of_list [a0; a1; a2; a3; a4; a5; a6; a7]) =? 8)); [discriminate|].
    fold quad_step in H. fold vs in H.
    set (qs := combine (hex_quads vs) (map (find_halfface_extensive s) (hex_quads vs))) in *.
    destruct (nodup8_neq a0 a1 a2 a3 a4 a5 a6 a7 ND8) as
      ((n01&n02&n03&n04&n05&n06&n07)&(n12&n13&n14&n15&n16&n17)&(n23&n24&n25&n26&n27)&(n34&n35&n36&n37)&(n45&n46&n47)&(n56&n57)&n67).
    assert (HQ : forall qf, In qf qs -> (exists x0 x1 x2 x3, fst qf = [x0; x1; x2; x3] /\ NoDup [x0; x1; x2; x3]) /\
                                         (forall v, In v (fst qf) -> live_v s v = true) /\ snd qf = find_halfface_extensive s (fst qf)).
    { intros [q f] Hin. unfold qs, vs, hex_quads in Hin. cbn [nth map combine] in Hin. cbn [fst snd].
      repeat (destruct Hin as [Hin|Hin]; [injection Hin as <- <-; (split; [do 4 eexists; split; [reflexivity | apply nodup4_intro; auto]|]); (split; [|reflexivity]);
        intros v Hv; apply LV; unfold vs; cbn [In] in *; tauto|]). destruct Hin. }
    assert (HQ' : forall qf, In qf qs -> (exists x0 x1 x2 x3, fst qf = [x0; x1; x2; x3]) /\ (forall v, In v (fst qf) -> v < nv s) /\
                                          snd qf = find_halfface_extensive s (fst qf)).
    { intros qf Hqf. destruct (HQ qf Hqf) as ((x0 & x1 & x2 & x3 & E & _) & L & F). split; [exists x0, x1, x2, x3; exact E|]. split; [|exact F].
      intros v Hv. exact (proj1 (live_v_parts s v (L v Hv))). }
    pose proof (fold_quads_full s C qs s [] [] (grow_refl s) C FI (Forall2_nil _) HQ) as FI1.
    pose proof (fold_quads_cre s C qs s [] [] (grow_refl s) C (Forall2_nil _) HQ') as (G1 & C1 & F1).
    destruct (fold_left quad_step qs (s, [])) as [s1 hfs]. cbn [fst snd app] in *.
    unfold qs, vs, hex_quads in F1. cbn [nth map combine] in F1.
    destruct (forall2_six _ _ _ _ _ _ _ _ F1) as (h0 & h1 & h2 & h3 & h4 & h5 & -> & (M0 & _) & (M1 & _) & (M2 & _) & (M3 & _) & (M4 & _) & (M5 & _)).
    cbn [fst snd] in M0, M1, M2, M3, M4, M5.
    destruct (cube_static s1 a0 a1 a2 a3 a4 a5 a6 a7 h0 h1 h2 h3 h4 h5 C1 ND8 M0 M1 M2 M3 M4 M5) as (NDl & MO & ORD).
    assert (FB1 : fbu s1 = true).
    { destruct G1 as (_ & _ & _ & _ & _ & _ & _ & fb & _). rewrite fb. unfold full_bu in FB. apply andb_true_iff in FB. exact (proj2 FB). }
    set (l := [h0; h1; h2; h3; h4; h5]) in *.
    assert (ON : forall h, In h l -> h / 2 < nf s1 /\ f_deleted s1 (h / 2) = false).
    { intros h Hh. destruct (cb_on s1 a0 a1 a2 a3 a4 a5 a6 a7 h0 h1 h2 h3 h4 h5 M0 M1 M2 M3 M4 M5 h Hh) as (q & (r & d & _) & _). auto. }
    (* freeness in s1 *)
    assert (FR : forall h, In h l -> cell_of s1 h = None).
    { destruct (chk && negb (closed_by_sets s1 l)) eqn:X1; [discriminate|].
      destruct (chk && fbu s1 && existsb (fun hf => match cell_of s1 hf with Some _ => true | None => false end) l) eqn:X2; [discriminate|].
      destruct FREE as [->|NS].
      - rewrite FB1 in X2. cbn [andb] in X2. intros h Hh. destruct (cell_of s1 h) as [c'|] eqn:E; [|reflexivity]. exfalso.
        assert (Y : existsb (fun hf => match cell_of s1 hf with Some _ => true | None => false end) l = true).
        { apply existsb_exists. exists h. split; [exact Hh|]. rewrite E. reflexivity. }
        congruence.
      - intros h Hh. destruct (cell_of s1 h) as [c'|] eqn:E; [|reflexivity]. exfalso.
        destruct (cre_bu s1 C1) as (_ & _ & FO & _). destruct (ON h Hh) as [r _].
        assert (hlt : h < 2 * nf s1) by (clear - r; lia).
        apply (FO FB1 h hlt c') in E. destruct E as (rc & dc & ic).
        destruct (fc_append_cell s1 l) as (_ & Cs & _). pose proof (append_cell_effect s1 l) as W.
        unfold add_cell in H. cbn [andb] in H. destruct (append_cell s1 l) as [s2 c2]. cbn [fst snd] in *. injection H as -> ->.
        destruct W as (wc & _ & wd & _). rewrite wc in *.
        apply (NS h c'); [unfold cell_at, nc; rewrite Cs, app_nth2 by apply Nat.le_refl; rewrite Nat.sub_diag; exact Hh | exact rc | |].
        + unfold c_deleted. rewrite wd. rewrite app_nth1 by (destruct (cre_bu s1 C1) as (_ & _ & _ & _ & (_ & _ & _ & _ & _ & L6)); rewrite L6; exact rc). exact dc.
        + unfold cell_at. rewrite Cs. rewrite app_nth1 by exact rc. exact ic. }
    destruct (chk && negb (closed_by_sets s1 l)); [discriminate|].
    destruct (chk && fbu s1 && existsb _ l); [discriminate|].
    assert (V : valid_op s1 (AddCell l false) = true).
    { cbn [valid_op]. apply forallb_forall. intros h Hh. destruct (ON h Hh) as [r d]. unfold live_hf, live_f. rewrite d.
      replace (h / 2 <? nf s1) with true by (symmetry; apply Nat.ltb_lt; exact r). reflexivity. }
    pose proof (full_inv_op s1 (AddCell l false) FI1) as X. rewrite (next_add_cell s1 l false V), H in X. cbn [fst] in X. apply X.
    - cbn [all_op]. rewrite FB1. reflexivity.
    - cbn [valid_op3 valid_op2 orb].
      assert (CC : cell_check s1 l = true) by (apply cell_check_spec; split; [discriminate | exact MO]).
      rewrite CC. cbn [andb]. apply andb_true_iff. split; apply forallb_forall; intros h Hh.
      + rewrite (FR h Hh). reflexivity.
      + apply negb_true_iff. destruct (memb (opp h) l) eqn:Mo; [|reflexivity]. apply Base.ListLemmas.memb_In in Mo. exfalso.
        exact (wf_no_opposite_pair s1 h0 h1 h2 h3 h4 h5 NDl MO
                 (cb_len4 s1 a0 a1 a2 a3 a4 a5 a6 a7 h0 h1 h2 h3 h4 h5 M0 M1 M2 M3 M4 M5)
                 (cb_loop s1 a0 a1 a2 a3 a4 a5 a6 a7 h0 h1 h2 h3 h4 h5 C1 M0 M1 M2 M3 M4 M5)
                 (cb_verts s1 a0 a1 a2 a3 a4 a5 a6 a7 h0 h1 h2 h3 h4 h5 ND8 M0 M1 M2 M3 M4 M5) ORD h Hh Mo).
  Qed.
End Continue.

Print Assumptions created_cell_keeps_invariant.
