(* Mesh/TH2TopoMake.v -- the constructor TetTopology(mesh, ch, abc, a) on a labelled tetrahedron ([tet_frame],
   TH2TopoFrame.v) returns the explicit record [tt_rec]:

       vh  = [A; B; C; D]      heh = [ab; bc; ca; cd; ad; bd]      hfh = [Y; Z; X; abc]

   whatever the order in which the cell stores its four halffaces and whatever the stored rotation of each of them:
   the walk over a side halfface sets exactly the slot of the one of ba / cb / ac it contains ([tt_side_X/Y/Z]), on abc
   itself it does nothing, and the three slots are independent ([fold_mid]). *)
From Coq Require Import ZArith Lia Bool Arith List.
From OVM Require Import Base.ListX Base.ListLemmas Base.Int32 Gen.TetLabels Kernel.State Kernel.Ops Kernel.Mirror
                        Mesh.TetModel Mesh.TetProofs Mesh.TetTopoModel Mesh.TH2TopoWf Mesh.TH2TopoFrame.
Import ListNotations.
Local Open Scope nat_scope.

Definition tt_rec (A B C D ab bc ca ad bd cd X Y Z abc : nat) : ttopo :=
  {| tt_vh := [Some A; Some B; Some C; Some D];
     tt_heh := [Some ab; Some bc; Some ca; Some cd; Some ad; Some bd];
     tt_hfh := [Some Y; Some Z; Some X; Some abc] |}.

(* ------------------------------------------------------------------ the constructor, unfolded once *)

Definition tt_init (s : mesh) (abc ab bc ca : nat) : ttopo :=
  {| tt_vh := [Some (he_from s ab); Some (he_from s bc); Some (he_from s ca); None];
     tt_heh := upd (zi HEL_CA) (Some ca) (upd (zi HEL_BC) (Some bc) (upd (zi HEL_AB) (Some ab) (repeat None 6)));
     tt_hfh := upd (hfl_slot HFL_ABC) (Some abc) (repeat None 4) |}.

Definition tt_finish (s : mesh) (t1 : ttopo) : ttopo :=
  {| tt_vh := upd (zi VL_D) (Some (he_to_o s (oget (tt_heh t1) (zi HEL_AD)))) (tt_vh t1);
     tt_heh := tt_heh t1; tt_hfh := tt_hfh t1 |}.

Lemma tt_make_unfold s c abc oa i hfs :
  length (halfface s abc) = 3 ->
  match oa with None => i = 0 | Some a => find_index (fun h => he_from s h =? a) (halfface s abc) = Some i end ->
  nth_error (cells s) c = Some hfs ->
  tt_make s c abc oa =
  Some (tt_finish s (fold_left (tt_side s (Some abc) (opp (nth i (halfface s abc) 0))
                                        (opp (nth ((i + 1) mod 3) (halfface s abc) 0))
                                        (opp (nth ((i + 2) mod 3) (halfface s abc) 0)))
                               hfs
                               (tt_init s abc (nth i (halfface s abc) 0) (nth ((i + 1) mod 3) (halfface s abc) 0)
                                        (nth ((i + 2) mod 3) (halfface s abc) 0)))).
Proof.
  intros L Hi Hc. unfold tt_make, tt_make_o. cbv zeta. cbn [halfface_o]. rewrite L. cbn [Nat.eqb].
  destruct oa as [a|]; [rewrite Hi | subst i]; cbn [bind]; unfold rd; rewrite Hc; cbn [bind]; reflexivity.
Qed.

Lemma rot3i_nth i (l : list nat) p q r : rot3i i l p q r ->
  nth i l 0 = p /\ nth ((i + 1) mod 3) l 0 = q /\ nth ((i + 2) mod 3) l 0 = r.
Proof. intros [[-> ->]|[[-> ->]|[-> ->]]]; repeat split; reflexivity. Qed.

(* ------------------------------------------------------------------ one side halfface *)

Lemma tt_side_self s abc ba cb ac t : tt_side s (Some abc) ba cb ac t abc = t.
Proof. unfold tt_side. cbn [oeqb]. rewrite Nat.eqb_refl. reflexivity. Qed.

Lemma tt_side_hit s abc ba cb ac t cur hfl hel nxt : cur <> abc ->
  tt_side_scan (halfface s cur) (halfface s cur) 0 ba cb ac = Some (hfl, hel, nxt) ->
  tt_side s (Some abc) ba cb ac t cur =
  {| tt_vh := tt_vh t; tt_heh := upd (zi hel) (Some nxt) (tt_heh t); tt_hfh := upd (hfl_slot hfl) (Some cur) (tt_hfh t) |}.
Proof.
  intros N E. unfold tt_side. cbn [oeqb]. destruct (Nat.eqb_spec abc cur) as [F|_]; [exfalso; apply N; symmetry; exact F|].
  cbv zeta. rewrite E. reflexivity.
Qed.

Ltac eqb_decide :=
  repeat match goal with
         | |- context [?x =? ?x] => rewrite (Nat.eqb_refl x)
         | H : ?x <> ?y |- context [?x =? ?y] => rewrite (proj2 (Nat.eqb_neq x y) H)
         end.

(* the walk over a halfface containing ba (in any rotation) and neither cb nor ac *)
Lemma scan_X (l : list nat) ba cb ac ad db : rot3 l ba ad db ->
  ad <> ba -> ad <> cb -> ad <> ac -> db <> ba -> db <> cb -> db <> ac ->
  tt_side_scan l l 0 ba cb ac = Some (HFL_BAD, HEL_AD, ad).
Proof.
  intros [->|[->| ->]] ? ? ? ? ? ?; cbn [tt_side_scan length nth Nat.eqb]; eqb_decide; reflexivity.
Qed.

Lemma scan_Y (l : list nat) ba cb ac bd dc : rot3 l cb bd dc ->
  cb <> ba -> bd <> ba -> bd <> cb -> bd <> ac -> dc <> ba -> dc <> cb -> dc <> ac ->
  tt_side_scan l l 0 ba cb ac = Some (HFL_CBD, HEL_BD, bd).
Proof.
  intros [->|[->| ->]] ? ? ? ? ? ? ?; cbn [tt_side_scan length nth Nat.eqb]; eqb_decide; reflexivity.
Qed.

Lemma scan_Z (l : list nat) ba cb ac cd da : rot3 l ac cd da ->
  ac <> ba -> ac <> cb -> cd <> ba -> cd <> cb -> cd <> ac -> da <> ba -> da <> cb -> da <> ac ->
  tt_side_scan l l 0 ba cb ac = Some (HFL_ACD, HEL_CD, cd).
Proof.
  intros [->|[->| ->]] ? ? ? ? ? ? ? ?; cbn [tt_side_scan length nth Nat.eqb]; eqb_decide; reflexivity.
Qed.

(* ------------------------------------------------------------------ the loop over the cell's halffaces *)

Section Walk.
  Variables (s : mesh) (c : nat) (hfs : list nat) (abc i : nat) (A B C D ab bc ca ad bd cd db dc da X Y Z : nat).
  Hypothesis FR : tet_frame s c hfs abc i A B C D ab bc ca ad bd cd db dc da X Y Z.

  (* the record after some of the side halffaces have been visited *)
  Definition tt_mid (px py pz : bool) : ttopo :=
    {| tt_vh := [Some A; Some B; Some C; None];
       tt_heh := [Some ab; Some bc; Some ca; if pz then Some cd else None; if px then Some ad else None;
                  if py then Some bd else None];
       tt_hfh := [if py then Some Y else None; if pz then Some Z else None; if px then Some X else None; Some abc] |}.

  Let side := tt_side s (Some abc) (opp ab) (opp bc) (opp ca).

  Lemma scan_frame_X : tt_side_scan (halfface s X) (halfface s X) 0 (opp ab) (opp bc) (opp ca) = Some (HFL_BAD, HEL_AD, ad).
  Proof.
    destruct (fr_ends _ _ _ _ _ _ _ _ _ _ _ _ _ _ _ _ _ _ _ _ _ FR) as ((?&?)&(?&?)&(?&?)&(?&?)&(?&?)&(?&?)&(?&?)&(?&?)&(?&?)).
    destruct (fr_neq _ _ _ _ _ _ _ _ _ _ _ _ _ _ _ _ _ _ _ _ _ FR) as (?&?&?&?&?&?).
    apply (scan_X _ _ _ _ _ db (fr_hX _ _ _ _ _ _ _ _ _ _ _ _ _ _ _ _ _ _ _ _ _ FR)); intros K; ends_differ s K.
  Qed.

  Lemma scan_frame_Y : tt_side_scan (halfface s Y) (halfface s Y) 0 (opp ab) (opp bc) (opp ca) = Some (HFL_CBD, HEL_BD, bd).
  Proof.
    destruct (fr_ends _ _ _ _ _ _ _ _ _ _ _ _ _ _ _ _ _ _ _ _ _ FR) as ((?&?)&(?&?)&(?&?)&(?&?)&(?&?)&(?&?)&(?&?)&(?&?)&(?&?)).
    destruct (fr_neq _ _ _ _ _ _ _ _ _ _ _ _ _ _ _ _ _ _ _ _ _ FR) as (?&?&?&?&?&?).
    apply (scan_Y _ _ _ _ _ dc (fr_hY _ _ _ _ _ _ _ _ _ _ _ _ _ _ _ _ _ _ _ _ _ FR)); intros K; ends_differ s K.
  Qed.

  Lemma scan_frame_Z : tt_side_scan (halfface s Z) (halfface s Z) 0 (opp ab) (opp bc) (opp ca) = Some (HFL_ACD, HEL_CD, cd).
  Proof.
    destruct (fr_ends _ _ _ _ _ _ _ _ _ _ _ _ _ _ _ _ _ _ _ _ _ FR) as ((?&?)&(?&?)&(?&?)&(?&?)&(?&?)&(?&?)&(?&?)&(?&?)&(?&?)).
    destruct (fr_neq _ _ _ _ _ _ _ _ _ _ _ _ _ _ _ _ _ _ _ _ _ FR) as (?&?&?&?&?&?).
    apply (scan_Z _ _ _ _ _ da (fr_hZ _ _ _ _ _ _ _ _ _ _ _ _ _ _ _ _ _ _ _ _ _ FR)); intros K; ends_differ s K.
  Qed.

  Lemma tt_side_X px py pz : side (tt_mid px py pz) X = tt_mid true py pz.
  Proof.
    unfold side. rewrite (tt_side_hit s abc _ _ _ _ X _ _ _ (fr_X_neq _ _ _ _ _ _ _ _ _ _ _ _ _ _ _ _ _ _ _ _ _ FR) scan_frame_X).
    reflexivity.
  Qed.

  Lemma tt_side_Y px py pz : side (tt_mid px py pz) Y = tt_mid px true pz.
  Proof.
    unfold side. rewrite (tt_side_hit s abc _ _ _ _ Y _ _ _ (fr_Y_neq _ _ _ _ _ _ _ _ _ _ _ _ _ _ _ _ _ _ _ _ _ FR) scan_frame_Y).
    reflexivity.
  Qed.

  Lemma tt_side_Z px py pz : side (tt_mid px py pz) Z = tt_mid px py true.
  Proof.
    unfold side. rewrite (tt_side_hit s abc _ _ _ _ Z _ _ _ (fr_Z_neq _ _ _ _ _ _ _ _ _ _ _ _ _ _ _ _ _ _ _ _ _ FR) scan_frame_Z).
    reflexivity.
  Qed.

  Lemma tt_side_abc px py pz : side (tt_mid px py pz) abc = tt_mid px py pz.
  Proof. unfold side. apply tt_side_self. Qed.

  (* any list of halffaces of the cell, in any order, with repetitions or omissions *)
  Lemma fold_mid : forall l, (forall hf, In hf l -> hf = abc \/ hf = X \/ hf = Y \/ hf = Z) ->
    forall px py pz, exists px' py' pz',
      fold_left side l (tt_mid px py pz) = tt_mid px' py' pz' /\
      (px = true \/ In X l -> px' = true) /\ (py = true \/ In Y l -> py' = true) /\ (pz = true \/ In Z l -> pz' = true).
  Proof.
    destruct (fr_faces_neq _ _ _ _ _ _ _ _ _ _ _ _ _ _ _ _ _ _ _ _ _ FR) as (nAX&nAY&nAZ&nXY&nXZ&nYZ).
    induction l as [|hf l IH]; intros Hl px py pz.
    - exists px, py, pz. cbn [fold_left]. split; [reflexivity|]. repeat split; intros [E|[]]; exact E.
    - assert (Hl' : forall h, In h l -> h = abc \/ h = X \/ h = Y \/ h = Z) by (intros h Hh; apply Hl; right; exact Hh).
      cbn [fold_left]. destruct (Hl hf (or_introl eq_refl)) as [E|[E|[E|E]]]; subst hf.
      + rewrite tt_side_abc. destruct (IH Hl' px py pz) as (px'&py'&pz'&E&Px&Py&Pz). exists px', py', pz'.
        split; [exact E|]. repeat split; (intros [K|[K|K]]; [auto | exfalso; congruence | auto]).
      + rewrite tt_side_X. destruct (IH Hl' true py pz) as (px'&py'&pz'&E&Px&Py&Pz). exists px', py', pz'.
        split; [exact E|]. repeat split; (intros [K|[K|K]]; [auto | first [exfalso; congruence | auto] | auto]).
      + rewrite tt_side_Y. destruct (IH Hl' px true pz) as (px'&py'&pz'&E&Px&Py&Pz). exists px', py', pz'.
        split; [exact E|]. repeat split; (intros [K|[K|K]]; [auto | first [exfalso; congruence | auto] | auto]).
      + rewrite tt_side_Z. destruct (IH Hl' px py true) as (px'&py'&pz'&E&Px&Py&Pz). exists px', py', pz'.
        split; [exact E|]. repeat split; (intros [K|[K|K]]; [auto | first [exfalso; congruence | auto] | auto]).
  Qed.

  Lemma fold_hfs : fold_left side hfs (tt_mid false false false) = tt_mid true true true.
  Proof.
    destruct (fold_mid hfs (fr_incl _ _ _ _ _ _ _ _ _ _ _ _ _ _ _ _ _ _ _ _ _ FR) false false false) as (px&py&pz&E&Px&Py&Pz).
    rewrite E.
    rewrite (Px (or_intror (fr_X _ _ _ _ _ _ _ _ _ _ _ _ _ _ _ _ _ _ _ _ _ FR))).
    rewrite (Py (or_intror (fr_Y _ _ _ _ _ _ _ _ _ _ _ _ _ _ _ _ _ _ _ _ _ FR))).
    rewrite (Pz (or_intror (fr_Z _ _ _ _ _ _ _ _ _ _ _ _ _ _ _ _ _ _ _ _ _ FR))). reflexivity.
  Qed.

  Lemma tt_init_mid : tt_init s abc ab bc ca = tt_mid false false false.
  Proof.
    destruct (fr_ends _ _ _ _ _ _ _ _ _ _ _ _ _ _ _ _ _ _ _ _ _ FR) as ((EA&_)&(EB&_)&(EC&_)&_).
    unfold tt_init. rewrite EA, EB, EC. reflexivity.
  Qed.

  Lemma tt_finish_mid : tt_finish s (tt_mid true true true) = tt_rec A B C D ab bc ca ad bd cd X Y Z abc.
  Proof.
    destruct (fr_ends _ _ _ _ _ _ _ _ _ _ _ _ _ _ _ _ _ _ _ _ _ FR) as (_&_&_&(_&ED)&_).
    unfold tt_finish, tt_rec.
    change (oget (tt_heh (tt_mid true true true)) (zi HEL_AD)) with (Some ad).
    change (he_to_o s (Some ad)) with (he_to s ad). rewrite ED. reflexivity.
  Qed.

  (* the constructor on a labelled tetrahedron *)
  Theorem tt_make_frame oa :
    match oa with None => i = 0 | Some a => find_index (fun h => he_from s h =? a) (halfface s abc) = Some i end ->
    tt_make s c abc oa = Some (tt_rec A B C D ab bc ca ad bd cd X Y Z abc).
  Proof.
    intros Hi.
    rewrite (tt_make_unfold s c abc oa i hfs (fr_len_abc _ _ _ _ _ _ _ _ _ _ _ _ _ _ _ _ _ _ _ _ _ FR) Hi
               (fr_cell _ _ _ _ _ _ _ _ _ _ _ _ _ _ _ _ _ _ _ _ _ FR)).
    destruct (rot3i_nth _ _ _ _ _ (fr_habc _ _ _ _ _ _ _ _ _ _ _ _ _ _ _ _ _ _ _ _ _ FR)) as (E0&E1&E2).
    rewrite E0, E1, E2. rewrite tt_init_mid. fold side. rewrite fold_hfs. rewrite tt_finish_mid. reflexivity.
  Qed.
End Walk.
