(* Mesh/TH2ShapeHist.v -- C15/C16: the valence shape as an invariant of histories in ALL FOUR deletion modes (tet and hex
   kernels), the refutation of the unconditional statement, and collapse_edge in an immediate mode as "the deferred
   collapse followed by a collection".

   History class: every executed step is a tet (hex) operation - additions in every form, accepted or rejected, every
   deletion in all four (deferred x fast) modes, collect_garbage, enable_deferred both ways, the other mode switches,
   swaps, clear, collapse_edge in every mode, property operations; only set_face / set_cell stay outside (they are not
   tet / hex operations: they store any list).  The steps that physically remove entities in the SLOW mode carry the
   hypothesis of the polyhedral kernel's C02 / C04 theorems (`thyp`, decidable sound version `thyp_b`):
     immediate slow delete_vertex / delete_edge / delete_face     shift_inv2 s     (delete_cell: nothing)
     collect_garbage / enable_deferred(false) with fast off       gc_ready s
     collapse_edge in immediate slow mode                         gc_ready of the state before the final collection
   Without it the statement is FALSE of the model and of the library: `tet_shape_unconditional_refuted`. *)
From Coq Require Import ZArith Lia Bool Arith List ZifyNat ZifyBool.
From OVM Require Import Base.ListX Kernel.State Kernel.Ops Kernel.DeferredDelete Kernel.ShiftFace Kernel.ShiftCompose
                        Kernel3.GcDefs Kernel3.GcInv Kernel3.GcMain Mesh.TetModel Mesh.TetProofs Mesh.HexModel Mesh.HexProofs
                        Mesh.TH2Shape.
Import ListNotations.
Local Open Scope nat_scope.

(* ================================================================== 1. collapse_edge = deferred collapse, then the mode is restored *)

(* the part of collapse_edge that runs with deferred deletion on: (state after the star of a is rebuilt on b and deleted,
   state after the vertex a is deleted and the rebuilt tets are re-added) *)
Definition collapse_pre (s : mesh) (heh : nat) : ub (mesh * mesh) :=
  let a := he_from s heh in
  let b := he_to s heh in
  do (s1, news) <- fold_left (collapse_cell a b (collapsing_cells s heh)) (vertex_cells s a) (Some (s, []));
  do s3 <- fold_left collapse_readd news (Some (delete_vertex a s1));
  Some (s1, s3).

Definition collapse_survivor (tmp : bool) (s1 : mesh) (a b : nat) : nat :=
  if negb tmp then
    if fast s1 then (if b =? nv s1 - 1 then a else b) else (if a <? b then b - 1 else b)
  else b.

Lemma collapse_edge_unfold s0 heh : collapse_edge s0 heh =
  let s := if negb (deferred s0) then enable_deferred true s0 else s0 in
  do (s1, s3) <- collapse_pre s heh;
  Some (enable_deferred (deferred s0) s3, collapse_survivor (deferred s0) s1 (he_from s heh) (he_to s heh)).
Proof.
  unfold collapse_edge, collapse_pre, collapse_survivor, bind. cbv zeta.
  set (s := if negb (deferred s0) then enable_deferred true s0 else s0).
  destruct (fold_left (collapse_cell (he_from s heh) (he_to s heh) (collapsing_cells s heh)) (vertex_cells s (he_from s heh)) (Some (s, [])))
    as [[s1 news]|]; [|reflexivity].
  destruct (fold_left collapse_readd news (Some (delete_vertex (he_from s heh) s1))) as [s3|]; reflexivity.
Qed.

Lemma deferred_enable_deferred b s : deferred (enable_deferred b s) = b.
Proof. unfold enable_deferred. reflexivity. Qed.

(* the deferred part keeps the shape and the deferred mode *)
Lemma dshape_collapse_pre s heh s1 s3 : dshape s -> collapse_pre s heh = Some (s1, s3) -> dshape s1 /\ dshape s3.
Proof.
  intros DS. unfold collapse_pre, bind. cbv zeta.
  destruct (fold_left (collapse_cell (he_from s heh) (he_to s heh) (collapsing_cells s heh)) (vertex_cells s (he_from s heh)) (Some (s, [])))
    as [[t1 news]|] eqn:E1; [|discriminate].
  assert (H1 : dshape t1) by (refine (dshape_fold_collapse_cell _ _ _ _ _ _ _ E1); intros p Hp; inversion Hp; exact DS).
  destruct (fold_left collapse_readd news (Some (delete_vertex (he_from s heh) t1))) as [t3|] eqn:E3; [|discriminate].
  assert (H3 : dshape t3) by (refine (dshape_fold_readd _ _ _ _ E3); intros p Hp; inversion Hp; apply dshape_delete_vertex; exact H1).
  intros E. inversion E; subst. split; assumption.
Qed.

Lemma dshape_enable_deferred_true s : tet_shape s -> deferred s = false -> dshape (enable_deferred true s).
Proof.
  intros [F C] D. unfold enable_deferred. rewrite D. cbn [andb]. split; [split; assumption | reflexivity].
Qed.

(* collapse_edge called in an IMMEDIATE mode: exactly the collapse of the same mesh switched to deferred deletion, followed
   by the switch back (which collects) *)
Theorem collapse_edge_immediate_is_deferred_then_collect s heh : deferred s = false ->
  collapse_edge s heh =
  (do (s1, s3) <- collapse_pre (enable_deferred true s) heh;
   Some (enable_deferred false s3,
         collapse_survivor false s1 (he_from (enable_deferred true s) heh) (he_to (enable_deferred true s) heh))).
Proof. intros D. rewrite collapse_edge_unfold. rewrite D. reflexivity. Qed.

Theorem collapse_edge_deferred_is_pre s heh : deferred s = true ->
  collapse_edge s heh = (do (s1, s3) <- collapse_pre s heh; Some (enable_deferred true s3, he_to s heh)).
Proof. intros D. rewrite collapse_edge_unfold. rewrite D. reflexivity. Qed.

(* ================================================================== 2. the tet step in every mode *)

Definition tslow (s : mesh) (o : top) : bool :=
  match o with
  | TK k => kslow s k
  | TCollapse _ => negb (deferred s) && negb (fast s)
  | _ => false
  end.

Definition thyp (s : mesh) (o : top) : Prop :=
  match o with
  | TK k => khyp s k
  | TCollapse he => forall s1 s3, collapse_pre (enable_deferred true s) he = Some (s1, s3) -> gc_ready s3
  | _ => True
  end.

Definition thyp_b (s : mesh) (o : top) : bool :=
  match o with
  | TK k => khyp_b s k
  | TCollapse he => match collapse_pre (enable_deferred true s) he with Some (_, s3) => gc_ready_b s3 | None => true end
  | _ => true
  end.

Lemma thyp_b_sound s o : thyp_b s o = true -> thyp s o.
Proof.
  destruct o; cbn [thyp_b thyp]; intros H; try exact I; [apply khyp_b_sound; exact H|].
  intros s1 s3 E. rewrite E in H. apply gc_ready_b_sound. exact H.
Qed.

Definition tet_setfc (o : top) : bool := match o with TK k => is_set_fc k | _ => false end.

Lemma shape_collapse_slow s he s' r : tet_shape s -> deferred s = false -> fast s = false -> thyp s (TCollapse he) ->
  collapse_edge s he = Some (s', r) -> tet_shape s'.
Proof.
  intros K D Fa H. rewrite (collapse_edge_immediate_is_deferred_then_collect s he D). unfold bind.
  destruct (collapse_pre (enable_deferred true s) he) as [[s1 s3]|] eqn:E; [|discriminate].
  intros X. inversion X; subst s' r. clear X.
  destruct (dshape_collapse_pre _ _ _ _ (dshape_enable_deferred_true s K D) E) as [_ [K3 D3]].
  unfold tet_shape. apply kshape_enable_deferred_any; [exact K3|]. intros _ _. exact (H s1 s3 E).
Qed.

Theorem tet_shape_step_all s o s' r :
  tet_shape s -> tet_setfc o = false -> (tslow s o = true -> thyp s o) -> tet_step s o = TOk s' r -> tet_shape s'.
Proof.
  intros K NS H St. destruct (outside_partial s o) eqn:O; [|exact (tet_shape_step s o s' r K O St)].
  unfold tet_step in St. destruct (tet_valid s o) eqn:V; [|discriminate].
  destruct (tet_exec s o) as [[s1 r1]|] eqn:E; [|discriminate]. inversion St; subst s1 r1. clear St.
  destruct o as [k|vs chk|a b c d chk|a b|a b c chk|hes chk|he]; cbn [outside_partial] in O; try discriminate.
  - cbn [tet_setfc] in NS. cbn [tslow thyp] in H. cbn [tet_valid] in V.
    destruct k; cbn [outside_partial] in O; try discriminate; cbn [is_set_fc] in NS; try discriminate;
      cbn [tet_exec] in E; some_inj E E';
      (eapply (kshape_exec_all 3 4); [exact K | exact V | reflexivity | exact H | | | | exact E']; intros; discriminate).
  - cbn [tslow thyp] in H. cbn [tet_exec] in E. unfold bind in E.
    destruct (collapse_edge s he) as [[s2 v]|] eqn:C; [|discriminate]. inversion E; subst s2 r. clear E.
    destruct (slow_modes s O) as [D Fa]. exact (shape_collapse_slow s he s' v K D Fa (H O) C).
Qed.

(* a history all of whose executed steps are tet operations (no set_face / set_cell) and whose slow physical removals
   happen in states satisfying the kernel hypothesis *)
Fixpoint all_along (s : mesh) (ops : list top) : Prop :=
  match ops with
  | [] => True
  | o :: t => match tet_step s o with
              | TOk s' _ => tet_setfc o = false /\ (tslow s o = true -> thyp s o) /\ all_along s' t
              | _ => all_along s t
              end
  end.

Fixpoint all_along_b (s : mesh) (ops : list top) : bool :=
  match ops with
  | [] => true
  | o :: t => match tet_step s o with
              | TOk s' _ => negb (tet_setfc o) && (negb (tslow s o) || thyp_b s o) && all_along_b s' t
              | _ => all_along_b s t
              end
  end.

Lemma all_along_b_sound : forall ops s, all_along_b s ops = true -> all_along s ops.
Proof.
  induction ops as [|o t IH]; intros s H; [exact I|]. cbn [all_along_b all_along] in *.
  destruct (tet_step s o) as [s' r| |]; try (apply IH; exact H).
  apply andb_true_iff in H. destruct H as [H H3]. apply andb_true_iff in H. destruct H as [H1 H2].
  split; [apply negb_true_iff; exact H1|]. split; [|apply IH; exact H3].
  intros T. rewrite T in H2. cbn [negb orb] in H2. apply thyp_b_sound. exact H2.
Qed.

Theorem tet_shape_run_from_all : forall ops s, tet_shape s -> all_along s ops -> tet_shape (tet_run_from s ops).
Proof.
  induction ops as [|o t IH]; intros s K H; [exact K|].
  unfold tet_run_from. cbn [fold_left]. fold (tet_run_from (match tet_step s o with TOk s' _ => s' | _ => s end) t).
  cbn [all_along] in H. destruct (tet_step s o) as [s' r| |] eqn:E.
  - destruct H as (NS & Hy & H). apply IH; [eapply tet_shape_step_all; eassumption | exact H].
  - apply IH; assumption.
  - apply IH; assumption.
Qed.

Theorem tet_shape_run_all ops : all_along empty_mesh ops -> tet_shape (tet_run ops).
Proof. apply tet_shape_run_from_all. apply tet_shape_empty. Qed.

(* the old class is a sub-class: an `inside_along` history never takes a slow removal step *)
Lemma outside_of_slow s o : tet_setfc o = true \/ tslow s o = true -> outside_partial s o = true.
Proof.
  destruct o as [k| | | | | |he]; cbn [tet_setfc tslow outside_partial]; try (intros [X|X]; discriminate).
  - destruct k; cbn [is_set_fc kslow]; intros [X|X]; try discriminate; try reflexivity; exact X.
  - intros [X|X]; [discriminate | exact X].
Qed.

Theorem inside_along_all_along : forall ops s, inside_along s ops -> all_along s ops.
Proof.
  induction ops as [|o t IH]; intros s H; [exact I|]. cbn [inside_along all_along] in *.
  destruct (tet_step s o) as [s' r| |]; try (apply IH; exact H). destruct H as [O H]. split; [|split; [|apply IH; exact H]].
  - destruct (tet_setfc o) eqn:X; [|reflexivity]. rewrite (outside_of_slow s o (or_introl X)) in O. discriminate.
  - intros X. rewrite (outside_of_slow s o (or_intror X)) in O. discriminate.
Qed.

(* ================================================================== 3. the unconditional statement is false *)

(* every step of the history is executed (valid arguments, no UB) and none is set_face / set_cell *)
Fixpoint all_executed (s : mesh) (ops : list top) : bool :=
  match ops with
  | [] => true
  | o :: t => match tet_step s o with TOk s' _ => negb (tet_setfc o) && all_executed s' t | _ => false end
  end.

(* two tetrahedra on the SAME halfface 0 (the second one added from its vertices without topology check; the library
   documents a halfface "already incident to another cell" as an intended non-manifold configuration): the halfface->cell
   cache can name only one of them, so delete_face(0) removes only the second tet; removing face 0 physically in the slow
   mode then filters halfface 0 out of the surviving first tet, which is left with THREE halffaces.
   Immediate slow deletion: *)
Definition shape_witness_immediate : list top :=
  [TK (AddVertices 5); TAddCellV [0; 1; 2; 3] true; TAddCellV [0; 1; 2; 4] false;
   TK (EnableFast false); TK (EnableDeferred false); TK (DelFace 0)].
(* deferred deletion, then a collection with fast deletion off: *)
Definition shape_witness_gc : list top :=
  [TK (AddVertices 5); TAddCellV [0; 1; 2; 3] true; TAddCellV [0; 1; 2; 4] false;
   TK (EnableFast false); TK (DelFace 0); TK CollectGarbage].

Lemma shape_witness_immediate_facts :
  all_executed empty_mesh shape_witness_immediate = true /\
  cells (tet_run (firstn 5 shape_witness_immediate)) = [[0; 2; 4; 6]; [0; 8; 10; 12]] /\
  cells (tet_run shape_witness_immediate) = [[0; 2; 4]] /\ live_c (tet_run shape_witness_immediate) 0 = true.
Proof. vm_compute. repeat split. Qed.

Lemma shape_witness_gc_facts :
  all_executed empty_mesh shape_witness_gc = true /\
  cells (tet_run (firstn 5 shape_witness_gc)) = [[0; 2; 4; 6]; [0; 8; 10; 12]] /\ cdel (tet_run (firstn 5 shape_witness_gc)) = [false; true] /\
  cells (tet_run shape_witness_gc) = [[0; 2; 4]] /\ live_c (tet_run shape_witness_gc) 0 = true.
Proof. vm_compute. repeat split. Qed.

(* full statement (refuted):  forall ops, all_executed empty_mesh ops = true -> tet_shape (tet_run ops) *)
Theorem tet_shape_unconditional_refuted :
  (exists ops, all_executed empty_mesh ops = true /\ deferred (tet_run ops) = false /\
               exists c, live_c (tet_run ops) c = true /\ length (cell_at (tet_run ops) c) = 3) /\
  (exists ops, all_executed empty_mesh ops = true /\ deferred (tet_run ops) = true /\
               exists c, live_c (tet_run ops) c = true /\ length (cell_at (tet_run ops) c) = 3).
Proof.
  split.
  - exists shape_witness_immediate. destruct shape_witness_immediate_facts as (a & _ & b & c).
    split; [exact a|]. split; [vm_compute; reflexivity|]. exists 0. split; [exact c|]. unfold cell_at. rewrite b. reflexivity.
  - exists shape_witness_gc. destruct shape_witness_gc_facts as (a & _ & _ & b & c).
    split; [exact a|]. split; [vm_compute; reflexivity|]. exists 0. split; [exact c|]. unfold cell_at. rewrite b. reflexivity.
Qed.

(* ... and the hypothesis of the step theorem is exactly what fails there *)
Example shape_witness_hypothesis_fails :
  thyp_b (tet_run (firstn 5 shape_witness_immediate)) (TK (DelFace 0)) = false /\
  thyp_b (tet_run (firstn 5 shape_witness_gc)) (TK CollectGarbage) = false.
Proof. vm_compute. split; reflexivity. Qed.

(* ================================================================== 4. non-vacuity: slow removals of every kind *)

(* a fan of three tets and a fourth one; fast deletion off: a deferred deletion + slow collection, immediate slow
   deletions of a face, a vertex and an edge (with renumbering of the survivors), a collapse in immediate slow mode, a swap *)
Definition slow_history : list top :=
  [TK (EnableFast false); TK (AddVertices 7);
   TAddCellV [0; 1; 2; 3] true; TAddCellV [0; 1; 3; 4] true; TAddCell4 0 1 4 5 true; TAddCellV [1; 2; 3; 6] true;
   TK (DelCell 3); TK CollectGarbage;
   TK (EnableDeferred false);
   TAddCellV [1; 2; 3; 6] true; TK (DelFace 12); TK (SwapC 0 2);
   TCollapse 4;
   TK (DelVertex 5); TAddCellV [0; 1; 2; 4] true; TK (DelEdge 0);
   TK (EnableDeferred true); TAddCellV [0; 1; 2; 3] true; TK (DelVertex 3); TK (EnableDeferred false)].

Example slow_history_all_along :
  all_along_b empty_mesh slow_history = true /\
  existsb (fun n => tslow (tet_run (firstn n slow_history)) (nth n slow_history (TK AddVertex))) (seq 0 (length slow_history)) = true /\
  length (filter (fun n => tslow (tet_run (firstn n slow_history)) (nth n slow_history (TK AddVertex))) (seq 0 (length slow_history))) = 6.
Proof. vm_compute. repeat split. Qed.

(* ================================================================== 5. the hex kernel *)

Definition hslow (s : mesh) (o : hop) : bool := match o with HK k => kslow s k | HAddCellV _ _ => false end.
Definition hhyp (s : mesh) (o : hop) : Prop := match o with HK k => khyp s k | HAddCellV _ _ => True end.
Definition hhyp_b (s : mesh) (o : hop) : bool := match o with HK k => khyp_b s k | HAddCellV _ _ => true end.
Definition hex_setfc (o : hop) : bool := match o with HK k => is_set_fc k | HAddCellV _ _ => false end.

Lemma hhyp_b_sound s o : hhyp_b s o = true -> hhyp s o.
Proof. destruct o; cbn [hhyp_b hhyp]; intros H; [apply khyp_b_sound; exact H | exact I]. Qed.

Theorem hex_shape_step_all s o s' r :
  hex_shape s -> hex_setfc o = false -> (hslow s o = true -> hhyp s o) -> hex_step s o = HROk s' r -> hex_shape s'.
Proof.
  intros K NS H St. destruct (outside_partial_hex s o) eqn:O; [|exact (hex_shape_step s o s' r K O St)].
  unfold hex_step in St. destruct (hex_valid s o) eqn:V; [|discriminate].
  destruct (hex_exec s o) as [s1 r1] eqn:E. inversion St; subst s1 r1. clear St.
  destruct o as [k|vs chk]; cbn [outside_partial_hex] in O; [|discriminate].
  cbn [hex_setfc] in NS. cbn [hslow hhyp] in H. cbn [hex_valid] in V.
  destruct k; cbn [outside_partial] in O; try discriminate; cbn [is_set_fc] in NS; try discriminate;
    cbn [hex_exec] in E;
    (eapply (kshape_exec_all 4 6); [exact K | exact V | reflexivity | exact H | | | | exact E]; intros; discriminate).
Qed.

Fixpoint all_along_hex (s : mesh) (ops : list hop) : Prop :=
  match ops with
  | [] => True
  | o :: t => match hex_step s o with
              | HROk s' _ => hex_setfc o = false /\ (hslow s o = true -> hhyp s o) /\ all_along_hex s' t
              | _ => all_along_hex s t
              end
  end.

Fixpoint all_along_hex_b (s : mesh) (ops : list hop) : bool :=
  match ops with
  | [] => true
  | o :: t => match hex_step s o with
              | HROk s' _ => negb (hex_setfc o) && (negb (hslow s o) || hhyp_b s o) && all_along_hex_b s' t
              | _ => all_along_hex_b s t
              end
  end.

Lemma all_along_hex_b_sound : forall ops s, all_along_hex_b s ops = true -> all_along_hex s ops.
Proof.
  induction ops as [|o t IH]; intros s H; [exact I|]. cbn [all_along_hex_b all_along_hex] in *.
  destruct (hex_step s o) as [s' r|]; try (apply IH; exact H).
  apply andb_true_iff in H. destruct H as [H H3]. apply andb_true_iff in H. destruct H as [H1 H2].
  split; [apply negb_true_iff; exact H1|]. split; [|apply IH; exact H3].
  intros T. rewrite T in H2. cbn [negb orb] in H2. apply hhyp_b_sound. exact H2.
Qed.

Theorem hex_shape_run_from_all : forall ops s, hex_shape s -> all_along_hex s ops -> hex_shape (hex_run_from s ops).
Proof.
  induction ops as [|o t IH]; intros s K H; [exact K|].
  unfold hex_run_from. cbn [fold_left]. fold (hex_run_from (match hex_step s o with HROk s' _ => s' | _ => s end) t).
  cbn [all_along_hex] in H. destruct (hex_step s o) as [s' r|] eqn:E.
  - destruct H as (NS & Hy & H). apply IH; [eapply hex_shape_step_all; eassumption | exact H].
  - apply IH; assumption.
Qed.

Theorem hex_shape_run_all ops : all_along_hex empty_mesh ops -> hex_shape (hex_run ops).
Proof. apply hex_shape_run_from_all. split; constructor. Qed.

Theorem inside_along_hex_all_along : forall ops s, inside_along_hex s ops -> all_along_hex s ops.
Proof.
  induction ops as [|o t IH]; intros s H; [exact I|]. cbn [inside_along_hex all_along_hex] in *.
  destruct (hex_step s o) as [s' r|]; try (apply IH; exact H). destruct H as [O H]. split; [|split; [|apply IH; exact H]].
  - destruct o as [k|]; [|reflexivity]. cbn [hex_setfc outside_partial_hex] in *.
    destruct (is_set_fc k) eqn:X; [|reflexivity]. rewrite (outside_of_slow s (TK k) (or_introl X)) in O. discriminate.
  - destruct o as [k|]; [|intros X; discriminate]. cbn [hslow outside_partial_hex] in *.
    intros X. rewrite (outside_of_slow s (TK k) (or_intror X)) in O. discriminate.
Qed.

(* the same non-manifold configuration with hexahedra: two cubes on the same halfface *)
Definition hex_all_executed := fix go (s : mesh) (ops : list hop) : bool :=
  match ops with
  | [] => true
  | o :: t => match hex_step s o with HROk s' _ => negb (hex_setfc o) && go s' t | _ => false end
  end.

Definition hex_shape_witness : list hop :=
  [HK (AddVertices 12); HAddCellV [0; 1; 2; 3; 4; 5; 6; 7] true; HAddCellV [0; 1; 2; 3; 8; 9; 10; 11] false;
   HK (EnableFast false); HK (EnableDeferred false); HK (DelFace 0)].

Theorem hex_shape_unconditional_refuted :
  exists ops, hex_all_executed empty_mesh ops = true /\
              exists c, live_c (hex_run ops) c = true /\ length (cell_at (hex_run ops) c) = 5.
Proof. exists hex_shape_witness. split; [vm_compute; reflexivity|]. exists 0. vm_compute. split; reflexivity. Qed.

Definition slow_history_hex : list hop :=
  [HK (EnableFast false); HK (AddVertices 16);
   HAddCellV [0; 1; 2; 3; 4; 5; 6; 7] true; HAddCellV [4; 7; 6; 5; 8; 11; 10; 9] true;
   HK (DelCell 1); HK CollectGarbage; HK (EnableDeferred false);
   HAddCellV [4; 7; 6; 5; 8; 11; 10; 9] true; HK (DelFace 1); HK (DelEdge 0); HK (DelVertex 5)].

Example slow_history_hex_all_along :
  all_along_hex_b empty_mesh slow_history_hex = true /\
  length (filter (fun n => hslow (hex_run (firstn n slow_history_hex)) (nth n slow_history_hex (HK AddVertex))) (seq 0 (length slow_history_hex))) = 4.
Proof. vm_compute. repeat split. Qed.
