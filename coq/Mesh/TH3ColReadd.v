(* Mesh/TH3ColReadd.v -- C15, collapse_edge, the invariant of the result: the third phase.
   1. the rebuilt cell (four image halffaces of a closed, tet-like old cell) passes the topology check of add_cell in the
      state after the first loop, provided no two live edges run between the images of two of its vertices (npar), and
      it contains no halfface together with its opposite;
   2. the re-adding loop keeps bu_inv2, szd and every col_closed predicate when each re-added cell is new_cell_ok at its
      turn - which follows from new_cell_ok in the state before the loop and pairwise different new halffaces. *)
From Coq Require Import ZArith Lia Bool Arith List ZifyNat ZifyBool.
From OVM Require Import Base.ListX Base.ListLemmas Kernel.State Kernel.Ops Kernel.Mirror Kernel.Recompute Kernel.Closure Kernel.Sizes
                        Kernel.ExactInv Kernel.ExactRun Kernel.DeferredDelete Kernel.CellCheck Kernel2.LookupModel Kernel2.AdjacentProofs
                        Kernel2.ReorderExact Kernel2.ExactBase Kernel2.ExactHistory Kernel2.ExactAddCell Kernel3.GcDefs Kernel4.AllHistory
                        Mesh.TetModel Mesh.TetProofs Mesh.TH2CollapseBase Mesh.TH2CollapseLoop Mesh.TH2CollapseFold Mesh.TH2CollapseStar
                        Mesh.TH2CollapseMain Mesh.TH2CollapseTuple Mesh.TH2CollapseFinal Mesh.TH3ColBase.
Import ListNotations.
Ltac Zify.zify_post_hook ::= Z.div_mod_to_equations.
Local Open Scope nat_scope.

(* ================================================================== list facts *)

Lemma NoDup_app_intro3 {A} (l1 l2 : list A) : NoDup l1 -> NoDup l2 -> (forall x, In x l1 -> ~ In x l2) -> NoDup (l1 ++ l2).
Proof.
  induction l1 as [|x l1 IH]; intros N1 N2 D; [exact N2|]. inversion N1 as [|? ? Nin N1']; subst. cbn [app]. constructor.
  - intros H. apply in_app_or in H. destruct H as [H|H]; [contradiction | exact (D x (or_introl eq_refl) H)].
  - apply IH; [exact N1' | exact N2 | intros y Hy; apply D; right; exact Hy].
Qed.

Lemma NoDup_concat_fop {A B} (f : A -> list B) l : (forall x, In x l -> NoDup (f x)) ->
  ForallOrdPairs (fun x y => forall g, In g (f x) -> In g (f y) -> False) l -> NoDup (concat (map f l)).
Proof.
  induction l as [|x l IH]; intros N FO; cbn [map concat]; [constructor|]. inversion FO as [|? ? FA FO']; subst.
  apply NoDup_app_intro3; [apply N; left; reflexivity | apply IH; [intros y Hy; apply N; right; exact Hy | exact FO']|].
  intros g Hg Hc. apply in_concat in Hc. destruct Hc as (m & Hm & Hgm). apply in_map_iff in Hm. destruct Hm as (y & <- & Hy).
  rewrite Forall_forall in FA. exact (FA y Hy g Hg Hgm).
Qed.

Lemma fop_forall2 {A B} (R : A -> B -> Prop) (S1 : A -> A -> Prop) (S2 : B -> B -> Prop) :
  (forall x y x' y', R x x' -> R y y' -> S1 x y -> S2 x' y') ->
  forall l m, Forall2 R l m -> ForallOrdPairs S1 l -> ForallOrdPairs S2 m.
Proof.
  intros H l m F. induction F as [|x x' l m Rx F IH]; intros FO; [constructor|].
  inversion FO as [|? ? FA FO']; subst. constructor; [|apply IH; exact FO'].
  clear IH FO FO'. induction F as [|y y' l m Ry F IH2]; [constructor|].
  inversion FA as [|? ? Sxy FA']; subst. constructor; [exact (H x y x' y' Rx Ry Sxy) | apply IH2; exact FA'].
Qed.

Lemma forall2_mono {A B} (R1 R2 : A -> B -> Prop) l m : (forall x y, R1 x y -> R2 x y) -> Forall2 R1 l m -> Forall2 R2 l m.
Proof. intros H. induction 1; constructor; auto. Qed.

Lemma forall2_with_in {A B} (R : A -> B -> Prop) l m : Forall2 R l m -> Forall2 (fun x y => In x l /\ R x y) l m.
Proof.
  induction 1 as [|x y l m Rxy F IH]; constructor; [split; [left; reflexivity | exact Rxy]|].
  refine (forall2_mono _ _ l m _ IH). intros u v [H1 H2]. split; [right; exact H1 | exact H2].
Qed.

Lemma forall2_in_l {A B} (R : A -> B -> Prop) l m x : Forall2 R l m -> In x l -> exists y, In y m /\ R x y.
Proof.
  induction 1 as [|u v l m Ruv _ IH]; intros Hin; [contradiction|].
  destruct Hin as [->|Hin]; [exists v; split; [left; reflexivity | exact Ruv]|].
  destruct (IH Hin) as (y & Hy & Py). exists y. split; [right; exact Hy | exact Py].
Qed.

Fixpoint fop_b (r : nat -> nat -> bool) (l : list nat) : bool :=
  match l with
  | [] => true
  | x :: t => forallb (r x) t && fop_b r t
  end.

Lemma fop_b_sound r l : fop_b r l = true -> ForallOrdPairs (fun x y => r x y = true) l.
Proof.
  induction l as [|x l IH]; intros H; [constructor|]. cbn [fop_b] in H. apply andb_true_iff in H. destruct H as [H1 H2].
  constructor; [apply Forall_forall; rewrite forallb_forall in H1; exact H1 | exact (IH H2)].
Qed.

Lemma mirror3_invol l : mirror3 (mirror3 l) = l.
Proof. destruct l as [|x [|y [|z [|]]]]; reflexivity. Qed.

(* ================================================================== tet-like cells *)

(* two halffaces of one cell: no common directed edge, not mirror images of each other *)
Definition tet_pair_b (s : mesh) (hf hf' : nat) : bool :=
  negb (shares_dir_b (hf_vertices s hf) (hf_vertices s hf')) && negb (mirror_b (hf_vertices s hf) (hf_vertices s hf')).

Definition tetc (s : mesh) (c : nat) : Prop := ForallOrdPairs (fun hf hf' => tet_pair_b s hf hf' = true) (cell_at s c).
Definition tetc_b (s : mesh) (c : nat) : bool := fop_b (tet_pair_b s) (cell_at s c).
Lemma tetc_b_sound s c : tetc_b s c = true -> tetc s c.
Proof. apply fop_b_sound. Qed.

(* ================================================================== 1. the rebuilt cell passes the check *)
Section ImgCell.
  Variables (a b : nat) (s t : mesh).
  Hypothesis Hab : a <> b.
  Hypothesis L0 : L1 a b s s.
  Hypothesis L : L1 a b s t.
  Variable Q : nat -> nat -> Prop.
  Hypothesis NP : npar Q t.

  Lemma live_tri_loop u hf : L1 a b s u -> hf / 2 < nf u -> f_deleted u (hf / 2) = false -> tri_loop u hf.
  Proof.
    intros (_ & _ & _ & _ & K & FLo & _) R D.
    destruct (halfface_three u hf (proj1 (kshape_live 3 4 u K) _ R)) as (g0 & g1 & g2 & E). exists g0, g1, g2.
    split; [exact E|]. exact (halfface_loop u hf g0 g1 g2 (FLo _ R D) E).
  Qed.

  (* the directed edges of an image halfface are the images of the directed edges of the old halfface *)
  Lemma img_dir V n g : img a b t V n -> In g (halfface t n) ->
    exists x y, cyc V x y /\ he_from t g = sub a b x /\ he_to t g = sub a b y.
  Proof.
    intros (R & D & RO) Hg. pose proof (tri_loop_cyc t n g (live_tri_loop t n L R D) Hg) as C.
    apply (proj2 (cyc_rot _ _ _ _ RO)) in C. apply cyc_map in C. exact C.
  Qed.

  Lemma dir_img V n x y : img a b t V n -> cyc V x y ->
    exists g, In g (halfface t n) /\ he_from t g = sub a b x /\ he_to t g = sub a b y.
  Proof.
    intros (R & D & RO) C. apply (cyc_tri_loop t n _ _ (live_tri_loop t n L R D)). apply (proj1 (cyc_rot _ _ _ _ RO)).
    apply cyc_map. exists x, y. auto.
  Qed.

  Lemma tri_three V : (exists x y z, V = [x; y; z] /\ NoDup [x; y; z] /\ ~ In b [x; y; z]) -> ~ In b V.
  Proof. intros (x & y & z & -> & _ & NB). exact NB. Qed.

  (* two image halffaces that are opposite halffaces come from mirror-image cycles *)
  Lemma mirror_img V V' n n' :
    (exists x y z, V = [x; y; z] /\ NoDup [x; y; z] /\ ~ In b [x; y; z]) ->
    (exists x y z, V' = [x; y; z] /\ NoDup [x; y; z] /\ ~ In b [x; y; z]) ->
    img a b t V n -> img a b t V' n' -> n' = opp n -> rot3 (mirror3 V) V'.
  Proof.
    intros (x & y & z & -> & _ & NB) (x' & y' & z' & -> & _ & NB') (R & D & RO) (_ & _ & RO') ->.
    rewrite (hf_vertices_opp t n (live_tri_loop t n L R D)) in RO'.
    apply rot3_mirror in RO. rewrite mirror3_map in RO.
    pose proof (rot3_trans _ _ _ RO (rot3_sym _ _ RO')) as X. cbn [mirror3] in X |- *.
    apply (rot3_map_sub_inv a b); [|exact NB' | exact X]. cbn [In] in *. tauto.
  Qed.

  Variable c : nat.
  Hypothesis Hc : c < nc s.
  Hypothesis Dc : c_deleted s c = false.
  Hypothesis OK : cell_ok b s c.
  Hypothesis QC : forall hf, In hf (cell_at s c) -> forall p q, In p (hf_vertices s hf) -> In q (hf_vertices s hf) -> Q (sub a b p) (sub a b q).
  Hypothesis TC : tetc s c.

  (* the old cell is closed on the level of vertices *)
  Lemma old_closed hf x y : In hf (cell_at s c) -> cyc (hf_vertices s hf) x y ->
    exists hf', In hf' (cell_at s c) /\ cyc (hf_vertices s hf') y x.
  Proof.
    intros Hin C. destruct (live_cell_hf a b s s c hf L0 Hc Dc Hin) as [R D].
    destruct (cyc_tri_loop s hf x y (live_tri_loop s hf L0 R D) C) as (g & Hg & Fg & Tg).
    pose proof L0 as (_ & B0 & _). destruct B0 as (_ & _ & _ & _ & _ & _ & CL & _).
    destruct (CL c Hc Dc hf Hin) as [_ AM]. specialize (AM g Hg).
    destruct (adj_matches s c hf g) as [|hf' r] eqn:EA; [discriminate|].
    assert (I : In hf' (adj_matches s c hf g)) by (rewrite EA; left; reflexivity).
    apply in_adj_matches in I. destruct I as (I1 & _ & _ & I4).
    exists hf'. split; [exact I1|]. destruct (live_cell_hf a b s s c hf' L0 Hc Dc I1) as [R' D'].
    pose proof (tri_loop_cyc s hf' (opp g) (live_tri_loop s hf' L0 R' D') I4) as C'.
    rewrite he_from_opp, he_to_opp, Fg, Tg in C'. exact C'.
  Qed.

  Variable nhfs : list nat.
  Hypothesis CI : cell_img a b s t c nhfs.

  Lemma F2_ : Forall2 (fun hf n => In hf (cell_at s c) /\ img a b t (hf_vertices s hf) n) (cell_at s c) nhfs.
  Proof. apply forall2_with_in. exact (cell_img_forall2 a b s t c nhfs CI). Qed.

  Lemma closure_hes g : In g (concat (map (halfface t) nhfs)) -> In (opp g) (concat (map (halfface t) nhfs)).
  Proof.
    intros Hg. apply in_concat in Hg. destruct Hg as (l & Hl & Hg). apply in_map_iff in Hl. destruct Hl as (n & <- & Hn).
    destruct (forall2_in_r _ _ _ n F2_ Hn) as (hf & _ & Hhf & I).
    destruct (img_dir _ n g I Hg) as (x & y & C & Fg & Tg).
    destruct (old_closed hf x y Hhf C) as (hf' & Hhf' & C').
    destruct (forall2_in_l _ _ _ hf' F2_ Hhf') as (n' & Hn' & _ & I').
    destruct (dir_img _ n' y x I' C') as (g' & Hg' & Fg' & Tg').
    destruct I as (R & D & _). destruct I' as (R' & D' & _).
    destruct (L1_hf_he a b s Hab t n g L R D Hg) as (r & d & _).
    destruct (L1_hf_he a b s Hab t n' g' L R' D' Hg') as (r' & d' & _).
    destruct (cyc_In _ _ _ C) as [Ix Iy].
    assert (E : g' = opp g).
    { apply (NP g' (opp g) r').
      - rewrite opp_div2. exact r.
      - exact d'.
      - rewrite opp_div2. exact d.
      - rewrite he_from_opp. congruence.
      - rewrite he_to_opp. congruence.
      - rewrite Fg', Tg'. exact (QC hf Hhf y x Iy Ix). }
    apply in_concat. exists (halfface t n'). split; [apply in_map; exact Hn' | rewrite <- E; exact Hg'].
  Qed.

  Lemma nodup_hes : NoDup (concat (map (halfface t) nhfs)).
  Proof.
    apply NoDup_concat_fop.
    - intros n Hn. destruct (forall2_in_r _ _ _ n F2_ Hn) as (hf & _ & _ & (R & D & _)). apply halfface_NoDup.
      pose proof L as (_ & B & _). exact (bu_inv2_simple t B _ R D).
    - refine (fop_forall2 _ _ _ _ (cell_at s c) nhfs F2_ TC).
      intros hf hf' n n' [Hhf I] [Hhf' I'] TP g Hg Hg'.
      destruct (img_dir _ n g I Hg) as (x & y & C & Fg & Tg).
      destruct (img_dir _ n' g I' Hg') as (x' & y' & C' & Fg' & Tg').
      pose proof (tri_three _ (OK hf Hhf)) as NB. pose proof (tri_three _ (OK hf' Hhf')) as NB'.
      destruct (cyc_In _ _ _ C) as [Ix Iy]. destruct (cyc_In _ _ _ C') as [Ix' Iy'].
      assert (Ex : x = x') by (apply (sub_inj_on a b); [intros ->; contradiction | intros ->; contradiction | congruence]).
      assert (Ey : y = y') by (apply (sub_inj_on a b); [intros ->; contradiction | intros ->; contradiction | congruence]).
      subst x' y'. unfold tet_pair_b in TP. rewrite (shares_dir_b_complete _ _ x y C C') in TP. discriminate.
  Qed.

  Lemma no_opp n : In n nhfs -> ~ In (opp n) nhfs.
  Proof.
    intros Hn Ho.
    assert (FO : ForallOrdPairs (fun n n' => n' <> opp n /\ n <> opp n') nhfs).
    { refine (fop_forall2 _ _ _ _ (cell_at s c) nhfs F2_ TC).
      intros hf hf' m m' [Hhf I] [Hhf' I'] TP. unfold tet_pair_b in TP. apply andb_true_iff in TP. destruct TP as [_ TP].
      apply negb_true_iff in TP. unfold mirror_b in TP. split; intros E.
      - pose proof (mirror_img _ _ m m' (OK hf Hhf) (OK hf' Hhf') I I' E) as X. apply rot3_b_complete in X. congruence.
      - pose proof (mirror_img _ _ m' m (OK hf' Hhf') (OK hf Hhf) I' I E) as X.
        apply rot3_mirror in X. rewrite mirror3_invol in X. apply rot3_sym in X. apply rot3_b_complete in X. congruence. }
    destruct (ForallOrdPairs_In FO n (opp n) Hn Ho) as [E|[[E _]|[_ E]]].
    - exact (opp_neq n (eq_sym E)).
    - apply E. reflexivity.
    - apply E. reflexivity.
  Qed.

  Theorem img_cell_check : cell_check t nhfs = true /\ (forall n, In n nhfs -> ~ In (opp n) nhfs).
  Proof.
    split; [|exact no_opp]. apply (proj2 (cell_check_spec t nhfs)). split.
    - destruct CI as (n0 & n1 & n2 & n3 & _ & _ & _ & _ & -> & _). discriminate.
    - split; [exact nodup_hes | exact closure_hes].
  Qed.
End ImgCell.

(* ================================================================== 2. the re-adding loop *)

Lemma cell_check_same s t hfs : faces t = faces s -> cell_check t hfs = cell_check s hfs.
Proof. intros F. unfold cell_check, halfface, face_at. rewrite F. reflexivity. Qed.

Section Readd.
  Variable P : mesh -> Prop.
  Hypothesis HP : col_closed P.

  Lemma readd_one t n : bu_inv2 t -> szd t -> tet_shape t -> P t -> length (snd n) = 4 -> new_cell_ok t (snd n) ->
    exists t', collapse_readd (Some t) n = Some t' /\ bu_inv2 t' /\ szd t' /\ tet_shape t' /\ P t' /\ same_defs t t' /\
      forall hf, cell_of t' hf = if memb hf (snd n) && (hf <? 2 * nf t) then Some (nc t) else cell_of t hf.
  Proof.
    intros B Z K Pt Ln N. pose proof N as [CK NW].
    assert (F3 : forallb (fun hf => length (face_at t (hf / 2)) =? 3) (snd n) = true).
    { apply forallb_forall. intros hf Hin. apply Nat.eqb_eq. apply (proj1 (kshape_live 3 4 t K)). exact (proj1 (NW hf Hin)). }
    pose proof (bu_inv2_add_cell t (snd n) B N) as B1. rewrite <- (add_cell_unchecked t (snd n) CK) in B1.
    pose proof (proj1 (proj2 (proj2 (proj2 (proj2 HP)))) t (snd n) Pt B N) as P1.
    pose proof (szd_add_cell t (snd n) false Z) as Z1.
    pose proof (kshape_add_cell 3 4 t (snd n) false K Ln) as K1.
    assert (AC : add_cell t (snd n) false = (fst (append_cell t (snd n)), Some (snd (append_cell t (snd n))))).
    { unfold add_cell. cbn [andb]. destruct (append_cell t (snd n)). reflexivity. }
    rewrite AC in B1, P1, Z1, K1. cbn [fst] in B1, P1, Z1, K1.
    pose proof (append_cell_defs t (snd n)) as V. cbv zeta in V.
    pose proof (inc_cell_append_cell t (snd n) (bu_inv2_fbu t B)) as [IC _].
    unfold collapse_readd, bind, tet_add_cell. rewrite Ln. cbn [Nat.eqb negb]. rewrite F3. cbn [negb andb]. rewrite AC.
    set (t1 := fst (append_cell t (snd n))) in *.
    exists (swap_prop_elems KC (fst n) (snd (append_cell t (snd n))) t1). split; [reflexivity|].
    split; [exact B1|]. split; [apply szd_swap_prop; exact Z1|].
    split; [destruct K1 as [A C]; split; assumption|].
    split; [apply (proj2 (proj2 (proj2 (proj2 (proj2 HP))))); exact P1|].
    destruct V as (v1 & v2 & v3 & v4 & v5 & v6 & v7 & v8 & v9).
    split; [repeat split; assumption|].
    intros hf. unfold cell_of. change (inc_cell (swap_prop_elems KC (fst n) (snd (append_cell t (snd n))) t1)) with (inc_cell t1).
    rewrite IC, nth_fold_upd. destruct (bu_inv2_lens t B) as (_ & _ & LI & _). rewrite (LI (bu_inv2_fbu t B)). reflexivity.
  Qed.

  Lemma readd_fold : forall news t, bu_inv2 t -> szd t -> tet_shape t -> P t ->
    (forall n, In n news -> length (snd n) = 4 /\ new_cell_ok t (snd n)) -> NoDup (concat (map snd news)) ->
    exists t', fold_left collapse_readd news (Some t) = Some t' /\ bu_inv2 t' /\ szd t' /\ tet_shape t' /\ P t' /\ same_defs t t'.
  Proof.
    induction news as [|n news IH]; intros t B Z K Pt H ND.
    - exists t. split; [reflexivity|]. repeat (split; [assumption|]). apply same_defs_refl.
    - cbn [fold_left]. destruct (H n (or_introl eq_refl)) as [Ln N].
      destruct (readd_one t n B Z K Pt Ln N) as (t1 & Q1 & B1 & Z1 & K1 & P1 & SD & CO). rewrite Q1.
      cbn [map concat] in ND. apply NoDup_app_parts in ND. destruct ND as (_ & ND2 & DJ).
      assert (IHH : forall n0, In n0 news -> length (snd n0) = 4 /\ new_cell_ok t1 (snd n0)); [|
        destruct (IH t1 B1 Z1 K1 P1 IHH ND2) as (t' & q & b' & z' & k' & p' & sd');
        exists t'; repeat (split; [assumption|]); exact (same_defs_trans t t1 t' SD sd')].
      intros m Hm. destruct (H m (or_intror Hm)) as [Lm [CKm NWm]]. split; [exact Lm|]. split.
      + rewrite (cell_check_same t t1); [exact CKm|]. destruct SD as (_ & _ & F & _). exact F.
      + intros hf Hhf. destruct (NWm hf Hhf) as (r & d & co & no).
        split; [rewrite (same_defs_nf t t1 SD); exact r|]. split; [rewrite (same_defs_f_deleted t t1 _ SD); exact d|].
        split; [|exact no]. rewrite CO.
        destruct (memb hf (snd n)) eqn:M; [|exact co]. exfalso. apply memb_In in M.
        apply (DJ hf M). apply in_concat. exists (snd m). split; [apply in_map; exact Hm | exact Hhf].
  Qed.
End Readd.

Print Assumptions img_cell_check.
Print Assumptions readd_fold.
