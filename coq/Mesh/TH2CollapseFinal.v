(* Mesh/TH2CollapseFinal.v -- C15, collapse_edge(a -> b), deferred deletion: decidable hypotheses, the statement through
   get_cell_vertices, and the untouched part of the mesh. *)
From Coq Require Import ZArith Lia Bool Arith List ZifyNat ZifyBool.
From OVM Require Import Base.ListX Base.ListLemmas Kernel.State Kernel.Ops Kernel.Mirror Kernel.Recompute Kernel.Closure Kernel.Sizes
                        Kernel.ExactInv Kernel.InvB Kernel.DeferredDelete Kernel.ShiftCompose Kernel2.AdjacentProofs Kernel2.ReorderExact Kernel2.ExactBase
                        Kernel3.GcDefs Kernel3.GcInv
                        Mesh.TetModel Mesh.TetProofs Mesh.TH2CollapseBase Mesh.TH2CollapseLoop Mesh.TH2CollapseFold Mesh.TH2CollapseStar
                        Mesh.TH2CollapseMain Mesh.TH2CollapseTuple.
Import ListNotations.
Ltac Zify.zify_post_hook ::= Z.div_mod_to_equations.
Local Open Scope nat_scope.

(* ================================================================== 1. decidable versions of the hypotheses *)

Definition kshape_b (kf kc : nat) (s : mesh) : bool :=
  forallb (fun f => length f =? kf) (faces s) && forallb (fun c => length c =? kc) (cells s).
Lemma kshape_b_sound kf kc s : kshape_b kf kc s = true -> kshape kf kc s.
Proof.
  unfold kshape_b. rewrite andb_true_iff, !forallb_forall. intros [A B]. split; apply Forall_forall; intros x Hx; apply Nat.eqb_eq; auto.
Qed.

Definition psized_b (n : nat) (l : list parray) : bool := forallb (fun p => length (pdata p) =? n) l.
Lemma psized_b_sound n l : psized_b n l = true -> psized n l.
Proof. unfold psized_b, psized. rewrite forallb_forall. intros H p Hp. apply Nat.eqb_eq. exact (H p Hp). Qed.

Definition szd_b (s : mesh) : bool :=
  (length (vdel s) =? nv s) && (length (edel s) =? length (edges s)) && (length (fdel s) =? length (faces s)) &&
  (length (cdel s) =? length (cells s)) &&
  psized_b (nv s) (pv s) && psized_b (length (edges s)) (pe s) && psized_b (2 * length (edges s)) (phe s) &&
  psized_b (length (faces s)) (pf s) && psized_b (2 * length (faces s)) (phf s) && psized_b (length (cells s)) (pc s) &&
  psized_b 1 (pm s).
Lemma szd_b_sound s : szd_b s = true -> szd s.
Proof.
  unfold szd_b, szd. rewrite !andb_true_iff, !Nat.eqb_eq. intros [[[[[[[[[[A B] C] D] E] F] G] H] I] J] K].
  repeat split; try assumption; apply psized_b_sound; assumption.
Qed.

Definition tri_ok_b (b : nat) (s : mesh) (hf : nat) : bool :=
  match hf_vertices s hf with
  | [x; y; z] => nodup_b [x; y; z] && negb (memb b [x; y; z])
  | _ => false
  end.
Lemma tri_ok_b_sound b s hf : tri_ok_b b s hf = true -> tri_ok b s hf.
Proof.
  unfold tri_ok_b, tri_ok. destruct (hf_vertices s hf) as [|x [|y [|z [|]]]]; try discriminate.
  rewrite andb_true_iff, negb_true_iff. intros [A B]. exists x, y, z. split; [reflexivity|]. split; [apply nodup_b_spec; exact A|].
  intros H. apply memb_In in H. congruence.
Qed.

Definition face_edges_live_b (s : mesh) : bool :=
  forallb (fun f => f_deleted s f || forallb (fun h => negb (e_deleted s (h / 2))) (face_at s f)) (seq 0 (nf s)).
Lemma face_edges_live_b_sound s : face_edges_live_b s = true -> face_edges_live s.
Proof.
  unfold face_edges_live_b, face_edges_live. rewrite forallb_forall. intros H f Hf D h Hh.
  specialize (H f ltac:(apply in_seq; lia)). rewrite D in H. cbn [orb] in H. rewrite forallb_forall in H.
  apply negb_true_iff. exact (H h Hh).
Qed.

Definition bu_inv2_b (s : mesh) : bool :=
  deferred s && ebu s && fbu s && vbu_ok_b s && ebu_ok_b s && fbu_ok_b s && refs_live_b s && lens_ok_b s &&
  slots_nodup_b s && cells_ref_live_b s && closed_all_b s && faces_simple_b s.
Lemma bu_inv2_b_sound s : bu_inv2_b s = true -> bu_inv2 s.
Proof.
  unfold bu_inv2_b. rewrite !andb_true_iff. intros [[[[[[[[[[[D E] F] A] B] C] G] H] I] J] K] M].
  unfold bu_inv2. split.
  { split; [apply vbu_ok_b_sound; exact A|]. split; [apply ebu_ok_b_sound; exact B|]. split; [apply fbu_ok_b_sound; exact C|].
    split; [apply refs_live_b_sound; exact G | apply lens_ok_b_sound; exact H]. }
  split; [exact E|]. split; [exact F|]. split; [exact D|]. split; [apply slots_nodup_b_sound; exact I|].
  split; [apply cells_ref_live_b_sound; exact J|]. split; [apply live_cells_closed_b; exact K | apply faces_simple_b_sound; exact M].
Qed.

Definition collapse_ready_b (s : mesh) (heh : nat) : bool :=
  bu_inv2_b s && szd_b s && vbu s && kshape_b 3 4 s && faces_loop_b s && face_edges_live_b s &&
  (heh / 2 <? ne s) && negb (e_deleted s (heh / 2)) && negb (he_from s heh =? he_to s heh) &&
  forallb (fun c => forallb (tri_ok_b (he_to s heh) s) (cell_at s c)) (rebuilt_cells s heh).

Theorem collapse_ready_b_sound s heh : collapse_ready_b s heh = true -> collapse_ready s heh.
Proof.
  unfold collapse_ready_b, collapse_ready. rewrite !andb_true_iff. intros [[[[[[[[[A B] C] D] E] F] G] H] I] J].
  split; [apply bu_inv2_b_sound; exact A|]. split; [apply szd_b_sound; exact B|]. split; [exact C|].
  split; [apply kshape_b_sound; exact D|]. split; [apply faces_loop_b_sound; exact E|]. split; [apply face_edges_live_b_sound; exact F|].
  split; [apply Nat.ltb_lt; exact G|]. split; [apply negb_true_iff; exact H|]. split; [apply Nat.eqb_neq, negb_true_iff; exact I|].
  rewrite forallb_forall in J. intros c Hc hf Hin. specialize (J c Hc). rewrite forallb_forall in J. apply tri_ok_b_sound. exact (J hf Hin).
Qed.

(* every rebuilt tet is a tetrahedron on its first two halffaces, and no two halffaces of rebuilt tets are on the same
   vertex cycle (the mesh is simplicial around a) *)
Definition two_faces_ok_b (s : mesh) (c : nat) : bool :=
  match cell_at s c with
  | h0 :: h1 :: _ => length (filter (outside (hf_vertices s h0)) (hf_vertices s h1)) =? 1
  | _ => false
  end.
Lemma two_faces_ok_b_sound s c : two_faces_ok_b s c = true -> two_faces_ok s c.
Proof.
  unfold two_faces_ok_b, two_faces_ok. destruct (cell_at s c) as [|h0 [|h1 r]]; try discriminate.
  destruct (filter _ _) as [|w [|]]; try discriminate. intros _. exists w. reflexivity.
Qed.

Definition rot3_b (l m : list nat) : bool :=
  match l, m with
  | [x; y; z], [p; q; r] => ((x =? p) && (y =? q) && (z =? r)) || ((y =? p) && (z =? q) && (x =? r)) || ((z =? p) && (x =? q) && (y =? r))
  | _, _ => false
  end.
Lemma rot3_b_complete l m : rot3 l m -> rot3_b l m = true.
Proof.
  destruct l as [|x [|y [|z [|]]]]; cbn [rot3]; try contradiction. intros [-> | [-> | ->]]; cbn [rot3_b]; rewrite !Nat.eqb_refl; cbn; rewrite ?orb_true_r; reflexivity.
Qed.

Fixpoint pw_nonrot_b (vss : list (list nat)) : bool :=
  match vss with
  | [] => true
  | v :: t => forallb (fun v' => negb (rot3_b v v')) t && pw_nonrot_b t
  end.

Definition rebuilt_halffaces (s : mesh) (heh : nat) : list nat := flat_map (cell_at s) (rebuilt_cells s heh).
Definition rebuilt_tets_ok_b (s : mesh) (heh : nat) : bool :=
  forallb (two_faces_ok_b s) (rebuilt_cells s heh) && pw_nonrot_b (map (hf_vertices s) (rebuilt_halffaces s heh)).

(* ================================================================== 2. the new halffaces are pairwise different *)
Section Distinct.
  Variables (a b : nat) (s s' : mesh).

  Lemma img_same_target vs vs' n : (exists x y z, vs = [x; y; z] /\ ~ In b vs) -> (exists x y z, vs' = [x; y; z] /\ ~ In b vs') ->
    img a b s' vs n -> img a b s' vs' n -> rot3 vs vs'.
  Proof.
    intros (x & y & z & -> & B1) (x' & y' & z' & -> & B2) (_ & _ & r1) (_ & _ & r2).
    apply (rot3_map_sub_inv a b); [exact B1 | exact B2|]. exact (rot3_trans _ _ _ r1 (rot3_sym _ _ r2)).
  Qed.

  Lemma nodup_images : forall hfs ns, Forall2 (fun hf n => img a b s' (hf_vertices s hf) n) hfs ns ->
    (forall hf, In hf hfs -> tri_ok b s hf) -> pw_nonrot_b (map (hf_vertices s) hfs) = true -> NoDup ns.
  Proof.
    induction 1 as [|hf n hfs ns I F IH]; intros TO PW; [constructor|].
    cbn [map pw_nonrot_b] in PW. apply andb_true_iff in PW. destruct PW as [P1 P2].
    constructor; [|apply IH; [intros h Hh; apply TO; right; exact Hh | exact P2]].
    intros Hin. destruct (forall2_in_r _ hfs ns n F Hin) as (hf' & Hhf' & I').
    destruct (TO hf (or_introl eq_refl)) as (x & y & z & V & _ & NB).
    destruct (TO hf' (or_intror Hhf')) as (x' & y' & z' & V' & _ & NB').
    assert (RO : rot3 (hf_vertices s hf) (hf_vertices s hf')).
    { apply (img_same_target _ _ n); [exists x, y, z; rewrite V; auto | exists x', y', z'; rewrite V'; auto | exact I | exact I']. }
    apply rot3_b_complete in RO. rewrite forallb_forall in P1. specialize (P1 (hf_vertices s hf') (in_map _ _ _ Hhf')).
    rewrite RO in P1. discriminate.
  Qed.
End Distinct.

Lemma cell_img_forall2 a b s s' c nhfs : cell_img a b s s' c nhfs ->
  Forall2 (fun hf n => img a b s' (hf_vertices s hf) n) (cell_at s c) nhfs.
Proof.
  intros (n0 & n1 & n2 & n3 & c0 & c1 & c2 & c3 & -> & -> & i0 & i1 & i2 & i3).
  constructor; [exact i0|]. constructor; [exact i1|]. constructor; [exact i2|]. constructor; [exact i3 | constructor].
Qed.

Lemma forall2_concat a b s s' : forall Rl N, length N = length Rl ->
  (forall k, k < length Rl -> cell_img a b s s' (nth k Rl 0) (nth k N [])) ->
  Forall2 (fun hf n => img a b s' (hf_vertices s hf) n) (flat_map (cell_at s) Rl) (concat N).
Proof.
  induction Rl as [|c Rl IH]; intros N L H; destruct N as [|n N]; try discriminate; [constructor|].
  cbn [flat_map concat]. apply Forall2_app.
  - exact (cell_img_forall2 a b s s' c n (H 0 ltac:(cbn; lia))).
  - apply IH; [cbn in L; lia|]. intros k Hk. exact (H (S k) ltac:(cbn; lia)).
Qed.

(* ================================================================== 3. the statement through get_cell_vertices *)
Section Final.
  Variables (s : mesh) (heh : nat).
  Hypothesis RDY : collapse_ready s heh.
  Hypothesis TOK : rebuilt_tets_ok_b s heh = true.
  Let a := he_from s heh.
  Let b := he_to s heh.
  Let R := rebuilt_cells s heh.

  Lemma R_tri c hf : In c R -> In hf (cell_at s c) -> tri_ok b s hf.
  Proof. destruct RDY as (_ & _ & _ & _ & _ & _ & _ & _ & _ & OK). intros H1 H2. exact (OK c H1 hf H2). Qed.

  Lemma R_live c : In c R -> c < nc s /\ c_deleted s c = false.
  Proof.
    intros H. unfold R in H. rewrite (R_filter s heh RDY) in H. apply filter_In in H. destruct H as [H _].
    exact (star_facts s heh c H).
  Qed.

  Theorem collapse_edge_deferred_tets : exists s',
    collapse_edge s heh = Some (s', b) /\ collapse_result s heh s' /\
    forall k, k < length R ->
      let c := nth k R 0 in let c' := nc s + k in
      live_c s c = true /\ live_c s' c' = true /\
      exists x y z w x' y' z',
        gcv_c s c = Some [x; y; z; w] /\ rot3 [sub a b x; sub a b y; sub a b z] [x'; y'; z'] /\
        gcv_c s' c' = Some [x'; y'; z'; sub a b w].
  Proof.
    destruct (collapse_edge_deferred_cells s heh RDY) as (s' & Q & CR). exists s'. split; [exact Q|]. split; [exact CR|].
    destruct CR as (E & F & N & r1 & r2 & r3 & r4 & r5 & r6 & r7 & r8 & r9 & r10 & r11).
    fold a b R in r9, r10, r11.
    apply andb_true_iff in TOK. destruct TOK as [T1 T2]. rewrite forallb_forall in T1.
    (* the new halffaces are pairwise different, so the cache names the new cells *)
    assert (ND : NoDup (concat N)).
    { apply (nodup_images a b s s' (flat_map (cell_at s) R) (concat N)).
      - apply forall2_concat; [exact r9|]. intros k Hk. exact (proj2 (r10 k Hk)).
      - intros hf Hin. apply in_flat_map in Hin. destruct Hin as (c & Hc & Hhf). exact (R_tri c hf Hc Hhf).
      - exact T2. }
    intros k Hk. cbv zeta. set (c := nth k R 0). set (c' := nc s + k).
    assert (HcR : In c R) by (apply nth_In; exact Hk). destruct (R_live c HcR) as [Hc Dc].
 destruct (r10 k Hk) as [Dn CI]. change (nth k R 0) with c in CI. change (nc s + k) with c' in Dn.
    assert (NC' : nc s' = nc s + length R) by (unfold nc; rewrite r4, app_length, r9; reflexivity).
    assert (CA' : cell_at s' c' = nth k N []).
    { unfold cell_at, c'. rewrite r4, app_nth2 by (unfold nc; lia). unfold nc. replace (length (cells s) + k - length (cells s)) with k by lia. reflexivity. }
    split; [unfold live_c; rewrite Dc; apply andb_true_iff; split; [apply Nat.ltb_lt; exact Hc | reflexivity]|].
    split; [unfold live_c; rewrite Dn; apply andb_true_iff; split; [apply Nat.ltb_lt; unfold c'; lia | reflexivity]|].
    (* the old tuple *)
    pose proof (two_faces_ok_b_sound s c (T1 c HcR)) as TF.
    pose proof CI as (n0 & n1 & n2 & n3 & c0 & c1 & c2 & c3 & EN & EC & _).
    destruct (R_tri c c0 HcR ltac:(rewrite EC; left; reflexivity)) as (x & y & z & V0 & ND0 & NB0).
    assert (CT : exists w, cell_tuple s c = [x; y; z; w]).
    { unfold two_faces_ok in TF. rewrite EC in TF. destruct TF as (w & FW). unfold cell_tuple. rewrite EC. cbv zeta.
      destruct (find (outside (hf_vertices s c0)) (hf_vertices s c1)) as [w'|] eqn:FF.
      - exists w'. rewrite V0. reflexivity.
      - exfalso. assert (In w (filter (outside (hf_vertices s c0)) (hf_vertices s c1))) as X by (rewrite FW; left; reflexivity).
        apply filter_In in X. destruct X as [X1 X2]. rewrite (find_none _ _ FF w X1) in X2. discriminate. }
    destruct CT as (w & CT).
    destruct (tuple_of_image a b s s' c (nth k N []) x y z w CI TF (fun hf H => R_tri c hf HcR H) CT c' CA') as (x' & y' & z' & RO & CT' & HV' & NE').
    exists x, y, z, w, x', y', z'. split; [|split; [exact RO|]].
    - (* get_cell_vertices on the old cell *)
      pose proof (L0_ s heh RDY) as L0. destruct L0 as (_ & B0 & _). destruct B0 as (_ & _ & _ & _ & _ & _ & CL & _).
      destruct (CL c Hc Dc c0 ltac:(rewrite EC; left; reflexivity)) as [CO _].
      assert (N01 : c0 <> c1).
      { intros <-. unfold two_faces_ok in TF. rewrite EC in TF. destruct TF as (w0 & FW).
        assert (In w0 (filter (outside (hf_vertices s c0)) (hf_vertices s c0))) as X by (rewrite FW; left; reflexivity).
        apply filter_In in X. destruct X as [X1 X2]. unfold outside in X2. apply negb_true_iff in X2. apply memb_In in X1. congruence. }
      apply (gcv_c_is_tuple s c c0 c1 [c2; c3] x y z w); [rewrite (nth_error_cell s c Hc), EC; reflexivity | exact N01 | | exact V0 | exact CT].
      apply (cell_of_nth_error s). exact CO.
    - (* get_cell_vertices on the new cell *)
      assert (CO' : cell_of s' n0 = Some c') by (apply (r11 ND k n0 Hk); rewrite EN; left; reflexivity).
      rewrite EN in HV', NE', CA'. cbn [nth] in HV', NE'.
      apply (gcv_c_is_tuple s' c' n0 n1 [n2; n3] x' y' z' (sub a b w)); [|exact NE' | apply (cell_of_nth_error s'); exact CO' | exact HV' | exact CT'].
      rewrite <- CA'. apply nth_error_cell. unfold c'. lia.
  Qed.

  (* ---------------------------------------------------------------- the untouched part: stored definitions and tuples of old cells *)
  Theorem collapse_edge_untouched s' : collapse_edge s heh = Some (s', b) ->
    (forall c, c < nc s -> cell_at s' c = cell_at s c /\ (In c (star s a) \/ c_deleted s' c = c_deleted s c)) /\
    (forall f, f < nf s -> face_at s' f = face_at s f) /\ (forall e, e < ne s -> edge_at s' e = edge_at s e) /\
    (forall c, c < nc s -> c_deleted s c = false -> cell_tuple s' c = cell_tuple s c).
  Proof.
    intros Q. destruct (collapse_edge_deferred_cells s heh RDY) as (s'' & Q' & CR). rewrite Q in Q'. injection Q' as <-.
    destruct CR as (E & F & N & r1 & r2 & r3 & r4 & r5 & r6 & r7 & r8 & _).
    assert (CA : forall c, c < nc s -> cell_at s' c = cell_at s c) by (intros c Hc; unfold cell_at; rewrite r4; apply app_nth1; exact Hc).
    assert (FA : forall f, f < nf s -> face_at s' f = face_at s f) by (intros f Hf; unfold face_at; rewrite r3; apply app_nth1; exact Hf).
    assert (EA : forall e, e < ne s -> edge_at s' e = edge_at s e) by (intros e He; unfold edge_at; rewrite r2; apply app_nth1; exact He).
    split; [|split; [exact FA|split; [exact EA|]]].
    - intros c Hc. split; [exact (CA c Hc)|]. rewrite (r8 c Hc). destruct (memb c (star s (he_from s heh))) eqn:M.
      + left. apply memb_In. exact M.
      + right. apply orb_false_r.
    - intros c Hc Dc. pose proof (L0_ s heh RDY) as L0.
      assert (HV : forall hf, In hf (cell_at s c) -> hf_vertices s' hf = hf_vertices s hf).
      { intros hf Hin. destruct (live_cell_hf _ _ s s c hf L0 Hc Dc Hin) as [Rf Df]. unfold hf_vertices, halfface.
        rewrite (FA _ Rf). apply map_ext_in. intros h Hh. unfold he_from. rewrite EA; [reflexivity|].
        assert (In h (halfface s hf)) as X by exact Hh.
        exact (proj1 (L1_hf_he _ _ s (Hab_ s heh RDY) s hf h L0 Rf Df X)). }
      unfold cell_tuple. rewrite (CA c Hc). destruct (cell_at s c) as [|h0 [|h1 r]] eqn:EC; try reflexivity.
      cbv zeta. rewrite (HV h0 ltac:(left; reflexivity)), (HV h1 ltac:(right; left; reflexivity)). reflexivity.
  Qed.

  (* ---------------------------------------------------------------- ... and through get_cell_vertices, when the cache of the result is exact *)
  (* (fbu_ok s': what the link condition buys - no rebuilt halfface lands on a halfface of a surviving tet; without it the
     statement is false: Mesh/TH2CollapseEx.v, untouched_gcv_without_link_condition_refuted) *)
  Theorem collapse_edge_untouched_gcv s' : collapse_edge s heh = Some (s', b) -> fbu s' = true -> fbu_ok s' ->
    forall c, c < nc s -> c_deleted s c = false -> ~ In c (star s a) -> gcv_c s' c = gcv_c s c.
  Proof.
    intros Q Fb FO c Hc Dc NS. destruct (collapse_edge_untouched s' Q) as (U1 & U2 & U3 & _).
    destruct (U1 c Hc) as [CA [X|CD]]; [contradiction|].
    destruct (collapse_edge_deferred_cells s heh RDY) as (s'' & Q' & CR). rewrite Q in Q'. injection Q' as <-.
    destruct CR as (E & F & N & r1 & r2 & r3 & r4 & _).
    pose proof (L0_ s heh RDY) as L0. pose proof L0 as (_ & B0 & _ & _ & K0 & _).
    destruct (four (cell_at s c) (proj2 (kshape_live 3 4 s K0) c Hc)) as (h0 & h1 & h2 & h3 & EC).
    assert (NE' : nth_error (cells s') c = Some [h0; h1; h2; h3]).
    { rewrite r4, nth_error_app1 by exact Hc. rewrite (nth_error_cell s c Hc), EC. reflexivity. }
    assert (NE0 : nth_error (cells s) c = Some [h0; h1; h2; h3]) by (rewrite (nth_error_cell s c Hc), EC; reflexivity).
    assert (HV : forall hf, In hf [h0; h1; h2; h3] -> hf_vertices s' hf = hf_vertices s hf /\ hf / 2 < nf s).
    { intros hf Hin. rewrite <- EC in Hin. destruct (live_cell_hf _ _ s s c hf L0 Hc Dc Hin) as [Rf Df]. split; [|exact Rf].
      unfold hf_vertices, halfface. rewrite (U2 _ Rf). apply map_ext_in. intros h Hh. unfold he_from. rewrite U3; [reflexivity|].
      assert (In h (halfface s hf)) as X by exact Hh. exact (proj1 (L1_hf_he _ _ s (Hab_ s heh RDY) s hf h L0 Rf Df X)). }
    assert (R0 : h0 / 2 < nf s) by (apply HV; left; reflexivity).
    assert (CO : cell_of s h0 = Some c).
    { apply (bu_inv2_fbu_ok s B0 (bu_inv2_fbu s B0) h0 (half_lt _ _ R0)). rewrite EC. split; [exact Hc|]. split; [exact Dc | left; reflexivity]. }
    assert (CO' : cell_of s' h0 = Some c).
    { assert (R0' : h0 < 2 * nf s') by (unfold nf; rewrite r3, app_length; unfold nf in R0; lia).
      apply (FO Fb h0 R0'). split; [unfold nc; rewrite r4, app_length; unfold nc in Hc; lia|]. split; [rewrite CD; exact Dc|]. rewrite CA, EC. left. reflexivity. }
    apply (cell_of_nth_error s) in CO. apply (cell_of_nth_error s') in CO'.
    unfold gcv_c, gcv_hf, bind, rd. rewrite NE', NE0. cbn [nth_error]. rewrite CO, CO', NE', NE0. cbn [nth_error].
    rewrite Nat.eqb_refl. cbn [negb].
    rewrite (proj1 (HV h0 ltac:(left; reflexivity))), (proj1 (HV h1 ltac:(right; left; reflexivity))). reflexivity.
  Qed.
End Final.
